#!/usr/bin/env python3
"""Regenerates /verif/MANIFEST.json from the table below (kept here so that the file stays valid and uniform)."""
import json
import os

VERIF = os.path.dirname(os.path.dirname(os.path.abspath(__file__)))
ALL = ["C%02d" % i for i in range(1, 21)]

CLAIMED = {
    "C12": {
        "text": "Full-strength Lean theorems over the model of bins.bins for ALL integer pairs and both conventions "
                "(integer result, out-of-range -> bin 1, containment + minimality of the single bin, exact membership "
                "characterisation of the bin set, bin-of-feature in bin-set-of-query for overlapping and for nested "
                "intervals without any well-ordering assumption); every Feature the line parser builds, and every row "
                "written to the table (also after the coordinates of a feature object were changed), carries exactly the "
                "bin of its coordinates, an integer or None for '.' coordinates (feature_bin, row_bin, "
                "row_bin_follows_coords, calcBin_eq_none_iff). The model is tied to bins.py by an exhaustive "
                "boundary-pair correspondence (every pair of coordinates within +-2 of bin boundaries at every level, "
                "0 and 2^29) plus random pairs, by a constants comparison with the live module, and Feature.bin is "
                "compared too. An independent interval-arithmetic oracle judges the real code. In addition bins() is tied "
                "the other way as well: tools/py2lean.py translates the source text of the imported bins.py into Lean on "
                "every run and GffProofs.Gen.bins_eq_model proves the model EQUAL to the translation for all integers, so the "
                "soundness theorems are restated of the translated function; when the source leaves the translator's "
                "fragment this tie is reported as unavailable and the correspondence alone decides (DESIGN 8.10). The stored "
                "bin is checked after every write path (replace, update, add_relation rewrite, merge_all, transform).",
        "note": "Trusted: Lean kernel + standard axioms; the hand-written model GffModel.Bins (23 lines), its "
                "correspondence (sampled, exhaustive on the boundary grid) and the translator tools/py2lean.py "
                "(Python int = Lean Int, >> = floor shift, a set of ints = a list observed through membership).",
        "technique": "Lean 4 theorems (omega over unrolled levels) + model proved equal to the Lean translation of the current "
                     "source of bins() + exhaustive boundary correspondence",
        "design_ref": "DESIGN.md §3 C12",
    },
}

CLAIMED["C07"] = {
    "text": "Lean theorems over the hand-written model of parser._split_keyvals (inferring path) and parser._reconstruct: "
            "for EVERY line specification accepted by the decidable grammar predicate LineSpec.WF (all separators, "
            "trailing semicolon, k=v / k v, quoting, repeated keys vs comma lists, flags, percent-escapes, any number "
            "of attributes/values) the inferring parser returns exactly the specified mapping and dialect "
            "(infer_render) and printing it with keep_order reproduces the attribute text byte for byte "
            "(reconstruct_render, print_parse_render_attrs). Line level: for every WF line specification (columns, '.' "
            "coordinates, extra columns) feature_from_line returns the specified Feature and printing it with keep_order "
            "reproduces the whole line byte for byte (parse_render_line, print_parse_render); with strict=False the "
            "space-separated rendering of a WFspaces specification parses to the same Feature (nonstrict_spaces). "
            "The model is tied to the code by rendered specs over all dialect combinations, an exhaustive malformed "
            "stream and the repository's data files; the oracle (byte comparison on the real code) judges exactly the "
            "WF specs.",
    "note": "Trusted: Lean kernel + standard axioms; the models of str.split/strip, re \\w (generated table, re-checked "
            "against the live re module every run), urllib unquote; the correspondence is sampled. The grammar (WF) is a "
            "judgement call and is printed in DESIGN.md §3 C07.",
    "technique": "Lean 4 theorems over a parser model (induction, split/join lemmas) + differential correspondence",
    "design_ref": "DESIGN.md §3 C07",
}
CLAIMED["C08"] = {
    "text": "Lean theorems: unquote(quote s) = s for every string; the attribute parser is total for every string "
            "(inferring path, and supplied dialects with non-empty separators; ValueError exactly for an empty "
            "separator); for every GFF3-style dialect dictionary (3 separators x trailing x repeated x quoted) and every "
            "mapping with distinct keys free of ';' '=' and non-empty lists of non-empty ARBITRARY strings, re-parsing "
            "the printed attributes with the same dialect returns the same mapping, and the printed text contains no "
            "tab/CR/LF; the same for quoted GTF dialects with values free of ';' and ','. The unquoted-GTF case fails "
            "on the real code (known finding D14; negation witness proved in Lean). Feature level: for every Feature "
            "with tab/CR/LF-free columns, extra columns and keys (any coordinates incl. '.', any number of extra "
            "columns) in a GFF3-style or quoted-GTF dialect, str(feature) is the tab-join of the nine specified columns "
            "plus the extra columns, contains exactly 8 + len(extra) tabs and no line break, and re-parsing it with the "
            "same dialect returns the same Feature (all columns, attributes, extra, dialect; bin recomputed) "
            "(feature_print_reparse_gff3 / _gtf / _no_attrs, printReparse_columns). Correspondence: 36 dialect "
            "dictionaries x Unicode mappings, every code point for the isspace / \\w / splitlines tables, all 1-2 byte "
            "percent escapes, exhaustive short strings; oracle: re-parse equality, tab count, no exception.",
    "note": "Trusted: Lean kernel + standard axioms; model of urllib.parse.unquote incl. CPython's UTF-8 'replace' decoder "
            "(validated, not verified; the round-trip theorems do not depend on its behaviour on invalid input); "
            "correspondence is sampled.",
    "technique": "Lean 4 theorems (structural induction over strings and mappings) + differential correspondence",
    "design_ref": "DESIGN.md §3 C08",
}
CLAIMED["C09"] = {
    "text": "Lean theorems: per-line recovery (C07.infer_render: the inferred dialect of a WF line is exactly the "
            "dialect it was written in, incl. fmt, separators, quoting, trailing semicolon, repeated keys, key order); "
            "helpers._choose_dialect is the weighted majority with ties to the value seen first (vote_spec), a "
            "unanimous window returns that dialect (choose_consistent), the key order is the duplicate-free first-seen "
            "concatenation, empty input gives constants.dialect; a supplied dialect is returned and stamped on every "
            "feature verbatim, every line is parsed with it and the result does not depend on checklines "
            "(supplied_verbatim, supplied_ignores_checklines); without one the reported dialect is the vote over the "
            "window (inferred_is_vote); create_db routes to the GFF importer iff force_gff or fmt = gff3, to the GTF "
            "importer iff fmt = gtf and not force_gff, and fails otherwise (routing); a file whose window lines are "
            "all written in one dialect is voted exactly that dialect and routed accordingly "
            "(consistent_file_dialect, consistent_file_fmt); the dialect a database reports - in the session and after every "
            "reopening - is the dialect of the input it was created from, whatever is imported later with whatever "
            "configuration, and update keeps choosing the importer by the creation format (history_dialect, "
            "history_update_branch: FeatureDB reads the first meta row, every update appends one). Correspondence + oracle: infer_dialect on rendered "
            "specs, _choose_dialect on two-value mixtures with weights 0-5 (all ties), DataIterator.dialect for files "
            "and every checklines, supplied dialect verbatim, FeatureDB.dialect after import and reopen, GFF3/GTF "
            "routing.",
    "note": "Trusted: Lean kernel + standard axioms; stability of Python's sorted(reverse=True) is part of the model; the "
            "window is the first checklines+1 feature lines (Iter model, validated).",
    "technique": "Lean 4 theorems (invariant over the tally fold) + differential correspondence",
    "design_ref": "DESIGN.md §3 C09",
}

CLAIMED["C02"] = {
    "text": "Lean theorems over the importer/query model: for EVERY GFF3 annotation with unique single-valued IDs (any "
            "number of features, any Parent values incl. shared, repeated, forward and dangling ones) create_db succeeds, "
            "stores every line once in order, and the relations table is exactly {(p,c,1) | p in Parent(c)} plus "
            "{(p,c,2) | p stored, two level-1 steps} with no duplicates (import_relations_exact); any permutation of the "
            "lines gives the same relation set (order_independent); children/parents return exactly the stored rows "
            "related at the requested level, each once, and parents is the inverse of children (relation_query_exact, "
            "parents_inverse); no feature is its own relative on acyclic input (not_self). For arbitrary query arguments "
            "(featuretype string or collection, strand, limit, order_by, reverse) children/parents return exactly the "
            "related stored rows that match, each once, sorted by the requested keys (in input order without order_by), "
            "and parents stays the inverse (relation_query_exact_q, relation_query_sorted, relation_query_unordered, "
            "relation_query_featuretype, relation_query_limit_exact, parents_inverse_q). The update path: create_db of a "
            "first batch followed by any number of update() calls (any strategy and dialect per batch, Parent values "
            "pointing across batches in both directions) yields the same rows in the same order and the same relation set "
            "as one create_db of the concatenation, i.e. the Parent graph of the union, without duplicate rows "
            "(update_preserves_relspec, update_equiv_create, updates_equiv_create, updates_relation_query_exact). "
            "Correspondence end-to-end "
            "(the model imports the same text) on DAGs of depth <= 4 under all permutations of <= 6 lines; oracle: set "
            "algebra on the Parent attributes, incl. featuretype/order_by arguments and iter_by_parent_childs.",
    "note": "Trusted: Lean kernel + standard axioms; the list model of the sqlite tables (PRIMARY KEY, INSERT OR IGNORE, "
            "JOIN DISTINCT) and of the importer, validated by sampled correspondence; ids free of tab/outer blanks.",
    "technique": "Lean 4 theorems (fold invariants over the importer model) + differential correspondence",
    "design_ref": "DESIGN.md §3 C02",
}
CLAIMED["C04"] = {
    "text": "Lean theorems over the model of _id_handler and the tables: the key is the single value of the first usable "
            "listed attribute; ':field:' specs give the column; a callable's truthy value is used as is, "
            "'autoincrement:X' gives X_n, a falsy value falls through; dict entries per featuretype, a missing entry and "
            "'nothing applies' give <featuretype>_<n> with n counting 1,2,... per featuretype in input order "
            "(default_numbering); a listed attribute with several values is rejected with ValueError, never truncated - also at line level when the "
            "values come from REPEATING the key (ID=a;ID=b): both parsers, inferring and with a supplied dialect whatever its "
            "repeated-keys flag, collect the values of every occurrence in order, so the id handler rejects the line "
            "wherever it sits relative to the inspection window (repeated_id_line_rejected, lineSpec_multi_id_provided / "
            "_inferred); "
            "every table operation of both importers keeps ids pairwise distinct (populateGff_nodup, populateGtf_nodup); "
            "db[key] returns exactly the row stored under key and an absent key raises FeatureNotFoundError. "
            "Correspondence end-to-end for every id_spec form (default, string, list, ':field:', callable zoo, dict) "
            "over features that have/lack/multiply define the attributes; oracle: keys recomputed from the property text, "
            "uniqueness, look-ups.",
    "note": "Trusted: Lean kernel + standard axioms; callables are a fixed zoo mirrored in Lean for the correspondence "
            "(the theorems quantify over arbitrary functions); sqlite PRIMARY KEY modelled.",
    "technique": "Lean 4 theorems (structural recursion over the key list, fold invariants) + differential correspondence",
    "design_ref": "DESIGN.md §3 C04",
}
CLAIMED["C06"] = {
    "text": "Lean theorems: for every session whose rows carry the bin of their coordinates (BinInv, preserved by every "
            "write operation) and every query 1 <= a <= b of ANY magnitude, region(completely_within) returns exactly the "
            "rows with a <= start and end <= b, region (overlap) exactly those with start <= b and end >= a, and the "
            "limit= clause of make_query equals the plain predicate - the bin pre-filter is transparent wherever the code "
            "applies it (from C12's bin_sound_overlap / bin_sound_within) and is applied only in range; one-sided bounds "
            "are exact half-line tests; rows with '.' coordinates are never returned. Unit-layer correspondence (model "
            "tables loaded from the real database) with feature and query ends on/next to every bin boundary, at and "
            "beyond 2^29, all query forms; oracle: brute-force filter.",
    "note": "Trusted: Lean kernel + standard axioms; the meaning of the generated SQL (NULL comparisons false, INT "
            "affinity) is modelled, validated by the correspondence. Three defects repaired in /repo (2^29 guards, "
            "garbled overlap OR).",
    "technique": "Lean 4 theorems (omega over bin arithmetic via C12, whose bins() model is proved equal to the Lean "
                 "translation of the current bins.py) + unit-layer differential correspondence (incl. the theorems' "
                 "hypothesis BinInv checked on every imported database)",
    "design_ref": "DESIGN.md §3 C06",
}
CLAIMED["C11"] = {
    "text": "Lean theorems: the result of all_features/features_of_type is a permutation of the rows matching "
            "featuretype (string or collection) and strand (query_perm_filter), pairwise ordered by the ORDER BY relation "
            "under sqlite's type order NULL < INTEGER < TEXT with code-point text order, proved total and transitive for "
            "every key list and reverse (query_sorted, query_sorted_single); without order_by rows come in input order; "
            "count_features_of_type equals the number iterated; featuretypes()/seqids() are exactly the distinct values. "
            "SQL text layer (GffModel/Sql.lean, the property's own mechanism 'text and arguments assembled in lock-step'): "
            "helpers.make_query, FeatureDB._relation, region and the counting queries are modelled down to the text they "
            "hand to sqlite; the text is the rendering of a small SQL AST (makeQuery_text, relation_text, region_text), the "
            "number of '?' equals the number of arguments and every placeholder is bound to the value meant for its clause "
            "(lockstep, lockstep_count, lockstep_relation, lockstep_region, lockstep_general), and the textbook evaluation "
            "of the generated statement returns exactly what the meaning-level model returns - same rows, same order - "
            "for all databases and accepted arguments (eval_makeQuery_eq_runQuery, eval_relation_eq_runRelation, "
            "eval_region_eq_region, eval_count_eq_countFeatures), so the C11/C06/C02 theorems are statements about the "
            "generated SQL. Hypotheses, each with a proved witness of necessity: order_by names a known column, text "
            "coordinates are plain integer literals, region() has at least one position restriction. "
            "Unit-layer correspondence over mixed-case / non-ASCII seqids, numeric-looking text, ties and '.' "
            "coordinates, every column as string, 1-tuple and in pairs; the statements actually executed by the real methods "
            "(recorded through a proxy on db.conn) compared byte for byte with the model's text and arguments, and the "
            "model's evaluation compared with sqlite's rows; oracle: brute-force filter and sortedness.",
    "note": "Trusted: Lean kernel + standard axioms; sqlite's ORDER BY semantics (type order, BINARY collation, DESC "
            "binding to the last term) modelled, validated by the correspondence; order among ties unspecified; the "
            "'attributes'/'extra' sort keys are judged by the oracle only.",
    "technique": "Lean 4 theorems (mergeSort permutation/sortedness with a proved total preorder; text -> AST -> meaning refinement of the generated SQL) + correspondence on executed statements",
    "design_ref": "DESIGN.md §3 C11",
}

CLAIMED["C17"] = {
    "text": "Lean theorems for all inputs: scalars are wrapped into one-item lists however set (mapping, constructor, "
            "update, through the Feature); the always_return_list switch changes only the view of one-item lists and "
            "never the store; text-level JSON round trip (model of simplejson dumps/loads incl. \\uXXXX escapes and "
            "surrogate pairs) with key order for every Unicode mapping with distinct keys and for the extra list; "
            "merge_attributes returns the uniquely determined sorted duplicate-free union with keys a1 ++ new(a2), in "
            "numeric or string order, for dict and Attributes arguments; ==, != and hash are those of the printed line. "
            "Correspondence: JSON text byte for byte over every code point, decode of generated and hand-written JSON, "
            "merge_attributes under both switch settings; oracle: stdlib json, Fraction arithmetic, set algebra, "
            "before/after snapshots of the arguments, a database round trip. Four defects of this family were repaired.",
    "note": "Trusted: Lean kernel + standard axioms; hand-written models of simplejson 4.1's text form and of float() on "
            "decimals of at most 15 digits (validated, not verified); inf/nan/exponents/underscores and lone surrogates "
            "are outside the modelled grammar; tuples inside merge_attributes arguments unmodelled.",
    "technique": "Lean 4 theorems (well-founded JSON parser round trip, dict-fold invariants) + differential correspondence",
    "design_ref": "DESIGN.md §3 C17",
}

CLAIMED["C10"] = {
    "text": "Lean theorems over the session model: delete removes exactly the rows with the given ids and every relation "
            "naming one of them and nothing else (delete_exact); update with no features is the identity; for a GFF3 "
            "database and fresh unique ids, update refines the reference model (old rows ++ new rows; level-1 = old + "
            "Parent links; level-2 = old + two level-1 steps from a stored feature) and every finite history of "
            "update / delete / add_relation / reopen steps in that domain refines the fold of the reference steps "
            "(history_refines_spec); counters only move forward under every importer stage and strategy, are written "
            "back and re-read on reopen, and no generated key is ever handed out twice, across bases and reopenings "
            "(counters_monotone, reopen_counters, keys_never_recycled with injectivity of the decimal rendering); with "
            "make_backup the .bak equals the pre-operation file for every write op, every failure position and every "
            "possible effect of the failed write on the main file (backup_complete). Updates WITH key collisions refine "
            "the reference for every merge_strategy: warning keeps the first arrival, replace the last at the first "
            "position, create_unique appends under fresh <key>_n and advances exactly those counters, error aborts with "
            "ValueError, merge refines the grouping reference of C05 (update_refines_spec_strategies, "
            "update_strategies_levels, update_error_collision, update_merge_refines_spec; the level-2 closure is "
            "preserved). GTF updates: create + update equals create from the concatenated file when gene/transcript "
            "inference is disabled (update_after_create_gtf); with inference ON (update_gtf_exact, history_gtf, for any "
            "number of updates and any flags per update): stored rows - also derived ones, with the extent they were given "
            "when first derived (created_transcript_frozen: the real code does NOT re-span a derived transcript or gene "
            "that gains exons later) - stay in place, the new lines are appended under keys that continue the numbering, "
            "derived rows are added exactly for the ids that had none, the relation set is exactly that of the whole "
            "history, ids stay distinct and no generated key can be handed out again; needs that no transcript/gene id "
            "extended by _<n> is itself an id (SuffixOk, necessity proved and replayed on the real code). The state of "
            "the main file after a failed update is left unspecified, except that keys handed out for rows it committed "
            "are never handed out again, also after reopening (oracle; defect D23, repaired). Correspondence: exhaustive "
            "depth-2 histories over a 9-op alphabet plus random depth <= 8 on file databases, full table dump after every "
            "step; histories with updates failing part-way (source raising at every position, id clashes that commit "
            "mid-import) followed by further updates, deletes and reopenings; the World model (files, .bak, failing "
            "writes) driven with the same scripts; a loaded database with non-empty counters; oracle: independent "
            "dict/set reference, counter table vs keys handed out, .bak comparison with the source failing at every "
            "position.",
    "note": "Trusted: Lean kernel + standard axioms; list model of the sqlite tables and of the two-connection update "
            "(commit points abstracted); shutil.copy2 of a quiescent file.",
    "technique": "Lean 4 refinement to an abstract spec + invariants over operation histories + differential correspondence",
    "design_ref": "DESIGN.md §3 C10",
}
CLAIMED["C19"] = {
    "text": "Thin by nature: in the pure World model create_db on an occupied path without force returns "
            "OperationalError and leaves every file unchanged, with force (or a free path) the file becomes the import "
            "of the new input alone, independent of the old content; every read-style operation leaves files, session "
            "tables, counters, dialect and directives unchanged (reads_do_not_write = the classification of operations). "
            "The weight is carried by the tie to the code: an sqlite3 statement trace on FeatureDB.conn during random "
            "sequences of read-style calls (look-up, iteration, children, parents, region, interfeatures, "
            "create_introns, create_splice_sites, merge, children_bp, bed12, counts) must show no write statement, and "
            "the content after reopening must be unchanged; (old, new) pairs for both force settings, database file names "
            "with several extensions, inputs with auto-numbered features and directives, all calls of a pair in one "
            "process, the forced result compared with a fresh import of the new input alone; every pair is also run "
            "through the World model (protocol command `world`) and the files left on disk compared with the model's. "
            "At the level of the generated SQL (GffModel/Sql.lean): every statement the read-style builders produce - "
            "make_query for all_features/features_of_type, _relation, region, the count and distinct queries, for all "
            "arguments - is a single SELECT statement (reads_are_selects, render_is_select), and the executed texts are "
            "compared with the model's byte for byte (C11).",
    "note": "Trusted: Lean kernel + standard axioms; set_trace_callback reports every statement; 'content' = what a "
            "fresh FeatureDB observes (pragmas/header bytes are not content). interfeatures/merge/bed12 are classified "
            "as reads by the trace, not by the World model.",
    "technique": "Lean 4 theorems over a file-map state machine + sqlite statement trace on the real code",
    "design_ref": "DESIGN.md §3 C19",
}
CLAIMED["C20"] = {
    "text": "Partial by nature: Lean theorems over an abstract interleaving model (GffModel/Conc.lean) - N processes each "
            "running mkstemp, write, read, unlink, writeOutput on a shared temp directory with arbitrary initial content, "
            "a scheduler picking the process and an adversary picking the fresh name (accepted only if unused = O_EXCL): "
            "for EVERY N, schedule and name choice, held names are pairwise distinct and owned (ownership), every process "
            "reads back its own payload and its output equals its solitary run's (isolation), when all have finished the "
            "directory equals the initial one (cleanup), no deadlock (progress), and readers never change the file; a "
            "negative control shows the freshness assumption is exactly what is needed. Tie to the code: trace "
            "conformance of one real GFF3 and one real GTF import under an audit hook (mkstemp -> open w -> open r -> "
            "unlink of one uniquely named file, nothing left), the recorded traces and every forced interleaving replayed "
            "through Conc.step (protocol command `conc`: directory and held names after every step), real runs with "
            "2..2xcores processes, staggered starts, mixed inputs incl. GTF with inference disabled, shared TMPDIR (each "
            "database equals the solitary run, directory empty), forced interleavings (one import parked between writing "
            "and re-reading its intermediate file while another runs to completion), concurrent readers.",
    "note": "Trusted: Lean kernel + standard axioms; OS scheduling, sqlite file locking and tempfile uniqueness are "
            "runtime behaviour the model cannot exhibit (sampled only). Known finding D15: the from_string form leaks its "
            "temp copy.",
    "technique": "Lean 4 invariant over all interleavings of an abstract model + trace conformance + real concurrent runs",
    "design_ref": "DESIGN.md §3 C20",
}
CLAIMED["C18"] = {
    "text": "Lean theorems: len = end-start+1 (TypeError on '.'); sequence() = bases start..end of the named sequence, "
            "reverse-complemented iff strand '-' and use_strand, length = len, complement an involution; bed12 equals "
            "the specified twelve-field line (chromStart=start-1, chromEnd=end, one block per block child in ascending "
            "order or the feature itself, sizes = lengths, starts relative to chromStart with first 0 and the last block "
            "ending at chromEnd, thick bounds from the first/last thick (or thin) child) whenever the blocks span the "
            "feature, raises ValueError iff they do not (or both thick and thin are given), FeatureNotFound for an absent "
            "id, and depends only on the stored row (id or Feature argument alike); to_bed12 likewise. Unit-layer "
            "correspondence on random transcripts and a random reference; oracle: field arithmetic from the property.",
    "note": "Trusted: Lean kernel + standard axioms; pyfaidx slicing and complement modelled on ACGTNacgtn; block/thick "
            "children with pairwise different starts (SQL leaves ties unordered).",
    "technique": "Lean 4 theorems (implementation = specification of the BED12 line) + unit-layer correspondence",
    "design_ref": "DESIGN.md §3 C18",
}
CLAIMED["C15"] = {
    "text": "Lean theorems over the model of FeatureDB.interfeatures for all feature lists with integer coordinates: the "
            "output is exactly filterMap of the gap function over consecutive pairs (one feature previous.end+1 .. "
            "next.start-1 per same-seqid pair with a base between; none for touching, overlapping, nested pairs or "
            "across a seqid change), N features with positive gaps give N-1, and every column of an interfeature "
            "(featuretype, strand, attributes = per-key sorted duplicate-free union then update_attributes, several ID "
            "values joined by '-', recomputed bin). create_introns is exactly the concatenation, over the level-1 children of each "
            "grandparent feature (or the parent_featuretype features) in table order, of the interfeatures of their "
            "start-ordered exon children, with the gap geometry (prev.end+1, next.start-1) per consecutive pair "
            "(introns_exact, introns_geometry); create_splice_sites is all left sites [start,start+1] followed by all "
            "right sites [end-1,end] of those introns, labelled five/three prime by side and transcript strand, ID "
            "prefixed when present, twice as many as introns (splice_sites_exact, splice_sites_count, "
            "splice_sites_nomerge for merge_attributes=False - a repaired KeyError found by this proof). Correspondence: exhaustive small geometries, random lists with all "
            "option combinations.",
    "note": "Trusted: Lean kernel + standard axioms; float() restricted to the decimal grammar; always_return_list=True; "
            "attribute_func=None.",
    "technique": "Lean 4 loop-invariant theorems + exhaustive/random differential correspondence",
    "design_ref": "DESIGN.md §3 C15",
}
CLAIMED["C16"] = {
    "text": "Lean theorems over the model of FeatureDB.merge for all criteria lists and inputs: order-preserving "
            "partition (every input is yielded unchanged or is a child of exactly one merged output), the greedy "
            "characterisation (a feature joins the run iff every criterion accepts (run so far, feature, children)), "
            "span min start..max end, fresh pairwise-distinct ids, and for one class under the default criteria the "
            "exact interval union (maximal runs of overlapping-or-adjacent intervals, separated by at least one uncovered "
            "base); independence from the children attributes and idempotence on re-used objects (repaired D9, with a "
            "proved witness of the old failure). children_bp is the summed child lengths, or with merge (one class, default criteria) "
            "the number of covered positions (children_bp_sum, children_bp_union); merge_all appends exactly one row per "
            "multi-member run and either re-parents its members and adds exactly their level-1 relations or deletes "
            "exactly the members and every relation naming them, leaving everything else and the persistent counters "
            "untouched (merge_all_effect). Correspondence: all 91 390 start-ordered multisets of <= 4 intervals "
            "over 8 positions (thorough), random lists, every shipped criterion and threshold, re-used objects. "
            "The criteria themselves are tied to the source both ways: tools/py2lean.py translates every function of "
            "merge_criteria.py into data of GffModel.CritExpr on every run, and GffProofs.Gen.*_eq / defaultCriteria_eq "
            "prove its interpretation with Python's semantics (None coordinates raise, chained <=, and/or) equal to the "
            "model's criteria for all features and thresholds; outside the translator's fragment that tie is reported "
            "as unavailable and the correspondence alone decides (DESIGN 8.10). merge_all with criteria that omit "
            "mc.strand / mc.feature_type is judged against merge() on an untouched copy.",
    "note": "Trusted: Lean kernel + standard axioms; set order of the merged 'source' compared as a set; inputs are "
            "distinct objects with integer start <= end; seqids without commas; the translator tools/py2lean.py and the "
            "interpreter CritExpr.evalB (60 lines).",
    "technique": "Lean 4 invariants with step inversion, refinement to a pure sweep + criteria proved equal to the "
                 "interpretation of their translated source + exhaustive correspondence",
    "design_ref": "DESIGN.md §3 C16",
}

CLAIMED["C01"] = {
    "text": "Composition theorems over the whole model (iterator, parser, importer, tables, queries, printer): for text "
            "whose feature lines are renderings of line specifications in ONE dialect (any separator, trailing "
            "semicolon, key=value / key value, quoting, repeated keys or comma lists, flags, percent-escapes, extra "
            "columns, '.' coordinates; directive/comment/blank/FASTA lines allowed) with unique single-valued IDs, if "
            "the inspection window votes the file's dialect and every line's key order agrees with the voted first-seen "
            "order, then create_db stores one row per line in input order, all_features returns features with the "
            "lines' columns, extra columns and decoded attributes, and with keep_order each prints to its original line "
            "byte for byte (printed_identical); the window hypothesis is discharged for files whose window lines each "
            "exhibit the dialect (printed_identical_of_window); reopening gives the same dialect, directives, counters, "
            "rows and query results (reopen_same); re-importing the printed features gives the same tables "
            "(reimport_equivalent); per line: the supplied-dialect parse of a rendered line returns its mapping, the "
            "keep_order print under any consistent foreign order reproduces it, rows round-trip through storage, and the "
            "JSON storage form round-trips (C17). sort_attribute_values=True prints the same text whenever each value "
            "list is sorted as written (reconstruct_sort_irrelevant, printed_identical_sorted; sortedness of the decoded "
            "values is not enough because _reconstruct sorts the percent-encoded values: raw_sorted_not_enough). GTF "
            "importer: the input lines are stored once each, in order, before the derived rows, come back with their "
            "columns, attributes and extra columns, print byte-identically with keep_order, and reopening gives the same "
            "content (import_all_once_in_order_gtf, printed_identical_gtf, printed_identical_gtf_file, reopen_same_gtf). "
            "Arbitrary id_spec and colliding keys (C01c): with merge_strategy create_unique - the strategy that keeps every "
            "line - and ANY id_spec (attribute lists, ':field:' forms, callables incl. autoincrement:X, per-featuretype "
            "dict) over features that have, lack or share the id attributes, create_db stores exactly one row per line in "
            "input order under the key given by a closed form (keyAt: the key itself, or <key>_<n> from the one counter "
            "that auto-numbering and renaming share), keys pairwise distinct, look-ups exact, the features print "
            "byte-identically, reopening and re-importing give the same tables (import_all_once_in_order_any_ids, "
            "printed_identical_any_ids_file, reopen_same_any_ids, reimport_equivalent_any_ids); side conditions: no listed "
            "id attribute with several values (rejected, C04) and no explicit key of the shape <key or base>_<n> - the "
            "latter is necessary: create_unique then raises IntegrityError (clash_integrity_error). Without collisions the "
            "same holds for every strategy (no_collision_all_lines). GTF importer: colliding gene/transcript ids are all "
            "kept (populate_gtf_any_ids, createDb_gtf_lines_kept; with inference on under the hypothesis that the "
            "inference stage succeeds). Correspondence end to end on generated files of "
            "0-30 lines around checklines and on the repository's data files; oracle: byte comparison after import, "
            "reopen, re-import.",
    "note": "Trusted: Lean kernel + standard axioms; the models of the parser, iterator, importer and tables as validated "
            "by the correspondence; the single-dialect domain (i)/(ii) is the documented design of gffutils and is decided "
            "for each generated file from the real database's voted dialect.",
    "technique": "Lean 4 composition of the per-layer theorems (C02, C04, C07, C08, C09, C17) + end-to-end correspondence",
    "design_ref": "DESIGN.md §3 C01",
}
CLAIMED["C13"] = {
    "text": "Lean theorems over the iterator model for all inputs: the dialect peek takes the first min(n+1, len) items "
            "and leaves a one-shot source unchanged (peek_preserves); all seven input forms iterate to the specification "
            "for every checklines, supplied or inferred dialect, with or without transform (iterate_eq); text forms and "
            "feature forms of the same annotation give the identical (dialect, features) result for every file whose "
            "lines are well-formed renderings in one dialect, for every checklines, transform and supplied dialect "
            "carrying the file's separators (forms_equivalent_wf; the general form under the hypothesis that every line "
            "parses alike with the inferring parser and the voted dialect is forms_equivalent; both extra conditions "
            "are shown necessary by proved counterexamples wfprov_not_enough, supplied_dims_needed); the transform is applied exactly once per item in order and exactly the falsy results "
            "are dropped (transform_once); inspect reports exact multiset counts for every look_for and limit. "
            "Correspondence over 7 forms x checklines 0..n+2 x 6 transforms for n = 1..15 (LF and CRLF), create_db over "
            "all forms, instrumented generators counting next() calls; oracle: cross-form equality of sequences, "
            "dialects and database projections, transform call logs, inspect counts.",
    "note": "Trusted: Lean kernel + standard axioms; gzip, tempfile, textwrap.dedent and all_features() order are "
            "exercised, not modelled; a Feature's truthiness (len >= 1) is part of the model; empty input excluded.",
    "technique": "Lean 4 theorems (list induction, filterMap laws) + differential correspondence with instrumented sources",
    "design_ref": "DESIGN.md §3 C13",
}
CLAIMED["C14"] = {
    "text": "Lean theorems: the four line classes are exactly those of the property text; after a full pass the "
            "iterator's directive list is the '##' lines of the body (everything before '##FASTA' or a '>' header) "
            "without their '##', in order; the features are the parses of the body lines that are non-empty and do not "
            "start with '#'; nothing at or after the FASTA start is a feature or directive; and the list create_db "
            "stores and a reopened FeatureDB reads is that same list for every position of every directive relative to "
            "the inspection window and every checklines (db_directives, over an explicit shared-list-object model; "
            "the pre-repair code is characterised exactly and refuted by a decide witness = defect D1, repaired). The stored directives survive any history of update / delete / add_relation / "
            "reopen steps unchanged (directives_survive, directives_survive_file). "
            "Correspondence and oracle: interleavings of directive / comment / blank / feature lines with 0-14 features "
            "before each directive, with and without a FASTA tail, path and from_string input, varied checklines; "
            "DataIterator.directives, db.directives after import and after reopening.",
    "note": "Trusted: Lean kernel + standard axioms; sqlite rowid order of the directives table; CPython drops the "
            "suspended peek generator.",
    "technique": "Lean 4 state-machine invariant over a list-object store + differential correspondence",
    "design_ref": "DESIGN.md §3 C14",
}

CLAIMED["C05"] = {
    "text": "Lean theorems over the importer model: what both importers do with one arrival equals a decision table "
            "written from the property (strategy_table: error aborts with ValueError; warning leaves tables and counters "
            "untouched and files nothing; replace puts the arrival's row at the key's position; create_unique appends the "
            "arrival unchanged under <key>_(n+1) or fails with IntegrityError when that id is taken; merge unions the "
            "attribute values of the arrival and every agreeing candidate without repeats into the last agreeing "
            "candidate, rewrites the exempt columns to the comma-joined sorted set of values seen, or files the arrival "
            "under a fresh <key>_n recorded in duplicates), for every database state and configuration; after a step the "
            "relations are the old ones plus exactly the arrival's Parent (GTF: transcript/gene) links attached to the id "
            "it was filed under, none for an ignored arrival (nothing_lost_or_invented, both importers); whole-import "
            "theorems for error, warning (first arrival per key), replace (last arrival at the first position; relations "
            "accumulate = known finding D12b) and create_unique (j-th later arrival under <key>_j, counters), starting "
            "from any database (so for create_db and update alike). merge, whole import (C05b: merge_exact_seq, "
            "merge_exact_seq_rows, merge_seq_from): for keyed, tab-free arrivals and ANY force_merge_fields the stored rows "
            "are one row per group (same key, same compared columns) in order of first arrival, the first group under the "
            "key and the j-th later group under <key>_j recorded in duplicates, each row holding its representative's "
            "coordinates, the comma-joined sorted set of the group's values in every exempt column and exactly the union "
            "of the group's attribute values without repeats; the links are those of every arrival under its group's id; "
            "the invariant continues from any database reached this way, so it covers update too. The unconditioned "
            "statement merge_exact_seq_full is refuted by a proved witness (two columns containing tabs that print alike): "
            "the tab-free condition is necessary. GTF importer, whole import and update (C05c, C05d): the same five "
            "statements for populateGtf under any configuration whose id_spec keys the arrivals (plain attribute, default "
            "GTF dict on explicit gene/transcript lines) and for files mixing keyed and auto-numbered lines - error aborts "
            "at the first collision with the prefix imported, warning keeps first arrivals with exactly their links, "
            "replace keeps last arrivals while links accumulate (D12b), create_unique files every arrival under <key>_j "
            "with the GTF links (transcript, gene, gene->transcript) attached to the id it was filed under, merge yields "
            "one row per group with the duplicates table and per-group links (error_exact_gtf, "
            "warning_keeps_first_seq_gtf, replace_keeps_last_seq_gtf, create_unique_all_seq_gtf, merge_exact_seq_gtf, "
            "populateGtf_mixed); update on a GTF database with inference off is the same import (update_gtf_noinfer). "
            "Correspondence end to end with colliding arrivals, all five strategies, force_merge_fields subsets, GFF3 and "
            "GTF, create_db and update; oracle: grouping reference incl. Parent links.",
    "note": "Trusted: Lean kernel + standard axioms; sqlite PRIMARY KEY / UPDATE modelled; merged values compared as sets "
            "(Python's list(set()) order is arbitrary); exempt-column values contain no comma.",
    "technique": "Lean 4 theorems (decision-table refinement per arrival + fold invariants) + differential correspondence",
    "design_ref": "DESIGN.md §3 C05",
}

CLAIMED["C03"] = {
    "text": "Lean theorems over the GTF importer model, for every configuration with matching id_spec / keys / "
            "subfeature and every file in the stated domain (each line carries one gene id and optionally one "
            "transcript id, a transcript belongs to one gene, explicit gene/transcript lines unique per id, subfeature "
            "lines with integer coordinates agreeing on seqid/strand per transcript and gene): the rows are the input "
            "lines in order under their keys followed by exactly the derived rows the specification lists "
            "(gtf_import_exact); every transcript id owning a subfeature line and lacking an explicit line gets exactly "
            "one row, a 'transcript' spanning min start..max end of its subfeature lines on their seqid/strand with "
            "attributes {transcript_id, gene_id}, retrievable by that id (transcript_extent), likewise genes "
            "(gene_extent); the relation set is exactly {line->transcript (1), line->gene (2), transcript->gene (1)} "
            "with no self relation (gtf_relations_exact, relation_queries_exact); the two disable flags suppress exactly "
            "the corresponding derived rows and nothing else (disable_flags); explicit gene/transcript lines remain the "
            "only row under their id, unchanged (explicit_lines_single). Correspondence end to end on generated GTF "
            "forests (shuffled, explicit lines, all flag combinations, custom keys); oracle: min/max per id and the "
            "relation set from the ids on each line. Two defects repaired (self relations; the '<id>_1' overwrite, "
            "found by the proof).",
    "note": "Trusted: Lean kernel + standard axioms; sqlite MIN/MAX, DISTINCT, ORDER BY on text and bare columns of an "
            "aggregate modelled (validated by the correspondence); the theorems' hypothesis MergeOk.noSuffixed (no id of "
            "the shape <explicit id>_<n>) is stronger than the repaired code needs.",
    "technique": "Lean 4 theorems (loop invariants over the two importer passes, refinement to a relation spec) + correspondence",
    "design_ref": "DESIGN.md §3 C03",
}

PENDING_REASON = "check not built yet in this round of work (planned: DESIGN.md §3); nothing is claimed for it"


def main():
    checks = []
    for pid in ALL:
        if pid not in CLAIMED:
            continue
        c = CLAIMED[pid]
        checks.append({
            "property_id": pid,
            "quick_cmd": "./check %s --tier quick" % pid,
            "thorough_cmd": "./check %s --tier thorough" % pid,
            "evidence_file": "evidence/%s.json" % pid,
            "replay_cmd_template": "./check %s --replay {path}" % pid,
            "engine": "lean-model+correspondence",
            "level_claimed": {"category": "proof", "text": c["text"], "design_ref": c["design_ref"]},
            "level_note": c["note"],
            "technique": c["technique"],
        })
    man = {
        "version": 1,
        "setup_cmd": "cd lean && lake build",
        "hooks": {
            "guard": "GFFUTILS_VERIF",
            "enable": "no hooks are needed: everything is observed through the public API, sqlite trace callbacks and "
                      "audit hooks installed by the harness; gffutils is an editable install of /repo, so every check "
                      "imports the current working tree",
            "baseline_off_cmd": "cd /repo && /venv/bin/python -m pytest -ra -q -p no:cacheprovider --timeout=900 "
                                "--continue-on-collection-errors",
            "source_commits": [],
            "add_only": True,
        },
        "engines": [{
            "name": "lean-model+correspondence", "path": "lean/ harness/",
            "serves_properties": sorted(CLAIMED),
            "kind_free_text": "hand-written executable Lean 4 model (lean/GffModel), property theorems "
                              "(lean/GffProofs/Props), axiom audit, native driver over a line protocol, Python "
                              "correspondence harness and independent property oracles (harness/)",
        }],
        "checks": checks,
        "notes": "See DESIGN.md. Exit 2 = infrastructure failure. known_findings.json lists recorded and fixed defects.",
        "not_applicable": [{"property_id": p, "reason": PENDING_REASON} for p in ALL if p not in CLAIMED],
    }
    with open(os.path.join(VERIF, "MANIFEST.json"), "w") as f:
        json.dump(man, f, indent=1)
        f.write("\n")


if __name__ == "__main__":
    main()
