#!/usr/bin/env python3
"""Regenerates /verif/MANIFEST.json from the table below (kept here so that the file stays valid and uniform)."""
import json
import os

VERIF = os.path.dirname(os.path.dirname(os.path.abspath(__file__)))
ALL = ["C%02d" % i for i in range(1, 21)]

CLAIMED = {
    "C12": {
        "text": "Full-strength Lean theorems over the model of bins.bins for ALL integer pairs and both conventions "
                "(integer result, out-of-range -> bin 1, containment + minimality of the single bin, exact membership "
                "characterisation of the bin set, bin-of-feature in bin-set-of-query for overlapping and for nested "
                "intervals without any well-ordering assumption). The model is tied to bins.py by an exhaustive "
                "boundary-pair correspondence (every pair of coordinates within +-2 of bin boundaries at every level, "
                "0 and 2^29) plus random pairs, by a constants comparison with the live module, and Feature.bin is "
                "compared too. An independent interval-arithmetic oracle judges the real code.",
        "note": "Trusted: Lean kernel + standard axioms; the hand-written model GffModel.Bins (23 lines) and its "
                "correspondence (sampled, exhaustive on the boundary grid); Python >> = floor shift.",
        "technique": "Lean 4 theorems (omega over unrolled levels) + exhaustive boundary correspondence",
        "design_ref": "DESIGN.md §3 C12",
    },
}

CLAIMED["C07"] = {
    "text": "Lean theorems over the hand-written model of parser._split_keyvals (inferring path) and parser._reconstruct: "
            "for EVERY line specification accepted by the decidable grammar predicate LineSpec.WF (all separators, "
            "trailing semicolon, k=v / k v, quoting, repeated keys vs comma lists, flags, percent-escapes, any number "
            "of attributes/values) the inferring parser returns exactly the specified mapping and dialect "
            "(infer_render) and printing it with keep_order reproduces the attribute text byte for byte "
            "(reconstruct_render, print_parse_render_attrs). The line level (columns, '.' coordinates, extra columns, "
            "the strict=False space rendering) is covered by the correspondence and the oracle, not yet by a theorem. "
            "The model is tied to the code by rendered specs over all dialect combinations, an exhaustive malformed "
            "stream and the repository's data files; the oracle (byte comparison on the real code) judges exactly the "
            "WF specs.",
    "note": "Trusted: Lean kernel + standard axioms; the models of str.split/strip, re \\w (generated table, re-checked "
            "against the live re module every run), urllib unquote; the correspondence is sampled. The grammar (WF) is a "
            "judgement call and is printed in DESIGN.md §3 C07.",
    "technique": "Lean 4 theorems over a parser model (induction, split/join lemmas) + differential correspondence",
    "design_ref": "DESIGN.md §3 C07",
}
CLAIMED["C08"] = {
    "text": "Lean theorems: unquote(quote s) = s for every string; the attribute parser is total for every string "
            "(inferring path, and supplied dialects with non-empty separators; ValueError exactly for an empty "
            "separator); for every GFF3-style dialect dictionary (3 separators x trailing x repeated x quoted) and every "
            "mapping with distinct keys free of ';' '=' and non-empty lists of non-empty ARBITRARY strings, re-parsing "
            "the printed attributes with the same dialect returns the same mapping, and the printed text contains no "
            "tab/CR/LF; the same for quoted GTF dialects with values free of ';' and ','. The unquoted-GTF case fails "
            "on the real code (known finding D14; negation witness proved in Lean). Correspondence: 36 dialect "
            "dictionaries x Unicode mappings, every code point for the isspace / \\w / splitlines tables, all 1-2 byte "
            "percent escapes, exhaustive short strings; oracle: re-parse equality, tab count, no exception.",
    "note": "Trusted: Lean kernel + standard axioms; model of urllib.parse.unquote incl. CPython's UTF-8 'replace' decoder "
            "(validated, not verified; the round-trip theorems do not depend on its behaviour on invalid input); "
            "correspondence is sampled.",
    "technique": "Lean 4 theorems (structural induction over strings and mappings) + differential correspondence",
    "design_ref": "DESIGN.md §3 C08",
}
CLAIMED["C09"] = {
    "text": "Lean theorems: per-line recovery (C07.infer_render: the inferred dialect of a WF line is exactly the "
            "dialect it was written in, incl. fmt, separators, quoting, trailing semicolon, repeated keys, key order); "
            "helpers._choose_dialect is the weighted majority with ties to the value seen first (vote_spec), a "
            "unanimous window returns that dialect (choose_consistent), the key order is the duplicate-free first-seen "
            "concatenation, empty input gives constants.dialect. Correspondence + oracle: infer_dialect on rendered "
            "specs, _choose_dialect on two-value mixtures with weights 0-5 (all ties), DataIterator.dialect for files "
            "and every checklines, supplied dialect verbatim, FeatureDB.dialect after import and reopen, GFF3/GTF "
            "routing.",
    "note": "Trusted: Lean kernel + standard axioms; stability of Python's sorted(reverse=True) is part of the model; the "
            "window is the first checklines+1 feature lines (Iter model, validated).",
    "technique": "Lean 4 theorems (invariant over the tally fold) + differential correspondence",
    "design_ref": "DESIGN.md §3 C09",
}

PENDING_REASON = "check not built yet in this round of work (planned: DESIGN.md §3); nothing is claimed for it"


def main():
    checks = []
    for pid in ALL:
        if pid not in CLAIMED:
            continue
        c = CLAIMED[pid]
        checks.append({
            "property_id": pid,
            "quick_cmd": "./check %s --tier quick" % pid,
            "thorough_cmd": "./check %s --tier thorough" % pid,
            "evidence_file": "evidence/%s.json" % pid,
            "replay_cmd_template": "./check %s --replay {path}" % pid,
            "engine": "lean-model+correspondence",
            "level_claimed": {"category": "proof", "text": c["text"], "design_ref": c["design_ref"]},
            "level_note": c["note"],
            "technique": c["technique"],
        })
    man = {
        "version": 1,
        "setup_cmd": "cd lean && lake build",
        "hooks": {
            "guard": "GFFUTILS_VERIF",
            "enable": "no hooks are needed: everything is observed through the public API, sqlite trace callbacks and "
                      "audit hooks installed by the harness; gffutils is an editable install of /repo, so every check "
                      "imports the current working tree",
            "baseline_off_cmd": "cd /repo && /venv/bin/python -m pytest -ra -q -p no:cacheprovider --timeout=900 "
                                "--continue-on-collection-errors",
            "source_commits": [],
            "add_only": True,
        },
        "engines": [{
            "name": "lean-model+correspondence", "path": "lean/ harness/",
            "serves_properties": sorted(CLAIMED),
            "kind_free_text": "hand-written executable Lean 4 model (lean/GffModel), property theorems "
                              "(lean/GffProofs/Props), axiom audit, native driver over a line protocol, Python "
                              "correspondence harness and independent property oracles (harness/)",
        }],
        "checks": checks,
        "notes": "See DESIGN.md. Exit 2 = infrastructure failure. known_findings.json lists recorded and fixed defects.",
        "not_applicable": [{"property_id": p, "reason": PENDING_REASON} for p in ALL if p not in CLAIMED],
    }
    with open(os.path.join(VERIF, "MANIFEST.json"), "w") as f:
        json.dump(man, f, indent=1)
        f.write("\n")


if __name__ == "__main__":
    main()
