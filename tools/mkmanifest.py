#!/usr/bin/env python3
"""Regenerates /verif/MANIFEST.json from the table below (kept here so that the file stays valid and uniform)."""
import json
import os

VERIF = os.path.dirname(os.path.dirname(os.path.abspath(__file__)))
ALL = ["C%02d" % i for i in range(1, 21)]

CLAIMED = {
    "C12": {
        "text": "Full-strength Lean theorems over the model of bins.bins for ALL integer pairs and both conventions "
                "(integer result, out-of-range -> bin 1, containment + minimality of the single bin, exact membership "
                "characterisation of the bin set, bin-of-feature in bin-set-of-query for overlapping and for nested "
                "intervals without any well-ordering assumption). The model is tied to bins.py by an exhaustive "
                "boundary-pair correspondence (every pair of coordinates within +-2 of bin boundaries at every level, "
                "0 and 2^29) plus random pairs, by a constants comparison with the live module, and Feature.bin is "
                "compared too. An independent interval-arithmetic oracle judges the real code.",
        "note": "Trusted: Lean kernel + standard axioms; the hand-written model GffModel.Bins (23 lines) and its "
                "correspondence (sampled, exhaustive on the boundary grid); Python >> = floor shift.",
        "technique": "Lean 4 theorems (omega over unrolled levels) + exhaustive boundary correspondence",
        "design_ref": "DESIGN.md §3 C12",
    },
}

PENDING_REASON = "check not built yet in this round of work (planned: DESIGN.md §3); nothing is claimed for it"


def main():
    checks = []
    for pid in ALL:
        if pid not in CLAIMED:
            continue
        c = CLAIMED[pid]
        checks.append({
            "property_id": pid,
            "quick_cmd": "./check %s --tier quick" % pid,
            "thorough_cmd": "./check %s --tier thorough" % pid,
            "evidence_file": "evidence/%s.json" % pid,
            "replay_cmd_template": "./check %s --replay {path}" % pid,
            "engine": "lean-model+correspondence",
            "level_claimed": {"category": "proof", "text": c["text"], "design_ref": c["design_ref"]},
            "level_note": c["note"],
            "technique": c["technique"],
        })
    man = {
        "version": 1,
        "setup_cmd": "cd lean && lake build",
        "hooks": {
            "guard": "GFFUTILS_VERIF",
            "enable": "no hooks are needed: everything is observed through the public API, sqlite trace callbacks and "
                      "audit hooks installed by the harness; gffutils is an editable install of /repo, so every check "
                      "imports the current working tree",
            "baseline_off_cmd": "cd /repo && /venv/bin/python -m pytest -ra -q -p no:cacheprovider --timeout=900 "
                                "--continue-on-collection-errors",
            "source_commits": [],
            "add_only": True,
        },
        "engines": [{
            "name": "lean-model+correspondence", "path": "lean/ harness/",
            "serves_properties": sorted(CLAIMED),
            "kind_free_text": "hand-written executable Lean 4 model (lean/GffModel), property theorems "
                              "(lean/GffProofs/Props), axiom audit, native driver over a line protocol, Python "
                              "correspondence harness and independent property oracles (harness/)",
        }],
        "checks": checks,
        "notes": "See DESIGN.md. Exit 2 = infrastructure failure. known_findings.json lists recorded and fixed defects.",
        "not_applicable": [{"property_id": p, "reason": PENDING_REASON} for p in ALL if p not in CLAIMED],
    }
    with open(os.path.join(VERIF, "MANIFEST.json"), "w") as f:
        json.dump(man, f, indent=1)
        f.write("\n")


if __name__ == "__main__":
    main()
