#!/usr/bin/env python3
"""Run ALL registered quick checks against the must-stay-silent changes in /verif/silent/<id>/ (development tool).

Each change is a patch a maintainer could commit that keeps every property true (a behaviour-preserving rewrite of
anchored logic, or a behaviour change no property talks about).  For each: a scratch git worktree of /repo is created
outside /repo and /verif, the patch applied, the pinned test suite run (baseline outcome expected), and every
property's QUICK check run with PYTHONPATH pointing at the scratch tree.  Every check must exit 0 without a VIOLATION
line; anything else is an alarm on code where the property holds and is triaged by hand (DESIGN 8.9).  Evidence and
replays of these runs go to the scratch directory, never into /verif/evidence.  The worktree is removed afterwards.
  usage: tools/run_silent.py [<silent-id> ...] [--jobs 5] [--seed 0] [--props C01,C02] [--out silent/RESULTS.json]
"""
import concurrent.futures
import json
import os
import shutil
import subprocess
import sys
import tempfile

VERIF = os.path.dirname(os.path.dirname(os.path.abspath(__file__)))
SILENT = os.path.join(VERIF, "silent")
PY = "/venv/bin/python"
PYTEST = [PY, "-m", "pytest", "-q", "-p", "no:cacheprovider", "--timeout=900", "--continue-on-collection-errors"]
ALL = ["C%02d" % i for i in range(1, 21)]


def sh(cmd, cwd=None, env=None, timeout=3600):
    p = subprocess.run(cmd, cwd=cwd, env=env, stdout=subprocess.PIPE, stderr=subprocess.STDOUT, text=True, timeout=timeout)
    return p.returncode, p.stdout


def opt(name, default):
    if name in sys.argv:
        v = sys.argv[sys.argv.index(name) + 1]
        return v
    return default


def main():
    skip = set()
    for o in ("--jobs", "--seed", "--props", "--out"):
        if o in sys.argv:
            skip.add(sys.argv.index(o))
            skip.add(sys.argv.index(o) + 1)
    args = [a for i, a in enumerate(sys.argv) if i > 0 and i not in skip]
    jobs = int(opt("--jobs", "5"))
    seed = opt("--seed", "0")
    props = opt("--props", ",".join(ALL)).split(",")
    outp = opt("--out", os.path.join(SILENT, "RESULTS.json"))
    ids = args or sorted(d for d in os.listdir(SILENT) if os.path.isdir(os.path.join(SILENT, d)))
    try:
        results = json.load(open(outp))
    except Exception:
        results = {}
    for sid in ids:
        d = os.path.join(SILENT, sid)
        scratch = tempfile.mkdtemp(prefix="silent-", dir="/var/tmp")
        tree = os.path.join(scratch, "tree")
        try:
            rc, out = sh(["git", "-C", "/repo", "worktree", "add", "--detach", tree, "HEAD"])
            if rc:
                raise RuntimeError(out)
            rc, out = sh(["git", "-C", tree, "apply", os.path.join(d, "patch.diff")])
            if rc:
                results[sid] = {"error": "patch does not apply: " + out[-300:]}
                print(sid, results[sid]["error"])
                continue
            env = dict(os.environ, PYTHONPATH=tree, VERIF_SEED=seed)
            rc, tests = sh(PYTEST, cwd=tree, env=env)
            tests_tail = tests.strip().split("\n")[-1]

            def one(prop):
                e = dict(env, VERIF_EVIDENCE_DIR=os.path.join(scratch, "ev"), VERIF_REPLAY_DIR=os.path.join(scratch, "rp"))
                rc_chk, chk_out = sh([os.path.join(VERIF, "check"), prop, "--tier", "quick"], cwd=VERIF, env=e)
                vio = [l for l in chk_out.split("\n") if l.startswith("VIOLATION")]
                what = None
                if vio:
                    path = vio[0].split("replay=")[1].split()[0]
                    try:
                        j = json.load(open(path))
                        what = j.get("what") or j.get("kind")
                    except Exception:
                        pass
                return prop, {"exit": rc_chk, "violation": vio[0] if vio else None, "what": what,
                              "tail": chk_out.strip().split("\n")[-3:] if rc_chk else None}

            per = {}
            with concurrent.futures.ThreadPoolExecutor(jobs) as ex:
                for prop, r in ex.map(one, props):
                    per[prop] = r
            alarms = sorted(p for p, r in per.items() if r["exit"] != 0 or r["violation"])
            old = results.get(sid, {}).get("checks", {})
            old.update(per)
            results[sid] = {"tests": tests_tail, "seed": seed, "checks": old,
                            "alarms": sorted(p for p, r in old.items() if r["exit"] != 0 or r["violation"])}
            print("%-8s tests=[%s] alarms=%s" % (sid, tests_tail, alarms or "none"))
            for p in alarms:
                print("         %s exit=%s %s" % (p, per[p]["exit"], (per[p]["what"] or per[p]["tail"] or "")))
        finally:
            sh(["git", "-C", "/repo", "worktree", "remove", "--force", tree])
            shutil.rmtree(scratch, ignore_errors=True)
        with open(outp, "w") as f:
            json.dump(results, f, indent=1)


if __name__ == "__main__":
    main()
