import GffProofs.Lemmas.SplitJoin
import GffProofs.Props.C12
import GffProofs.Props.C09
import GffProofs.Props.C08a
import GffProofs.Props.C08b
import GffProofs.Props.C07
import GffProofs.Props.C02
import GffProofs.Props.C07Line
