import GffProofs.Props.C12
