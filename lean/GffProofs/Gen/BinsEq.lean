/-
  GffProofs.Gen.BinsEq — the TRANSLATED `bins()` (GffGen/Bins.lean, regenerated from gffutils/bins.py by
  tools/py2lean.py) is the hand-written model `GffModel.Bins.bins`, for all integers, both coordinate conventions and
  both modes; hence the C12 theorems hold of the function the translator read from the source.

  The proof script makes no use of the shape of the generated text beyond: the module constants are `@[simp]`
  definitions, the function is a `do` block over `Id`.
-/
import GffGen.Bins
import GffProofs.Props.C12
import GffProofs.Props.C12b
import Mathlib.Tactic.SplitIfs

open GffModel GffModel.Bins

namespace GffProofs.Gen

/-- **The translated function is the model.** -/
theorem bins_eq_model (start stop : Int) (fmt : CoordFmt) (one : Bool) :
    GffGen.bins start stop fmt one = GffModel.Bins.bins start stop fmt one := by
  unfold GffGen.bins GffModel.Bins.bins
  simp only [offsets, loop, maxChrom, firstShift, nextShift]
  cases one <;> cases fmt <;> simp [Id.run, CoordFmt.off, pure, bind]
  all_goals (split_ifs <;> simp_all)

theorem bins_eq_model' : GffGen.bins = GffModel.Bins.bins := by
  funext s e f o; exact bins_eq_model s e f o

/-! ### The C12 theorems, stated of the translated function -/

/-- the single-bin form of the translated function always returns an integer -/
theorem gen_one_isInt (s e : Int) (fmt : CoordFmt) : ∃ b, GffGen.bins s e fmt true = .int b := by
  rw [bins_eq_model]; exact GffProofs.C12.binOne_isInt s e fmt

/-- soundness (overlap) of the translated function: the single bin of an in-range feature is a member of the bin set of
every in-range query that overlaps it -/
theorem gen_bin_sound_overlap (fs fe qs qe : Int) (fmt : CoordFmt)
    (hf : GffProofs.C12.InRange fs fe fmt) (hq : GffProofs.C12.InRange qs qe fmt) (h1 : fs ≤ qe) (h2 : qs ≤ fe) :
    ∃ b bs, GffGen.bins fs fe fmt true = .int b ∧ GffGen.bins qs qe fmt false = .set bs ∧ b ∈ bs := by
  obtain ⟨b, hb, hm⟩ := GffProofs.C12.bin_sound_overlap fs fe qs qe fmt hf hq h1 h2
  unfold inBinSet at hm
  rw [bins_eq_model, bins_eq_model]
  unfold binOne at hb
  cases hq' : GffModel.Bins.bins qs qe fmt false with
  | int x => rw [hq'] at hm; exact absurd hm (by simp)
  | set bs => rw [hq'] at hm; exact ⟨b, bs, hb, rfl, hm⟩

/-- soundness (containment) of the translated function -/
theorem gen_bin_sound_within (fs fe qs qe : Int) (fmt : CoordFmt)
    (hf : GffProofs.C12.InRange fs fe fmt) (hq : GffProofs.C12.InRange qs qe fmt) (h1 : qs ≤ fs) (h2 : fe ≤ qe) :
    ∃ b bs, GffGen.bins fs fe fmt true = .int b ∧ GffGen.bins qs qe fmt false = .set bs ∧ b ∈ bs := by
  obtain ⟨b, hb, hm⟩ := GffProofs.C12.bin_sound_within fs fe qs qe fmt hf hq h1 h2
  unfold inBinSet at hm
  rw [bins_eq_model, bins_eq_model]
  unfold binOne at hb
  cases hq' : GffModel.Bins.bins qs qe fmt false with
  | int x => rw [hq'] at hm; exact absurd hm (by simp)
  | set bs => rw [hq'] at hm; exact ⟨b, bs, hb, rfl, hm⟩

/-- out of range, the translated function answers bin 1 / {1} -/
theorem gen_out_of_range (s e : Int) (fmt : CoordFmt) (h : ¬ GffProofs.C12.InRange s e fmt) :
    GffGen.bins s e fmt true = .int 1 ∧ GffGen.bins s e fmt false = .set [1] := by
  rw [bins_eq_model, bins_eq_model]
  exact ⟨GffProofs.C12.bins_out_of_range_one s e fmt h, GffProofs.C12.bins_out_of_range_set s e fmt h⟩

/-- `Feature.calc_bin` with both coordinates present is the translated `bins()` in its single-bin form -/
theorem gen_calcBin (s e : Int) : Feature.calcBin (some s) (some e) = some (GffGen.bins s e .gff true) := by
  rw [bins_eq_model]; rfl

/-- the row written for a feature with integer coordinates carries the single bin the translated `bins()` gives them
(`Feature.astuple` recomputes the bin from the current coordinates) -/
theorem gen_row_bin (f : Feature) (id : Str) (hid : f.id = some id) (s e : Int)
    (hs : f.start = some s) (he : f.stop = some e) :
    ∃ r b, Row.ofFeature f = .ok r ∧ GffGen.bins s e .gff true = .int b ∧ r.bin = some b := by
  obtain ⟨r, b, h1, h2, h3⟩ := GffProofs.C12.row_bin_some f id hid s e hs he
  exact ⟨r, b, h1, by rw [bins_eq_model]; exact h2, h3⟩

/-- non-vacuity: a concrete in-range feature and an overlapping query -/
example : ∃ b bs, GffGen.bins 131000 131100 .gff true = .int b ∧ GffGen.bins 131072 262145 .gff false = .set bs ∧ b ∈ bs :=
  gen_bin_sound_overlap 131000 131100 131072 262145 .gff (by simp [GffProofs.C12.InRange, CoordFmt.off, maxChrom])
    (by simp [GffProofs.C12.InRange, CoordFmt.off, maxChrom]) (by decide) (by decide)

end GffProofs.Gen
