/-
  C14 — Directives are all kept in order; comments, blanks and FASTA are not features.

  The specification side (`isFastaStart`, `bodySpec`, `directivesSpec`, `featureLinesSpec`) is written from
  the property text with `takeWhile` / `filter` / `map` only; the model side is `GffModel.Iter`
  (`classify`, `body`, `directives`, `featureLines`, `runFile`) and `GffModel.IterMore` (the directive
  list as a shared Python list object: `createDbDirectives`).

  Defect D1 (the tree as found): `create_db` stores only the directives seen by the dialect peek.  It is
  modelled (`Variant.current`), characterised exactly (`db_directives_current`), refuted against the
  property at a concrete witness (`db_directives_current_fails`, by `decide`) and proved under the
  restricting hypothesis (`db_directives_current_partial`).  The full statement `db_directives` is proved
  for the repaired code (`Variant.repaired`: `del self.directives[:]`).
-/
import GffModel.IterMore
import GffProofs.Lemmas.IterAux

namespace GffProofs.C14
open GffModel GffModel.Iter GffProofs.IterAux

/-! ### the property text -/

def fastaLine : Str := "##FASTA".toList

/-- a `##FASTA` line or a `>` header -/
def isFastaStart (l : Str) : Bool := l = fastaLine || Str.startsWith l ['>']

/-- the lines that precede the first `##FASTA` line or `>` header -/
def bodySpec (lines : List Str) : List Str := lines.takeWhile (fun l => !isFastaStart l)

/-- every line of the body beginning with `##`, without its `##`, in file order -/
def directivesSpec (lines : List Str) : List Str :=
  ((bodySpec lines).filter (fun l => Str.startsWith l ['#', '#'])).map (fun l => l.drop 2)

/-- the lines of the body that are non-empty and do not begin with `#` -/
def featureLinesSpec (lines : List Str) : List Str :=
  (bodySpec lines).filter (fun l => !l.isEmpty && !Str.startsWith l ['#'])

/-! ### line classification -/

/-- `classify` (the `if` chain of `_custom_iter`) decides exactly the four classes of the property text -/
theorem classify_cases (l : Str) :
    (isFastaStart l = true ∧ classify l = .fastaStart) ∨
    (isFastaStart l = false ∧ Str.startsWith l ['#', '#'] = true ∧ classify l = .directive (l.drop 2)) ∨
    (isFastaStart l = false ∧ Str.startsWith l ['#', '#'] = false ∧ (Str.startsWith l ['#'] = true ∨ l = []) ∧
      classify l = .skip) ∨
    (isFastaStart l = false ∧ Str.startsWith l ['#'] = false ∧ l ≠ [] ∧ classify l = .feature) := by
  unfold classify isFastaStart fastaLine
  generalize "##FASTA".toList = F
  generalize Str.startsWith l ['>'] = b1
  generalize Str.startsWith l ['#', '#'] = b2
  generalize Str.startsWith l ['#'] = b3
  by_cases h0 : l = F <;> cases b1 <;> cases b2 <;> cases b3 <;> cases l <;> simp [h0]

theorem startsWith_hash_of_hashhash (l : Str) (h : Str.startsWith l ['#', '#'] = true) :
    Str.startsWith l ['#'] = true := by
  unfold Str.startsWith at *
  cases l with
  | nil => simp [List.isPrefixOf] at h
  | cons a t =>
    cases t with
    | nil => simp [List.isPrefixOf] at h
    | cons b t => simp [List.isPrefixOf] at h ⊢; exact h.1

theorem classify_fasta_iff (l : Str) : classify l = .fastaStart ↔ isFastaStart l = true := by
  rcases classify_cases l with h | h | h | h
  · simp [h.1, h.2]
  · simp [h.1, h.2.2]
  · simp [h.1, h.2.2.2]
  · simp [h.1, h.2.2.2]

/-- a line is a directive exactly when it is before-FASTA material beginning with `##`; the recorded text
is the line without its first two characters -/
theorem classify_directive_iff (l s : Str) :
    classify l = .directive s ↔ (isFastaStart l = false ∧ Str.startsWith l ['#', '#'] = true ∧ s = l.drop 2) := by
  rcases classify_cases l with h | h | h | h
  · simp [h.1, h.2]
  · simp only [h.1, h.2.1, h.2.2, LineKind.directive.injEq, true_and]
    exact eq_comm
  · simp [h.1, h.2.1, h.2.2.2]
  · have : Str.startsWith l ['#', '#'] = false := by
      cases hb : Str.startsWith l ['#', '#'] with
      | false => rfl
      | true => rw [startsWith_hash_of_hashhash l hb] at h; exact absurd h.2.1 (by simp)
    simp [h.1, this, h.2.2.2]

/-- a line is handed to the parser exactly when it is non-empty and begins neither with `#` nor `>` -/
theorem classify_feature_iff (l : Str) :
    classify l = .feature ↔ (isFastaStart l = false ∧ l.isEmpty = false ∧ Str.startsWith l ['#'] = false) := by
  rcases classify_cases l with h | h | h | h
  · simp [h.1, h.2]
  · simp [h.1, h.2.2, startsWith_hash_of_hashhash l h.2.1]
  · rcases h.2.2.1 with h3 | h3
    · simp [h.2.2.2, h3]
    · have h4 := h.2.2.2
      subst h3
      simp [h4]
  · have : l.isEmpty = false := by cases l with | nil => exact absurd rfl h.2.2.1 | cons _ _ => rfl
    simp [h.1, h.2.1, h.2.2.2, this]

/-- single-`#` lines and empty lines produce nothing -/
theorem classify_comment_blank (l : Str) (hf : isFastaStart l = false)
    (h : l = [] ∨ (Str.startsWith l ['#'] = true ∧ Str.startsWith l ['#', '#'] = false)) :
    classify l = .skip := by
  rcases classify_cases l with c | c | c | c
  · rw [c.1] at hf; exact absurd hf (by simp)
  · rcases h with h | h
    · subst h; simp [Str.startsWith, List.isPrefixOf] at c
    · rw [h.2] at c; exact absurd c.2.1 (by simp)
  · exact c.2.2.2
  · rcases h with h | h
    · exact absurd h c.2.2.1
    · rw [h.1] at c; exact absurd c.2.1 (by simp)

/-! ### body, directives, features = the specification -/

theorem body_eq (lines : List Str) : body lines = bodySpec lines := by
  unfold body bodySpec
  congr 1
  funext l
  have h := classify_fasta_iff l
  by_cases hf : isFastaStart l = true
  · simp [hf, h.mpr hf]
  · have hc : classify l ≠ .fastaStart := fun hc => hf (h.mp hc)
    simp [hf, hc]

theorem mem_takeWhile {α : Type} (p : α → Bool) (x : α) (xs : List α) (h : x ∈ xs.takeWhile p) : p x = true := by
  induction xs with
  | nil => simp at h
  | cons y ys ih =>
    rw [List.takeWhile_cons] at h
    split at h
    · rcases List.mem_cons.mp h with rfl | h
      · assumption
      · exact ih h
    · simp at h

theorem mem_bodySpec {lines : List Str} {l : Str} (h : l ∈ bodySpec lines) : isFastaStart l = false := by
  have := mem_takeWhile _ _ _ h
  simpa using this

theorem filterMap_eq_map_filter {α β : Type} (g : α → Option β) (q : α → Bool) (f : α → β) (xs : List α)
    (h : ∀ x ∈ xs, g x = if q x then some (f x) else none) : xs.filterMap g = (xs.filter q).map f := by
  induction xs with
  | nil => rfl
  | cons x xs ih =>
    have hx := h x (by simp)
    have ih' := ih (fun y hy => h y (by simp [hy]))
    cases hq : q x <;> simp [hx, hq, ih']

/-- **directives_exact** (list level): the directive list of a complete pass is
`(body.filter (startsWith "##")).map (drop 2)` with `body = takeWhile (not "##FASTA" and not startsWith ">")`. -/
theorem directives_eq_spec (lines : List Str) : directives lines = directivesSpec lines := by
  unfold directives directivesSpec
  rw [body_eq]
  apply filterMap_eq_map_filter
  intro l hl
  have hf := mem_bodySpec hl
  rcases classify_cases l with c | c | c | c
  · rw [c.1] at hf; exact absurd hf (by simp)
  · simp [c.2.1, c.2.2]
  · simp [c.2.1, c.2.2.2]
  · have : Str.startsWith l ['#', '#'] = false := by
      cases hb : Str.startsWith l ['#', '#'] with
      | false => rfl
      | true => rw [startsWith_hash_of_hashhash l hb] at c; exact absurd c.2.1 (by simp)
    simp [this, c.2.2.2]

/-- the lines handed to `feature_from_line` are the body lines that are non-empty and do not start with `#` -/
theorem featureLines_eq_spec (lines : List Str) : featureLines lines = featureLinesSpec lines := by
  unfold featureLines featureLinesSpec
  rw [body_eq]
  apply List.filter_congr
  intro l hl
  have hf := mem_bodySpec hl
  have h := classify_feature_iff l
  by_cases hc : classify l = .feature
  · have := h.mp hc
    simp [hc, this.2.1, this.2.2]
  · have hn : ¬ (l.isEmpty = false ∧ Str.startsWith l ['#'] = false) := fun hh => hc (h.mpr ⟨hf, hh⟩)
    simp only [hc, decide_false]
    cases h1 : l.isEmpty <;> cases h2 : Str.startsWith l ['#'] <;> simp_all

/-! ### the iterator (`runFile`) -/

/-- **directives_exact**: `DataIterator.directives` after a full iteration, for every `checklines`,
supplied or inferred dialect, with or without transform -/
theorem directives_exact (lines : List Str) (cl : Nat) (sup : Option Dialect)
    (tr : Option (Feature → Option Feature)) (d : Dialect) (fs : List Feature) (dirs : List Str)
    (h : runFile lines cl sup tr = .ok (d, fs, dirs)) : dirs = directivesSpec lines := by
  rw [← directives_eq_spec]
  exact (runFile_ok h).2.2

theorem features_exact_aux (lines : List Str) (cl : Nat) (sup : Option Dialect) (d : Dialect) (fs : List Feature)
    (dirs : List Str) (h : runFile lines cl sup none = .ok (d, fs, dirs)) :
    ∃ parsed, (featureLinesSpec lines).mapM (fun l => featureFromLine l (some d) true false) = .ok parsed ∧
      fs = parsed.map (withDialect d) := by
  rw [← featureLines_eq_spec]
  have hfs := (runFile_ok h).2.1
  unfold fileIterate at hfs
  cases hm : (featureLines lines).mapM (fun l => featureFromLine l (some d) true false) with
  | error e => rw [hm] at hfs; simp [Except.map] at hfs
  | ok parsed =>
    rw [hm] at hfs
    simp only [Except.map, Except.ok.injEq] at hfs
    refine ⟨parsed, rfl, ?_⟩
    rw [← hfs, applyTransform_none]

/-- **features_exact**: the features yielded are exactly the parses (with the chosen dialect `d`, which every
parsed feature already carries) of the body lines that are non-empty and do not start with `#`, in file order -/
theorem features_exact (lines : List Str) (cl : Nat) (sup : Option Dialect) (d : Dialect) (fs : List Feature)
    (dirs : List Str) (h : runFile lines cl sup none = .ok (d, fs, dirs)) :
    (featureLinesSpec lines).mapM (fun l => featureFromLine l (some d) true false) = .ok fs := by
  obtain ⟨parsed, hp, rfl⟩ := features_exact_aux lines cl sup d fs dirs h
  rw [hp]
  congr 1
  have hall := mapM_all _ (fun f => f.dialect = d) _ _ hp (fun x y hxy => featureFromLine_dialect x d false y hxy)
  clear hp h
  induction parsed with
  | nil => rfl
  | cons p ps ih =>
    simp only [List.map_cons]
    rw [withDialect_self d p (hall p (by simp)), ← ih (fun y hy => hall y (by simp [hy]))]

/-- the number of features yielded is the number of such lines (nothing dropped, nothing invented) -/
theorem features_count (lines : List Str) (cl : Nat) (sup : Option Dialect) (d : Dialect) (fs : List Feature)
    (dirs : List Str) (h : runFile lines cl sup none = .ok (d, fs, dirs)) :
    fs.length = (featureLinesSpec lines).length := by
  exact mapM_length _ _ _ (features_exact lines cl sup d fs dirs h)

/-! ### FASTA, comments, blanks -/

theorem body_stop (pre post : List Str) (l : Str) (h : classify l = .fastaStart) :
    body (pre ++ l :: post) = body pre := by
  unfold body
  induction pre with
  | nil => simp [h]
  | cons p ps ih =>
    simp only [List.cons_append, List.takeWhile_cons]
    split
    · rw [ih]
    · rfl

/-- **nothing at or after `##FASTA` / `>` is a feature or a directive**: the whole run is the run on the
lines before it (whatever follows, and for every configuration) -/
theorem after_fasta_ignored (pre post : List Str) (l : Str) (h : isFastaStart l = true) (cl : Nat)
    (sup : Option Dialect) (tr : Option (Feature → Option Feature)) :
    directives (pre ++ l :: post) = directives pre ∧ featureLines (pre ++ l :: post) = featureLines pre ∧
    runFile (pre ++ l :: post) cl sup tr = runFile pre cl sup tr := by
  have hb := body_stop pre post l ((classify_fasta_iff l).mpr h)
  have h1 : directives (pre ++ l :: post) = directives pre := by unfold directives; rw [hb]
  have h2 : featureLines (pre ++ l :: post) = featureLines pre := by unfold featureLines; rw [hb]
  refine ⟨h1, h2, ?_⟩
  unfold runFile fileDialect filePeek fileIterate
  rw [h1, h2]

theorem body_skip (pre post : List Str) (l : Str) (h : classify l = .skip) :
    ∃ pre' post', body (pre ++ l :: post) = pre' ++ l :: post' ∧ body (pre ++ post) = pre' ++ post' ∨
      body (pre ++ l :: post) = body (pre ++ post) := by
  unfold body
  induction pre with
  | nil =>
    refine ⟨[], List.takeWhile (fun l => classify l ≠ .fastaStart) post, Or.inl ?_⟩
    simp [h]
  | cons p ps ih =>
    obtain ⟨pre', post', ih⟩ := ih
    by_cases hp : classify p ≠ .fastaStart
    · have hd : decide (classify p ≠ .fastaStart) = true := by simpa using hp
      rcases ih with ih | ih
      · refine ⟨p :: pre', post', Or.inl ⟨?_, ?_⟩⟩
        · simp only [List.cons_append, List.takeWhile_cons, hd, if_true, ih.1]
        · simp only [List.cons_append, List.takeWhile_cons, hd, if_true, ih.2]
      · refine ⟨[], [], Or.inr ?_⟩
        simp only [List.cons_append, List.takeWhile_cons, hd, if_true, ih]
    · refine ⟨[], [], Or.inr ?_⟩
      simp [hp]

/-- **comments and blank lines produce nothing**: deleting one changes neither list -/
theorem skip_line_produces_nothing (pre post : List Str) (l : Str) (h : classify l = .skip) :
    directives (pre ++ l :: post) = directives (pre ++ post) ∧
    featureLines (pre ++ l :: post) = featureLines (pre ++ post) := by
  unfold directives featureLines
  obtain ⟨pre', post', hb⟩ := body_skip pre post l h
  rcases hb with hb | hb
  · rw [hb.1, hb.2]
    simp [List.filterMap_append, List.filter_append, h]
  · rw [hb]
    exact ⟨rfl, rfl⟩

/-! ### the directive list as a shared object: what `create_db` stores -/

/-- the directives `_custom_iter` appends while the consumer pulls `k+1` features (`some k`) or
everything (`none`) -/
def seen : List Str → Option Nat → List Str
  | [], _ => []
  | l :: rest, k =>
    match classify l with
    | .fastaStart => []
    | .directive d => d :: seen rest k
    | .skip => seen rest k
    | .feature =>
      match k with
      | some 0 => []
      | some (k + 1) => seen rest (some k)
      | none => seen rest none

theorem passLines_spec (lines : List Str) (k : Option Nat) (s : DirStore) :
    (passLines lines k s).cur = s.cur ∧ (passLines lines k s).next = s.next ∧
    ∀ i, (passLines lines k s).obj i = if i = s.cur then s.obj i ++ seen lines k else s.obj i := by
  induction lines generalizing k s with
  | nil => simp [passLines, seen]
  | cons l rest ih =>
    unfold passLines seen
    cases hc : classify l with
    | fastaStart => simp
    | directive d =>
      simp only
      obtain ⟨h1, h2, h3⟩ := ih k (s.append d)
      refine ⟨by rw [h1]; rfl, by rw [h2]; rfl, ?_⟩
      intro i
      rw [h3 i]
      simp only [DirStore.append]
      split <;> simp
    | skip => simpa using ih k s
    | feature =>
      simp only
      match k with
      | some 0 => simp
      | some (k + 1) => simpa using ih (some k) s
      | none => simpa using ih none s

/-- one run of `_custom_iter()`: the list object the iterator is bound to afterwards holds exactly the
directives seen in this run -/
theorem customIter_cur_obj (v : Variant) (lines : List Str) (k : Option Nat) (s : DirStore) :
    (customIter v lines k s).obj (customIter v lines k s).cur = seen lines k := by
  unfold customIter
  obtain ⟨h1, _, h3⟩ := passLines_spec lines k (s.startPass v)
  rw [h3, h1]
  cases v <;> simp [DirStore.startPass]

/-- current code: every run binds a fresh object … -/
theorem customIter_current_cur (lines : List Str) (k : Option Nat) (s : DirStore) :
    (customIter .current lines k s).cur = s.next ∧ (customIter .current lines k s).next = s.next + 1 := by
  unfold customIter
  obtain ⟨h1, h2, _⟩ := passLines_spec lines k (s.startPass .current)
  rw [h1, h2]
  simp [DirStore.startPass]

/-- … and leaves every older object as it was -/
theorem customIter_current_old (lines : List Str) (k : Option Nat) (s : DirStore) (i : Nat) (hi : i ≠ s.next) :
    (customIter .current lines k s).obj i = s.obj i := by
  unfold customIter
  obtain ⟨_, _, h3⟩ := passLines_spec lines k (s.startPass .current)
  rw [h3]
  simp [DirStore.startPass, hi]

/-- repaired code: the binding never changes -/
theorem customIter_repaired_cur (lines : List Str) (k : Option Nat) (s : DirStore) :
    (customIter .repaired lines k s).cur = s.cur := by
  unfold customIter
  obtain ⟨h1, _, _⟩ := passLines_spec lines k (s.startPass .repaired)
  rw [h1]
  simp [DirStore.startPass]

theorem seen_none (lines : List Str) : seen lines none = directives lines := by
  unfold directives body
  induction lines with
  | nil => rfl
  | cons l rest ih =>
    unfold seen
    cases hc : classify l <;> simp [hc, ih]

theorem go_eq_seen (lines : List Str) (k : Nat) (acc : List Str) :
    directivesBeforeFeature.go lines k acc = acc ++ seen lines (some k) := by
  induction lines generalizing k acc with
  | nil => simp [directivesBeforeFeature.go, seen]
  | cons l rest ih =>
    unfold directivesBeforeFeature.go seen
    cases hc : classify l with
    | fastaStart => simp
    | directive d => simp [ih]
    | skip => simpa using ih k acc
    | feature =>
      cases k with
      | zero => simp
      | succ k => simpa using ih k acc

theorem seen_some (lines : List Str) (k : Nat) : seen lines (some k) = directivesBeforeFeature lines k := by
  unfold directivesBeforeFeature
  rw [go_eq_seen]; rfl

theorem featureLines_cons (l : Str) (rest : List Str) :
    featureLines (l :: rest) =
      match classify l with
      | .fastaStart => []
      | .feature => l :: featureLines rest
      | _ => featureLines rest := by
  unfold featureLines body
  cases hc : classify l <;> simp [hc]

/-- with at most `k` features in the body the peek runs to the end and sees every directive -/
theorem seen_some_of_few (lines : List Str) (k : Nat) (h : (featureLines lines).length ≤ k) :
    seen lines (some k) = seen lines none := by
  induction lines generalizing k with
  | nil => rfl
  | cons l rest ih =>
    rw [featureLines_cons] at h
    unfold seen
    cases hc : classify l with
    | fastaStart => rfl
    | directive d =>
      rw [hc] at h
      simp only
      rw [ih k h]
    | skip =>
      rw [hc] at h
      exact ih k h
    | feature =>
      rw [hc] at h
      simp only [List.length_cons] at h
      cases k with
      | zero => omega
      | succ k =>
        simp only
        exact ih k (by omega)

/-- **db_directives** (repaired code, `del self.directives[:]`): `db.directives` after `create_db`, and
after reopening the file, is the full directive list — for every line list (every position of every
directive relative to the inspection window, with or without FASTA tail), every `checklines`, with the
dialect inferred (peek) or supplied (no peek). -/
theorem db_directives (lines : List Str) (cl : Nat) (peeked : Bool) :
    createDbDirectives .repaired lines cl peeked = directivesSpec lines ∧
    reopenDirectives (createDbDirectives .repaired lines cl peeked) = directivesSpec lines ∧
    iteratorDirectivesAfterImport .repaired lines cl peeked = directivesSpec lines := by
  rw [← directives_eq_spec, ← seen_none]
  have key : ∀ s0 : DirStore, (customIter .repaired lines none s0).obj s0.cur = seen lines none := by
    intro s0
    have := customIter_cur_obj .repaired lines none s0
    rwa [customIter_repaired_cur] at this
  unfold reopenDirectives iteratorDirectivesAfterImport createDbDirectives createDbStore
  simp only [customIter_repaired_cur, key, and_self]

/-- **what the tree as found stores** (defect D1): exactly the directives that precede the
`(checklines+1)`-th feature when the dialect is inferred, and nothing when a dialect is supplied; the
iterator's own list is complete in both cases. -/
theorem db_directives_current (lines : List Str) (cl : Nat) :
    createDbDirectives .current lines cl true = directivesBeforeFeature lines cl ∧
    createDbDirectives .current lines cl false = [] ∧
    ∀ peeked, iteratorDirectivesAfterImport .current lines cl peeked = directivesSpec lines := by
  rw [← seen_some]
  refine ⟨?_, ?_, ?_⟩
  · unfold createDbDirectives createDbStore
    simp only [if_true]
    rw [customIter_current_old]
    · exact customIter_cur_obj .current lines (some cl) DirStore.init
    · rw [(customIter_current_cur lines (some cl) DirStore.init).1,
        (customIter_current_cur lines (some cl) DirStore.init).2]
      omega
  · unfold createDbDirectives createDbStore
    simp only [Bool.false_eq_true, if_false]
    rw [customIter_current_old]
    · rfl
    · simp [DirStore.init]
  · intro peeked
    rw [← directives_eq_spec, ← seen_none]
    unfold iteratorDirectivesAfterImport createDbStore
    exact customIter_cur_obj .current lines none _

/-- the hypothesis-restricted clause that does hold on the tree as found: when the body has at most
`checklines` features the peek reaches the end of the body and the stored list is complete -/
theorem db_directives_current_partial (lines : List Str) (cl : Nat)
    (h : (featureLinesSpec lines).length ≤ cl) :
    createDbDirectives .current lines cl true = directivesSpec lines := by
  rw [(db_directives_current lines cl).1, ← seen_some, seen_some_of_few lines cl (by rwa [featureLines_eq_spec]),
    seen_none, directives_eq_spec]

/-- the full statement for the tree as found — FALSE (defect D1) -/
def db_directives_current_full : Prop :=
  ∀ (lines : List Str) (cl : Nat), createDbDirectives .current lines cl true = directivesSpec lines

/-- **D1 witness**: one feature line followed by one directive, `checklines = 0`: the iterator reports the
directive, the database does not. -/
theorem db_directives_current_fails :
    createDbDirectives .current ["x".toList, "##d".toList] 0 true = [] ∧
    directivesSpec ["x".toList, "##d".toList] = ["d".toList] ∧
    iteratorDirectivesAfterImport .current ["x".toList, "##d".toList] 0 true = ["d".toList] := by decide

theorem db_directives_current_full_false : ¬ db_directives_current_full := by
  intro h
  have := h ["x".toList, "##d".toList] 0
  rw [db_directives_current_fails.1, db_directives_current_fails.2.1] at this
  exact absurd this (by decide)

/-! ### non-vacuity -/

/-- a file with a directive before the window, a comment, a blank, two features, a directive after the
window, a directive-looking and a feature-looking line after `##FASTA` -/
def demo : List Str :=
  ["##gff-version 3".toList, "#c".toList, [], "f1".toList, "##late".toList, "f2".toList, "##FASTA".toList,
   "##x".toList, ">s".toList, "ACGT".toList]

example : directivesSpec demo = ["gff-version 3".toList, "late".toList] := by decide
example : featureLinesSpec demo = ["f1".toList, "f2".toList] := by decide
example : directives demo = directivesSpec demo := directives_eq_spec demo
example : createDbDirectives .repaired demo 0 true = ["gff-version 3".toList, "late".toList] := by
  rw [(db_directives demo 0 true).1]; decide
example : createDbDirectives .current demo 0 true = ["gff-version 3".toList] := by decide
example : createDbDirectives .current demo 1 true = ["gff-version 3".toList, "late".toList] := by decide
-- the hypothesis of `db_directives_current_partial` is satisfiable (two features, checklines = 2)
example : createDbDirectives .current demo 2 true = directivesSpec demo :=
  db_directives_current_partial demo 2 (by decide)
-- FASTA start by header only
example : isFastaStart ">chr1".toList = true ∧ isFastaStart "##FASTA".toList = true ∧
    isFastaStart "##FASTA ".toList = false ∧ isFastaStart "#>".toList = false := by decide
example : classify "##FASTA ".toList = .directive "FASTA ".toList := by decide
example : classify "#".toList = .skip ∧ classify [] = .skip ∧ classify "##".toList = .directive [] := by decide

end GffProofs.C14
