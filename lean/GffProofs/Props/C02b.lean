/-
  C02b — the GFF3 hierarchy on the UPDATE path: `FeatureDB.update(more_lines)` re-runs the GFF importer
  on an open database whose `relations` table already holds level-1 and level-2 rows, and recomputes
  level 2 over everything (`INSERT OR IGNORE`).  Importing a file in one go and importing it batch by
  batch (`create_db` on the first batch, then any number of `update`s) give the same feature table and
  the same relation SET — exactly the Parent graph of the union, two levels deep:

  * `update_preserves_relspec` — the invariant "rows = the rows of the features stored so far, relations
                                  = `RelSpec` of the features stored so far, no duplicate row" is
                                  preserved by one `update` (and established by `create_db`:
                                  `createDb_holds`).
  * `update_equiv_create`      — `create_db(fs1)`, open, `update(fs2)`  ≡  `create_db(fs1 ++ fs2)`.
  * `updates_equiv_create`     — the same for any list of successive batches.
  * `updated_relation_query_exact`, `updates_relation_query_exact` — children / parents on the updated
                                  session answer the Parent graph of the union.

  Parent values may point across batches in both directions (a level-2 relation whose middle feature,
  or whose grandparent, arrives in a later batch is present afterwards), may dangle, may repeat.
-/
import GffProofs.Props.C10
import GffProofs.Lemmas.C01Db

namespace GffProofs.C02
open GffModel GffModel.Create GffModel.Interface
open GffProofs.C10 (specRow filterMap_specRow newRows newRows_ids newRows_append UpdateOk
  update_gff_refines_spec createDb_refines_spec abs Spec.update)

/-! ## Specification -/

/-- the domain without the non-emptiness clause of `GraphOk` (a later batch may be empty): every
feature carries exactly one `ID`, and the IDs are pairwise different -/
structure UniqueIds (fs : List Feature) : Prop where
  ids : ∀ f ∈ fs, ∃ id, idOf f = some id
  nodup : (fs.filterMap idOf).Nodup

/-- **the relation set the Parent attributes of `fs` define** (the specification of C02, for a feature
list that may have arrived in several batches):
level 1 = `p` is a Parent value of the feature with ID `c`;
level 2 = `p` is the ID of a feature of `fs` and there are two level-1 steps `p → m → c` (the middle
id `m` need not be stored: only its lines' Parent values matter); nothing else. -/
def RelSpec (fs : List Feature) (r : Rel) : Prop :=
  (r.level = 1 ∧ Edge1 fs r.parent r.child) ∨
  (r.level = 2 ∧ r.parent ∈ fs.filterMap idOf ∧ ∃ m, Edge1 fs r.parent m ∧ Edge1 fs m r.child)

/-- the database holds exactly the features `fs` (row by row, in order; `C10.specRow` is the row of one
line: key = its `ID`, the columns copied, the bin recomputed) and exactly the relation set `RelSpec fs`,
each relation row once -/
structure HoldsGraph (fs : List Feature) (db : Db) : Prop where
  rows : db.features = fs.filterMap specRow
  rels : ∀ r, r ∈ db.relations ↔ RelSpec fs r
  nodup : db.relations.Nodup

/-- one batch of a later `update` call, with the keyword arguments that matter to the importer -/
structure Batch where
  strategy : Strategy
  dialect : Dialect
  features : List Feature

/-- all the features of a list of batches, in arrival order -/
def allFeatures (bs : List Batch) : List Feature := (bs.map (·.features)).flatten

/-- `db.update(b₁); db.update(b₂); …` -/
def runUpdates (s : Session) (bs : List Batch) : Py Session :=
  bs.foldlM (fun s b => update s (gffCfg b.strategy b.dialect) b.features) s

/-- what `children(x, level)` (`isChildren`) / `parents(x, level)` must return, as a predicate on the
ID `y` of the returned feature, read off the Parent attributes of `fs` -/
def RelatedSpec (fs : List Feature) (isChildren : Bool) (x : Str) (level : Option Int) (y : Str) : Prop :=
  match level with
  | some l => RelSpec fs (if isChildren then ⟨x, y, l⟩ else ⟨y, x, l⟩)
  | none => RelSpec fs (if isChildren then ⟨x, y, 1⟩ else ⟨y, x, 1⟩) ∨
            RelSpec fs (if isChildren then ⟨x, y, 2⟩ else ⟨y, x, 2⟩)

/-! ## Basic facts about the specification -/

theorem GraphOk.unique {fs : List Feature} (h : GraphOk fs) : UniqueIds fs := ⟨h.ids, h.nodup⟩

theorem UniqueIds.graphOk {fs : List Feature} (h : UniqueIds fs) (hne : fs ≠ []) : GraphOk fs :=
  ⟨hne, h.ids, h.nodup⟩

theorem UniqueIds.left {a b : List Feature} (h : UniqueIds (a ++ b)) : UniqueIds a where
  ids := fun f hf => h.ids f (List.mem_append_left _ hf)
  nodup := by
    have := h.nodup
    rw [List.filterMap_append, List.nodup_append] at this
    exact this.1

theorem UniqueIds.right {a b : List Feature} (h : UniqueIds (a ++ b)) : UniqueIds b where
  ids := fun f hf => h.ids f (List.mem_append_right _ hf)
  nodup := by
    have := h.nodup
    rw [List.filterMap_append, List.nodup_append] at this
    exact this.2.1

theorem UniqueIds.fresh {a b : List Feature} (h : UniqueIds (a ++ b)) :
    ∀ id ∈ b.filterMap idOf, id ∉ a.filterMap idOf := by
  intro id hb ha
  have := h.nodup
  rw [List.filterMap_append, List.nodup_append] at this
  exact this.2.2 id ha id hb rfl

theorem edge1_append (a b : List Feature) (p c : Str) :
    Edge1 (a ++ b) p c ↔ Edge1 a p c ∨ Edge1 b p c := by
  unfold Edge1
  constructor
  · rintro ⟨f, hf, h⟩
    rcases List.mem_append.mp hf with hf | hf
    · exact Or.inl ⟨f, hf, h⟩
    · exact Or.inr ⟨f, hf, h⟩
  · rintro (⟨f, hf, h⟩ | ⟨f, hf, h⟩)
    · exact ⟨f, List.mem_append_left _ hf, h⟩
    · exact ⟨f, List.mem_append_right _ hf, h⟩

/-- relations are only ever added: the specification is monotone in the stored features -/
theorem relSpec_mono (a b : List Feature) (r : Rel) (h : RelSpec a r) : RelSpec (a ++ b) r := by
  rcases h with ⟨hl, he⟩ | ⟨hl, hp, m, h1, h2⟩
  · exact Or.inl ⟨hl, (edge1_append _ _ _ _).mpr (Or.inl he)⟩
  · refine Or.inr ⟨hl, ?_, m, (edge1_append _ _ _ _).mpr (Or.inl h1), (edge1_append _ _ _ _).mpr (Or.inl h2)⟩
    rw [List.filterMap_append]
    exact List.mem_append_left _ hp

theorem relSpec_level1 (fs : List Feature) (p c : Str) : RelSpec fs ⟨p, c, 1⟩ ↔ Edge1 fs p c := by
  unfold RelSpec
  constructor
  · rintro (⟨_, he⟩ | ⟨hl, _⟩)
    · exact he
    · simp at hl
  · exact fun he => Or.inl ⟨rfl, he⟩

theorem relSpec_level2 (fs : List Feature) (p c : Str) :
    RelSpec fs ⟨p, c, 2⟩ ↔ (p ∈ fs.filterMap idOf ∧ ∃ m, Edge1 fs p m ∧ Edge1 fs m c) := by
  unfold RelSpec
  constructor
  · rintro (⟨hl, _⟩ | ⟨_, h⟩)
    · simp at hl
    · exact h
  · exact fun h => Or.inr ⟨rfl, h⟩

theorem relSpec_levels (fs : List Feature) (r : Rel) (h : RelSpec fs r) : r.level = 1 ∨ r.level = 2 :=
  h.elim (fun h => Or.inl h.1) (fun h => Or.inr h.1)

theorem relSpec_nil (r : Rel) : ¬ RelSpec [] r := by
  rintro (⟨_, he⟩ | ⟨_, hp, _⟩)
  · exact edge1_nil _ _ he
  · cases hp

theorem HoldsGraph.ids {fs : List Feature} {db : Db} (h : HoldsGraph fs db) :
    db.features.map (·.id) = fs.filterMap idOf := by
  rw [h.rows, filterMap_specRow, newRows_ids]

/-- two databases holding the same graph have the same rows and the same relation set (even the same
relation rows up to order) -/
theorem HoldsGraph.agree {fs : List Feature} {db db' : Db} (h : HoldsGraph fs db) (h' : HoldsGraph fs db') :
    db.features = db'.features ∧ (∀ r, r ∈ db.relations ↔ r ∈ db'.relations) ∧
      db.relations.Perm db'.relations := by
  have hm : ∀ r, r ∈ db.relations ↔ r ∈ db'.relations := fun r => (h.rels r).trans (h'.rels r).symm
  exact ⟨h.rows.trans h'.rows.symm, hm, (List.perm_ext_iff_of_nodup h.nodup h'.nodup).mpr hm⟩

/-! ## `create_db` establishes the invariant -/

/-- **`create_db` on a C02 graph holds exactly that graph**; it writes one meta row (the dialect) -/
theorem createDb_holds (strategy : Strategy) (d : Dialect) (dirs : List Str) (fs : List Feature)
    (h : GraphOk fs) :
    ∃ db, createDb .gff (gffCfg strategy d) dirs fs = .ok db ∧ HoldsGraph fs db ∧ db.metaRows = [d] := by
  obtain ⟨db, hdb, _, a1, a2, a3, a4⟩ := import_relations_exact strategy d dirs fs h
  obtain ⟨db', hdb', hrows, _⟩ := createDb_refines_spec strategy d dirs fs h
  obtain ⟨db'', hdb'', _, hmeta, _⟩ := C01.createDb_rows strategy d dirs fs h
  rw [hdb] at hdb' hdb''
  cases hdb'; cases hdb''
  refine ⟨db, hdb, ⟨?_, fun r => ?_, a4⟩, hmeta⟩
  · exact hrows
  · obtain ⟨p, c, l⟩ := r
    constructor
    · intro hr
      rcases a3 _ hr with hl | hl <;> simp only at hl <;> subst hl
      · exact (relSpec_level1 fs p c).mpr ((a1 p c).mp hr)
      · exact (relSpec_level2 fs p c).mpr ((a2 p c).mp hr)
    · intro hs
      rcases relSpec_levels fs _ hs with hl | hl <;> simp only at hl <;> subst hl
      · exact (a1 p c).mpr ((relSpec_level1 fs p c).mp hs)
      · exact (a2 p c).mpr ((relSpec_level2 fs p c).mp hs)

/-- `createDb` fails on an empty feature list (`EmptyInputError` in gffutils), whatever the rest -/
theorem createDb_nil (cfg : Cfg) (dirs : List Str) : createDb .gff cfg dirs [] = .error .emptyInput := rfl

/-- opening the database `create_db` wrote: the session's dialect is the one recorded in the meta row -/
theorem openDb_of_meta (db : Db) (d : Dialect) (ko sv : Bool) (hm : db.metaRows = [d]) :
    ∃ s, openDb db ko sv = .ok s ∧ s.db = db ∧ s.dialect = d := by
  unfold openDb
  rw [hm]
  exact ⟨_, rfl, rfl, rfl⟩

/-! ## one `update` preserves the invariant -/

/-- **Invariant lemma.**  Let the open GFF3 database hold exactly the graph of the features `fs` stored
so far (rows, `RelSpec fs`, no duplicate relation row).  Then `update` with a further batch `fs2` — any
strategy, any dialect, possibly empty, whose IDs are single-valued and new — succeeds and the database
holds exactly the graph of `fs ++ fs2`: in particular the level-2 pass, re-run over a table that already
contains level-2 rows, adds exactly the missing compositions (also those whose middle feature or whose
grandparent arrived only now) and nothing else.  The session's dialect and counters do not move. -/
theorem update_preserves_relspec (s : Session) (strategy : Strategy) (d : Dialect) (fs fs2 : List Feature)
    (hfmt : s.dialect.fmt = Parser.gff3) (hu : UniqueIds (fs ++ fs2)) (hinv : HoldsGraph fs s.db) :
    ∃ s', update s (gffCfg strategy d) fs2 = .ok s' ∧ HoldsGraph (fs ++ fs2) s'.db ∧
      s'.dialect = s.dialect ∧ s'.auto = s.auto := by
  by_cases hne : fs2 = []
  · subst hne
    exact ⟨s, rfl, by simpa using hinv, rfl, rfl⟩
  have hok : UpdateOk s fs2 := by
    refine ⟨hfmt, hu.right.graphOk hne, ?_⟩
    rw [hinv.ids]
    exact hu.fresh
  obtain ⟨s', hup, ⟨hrows, hrels⟩, _, hnd, _, _, _, _, hauto, hdial, _⟩ :=
    update_gff_refines_spec s strategy d fs2 hok
  have hrows' : s'.db.features = s.db.features ++ fs2.filterMap specRow := hrows
  have hrels' : ∀ r, r ∈ s'.db.relations ↔ ((abs s.db).update fs2).rels r := hrels
  have hids : (s.db.features ++ fs2.filterMap specRow).map (·.id) = (fs ++ fs2).filterMap idOf := by
    rw [List.map_append, hinv.ids, filterMap_specRow, newRows_ids, List.filterMap_append]
  have e1 : ∀ p c, ((⟨p, c, 1⟩ : Rel) ∈ s.db.relations ∨ Edge1 fs2 p c) ↔ Edge1 (fs ++ fs2) p c := by
    intro p c
    rw [hinv.rels, relSpec_level1, edge1_append]
  refine ⟨s', hup, ⟨?_, fun r => ?_, hnd hinv.nodup⟩, hdial, hauto⟩
  · rw [hrows', hinv.rows, List.filterMap_append]
  · rw [hrels']
    simp only [abs, Spec.update]
    rw [hids]
    simp only [e1]
    constructor
    · rintro (h0 | ⟨hl, he⟩ | h2)
      · exact relSpec_mono fs fs2 r ((hinv.rels r).mp h0)
      · exact Or.inl ⟨hl, (edge1_append _ _ _ _).mpr (Or.inr he)⟩
      · exact Or.inr h2
    · rintro (⟨hl, he⟩ | h2)
      · rcases (edge1_append _ _ _ _).mp he with he | he
        · exact Or.inl ((hinv.rels r).mpr (Or.inl ⟨hl, he⟩))
        · exact Or.inr (Or.inl ⟨hl, he⟩)
      · exact Or.inr (Or.inr h2)

/-- the invariant through any number of successive `update`s -/
theorem runUpdates_preserves_relspec (bs : List Batch) :
    ∀ (s : Session) (fs : List Feature), s.dialect.fmt = Parser.gff3 → UniqueIds (fs ++ allFeatures bs) →
      HoldsGraph fs s.db →
      ∃ s', runUpdates s bs = .ok s' ∧ HoldsGraph (fs ++ allFeatures bs) s'.db ∧
        s'.dialect = s.dialect ∧ s'.auto = s.auto := by
  induction bs with
  | nil =>
    intro s fs _ _ hinv
    exact ⟨s, rfl, by simpa [allFeatures] using hinv, rfl, rfl⟩
  | cons b bs ih =>
    intro s fs hfmt hu hinv
    have hall : fs ++ allFeatures (b :: bs) = (fs ++ b.features) ++ allFeatures bs := by
      simp [allFeatures]
    rw [hall] at hu ⊢
    obtain ⟨s1, h1, inv1, hd1, ha1⟩ :=
      update_preserves_relspec s b.strategy b.dialect fs b.features hfmt hu.left hinv
    obtain ⟨s2, h2, inv2, hd2, ha2⟩ := ih s1 (fs ++ b.features) (by rw [hd1]; exact hfmt) hu inv1
    refine ⟨s2, ?_, inv2, by rw [hd2, hd1], by rw [ha2, ha1]⟩
    unfold runUpdates at h2 ⊢
    simp only [List.foldlM_cons, h1, bind, Except.bind]
    exact h2

/-! ## batch-wise import ≡ import in one go -/

/-- **`create_db(fs1)` then `update(fs2)` ≡ `create_db(fs1 ++ fs2)`.**
For every pair of batches whose union is a C02 graph (single-valued IDs, pairwise different over BOTH
batches; Parent values arbitrary — across the batches in either direction, dangling, repeated), every
strategy / dialect / directives of the creation (the dialect's format being GFF3, which is what routes
`update` to the GFF importer), every strategy / dialect of the update and every way of opening:
all four calls succeed (`fs1 ≠ []` because `create_db` raises `EmptyInputError` on an empty input —
`createDb_nil`; `fs2` may be empty), the updated database has the same feature table as the one-go
import — the rows of `fs1 ++ fs2` in that order — and the same relation set, which is exactly `RelSpec
(fs1 ++ fs2)`: `(p, c, 1)` for every Parent value `p` of `c`, `(p, c, 2)` for every `p` stored in either
batch with two level-1 steps to `c`; no relation row is duplicated (so the two relation tables are
permutations of each other). -/
theorem update_equiv_create (strategy strategy' : Strategy) (d d' : Dialect) (dirs : List Str)
    (ko sv : Bool) (fs1 fs2 : List Feature)
    (hfmt : d.fmt = Parser.gff3) (hne : fs1 ≠ []) (h : GraphOk (fs1 ++ fs2)) :
    ∃ db1 s1 s2 db,
      createDb .gff (gffCfg strategy d) dirs fs1 = .ok db1 ∧
      openDb db1 ko sv = .ok s1 ∧
      update s1 (gffCfg strategy' d') fs2 = .ok s2 ∧
      createDb .gff (gffCfg strategy d) dirs (fs1 ++ fs2) = .ok db ∧
      s2.db.features = db.features ∧
      s2.db.features = (fs1 ++ fs2).filterMap specRow ∧
      (∀ r, r ∈ s2.db.relations ↔ r ∈ db.relations) ∧
      (∀ r, r ∈ s2.db.relations ↔ RelSpec (fs1 ++ fs2) r) ∧
      s2.db.relations.Nodup ∧
      s2.db.relations.Perm db.relations := by
  obtain ⟨db1, hc1, inv1, hm1⟩ := createDb_holds strategy d dirs fs1 (h.unique.left.graphOk hne)
  obtain ⟨s1, ho, hs1, hd1⟩ := openDb_of_meta db1 d ko sv hm1
  obtain ⟨s2, hu, inv2, _, _⟩ := update_preserves_relspec s1 strategy' d' fs1 fs2 (by rw [hd1]; exact hfmt)
    h.unique (by rw [hs1]; exact inv1)
  obtain ⟨db, hc, inv, _⟩ := createDb_holds strategy d dirs (fs1 ++ fs2) h
  obtain ⟨a1, a2, a3⟩ := inv2.agree inv
  exact ⟨db1, s1, s2, db, hc1, ho, hu, hc, a1, inv2.rows, a2, inv2.rels, inv2.nodup, a3⟩

/-- **`create_db(fs1)` then any number of `update`s ≡ `create_db` of everything.**  Each batch comes
with its own strategy / dialect; batches may be empty. -/
theorem updates_equiv_create (strategy : Strategy) (d : Dialect) (dirs : List Str) (ko sv : Bool)
    (fs1 : List Feature) (bs : List Batch)
    (hfmt : d.fmt = Parser.gff3) (hne : fs1 ≠ []) (h : GraphOk (fs1 ++ allFeatures bs)) :
    ∃ db1 s1 sn db,
      createDb .gff (gffCfg strategy d) dirs fs1 = .ok db1 ∧
      openDb db1 ko sv = .ok s1 ∧
      runUpdates s1 bs = .ok sn ∧
      createDb .gff (gffCfg strategy d) dirs (fs1 ++ allFeatures bs) = .ok db ∧
      sn.db.features = db.features ∧
      sn.db.features = (fs1 ++ allFeatures bs).filterMap specRow ∧
      (∀ r, r ∈ sn.db.relations ↔ r ∈ db.relations) ∧
      (∀ r, r ∈ sn.db.relations ↔ RelSpec (fs1 ++ allFeatures bs) r) ∧
      sn.db.relations.Nodup ∧
      sn.db.relations.Perm db.relations := by
  obtain ⟨db1, hc1, inv1, hm1⟩ := createDb_holds strategy d dirs fs1 (h.unique.left.graphOk hne)
  obtain ⟨s1, ho, hs1, hd1⟩ := openDb_of_meta db1 d ko sv hm1
  obtain ⟨sn, hu, invn, _, _⟩ := runUpdates_preserves_relspec bs s1 fs1 (by rw [hd1]; exact hfmt)
    h.unique (by rw [hs1]; exact inv1)
  obtain ⟨db, hc, inv, _⟩ := createDb_holds strategy d dirs (fs1 ++ allFeatures bs) h
  obtain ⟨a1, a2, a3⟩ := invn.agree inv
  exact ⟨db1, s1, sn, db, hc1, ho, hu, hc, a1, invn.rows, a2, invn.rels, invn.nodup, a3⟩

/-! ## children / parents on a database holding a graph -/

/-- on a database holding the graph of `fs`, "there is a relation row linking `x` and `y` at the requested
level" is exactly `RelatedSpec` -/
theorem HoldsGraph.related_iff {fs : List Feature} {db : Db} (hg : HoldsGraph fs db) (isChildren : Bool)
    (x : Str) (level : Option Int) (y : Str) :
    (∃ rel ∈ db.relations, (match level with | some l => rel.level = l | none => True) ∧
        (if isChildren then rel.parent = x ∧ rel.child = y else rel.child = x ∧ rel.parent = y)) ↔
      RelatedSpec fs isChildren x level y := by
  constructor
  · rintro ⟨⟨p, c, l⟩, hrel, hl, hpc⟩
    have hs := (hg.rels _).mp hrel
    cases level with
    | some l' =>
      simp only at hl; subst hl
      cases isChildren
      · simp only [Bool.false_eq_true, if_false] at hpc
        obtain ⟨rfl, rfl⟩ := hpc
        simpa [RelatedSpec] using hs
      · simp only [if_true] at hpc
        obtain ⟨rfl, rfl⟩ := hpc
        simpa [RelatedSpec] using hs
    | none =>
      have hl' := relSpec_levels fs _ hs
      simp only at hl'
      cases isChildren
      · simp only [Bool.false_eq_true, if_false] at hpc
        obtain ⟨rfl, rfl⟩ := hpc
        rcases hl' with rfl | rfl
        · exact Or.inl (by simpa using hs)
        · exact Or.inr (by simpa using hs)
      · simp only [if_true] at hpc
        obtain ⟨rfl, rfl⟩ := hpc
        rcases hl' with rfl | rfl
        · exact Or.inl (by simpa using hs)
        · exact Or.inr (by simpa using hs)
  · intro hs
    cases level with
    | some l =>
      simp only [RelatedSpec] at hs
      refine ⟨_, (hg.rels _).mpr hs, ?_, ?_⟩
      · cases isChildren <;> simp
      · cases isChildren <;> simp
    | none =>
      simp only [RelatedSpec] at hs
      rcases hs with hs | hs
      · refine ⟨_, (hg.rels _).mpr hs, trivial, ?_⟩
        cases isChildren <;> simp
      · refine ⟨_, (hg.rels _).mpr hs, trivial, ?_⟩
        cases isChildren <;> simp

/-- **children / parents answer the Parent graph** on every session whose database holds exactly the
graph of `fs` (one-go import or any batch history): `children(x, level)` / `parents(x, level)` return
exactly the stored rows whose ID is related to `x` by the Parent attributes of `fs` (`RelatedSpec`), each
once; nothing for a level other than 1, 2 or `None`. -/
theorem graph_relation_query_exact (fs : List Feature) (s : Session) (hu : UniqueIds fs)
    (hg : HoldsGraph fs s.db) (isChildren : Bool) (x : Str) (level : Option Int) :
    let res := runRelation s isChildren x level {}
    (res.map (·.id)).Nodup ∧
    (∀ r, r ∈ res ↔ (r ∈ fs.filterMap specRow ∧ RelatedSpec fs isChildren x level r.id)) := by
  intro res
  have hid : (s.db.features.map (·.id)).Nodup := by rw [hg.ids]; exact hu.nodup
  have hn := (relation_query_exact s isChildren x level hid).1
  refine ⟨hn, fun r => ?_⟩
  rw [mem_runRelation_empty, hg.rows]
  exact and_congr Iff.rfl (hg.related_iff isChildren x level r.id)

/-- level by level, in words of the Parent attributes: what `RelatedSpec` says for `children` -/
theorem relatedSpec_children (fs : List Feature) (x y : Str) :
    (RelatedSpec fs true x (some 1) y ↔ Edge1 fs x y) ∧
    (RelatedSpec fs true x (some 2) y ↔ (x ∈ fs.filterMap idOf ∧ ∃ m, Edge1 fs x m ∧ Edge1 fs m y)) ∧
    (RelatedSpec fs true x none y ↔
      (Edge1 fs x y ∨ (x ∈ fs.filterMap idOf ∧ ∃ m, Edge1 fs x m ∧ Edge1 fs m y))) := by
  simp only [RelatedSpec, if_true, relSpec_level1, relSpec_level2, and_self]

/-- … and for `parents` (the same with the roles swapped: `parents` is the inverse of `children`) -/
theorem relatedSpec_parents (fs : List Feature) (x y : Str) :
    (RelatedSpec fs false x (some 1) y ↔ Edge1 fs y x) ∧
    (RelatedSpec fs false x (some 2) y ↔ (y ∈ fs.filterMap idOf ∧ ∃ m, Edge1 fs y m ∧ Edge1 fs m x)) ∧
    (RelatedSpec fs false x none y ↔
      (Edge1 fs y x ∨ (y ∈ fs.filterMap idOf ∧ ∃ m, Edge1 fs y m ∧ Edge1 fs m x))) := by
  simp only [RelatedSpec, Bool.false_eq_true, if_false, relSpec_level1, relSpec_level2, and_self]

/-- **Corollary: children / parents after `create_db(fs1)`, `update(fs2)` answer the Parent graph of
the union `fs1 ++ fs2`.** -/
theorem updated_relation_query_exact (strategy strategy' : Strategy) (d d' : Dialect) (dirs : List Str)
    (ko sv : Bool) (fs1 fs2 : List Feature)
    (hfmt : d.fmt = Parser.gff3) (hne : fs1 ≠ []) (h : GraphOk (fs1 ++ fs2)) :
    ∃ db1 s1 s2,
      createDb .gff (gffCfg strategy d) dirs fs1 = .ok db1 ∧
      openDb db1 ko sv = .ok s1 ∧
      update s1 (gffCfg strategy' d') fs2 = .ok s2 ∧
      ∀ (isChildren : Bool) (x : Str) (level : Option Int),
        ((runRelation s2 isChildren x level {}).map (·.id)).Nodup ∧
        ∀ r, r ∈ runRelation s2 isChildren x level {} ↔
          (r ∈ (fs1 ++ fs2).filterMap specRow ∧ RelatedSpec (fs1 ++ fs2) isChildren x level r.id) := by
  obtain ⟨db1, hc1, inv1, hm1⟩ := createDb_holds strategy d dirs fs1 (h.unique.left.graphOk hne)
  obtain ⟨s1, ho, hs1, hd1⟩ := openDb_of_meta db1 d ko sv hm1
  obtain ⟨s2, hu, inv2, _, _⟩ := update_preserves_relspec s1 strategy' d' fs1 fs2 (by rw [hd1]; exact hfmt)
    h.unique (by rw [hs1]; exact inv1)
  exact ⟨db1, s1, s2, hc1, ho, hu, fun isChildren x level =>
    graph_relation_query_exact (fs1 ++ fs2) s2 h.unique inv2 isChildren x level⟩

/-- the same after any number of batches -/
theorem updates_relation_query_exact (strategy : Strategy) (d : Dialect) (dirs : List Str) (ko sv : Bool)
    (fs1 : List Feature) (bs : List Batch)
    (hfmt : d.fmt = Parser.gff3) (hne : fs1 ≠ []) (h : GraphOk (fs1 ++ allFeatures bs)) :
    ∃ db1 s1 sn,
      createDb .gff (gffCfg strategy d) dirs fs1 = .ok db1 ∧
      openDb db1 ko sv = .ok s1 ∧
      runUpdates s1 bs = .ok sn ∧
      ∀ (isChildren : Bool) (x : Str) (level : Option Int),
        ((runRelation sn isChildren x level {}).map (·.id)).Nodup ∧
        ∀ r, r ∈ runRelation sn isChildren x level {} ↔
          (r ∈ (fs1 ++ allFeatures bs).filterMap specRow ∧
            RelatedSpec (fs1 ++ allFeatures bs) isChildren x level r.id) := by
  obtain ⟨db1, hc1, inv1, hm1⟩ := createDb_holds strategy d dirs fs1 (h.unique.left.graphOk hne)
  obtain ⟨s1, ho, hs1, hd1⟩ := openDb_of_meta db1 d ko sv hm1
  obtain ⟨sn, hu, invn, _, _⟩ := runUpdates_preserves_relspec bs s1 fs1 (by rw [hd1]; exact hfmt)
    h.unique (by rw [hs1]; exact inv1)
  exact ⟨db1, s1, sn, hc1, ho, hu, fun isChildren x level =>
    graph_relation_query_exact (fs1 ++ allFeatures bs) sn h.unique invn isChildren x level⟩

/-! ## Non-vacuity

Two batches: gene `g1` and the exons `e1`, `e2` first (their Parent `m1` dangles, `e2` also names the
never-defined `m2`), the middle level `m1` second.  Four batches: exon, then its mRNA (middle level, with a
dangling second parent `gX`), then an empty batch, then the gene (the grandparent arrives last), then one
more exon (the level-2 pass runs over a table that already holds a level-2 row). -/

section ExampleB

def b1 : List Feature :=
  [mkF "exon" "e2" 300 400 ["m1", "m2"], mkF "gene" "g1" 1 1000 [], mkF "exon" "e1" 100 200 ["m1"]]
def b2 : List Feature := [mkF "mRNA" "m1" 1 1000 ["g1"]]

theorem b12_ok : GraphOk (b1 ++ b2) where
  nonempty := by simp [b1]
  ids := by
    intro f hf
    simp only [b1, b2, List.cons_append, List.nil_append, List.mem_cons, List.not_mem_nil, or_false] at hf
    rcases hf with rfl | rfl | rfl | rfl <;> exact ⟨_, rfl⟩
  nodup := by decide +kernel

example : Dialect.default.fmt = Parser.gff3 := rfl
example : b1 ≠ [] := by simp [b1]

/-- `create_db(b1)`, open, `update(b2)` in the model -/
def twoStep : Py Session := do
  let db ← createDb .gff (gffCfg .error Dialect.default) [] b1
  let s ← openDb db
  update s (gffCfg .merge Dialect.default) b2

/-- before the update there is no level-2 row (the middle feature is missing) … -/
example : (createDb .gff (gffCfg .error Dialect.default) [] b1).toOption.map (·.relations) =
    some [rel "m1" "e2" 1, rel "m2" "e2" 1, rel "m1" "e1" 1] := by decide +kernel

/-- … afterwards `(g1, e2, 2)` and `(g1, e1, 2)` are there: the table equals, as a set, the one-go table -/
example : twoStep.toOption.map (·.db.relations) =
    some [rel "m1" "e2" 1, rel "m2" "e2" 1, rel "m1" "e1" 1, rel "g1" "m1" 1, rel "g1" "e2" 2, rel "g1" "e1" 2] := by
  decide +kernel

example : (createDb .gff (gffCfg .error Dialect.default) [] (b1 ++ b2)).toOption.map (·.relations) =
    some [rel "m1" "e2" 1, rel "m2" "e2" 1, rel "m1" "e1" 1, rel "g1" "m1" 1, rel "g1" "e2" 2, rel "g1" "e1" 2] := by
  decide +kernel

/-- `children("g1", level=2)` / `parents("e2")` on the updated session -/
example : twoStep.toOption.map (fun s =>
      ((runRelation s true "g1".toList (some 2) {}).map (·.id),
       (runRelation s false "e2".toList none {}).map (·.id))) =
    some (["e2".toList, "e1".toList], ["g1".toList, "m1".toList]) := by
  decide +kernel

/-- `update_equiv_create` applied to the example -/
example : ∃ db1 s1 s2 db,
      createDb .gff (gffCfg .error Dialect.default) [] b1 = .ok db1 ∧
      openDb db1 false false = .ok s1 ∧
      update s1 (gffCfg .merge Dialect.default) b2 = .ok s2 ∧
      createDb .gff (gffCfg .error Dialect.default) [] (b1 ++ b2) = .ok db ∧
      s2.db.features = db.features ∧
      s2.db.features = (b1 ++ b2).filterMap specRow ∧
      (∀ r, r ∈ s2.db.relations ↔ r ∈ db.relations) ∧
      (∀ r, r ∈ s2.db.relations ↔ RelSpec (b1 ++ b2) r) ∧
      s2.db.relations.Nodup ∧
      s2.db.relations.Perm db.relations :=
  update_equiv_create .error .merge Dialect.default Dialect.default [] false false b1 b2 rfl (by simp [b1]) b12_ok

def c1 : List Feature := [mkF "exon" "e1" 100 200 ["m1"]]
def cbs : List Batch :=
  [⟨.error, Dialect.default, [mkF "mRNA" "m1" 1 1000 ["g1", "gX"]]⟩,
   ⟨.merge, Dialect.default, []⟩,
   ⟨.replace, Dialect.default, [mkF "gene" "g1" 1 1000 []]⟩,
   ⟨.createUnique, Dialect.default, [mkF "exon" "e3" 500 600 ["m1"]]⟩]

theorem c_ok : GraphOk (c1 ++ allFeatures cbs) where
  nonempty := by simp [c1]
  ids := by
    intro f hf
    simp only [c1, cbs, allFeatures, List.map_cons, List.map_nil, List.flatten_cons, List.flatten_nil,
      List.cons_append, List.nil_append, List.append_nil, List.mem_cons, List.not_mem_nil, or_false] at hf
    rcases hf with rfl | rfl | rfl | rfl <;> exact ⟨_, rfl⟩
  nodup := by decide +kernel

def manySteps (n : Nat) : Py Session := do
  let db ← createDb .gff (gffCfg .error Dialect.default) [] c1
  let s ← openDb db
  runUpdates s (cbs.take n)

/-- after the mRNA batch: still no level 2 (`g1` is not stored); after the gene batch: `(g1, e1, 2)`;
after the last batch also `(g1, e3, 2)`, and `(g1, e1, 2)` is not duplicated -/
example : (manySteps 2).toOption.map (·.db.relations) =
    some [rel "m1" "e1" 1, rel "g1" "m1" 1, rel "gX" "m1" 1] := by decide +kernel
example : (manySteps 3).toOption.map (·.db.relations) =
    some [rel "m1" "e1" 1, rel "g1" "m1" 1, rel "gX" "m1" 1, rel "g1" "e1" 2] := by decide +kernel
example : (manySteps 4).toOption.map (·.db.relations) =
    some [rel "m1" "e1" 1, rel "g1" "m1" 1, rel "gX" "m1" 1, rel "g1" "e1" 2, rel "m1" "e3" 1, rel "g1" "e3" 2] := by
  decide +kernel

/-- `updates_equiv_create` / `updates_relation_query_exact` applied to the example -/
example : ∃ db1 s1 sn db,
      createDb .gff (gffCfg .warning Dialect.default) [] c1 = .ok db1 ∧
      openDb db1 true false = .ok s1 ∧
      runUpdates s1 cbs = .ok sn ∧
      createDb .gff (gffCfg .warning Dialect.default) [] (c1 ++ allFeatures cbs) = .ok db ∧
      sn.db.features = db.features ∧
      sn.db.features = (c1 ++ allFeatures cbs).filterMap specRow ∧
      (∀ r, r ∈ sn.db.relations ↔ r ∈ db.relations) ∧
      (∀ r, r ∈ sn.db.relations ↔ RelSpec (c1 ++ allFeatures cbs) r) ∧
      sn.db.relations.Nodup ∧
      sn.db.relations.Perm db.relations :=
  updates_equiv_create .warning Dialect.default [] true false c1 cbs rfl (by simp [c1]) c_ok

/-- the hypothesis `fs1 ≠ []` is needed: `create_db` of nothing is `EmptyInputError` -/
example : createDb .gff (gffCfg .error Dialect.default) [] [] = .error .emptyInput := rfl

/-- the hypothesis on the format is needed: on a database whose recorded dialect is neither GFF3 nor
GTF, `update` raises -/
example : (do
    let db ← createDb .gff (gffCfg .error { Dialect.default with fmt := "x".toList }) [] b1
    let s ← openDb db
    update s (gffCfg .error Dialect.default) b2).toOption.isNone = true := by decide +kernel

end ExampleB

end GffProofs.C02
