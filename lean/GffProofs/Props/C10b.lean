/-
  C10b — `update` with COLLIDING keys (continuation of C10).

  `Props/C10.lean` proves `update_gff_refines_spec` for inputs whose ids are pairwise different and not
  stored yet.  Here the same statement is proved for the merge strategies `warning`, `replace`,
  `create_unique` (and, without collision, `error` / `merge`) when keys DO collide — with stored rows or
  among the arrivals — and for `merge` with collisions (§2b, on databases that hold a `merge` import), by composing

  * C05's whole-import theorems (`warning_keeps_first_seq`, `replace_keeps_last_seq`, `create_unique_fold`,
    `no_collision_seq`, `error_aborts_seq`), which hold from any starting database and any counters,
  * the characterisation of the level-2 pass `updateRelationsGff` (Lemmas/C02Db.lean), and
  * the counter / frame lemmas of C10.

  Layout
  * §0  specification: `stratRows`, `stratLinks`, `StratOk`, `Spec.updateStrat`
  * §1  the importer never reorders / duplicates relation rows (`populateGff_rels`)
  * §2  `update_refines_spec_strategies` (+ `update_strategies_levels`, `level2Closed_update_strategies`,
        `update_error_collision`)
  * §2b `merge` with colliding keys: `update_merge_refines_spec` (composition with C05b)
  * §3  GTF: `update_gtf_counters_and_rows_partial`, and what is NOT proved (`update_gtf_exact_full`)
  * §4  non-vacuity
-/
import GffProofs.Props.C10
import GffProofs.Props.C05b
import GffProofs.Props.C03

namespace GffProofs.C10
open GffModel GffModel.Create GffModel.Interface
open GffProofs.C02 (idOf parentsOf gffCfg)
open GffProofs.C04 (autoId IdsNodup)
open GffProofs.C05 (Keyed keyOf idsOf firstArrivals replaced lastArrival placements Fresh storedRow linksOf
  priorCount uniqueId SameOther mem_linksOf)
open GffProofs.C03 (PopInv CfgOk GtfOk keyed lineRow RelSpec geneT transcriptT)

/-! ## §0 Specification -/

/-- **the rows the GFF3 importer leaves, per strategy** (C05): `rows0` are the stored rows, `auto0` the
counters, `fs` the arrivals (keyed by their single `ID`).
* `warning`: the old rows, then the FIRST arrival of every key not stored yet, unchanged;
* `replace`: the same places, but every row whose key arrives holds the LAST arrival of that key;
* `create_unique`: the old rows, then EVERY arrival, unchanged, the `i`-th one under
  `uniqueId … (fs.take i) key` (`key`, or `key_<counter+j>` when `j ≥ 1` holders of `key` came before);
* `error` / `merge`: only used without collision (`StratOk`): the old rows, then every arrival. -/
def stratRows (st : Strategy) (rows0 : List Row) (auto0 : Dict Nat) (fs : List Feature) : List Row :=
  match st with
  | .warning => rows0 ++ (firstArrivals (rows0.map (·.id)) fs).map C05.rowOf
  | .replace => (rows0 ++ (firstArrivals (rows0.map (·.id)) fs).map C05.rowOf).map (replaced fs)
  | .createUnique => rows0 ++ (placements (rows0.map (·.id)) auto0 [] fs).map (fun p => storedRow p.1 p.2)
  | _ => rows0 ++ fs.map C05.rowOf

/-- **the level-1 relation rows the importer adds, per strategy**: the `Parent` links of the first arrivals
(`warning`), of ALL arrivals under their key (`replace`: the links of overwritten arrivals are not withdrawn),
of all arrivals under the id they were given (`create_unique`) -/
def stratLinks (st : Strategy) (rows0 : List Row) (auto0 : Dict Nat) (fs : List Feature) : List Rel :=
  match st with
  | .warning => (firstArrivals (rows0.map (·.id)) fs).flatMap (fun f => linksOf f (keyOf f))
  | .createUnique => (placements (rows0.map (·.id)) auto0 [] fs).flatMap (fun p => linksOf p.1 p.2)
  | _ => fs.flatMap (fun f => linksOf f (keyOf f))

/-- how far the counter of `k` moves: `create_unique` advances it once per collision on `k` -/
def stratCount (st : Strategy) (ids0 : List Str) (fs : List Feature) (k : Str) : Nat :=
  match st with
  | .createUnique => priorCount ids0 fs k - 1
  | _ => 0

/-- **domain**: `warning` and `replace` accept every keyed input; `create_unique` needs the generated ids to
be free (`Fresh`, C05); `error` and `merge` are covered here only when no key collides -/
def StratOk (st : Strategy) (ids0 : List Str) (auto0 : Dict Nat) (fs : List Feature) : Prop :=
  match st with
  | .warning => True
  | .replace => True
  | .createUnique => Fresh ids0 auto0 fs
  | _ => (ids0 ++ fs.map keyOf).Nodup

/-- **reference `update(fs, merge_strategy=st)` on GFF3 content**: rows as `stratRows`; the relation set
gains the level-1 rows `stratLinks` and every level-2 row `(x, z)` such that `x` is stored after the update
and `x → y → z` are two level-1 rows of the resulting table.  (Same shape as `Spec.update` of C10, which is
the case "no collision".) -/
def Spec.updateStrat (m : Spec) (st : Strategy) (auto0 : Dict Nat) (fs : List Feature) : Spec :=
  let rows := stratRows st m.rows auto0 fs
  let links := stratLinks st m.rows auto0 fs
  let e1 : Str → Str → Prop := fun p c => m.rels ⟨p, c, 1⟩ ∨ (⟨p, c, 1⟩ : Rel) ∈ links
  { rows := rows,
    rels := fun r => m.rels r ∨ r ∈ links ∨
      (r.level = 2 ∧ r.parent ∈ rows.map (·.id) ∧ ∃ y, e1 r.parent y ∧ e1 y r.child) }

theorem stratLinks_level (st : Strategy) (rows0 : List Row) (auto0 : Dict Nat) (fs : List Feature) :
    ∀ r ∈ stratLinks st rows0 auto0 fs, r.level = 1 := by
  intro r hr
  cases st <;> simp only [stratLinks, List.mem_flatMap] at hr <;> obtain ⟨x, _, hx⟩ := hr <;>
    (obtain ⟨p, _, rfl⟩ := (mem_linksOf _ _ _).mp hx; rfl)

/-! ## §1 the importer only appends relation rows, never a duplicate (every configuration) -/

theorem attachParents_rels (db : Db) (filed : Option Str) (f : Feature) :
    db.relations <+: (C05.attachParents db filed f).relations ∧
    (db.relations.Nodup → (C05.attachParents db filed f).relations.Nodup) := by
  unfold C05.attachParents
  split
  · exact ⟨(foldl_insertRel_relExt _ _ _).pre, C02.foldl_insertRel_nodup _ _ _⟩
  · exact ⟨List.prefix_refl _, id⟩

theorem gffStep_rels (cfg : Cfg) (st st' : Db × Dict Nat) (f : Feature) (h : gffStep cfg st f = .ok st') :
    st.1.relations <+: st'.1.relations ∧ (st.1.relations.Nodup → st'.1.relations.Nodup) := by
  obtain ⟨db, auto⟩ := st
  cases hid : idHandler cfg.idSpec auto f with
  | error e => rw [C05.gffStep_idErr cfg db auto f e hid] at h; cases h
  | ok r =>
    obtain ⟨id, auto1⟩ := r
    rw [C05.gffStep_eq cfg db auto auto1 f id hid] at h
    cases hf : fileFeature cfg db auto1 f id with
    | error e => rw [hf] at h; cases h
    | ok r =>
      obtain ⟨db1, auto2, filed⟩ := r
      rw [hf] at h
      cases h
      have e := (C05.fileFeature_frame cfg db db1 auto1 auto2 f id filed hf).1
      have := attachParents_rels db1 filed f
      rw [e] at this
      exact this

/-- **`_populate_from_lines` (GFF3), any configuration: the old relation rows keep their places and no
duplicate row appears** -/
theorem populateGff_rels (cfg : Cfg) (db db' : Db) (auto auto' : Dict Nat) (fs : List Feature)
    (hp : populateGff cfg db auto fs = .ok (db', auto')) :
    db.relations <+: db'.relations ∧ (db.relations.Nodup → db'.relations.Nodup) := by
  unfold populateGff at hp
  split at hp
  · cases hp
  · exact C04.foldlM_inv (gffStep cfg)
      (fun t => db.relations <+: t.1.relations ∧ (db.relations.Nodup → t.1.relations.Nodup))
      (fun t a t' ht hs =>
        ⟨ht.1.trans (gffStep_rels cfg t t' a hs).1, fun h0 => (gffStep_rels cfg t t' a hs).2 (ht.2 h0)⟩)
      fs (db, auto) (db', auto') ⟨List.prefix_refl _, id⟩ hp

/-! ## §2 GFF3 `update` under the merge strategies -/

/-- C05's whole-import theorems in one statement: for every strategy in its domain `_populate_from_lines`
succeeds from ANY database and counters, and leaves `stratRows` / `stratLinks` -/
theorem populate_strategies (st : Strategy) (d : Dialect) (fs : List Feature) (db : Db) (auto : Dict Nat)
    (hne : fs ≠ []) (hK : Keyed fs) (hok : StratOk st (idsOf db) auto fs) :
    ∃ db' auto', populateGff (gffCfg st d) db auto fs = .ok (db', auto') ∧
      db'.features = stratRows st db.features auto fs ∧
      (∀ r, r ∈ db'.relations ↔ r ∈ db.relations ∨ r ∈ stratLinks st db.features auto fs) ∧
      (∀ k, (auto'.get? k).getD 0 = (auto.get? k).getD 0 + stratCount st (idsOf db) fs k) ∧
      (st ≠ .createUnique → auto' = auto) ∧ SameOther db db' := by
  cases st with
  | warning =>
    obtain ⟨db', h1, h2, h3, h4⟩ := C05.warning_keeps_first_seq d fs db auto hne hK
    refine ⟨db', auto, h1, h2, fun r => ?_, fun k => rfl, fun _ => rfl, h4⟩
    rw [h3]; simp only [stratLinks, List.mem_flatMap]; rfl
  | replace =>
    obtain ⟨db', h1, h2, h3, h4⟩ := C05.replace_keeps_last_seq d fs db auto hne hK
    refine ⟨db', auto, h1, h2, fun r => ?_, fun k => rfl, fun _ => rfl, h4⟩
    rw [h3]; simp only [stratLinks, List.mem_flatMap]
  | createUnique =>
    rw [C05.populateGff_ne _ _ _ _ hne]
    obtain ⟨db', auto', h1, h2, h3, h4, h5⟩ := C05.create_unique_fold d fs db auto hK hok
    refine ⟨db', auto', h1, h2, fun r => ?_, h4, fun h => absurd rfl h, h5⟩
    rw [h3]; simp only [stratLinks, List.mem_flatMap]; rfl
  | error =>
    obtain ⟨db', h1, h2, h3, h4⟩ := C05.no_collision_seq .error d fs db auto hne hK hok
    refine ⟨db', auto, h1, h2, fun r => ?_, fun k => rfl, fun _ => rfl, h4⟩
    rw [h3]; simp only [stratLinks, List.mem_flatMap]
  | merge =>
    obtain ⟨db', h1, h2, h3, h4⟩ := C05.no_collision_seq .merge d fs db auto hne hK hok
    refine ⟨db', auto, h1, h2, fun r => ?_, fun k => rfl, fun _ => rfl, h4⟩
    rw [h3]; simp only [stratLinks, List.mem_flatMap]

/-- what GFF3 `update` makes of a successful `_populate_from_lines` -/
theorem update_of_populate (s : Session) (cfg : Cfg) (fs : List Feature) (db1 : Db) (auto1 : Dict Nat)
    (hfmt : s.dialect.fmt = Parser.gff3) (hne : fs ≠ [])
    (hpop : populateGff cfg s.db s.auto fs = .ok (db1, auto1)) :
    update s cfg fs = .ok { s with db := finalize (updateRelationsGff db1) cfg.dialect [] auto1, auto := auto1 } := by
  rw [(C05.update_same_as_create s cfg fs).2.2.1 hne hfmt, hpop]

/-- **`update` with colliding keys refines the reference step.**  For every open GFF3 database (no
assumption on its content or counters), every non-empty input whose features carry one `ID` each, and every
strategy in its domain (`warning`, `replace`: always; `create_unique`: `Fresh`; `error`, `merge`: no
collision), the call succeeds and
* rows and relation set are those of `Spec.updateStrat` (rows as C05 states; level 1 gains `stratLinks`;
  level 2 gains the two-step compositions out of features stored AFTER the update);
* the old relation rows keep their places, no duplicate row appears;
* one meta row is appended; `directives` / `duplicates` tables untouched; the persistent counters are the old
  table overwritten with the new in-memory ones;
* counters: unchanged except under `create_unique`, which advances the counter of `k` once per collision on
  `k`; in every case they only grow (`CountersLe`, as `counters_monotone`);
* dialect, directives and flags of the session untouched. -/
theorem update_refines_spec_strategies (s : Session) (st : Strategy) (d : Dialect) (fs : List Feature)
    (hfmt : s.dialect.fmt = Parser.gff3) (hne : fs ≠ []) (hK : Keyed fs)
    (hok : StratOk st (idsOf s.db) s.auto fs) :
    ∃ s', update s (gffCfg st d) fs = .ok s' ∧
      (abs s'.db).Equiv ((abs s.db).updateStrat st s.auto fs) ∧
      s.db.relations <+: s'.db.relations ∧
      (s.db.relations.Nodup → s'.db.relations.Nodup) ∧
      s'.db.metaRows = s.db.metaRows ++ [d] ∧
      s'.db.directives = s.db.directives ∧
      s'.db.duplicates = s.db.duplicates ∧
      s'.db.autoinc = setAll s'.auto s.db.autoinc ∧
      (∀ k, (s'.auto.get? k).getD 0 = (s.auto.get? k).getD 0 + stratCount st (idsOf s.db) fs k) ∧
      (st ≠ .createUnique → s'.auto = s.auto) ∧
      CountersLe s.auto s'.auto ∧
      s'.dialect = s.dialect ∧ s'.directives = s.directives ∧
      s'.keepOrder = s.keepOrder ∧ s'.sortVals = s.sortVals := by
  obtain ⟨db1, auto1, hpop, hrows, hrels, hcnt, hauto, ho⟩ := populate_strategies st d fs s.db s.auto hne hK hok
  have hup := update_of_populate s (gffCfg st d) fs db1 auto1 hfmt hne hpop
  have hpre := populateGff_rels _ _ _ _ _ _ hpop
  have hext := updateRelationsGff_relExt db1
  have hL := stratLinks_level st s.db.features s.auto fs
  have e1 : ∀ p c, (⟨p, c, 1⟩ : Rel) ∈ db1.relations ↔
      ((⟨p, c, 1⟩ : Rel) ∈ s.db.relations ∨ (⟨p, c, 1⟩ : Rel) ∈ stratLinks st s.db.features s.auto fs) :=
    fun p c => hrels _
  refine ⟨_, hup, ⟨?_, fun r => ?_⟩, ?_, ?_, ?_, ?_, ?_, ?_, hcnt, hauto, (counters_monotone _ _ _ _ hup).1,
    rfl, rfl, rfl, rfl⟩
  · show (updateRelationsGff db1).features = _
    rw [C02.updateRelationsGff_features, hrows]; rfl
  · show r ∈ (updateRelationsGff db1).relations ↔ _
    rw [C02.updateRelationsGff_mem, hrels]
    simp only [abs, Spec.updateStrat]
    constructor
    · rintro ((h0 | h0) | ⟨row, hrow, y, c, h1, h2, rfl⟩)
      · exact Or.inl h0
      · exact Or.inr (Or.inl h0)
      · refine Or.inr (Or.inr ⟨rfl, ?_, y, (e1 _ _).mp h1, (e1 _ _).mp h2⟩)
        rw [← hrows]
        exact List.mem_map.mpr ⟨row, hrow, rfl⟩
    · rintro (h0 | h0 | ⟨hl, hp, y, h1, h2⟩)
      · exact Or.inl (Or.inl h0)
      · exact Or.inl (Or.inr h0)
      · obtain ⟨p, c, l⟩ := r
        simp only at hl hp h1 h2
        subst hl
        rw [← hrows] at hp
        obtain ⟨row, hrow, rfl⟩ := List.mem_map.mp hp
        exact Or.inr ⟨row, hrow, y, c, (e1 _ _).mpr h1, (e1 _ _).mpr h2, rfl⟩
  · exact hpre.1.trans hext.pre
  · intro h0
    exact C02.updateRelationsGff_nodup _ (hpre.2 h0)
  · show (updateRelationsGff db1).metaRows ++ [d] = _
    rw [hext.eq]; show db1.metaRows ++ [d] = _; rw [ho.1]
  · show (updateRelationsGff db1).directives ++ [] = _
    rw [hext.eq]; show db1.directives ++ [] = _; rw [ho.2.1]; simp
  · show (updateRelationsGff db1).duplicates = _
    rw [hext.eq]; exact ho.2.2.2
  · show (finalize (updateRelationsGff db1) d [] auto1).autoinc = _
    rw [finalize_autoinc, hext.eq]; show setAll auto1 db1.autoinc = _; rw [ho.2.2.1]

/-- the same, level by level: **level 1** gains exactly `stratLinks`; **level 2** = old level 2 ∪
`{(x, z, 2) | x stored after the update, (x, y, 1) and (y, z, 1) present after the update}`; no other level
changes -/
theorem update_strategies_levels (s : Session) (st : Strategy) (d : Dialect) (fs : List Feature)
    (hfmt : s.dialect.fmt = Parser.gff3) (hne : fs ≠ []) (hK : Keyed fs)
    (hok : StratOk st (idsOf s.db) s.auto fs) :
    ∃ s', update s (gffCfg st d) fs = .ok s' ∧
      s'.db.features = stratRows st s.db.features s.auto fs ∧
      (∀ p c, (⟨p, c, 1⟩ : Rel) ∈ s'.db.relations ↔
        ((⟨p, c, 1⟩ : Rel) ∈ s.db.relations ∨ (⟨p, c, 1⟩ : Rel) ∈ stratLinks st s.db.features s.auto fs)) ∧
      (∀ p c, (⟨p, c, 2⟩ : Rel) ∈ s'.db.relations ↔ ((⟨p, c, 2⟩ : Rel) ∈ s.db.relations ∨
          (p ∈ s'.db.features.map (·.id) ∧
            ∃ y, (⟨p, y, 1⟩ : Rel) ∈ s'.db.relations ∧ (⟨y, c, 1⟩ : Rel) ∈ s'.db.relations))) ∧
      (∀ p c l, l ≠ 1 → l ≠ 2 → ((⟨p, c, l⟩ : Rel) ∈ s'.db.relations ↔ (⟨p, c, l⟩ : Rel) ∈ s.db.relations)) := by
  obtain ⟨s', hup, ⟨hrows, hrels⟩, _⟩ := update_refines_spec_strategies s st d fs hfmt hne hK hok
  have hL := stratLinks_level st s.db.features s.auto fs
  have hrels' : ∀ r, r ∈ s'.db.relations ↔ ((abs s.db).updateStrat st s.auto fs).rels r := hrels
  have hrows' : s'.db.features = stratRows st s.db.features s.auto fs := hrows
  have l1 : ∀ p c, (⟨p, c, 1⟩ : Rel) ∈ s'.db.relations ↔
      ((⟨p, c, 1⟩ : Rel) ∈ s.db.relations ∨ (⟨p, c, 1⟩ : Rel) ∈ stratLinks st s.db.features s.auto fs) := by
    intro p c
    rw [hrels']
    simp only [abs, Spec.updateStrat]
    constructor
    · rintro (h0 | h0 | ⟨hl, _⟩)
      · exact Or.inl h0
      · exact Or.inr h0
      · exact absurd hl (by decide)
    · rintro (h0 | h0)
      · exact Or.inl h0
      · exact Or.inr (Or.inl h0)
  refine ⟨s', hup, hrows', l1, ?_, ?_⟩
  · intro p c
    rw [hrels']
    simp only [l1, hrows']
    simp only [abs, Spec.updateStrat]
    constructor
    · rintro (h0 | h0 | ⟨_, hp, y, h1, h2⟩)
      · exact Or.inl h0
      · exact absurd (hL _ h0) (by show ¬ (2 : Int) = 1; decide)
      · exact Or.inr ⟨hp, y, h1, h2⟩
    · rintro (h0 | ⟨hp, y, h1, h2⟩)
      · exact Or.inl h0
      · exact Or.inr (Or.inr ⟨trivial, hp, y, h1, h2⟩)
  · intro p c l h1 h2
    rw [hrels']
    simp only [abs, Spec.updateStrat]
    constructor
    · rintro (h0 | h0 | ⟨hl, _⟩)
      · exact h0
      · exact absurd (hL _ h0) h1
      · exact absurd hl h2
    · exact Or.inl

/-- every stored id stays stored (no strategy removes or renames a row) -/
theorem stratRows_ids_mono (st : Strategy) (rows0 : List Row) (auto0 : Dict Nat) (fs : List Feature) :
    ∀ x ∈ rows0.map (·.id), x ∈ (stratRows st rows0 auto0 fs).map (·.id) := by
  intro x hx
  have happ : ∀ l : List Row, x ∈ (rows0 ++ l).map (·.id) := fun l => by
    rw [List.map_append]; exact List.mem_append_left _ hx
  cases st with
  | replace =>
    simp only [stratRows, List.map_map]
    obtain ⟨r, hr, rfl⟩ := List.mem_map.mp hx
    refine List.mem_map.mpr ⟨r, List.mem_append_left _ hr, ?_⟩
    simp only [Function.comp, replaced]
    split <;> rfl
  | warning => exact happ _
  | createUnique => exact happ _
  | error => exact happ _
  | merge => exact happ _

/-- **`update` under every strategy preserves `Level2Closed`** (level 2 = two level-1 steps out of a stored
feature), also when keys collide -/
theorem level2Closed_update_strategies (s : Session) (st : Strategy) (d : Dialect) (fs : List Feature)
    (hfmt : s.dialect.fmt = Parser.gff3) (hne : fs ≠ []) (hK : Keyed fs)
    (hok : StratOk st (idsOf s.db) s.auto fs) (hc : Level2Closed s.db) :
    ∃ s', update s (gffCfg st d) fs = .ok s' ∧ Level2Closed s'.db := by
  obtain ⟨s', hup, hrows, l1, l2, _⟩ := update_strategies_levels s st d fs hfmt hne hK hok
  refine ⟨s', hup, fun p c => ?_⟩
  rw [l2]
  constructor
  · rintro (h0 | hnew)
    · obtain ⟨hp, y, h1, h2⟩ := (hc p c).mp h0
      refine ⟨?_, y, (l1 _ _).mpr (Or.inl h1), (l1 _ _).mpr (Or.inl h2)⟩
      rw [hrows]
      exact stratRows_ids_mono st _ _ _ p hp
    · exact hnew
  · exact Or.inr

/-- **`error` with a colliding key**: as soon as a key is held twice — by two arrivals, or by an arrival and
a stored row — `update` fails with `ValueError` and returns no session -/
theorem update_error_collision (s : Session) (d : Dialect) (fs : List Feature)
    (hfmt : s.dialect.fmt = Parser.gff3) (hK : Keyed fs) (h0 : IdsNodup s.db)
    (hdup : ¬ (idsOf s.db ++ fs.map keyOf).Nodup) :
    update s (gffCfg .error d) fs = .error .value := by
  have hne : fs ≠ [] := by
    rintro rfl
    exact hdup (by simpa [idsOf, IdsNodup] using h0)
  rw [(C05.update_same_as_create s _ fs).2.2.1 hne hfmt, C05.error_aborts_seq d fs s.db s.auto hK h0 hdup]

/-! ## §2b `merge` with colliding keys (composition with C05b)

C05b proves the whole-import form of `merge` as an invariant `MergeInv fmf db0 pre db auto` of the import loop
("`db` holds one row per group of the arrivals `pre`, the `duplicates` record of the later groups, the `Parent`
links of `pre` attached to the groups' ids, and the counters count the later groups").  Taking `db0 := db`
makes it a property of a database alone, and `update` preserves it. -/

open GffProofs.C05 (MergeInv MergeDomain mergeCfg mergeRows mergeDups mergeLinks groupReps cntKey)

/-- GFF3 `update`, any configuration: what the level-2 pass and `_finalize` make of a successful
`_populate_from_lines` that added the relation rows `L` -/
theorem update_gff_generic (s : Session) (cfg : Cfg) (fs : List Feature) (db1 : Db) (auto1 : Dict Nat) (L : List Rel)
    (hfmt : s.dialect.fmt = Parser.gff3) (hne : fs ≠ [])
    (hpop : populateGff cfg s.db s.auto fs = .ok (db1, auto1))
    (hrels : ∀ r, r ∈ db1.relations ↔ r ∈ s.db.relations ∨ r ∈ L) :
    ∃ s', update s cfg fs = .ok s' ∧ s'.auto = auto1 ∧ s'.db.features = db1.features ∧
      (∀ r, r ∈ s'.db.relations ↔ r ∈ s.db.relations ∨ r ∈ L ∨
        (r.level = 2 ∧ r.parent ∈ db1.features.map (·.id) ∧
          ∃ y, ((⟨r.parent, y, 1⟩ : Rel) ∈ s.db.relations ∨ (⟨r.parent, y, 1⟩ : Rel) ∈ L) ∧
               ((⟨y, r.child, 1⟩ : Rel) ∈ s.db.relations ∨ (⟨y, r.child, 1⟩ : Rel) ∈ L))) ∧
      s.db.relations <+: s'.db.relations ∧ (s.db.relations.Nodup → s'.db.relations.Nodup) ∧
      s'.db.metaRows = db1.metaRows ++ [cfg.dialect] ∧ s'.db.directives = db1.directives ∧
      s'.db.duplicates = db1.duplicates ∧ s'.db.autoinc = setAll auto1 db1.autoinc ∧
      CountersLe s.auto s'.auto ∧ s'.dialect = s.dialect ∧ s'.directives = s.directives := by
  have hup := update_of_populate s cfg fs db1 auto1 hfmt hne hpop
  have hpre := populateGff_rels _ _ _ _ _ _ hpop
  have hext := updateRelationsGff_relExt db1
  have e1 : ∀ p c, (⟨p, c, 1⟩ : Rel) ∈ db1.relations ↔
      ((⟨p, c, 1⟩ : Rel) ∈ s.db.relations ∨ (⟨p, c, 1⟩ : Rel) ∈ L) := fun p c => hrels _
  refine ⟨_, hup, rfl, C02.updateRelationsGff_features db1, fun r => ?_, hpre.1.trans hext.pre,
    fun h0 => C02.updateRelationsGff_nodup _ (hpre.2 h0), ?_, ?_, ?_, ?_, (counters_monotone _ _ _ _ hup).1, rfl, rfl⟩
  · show r ∈ (updateRelationsGff db1).relations ↔ _
    rw [C02.updateRelationsGff_mem, hrels]
    constructor
    · rintro ((h0 | h0) | ⟨row, hrow, y, c, h1, h2, rfl⟩)
      · exact Or.inl h0
      · exact Or.inr (Or.inl h0)
      · exact Or.inr (Or.inr ⟨rfl, List.mem_map.mpr ⟨row, hrow, rfl⟩, y, (e1 _ _).mp h1, (e1 _ _).mp h2⟩)
    · rintro (h0 | h0 | ⟨hl, hp, y, h1, h2⟩)
      · exact Or.inl (Or.inl h0)
      · exact Or.inl (Or.inr h0)
      · obtain ⟨p, c, l⟩ := r
        simp only at hl hp h1 h2
        subst hl
        obtain ⟨row, hrow, rfl⟩ := List.mem_map.mp hp
        exact Or.inr ⟨row, hrow, y, c, (e1 _ _).mpr h1, (e1 _ _).mpr h2, rfl⟩
  · show (updateRelationsGff db1).metaRows ++ [cfg.dialect] = _
    rw [hext.eq]
  · show (updateRelationsGff db1).directives ++ [] = _
    rw [hext.eq]; simp
  · show (updateRelationsGff db1).duplicates = _
    rw [hext.eq]
  · show (finalize (updateRelationsGff db1) cfg.dialect [] auto1).autoinc = _
    rw [finalize_autoinc, hext.eq]

theorem mergeLinks_level (fmf : List Str) (fs : List Feature) : ∀ r ∈ mergeLinks fmf fs, r.level = 1 := by
  intro r hr
  simp only [mergeLinks, List.mem_flatMap] at hr
  obtain ⟨x, _, hx⟩ := hr
  obtain ⟨p, _, rfl⟩ := (mem_linksOf _ _ _).mp hx
  rfl

/-- **`update(…, merge_strategy="merge")` with colliding keys.**  Let the open GFF3 database hold the `merge`
specification of the arrivals `pre` (`MergeInv fmf s.db pre s.db s.auto`: rows = `mergeRows pre`, `duplicates`
= `mergeDups pre`, the links `mergeLinks pre` present, counters = number of later groups per key — e.g. the
empty database with `pre = []`, or the result of an earlier `merge` import / update with the same
`force_merge_fields`).  Then for new arrivals `post` with `pre ++ post` in `MergeDomain` the call succeeds and
* rows = `mergeRows (pre ++ post)`: the new arrivals are merged into the stored rows of their groups (C05b) or open
  new groups under `key`, `key_1`, …; `duplicates` = `mergeDups (pre ++ post)`;
* level 1 gains exactly `mergeLinks (pre ++ post)`; level 2 = old level 2 ∪ the two-step compositions out of
  features stored after the update; no other level changes;
* counters: number of later groups per key (they only grow);
* the database again holds the `merge` specification — of `pre ++ post` — so the statement iterates. -/
theorem update_merge_refines_spec (s : Session) (d : Dialect) (fmf : List Str) (pre post : List Feature)
    (hfmt : s.dialect.fmt = Parser.gff3) (hne : post ≠ []) (hdom : MergeDomain (pre ++ post))
    (inv : MergeInv fmf s.db pre s.db s.auto) :
    ∃ s', update s (mergeCfg d fmf) post = .ok s' ∧
      s'.db.features = mergeRows fmf (pre ++ post) ∧
      s'.db.duplicates = mergeDups fmf (pre ++ post) ∧
      (∀ p c, (⟨p, c, 1⟩ : Rel) ∈ s'.db.relations ↔
        ((⟨p, c, 1⟩ : Rel) ∈ s.db.relations ∨ (⟨p, c, 1⟩ : Rel) ∈ mergeLinks fmf (pre ++ post))) ∧
      (∀ p c, (⟨p, c, 2⟩ : Rel) ∈ s'.db.relations ↔ ((⟨p, c, 2⟩ : Rel) ∈ s.db.relations ∨
          (p ∈ s'.db.features.map (·.id) ∧
            ∃ y, (⟨p, y, 1⟩ : Rel) ∈ s'.db.relations ∧ (⟨y, c, 1⟩ : Rel) ∈ s'.db.relations))) ∧
      (∀ p c l, l ≠ 1 → l ≠ 2 → ((⟨p, c, l⟩ : Rel) ∈ s'.db.relations ↔ (⟨p, c, l⟩ : Rel) ∈ s.db.relations)) ∧
      s.db.relations <+: s'.db.relations ∧ (s.db.relations.Nodup → s'.db.relations.Nodup) ∧
      (∀ k, (s'.auto.get? k).getD 0 = cntKey k (groupReps fmf (pre ++ post)) - 1) ∧
      CountersLe s.auto s'.auto ∧
      s'.db.metaRows = s.db.metaRows ++ [d] ∧ s'.db.directives = s.db.directives ∧
      s'.db.autoinc = setAll s'.auto s.db.autoinc ∧
      MergeInv fmf s'.db (pre ++ post) s'.db s'.auto := by
  obtain ⟨db1, auto1, hpop, inv1⟩ := C05.merge_seq_from d fmf s.db pre post s.db s.auto hne hdom inv
  obtain ⟨s', hup, hauto, hfeat, hrel, hpre, hnd, hmeta, hdir, hdup, hainc, hle, _, _⟩ :=
    update_gff_generic s (mergeCfg d fmf) post db1 auto1 (mergeLinks fmf (pre ++ post)) hfmt hne hpop inv1.rels
  have hL := mergeLinks_level fmf (pre ++ post)
  have l1 : ∀ p c, (⟨p, c, 1⟩ : Rel) ∈ s'.db.relations ↔
      ((⟨p, c, 1⟩ : Rel) ∈ s.db.relations ∨ (⟨p, c, 1⟩ : Rel) ∈ mergeLinks fmf (pre ++ post)) := by
    intro p c
    rw [hrel]
    constructor
    · rintro (h0 | h0 | ⟨hl, _⟩)
      · exact Or.inl h0
      · exact Or.inr h0
      · exact absurd hl (by show ¬ (1 : Int) = 2; decide)
    · rintro (h0 | h0)
      · exact Or.inl h0
      · exact Or.inr (Or.inl h0)
  refine ⟨s', hup, by rw [hfeat, inv1.feats], by rw [hdup, inv1.dups], l1, ?_, ?_, hpre, hnd,
    by rw [hauto]; exact inv1.cnt, hle, by rw [hmeta, inv1.other.1]; rfl, by rw [hdir, inv1.other.2.1],
    by rw [hainc, hauto, inv1.other.2.2], ?_⟩
  · intro p c
    rw [hrel]
    simp only [l1, hfeat]
    constructor
    · rintro (h0 | h0 | ⟨_, hp, y, h1, h2⟩)
      · exact Or.inl h0
      · exact absurd (hL _ h0) (by show ¬ (2 : Int) = 1; decide)
      · exact Or.inr ⟨hp, y, h1, h2⟩
    · rintro (h0 | ⟨hp, y, h1, h2⟩)
      · exact Or.inl h0
      · exact Or.inr (Or.inr ⟨trivial, hp, y, h1, h2⟩)
  · intro p c l h1 h2
    rw [hrel]
    constructor
    · rintro (h0 | h0 | ⟨hl, _⟩)
      · exact h0
      · exact absurd (hL _ h0) h1
      · exact absurd hl h2
    · exact Or.inl
  · refine ⟨by rw [hfeat, inv1.feats], by rw [hdup, inv1.dups], fun r => ?_, by rw [hauto]; exact inv1.cnt,
      ⟨rfl, rfl, rfl⟩⟩
    constructor
    · exact Or.inl
    · rintro (h | h)
      · exact h
      · exact (hrel r).mpr (Or.inr (Or.inl h))

/-- the empty database holds the `merge` specification of no arrivals -/
theorem mergeInv_empty_session (fmf : List Str) (s : Session) (h1 : s.db.features = []) (h2 : s.db.duplicates = [])
    (h3 : s.auto = []) : MergeInv fmf s.db [] s.db s.auto := by
  rw [h3]; exact C05.mergeInv_nil fmf s.db h1 h2

/-- decidable sufficient conditions for "the database holds the `merge` specification of `pre`" -/
theorem mergeInv_of_dec (fmf : List Str) (db : Db) (auto : Dict Nat) (pre : List Feature)
    (h1 : db.features = mergeRows fmf pre) (h2 : db.duplicates = mergeDups fmf pre)
    (h3 : ∀ r ∈ mergeLinks fmf pre, r ∈ db.relations)
    (h4 : ∀ k ∈ (groupReps fmf pre).map keyOf ++ Dict.keys auto,
      (auto.get? k).getD 0 = cntKey k (groupReps fmf pre) - 1) :
    MergeInv fmf db pre db auto := by
  refine ⟨h1, h2, fun r => ⟨Or.inl, fun h => h.elim id (h3 r)⟩, fun k => ?_, ⟨rfl, rfl, rfl⟩⟩
  by_cases hk : k ∈ (groupReps fmf pre).map keyOf ++ Dict.keys auto
  · exact h4 k hk
  · rw [List.mem_append, not_or] at hk
    have e1 : Dict.get? auto k = none := (get?_eq_none_iff auto k).mpr hk.2
    have e2 : cntKey k (groupReps fmf pre) = 0 := by
      rw [C05.cntKey_zero_iff]
      intro f hf e
      exact hk.1 (List.mem_map.mpr ⟨f, hf, e⟩)
    rw [e1, e2]; rfl

/-! ## §3 GTF `update`

C03's populate invariant `PopInv cfg pre db auto` ("`db` holds exactly the line rows and line relations of the
GTF lines `pre`, filed under their keys, and the counters count the lines per featuretype") is an invariant of
the loop `_populate_from_lines`, so it can be continued from a NON-EMPTY database that satisfies it.  A
database satisfies it when it was created by `create_db` from the lines `pre` with both `disable_infer_*`
flags set (then `_update_relations` returns at once): `createDb_gtf_popInv`.  For such databases `update`
is exact: `update_gtf_counters_and_rows_partial`.

PARTIAL: with inference enabled (`disable_infer_genes = disable_infer_transcripts = False`, the default) the
open database also holds derived `gene` / `transcript` rows, `_update_relations` re-derives them during
`update` and merges them into the stored ones; C03 characterises that pass only from the empty database.
What is known in that case is `update_shape` / `counters_monotone` / `counters_synced` of C10 (counters) —
the row content is recorded as the unproved `update_gtf_exact_full`. -/

/-- with both inference flags off `_update_relations` does nothing -/
theorem updateRelationsGtf_disabled (cfg : Cfg) (db : Db) (auto : Dict Nat)
    (hdis : cfg.disableGenes = true ∧ cfg.disableTranscripts = true) :
    updateRelationsGtf cfg db auto = .ok (db, auto) := by
  unfold updateRelationsGtf
  simp [hdis.1, hdis.2, pure, Except.pure]

theorem populateGtf_ne (cfg : Cfg) (db : Db) (auto : Dict Nat) (fs : List Feature) (hne : fs ≠ []) :
    populateGtf cfg db auto fs = fs.foldlM (gtfStep cfg) (db, auto) := by
  unfold populateGtf
  cases fs with
  | nil => exact absurd rfl hne
  | cons f fs => rfl

theorem keyed_append_prefix (cfg : Cfg) (pre post : List Feature) :
    keyed cfg pre <+: keyed cfg (pre ++ post) := by
  unfold keyed
  rw [C03.keyedAux_append]
  exact List.prefix_append _ _

/-- **GTF `update` on a database that holds exactly the lines `pre`** (`PopInv`; inference disabled), with
new lines `post` such that `pre ++ post` is a well-formed GTF file (`GtfOk`): the call succeeds and the
database holds exactly the lines `pre ++ post` —
* rows: one per line, in order, under `lineKey` (`gene` / `transcript` lines under their id, every other
  line under `<featuretype>_<n>`, `n` CONTINUING the count of the stored lines); the old rows keep their places;
* relations: exactly the line relations of `pre ++ post`, no duplicate row;
* counters: per featuretype the number of lines of `pre ++ post`; they only grow; persisted by `_finalize`;
* one meta row appended, `directives` untouched, `duplicates` empty. -/
theorem update_gtf_counters_and_rows_partial (s : Session) (cfg : Cfg) (pre post : List Feature)
    (hfmt : s.dialect.fmt = Parser.gtf) (hc : CfgOk cfg)
    (hdis : cfg.disableGenes = true ∧ cfg.disableTranscripts = true)
    (hpost : post ≠ []) (hok : GtfOk cfg (pre ++ post)) (inv : PopInv cfg pre s.db s.auto) :
    ∃ s', update s cfg post = .ok s' ∧
      PopInv cfg (pre ++ post) s'.db s'.auto ∧
      s'.db.features = (keyed cfg (pre ++ post)).map (fun fk => lineRow fk.1 fk.2) ∧
      s.db.features <+: s'.db.features ∧
      (∀ r, r ∈ s'.db.relations ↔ RelSpec cfg (pre ++ post) r) ∧ s'.db.relations.Nodup ∧
      s'.db.duplicates = [] ∧
      (∀ ft, ft ≠ geneT → ft ≠ transcriptT →
        (s'.auto.get? ft).getD 0 = ((pre ++ post).filter (fun g => g.ftype = ft)).length) ∧
      CountersLe s.auto s'.auto ∧
      s'.db.metaRows = s.db.metaRows ++ [cfg.dialect] ∧ s'.db.directives = s.db.directives ∧
      s'.db.autoinc = setAll s'.auto s.db.autoinc ∧
      s'.dialect = s.dialect ∧ s'.directives = s.directives := by
  obtain ⟨db1, auto1, hrun, inv1⟩ := C03.foldlM_gtfStep_inv cfg hc (pre ++ post) hok post pre s.db s.auto rfl inv
  have hpop : populateGtf cfg s.db s.auto post = .ok (db1, auto1) := by rw [populateGtf_ne _ _ _ _ hpost]; exact hrun
  have hup : update s cfg post = .ok { s with db := finalize db1 cfg.dialect [] auto1, auto := auto1 } := by
    rw [(C05.update_same_as_create s cfg post).2.1 hpost hfmt, hpop]
    simp only [updateRelationsGtf_disabled cfg db1 auto1 hdis]
  have hfr := populateGtf_frame _ _ _ _ _ _ hpop
  have inv' : PopInv cfg (pre ++ post) (finalize db1 cfg.dialect [] auto1) auto1 :=
    ⟨inv1.feats, inv1.rels, inv1.nodup, inv1.dups, inv1.cnt⟩
  refine ⟨_, hup, inv', inv1.feats, ?_, inv1.rels, inv1.nodup, inv1.dups, inv1.cnt,
    (counters_monotone _ _ _ _ hup).1, ?_, ?_, ?_, rfl, rfl⟩
  · show s.db.features <+: db1.features
    rw [inv.feats, inv1.feats]
    exact (keyed_append_prefix cfg pre post).map _
  · show db1.metaRows ++ [cfg.dialect] = _
    rw [hfr.metaRows]
  · show db1.directives ++ [] = _
    rw [hfr.directives]; simp
  · show (finalize db1 cfg.dialect [] auto1).autoinc = _
    rw [finalize_autoinc, hfr.autoinc]

/-- **a database created by `create_db` (GTF, inference disabled) satisfies the invariant**, with the
persisted counters as in-memory counters — i.e. the session `FeatureDB(path)` gives on it -/
theorem createDb_gtf_popInv (cfg : Cfg) (hc : CfgOk cfg)
    (hdis : cfg.disableGenes = true ∧ cfg.disableTranscripts = true) (dirs : List Str) (pre : List Feature)
    (hok : GtfOk cfg pre) :
    ∃ db0, createDb .gtf cfg dirs pre = .ok db0 ∧ PopInv cfg pre db0 db0.autoinc ∧
      db0.metaRows = [cfg.dialect] ∧ (Dict.keys db0.autoinc).Nodup := by
  obtain ⟨db, auto, hpop, inv⟩ := C03.populateGtf_inv cfg hc pre hok
  have hnd : (Dict.keys auto).Nodup := (populateGtf_ext _ _ _ _ _ _ hpop).nodup (by simp [Dict.keys])
  refine ⟨finalize db cfg.dialect dirs auto, ?_, ⟨inv.feats, inv.rels, inv.nodup, inv.dups, fun ft h1 h2 => ?_⟩, ?_, ?_⟩
  · simp only [createDb, hpop, updateRelationsGtf_disabled cfg db auto hdis, bind, Except.bind, pure, Except.pure]
  · rw [← inv.cnt ft h1 h2, finalize_autoinc]
    cases hk : Dict.get? auto ft with
    | some n => rw [get?_setAll_mem _ _ _ _ hnd hk]
    | none =>
      rw [get?_setAll_not_mem _ _ _ ((get?_eq_none_iff _ _).mp hk)]
      have hfr := populateGtf_frame _ _ _ _ _ _ hpop
      rw [hfr.autoinc]; rfl
  · have hfr := populateGtf_frame _ _ _ _ _ _ hpop
    show db.metaRows ++ [cfg.dialect] = _
    rw [hfr.metaRows]; rfl
  · have hfr := populateGtf_frame _ _ _ _ _ _ hpop
    rw [finalize_autoinc, hfr.autoinc]
    exact setAll_keys_nodup _ _ (by simp [Dict.keys])

/-- **create, reopen, update = create from the concatenated file** (GTF, inference disabled): rows in the
same order, same relation set -/
theorem update_after_create_gtf (cfg : Cfg) (hc : CfgOk cfg)
    (hdis : cfg.disableGenes = true ∧ cfg.disableTranscripts = true) (hgtf : cfg.dialect.fmt = Parser.gtf)
    (dirs : List Str) (pre post : List Feature) (hpre : GtfOk cfg pre) (hpost : post ≠ [])
    (hok : GtfOk cfg (pre ++ post)) :
    ∃ db0 s s' db, createDb .gtf cfg dirs pre = .ok db0 ∧ openDb db0 = .ok s ∧ update s cfg post = .ok s' ∧
      createDb .gtf cfg dirs (pre ++ post) = .ok db ∧
      s'.db.features = db.features ∧ (∀ r, r ∈ s'.db.relations ↔ r ∈ db.relations) ∧
      (∀ ft, ft ≠ geneT → ft ≠ transcriptT → (s'.db.autoinc.get? ft).getD 0 = (db.autoinc.get? ft).getD 0) := by
  obtain ⟨db0, hc0, inv0, hm0, hnd0⟩ := createDb_gtf_popInv cfg hc hdis dirs pre hpre
  obtain ⟨db, hcd, invd, _, _⟩ := createDb_gtf_popInv cfg hc hdis dirs (pre ++ post) hok
  have hopen : openDb db0 = .ok { db := db0, auto := db0.autoinc, dialect := cfg.dialect, directives := db0.directives } := by
    unfold openDb; rw [hm0]
  obtain ⟨s', hup, inv', hf, _, hr, _, _, hcnt, _, _, _, hauto, _⟩ :=
    update_gtf_counters_and_rows_partial
      { db := db0, auto := db0.autoinc, dialect := cfg.dialect, directives := db0.directives } cfg pre post
      hgtf hc hdis hpost hok inv0
  refine ⟨db0, _, s', db, hc0, hopen, hup, hcd, by rw [hf, invd.feats], fun r => by rw [hr, invd.rels]; rfl, ?_⟩
  intro ft h1 h2
  rw [invd.cnt ft h1 h2, ← hcnt ft h1 h2]
  obtain ⟨hs, hn, _⟩ := counters_synced _ _ _ _ hup
    (openDb_countersOk db0 false false _ hopen hnd0)
  rw [hs ft]

/-- the key of a non-gene, non-transcript line when the counters start at `auto0` instead of zero -/
def lineKeyFrom (cfg : Cfg) (auto0 : Dict Nat) (pre : List Feature) (f : Feature) : Str :=
  if f.ftype = geneT then (C03.gidOf cfg f).getD []
  else if f.ftype = transcriptT then (C03.tidOf cfg f).getD []
  else autoId f.ftype ((auto0.get? f.ftype).getD 0 + (pre.filter (fun g => g.ftype = f.ftype)).length + 1)

/-- **NOT PROVED (labelled `Prop`)** — the populate half of GTF `update` from an ARBITRARY database and
arbitrary counters (e.g. one that holds derived `gene` / `transcript` rows): if the keys `lineKeyFrom` of the new
lines are pairwise different and not stored, every new line is appended unchanged under that key, the old rows
and relation rows keep their places.  (The inference half — derived rows re-derived and merged into the stored
ones by `_update_relations` — is characterised in C03 from the empty database only.) -/
def update_gtf_exact_full : Prop :=
  ∀ (cfg : Cfg) (db0 : Db) (auto0 : Dict Nat) (fs : List Feature), CfgOk cfg → fs ≠ [] →
    (∀ f ∈ fs, f.ftype = geneT → ∃ g, f.attrs.get? cfg.geneKey = some [g]) →
    (∀ f ∈ fs, f.ftype = transcriptT → ∃ t, f.attrs.get? cfg.transcriptKey = some [t]) →
    (db0.features.map (·.id) ++
      (List.range fs.length).map (fun i => lineKeyFrom cfg auto0 (fs.take i) (fs.getD i {}))).Nodup →
    ∃ db auto, populateGtf cfg db0 auto0 fs = .ok (db, auto) ∧
      db.features = db0.features ++
        (List.range fs.length).map (fun i =>
          lineRow (fs.getD i {}) (lineKeyFrom cfg auto0 (fs.take i) (fs.getD i {}))) ∧
      db0.relations <+: db.relations

/-! ## §4 Non-vacuity -/

section Examples
open GffProofs.C02 (mkF rel)

/-- arrivals for the C02 example database (`e2, g1, m1, e1` stored; `exSess` of C10): `e1` is stored already
and arrives twice, the new `m9` arrives twice, `g2` once -/
def collFs : List Feature :=
  [mkF "exon" "e1" 10 20 ["m9"], mkF "mRNA" "m9" 2000 3000 ["g2"], mkF "exon" "e1" 30 40 ["m1"],
   mkF "mRNA" "m9" 2500 3500 ["g1"], mkF "gene" "g2" 2000 3000 []]

theorem collFs_keyed : Keyed collFs := by
  intro f hf
  exact Option.isSome_iff_exists.mp (List.all_eq_true.mp (by decide : collFs.all (fun f => (idOf f).isSome) = true) f hf)

theorem collFs_ne : collFs ≠ [] := by simp [collFs]

theorem exSess_fmt : exSess.dialect.fmt = Parser.gff3 := rfl

/-- what we look at: (id, start) per row, the relation rows added (the database holds 6), the counters -/
private structure View where
  rows : List (String × Option Int)
  rels : List Rel
  counters : List (Str × Nat)
  deriving DecidableEq

private def view (r : Py Session) : Option View :=
  r.toOption.map (fun s => ⟨s.db.features.map (fun r => (String.ofList r.id, r.start)), s.db.relations.drop 6, s.auto⟩)

/-- `warning`: hypotheses of `update_refines_spec_strategies` / `level2Closed_update_strategies` hold -/
example : ∃ s', update exSess (gffCfg .warning Dialect.default) collFs = .ok s' ∧ Level2Closed s'.db :=
  level2Closed_update_strategies exSess .warning Dialect.default collFs exSess_fmt collFs_ne collFs_keyed trivial
    ex_level2Closed

/-- … and the model computes: both `e1` arrivals and the second `m9` are ignored; only the links of the first
`m9` and of `g2` count -/
example : view (update exSess (gffCfg .warning Dialect.default) collFs) =
    some ⟨[("e2", some 300), ("g1", some 1), ("m1", some 1), ("e1", some 100), ("m9", some 2000), ("g2", some 2000)],
          [rel "g2" "m9" 1], []⟩ := by decide +kernel

example : stratRows .warning exSess.db.features exSess.auto collFs =
    exSess.db.features ++ [C05.rowOf (mkF "mRNA" "m9" 2000 3000 ["g2"]), C05.rowOf (mkF "gene" "g2" 2000 3000 [])] := by
  decide +kernel

/-- `replace`: `e1` holds its LAST arrival (start 30), `m9` its last (start 2500); the links of ALL arrivals are
added (`m1 → e1` was there), and level 2 is closed over the result: `g2 → m9 → e1` is new, `g1 → … → e1` was there -/
example : ∃ s', update exSess (gffCfg .replace Dialect.default) collFs = .ok s' ∧ Level2Closed s'.db :=
  level2Closed_update_strategies exSess .replace Dialect.default collFs exSess_fmt collFs_ne collFs_keyed trivial
    ex_level2Closed

example : view (update exSess (gffCfg .replace Dialect.default) collFs) =
    some ⟨[("e2", some 300), ("g1", some 1), ("m1", some 1), ("e1", some 30), ("m9", some 2500), ("g2", some 2000)],
          [rel "m9" "e1" 1, rel "g2" "m9" 1, rel "g1" "m9" 1, rel "g2" "e1" 2], []⟩ := by
  decide +kernel

/-- `create_unique`: `Fresh` holds (no underscore in any id or key); every arrival is stored -/
theorem collFs_fresh : StratOk .createUnique (idsOf exSess.db) exSess.auto collFs :=
  C05.fresh_of_no_underscore _ _ _ (by decide +kernel) (by decide +kernel)

example : ∃ s', update exSess (gffCfg .createUnique Dialect.default) collFs = .ok s' ∧ Level2Closed s'.db :=
  level2Closed_update_strategies exSess .createUnique Dialect.default collFs exSess_fmt collFs_ne collFs_keyed
    collFs_fresh ex_level2Closed

example : view (update exSess (gffCfg .createUnique Dialect.default) collFs) =
    some ⟨[("e2", some 300), ("g1", some 1), ("m1", some 1), ("e1", some 100), ("e1_1", some 10), ("m9", some 2000),
           ("e1_2", some 30), ("m9_1", some 2500), ("g2", some 2000)],
          [rel "m9" "e1_1" 1, rel "g2" "m9" 1, rel "m1" "e1_2" 1, rel "g1" "m9_1" 1, rel "g1" "e1_2" 2,
           rel "g2" "e1_1" 2],
          [("e1".toList, 2), ("m9".toList, 1)]⟩ := by decide +kernel

/-- the counter clause of `update_refines_spec_strategies` on this input: `e1` collides twice, `m9` once -/
example : stratCount .createUnique (idsOf exSess.db) collFs "e1".toList = 2 ∧
    stratCount .createUnique (idsOf exSess.db) collFs "m9".toList = 1 ∧
    stratCount .createUnique (idsOf exSess.db) collFs "g2".toList = 0 := by decide +kernel

/-- `error`: the key `e1` is stored already ⇒ `ValueError` -/
example : update exSess (gffCfg .error Dialect.default) collFs = .error .value :=
  update_error_collision exSess Dialect.default collFs exSess_fmt collFs_keyed (by unfold IdsNodup; decide +kernel)
    (by decide +kernel)

/-- `merge` without collision is in the domain too -/
example : StratOk .merge (idsOf exSess.db) exSess.auto newFs := by
  show (idsOf exSess.db ++ newFs.map keyOf).Nodup
  decide +kernel

/-! ### `merge` with colliding keys -/

/-- `force_merge_fields=["start","end"]`: coordinates are not compared (and never rewritten) -/
def fmfSE : List Str := ["start".toList, "end".toList]

/-- the example database holds the `merge` specification of the four lines it was created from -/
theorem exSess_mergeInv : MergeInv fmfSE exSess.db C02.ex exSess.db exSess.auto :=
  mergeInv_of_dec fmfSE exSess.db exSess.auto C02.ex (by decide +kernel) (by decide +kernel) (by decide +kernel)
    (by decide +kernel)

theorem ex_coll_dom : MergeDomain (C02.ex ++ collFs) :=
  C05.mergeDomain_of _
    (fun f hf => Option.isSome_iff_exists.mp (List.all_eq_true.mp
      (by decide : (C02.ex ++ collFs).all (fun f => (idOf f).isSome) = true) f hf))
    (by decide +kernel) (by decide +kernel)

/-- `update_merge_refines_spec` applies: all arrivals are merged into the rows of their keys -/
example : ∃ s', update exSess (mergeCfg Dialect.default fmfSE) collFs = .ok s' ∧
    s'.db.features = mergeRows fmfSE (C02.ex ++ collFs) ∧ MergeInv fmfSE s'.db (C02.ex ++ collFs) s'.db s'.auto := by
  obtain ⟨s', h1, h2, h⟩ := update_merge_refines_spec exSess Dialect.default fmfSE C02.ex collFs exSess_fmt collFs_ne
    ex_coll_dom exSess_mergeInv
  exact ⟨s', h1, h2, h.2.2.2.2.2.2.2.2.2.2.2⟩

/-- … and the model computes: `e1` keeps the coordinates of the stored row, no row `e1_1`; the links of all
arrivals are attached to `e1` / `m9` -/
example : view (update exSess (mergeCfg Dialect.default fmfSE) collFs) =
    some ⟨[("e2", some 300), ("g1", some 1), ("m1", some 1), ("e1", some 100), ("m9", some 2000), ("g2", some 2000)],
          [rel "m9" "e1" 1, rel "g2" "m9" 1, rel "g1" "m9" 1, rel "g2" "e1" 2], []⟩ := by decide +kernel

/-- with nothing exempt the same arrivals open new groups `e1_1`, `e1_2`, `m9_1` (they differ in start / end) -/
example : (mergeRows [] (C02.ex ++ collFs)).map (fun r => String.ofList r.id) =
    ["e2", "g1", "m1", "e1", "e1_1", "m9", "e1_2", "m9_1", "g2"] := by decide +kernel

/-! ### GTF -/

private instance decSingle' (o : Option (List Str)) : Decidable (∃ g, o = some [g]) :=
  match o with
  | some [g] => isTrue ⟨g, rfl⟩
  | none => isFalse (by rintro ⟨g, hg⟩; cases hg)
  | some [] => isFalse (by rintro ⟨g, hg⟩; cases hg)
  | some (_ :: _ :: _) => isFalse (by rintro ⟨g, hg⟩; cases hg)

/-- default GTF configuration, both inference flags off, GTF dialect -/
def gtfCfgOff : Cfg :=
  { idSpec := defaultGtfSpec, disableGenes := true, disableTranscripts := true,
    dialect := { Dialect.default with fmt := Parser.gtf } }

theorem gtfCfgOff_ok : CfgOk gtfCfgOff := ⟨rfl, by decide, by decide, by decide, by decide, by decide⟩

/-- the C03 example file cut in two: the first four lines are imported, the last four arrive by `update` -/
def gtfPre : List Feature := C03.exFile.take 4
def gtfPost : List Feature := C03.exFile.drop 4

theorem gtfAll_ok : GtfOk gtfCfgOff (gtfPre ++ gtfPost) where
  nonempty := by decide
  geneLines := by decide +kernel
  trLines := by decide +kernel
  explicitDistinct := by decide +kernel
  idsNotAuto := by decide +kernel
  tgDisjoint := by decide +kernel

theorem gtfPre_ok : GtfOk gtfCfgOff gtfPre where
  nonempty := by decide
  geneLines := by decide +kernel
  trLines := by decide +kernel
  explicitDistinct := by decide +kernel
  idsNotAuto := by decide +kernel
  tgDisjoint := by decide +kernel

/-- create from the first half, reopen, `update` with the second half: same rows and relations as creating from
the whole file; the `exon` numbering continues (`exon_3 …`) -/
example : ∃ db0 s s' db, createDb .gtf gtfCfgOff [] gtfPre = .ok db0 ∧ openDb db0 = .ok s ∧
    update s gtfCfgOff gtfPost = .ok s' ∧ createDb .gtf gtfCfgOff [] (gtfPre ++ gtfPost) = .ok db ∧
    s'.db.features = db.features ∧ (∀ r, r ∈ s'.db.relations ↔ r ∈ db.relations) := by
  obtain ⟨db0, s, s', db, h1, h2, h3, h4, h5, h6, _⟩ :=
    update_after_create_gtf gtfCfgOff gtfCfgOff_ok ⟨rfl, rfl⟩ rfl [] gtfPre gtfPost gtfPre_ok (by decide) gtfAll_ok
  exact ⟨db0, s, s', db, h1, h2, h3, h4, h5, h6⟩

example : ((createDb .gtf gtfCfgOff [] gtfPre).toOption.bind (fun db0 => (openDb db0).toOption.bind (fun s =>
      (update s gtfCfgOff gtfPost).toOption))).map (fun s => (s.db.features.map (fun r => String.ofList r.id), s.auto)) =
    some (["exon_1", "CDS_1", "exon_2", "T2", "exon_3", "G2", "exon_4", "exon_5"],
          [("exon".toList, 5), ("CDS".toList, 1)]) := by decide +kernel

end Examples

end GffProofs.C10
