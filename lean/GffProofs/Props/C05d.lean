/-
  C05d — whole GTF imports whose `id_spec` mixes KEYED and AUTOINCREMENTED lines (continuation of C05c).

  `Props/C05c.lean` states `create_unique` and `merge` for inputs on which `id_spec` is a plain key function
  (`KeyedBy`), and `error` / `warning` / `replace` for every `id_spec` (§8, along the key trace).  The default GTF
  `id_spec` `{gene: gene_id, transcript: transcript_id}` keys the explicit gene / transcript lines and gives every
  other line the next `<featuretype>_<n>`.  Here that situation is covered for ALL strategies:

      `mixed_sim` / `populateGtf_mixed` : the import of `fs` = the import of the keyed arrivals `assignKeys … fs`,

  where an autoincremented line of featuretype `ft` is an arrival with the (never colliding) key `ft_<c+j>`
  (`c` = the counter of `ft` at the start, `j` = its rank among the autoincremented `ft` lines), under the domain
  condition `AutoDomain` (generated ids are not stored, are not keys, and no key is a featuretype that is
  autoincremented).  The theorems of C05c for the keyed arrivals then give `create_unique_mixed_gtf`,
  `merge_mixed_gtf`.
-/
import GffProofs.Props.C05c

namespace GffProofs.C05
open GffModel GffModel.Create GffModel.Interface
open GffProofs.C04 (autoId incr_spec IdsNodup)
open GffProofs.C02 (idOf parentsOf gffCfg)

/-! ## §0 Specification -/

/-- **what `id_spec` does on the input**: a line with `kind f = some k` gets the key `k` and leaves the counters
alone; a line with `kind f = none` gets the next autoincrement id of its featuretype -/
def KeyedOrAuto (cfg : Cfg) (kind : Feature → Option Str) (fs : List Feature) : Prop :=
  ∀ f ∈ fs, ∀ auto, idHandler cfg.idSpec auto f =
    match kind f with
    | some k => .ok (k, auto)
    | none => .ok (incr auto f.ftype)

/-- how many autoincremented lines of featuretype `ft` there are in `pre` -/
def autoCount (kind : Feature → Option Str) (pre : List Feature) (ft : Str) : Nat :=
  (pre.filter (fun g => kind g = none ∧ g.ftype = ft)).length

/-- **the key of line `f` that comes after the lines `pre`**: its `id_spec` key, or `<ft>_<c+j>` for the `j`-th
autoincremented line of featuretype `ft` (`c` = the counter of `ft` at the start) -/
def assignedKey (kind : Feature → Option Str) (auto0 : Dict Nat) (pre : List Feature) (f : Feature) : Str :=
  match kind f with
  | some k => k
  | none => autoId f.ftype ((auto0.get? f.ftype).getD 0 + autoCount kind pre f.ftype + 1)

/-- every line with its key; `pre` = the lines before `rest` -/
def assignKeys (kind : Feature → Option Str) (auto0 : Dict Nat) : List Feature → List Feature → List (Feature × Str)
  | _, [] => []
  | pre, f :: rest => (f, assignedKey kind auto0 pre f) :: assignKeys kind auto0 (pre ++ [f]) rest

/-- **domain**: no key is a featuretype that is autoincremented (they would share a counter); an autoincrement id
beyond the current counter is neither stored nor a key -/
structure AutoDomain (kind : Feature → Option Str) (ids0 : List Str) (auto0 : Dict Nat) (fs : List Feature) : Prop where
  disjoint : ∀ a ∈ fs, ∀ b ∈ fs, ∀ k, kind a = some k → kind b = none → k ≠ b.ftype
  fresh : ∀ b ∈ fs, kind b = none → ∀ n, (auto0.get? b.ftype).getD 0 < n →
    autoId b.ftype n ∉ ids0 ∧ ∀ a ∈ fs, ∀ k, kind a = some k → k ≠ autoId b.ftype n

/-- the counters of the real run (`A`) against those of the run over the keyed arrivals (`X`) after the lines `pre`:
equal except at autoincremented featuretypes, whose real counter has advanced by the number of such lines -/
def CntRel (kind : Feature → Option Str) (auto0 : Dict Nat) (all pre : List Feature) (A X : Dict Nat) : Prop :=
  (∀ k, (∀ b ∈ all, kind b = none → b.ftype ≠ k) → A.get? k = X.get? k) ∧
  (∀ b ∈ all, kind b = none →
    (A.get? b.ftype).getD 0 = (auto0.get? b.ftype).getD 0 + autoCount kind pre b.ftype)

/-! ## §1 The decision table and the counters -/

theorem fileSpec_fresh (cfg : Cfg) (db : Db) (A : Dict Nat) (f : Feature) (k : Str) (h : k ∉ idsOf db) :
    fileSpec cfg db A f k = .ok (addRow db (storedRow f k), A, some k) := by
  unfold fileSpec
  rw [if_pos ((hasId_false_iff db _).mpr h)]

/-- the decision table reads the counters only at the key, and either leaves them alone or advances that entry -/
theorem fileSpec_rel (cfg : Cfg) (db : Db) (A B : Dict Nat) (f : Feature) (k : Str) (h : A.get? k = B.get? k) :
    (∀ e, fileSpec cfg db A f k = .error e → fileSpec cfg db B f k = .error e) ∧
    (∀ d A' fl, fileSpec cfg db A f k = .ok (d, A', fl) →
      (A' = A ∧ fileSpec cfg db B f k = .ok (d, B, fl)) ∨
      (A' = bump A k ∧ fileSpec cfg db B f k = .ok (d, bump B k, fl))) := by
  have hn : nextId A k = nextId B k := by unfold nextId; rw [h]
  unfold fileSpec
  by_cases hc : db.hasId k = false
  · rw [if_pos hc, if_pos hc]
    refine ⟨fun e he => (by cases he), fun d A' fl he => ?_⟩
    simp only [Except.ok.injEq, Prod.mk.injEq] at he
    obtain ⟨rfl, rfl, rfl⟩ := he
    exact Or.inl ⟨rfl, rfl⟩
  · rw [if_neg hc, if_neg hc]
    cases hs : cfg.strategy with
    | error => exact ⟨fun e he => he, fun d A' fl he => (by cases he)⟩
    | warning =>
      refine ⟨fun e he => (by cases he), fun d A' fl he => ?_⟩
      simp only [Except.ok.injEq, Prod.mk.injEq] at he
      obtain ⟨rfl, rfl, rfl⟩ := he
      exact Or.inl ⟨rfl, rfl⟩
    | replace =>
      refine ⟨fun e he => (by cases he), fun d A' fl he => ?_⟩
      simp only [Except.ok.injEq, Prod.mk.injEq] at he
      obtain ⟨rfl, rfl, rfl⟩ := he
      exact Or.inl ⟨rfl, rfl⟩
    | createUnique =>
      simp only [hn]
      by_cases hj : db.hasId (nextId B k) = true
      · rw [if_pos hj, if_pos hj]
        exact ⟨fun e he => he, fun d A' fl he => (by cases he)⟩
      · rw [if_neg hj, if_neg hj]
        refine ⟨fun e he => (by cases he), fun d A' fl he => ?_⟩
        simp only [Except.ok.injEq, Prod.mk.injEq] at he
        obtain ⟨rfl, rfl, rfl⟩ := he
        exact Or.inr ⟨rfl, rfl⟩
    | merge =>
      simp only [hn]
      cases (matched cfg db k f).getLast? with
      | some ex =>
        refine ⟨fun e he => (by cases he), fun d A' fl he => ?_⟩
        simp only [Except.ok.injEq, Prod.mk.injEq] at he
        obtain ⟨rfl, rfl, rfl⟩ := he
        exact Or.inl ⟨rfl, rfl⟩
      | none =>
        simp only
        by_cases hj : db.hasId (nextId B k) = true
        · rw [if_pos hj, if_pos hj]
          exact ⟨fun e he => he, fun d A' fl he => (by cases he)⟩
        · rw [if_neg hj, if_neg hj]
          refine ⟨fun e he => (by cases he), fun d A' fl he => ?_⟩
          simp only [Except.ok.injEq, Prod.mk.injEq] at he
          obtain ⟨rfl, rfl, rfl⟩ := he
          exact Or.inr ⟨rfl, rfl⟩

/-- the ids after one arrival: unchanged, or one more — the key, or the generated `<key>_<n>` -/
theorem fileSpec_ids (cfg : Cfg) (db d : Db) (A A' : Dict Nat) (f : Feature) (k : Str) (fl : Option Str)
    (h : fileSpec cfg db A f k = .ok (d, A', fl)) :
    idsOf d = idsOf db ∨ idsOf d = idsOf db ++ [k] ∨ idsOf d = idsOf db ++ [nextId A k] := by
  unfold fileSpec at h
  unfold idsOf
  split at h
  · cases h; exact Or.inr (Or.inl (by simp [addRow]))
  · split at h
    · cases h
    · cases h; exact Or.inl rfl
    · cases h; exact Or.inl (C04.replaceRow_ids _ _ _ rfl)
    · split at h
      · cases h
      · cases h; exact Or.inr (Or.inr (by simp [addRow]))
    · split at h
      · cases h; exact Or.inl (C04.modifyRow_ids _ _ _ (fun r => rfl))
      · split at h
        · cases h
        · cases h; exact Or.inr (Or.inr (by simp [addRow]))

/-! ## §2 `assignKeys` -/

theorem autoCount_append (kind : Feature → Option Str) (pre post : List Feature) (ft : Str) :
    autoCount kind (pre ++ post) ft = autoCount kind pre ft + autoCount kind post ft := by
  simp [autoCount, List.filter_append]

theorem autoCount_single (kind : Feature → Option Str) (f : Feature) (ft : Str) :
    autoCount kind [f] ft = if kind f = none ∧ f.ftype = ft then 1 else 0 := by
  unfold autoCount
  by_cases h : kind f = none ∧ f.ftype = ft
  · rw [List.filter_cons_of_pos (by simpa using h), if_pos h]; rfl
  · rw [List.filter_cons_of_neg (by simpa using h), if_neg h]; rfl

theorem assignKeys_snoc (kind : Feature → Option Str) (auto0 : Dict Nat) (pre rest : List Feature) (x : Feature) :
    assignKeys kind auto0 pre (rest ++ [x]) =
      assignKeys kind auto0 pre rest ++ [(x, assignedKey kind auto0 (pre ++ rest) x)] := by
  induction rest generalizing pre with
  | nil => simp [assignKeys]
  | cons r rest ih => simp [assignKeys, ih]

theorem assignKeys_map_fst (kind : Feature → Option Str) (auto0 : Dict Nat) (pre rest : List Feature) :
    (assignKeys kind auto0 pre rest).map (·.1) = rest := by
  induction rest generalizing pre with
  | nil => rfl
  | cons r rest ih => simp [assignKeys, ih]

/-- what the assigned keys are -/
theorem mem_assignKeys (kind : Feature → Option Str) (auto0 : Dict Nat) (before rest : List Feature) (p : Feature × Str)
    (hp : p ∈ assignKeys kind auto0 before rest) :
    p.1 ∈ rest ∧ (∀ k, kind p.1 = some k → p.2 = k) ∧
    (kind p.1 = none → ∃ c, autoCount kind before p.1.ftype ≤ c ∧ c < autoCount kind (before ++ rest) p.1.ftype ∧
      p.2 = autoId p.1.ftype ((auto0.get? p.1.ftype).getD 0 + c + 1)) := by
  induction rest generalizing before with
  | nil => cases hp
  | cons r rest ih =>
    simp only [assignKeys, List.mem_cons] at hp
    rcases hp with rfl | hp
    · refine ⟨by simp, fun k hk => ?_, fun hn => ⟨autoCount kind before r.ftype, Nat.le_refl _, ?_, ?_⟩⟩
      · simp only [assignedKey, hk]
      · show autoCount kind before r.ftype < autoCount kind (before ++ r :: rest) r.ftype
        rw [show before ++ r :: rest = before ++ ([r] ++ rest) from rfl, autoCount_append, autoCount_append,
          autoCount_single, if_pos ⟨hn, rfl⟩]
        omega
      · simp only [assignedKey, hn]
    · obtain ⟨h1, h2, h3⟩ := ih (before ++ [r]) hp
      refine ⟨List.mem_cons_of_mem _ h1, h2, fun hn => ?_⟩
      obtain ⟨c, hc1, hc2, hc3⟩ := h3 hn
      refine ⟨c, ?_, ?_, hc3⟩
      · rw [autoCount_append] at hc1; omega
      · rw [List.append_assoc] at hc2; exact hc2

/-- the ids of the run after the lines `pre`: stored before, or the key of a line, or generated from the key of a
keyed line -/
def IdsInv (kind : Feature → Option Str) (ids0 : List Str) (auto0 : Dict Nat) (pre : List Feature) (db : Db) : Prop :=
  ∀ x ∈ idsOf db, x ∈ ids0 ∨ (∃ p ∈ assignKeys kind auto0 [] pre, x = p.2) ∨
    (∃ a ∈ pre, ∃ k, kind a = some k ∧ ∃ n, x = autoId k n)

theorem IdsInv.snoc {kind : Feature → Option Str} {ids0 : List Str} {auto0 : Dict Nat} {pre : List Feature} {db d : Db}
    (inv : IdsInv kind ids0 auto0 pre db) (f : Feature)
    (h : idsOf d = idsOf db ∨ idsOf d = idsOf db ++ [assignedKey kind auto0 pre f] ∨
      ∃ k n, kind f = some k ∧ idsOf d = idsOf db ++ [autoId k n]) :
    IdsInv kind ids0 auto0 (pre ++ [f]) d := by
  have hold : ∀ x ∈ idsOf db, x ∈ ids0 ∨ (∃ p ∈ assignKeys kind auto0 [] (pre ++ [f]), x = p.2) ∨
      (∃ a ∈ pre ++ [f], ∃ k, kind a = some k ∧ ∃ n, x = autoId k n) := by
    intro x hx
    rcases inv x hx with h1 | ⟨p, hp, h2⟩ | ⟨a, ha, h3⟩
    · exact Or.inl h1
    · exact Or.inr (Or.inl ⟨p, by rw [assignKeys_snoc]; exact List.mem_append_left _ hp, h2⟩)
    · exact Or.inr (Or.inr ⟨a, List.mem_append_left _ ha, h3⟩)
  intro x hx
  rcases h with h | h | ⟨k, n, hk, h⟩
  · rw [h] at hx; exact hold x hx
  · rw [h, List.mem_append, List.mem_singleton] at hx
    rcases hx with hx | rfl
    · exact hold x hx
    · exact Or.inr (Or.inl ⟨(f, assignedKey kind auto0 pre f), by rw [assignKeys_snoc]; simp, rfl⟩)
  · rw [h, List.mem_append, List.mem_singleton] at hx
    rcases hx with hx | rfl
    · exact hold x hx
    · exact Or.inr (Or.inr ⟨f, by simp, k, hk, n, rfl⟩)

/-- the id of an autoincremented line is not stored when the line arrives -/
theorem auto_key_fresh {kind : Feature → Option Str} {ids0 : List Str} {auto0 : Dict Nat} {all pre : List Feature}
    {db : Db} (hD : AutoDomain kind ids0 auto0 all) (f : Feature) (hsub : ∀ x ∈ pre ++ [f], x ∈ all)
    (hf : kind f = none) (inv : IdsInv kind ids0 auto0 pre db) :
    assignedKey kind auto0 pre f ∉ idsOf db := by
  have hfa : f ∈ all := hsub f (by simp)
  have hkey : assignedKey kind auto0 pre f =
      autoId f.ftype ((auto0.get? f.ftype).getD 0 + autoCount kind pre f.ftype + 1) := by
    simp only [assignedKey, hf]
  rw [hkey]
  intro hx
  obtain ⟨hfr1, hfr2⟩ := hD.fresh f hfa hf ((auto0.get? f.ftype).getD 0 + autoCount kind pre f.ftype + 1) (by omega)
  rcases inv _ hx with h1 | ⟨p, hp, h2⟩ | ⟨a, ha, k, hk, n, h3⟩
  · exact hfr1 h1
  · obtain ⟨hp1, hp2, hp3⟩ := mem_assignKeys kind auto0 [] pre p hp
    have hpa : p.1 ∈ all := hsub p.1 (List.mem_append_left _ hp1)
    cases hkp : kind p.1 with
    | some k => exact hfr2 p.1 hpa k hkp (by rw [← hp2 k hkp, ← h2])
    | none =>
      obtain ⟨c, _, hc2, hc3⟩ := hp3 hkp
      rw [hc3] at h2
      obtain ⟨he1, he2⟩ := autoId_inj _ _ _ _ h2
      rw [List.nil_append, ← he1] at hc2
      rw [← he1] at he2
      omega
  · have := (autoId_inj _ _ _ _ h3).1
    exact hD.disjoint a (hsub a (List.mem_append_left _ ha)) f hfa k hk hf this.symm

/-! ## §3 The simulation -/

/-- **the import of a mixed input is the import of its keyed arrivals** (every strategy): started in related states,
the real importer on `fs` and the keyed importer on `assignKeys … fs` fail alike or succeed with the same database
and related counters -/
theorem mixed_sim (cfg : Cfg) (kind : Feature → Option Str) (ids0 : List Str) (auto0 : Dict Nat) (all : List Feature)
    (hK : KeyedOrAuto cfg kind all) (hD : AutoDomain kind ids0 auto0 all) :
    ∀ (fs pre : List Feature) (db : Db) (A X : Dict Nat), (∀ x ∈ pre ++ fs, x ∈ all) →
      CntRel kind auto0 all pre A X → IdsInv kind ids0 auto0 pre db →
      match (assignKeys kind auto0 pre fs).foldlM (pairImp cfg).step (db, X) with
      | .error e => fs.foldlM (gtfStep cfg) (db, A) = .error e
      | .ok (d, X') => ∃ A', fs.foldlM (gtfStep cfg) (db, A) = .ok (d, A') ∧ CntRel kind auto0 all (pre ++ fs) A' X' := by
  intro fs
  induction fs with
  | nil =>
    intro pre db A X _ hR _
    simp only [assignKeys, List.foldlM_nil, pure, Except.pure, List.append_nil]
    exact ⟨A, rfl, hR⟩
  | cons f fs ih =>
    intro pre db A X hsub hR hI
    have hfa : f ∈ all := hsub f (by simp)
    have hsub1 : ∀ x ∈ pre ++ [f], x ∈ all := fun x hx => hsub x (by
      rcases List.mem_append.mp hx with h | h
      · exact List.mem_append_left _ h
      · simp only [List.mem_singleton] at h; subst h; simp)
    have hsub2 : ∀ x ∈ (pre ++ [f]) ++ fs, x ∈ all := fun x hx => hsub x (by simpa using hx)
    simp only [assignKeys]
    have hp : (pairImp cfg).step (db, X) (f, assignedKey kind auto0 pre f) =
        match fileSpec cfg db X f (assignedKey kind auto0 pre f) with
        | .error e => .error e
        | .ok (db1, auto2, filed) => .ok (attachGtf cfg db1 filed f, auto2) := rfl
    cases hkf : kind f with
    | some k =>
      -- a keyed line
      have hkey : assignedKey kind auto0 pre f = k := by simp only [assignedKey, hkf]
      have hid : idHandler cfg.idSpec A f = .ok (k, A) := by rw [hK f hfa A, hkf]
      have hg := gtfStep_table cfg db A A f k hid
      have hnotFT : ∀ b ∈ all, kind b = none → b.ftype ≠ k :=
        fun b hb hbn e => hD.disjoint f hfa b hb k hkf hbn e.symm
      have hAX : X.get? k = A.get? k := (hR.1 k hnotFT).symm
      obtain ⟨hrel_e, hrel_ok⟩ := fileSpec_rel cfg db X A f k hAX
      rw [hkey] at hp ⊢
      cases hfs : fileSpec cfg db X f k with
      | error e =>
        rw [hfs] at hp
        rw [hrel_e e hfs] at hg
        rw [foldlM_cons_error _ _ _ _ _ hp, foldlM_cons_error _ _ _ _ _ hg]
      | ok r =>
        obtain ⟨d, X1, fl⟩ := r
        rw [hfs] at hp
        have hids := fileSpec_ids cfg db d X X1 f k fl hfs
        have hI1 : IdsInv kind ids0 auto0 (pre ++ [f]) (attachGtf cfg d fl f) := by
          apply hI.snoc f
          have hsame : idsOf (attachGtf cfg d fl f) = idsOf d := by
            unfold idsOf; rw [(attachGtf_same cfg d fl f).1]
          rw [hsame, hkey]
          rcases hids with h | h | h
          · exact Or.inl h
          · exact Or.inr (Or.inl h)
          · exact Or.inr (Or.inr ⟨k, _, hkf, h⟩)
        have hcnt : ∀ ft, autoCount kind (pre ++ [f]) ft = autoCount kind pre ft := by
          intro ft
          rw [autoCount_append, autoCount_single, if_neg (by rw [hkf]; simp)]; rfl
        rcases hrel_ok d X1 fl hfs with ⟨hX1, hA⟩ | ⟨hX1, hA⟩
        · rw [hA] at hg
          have hR1 : CntRel kind auto0 all (pre ++ [f]) A X1 := by
            rw [hX1]; exact ⟨hR.1, fun b hb hbn => by rw [hcnt]; exact hR.2 b hb hbn⟩
          rw [foldlM_cons_ok _ _ _ _ _ hp, foldlM_cons_ok _ _ _ _ _ hg]
          have := ih (pre ++ [f]) (attachGtf cfg d fl f) A X1 hsub2 hR1 hI1
          simpa using this
        · rw [hA] at hg
          have hR1 : CntRel kind auto0 all (pre ++ [f]) (bump A k) X1 := by
            rw [hX1]
            refine ⟨fun k' hk' => ?_, fun b hb hbn => ?_⟩
            · by_cases e : k' = k
              · subst e; simp [bump, C04.Dict.get?_set_self, hAX]
              · simp only [bump]
                rw [C04.Dict.get?_set_ne _ _ _ _ e, C04.Dict.get?_set_ne _ _ _ _ e]
                exact hR.1 k' hk'
            · rw [hcnt]
              simp only [bump]
              rw [C04.Dict.get?_set_ne _ _ _ _ (hnotFT b hb hbn)]
              exact hR.2 b hb hbn
          rw [foldlM_cons_ok _ _ _ _ _ hp, foldlM_cons_ok _ _ _ _ _ hg]
          have := ih (pre ++ [f]) (attachGtf cfg d fl f) (bump A k) X1 hsub2 hR1 hI1
          simpa using this
    | none =>
      -- an autoincremented line: its id is the next one of its featuretype, and it is free
      have hfresh := auto_key_fresh hD f hsub1 hkf hI
      have hkey : assignedKey kind auto0 pre f = nextId A f.ftype := by
        simp only [assignedKey, hkf, nextId]
        rw [hR.2 f hfa hkf]
      have hid : idHandler cfg.idSpec A f = .ok (nextId A f.ftype, bump A f.ftype) := by
        rw [hK f hfa A, hkf]
        simp only [incr_spec, nextId, bump]
      have hg := gtfStep_table cfg db A (bump A f.ftype) f (nextId A f.ftype) hid
      rw [hkey] at hp hfresh ⊢
      rw [fileSpec_fresh cfg db X f _ hfresh] at hp
      rw [fileSpec_fresh cfg db (bump A f.ftype) f _ hfresh] at hg
      have hI1 : IdsInv kind ids0 auto0 (pre ++ [f])
          (attachGtf cfg (addRow db (storedRow f (nextId A f.ftype))) (some (nextId A f.ftype)) f) := by
        apply hI.snoc f
        refine Or.inr (Or.inl ?_)
        have hsame : idsOf (attachGtf cfg (addRow db (storedRow f (nextId A f.ftype))) (some (nextId A f.ftype)) f) =
            idsOf (addRow db (storedRow f (nextId A f.ftype))) := by
          unfold idsOf; rw [(attachGtf_same cfg _ _ f).1]
        rw [hsame, hkey]
        simp [idsOf, addRow]
      have hR1 : CntRel kind auto0 all (pre ++ [f]) (bump A f.ftype) X := by
        refine ⟨fun k' hk' => ?_, fun b hb hbn => ?_⟩
        · simp only [bump]
          rw [C04.Dict.get?_set_ne _ _ _ _ (fun e => hk' f hfa hkf e.symm)]
          exact hR.1 k' hk'
        · rw [autoCount_append, autoCount_single]
          by_cases e : f.ftype = b.ftype
          · rw [if_pos ⟨hkf, e⟩, ← e]
            simp only [bump, C04.Dict.get?_set_self, Option.getD_some]
            rw [hR.2 f hfa hkf]; omega
          · rw [if_neg (fun h => e h.2)]
            simp only [bump]
            rw [C04.Dict.get?_set_ne _ _ _ _ (fun e' => e e'.symm)]
            exact hR.2 b hb hbn
      rw [foldlM_cons_ok _ _ _ _ _ hp, foldlM_cons_ok _ _ _ _ _ hg]
      have := ih (pre ++ [f]) _ (bump A f.ftype) X hsub2 hR1 hI1
      simpa using this

/-! ## §4 Whole imports of mixed inputs -/

/-- **the GTF import of a mixed input = the import of its keyed arrivals** (every strategy, every starting
database): they fail alike, or succeed with the same database; the real counters are those of the keyed run except
that the counter of every autoincremented featuretype has advanced by the number of its lines -/
theorem populateGtf_mixed (cfg : Cfg) (kind : Feature → Option Str) (fs : List Feature) (db : Db) (auto : Dict Nat)
    (hne : fs ≠ []) (hK : KeyedOrAuto cfg kind fs) (hD : AutoDomain kind (idsOf db) auto fs) :
    match (assignKeys kind auto [] fs).foldlM (pairImp cfg).step (db, auto) with
    | .error e => populateGtf cfg db auto fs = .error e
    | .ok (db', X') => ∃ auto', populateGtf cfg db auto fs = .ok (db', auto') ∧ CntRel kind auto fs fs auto' X' := by
  rw [populateGtf_fold _ _ _ _ hne]
  have := mixed_sim cfg kind (idsOf db) auto fs hK hD fs [] db auto auto (fun x hx => by simpa using hx)
    ⟨fun _ _ => rfl, fun b _ _ => by simp [autoCount]⟩ (fun x hx => Or.inl hx)
  simpa using this

/-- **4. `create_unique`, mixed input.**  With `kfs` the lines with their keys (`assignKeys`): every line is stored
unchanged, in order; a keyed line under `uniqueIdBy` of its key (`key`, `key_<c+j>`), an autoincremented line under
its `<ft>_<n>`; links of every line under the id it was filed under; the counter of a key advances by the number of its
collisions, that of an autoincremented featuretype by the number of its lines. -/
theorem create_unique_mixed_gtf (cfg : Cfg) (kind : Feature → Option Str) (fs : List Feature) (db : Db) (auto : Dict Nat)
    (hs : cfg.strategy = .createUnique) (hne : fs ≠ []) (hK : KeyedOrAuto cfg kind fs)
    (hD : AutoDomain kind (idsOf db) auto fs)
    (hF : FreshBy Prod.snd (idsOf db) auto (assignKeys kind auto [] fs)) :
    let kfs := assignKeys kind auto [] fs
    ∃ db' auto', populateGtf cfg db auto fs = .ok (db', auto') ∧
      db'.features = db.features ++
        (placementsBy Prod.snd (idsOf db) auto [] kfs).map (fun p => storedRow p.1.1 p.2) ∧
      (∀ r, r ∈ db'.relations ↔
        r ∈ db.relations ∨ ∃ p ∈ placementsBy Prod.snd (idsOf db) auto [] kfs, r ∈ gtfLinks cfg p.1.1 p.2) ∧
      (∀ k, (∀ b ∈ fs, kind b = none → b.ftype ≠ k) →
        (auto'.get? k).getD 0 = (auto.get? k).getD 0 + (priorCountBy Prod.snd (idsOf db) kfs k - 1)) ∧
      (∀ b ∈ fs, kind b = none →
        (auto'.get? b.ftype).getD 0 = (auto.get? b.ftype).getD 0 + autoCount kind fs b.ftype) ∧
      SameOther db db' := by
  intro kfs
  obtain ⟨db', X', h1, h2, h3, h4, h5⟩ := (pairImp cfg).create_unique_fold hs kfs db auto (pairImp_table cfg kfs) hF
  have hm := populateGtf_mixed cfg kind fs db auto hne hK hD
  rw [show (assignKeys kind auto [] fs).foldlM (pairImp cfg).step (db, auto) = .ok (db', X') from h1] at hm
  obtain ⟨auto', hrun, hR⟩ := hm
  exact ⟨db', auto', hrun, h2, h3, fun k hk => by rw [hR.1 k hk]; exact h4 k, hR.2, h5⟩

/-- **5. `merge`, mixed input** (`create_db`): the tables are the grouping specification of C05b / C05c over the lines
with their keys; an autoincremented line is a group of its own, stored unchanged under its `<ft>_<n>`. -/
theorem merge_mixed_gtf (cfg : Cfg) (kind : Feature → Option Str) (fs : List Feature) (db0 : Db)
    (hs : cfg.strategy = .merge) (hne : fs ≠ []) (hK : KeyedOrAuto cfg kind fs)
    (h0 : db0.features = [] ∧ db0.duplicates = [])
    (hD : AutoDomain kind [] [] fs)
    (hdom : MergeDomainBy Prod.fst Prod.snd (assignKeys kind [] [] fs)) :
    let kfs := assignKeys kind [] [] fs
    let fmf := cfg.forceMergeFields
    ∃ db auto, populateGtf cfg db0 [] fs = .ok (db, auto) ∧
      db.features = mergeRowsBy Prod.fst Prod.snd fmf kfs ∧
      db.duplicates = mergeDupsBy Prod.fst Prod.snd fmf kfs ∧
      (∀ r, r ∈ db.relations ↔
        r ∈ db0.relations ∨ r ∈ mergeLinksBy Prod.fst Prod.snd (fun p fid => gtfLinks cfg p.1 fid) fmf kfs) ∧
      (∀ k, (∀ b ∈ fs, kind b = none → b.ftype ≠ k) →
        (auto.get? k).getD 0 = cntKeyBy Prod.snd k (groupRepsBy Prod.fst Prod.snd fmf kfs) - 1) ∧
      (∀ b ∈ fs, kind b = none → (auto.get? b.ftype).getD 0 = autoCount kind fs b.ftype) ∧
      db.metaRows = db0.metaRows ∧ db.directives = db0.directives ∧ db.autoinc = db0.autoinc := by
  intro kfs fmf
  obtain ⟨db, X', h1, inv⟩ := merge_foldBy (I := pairImp cfg) hs db0 kfs [] db0 [] (pairImp_table cfg kfs)
    (by rw [List.nil_append]; exact hdom) (mergeInvBy_nil (pairImp cfg) db0 h0.1 h0.2)
  rw [List.nil_append] at inv
  have hD' : AutoDomain kind (idsOf db0) [] fs := by
    have : idsOf db0 = [] := by simp [idsOf, h0.1]
    rw [this]; exact hD
  have hm := populateGtf_mixed cfg kind fs db0 [] hne hK hD'
  rw [show (assignKeys kind [] [] fs).foldlM (pairImp cfg).step (db0, []) = .ok (db, X') from h1] at hm
  obtain ⟨auto', hrun, hR⟩ := hm
  refine ⟨db, auto', hrun, inv.feats, inv.dups, inv.rels, fun k hk => by rw [hR.1 k hk]; exact inv.cnt k,
    fun b hb hbn => ?_, inv.other.1, inv.other.2.1, inv.other.2.2⟩
  have := hR.2 b hb hbn
  simpa [Dict.get?] using this

/-! ## §5 Sufficient conditions -/

/-- how the default GTF `id_spec` treats a line: explicit gene / transcript lines are keyed by `gene_id` /
`transcript_id`, every other line is autoincremented -/
def gtfDefaultKind (f : Feature) : Option Str :=
  if f.ftype = "gene".toList ∨ f.ftype = "transcript".toList then some (gtfDefaultKey f) else none

theorem get?_two {β : Type} (a b : Str) (va vb : β) (k : Str) (h1 : a ≠ k) (h2 : b ≠ k) :
    Dict.get? [(a, va), (b, vb)] k = none := by
  simp [Dict.get?, h1, h2]

theorem keyedOrAuto_default (cfg : Cfg) (fs : List Feature) (hspec : cfg.idSpec = defaultGtfSpec)
    (h : ∀ f ∈ fs, (f.ftype = "gene".toList → ∃ v, f.attrs.get? "gene_id".toList = some [v]) ∧
                   (f.ftype = "transcript".toList → ∃ v, f.attrs.get? "transcript_id".toList = some [v])) :
    KeyedOrAuto cfg gtfDefaultKind fs := by
  intro f hf auto
  by_cases hg : f.ftype = "gene".toList
  · have := keyedBy_default cfg [f] hspec (fun x hx => by
      simp only [List.mem_singleton] at hx; subst hx; exact Or.inl ⟨hg, (h x hf).1 hg⟩) f (by simp) auto
    simp only [gtfDefaultKind, hg, true_or, if_true]
    exact this
  · by_cases ht : f.ftype = "transcript".toList
    · have := keyedBy_default cfg [f] hspec (fun x hx => by
        simp only [List.mem_singleton] at hx; subst hx; exact Or.inr ⟨ht, (h x hf).2 ht⟩) f (by simp) auto
      simp only [gtfDefaultKind, ht, or_true, if_true]
      exact this
    · have hnone : Dict.get? [("gene".toList, [KeySpec.attr "gene_id".toList]),
          ("transcript".toList, [KeySpec.attr "transcript_id".toList])] f.ftype = none := by
        exact get?_two _ _ _ _ _ (fun e => hg e.symm) (fun e => ht e.symm)
      simp only [gtfDefaultKind, hg, ht, or_self, if_false, hspec, defaultGtfSpec, idHandler, hnone, pure, Except.pure]

/-- a simple sufficient condition for the domain of the mixed theorems: no underscore in a stored id, in a key or
in an autoincremented featuretype, and no key is an autoincremented featuretype -/
theorem mixed_fresh_of_no_underscore (kind : Feature → Option Str) (ids0 : List Str) (auto0 : Dict Nat)
    (fs : List Feature) (h0 : ∀ x ∈ ids0, '_' ∉ x) (h1 : ∀ a ∈ fs, ∀ k, kind a = some k → '_' ∉ k)
    (h2 : ∀ b ∈ fs, kind b = none → '_' ∉ b.ftype)
    (h3 : ∀ a ∈ fs, ∀ b ∈ fs, ∀ k, kind a = some k → kind b = none → k ≠ b.ftype) :
    AutoDomain kind ids0 auto0 fs ∧ FreshBy Prod.snd ids0 auto0 (assignKeys kind auto0 [] fs) := by
  refine ⟨⟨h3, fun b _ _ n _ => ⟨fun hm => h0 _ hm (underscore_mem_autoId _ _), fun a ha k hk e => ?_⟩⟩, ?_⟩
  · exact h1 a ha k hk (by rw [e]; exact underscore_mem_autoId _ _)
  · intro p hp n _
    refine ⟨fun hm => h0 _ hm (underscore_mem_autoId _ _), fun q hq e => ?_⟩
    obtain ⟨hq1, hq2, hq3⟩ := mem_assignKeys kind auto0 [] fs q hq
    obtain ⟨hp1, hp2, hp3⟩ := mem_assignKeys kind auto0 [] fs p hp
    cases hkq : kind q.1 with
    | some k =>
      exact h1 q.1 hq1 k hkq (by rw [← hq2 k hkq, e]; exact underscore_mem_autoId _ _)
    | none =>
      obtain ⟨c, _, _, hc⟩ := hq3 hkq
      rw [hc] at e
      have hft := (autoId_inj _ _ _ _ e).1
      cases hkp : kind p.1 with
      | some k => exact h3 p.1 hp1 q.1 hq1 k hkp hkq (by rw [← hp2 k hkp, hft])
      | none =>
        obtain ⟨c', _, _, hc'⟩ := hp3 hkp
        exact h2 q.1 hq1 hkq (by rw [hft, hc']; exact underscore_mem_autoId _ _)

/-! ## §6 Non-vacuity: the default GTF `id_spec` on a file with explicit gene / transcript lines and other lines

Replayed on the real code with `create_db(text, ':memory:', from_string=True, merge_strategy=…,
disable_infer_genes=True, disable_infer_transcripts=True)` (default `id_spec`): same tables. -/

section Examples

private def s (x : String) : Str := x.toList

private def mkl (ft src : String) (st en : Int) (attrs : List (String × String)) : Feature :=
  { seqid := s "chr1", source := s src, ftype := s ft, start := some st, stop := some en,
    attrs := attrs.map (fun p => (s p.1, [s p.2])) }

private def g1 : Feature := mkl "gene" "A" 1 100 [("gene_id", "G")]
private def t1 : Feature := mkl "transcript" "A" 1 50 [("gene_id", "G"), ("transcript_id", "T")]
private def e1 : Feature := mkl "exon" "A" 1 10 [("gene_id", "G"), ("transcript_id", "T")]
private def t2 : Feature := mkl "transcript" "B" 2 60 [("gene_id", "G"), ("transcript_id", "T")]
private def e2 : Feature := mkl "exon" "A" 20 30 [("gene_id", "G"), ("transcript_id", "T")]
private def c1 : Feature := mkl "CDS" "A" 5 10 [("gene_id", "G"), ("transcript_id", "T")]

/-- a gene line, two transcript lines with the same `transcript_id`, two exons and a CDS -/
private def inp : List Feature := [g1, t1, e1, t2, e2, c1]

private def cfgD (st : Strategy) (fmf : List String := []) : Cfg :=
  { idSpec := defaultGtfSpec, strategy := st, forceMergeFields := fmf.map s,
    disableGenes := true, disableTranscripts := true }

private theorem inp_kind (st : Strategy) (fmf : List String := []) : KeyedOrAuto (cfgD st fmf) gtfDefaultKind inp :=
  keyedOrAuto_default _ inp rfl (by
    intro f hf
    simp only [inp, List.mem_cons, List.not_mem_nil, or_false] at hf
    rcases hf with rfl | rfl | rfl | rfl | rfl | rfl
    · exact ⟨fun _ => ⟨s "G", rfl⟩, fun h => absurd h (by decide)⟩
    · exact ⟨fun h => absurd h (by decide), fun _ => ⟨s "T", rfl⟩⟩
    · exact ⟨fun h => absurd h (by decide), fun h => absurd h (by decide)⟩
    · exact ⟨fun h => absurd h (by decide), fun _ => ⟨s "T", rfl⟩⟩
    · exact ⟨fun h => absurd h (by decide), fun h => absurd h (by decide)⟩
    · exact ⟨fun h => absurd h (by decide), fun h => absurd h (by decide)⟩)

/-- the lines with their keys: `G`, `T`, `exon_1`, `T`, `exon_2`, `CDS_1` -/
private theorem inp_keys : assignKeys gtfDefaultKind [] [] inp =
    [(g1, s "G"), (t1, s "T"), (e1, s "exon_1"), (t2, s "T"), (e2, s "exon_2"), (c1, s "CDS_1")] := rfl

private def kf (a : Feature) : Option Str × Str := (gtfDefaultKind a, a.ftype)

private theorem inp_kf : inp.map kf =
    [(some (s "G"), s "gene"), (some (s "T"), s "transcript"), (none, s "exon"), (some (s "T"), s "transcript"),
     (none, s "exon"), (none, s "CDS")] := by decide +kernel

private theorem kf_some (a : Feature) (ha : a ∈ inp) (k : Str) (hk : gtfDefaultKind a = some k) :
    k = s "G" ∨ k = s "T" := by
  have : kf a ∈ inp.map kf := List.mem_map_of_mem ha
  rw [inp_kf] at this
  unfold kf at this
  rw [hk] at this
  simp only [List.mem_cons, List.not_mem_nil, Prod.mk.injEq, Option.some.injEq, reduceCtorEq, false_and, or_false,
    false_or] at this
  rcases this with ⟨h, _⟩ | ⟨h, _⟩ | ⟨h, _⟩
  · exact Or.inl h
  · exact Or.inr h
  · exact Or.inr h

private theorem kf_none (a : Feature) (ha : a ∈ inp) (hk : gtfDefaultKind a = none) :
    a.ftype = s "exon" ∨ a.ftype = s "CDS" := by
  have : kf a ∈ inp.map kf := List.mem_map_of_mem ha
  rw [inp_kf] at this
  unfold kf at this
  rw [hk] at this
  simp only [List.mem_cons, List.not_mem_nil, Prod.mk.injEq, reduceCtorEq, false_and, or_false,
    false_or, true_and] at this
  rcases this with h | h | h
  · exact Or.inl h
  · exact Or.inl h
  · exact Or.inr h

private theorem inp_domain : AutoDomain gtfDefaultKind [] [] inp ∧
    FreshBy Prod.snd [] [] (assignKeys gtfDefaultKind [] [] inp) := by
  apply mixed_fresh_of_no_underscore
  · simp
  · intro a ha k hka
    rcases kf_some a ha k hka with rfl | rfl <;> decide
  · intro b hb hkb
    rcases kf_none b hb hkb with h | h <;> rw [h] <;> decide
  · intro a ha b hb k hka hkb
    rcases kf_some a ha k hka with rfl | rfl <;> rcases kf_none b hb hkb with h | h <;> rw [h] <;> decide

private structure View where
  rows : List (Str × Str × Option Int)
  rels : List Rel
  dups : List (Str × Str)
  counters : List (Str × Nat)
  deriving DecidableEq

private def view (r : Py (Db × Dict Nat)) : Option View :=
  match r with
  | .ok (db, auto) => some ⟨db.features.map (fun r => (r.id, r.source, r.start)), db.relations, db.duplicates, auto⟩
  | .error _ => none

private def rel (p c : String) (l : Int) : Rel := ⟨s p, s c, l⟩

/-- `create_unique`: the second transcript line goes to `T_1` (a child of `T`, see C05c §9), the other lines to
`exon_1`, `exon_2`, `CDS_1`; counters `exon ↦ 2`, `CDS ↦ 1`, `T ↦ 1` -/
example : ∃ db' auto', populateGtf (cfgD .createUnique) {} [] inp = .ok (db', auto') ∧
    db'.features.map (·.id) = [s "G", s "T", s "exon_1", s "T_1", s "exon_2", s "CDS_1"] ∧
    (auto'.get? (s "T")).getD 0 = 1 ∧ (auto'.get? (s "exon")).getD 0 = 2 := by
  obtain ⟨db', auto', h1, h2, _, h4, h5, _⟩ := create_unique_mixed_gtf (cfgD .createUnique) gtfDefaultKind inp {} [] rfl
    (by simp [inp]) (inp_kind .createUnique) inp_domain.1 inp_domain.2
  refine ⟨db', auto', h1, ?_, ?_, ?_⟩
  · rw [h2, inp_keys]; decide +kernel
  · rw [h4 (s "T") (by decide +kernel), inp_keys]; decide +kernel
  · have := h5 e1 (by simp [inp]) (by decide +kernel)
    rw [show e1.ftype = s "exon" from rfl] at this
    rw [this]; decide +kernel

example : view (populateGtf (cfgD .createUnique) {} [] inp) =
    some ⟨[(s "G", s "A", some 1), (s "T", s "A", some 1), (s "exon_1", s "A", some 1), (s "T_1", s "B", some 2),
           (s "exon_2", s "A", some 20), (s "CDS_1", s "A", some 5)],
          [rel "G" "T" 1, rel "T" "exon_1" 1, rel "G" "exon_1" 2, rel "T" "T_1" 1, rel "G" "T_1" 2,
           rel "T" "exon_2" 1, rel "G" "exon_2" 2, rel "T" "CDS_1" 1, rel "G" "CDS_1" 2],
          [], [(s "exon", 2), (s "T", 1), (s "CDS", 1)]⟩ := by decide +kernel

/-- `merge` with `source`, `start`… not exempt: `t2` differs from `t1` in `source` → its own group `T_1`, recorded in
`duplicates` -/
private theorem inp_mdom : MergeDomainBy Prod.fst Prod.snd (assignKeys gtfDefaultKind [] [] inp) :=
  ⟨inp_domain.2, by rw [inp_keys]; decide +kernel⟩

example : ∃ db auto, populateGtf (cfgD .merge) {} [] inp = .ok (db, auto) ∧
    db.features.map (·.id) = [s "G", s "T", s "exon_1", s "T_1", s "exon_2", s "CDS_1"] ∧
    db.duplicates = [(s "T", s "T_1")] := by
  obtain ⟨db, auto, h1, h2, h3, _⟩ := merge_mixed_gtf (cfgD .merge) gtfDefaultKind inp {} rfl
    (by simp [inp]) (inp_kind .merge) ⟨rfl, rfl⟩ inp_domain.1 inp_mdom
  refine ⟨db, auto, h1, ?_, ?_⟩
  · rw [h2, inp_keys]; decide +kernel
  · rw [h3, inp_keys]; decide +kernel

example : view (populateGtf (cfgD .merge) {} [] inp) =
    some ⟨[(s "G", s "A", some 1), (s "T", s "A", some 1), (s "exon_1", s "A", some 1), (s "T_1", s "B", some 2),
           (s "exon_2", s "A", some 20), (s "CDS_1", s "A", some 5)],
          [rel "G" "T" 1, rel "T" "exon_1" 1, rel "G" "exon_1" 2, rel "T" "T_1" 1, rel "G" "T_1" 2,
           rel "T" "exon_2" 1, rel "G" "exon_2" 2, rel "T" "CDS_1" 1, rel "G" "CDS_1" 2],
          [(s "T", s "T_1")], [(s "exon", 2), (s "T", 1), (s "CDS", 1)]⟩ := by decide +kernel

/-- `merge` with `source` exempt (`force_merge_fields=["source"]`) would merge `t2` into `T` only if start / end
agreed; here they differ, so the outcome is the same: the master theorem applies to every strategy -/
example : match (assignKeys gtfDefaultKind [] [] inp).foldlM (pairImp (cfgD .warning)).step ({}, []) with
    | .error e => populateGtf (cfgD .warning) {} [] inp = .error e
    | .ok (db', X') => ∃ auto', populateGtf (cfgD .warning) {} [] inp = .ok (db', auto') ∧
        CntRel gtfDefaultKind [] inp inp auto' X' :=
  populateGtf_mixed (cfgD .warning) gtfDefaultKind inp {} [] (by simp [inp]) (inp_kind .warning) inp_domain.1

end Examples

end GffProofs.C05
