/-
  C04 — primary keys follow id_spec, are unique, and look-ups are exact.
-/
import GffModel.Interface

namespace GffProofs.C04
open GffModel GffModel.Create GffModel.Interface

/-- `'<key>_<n>'` -/
def autoId (key : Str) (n : Nat) : Str := key ++ ['_'] ++ Str.natToStr n

/-- the counter: `incr` hands out `key_(n+1)` where `n` is the current count, and records it -/
theorem incr_spec (auto : Dict Nat) (key : Str) :
    incr auto key = (autoId key ((auto.get? key).getD 0 + 1), Dict.set auto key ((auto.get? key).getD 0 + 1)) := by
  rfl

/-- a listed attribute is *usable* when present with at least one value -/
def usable (f : Feature) (k : Str) : Bool := match f.attrs.get? k with | some (_ :: _) => true | _ => false

/-- helper: plain attribute keys that are absent or empty are skipped by the loop -/
theorem tryKeys_skip (auto : Dict Nat) (f : Feature) (pre : List Str) (rest : List KeySpec)
    (hplain : ∀ x ∈ pre, isFieldSpec x = false) (hpre : ∀ x ∈ pre, usable f x = false) :
    tryKeys auto f (pre.map KeySpec.attr ++ rest) = tryKeys auto f rest := by
  induction pre with
  | nil => rfl
  | cons x xs ih =>
    have hx := hplain x (by simp)
    have hu := hpre x (by simp)
    have ih' := ih (fun y hy => hplain y (by simp [hy])) (fun y hy => hpre y (by simp [hy]))
    simp only [List.map_cons, List.cons_append, tryKeys, hx]
    unfold usable at hu
    cases hg : f.attrs.get? x with
    | none => simpa using ih'
    | some vs =>
      cases vs with
      | nil => simpa using ih'
      | cons v vs => rw [hg] at hu; simp at hu

/-- **first listed attribute that is present**: all listed keys are plain attribute names; the first
usable one has exactly one value ⇒ that value is the key; counters untouched -/
theorem id_first_present (auto : Dict Nat) (f : Feature) (pre : List Str) (k : Str) (post : List KeySpec) (v : Str)
    (hplain : ∀ x ∈ pre ++ [k], isFieldSpec x = false)
    (hpre : ∀ x ∈ pre, usable f x = false) (hk : f.attrs.get? k = some [v]) :
    idHandler (.keys (pre.map KeySpec.attr ++ KeySpec.attr k :: post)) auto f = .ok (v, auto) := by
  have hk' := hplain k (by simp)
  simp only [idHandler, bind, Except.bind, pure, Except.pure]
  rw [tryKeys_skip auto f pre _ (fun x hx => hplain x (by simp [hx])) hpre]
  simp [tryKeys, hk', hk]

/-- **an id attribute carrying several values is rejected, never truncated** -/
theorem multi_valued_rejected (auto : Dict Nat) (f : Feature) (pre : List Str) (k : Str) (post : List KeySpec)
    (v w : Str) (vs : List Str)
    (hplain : ∀ x ∈ pre ++ [k], isFieldSpec x = false)
    (hpre : ∀ x ∈ pre, usable f x = false) (hk : f.attrs.get? k = some (v :: w :: vs)) :
    idHandler (.keys (pre.map KeySpec.attr ++ KeySpec.attr k :: post)) auto f = .error .value := by
  have hk' := hplain k (by simp)
  simp only [idHandler, bind, Except.bind, pure, Except.pure]
  rw [tryKeys_skip auto f pre _ (fun x hx => hplain x (by simp [hx])) hpre]
  simp [tryKeys, hk', hk]

/-- **`:seqid:`-style specs give the named column** -/
theorem id_field_spec (auto : Dict Nat) (f : Feature) (post : List KeySpec) :
    idHandler (.keys (KeySpec.attr ":seqid:".toList :: post)) auto f = .ok (f.seqid, auto) ∧
    idHandler (.keys (KeySpec.attr ":source:".toList :: post)) auto f = .ok (f.source, auto) ∧
    idHandler (.keys (KeySpec.attr ":featuretype:".toList :: post)) auto f = .ok (f.ftype, auto) ∧
    idHandler (.keys (KeySpec.attr ":strand:".toList :: post)) auto f = .ok (f.strand, auto) := by
  refine ⟨?_, ?_, ?_, ?_⟩ <;> rfl

/-- **callable**: a truthy return value is used as is; `'autoincrement:X'` gives `X_n`; a falsy one
(None / '') falls through to the next listed key -/
theorem id_callable_plain (auto : Dict Nat) (f : Feature) (g : Feature → Option Str) (post : List KeySpec) (id : Str)
    (hg : g f = some id) (hne : id ≠ []) (hna : Str.startsWith id autoPrefix = false) :
    idHandler (.keys (KeySpec.call g :: post)) auto f = .ok (id, auto) := by
  cases id with
  | nil => exact absurd rfl hne
  | cons c cs =>
    simp [idHandler, tryKeys, hg, hna, bind, Except.bind, pure, Except.pure]

theorem autoPrefix_length : autoPrefix.length = 14 := by decide
theorem autoPrefix_eq : autoPrefix = ['a','u','t','o','i','n','c','r','e','m','e','n','t',':'] := by decide

theorem id_callable_auto (auto : Dict Nat) (f : Feature) (g : Feature → Option Str) (post : List KeySpec) (x : Str)
    (hg : g f = some (autoPrefix ++ x)) :
    idHandler (.keys (KeySpec.call g :: post)) auto f = .ok (incr auto x) := by
  have h1 : (autoPrefix ++ x).isEmpty = false := by rw [autoPrefix_eq]; rfl
  have h2 : Str.startsWith (autoPrefix ++ x) autoPrefix = true := by
    unfold Str.startsWith
    rw [List.isPrefixOf_iff_prefix]
    exact List.prefix_append _ _
  have h3 : (autoPrefix ++ x).drop 14 = x := List.drop_left' autoPrefix_length
  simp only [idHandler, tryKeys, hg, h1, h2, h3, bind, Except.bind, pure, Except.pure]
  simp
theorem id_callable_falsy (auto : Dict Nat) (f : Feature) (g : Feature → Option Str) (post : List KeySpec)
    (hg : g f = none ∨ g f = some []) :
    idHandler (.keys (KeySpec.call g :: post)) auto f = idHandler (.keys post) auto f := by
  rcases hg with hg | hg <;> simp [idHandler, tryKeys, hg]

/-- **dict**: the entry of the feature's type is used; a missing entry gives the default numbering -/
theorem id_dict_entry (auto : Dict Nat) (f : Feature) (m : Dict (List KeySpec)) (ks : List KeySpec)
    (h : m.get? f.ftype = some ks) : idHandler (.perType m) auto f = idHandler (.keys ks) auto f := by
  simp [idHandler, h]
theorem id_dict_missing (auto : Dict Nat) (f : Feature) (m : Dict (List KeySpec)) (h : m.get? f.ftype = none) :
    idHandler (.perType m) auto f = .ok (incr auto f.ftype) := by
  simp [idHandler, h, pure, Except.pure]

/-- **otherwise `<featuretype>_<n>`**: when nothing listed applies -/
theorem id_default (auto : Dict Nat) (f : Feature) (ks : List Str)
    (hplain : ∀ x ∈ ks, isFieldSpec x = false) (hnone : ∀ x ∈ ks, usable f x = false) :
    idHandler (.keys (ks.map KeySpec.attr)) auto f = .ok (incr auto f.ftype) := by
  have := tryKeys_skip auto f ks [] hplain hnone
  simp only [List.append_nil] at this
  simp [idHandler, this, tryKeys, bind, Except.bind, pure, Except.pure]

/-! ### `Dict.get?` / `Dict.set` interaction -/

theorem Dict.get?_set_self {α : Type} (d : Dict α) (k : Str) (v : α) : Dict.get? (Dict.set d k v) k = some v := by
  induction d with
  | nil => simp [Dict.set, Dict.get?]
  | cons p rest ih =>
    obtain ⟨k', v'⟩ := p
    by_cases h : k' = k
    · simp [Dict.set, Dict.get?, h]
    · simp [Dict.set, Dict.get?, h, ih]

theorem Dict.get?_set_ne {α : Type} (d : Dict α) (k k' : Str) (v : α) (hne : k' ≠ k) :
    Dict.get? (Dict.set d k v) k' = Dict.get? d k' := by
  induction d with
  | nil => simp [Dict.set, Dict.get?, Ne.symm hne]
  | cons p rest ih =>
    obtain ⟨k0, v0⟩ := p
    by_cases h : k0 = k
    · subst h
      simp [Dict.set, Dict.get?, Ne.symm hne]
    · simp only [Dict.set, h, if_false, Dict.get?, ih]

/-- **default numbering counts 1, 2, … per featuretype in input order**: running the handler with an
empty spec over a list of features yields, for the `i`-th feature, `<ftype>_<n>` where `n` is the number
of features of that type among the first `i+1` -/
def defaultIds (auto : Dict Nat) : List Feature → List Str
  | [] => []
  | f :: rest => (incr auto f.ftype).1 :: defaultIds (incr auto f.ftype).2 rest

/-- generalisation over the starting counters: the count is offset by what `auto` already records -/
theorem default_numbering_gen (fs : List Feature) (auto : Dict Nat) (i : Nat) (hi : i < fs.length) :
    (defaultIds auto fs)[i]? = some (autoId (fs[i]'hi).ftype
        ((auto.get? (fs[i]'hi).ftype).getD 0 +
          ((fs.take (i + 1)).filter (fun g => g.ftype = (fs[i]'hi).ftype)).length)) := by
  induction fs generalizing auto i with
  | nil => simp at hi
  | cons f rest ih =>
    cases i with
    | zero =>
      simp [defaultIds, incr_spec]
    | succ i =>
      have hi' : i < rest.length := by simpa using hi
      simp only [defaultIds, List.getElem?_cons_succ, List.getElem_cons_succ, List.take_succ_cons]
      rw [ih _ i hi']
      by_cases hft : f.ftype = (rest[i]'hi').ftype
      · simp only [incr_spec, List.filter_cons, hft, decide_true, if_true, List.length_cons,
          Dict.get?_set_self, Option.getD_some]
        congr 2; omega
      · have hne : (rest[i]'hi').ftype ≠ f.ftype := fun h => hft h.symm
        simp only [incr_spec, List.filter_cons, hft, decide_false, Dict.get?_set_ne _ _ _ _ hne]
        simp

theorem default_numbering (fs : List Feature) (i : Nat) (hi : i < fs.length) :
    (defaultIds [] fs)[i]? = some (autoId (fs[i]'hi).ftype
        (((fs.take (i + 1)).filter (fun g => g.ftype = (fs[i]'hi).ftype)).length)) := by
  rw [default_numbering_gen fs [] i hi]
  simp [Dict.get?]

/-- **keys are unique**: every table operation keeps the ids pairwise distinct -/
def IdsNodup (db : Db) : Prop := (db.features.map (·.id)).Nodup

theorem insert_nodup (db db' : Db) (r : Row) (h : IdsNodup db) (hi : db.insert r = .ok db') : IdsNodup db' := by
  unfold Db.insert at hi
  split at hi
  · cases hi
  · rename_i hn
    cases hi
    unfold IdsNodup at *
    simp only [List.map_append, List.map_cons, List.map_nil]
    rw [List.nodup_append]
    refine ⟨h, by simp, ?_⟩
    intro a ha b hb
    simp only [List.mem_singleton] at hb
    subst hb
    intro hab; subst hab
    apply hn
    simp only [Db.hasId, List.any_eq_true, decide_eq_true_eq]
    obtain ⟨x, hx, hxa⟩ := List.mem_map.mp ha
    exact ⟨x, hx, hxa⟩

theorem insert_dup_rejected (db : Db) (r : Row) (h : db.hasId r.id = true) : db.insert r = .error .integrity := by
  simp [Db.insert, h]

/-! ### the id column is untouched by `UPDATE`s that keep the id -/

theorem modifyRow_ids (db : Db) (id : Str) (g : Row → Row) (hg : ∀ r, (g r).id = r.id) :
    (db.modifyRow id g).features.map (·.id) = db.features.map (·.id) := by
  simp only [Db.modifyRow, List.map_map]
  apply List.map_congr_left
  intro x _
  simp only [Function.comp]
  split
  · exact hg x
  · rfl

theorem replaceRow_ids (db : Db) (id : Str) (r : Row) (hr : r.id = id) :
    (db.replaceRow id r).features.map (·.id) = db.features.map (·.id) := by
  simp only [Db.replaceRow, List.map_map]
  apply List.map_congr_left
  intro x _
  simp only [Function.comp]
  split
  · rename_i h; rw [hr, h]
  · rfl

theorem ofFeature_id (f : Feature) (row : Row) (h : Row.ofFeature f = .ok row) : f.id = some row.id := by
  unfold Row.ofFeature at h
  split at h
  · cases h
  · split at h
    · cases h
    · cases h; assumption

/-- `_do_merge` never touches the `features` table; with the `replace` strategy it returns `f` itself -/
theorem doMerge_spec (cfg : Cfg) (db db1 : Db) (auto auto1 : Dict Nat) (f : Feature) (id : Str) (st final : Strategy)
    (fixed : Option Feature) (h : doMerge cfg db auto f id st = .ok (fixed, final, db1, auto1)) :
    db1.features = db.features ∧ (final = .replace → fixed = some f) := by
  unfold doMerge at h
  cases st with
  | error => cases h
  | warning => simp only [Except.ok.injEq, Prod.mk.injEq] at h; obtain ⟨_, rfl, rfl, _⟩ := h; simp
  | replace => simp only [Except.ok.injEq, Prod.mk.injEq] at h; obtain ⟨rfl, rfl, rfl, _⟩ := h; simp
  | createUnique => simp only [Except.ok.injEq, Prod.mk.injEq] at h; obtain ⟨_, rfl, rfl, _⟩ := h; simp
  | merge =>
    simp only at h
    split at h
    · simp only [Except.ok.injEq, Prod.mk.injEq] at h; obtain ⟨_, rfl, rfl, _⟩ := h; simp
    · simp only [Except.ok.injEq, Prod.mk.injEq] at h; obtain ⟨_, rfl, rfl, _⟩ := h; simp

theorem foldl_modifyRow_ids {α : Type} (l : List α) (db : Db) (fid : α → Str) (g : α → Row → Row)
    (hg : ∀ a r, (g a r).id = r.id) :
    (l.foldl (fun db a => db.modifyRow (fid a) (g a)) db).features.map (·.id) = db.features.map (·.id) := by
  induction l generalizing db with
  | nil => rfl
  | cons a l ih => simp only [List.foldl_cons]; rw [ih, modifyRow_ids _ _ _ (hg a)]

theorem fileFeature_nodup (cfg : Cfg) (db db' : Db) (auto auto' : Dict Nat) (f : Feature) (id : Str) (o : Option Str)
    (h : IdsNodup db) (hf : fileFeature cfg db auto f id = .ok (db', auto', o)) : IdsNodup db' := by
  unfold fileFeature at hf
  simp only [bind, Except.bind, pure, Except.pure] at hf
  split at hf
  · cases hf
  · rename_i row hrow
    split at hf
    · rename_i db1 hins
      simp only [Except.ok.injEq, Prod.mk.injEq] at hf
      obtain ⟨rfl, _, _⟩ := hf
      exact insert_nodup _ _ _ h hins
    · split at hf
      · cases hf
      · rename_i res hres
        obtain ⟨fixed, final, db1, auto1⟩ := res
        obtain ⟨hfeat, hrep⟩ := doMerge_spec _ _ _ _ _ _ _ _ _ _ hres
        have h1 : IdsNodup db1 := by unfold IdsNodup; rw [hfeat]; exact h
        simp only at hf
        split at hf
        · -- merge
          simp only [Except.ok.injEq, Prod.mk.injEq] at hf
          obtain ⟨rfl, _, _⟩ := hf
          unfold IdsNodup
          rw [foldl_modifyRow_ids, modifyRow_ids]
          · exact h1
          · intro r; rfl
          · intro a r; (repeat' split) <;> rfl
        · -- replace
          rename_i fx
          split at hf
          · cases hf
          · rename_i row2 hrow2
            simp only [Except.ok.injEq, Prod.mk.injEq] at hf
            obtain ⟨rfl, _, _⟩ := hf
            have hfx := hrep rfl
            cases hfx
            have := ofFeature_id _ _ hrow2
            simp only [Option.some.injEq] at this
            unfold IdsNodup
            rw [replaceRow_ids _ _ _ this.symm]
            exact h1
        · -- createUnique
          split at hf
          · cases hf
          · split at hf
            · cases hf
            · rename_i db2 hins2
              simp only [Except.ok.injEq, Prod.mk.injEq] at hf
              obtain ⟨rfl, _, _⟩ := hf
              exact insert_nodup _ _ _ h1 hins2
        · simp only [Except.ok.injEq, Prod.mk.injEq] at hf
          obtain ⟨rfl, _, _⟩ := hf
          exact h1
/-- invariant lifting through `foldlM` in `Except` -/
theorem foldlM_inv {σ α ε : Type} (step : σ → α → Except ε σ) (P : σ → Prop)
    (hstep : ∀ s a s', P s → step s a = .ok s' → P s') (l : List α) (s s' : σ)
    (hs : P s) (h : l.foldlM step s = .ok s') : P s' := by
  induction l generalizing s with
  | nil => simp only [List.foldlM_nil, pure, Except.pure, Except.ok.injEq] at h; subst h; exact hs
  | cons a l ih =>
    simp only [List.foldlM_cons, bind, Except.bind] at h
    split at h
    · cases h
    · rename_i s1 h1
      exact ih s1 (hstep s a s1 hs h1) h

theorem insertRelIgnore_features (db : Db) (r : Rel) : (db.insertRelIgnore r).features = db.features := by
  unfold Db.insertRelIgnore; split <;> rfl

theorem insertRelIgnore_nodup (db : Db) (r : Rel) (h : IdsNodup db) : IdsNodup (db.insertRelIgnore r) := by
  unfold IdsNodup; rw [insertRelIgnore_features]; exact h

theorem foldl_insertRel_nodup {α : Type} (g : α → Rel) (l : List α) (db : Db) (h : IdsNodup db) :
    IdsNodup (l.foldl (fun db a => db.insertRelIgnore (g a)) db) := by
  induction l generalizing db with
  | nil => exact h
  | cons a l ih => simp only [List.foldl_cons]; exact ih _ (insertRelIgnore_nodup _ _ h)

theorem gffStep_nodup (cfg : Cfg) (st st' : Db × Dict Nat) (f : Feature)
    (h : IdsNodup st.1) (hs : gffStep cfg st f = .ok st') : IdsNodup st'.1 := by
  obtain ⟨db, auto⟩ := st
  unfold gffStep at hs
  simp only [bind, Except.bind, pure, Except.pure] at hs
  split at hs
  · cases hs
  · rename_i r1 _
    obtain ⟨id, auto1⟩ := r1
    simp only at hs
    split at hs
    · cases hs
    · rename_i r2 h2
      obtain ⟨db2, auto2, filed⟩ := r2
      have hn := fileFeature_nodup _ _ _ _ _ _ _ _ h h2
      simp only [Except.ok.injEq] at hs
      subst hs
      simp only
      split
      · exact foldl_insertRel_nodup _ _ _ hn
      · exact hn

theorem gtfStep_nodup (cfg : Cfg) (st st' : Db × Dict Nat) (f : Feature)
    (h : IdsNodup st.1) (hs : gtfStep cfg st f = .ok st') : IdsNodup st'.1 := by
  obtain ⟨db, auto⟩ := st
  unfold gtfStep at hs
  simp only [bind, Except.bind, pure, Except.pure] at hs
  split at hs
  · cases hs
  · rename_i r1 _
    obtain ⟨id, auto1⟩ := r1
    simp only at hs
    split at hs
    · cases hs
    · rename_i r2 h2
      obtain ⟨db2, auto2, filed⟩ := r2
      have hn := fileFeature_nodup _ _ _ _ _ _ _ _ h h2
      simp only [Except.ok.injEq] at hs
      subst hs
      simp only
      unfold IdsNodup
      repeat' split
      all_goals (try simp only [insertRelIgnore_features])
      all_goals exact hn

theorem populateGff_nodup (cfg : Cfg) (db db' : Db) (auto auto' : Dict Nat) (fs : List Feature)
    (h : IdsNodup db) (hp : populateGff cfg db auto fs = .ok (db', auto')) : IdsNodup db' := by
  unfold populateGff at hp
  split at hp
  · cases hp
  · exact foldlM_inv (gffStep cfg) (fun st => IdsNodup st.1)
      (fun s a s' hs hstep => gffStep_nodup cfg s s' a hs hstep) fs (db, auto) (db', auto') h hp
theorem populateGtf_nodup (cfg : Cfg) (db db' : Db) (auto auto' : Dict Nat) (fs : List Feature)
    (h : IdsNodup db) (hp : populateGtf cfg db auto fs = .ok (db', auto')) : IdsNodup db' := by
  unfold populateGtf at hp
  split at hp
  · cases hp
  · exact foldlM_inv (gtfStep cfg) (fun st => IdsNodup st.1)
      (fun s a s' hs hstep => gtfStep_nodup cfg s s' a hs hstep) fs (db, auto) (db', auto') h hp
/-- helper: with distinct ids, `find?` by id returns the very row -/
theorem getRow?_of_nodup (l : List Row) (h : (l.map (·.id)).Nodup) (r : Row) (hr : r ∈ l) :
    l.find? (·.id = r.id) = some r := by
  induction l with
  | nil => cases hr
  | cons x xs ih =>
    simp only [List.map_cons, List.nodup_cons] at h
    rcases List.mem_cons.mp hr with rfl | hr'
    · simp
    · have : x.id ≠ r.id := by
        intro e; apply h.1; rw [e]; exact List.mem_map.mpr ⟨r, hr', rfl⟩
      simp [this, ih h.2 hr']

/-- **look-ups are exact**: `db[key]` returns the feature stored under `key` — the unique row with
that id — and an absent key raises FeatureNotFoundError -/
theorem getitem_exact (s : Session) (h : IdsNodup s.db) (r : Row) (hr : r ∈ s.db.features) :
    getItem s r.id = .ok (s.returner r) := by
  unfold getItem Db.getRow?
  rw [getRow?_of_nodup _ h r hr]

theorem getitem_absent (s : Session) (k : Str) (h : ∀ r ∈ s.db.features, r.id ≠ k) :
    getItem s k = .error .featureNotFound := by
  unfold getItem Db.getRow?
  have : s.db.features.find? (·.id = k) = none := by
    rw [List.find?_eq_none]; intro x hx; simpa using h x hx
  rw [this]

theorem getitem_id (s : Session) (k : Str) (f : Feature) (h : getItem s k = .ok f) : f.id = some k := by
  unfold getItem Db.getRow? at h
  split at h
  · rename_i r hr
    have := List.find?_some hr
    cases h
    simp only [decide_eq_true_eq] at this
    simp [Session.returner, Row.toFeature, this]
  · cases h
/-- the format-dependent default id_spec -/
theorem default_spec_gff (auto : Dict Nat) (f : Feature) (v : Str) (h : f.attrs.get? "ID".toList = some [v]) :
    idHandler defaultGffSpec auto f = .ok (v, auto) := by
  have := id_first_present auto f [] "ID".toList [] v (by decide) (by simp) h
  simpa [defaultGffSpec] using this

/-! ### non-vacuity: the hypotheses are satisfiable on concrete, non-trivial inputs -/

section Examples

private def s (x : String) : Str := x.toList

/-- a gene whose `Name` is present but empty and whose `ID` has one value -/
private def g1 : Feature := { ftype := s "gene", seqid := s "chr1", attrs := [(s "Name", []), (s "ID", [s "g1"])] }
/-- a gene whose `ID` carries two values -/
private def g2 : Feature := { ftype := s "gene", attrs := [(s "ID", [s "a", s "b"])] }
private def ex1 : Feature := { ftype := s "exon", attrs := [(s "Parent", [s "g1"])] }

example : idHandler (.keys ([s "Alias", s "Name"].map KeySpec.attr ++ KeySpec.attr (s "ID") :: [])) [] g1
    = .ok (s "g1", []) :=
  id_first_present [] g1 [s "Alias", s "Name"] (s "ID") [] (s "g1") (by decide) (by decide) (by decide)

example : idHandler (.keys ([s "Alias"].map KeySpec.attr ++ KeySpec.attr (s "ID") :: [])) [] g2 = .error .value :=
  multi_valued_rejected [] g2 [s "Alias"] (s "ID") [] (s "a") (s "b") [] (by decide) (by decide) (by decide)

example : idHandler (.keys [KeySpec.call (fun f => some (autoPrefix ++ f.ftype))]) [(s "gene", 4)] g1
    = .ok (s "gene_5", [(s "gene", 5)]) := by
  rw [id_callable_auto _ _ _ _ g1.ftype rfl]; exact congrArg Except.ok (by decide +kernel)

example : idHandler (.keys ([s "Alias", s "Name"].map KeySpec.attr)) [] g1 = .ok (s "gene_1", [(s "gene", 1)]) := by
  rw [id_default [] g1 [s "Alias", s "Name"] (by decide) (by decide)]; exact congrArg Except.ok (by decide +kernel)

/-- the default GTF spec: a `gene` takes its `gene_id`; an `exon` (no entry) is numbered -/
example : idHandler defaultGtfSpec [] { ftype := s "gene", attrs := [(s "gene_id", [s "G"])] } = .ok (s "G", []) := by
  unfold defaultGtfSpec
  rw [id_dict_entry _ _ _ [.attr (s "gene_id")] (by rfl)]
  exact id_first_present [] _ [] (s "gene_id") [] (s "G") (by decide) (by simp) (by decide)
example : idHandler defaultGtfSpec [] ex1 = .ok (s "exon_1", [(s "exon", 1)]) := by
  unfold defaultGtfSpec
  rw [id_dict_missing _ _ _ (by decide)]; exact congrArg Except.ok (by decide +kernel)

/-- gene, exon, gene ↦ gene_1, exon_1, gene_2 -/
example : defaultIds [] [g1, ex1, g2] = [s "gene_1", s "exon_1", s "gene_2"] := by decide +kernel
example : (defaultIds [] [g1, ex1, g2])[2]? = some (autoId (s "gene") 2) :=
  default_numbering [g1, ex1, g2] 2 (by decide)

/-- two lines with the same ID, each collision strategy that files something: the import succeeds,
so `populateGff_nodup` applies with its hypotheses met -/
private def cfgOf (st : Strategy) : Cfg := { idSpec := defaultGffSpec, strategy := st }
private def dupInput : List Feature := [g1, ex1, { g1 with source := s "other" }, g1]

private theorem nonvac (st : Strategy) (hok : (populateGff (cfgOf st) {} [] dupInput).toBool = true) :
    ∃ db' auto', populateGff (cfgOf st) {} [] dupInput = .ok (db', auto') ∧ IdsNodup db' := by
  cases h : populateGff (cfgOf st) {} [] dupInput with
  | error e => rw [h] at hok; cases hok
  | ok r => exact ⟨r.1, r.2, rfl, populateGff_nodup _ _ _ _ _ _ (by simp [IdsNodup]) h⟩

/- `#eval` of the resulting ids / duplicates / counters on `dupInput`:
   replace      ↦ ["g1", "exon_1"], [], [(exon, 1)]
   merge        ↦ ["g1", "exon_1", "g1_1"], [(g1, g1_1)], [(exon, 1), (g1, 1)]   (4th line merged into the 1st)
   createUnique ↦ ["g1", "exon_1", "g1_1", "g1_2"], [], [(exon, 1), (g1, 2)]
   warning      ↦ ["g1", "exon_1"], [], [(exon, 1)] -/
example : ∃ db' auto', populateGff (cfgOf .replace) {} [] dupInput = .ok (db', auto') ∧ IdsNodup db' :=
  nonvac .replace (by decide +kernel)
example : ∃ db' auto', populateGff (cfgOf .merge) {} [] dupInput = .ok (db', auto') ∧ IdsNodup db' :=
  nonvac .merge (by decide +kernel)
example : ∃ db' auto', populateGff (cfgOf .createUnique) {} [] dupInput = .ok (db', auto') ∧ IdsNodup db' :=
  nonvac .createUnique (by decide +kernel)


private theorem nonvacGtf (st : Strategy) (hok : (populateGtf (cfgOf st) {} [] dupInput).toBool = true) :
    ∃ db' auto', populateGtf (cfgOf st) {} [] dupInput = .ok (db', auto') ∧ IdsNodup db' := by
  cases h : populateGtf (cfgOf st) {} [] dupInput with
  | error e => rw [h] at hok; cases hok
  | ok r => exact ⟨r.1, r.2, rfl, populateGtf_nodup _ _ _ _ _ _ (by simp [IdsNodup]) h⟩
example : ∃ db' auto', populateGtf (cfgOf .merge) {} [] dupInput = .ok (db', auto') ∧ IdsNodup db' :=
  nonvacGtf .merge (by decide +kernel)

/-- a colliding insert is refused -/
private def r1 : Row := ⟨s "a", s "chr1", s ".", s "gene", some 1, some 10, s ".", s "+", s ".", [], [], none⟩
private def r2 : Row := { r1 with id := s "b", ftype := s "exon" }
private def sess : Session := { db := { features := [r1, r2] }, auto := [], dialect := Dialect.default, directives := [] }

example : sess.db.insert { r2 with ftype := s "CDS" } = .error .integrity := insert_dup_rejected _ _ (by decide)
example : getItem sess (s "b") = .ok (sess.returner r2) :=
  getitem_exact sess (by unfold IdsNodup; decide) r2 (by decide)
example : getItem sess (s "c") = .error .featureNotFound := getitem_absent sess (s "c") (by decide)
example : (sess.returner r2).id = some (s "b") := getitem_id sess (s "b") _ (getitem_exact sess (by unfold IdsNodup; decide) r2 (by decide))

end Examples

end GffProofs.C04
