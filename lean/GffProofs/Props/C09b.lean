/-
  C09 (part b) — what happens around the vote of `_choose_dialect`:

  * `supplied_verbatim`: a dialect passed by the caller is used as it is; the iterator does not peek, and
    every feature it yields carries exactly that dialect;
  * `routing`: `create_db` picks the GFF importer iff `force_gff ∨ fmt = gff3`, the GTF importer iff
    `¬force_gff ∧ fmt = gtf`, and fails (`UnboundLocalError`) for any other `fmt`;
  * `consistent_file_dialect`: a file written consistently in one dialect is voted that dialect
    (C01 `window_votes_dialect`), and its `fmt` is `gtf` exactly for the quoted `key "value"` style.
-/
import GffModel.Create
import GffProofs.Lemmas.IterAux
import GffProofs.Props.C01

namespace GffProofs.C09
open GffModel GffModel.Iter GffModel.Parser GffModel.Grammar GffProofs.IterAux

/-! ### Specification -/

/-- `feature.dialect = d`, nothing else touched (`i.dialect = self.dialect` in `__iter__`) -/
def setDialect (d : Dialect) (f : Feature) : Feature := { f with dialect := d }

/-- what an iterator with a supplied dialect `d` yields from already-built features: each one with its
dialect set to `d`, then passed through the transform (falsy results dropped) -/
def SpecYield (d : Dialect) (tr : Option (Feature → Option Feature)) (src : List Feature) : List Feature :=
  match tr with
  | none => src.map (setDialect d)
  | some t => src.filterMap (fun f => t (setDialect d f))

theorem applyTransform_spec (d : Dialect) (tr : Option (Feature → Option Feature)) (fs : List Feature) :
    applyTransform d tr fs = SpecYield d tr fs := by
  cases tr with
  | none => exact applyTransform_none d fs
  | some t => exact applyTransform_some d t fs

/-! ### `supplied_verbatim` -/

/-- **Feature input, supplied dialect.**  The returned dialect is `d` itself, the iterated data is `src`
itself (no peek, whatever `checklines`), each feature gets `dialect = d`. -/
theorem supplied_verbatim_features (src : List Feature) (cl : Nat) (d : Dialect)
    (tr : Option (Feature → Option Feature)) :
    runFeatures src cl (some d) tr = (d, SpecYield d tr src) := by
  unfold runFeatures
  simp only [applyTransform_spec]

/-- without transform: as many features as supplied, in order, every one carrying `d`, all other
fields unchanged -/
theorem supplied_features_carry (src : List Feature) (cl : Nat) (d : Dialect) :
    (runFeatures src cl (some d) none).1 = d ∧
    (runFeatures src cl (some d) none).2 = src.map (setDialect d) ∧
    (runFeatures src cl (some d) none).2.length = src.length ∧
    ∀ f ∈ (runFeatures src cl (some d) none).2, f.dialect = d := by
  rw [supplied_verbatim_features]
  refine ⟨rfl, rfl, by simp [SpecYield], ?_⟩
  intro f hf
  obtain ⟨g, _, rfl⟩ := List.mem_map.mp hf
  rfl

/-- **File input, supplied dialect.**  The result is: `d` unchanged; every feature line parsed with `d`
(the PROVIDED-dialect parser, never the inferring one), then the common `__iter__` step; the directives.
No peek happens: the right-hand side does not mention `checklines`, `filePeek` or `chooseDialect`. -/
theorem supplied_verbatim_file (lines : List Str) (cl : Nat) (d : Dialect)
    (tr : Option (Feature → Option Feature)) :
    runFile lines cl (some d) tr =
      ((featureLines lines).mapM (fun l => featureFromLine l (some d) true false)).map
        (fun fs => (d, SpecYield d tr fs, directives lines)) := by
  unfold runFile fileIterate
  simp only [bind, Except.bind, pure, Except.pure, Except.map, applyTransform_spec]
  cases (featureLines lines).mapM (fun l => featureFromLine l (some d) true false) <;> rfl

/-- whatever succeeds returns `d` -/
theorem supplied_file_dialect (lines : List Str) (cl : Nat) (d d' : Dialect)
    (tr : Option (Feature → Option Feature)) (fs : List Feature) (dirs : List Str)
    (h : runFile lines cl (some d) tr = .ok (d', fs, dirs)) : d' = d :=
  (runFile_ok h).1

/-- without transform the yielded features are exactly the parsed ones, each carrying `d` -/
theorem supplied_file_carry (lines : List Str) (cl : Nat) (d : Dialect) :
    runFile lines cl (some d) none =
      ((featureLines lines).mapM (fun l => featureFromLine l (some d) true false)).map
        (fun fs => (d, fs, directives lines)) ∧
    ∀ d' fs dirs, runFile lines cl (some d) none = .ok (d', fs, dirs) →
      d' = d ∧ fs.length = (featureLines lines).length ∧ ∀ f ∈ fs, f.dialect = d := by
  have hmain : runFile lines cl (some d) none =
      ((featureLines lines).mapM (fun l => featureFromLine l (some d) true false)).map
        (fun fs => (d, fs, directives lines)) := by
    rw [supplied_verbatim_file]
    cases hm : (featureLines lines).mapM (fun l => featureFromLine l (some d) true false) with
    | error e => rfl
    | ok fs =>
      have hall := mapM_all _ (fun f => f.dialect = d) _ fs hm
        (fun l f hf => featureFromLine_dialect l d false f hf)
      have : fs.map (setDialect d) = fs := by
        have : ∀ f ∈ fs, setDialect d f = f := fun f hf => withDialect_self d f (hall f hf)
        rw [List.map_congr_left this, List.map_id']
      simp only [Except.map, SpecYield, this]
  refine ⟨hmain, ?_⟩
  intro d' fs dirs h
  rw [hmain] at h
  cases hm : (featureLines lines).mapM (fun l => featureFromLine l (some d) true false) with
  | error e => rw [hm] at h; cases h
  | ok fs' =>
    rw [hm] at h
    simp only [Except.map, Except.ok.injEq, Prod.mk.injEq] at h
    obtain ⟨rfl, rfl, _⟩ := h
    exact ⟨rfl, mapM_length _ _ _ hm,
      mapM_all _ (fun f => f.dialect = d) _ _ hm (fun l f hf => featureFromLine_dialect l d false f hf)⟩

/-- `checklines` is irrelevant once a dialect is supplied (nothing is inspected) -/
theorem supplied_ignores_checklines (lines : List Str) (src : List Feature) (cl cl' : Nat) (d : Dialect)
    (tr : Option (Feature → Option Feature)) :
    runFile lines cl (some d) tr = runFile lines cl' (some d) tr ∧
    runFeatures src cl (some d) tr = runFeatures src cl' (some d) tr :=
  ⟨by rw [supplied_verbatim_file, supplied_verbatim_file], rfl⟩

/-- by contrast, with no dialect supplied the returned dialect is the vote over the window -/
theorem inferred_is_vote (lines : List Str) (src : List Feature) (cl : Nat)
    (tr : Option (Feature → Option Feature)) :
    (∀ d fs dirs, runFile lines cl none tr = .ok (d, fs, dirs) → fileDialect lines cl = .ok d) ∧
    (runFeatures src cl none tr).1 = Helpers.chooseDialect ((src.take (cl + 1)).map view) :=
  ⟨fun _ _ _ h => (runFile_ok h).1, rfl⟩

/-- **`supplied_verbatim`** (both input forms in one statement) -/
theorem supplied_verbatim (lines : List Str) (src : List Feature) (cl : Nat) (d : Dialect)
    (tr : Option (Feature → Option Feature)) :
    runFile lines cl (some d) tr =
      ((featureLines lines).mapM (fun l => featureFromLine l (some d) true false)).map
        (fun fs => (d, SpecYield d tr fs, directives lines)) ∧
    runFeatures src cl (some d) tr = (d, SpecYield d tr src) ∧
    (∀ f ∈ SpecYield d none src, f.dialect = d) := by
  refine ⟨supplied_verbatim_file lines cl d tr, supplied_verbatim_features src cl d tr, ?_⟩
  intro f hf
  obtain ⟨g, _, rfl⟩ := List.mem_map.mp hf
  rfl

/-! ### `routing` -/

theorem gtf_ne_gff3 : gtf ≠ gff3 := by decide

/-- GFF importer iff `force_gff` or `fmt = "gff3"` -/
theorem routing_gff (forceGff : Bool) (d : Dialect) :
    Create.route forceGff d = .ok .gff ↔ (forceGff = true ∨ d.fmt = gff3) := by
  unfold Create.route
  by_cases h : forceGff = true ∨ d.fmt = gff3
  · simp [h]
  · simp only [h, if_false, iff_false]
    split <;> simp

/-- GTF importer iff not `force_gff` and `fmt = "gtf"` -/
theorem routing_gtf (forceGff : Bool) (d : Dialect) :
    Create.route forceGff d = .ok .gtf ↔ (forceGff = false ∧ d.fmt = gtf) := by
  unfold Create.route
  by_cases h : forceGff = true ∨ d.fmt = gff3
  · simp only [h, if_true]
    constructor
    · intro h'; cases h'
    · rintro ⟨h1, h2⟩
      rcases h with h | h
      · rw [h1] at h; cases h
      · rw [h2] at h; exact absurd h gtf_ne_gff3
  · simp only [h, if_false]
    have hf : forceGff = false := by cases forceGff <;> simp_all
    by_cases h2 : d.fmt = gtf
    · simp [h2, hf]
    · simp [h2]

/-- any other `fmt` (without `force_gff`): `cls` is never bound — `UnboundLocalError` -/
theorem routing_error (forceGff : Bool) (d : Dialect) :
    Create.route forceGff d = .error .unbound ↔ (forceGff = false ∧ d.fmt ≠ gff3 ∧ d.fmt ≠ gtf) := by
  unfold Create.route
  by_cases h : forceGff = true ∨ d.fmt = gff3
  · simp only [h, if_true]
    constructor
    · intro h'; cases h'
    · rintro ⟨h1, h2, _⟩
      rcases h with h | h
      · rw [h1] at h; cases h
      · exact absurd h h2
  · simp only [h, if_false]
    have hf : forceGff = false := by cases forceGff <;> simp_all
    have h1 : d.fmt ≠ gff3 := fun e => h (Or.inr e)
    by_cases h2 : d.fmt = gtf
    · simp [h2]
    · simp [h2, hf, h1]

/-- **`routing`**: the three cases, exhaustive and exclusive; no other error is possible -/
theorem routing (forceGff : Bool) (d : Dialect) :
    (Create.route forceGff d = .ok .gff ↔ (forceGff = true ∨ d.fmt = gff3)) ∧
    (Create.route forceGff d = .ok .gtf ↔ (forceGff = false ∧ d.fmt = gtf)) ∧
    (Create.route forceGff d = .error .unbound ↔ (forceGff = false ∧ d.fmt ≠ gff3 ∧ d.fmt ≠ gtf)) ∧
    (Create.route forceGff d = .ok .gff ∨ Create.route forceGff d = .ok .gtf ∨
      Create.route forceGff d = .error .unbound) := by
  refine ⟨routing_gff _ _, routing_gtf _ _, routing_error _ _, ?_⟩
  unfold Create.route
  split
  · exact Or.inl rfl
  · split
    · exact Or.inr (Or.inl rfl)
    · exact Or.inr (Or.inr rfl)

/-! ### `consistent_file_dialect` -/

/-- `fmt` of a line specification is `gtf` exactly for the quoted `key "value"` style, `gff3` otherwise -/
theorem lineSpec_fmt_gtf (s : LineSpec) : s.fmt = gtf ↔ (s.style = .space ∧ s.quoted = true) := by
  unfold LineSpec.fmt
  by_cases h : s.style = .space ∧ s.quoted = true
  · simp [h]
  · simp only [h, if_false, iff_false]
    exact fun e => gtf_ne_gff3 e.symm

theorem lineSpec_fmt_gff3 (s : LineSpec) : s.fmt = gff3 ↔ ¬ (s.style = .space ∧ s.quoted = true) := by
  unfold LineSpec.fmt
  by_cases h : s.style = .space ∧ s.quoted = true
  · rw [if_pos h]; exact ⟨fun e => absurd e gtf_ne_gff3, fun e => absurd h e⟩
  · simp [h]

/-- **`consistent_file_dialect`** (C01 `window_votes_dialect`, re-exported): if every feature line of the
inspected window is well-formed and written with the dimensions of `s0`, the voted dialect is exactly
those dimensions with the first-seen key order of the window. -/
theorem consistent_file_dialect (lines : List Str) (specs : List LineSpec) (checklines : Nat) (s0 : LineSpec)
    (hfl : featureLines lines = specs.map renderLine) (hne : specs ≠ [])
    (hwin : ∀ s ∈ specs.take (checklines + 1), s.WF = true ∧ C01.SameDims s s0) :
    fileDialect lines checklines =
      .ok (C01.dOf s0 (Helpers.firstSeenOrder ((specs.take (checklines + 1)).map (fun s => s.attrs.map (·.key))))) :=
  C01.window_votes_dialect lines specs checklines s0 hfl hne hwin

/-- … hence its `fmt` is `gtf` exactly for the quoted `key "value"` style (and `gff3` otherwise), and
`create_db` (without `force_gff`) routes to the GTF importer exactly in that case and to the GFF importer
otherwise — never to the error. -/
theorem consistent_file_fmt (lines : List Str) (specs : List LineSpec) (checklines : Nat) (s0 : LineSpec)
    (hfl : featureLines lines = specs.map renderLine) (hne : specs ≠ [])
    (hwin : ∀ s ∈ specs.take (checklines + 1), s.WF = true ∧ C01.SameDims s s0) :
    ∃ d, fileDialect lines checklines = .ok d ∧ d.fmt = s0.fmt ∧
      (d.fmt = gtf ↔ (s0.style = .space ∧ s0.quoted = true)) ∧
      (d.fmt = gff3 ↔ ¬ (s0.style = .space ∧ s0.quoted = true)) ∧
      (Create.route false d = .ok .gtf ↔ (s0.style = .space ∧ s0.quoted = true)) ∧
      (Create.route false d = .ok .gff ↔ ¬ (s0.style = .space ∧ s0.quoted = true)) := by
  refine ⟨_, consistent_file_dialect lines specs checklines s0 hfl hne hwin, rfl,
    lineSpec_fmt_gtf s0, lineSpec_fmt_gff3 s0, ?_, ?_⟩
  · rw [routing_gtf]
    simp only [true_and]
    exact lineSpec_fmt_gtf s0
  · rw [routing_gff]
    simp only [Bool.false_eq_true, false_or]
    exact lineSpec_fmt_gff3 s0

/-! ### Non-vacuity -/

section NonVacuity

/-- a dialect no vote would produce (`" ; "` separator, unusual order) -/
def exSup : Dialect := { Dialect.default with fieldSep := " ; ".toList, order := ["zz".toList] }

def exSrc : List Feature :=
  [{ seqid := "chr1".toList, ftype := "gene".toList, start := some 1, stop := some 9,
     attrs := [("ID".toList, ["g".toList])] },
   { seqid := "chr1".toList, ftype := "exon".toList, start := some 1, stop := some 5,
     attrs := [("Parent".toList, ["g".toList])],
     dialect := { Dialect.default with fmt := gtf } }]

example : (runFeatures exSrc 0 (some exSup) none).1 = exSup ∧
    (runFeatures exSrc 0 (some exSup) none).2.map (·.dialect) = [exSup, exSup] :=
  ⟨rfl, by decide +kernel⟩

/-- the supplied dialect differs from what the vote would give -/
example : (runFeatures exSrc 0 none none).1 ≠ exSup := by decide +kernel

example : (runFile C01.gffLines 10 (some exSup) none).toOption.map (fun r => (r.1, r.2.1.map (·.dialect), r.2.2))
    = some (exSup, [exSup, exSup, exSup], ["gff-version 3".toList]) := by decide +kernel

example : Create.route false Dialect.default = .ok .gff := (routing_gff _ _).mpr (Or.inr rfl)
example : Create.route true { Dialect.default with fmt := gtf } = .ok .gff := (routing_gff _ _).mpr (Or.inl rfl)
example : Create.route false { Dialect.default with fmt := gtf } = .ok .gtf := (routing_gtf _ _).mpr ⟨rfl, rfl⟩
example : Create.route false { Dialect.default with fmt := "gff2".toList } = .error .unbound :=
  (routing_error _ _).mpr ⟨rfl, by decide, by decide⟩

/-- the GTF file of C01's examples (window = first two feature lines): voted `gtf`, routed to the GTF
importer -/
example : ∃ d, fileDialect C01.gtfLines 1 = .ok d ∧ d.fmt = gtf ∧ Create.route false d = .ok .gtf := by
  obtain ⟨d, h1, _, h3, _, h5, _⟩ := consistent_file_fmt C01.gtfLines C01.gtfSpecs 1 (C01.gtfSpec [] []) C01.gtf_fl
    (by decide) (by decide +kernel)
  exact ⟨d, h1, h3.mpr ⟨rfl, rfl⟩, h5.mpr ⟨rfl, rfl⟩⟩

example : ∃ d, fileDialect C01.gffLines 10 = .ok d ∧ d.fmt = gff3 ∧ Create.route false d = .ok .gff := by
  obtain ⟨d, h1, _, _, h4, _, h6⟩ := consistent_file_fmt C01.gffLines C01.gffSpecs 10 (C01.gffSpec [] []) C01.gff_fl
    (by decide) (by decide +kernel)
  exact ⟨d, h1, h4.mpr (by decide), h6.mpr (by decide)⟩

end NonVacuity

end GffProofs.C09
