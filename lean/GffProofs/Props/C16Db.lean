/-
  C16 (database-backed clauses) — `FeatureDB.children_bp` and `FeatureDB.merge_all`
  (`GffModel.DbExport`) on top of C16's description of `merge`.

  * `children_bp_sum`, `children_bp_sum_error`, `childRows_once`, `mem_childRows` — without `merge`: the sum
    of `end - start + 1` over the stored children (any level) of the type, each row once; session unchanged;
    `TypeError` iff a child lacks a coordinate.
  * `children_bp_union` (with `merge_total`, `countCovered_separated`) — with `merge=True`, default criteria,
    children of one class: the number of covered positions; only the in-memory counters change.
  * `merge_all_effect` (with `sortedRows_spec`, `merge_all_new_rows`, `reparentAll_untouched`,
    `reparentAll_member`) — the exact `features` and `relations` tables after `merge_all`, both modes.
  Core Lean only.
-/
import GffModel.DbExport
import GffProofs.Props.C16
import GffProofs.Props.C04
import GffProofs.Lemmas.DbExportAux

namespace GffProofs.C16Db
open GffModel GffModel.Interface GffModel.DbExport GffModel.Merge GffProofs.C16 GffProofs.DbExportAux

/-! ### specification -/

/-- `len(feature)` of a stored row: `end - start + 1` -/
def rowLen (r : Row) : Int := r.stop.getD 0 - r.start.getD 0 + 1

/-- the stored rows that the `relations` table lists as children of `id` (at any level) and whose type is
`t`, in table order — each row once -/
def childRows (s : Session) (id t : Str) : List Row :=
  s.db.features.filter (fun r => isChildOf s id none r && decide (r.ftype = t))

/-- the children have integer coordinates -/
def ChildCoords (s : Session) (id t : Str) : Prop :=
  ∀ r ∈ childRows s id t, r.start.isSome ∧ r.stop.isSome

/-! ### `children_bp` without merge -/

theorem isum_eq_sum (l : List Int) : isum l = l.sum := by
  induction l with
  | nil => rfl
  | cons x xs ih => rw [isum_cons, List.sum_cons, ih]

theorem childrenBp_nomerge (s : Session) (id t : Str) (cs : List Crit) :
    childrenBp s id t false cs =
      (((orderedKids s id none t).map s.returner).mapM Feature.len).map (fun lens => (isum lens, s)) := by
  unfold childrenBp orderedKids
  simp only [Bool.false_eq_true, if_false, bind, Except.bind, pure, Except.pure, Except.map, isum]

theorem len_returner (s : Session) (r : Row) (h : r.start.isSome ∧ r.stop.isSome) :
    Feature.len (s.returner r) = .ok (rowLen r) := by
  obtain ⟨a, ha⟩ := Option.isSome_iff_exists.1 h.1
  obtain ⟨b, hb⟩ := Option.isSome_iff_exists.1 h.2
  simp [Feature.len, Session.returner, Row.toFeature, rowLen, ha, hb]

theorem len_returner_none (s : Session) (r : Row) (h : ¬ (r.start.isSome ∧ r.stop.isSome)) :
    Feature.len (s.returner r) = .error .type := by
  simp only [Feature.len, Session.returner, Row.toFeature]
  cases hs : r.start <;> cases he : r.stop <;> simp_all

/-- **`children_bp_sum`**: without `merge`, `children_bp(id, child_featuretype)` is the sum of
`end - start + 1` over the stored features of that type that are children of `id` at any level — each
stored row counted once, however many relation rows (levels) list it — and the session is unchanged. -/
theorem children_bp_sum (s : Session) (id t : Str) (cs : List Crit) (hc : ChildCoords s id t) :
    childrenBp s id t false cs = .ok (((childRows s id t).map rowLen).sum, s) := by
  rw [childrenBp_nomerge]
  have hlen : ((orderedKids s id none t).map s.returner).mapM Feature.len =
      .ok ((orderedKids s id none t).map rowLen) := by
    rw [List.mapM_map]
    apply C18Aux.mapM_eq_ok_map
    intro r hr
    have hk := (mem_orderedKids s id none t r).1 hr
    exact len_returner s r (hc r (List.mem_filter.2 hk))
  rw [hlen]
  simp only [Except.map]
  rw [isum_perm ((orderedKids_perm s id none t).map rowLen), isum_eq_sum]
  rfl

/-- a child without an integer coordinate: `len()` raises `TypeError` -/
theorem children_bp_sum_error (s : Session) (id t : Str) (cs : List Crit) (h : ¬ ChildCoords s id t) :
    childrenBp s id t false cs = .error .type := by
  rw [childrenBp_nomerge]
  have : ((orderedKids s id none t).map s.returner).mapM Feature.len = .error .type := by
    rw [List.mapM_map]
    apply mapM_error_of_exists
    · intro r _
      by_cases hr : r.start.isSome ∧ r.stop.isSome
      · exact Or.inl ⟨_, len_returner s r hr⟩
      · exact Or.inr (len_returner_none s r hr)
    · unfold ChildCoords at h
      have : ∃ r ∈ childRows s id t, ¬ (r.start.isSome ∧ r.stop.isSome) := by
        apply Classical.byContradiction
        intro hn
        apply h
        intro r hr
        apply Classical.byContradiction
        intro hcontra
        exact hn ⟨r, hr, hcontra⟩
      obtain ⟨r, hr, hbad⟩ := this
      refine ⟨r, (mem_orderedKids s id none t r).2 (List.mem_filter.1 hr), len_returner_none s r hbad⟩
  rw [this]; rfl

/-- each child is counted once: with distinct stored ids the counted rows have distinct ids -/
theorem childRows_once (s : Session) (id t : Str) (hid : (s.db.features.map (·.id)).Nodup) :
    ((childRows s id t).map (·.id)).Nodup :=
  hid.sublist (List.filter_sublist.map _)

/-- … and they are exactly the stored features of type `t` that some relation row lists under `id` -/
theorem mem_childRows (s : Session) (id t : Str) (r : Row) :
    r ∈ childRows s id t ↔ r ∈ s.db.features ∧ r.ftype = t ∧
      ∃ rel ∈ s.db.relations, rel.parent = id ∧ rel.child = r.id := by
  unfold childRows
  rw [List.mem_filter, Bool.and_eq_true, isChildOf_iff, decide_eq_true_eq]
  constructor
  · rintro ⟨h1, ⟨rel, hrel, hp, hc, _⟩, h2⟩; exact ⟨h1, h2, rel, hrel, hp, hc⟩
  · rintro ⟨h1, h2, rel, hrel, hp, hc⟩; exact ⟨h1, ⟨rel, hrel, hp, hc, trivial⟩, h2⟩

/-! ## `children_bp` with `merge=True` -/

/-! ### specification: counting covered positions -/

/-- `p` lies in one of the intervals (Boolean form of `C16.covered`) -/
def coveredB (l : List (Int × Int)) (p : Int) : Bool := l.any (fun a => decide (a.1 ≤ p) && decide (p ≤ a.2))

/-- the number of positions of `[lo, lo + n)` that lie in at least one interval of `l` -/
def countCovered (l : List (Int × Int)) (lo : Int) : Nat → Int
  | 0 => 0
  | n + 1 => countCovered l lo n + (if coveredB l (lo + n) then 1 else 0)

/-- the interval of a stored row -/
def rowIv (r : Row) : Int × Int := (r.start.getD 0, r.stop.getD 0)

theorem coveredB_iff (l : List (Int × Int)) (p : Int) : coveredB l p = true ↔ covered l p := by
  unfold coveredB covered
  rw [List.any_eq_true]
  constructor
  · rintro ⟨a, ha, h⟩; exact ⟨a, ha, by simpa using h⟩
  · rintro ⟨a, ha, h⟩; exact ⟨a, ha, by simpa using h⟩

theorem countCovered_congr (l l' : List (Int × Int)) (lo : Int) (n : Nat)
    (h : ∀ p, covered l p ↔ covered l' p) : countCovered l lo n = countCovered l' lo n := by
  induction n with
  | zero => rfl
  | succ n ih =>
    have : coveredB l (lo + n) = coveredB l' (lo + n) := by
      rw [Bool.eq_iff_iff, coveredB_iff, coveredB_iff]; exact h _
    simp only [countCovered, ih, this]

/-- one interval to the right of `lo` -/
theorem countCovered_single (a : Int × Int) (lo : Int) (n : Nat) (hlo : lo ≤ a.1) (hval : a.1 ≤ a.2) :
    countCovered [a] lo n =
      if lo + n ≤ a.1 then 0 else if lo + n - 1 ≤ a.2 then lo + n - a.1 else a.2 - a.1 + 1 := by
  induction n with
  | zero =>
    have : lo + ((0 : Nat) : Int) ≤ a.1 := by omega
    simp only [countCovered, if_pos this]
  | succ n ih =>
    simp only [countCovered, ih, coveredB, List.any_cons, List.any_nil, Bool.or_false]
    by_cases h1 : a.1 ≤ lo + n <;> by_cases h2 : lo + n ≤ a.2 <;>
      simp only [h1, h2, decide_true, decide_false, Bool.and_true, Bool.and_false, if_true,
        Bool.false_eq_true, if_false] <;>
      (repeat' split) <;> omega

/-- intervals that share no position count separately -/
theorem countCovered_cons_disjoint (x : Int × Int) (l : List (Int × Int)) (lo : Int) (n : Nat)
    (hd : ∀ p, ¬ (covered [x] p ∧ covered l p)) :
    countCovered (x :: l) lo n = countCovered [x] lo n + countCovered l lo n := by
  induction n with
  | zero => rfl
  | succ n ih =>
    simp only [countCovered, ih]
    have hcons : coveredB (x :: l) (lo + n) = (coveredB [x] (lo + n) || coveredB l (lo + n)) := by
      simp [coveredB]
    rw [hcons]
    have hnot := hd (lo + n)
    rw [← coveredB_iff, ← coveredB_iff] at hnot
    cases h1 : coveredB [x] (lo + n) <;> cases h2 : coveredB l (lo + n) <;> simp_all <;> omega

/-- **separated proper intervals inside the window cover the sum of their lengths** -/
theorem countCovered_separated : ∀ (exts : List (Int × Int)) (lo : Int) (n : Nat),
    (∀ a ∈ exts, a.1 ≤ a.2) → exts.Pairwise (fun a b => a.2 + 1 < b.1) →
    (∀ a ∈ exts, lo ≤ a.1 ∧ a.2 < lo + n) →
    countCovered exts lo n = (exts.map (fun a => a.2 - a.1 + 1)).sum := by
  intro exts
  induction exts with
  | nil =>
    intro lo n _ _ _
    induction n with
    | zero => rfl
    | succ n ih => simp [countCovered, ih, coveredB]
  | cons x l ih =>
    intro lo n hval hsep hin
    rw [List.pairwise_cons] at hsep
    have hx := hin x List.mem_cons_self
    have hvx := hval x List.mem_cons_self
    rw [countCovered_cons_disjoint x l lo n, ih lo n (fun a ha => hval a (List.mem_cons_of_mem _ ha)) hsep.2
      (fun a ha => hin a (List.mem_cons_of_mem _ ha)), countCovered_single x lo n hx.1 hvx,
      List.map_cons, List.sum_cons]
    · have h1 : ¬ (lo + n ≤ x.1) := by omega
      rw [if_neg h1]
      by_cases h3 : lo + (n : Int) - 1 ≤ x.2
      · rw [if_pos h3]; omega
      · rw [if_neg h3]
    · rintro p ⟨⟨a, ha, h1, h2⟩, ⟨b, hb, h3, h4⟩⟩
      rw [List.mem_singleton] at ha; subst ha
      have := hsep.1 b hb
      have := hval b (List.mem_cons_of_mem _ hb)
      omega

theorem covered_perm {l l' : List (Int × Int)} (h : l.Perm l') (p : Int) : covered l p ↔ covered l' p := by
  unfold covered
  constructor
  · rintro ⟨a, ha, hh⟩; exact ⟨a, h.subset ha, hh⟩
  · rintro ⟨a, ha, hh⟩; exact ⟨a, h.symm.subset ha, hh⟩

/-! ### `merge` does not fail on one class under the default criteria -/

theorem absorb_total (m x : Feature) (hm : PosLen m) (hx : PosLen x) : ∃ r, absorb m x = .ok r := by
  obtain ⟨s, e, hs, he, _⟩ := hm
  obtain ⟨xs, xe, hxs, hxe, _⟩ := hx
  unfold absorb ltI
  simp only [hs, he, hxs, hxe]
  exact ⟨_, rfl⟩

theorem allCrit_default_total (sq sd ft : Str) (a x : Feature) (k : List Feature)
    (ha : InClass sq sd ft a) (hx : InClass sq sd ft x) : ∃ b, allCrit defaultCriteria a x k = .ok b := by
  obtain ⟨s, e, hs, he, _⟩ := ha.pos
  obtain ⟨xs, xe, hxs, _, _⟩ := hx.pos
  exact ⟨_, defaultCriteria_eval a x k s e xs (by rw [hx.seqid, ha.seqid]) (by rw [ha.strand, hx.strand])
    (by rw [ha.ftype, hx.ftype]) hs he hxs⟩

theorem startRun_total (cfg : Merge.DbCfg) (hfix : cfg.d9fixed = true) (c : MObj) (lastId : Option Str)
    (ai : Dict Nat) :
    ∃ c' l' a', startRun cfg c lastId ai = .ok (c', l', a') ∧ c'.f.start = c.f.start ∧ c'.f.stop = c.f.stop := by
  unfold startRun copyForMerge
  simp only [hfix, Bool.not_true, Bool.and_false, Bool.false_eq_true, if_false]
  exact ⟨_, _, _, rfl, rfl, rfl⟩

theorem stepMain_total (cfg : Merge.DbCfg) (hfix : cfg.d9fixed = true) (sq sd ft : Str) (c : MObj)
    (kids : List Feature) (lastId : Option Str) (ai : Dict Nat) (x : MObj)
    (hc : InClass sq sd ft c.f) (hx : InClass sq sd ft x.f) :
    ∃ r, stepMain cfg defaultCriteria c kids lastId ai x = .ok r := by
  obtain ⟨b, hb⟩ := allCrit_default_total sq sd ft c.f x.f kids hc hx
  unfold stepMain
  rw [hb]
  cases b with
  | false => exact ⟨_, rfl⟩
  | true =>
    simp only
    by_cases hk : kids.length = 1
    · rw [if_pos hk]
      obtain ⟨c', l', a', hsr, h1, h2⟩ := startRun_total cfg hfix c lastId ai
      rw [hsr]
      simp only
      have hpl : PosLen c'.f := by
        obtain ⟨s, e, hs, he, hle⟩ := hc.pos
        exact ⟨s, e, by rw [h1, hs], by rw [h2, he], hle⟩
      obtain ⟨r, hr⟩ := absorb_total c'.f x.f hpl hx.pos
      rw [hr]
      exact ⟨_, rfl⟩
    · rw [if_neg hk]
      simp only
      obtain ⟨r, hr⟩ := absorb_total c.f x.f hc.pos hx.pos
      rw [hr]
      exact ⟨_, rfl⟩

theorem step_total (cfg : Merge.DbCfg) (hfix : cfg.d9fixed = true) (sq sd ft : Str) (st : St) (x : MObj)
    (hI : ∀ c, st.cur = some c → InClass sq sd ft c.f) (hx : InClass sq sd ft x.f) :
    ∃ r, step cfg defaultCriteria st x = .ok r := by
  unfold step
  cases hcur : st.cur with
  | none =>
    simp only
    obtain ⟨b, hb⟩ := allCrit_default_total sq sd ft x.f x.f st.kids hx hx
    rw [hb]
    cases b <;> exact ⟨_, rfl⟩
  | some c =>
    simp only
    have hc := hI c hcur
    by_cases hk : st.kids.isEmpty = true
    · rw [if_pos hk]
      obtain ⟨b, hb⟩ := allCrit_default_total sq sd ft c.f c.f st.kids hc hc
      rw [hb]
      cases b with
      | false => exact ⟨_, rfl⟩
      | true => exact stepMain_total cfg hfix sq sd ft c [c.f] st.lastId st.autoinc x hc hx
    · rw [if_neg hk]
      exact stepMain_total cfg hfix sq sd ft c st.kids st.lastId st.autoinc x hc hx

theorem loop_total (cfg : Merge.DbCfg) (hfix : cfg.d9fixed = true) (sq sd ft : Str) (hsq : ',' ∉ sq) :
    ∀ (xs : List MObj) (st : St), (∀ c, st.cur = some c → InClass sq sd ft c.f) →
    (∀ x ∈ xs, InClass sq sd ft x.f) →
    ∃ st' ys, loop cfg defaultCriteria st xs = .ok (st', ys) ∧ ∀ c, st'.cur = some c → InClass sq sd ft c.f := by
  intro xs
  induction xs with
  | nil => intro st hI _; exact ⟨st, [], rfl, hI⟩
  | cons x xs ih =>
    intro st hI hxs
    obtain ⟨⟨st1, ys1⟩, hs⟩ := step_total cfg hfix sq sd ft st x hI (hxs x List.mem_cons_self)
    obtain ⟨hI1, _⟩ := step_union cfg sq sd ft hsq hI (hxs x List.mem_cons_self) hs
    obtain ⟨st', ys, hl, hI'⟩ := ih st1 hI1 (fun y hy => hxs y (List.mem_cons_of_mem _ hy))
    exact ⟨st', ys1 ++ ys, by simp only [loop, hs, hl], hI'⟩

/-- on inputs of one class (proper intervals), with the repaired copy step, `merge` under the default
criteria never raises -/
theorem merge_total (cfg : Merge.DbCfg) (hfix : cfg.d9fixed = true) (sq sd ft : Str) (hsq : ',' ∉ sq)
    (ai : Dict Nat) (xs : List MObj) (hcls : ∀ x ∈ xs, InClass sq sd ft x.f) :
    ∃ outs ai', merge cfg defaultCriteria ai xs = .ok (outs, ai') := by
  obtain ⟨st, ys, hl, hI⟩ := loop_total cfg hfix sq sd ft hsq xs { autoinc := ai } (fun c hc => by cases hc) hcls
  unfold merge
  rw [hl]
  simp only
  unfold finish
  cases hcur : st.cur with
  | none => exact ⟨_, _, rfl⟩
  | some c =>
    simp only
    obtain ⟨n, hn, hpos⟩ := len_pos_of_posLen (hI c hcur).pos
    rw [hn]
    simp only
    have h1 : ¬ n < 0 := by omega
    have h2 : ¬ n = 0 := by omega
    rw [if_neg h1, if_neg h2]
    exact ⟨_, _, rfl⟩

/-! ### the theorem -/

theorem childrenBp_merge (s : Session) (id t : Str) (cs : List Crit) :
    childrenBp s id t true cs =
      (merge (mergeCfg s) cs s.auto (((orderedKids s id none t).map s.returner).map (fun f => { f := f }))).bind
        (fun p => (p.1.mapM (fun o => Feature.len o.f)).map (fun lens => (isum lens, { s with auto := p.2 }))) := by
  unfold childrenBp orderedKids
  simp only [if_true, bind, Except.bind, pure, Except.pure, Except.map, isum]

/-- the children are stored as one class of proper intervals -/
def OneClass (s : Session) (id t sq sd : Str) : Prop :=
  ∀ r ∈ childRows s id t, r.seqid = sq ∧ r.strand = sd ∧ ∃ a b, r.start = some a ∧ r.stop = some b ∧ a ≤ b

/-- **`children_bp_union`**: with `merge=True` and the default criteria, for children of one class (one
seqid without a comma, one strand, the requested featuretype, integer coordinates `start ≤ end`),
`children_bp` returns the number of positions covered by at least one child — counted over any window
`[lo, lo + n)` that contains all children — and only the in-memory counters of the session change. -/
theorem children_bp_union (s : Session) (id t sq sd : Str) (hsq : ',' ∉ sq) (hcls : OneClass s id t sq sd)
    (lo : Int) (n : Nat) (hwin : ∀ r ∈ childRows s id t, lo ≤ (rowIv r).1 ∧ (rowIv r).2 < lo + n) :
    ∃ ai', childrenBp s id t true defaultCriteria =
      .ok (countCovered ((childRows s id t).map rowIv) lo n, { s with auto := ai' }) := by
  rw [childrenBp_merge]
  -- the inputs of `merge`
  have hmem : ∀ r ∈ orderedKids s id none t, r ∈ childRows s id t := fun r hr =>
    List.mem_filter.2 ((mem_orderedKids s id none t r).1 hr)
  have hclass : ∀ x ∈ ((orderedKids s id none t).map s.returner).map (fun f => ({ f := f } : MObj)),
      InClass sq sd t x.f := by
    intro x hx
    rw [List.map_map] at hx
    obtain ⟨r, hr, rfl⟩ := List.mem_map.1 hx
    have hrc := hmem r hr
    obtain ⟨h1, h2, a, b, ha, hb, hab⟩ := hcls r hrc
    have hty : r.ftype = t := by
      have := (List.mem_filter.1 hrc).2
      simp only [Bool.and_eq_true, decide_eq_true_eq] at this; exact this.2
    exact ⟨h1, h2, hty, a, b, ha, hb, hab⟩
  have hivs : (((orderedKids s id none t).map s.returner).map (fun f => ({ f := f } : MObj))).map
      (fun x => ivD x.f) = (orderedKids s id none t).map rowIv := by
    rw [List.map_map, List.map_map]
    apply List.map_congr_left
    intro r hr
    obtain ⟨_, _, a, b, ha, hb, _⟩ := hcls r (hmem r hr)
    simp [ivD, ivOf, Session.returner, Row.toFeature, rowIv, ha, hb]
  have hsort : ((((orderedKids s id none t).map s.returner).map (fun f => ({ f := f } : MObj))).map
      (fun x => ivD x.f)).Pairwise (fun a b => a.1 ≤ b.1) := by
    rw [hivs]
    refine List.Pairwise.map _ ?_ (List.Pairwise.and_mem.1 (orderedKids_sorted s id none t))
    intro r1 r2 ⟨h1, h2, h12⟩
    obtain ⟨_, _, a1, b1, ha1, _, _⟩ := hcls r1 (hmem r1 h1)
    obtain ⟨_, _, a2, b2, ha2, _, _⟩ := hcls r2 (hmem r2 h2)
    simp only [rowIv, ha1, ha2, Option.getD_some]
    exact (startLe_some ha1 ha2).1 h12
  obtain ⟨outs, ai', hm⟩ := merge_total (mergeCfg s) rfl sq sd t hsq s.auto _ hclass
  refine ⟨ai', ?_⟩
  rw [hm]
  simp only [Except.bind]
  obtain ⟨exts, hmap, hval, hsep, hcov⟩ := merge_union (mergeCfg s) sq sd t hsq s.auto _ outs ai' hclass hsort hm
  rw [hivs] at hcov
  -- lengths of the outputs
  have hlens : outs.mapM (fun o => Feature.len o.f) = .ok (exts.map (fun a => a.2 - a.1 + 1)) := by
    have key : ∀ (outs : List MObj) (exts : List (Int × Int)), outs.map (fun o => ivOf o.f) = exts.map some →
        outs.mapM (fun o => Feature.len o.f) = .ok (exts.map (fun a => a.2 - a.1 + 1)) := by
      intro outs
      induction outs with
      | nil =>
        intro exts h
        cases exts with
        | nil => rfl
        | cons _ _ => cases h
      | cons o outs ih =>
        intro exts h
        cases exts with
        | nil => cases h
        | cons a exts =>
          rw [List.map_cons, List.map_cons] at h
          injection h with h1 h2
          have hlen : Feature.len o.f = .ok (a.2 - a.1 + 1) := by
            unfold ivOf at h1
            unfold Feature.len
            cases hs : o.f.start <;> cases he : o.f.stop <;> rw [hs, he] at h1 <;> simp at h1
            rw [← h1]
          rw [List.mapM_cons, hlen, ih exts h2]
          rfl
    exact key outs exts hmap
  rw [hlens]
  simp only [Except.map]
  -- the window contains the merged extents
  have hin : ∀ a ∈ exts, lo ≤ a.1 ∧ a.2 < lo + n := by
    intro a ha
    obtain ⟨hall, _, _⟩ := maximal_runs exts _ hval hsep hcov a ha
    have hva := hval a ha
    obtain ⟨b1, hb1, h11, h12⟩ := hall a.1 (Int.le_refl _) hva
    obtain ⟨b2, hb2, h21, h22⟩ := hall a.2 hva (Int.le_refl _)
    obtain ⟨r1, hr1, rfl⟩ := List.mem_map.1 hb1
    obtain ⟨r2, hr2, rfl⟩ := List.mem_map.1 hb2
    have w1 := hwin r1 (hmem r1 hr1)
    have w2 := hwin r2 (hmem r2 hr2)
    omega
  have hcount : countCovered ((childRows s id t).map rowIv) lo n = isum (exts.map (fun a => a.2 - a.1 + 1)) := by
    rw [isum_eq_sum, ← countCovered_separated exts lo n hval hsep hin]
    apply countCovered_congr
    intro p
    rw [hcov p]
    exact covered_perm (((orderedKids_perm s id none t).map rowIv).symm) p
  rw [hcount]

/-! ## `merge_all` -/

/-! ### specification -/

/-- all stored rows, `ORDER BY seqid, featuretype, strand, start` -/
def sortedRows (s : Session) : List Row := runQuery s { orderBy := [.seqid, .featuretype, .strand, .start] }

/-- what `merge_all` hands to `merge`: fresh Feature objects of those rows -/
def mergeInput (s : Session) : List MObj := (sortedRows s).map (fun r => { f := s.returner r })

/-- a merged (multi-member) output of `merge` -/
def isMulti (o : MObj) : Bool := match o.children with | some (_ :: _) => true | _ => false

/-- the members of a merged output (none for a single) -/
def kidsOf (o : MObj) : List Feature := match o.children with | some (k :: ks) => k :: ks | _ => []

/-- the ids of the members -/
def kidIds (o : MObj) : List Str := (kidsOf o).filterMap (·.id)

/-- the `bin` column `astuple()` recomputes from the coordinates -/
def binCol (start stop : Option Int) : Option Int :=
  match Feature.calcBin start stop with | some (.int i) => some i | _ => none

/-- the table row of a feature that has an id (`Feature.astuple()`) -/
def toRow (f : Feature) : Row :=
  { id := f.id.getD [], seqid := f.seqid, source := f.source, ftype := f.ftype, start := f.start, stop := f.stop,
    score := f.score, strand := f.strand, frame := f.frame, attrs := f.attrs, extra := f.extra,
    bin := binCol f.start f.stop }

/-- the `ID` attribute of the merged feature: what `assign_child` writes into `Parent` -/
def pidOf (o : MObj) : List Str := (Dict.get? o.f.attrs "ID".toList).getD []

/-- a member row after `assign_child`: `Parent` set, all columns rewritten (`bin` recomputed) -/
def reparent (pid : List Str) (r : Row) : Row :=
  { r with attrs := Dict.set r.attrs "Parent".toList pid, bin := binCol r.start r.stop }

/-- every stored row after `merge_all(exclude_components=False)`: a member of a merged output gets that
output's `ID` as `Parent`, every other row is untouched -/
def reparentAll (ms : List MObj) (r : Row) : Row :=
  match ms.find? (fun o => (kidIds o).contains r.id) with
  | some o => reparent (pidOf o) r
  | none => r

/-- the relations `merge_all(exclude_components=False)` adds -/
def newRelations (ms : List MObj) : List Rel :=
  ms.flatMap (fun o => (kidIds o).map (fun c => ⟨o.f.id.getD [], c, 1⟩))

/-! ### the model's fold, step by step -/

/-- the model's inner step (`exclude_components=False`): relate one child -/
def iStep (mid : Str) (o : MObj) (s : Session) (child : Feature) : Py Session := do
  let cid ← match child.id with | some c => pure c | none => throw PyErr.other
  let db ← s.db.insertRel ⟨mid, cid, 1⟩
  let pid ← match o.f.attrs.get? "ID".toList with | some v => pure v | none => throw PyErr.key
  let child := { child with attrs := Dict.set child.attrs "Parent".toList pid }
  let crow ← Row.ofFeature child
  pure { s with db := db.replaceRow cid crow }

/-- the model's per-output step -/
def mStep (exclude : Bool) (acc : List Feature × Session) (o : MObj) : Py (List Feature × Session) := do
  let (res, s) := acc
  match o.children with
  | some (k :: ks) =>
    let row ← Row.ofFeature o.f
    let db ← s.db.insert row
    let s := { s with db := db }
    let mid := row.id
    if exclude then
      pure (res ++ [o.f], delete s ((k :: ks).filterMap (·.id)))
    else
      let s ← (k :: ks).foldlM (iStep mid o) s
      pure (res ++ [o.f], s)
  | _ => pure (res, s)

theorem mergeAll_eq (s : Session) (cs : List Crit) (exclude : Bool) :
    mergeAll s cs exclude =
      (merge (mergeCfg s) cs s.auto (mergeInput s)).bind (fun p =>
        p.1.foldlM (mStep exclude) ([], { s with auto := p.2 })) := by
  unfold mergeAll mergeInput sortedRows
  simp only [bind, Except.bind]
  cases merge (mergeCfg s) cs s.auto
    (List.map (fun r => ({ f := s.returner r } : MObj))
      (runQuery s { orderBy := [.seqid, .featuretype, .strand, .start] })) with
  | error e => rfl
  | ok p => rfl

theorem ofFeature_toRow (f : Feature) (h : f.id.isSome) : Row.ofFeature f = .ok (toRow f) := by
  obtain ⟨id, hid⟩ := Option.isSome_iff_exists.1 h
  unfold Row.ofFeature toRow binCol
  rw [hid]
  simp only
  split
  · rename_i bs hb
    exact absurd hb (GffProofs.C02.calcBin_ne_set _ _ _)
  · rfl

/-- the (id, new row) pair of a member -/
def kidPair (pid : List Str) (c : Feature) : Str × Row :=
  (c.id.getD [], toRow { c with attrs := Dict.set c.attrs "Parent".toList pid })

theorem iStep_eq (mid : Str) (o : MObj) (pid : List Str) (hpid : Dict.get? o.f.attrs "ID".toList = some pid)
    (s : Session) (c : Feature) (hc : c.id.isSome) :
    iStep mid o s c = (relStep mid s.db (kidPair pid c)).map (fun db => { s with db := db }) := by
  obtain ⟨cid, hcid⟩ := Option.isSome_iff_exists.1 hc
  have hrow : Row.ofFeature { c with attrs := Dict.set c.attrs "Parent".toList pid } =
      .ok (toRow { c with attrs := Dict.set c.attrs "Parent".toList pid }) := ofFeature_toRow _ hc
  unfold iStep relStep kidPair
  simp only [hcid] at hrow
  simp only [hcid, hpid, bind, Except.bind, pure, Except.pure, Option.getD_some]
  cases s.db.insertRel ⟨mid, cid, 1⟩ with
  | error e => rfl
  | ok db => simp only [hrow, Except.map]

theorem iFold_eq (mid : Str) (o : MObj) (pid : List Str) (hpid : Dict.get? o.f.attrs "ID".toList = some pid) :
    ∀ (cs : List Feature) (s : Session), (∀ c ∈ cs, c.id.isSome) →
      cs.foldlM (iStep mid o) s =
        ((cs.map (kidPair pid)).foldlM (relStep mid) s.db).map (fun db => { s with db := db }) := by
  intro cs
  induction cs with
  | nil => intro s _; rfl
  | cons c cs ih =>
    intro s hc
    rw [List.foldlM_cons, List.map_cons, List.foldlM_cons, iStep_eq mid o pid hpid s c (hc c List.mem_cons_self)]
    cases relStep mid s.db (kidPair pid c) with
    | error e => rfl
    | ok db =>
      simp only [Except.map, bind, Except.bind]
      rw [ih { s with db := db } (fun c' hc' => hc c' (List.mem_cons_of_mem _ hc'))]
      simp only [Except.map]

theorem mStep_single (exclude : Bool) (acc : List Feature × Session) (o : MObj) (h : isMulti o = false) :
    mStep exclude acc o = .ok acc := by
  obtain ⟨res, s⟩ := acc
  unfold mStep
  unfold isMulti at h
  cases hch : o.children with
  | none => rfl
  | some l =>
    cases l with
    | nil => rfl
    | cons k ks => rw [hch] at h; cases h

theorem kidsOf_of_children {o : MObj} {k : Feature} {ks : List Feature} (h : o.children = some (k :: ks)) :
    kidsOf o = k :: ks := by
  unfold kidsOf; rw [h]

theorem mStep_excl (res : List Feature) (s : Session) (o : MObj) (hm : isMulti o = true) (hid : o.f.id.isSome) :
    mStep true (res, s) o =
      (exclStep s.db (toRow o.f, kidIds o)).map (fun db => (res ++ [o.f], { s with db := db })) := by
  unfold isMulti at hm
  cases hch : o.children with
  | none => rw [hch] at hm; cases hm
  | some l =>
    cases l with
    | nil => rw [hch] at hm; cases hm
    | cons k ks =>
      unfold mStep exclStep kidIds
      rw [kidsOf_of_children hch]
      simp only [hch, ofFeature_toRow o.f hid, bind, Except.bind, pure, Except.pure, if_true]
      cases s.db.insert (toRow o.f) with
      | error e => rfl
      | ok db => rfl

theorem mStep_rela (res : List Feature) (s : Session) (o : MObj) (hm : isMulti o = true) (hid : o.f.id.isSome)
    (pid : List Str) (hpid : Dict.get? o.f.attrs "ID".toList = some pid) (hk : ∀ c ∈ kidsOf o, c.id.isSome) :
    mStep false (res, s) o =
      (relaStep s.db (toRow o.f, (kidsOf o).map (kidPair pid))).map
        (fun db => (res ++ [o.f], { s with db := db })) := by
  unfold isMulti at hm
  cases hch : o.children with
  | none => rw [hch] at hm; cases hm
  | some l =>
    cases l with
    | nil => rw [hch] at hm; cases hm
    | cons k ks =>
      rw [kidsOf_of_children hch] at hk ⊢
      unfold mStep relaStep
      simp only [hch, ofFeature_toRow o.f hid, bind, Except.bind, pure, Except.pure, Bool.false_eq_true, if_false]
      cases s.db.insert (toRow o.f) with
      | error e => rfl
      | ok db =>
        simp only
        rw [iFold_eq (toRow o.f).id o pid hpid (k :: ks) { s with db := db } hk]
        cases List.foldlM (relStep (toRow o.f).id) db (List.map (kidPair pid) (k :: ks)) with
        | error e => rfl
        | ok db' => rfl

/-- what is needed of a merged output: it has an id and an `ID`, its members have ids -/
def Good (o : MObj) : Prop :=
  isMulti o = true → o.f.id.isSome ∧ (Dict.get? o.f.attrs "ID".toList).isSome ∧ ∀ c ∈ kidsOf o, c.id.isSome

def exclRec (o : MObj) : Row × List Str := (toRow o.f, kidIds o)
def relaRec (o : MObj) : Row × List (Str × Row) := (toRow o.f, (kidsOf o).map (kidPair (pidOf o)))

theorem mFold_excl : ∀ (outs : List MObj) (res : List Feature) (s : Session), (∀ o ∈ outs, Good o) →
    outs.foldlM (mStep true) (res, s) =
      (((outs.filter isMulti).map exclRec).foldlM exclStep s.db).map
        (fun db => (res ++ (outs.filter isMulti).map (·.f), { s with db := db })) := by
  intro outs
  induction outs with
  | nil => intro res s _; simp [Except.map, pure, Except.pure]
  | cons o outs ih =>
    intro res s hg
    rw [List.foldlM_cons]
    have hg' : ∀ o ∈ outs, Good o := fun o ho => hg o (List.mem_cons_of_mem _ ho)
    cases hm : isMulti o with
    | false =>
      rw [mStep_single true _ o hm]
      simp only [bind, Except.bind, List.filter_cons, hm, Bool.false_eq_true, if_false]
      exact ih res s hg'
    | true =>
      obtain ⟨h1, _, _⟩ := hg o List.mem_cons_self hm
      rw [mStep_excl res s o hm h1]
      simp only [List.filter_cons, hm, if_true, List.map_cons, List.foldlM_cons]
      show _ = Except.map _ (exclStep s.db (toRow o.f, kidIds o) >>= _)
      cases exclStep s.db (toRow o.f, kidIds o) with
      | error e => rfl
      | ok db =>
        simp only [Except.map, bind, Except.bind]
        rw [ih (res ++ [o.f]) { s with db := db } hg']
        simp only [List.append_assoc, List.singleton_append]
        rfl

theorem mFold_rela : ∀ (outs : List MObj) (res : List Feature) (s : Session), (∀ o ∈ outs, Good o) →
    outs.foldlM (mStep false) (res, s) =
      (((outs.filter isMulti).map relaRec).foldlM relaStep s.db).map
        (fun db => (res ++ (outs.filter isMulti).map (·.f), { s with db := db })) := by
  intro outs
  induction outs with
  | nil => intro res s _; simp [Except.map, pure, Except.pure]
  | cons o outs ih =>
    intro res s hg
    rw [List.foldlM_cons]
    have hg' : ∀ o ∈ outs, Good o := fun o ho => hg o (List.mem_cons_of_mem _ ho)
    cases hm : isMulti o with
    | false =>
      rw [mStep_single false _ o hm]
      simp only [bind, Except.bind, List.filter_cons, hm, Bool.false_eq_true, if_false]
      exact ih res s hg'
    | true =>
      obtain ⟨h1, h2, h3⟩ := hg o List.mem_cons_self hm
      obtain ⟨pid, hpid⟩ := Option.isSome_iff_exists.1 h2
      have hpo : pidOf o = pid := by unfold pidOf; rw [hpid]; rfl
      rw [mStep_rela res s o hm h1 pid hpid h3]
      simp only [List.filter_cons, hm, if_true, List.map_cons, List.foldlM_cons]
      show _ = Except.map _ (relaStep s.db (relaRec o) >>= _)
      unfold relaRec
      rw [hpo]
      cases relaStep s.db (toRow o.f, (kidsOf o).map (kidPair pid)) with
      | error e => rfl
      | ok db =>
        simp only [Except.map, bind, Except.bind]
        rw [ih (res ++ [o.f]) { s with db := db } hg']
        simp only [List.append_assoc, List.singleton_append]
        rfl

/-! ### facts about the outputs of `merge` on the stored rows -/

theorem rowMatches_order (keys : List SortKey) (r : Row) : rowMatches { orderBy := keys } r = true := by
  simp [rowMatches]

/-- **the input of the merge**: every stored row exactly once, ordered by (seqid, featuretype, strand,
start) in sqlite's order -/
theorem sortedRows_spec (s : Session) :
    (sortedRows s).Perm s.db.features ∧
    ∃ l : List (Nat × Row), l.map (·.2) = sortedRows s ∧
      l.Pairwise (fun a b => rowLe [.seqid, .featuretype, .strand, .start] false a b = true) := by
  refine ⟨?_, C11.query_sorted s { orderBy := [.seqid, .featuretype, .strand, .start] }⟩
  have h := C11.query_perm_filter s { orderBy := [.seqid, .featuretype, .strand, .start] }
  rw [List.filter_eq_self.2 (fun r _ => rowMatches_order _ r)] at h
  exact h

theorem inj_of_nodup {α β : Type} (f : α → β) : ∀ (l : List α), (l.map f).Nodup →
    ∀ x ∈ l, ∀ y ∈ l, f x = f y → x = y := by
  intro l
  induction l with
  | nil => intro _ x hx; cases hx
  | cons a l ih =>
    intro hn x hx y hy hxy
    rw [List.map_cons, List.nodup_cons] at hn
    rcases List.mem_cons.1 hx with hx' | hx' <;> rcases List.mem_cons.1 hy with hy' | hy'
    · rw [hx', hy']
    · exact absurd (by rw [← hx', hxy]; exact List.mem_map_of_mem hy') hn.1
    · exact absurd (by rw [← hy', ← hxy]; exact List.mem_map_of_mem hx') hn.1
    · exact ih hn.2 x hx' y hy' hxy

theorem kidsOf_sublist_members (o : MObj) : (kidsOf o).Sublist o.members := by
  unfold kidsOf MObj.members
  cases o.children with
  | none => exact List.nil_sublist _
  | some l =>
    cases l with
    | nil => exact List.nil_sublist _
    | cons k ks => exact List.Sublist.refl _

theorem allKids_sublist (outs : List MObj) : ((outs.filter isMulti).flatMap kidsOf).Sublist (flat outs) := by
  unfold flat
  induction outs with
  | nil => exact List.Sublist.refl _
  | cons o outs ih =>
    rw [List.flatMap_cons, List.filter_cons]
    split
    · rw [List.flatMap_cons]
      exact List.Sublist.append (kidsOf_sublist_members o) ih
    · exact List.Sublist.trans ih (List.sublist_append_right _ _)

theorem flatMap_kidIds (ms : List MObj) : ms.flatMap kidIds = (ms.flatMap kidsOf).filterMap (·.id) := by
  induction ms with
  | nil => rfl
  | cons o ms ih => rw [List.flatMap_cons, List.flatMap_cons, List.filterMap_append, ih]; rfl

/-- the members of the merged outputs are Features of pairwise different stored rows -/
theorem kids_are_rows (s : Session) (cs : List Crit) (outs : List MObj) (ai : Dict Nat)
    (hm : merge (mergeCfg s) cs s.auto (mergeInput s) = .ok (outs, ai)) :
    ∃ rows : List Row, rows.Sublist (sortedRows s) ∧
      (outs.filter isMulti).flatMap kidsOf = rows.map s.returner := by
  obtain ⟨dropped, hflat, _⟩ := merge_partition_general (mergeCfg s) cs s.auto (mergeInput s) outs ai hm
  have h1 : ((outs.filter isMulti).flatMap kidsOf).Sublist ((mergeInput s).map (·.f)) := by
    rw [hflat]
    exact (allKids_sublist outs).trans (List.sublist_append_left _ _)
  have h2 : (mergeInput s).map (·.f) = (sortedRows s).map s.returner := by
    unfold mergeInput; rw [List.map_map]; rfl
  rw [h2] at h1
  obtain ⟨rows, hsub, heq⟩ := List.sublist_map_iff.1 h1
  exact ⟨rows, hsub, heq⟩

theorem returner_id (s : Session) (r : Row) : (s.returner r).id = some r.id := rfl

theorem filterMap_id_returner (s : Session) (rows : List Row) :
    (rows.map s.returner).filterMap (·.id) = rows.map (·.id) := by
  induction rows with
  | nil => rfl
  | cons r rows ih => rw [List.map_cons, List.filterMap_cons, returner_id]; simp only [List.map_cons, ih]

structure KidFacts (s : Session) (ms : List MObj) : Prop where
  row : ∀ o ∈ ms, ∀ c ∈ kidsOf o, ∃ r ∈ s.db.features, c = s.returner r
  nodup : (ms.flatMap kidIds).Nodup

theorem kidFacts (s : Session) (cs : List Crit) (outs : List MObj) (ai : Dict Nat)
    (hid : C04.IdsNodup s.db)
    (hm : merge (mergeCfg s) cs s.auto (mergeInput s) = .ok (outs, ai)) :
    KidFacts s (outs.filter isMulti) := by
  obtain ⟨rows, hsub, heq⟩ := kids_are_rows s cs outs ai hm
  have hperm := (sortedRows_spec s).1
  constructor
  · intro o ho c hc
    have : c ∈ (outs.filter isMulti).flatMap kidsOf := List.mem_flatMap.2 ⟨o, ho, hc⟩
    rw [heq] at this
    obtain ⟨r, hr, hre⟩ := List.mem_map.1 this
    exact ⟨r, hperm.subset (hsub.subset hr), hre.symm⟩
  · rw [flatMap_kidIds, heq, filterMap_id_returner]
    have : ((sortedRows s).map (·.id)).Nodup := (hperm.map _).nodup_iff.2 hid
    exact this.sublist (hsub.map _)

theorem good_outs (s : Session) (cs : List Crit) (outs : List MObj) (ai : Dict Nat)
    (hid : C04.IdsNodup s.db)
    (hm : merge (mergeCfg s) cs s.auto (mergeInput s) = .ok (outs, ai)) : ∀ o ∈ outs, Good o := by
  intro o ho hmulti
  have hkf := kidFacts s cs outs ai hid hm
  rcases merged_span (mergeCfg s) cs s.auto (mergeInput s) outs ai hm o ho with h0 | ⟨k0, k1, rest, n, hch, _, _, hoid, hattrs, _⟩
  · unfold isMulti at hmulti; rw [h0] at hmulti; cases hmulti
  · refine ⟨by rw [hoid]; rfl, by rw [hattrs]; rfl, ?_⟩
    intro c hc
    obtain ⟨r, _, hr⟩ := hkf.row o (List.mem_filter.2 ⟨ho, hmulti⟩) c hc
    rw [hr]; rfl

/-! ### from the abstract table surgery to the wording of the property -/

theorem kidIds_eq_map (s : Session) (o : MObj) (hk : ∀ c ∈ kidsOf o, ∃ r ∈ s.db.features, c = s.returner r) :
    (kidsOf o).map (fun c => c.id.getD []) = kidIds o := by
  unfold kidIds
  generalize kidsOf o = l at hk
  induction l with
  | nil => rfl
  | cons c l ih =>
    obtain ⟨r, _, hr⟩ := hk c List.mem_cons_self
    rw [List.map_cons, List.filterMap_cons, hr, returner_id]
    simp only [Option.getD_some]
    rw [ih (fun c' hc' => hk c' (List.mem_cons_of_mem _ hc'))]

theorem toRow_reparent (s : Session) (pid : List Str) (r : Row) :
    toRow { s.returner r with attrs := Dict.set (s.returner r).attrs "Parent".toList pid } = reparent pid r := rfl

theorem subst_reparent (s : Session) (hid : C04.IdsNodup s.db) : ∀ (ms : List MObj),
    (∀ o ∈ ms, ∀ c ∈ kidsOf o, ∃ r ∈ s.db.features, c = s.returner r) → ∀ r ∈ s.db.features,
    subst (ms.flatMap (fun o => (kidsOf o).map (kidPair (pidOf o)))) r = reparentAll ms r := by
  intro ms
  induction ms with
  | nil => intro _ r _; rfl
  | cons o ms ih =>
    intro hk r hr
    have hko := hk o List.mem_cons_self
    have ih' := ih (fun o' ho' => hk o' (List.mem_cons_of_mem _ ho')) r hr
    rw [List.flatMap_cons]
    unfold subst reparentAll at *
    rw [List.find?_append, List.find?_cons]
    by_cases hmem : r.id ∈ kidIds o
    · have hc : (kidIds o).contains r.id = true := List.contains_iff_mem.2 hmem
      rw [hc]
      simp only
      -- some pair of `o` matches, and every matching pair carries `reparent (pidOf o) r`
      have hex : ∃ p, ((kidsOf o).map (kidPair (pidOf o))).find? (fun p => decide (p.1 = r.id)) = some p := by
        rw [← Option.isSome_iff_exists, List.find?_isSome]
        unfold kidIds at hmem
        obtain ⟨c, hc1, hc2⟩ := List.mem_filterMap.1 hmem
        refine ⟨kidPair (pidOf o) c, List.mem_map_of_mem hc1, ?_⟩
        simp [kidPair, hc2]
      obtain ⟨p, hp⟩ := hex
      rw [hp]
      simp only [Option.some_or]
      have hp1 : p.1 = r.id := by simpa using List.find?_some hp
      obtain ⟨c, hc1, hc2⟩ := List.mem_map.1 (List.mem_of_find?_eq_some hp)
      obtain ⟨r', hr', hcr⟩ := hko c hc1
      have : r' = r := by
        apply inj_of_nodup (fun x : Row => x.id) s.db.features hid r' hr' r hr
        rw [← hp1, ← hc2, hcr]; rfl
      rw [← hc2, hcr, this]
      rfl
    · have hc : (kidIds o).contains r.id = false := by
        rw [Bool.eq_false_iff]; intro h; exact hmem (List.contains_iff_mem.1 h)
      rw [hc]
      have hnone : ((kidsOf o).map (kidPair (pidOf o))).find? (fun p => decide (p.1 = r.id)) = none := by
        rw [List.find?_eq_none]
        intro p hp hpe
        apply hmem
        obtain ⟨c, hc1, hc2⟩ := List.mem_map.1 hp
        obtain ⟨r', _, hcr⟩ := hko c hc1
        simp only [decide_eq_true_eq] at hpe
        unfold kidIds
        refine List.mem_filterMap.2 ⟨c, hc1, ?_⟩
        rw [← hpe, ← hc2, hcr]; rfl
      rw [hnone]
      simp only [Option.none_or]
      exact ih'

/-! ### the theorem -/

/-- **`merge_all_effect`.**  Let `merge_all(merge_criteria=cs, exclude_components=exclude)` succeed on a
database whose ids are distinct (C04's invariant), returning `res` and leaving the session `s'`.  Then,
with `outs` the outputs of `merge` (C16) on all stored rows ordered by (seqid, featuretype, strand, start)
and `ms` its merged (multi-member) outputs:
* `res` are the merged features, in order; the in-memory counters are those `merge` leaves; nothing else
  of the session changes, and in the database only the `features` and `relations` tables change
  (`autoincrements`, `meta`, `directives`, `duplicates` are untouched);
* for each merged output one row (its id, extent and columns: `toRow`) has been appended to `features`;
* `exclude = false`: every member row is kept, rewritten by `assign_child` (`Parent` := the merged `ID`),
  all other rows are untouched; `relations` gains exactly `(merged id, member id, 1)` per member;
* `exclude = true`: exactly the rows whose id is a member id are deleted, and exactly the relations
  that name a member id as parent or child. -/
theorem merge_all_effect (s : Session) (cs : List Crit) (exclude : Bool) (res : List Feature) (s' : Session)
    (hid : C04.IdsNodup s.db) (h : mergeAll s cs exclude = .ok (res, s')) :
    ∃ outs ai, merge (mergeCfg s) cs s.auto (mergeInput s) = .ok (outs, ai) ∧
      res = (outs.filter isMulti).map (·.f) ∧
      s' = { s with auto := ai, db := s'.db } ∧
      s'.db.autoinc = s.db.autoinc ∧ s'.db.metaRows = s.db.metaRows ∧
      s'.db.directives = s.db.directives ∧ s'.db.duplicates = s.db.duplicates ∧
      (exclude = false →
        s'.db.features = s.db.features.map (reparentAll (outs.filter isMulti)) ++
          (outs.filter isMulti).map (fun o => toRow o.f) ∧
        s'.db.relations = s.db.relations ++ newRelations (outs.filter isMulti)) ∧
      (exclude = true →
        s'.db.features =
          s.db.features.filter (fun r => !((outs.filter isMulti).flatMap kidIds).contains r.id) ++
          (outs.filter isMulti).map (fun o => toRow o.f) ∧
        s'.db.relations = s.db.relations.filter (fun rel =>
          !((outs.filter isMulti).flatMap kidIds).contains rel.parent &&
          !((outs.filter isMulti).flatMap kidIds).contains rel.child)) := by
  rw [mergeAll_eq] at h
  cases hm : merge (mergeCfg s) cs s.auto (mergeInput s) with
  | error e => rw [hm] at h; cases h
  | ok p =>
    obtain ⟨outs, ai⟩ := p
    rw [hm] at h
    simp only [Except.bind] at h
    refine ⟨outs, ai, rfl, ?_⟩
    have hgood := good_outs s cs outs ai hid hm
    have hkf := kidFacts s cs outs ai hid hm
    have hA : ∀ o ∈ outs.filter isMulti, ∀ x ∈ kidIds o, x ∈ s.db.features.map (·.id) := by
      intro o ho x hx
      unfold kidIds at hx
      obtain ⟨c, hc1, hc2⟩ := List.mem_filterMap.1 hx
      obtain ⟨r, hr, hcr⟩ := hkf.row o ho c hc1
      rw [hcr, returner_id] at hc2
      injection hc2 with hc2
      exact hc2 ▸ List.mem_map_of_mem hr
    cases exclude with
    | true =>
      rw [mFold_excl outs [] { s with auto := ai } hgood] at h
      cases hf : ((outs.filter isMulti).map exclRec).foldlM exclStep s.db with
      | error e => rw [show ({ s with auto := ai } : Session).db = s.db from rfl, hf] at h; cases h
      | ok db' =>
        rw [show ({ s with auto := ai } : Session).db = s.db from rfl, hf] at h
        simp only [Except.map, List.nil_append] at h
        injection h with h
        injection h with hres hs'
        have hL : ((outs.filter isMulti).map exclRec).flatMap (·.2) = (outs.filter isMulti).flatMap kidIds := by
          rw [List.flatMap_map]; rfl
        obtain ⟨e1, e2, e3, e4, e5, e6⟩ := exclFold_closed _ s.db db' hf
          (by
            intro r hr x hx
            obtain ⟨o, ho, rfl⟩ := List.mem_map.1 hr
            exact hA o ho x hx)
          (by rw [hL]; exact hkf.nodup)
        rw [hL] at e1 e2
        subst hs'
        refine ⟨hres.symm, rfl, e5, e3, e4, e6, fun hc => absurd hc (by decide), fun _ => ⟨?_, e2⟩⟩
        rw [e1, List.map_map]; rfl
    | false =>
      rw [mFold_rela outs [] { s with auto := ai } hgood] at h
      cases hf : ((outs.filter isMulti).map relaRec).foldlM relaStep s.db with
      | error e => rw [show ({ s with auto := ai } : Session).db = s.db from rfl, hf] at h; cases h
      | ok db' =>
        rw [show ({ s with auto := ai } : Session).db = s.db from rfl, hf] at h
        simp only [Except.map, List.nil_append] at h
        injection h with h
        injection h with hres hs'
        have hK : ((outs.filter isMulti).map relaRec).flatMap (·.2) =
            (outs.filter isMulti).flatMap (fun o => (kidsOf o).map (kidPair (pidOf o))) := by
          rw [List.flatMap_map]; rfl
        have hK1 : ((outs.filter isMulti).flatMap (fun o => (kidsOf o).map (kidPair (pidOf o)))).map (·.1) =
            (outs.filter isMulti).flatMap kidIds := by
          rw [List.map_flatMap]
          apply flatMap_congr'
          intro o ho
          rw [List.map_map, ← kidIds_eq_map s o (hkf.row o ho)]
          rfl
        obtain ⟨e1, e2, e3, e4, e5, e6⟩ := relaFold_closed _ s.db db' hf
          (by
            intro r hr k hk
            obtain ⟨o, ho, rfl⟩ := List.mem_map.1 hr
            obtain ⟨c, hc1, rfl⟩ := List.mem_map.1 hk
            apply hA o ho
            rw [← kidIds_eq_map s o (hkf.row o ho)]
            exact List.mem_map_of_mem (f := fun c => c.id.getD []) hc1)
          (by
            intro r hr k hk
            obtain ⟨o, _, rfl⟩ := List.mem_map.1 hr
            obtain ⟨c, _, rfl⟩ := List.mem_map.1 hk
            rfl)
          (by rw [hK, hK1]; exact hkf.nodup)
        rw [hK] at e1
        subst hs'
        refine ⟨hres.symm, rfl, e5, e3, e4, e6, fun _ => ⟨?_, ?_⟩, fun hc => absurd hc (by decide)⟩
        · rw [e1, List.map_map]
          congr 1
          apply List.map_congr_left
          intro r hr
          exact subst_reparent s hid _ hkf.row r hr
        · rw [e2]
          congr 1
          unfold newRelations
          rw [List.flatMap_map]
          apply flatMap_congr'
          intro o ho
          simp only [relaRec, List.map_map]
          rw [← kidIds_eq_map s o (hkf.row o ho), List.map_map]
          rfl

/-- rows that belong to no merged output are untouched -/
theorem reparentAll_untouched (ms : List MObj) (r : Row) (h : ∀ o ∈ ms, r.id ∉ kidIds o) :
    reparentAll ms r = r := by
  unfold reparentAll
  have : ms.find? (fun o => (kidIds o).contains r.id) = none := by
    rw [List.find?_eq_none]
    intro o ho hc
    exact h o ho (List.contains_iff_mem.1 hc)
  rw [this]

/-- a member row keeps every column except `attributes` (`Parent` := the merged `ID`) and the recomputed `bin` -/
theorem reparentAll_member (ms : List MObj) (r : Row) (h : ∃ o ∈ ms, r.id ∈ kidIds o) :
    ∃ o ∈ ms, r.id ∈ kidIds o ∧ reparentAll ms r = reparent (pidOf o) r := by
  unfold reparentAll
  cases hf : ms.find? (fun o => (kidIds o).contains r.id) with
  | none =>
    obtain ⟨o, ho, hr⟩ := h
    rw [List.find?_eq_none] at hf
    exact absurd (List.contains_iff_mem.2 hr) (hf o ho)
  | some o =>
    exact ⟨o, List.mem_of_find?_eq_some hf, List.contains_iff_mem.1 (List.find?_some (p := fun o => (kidIds o).contains r.id) hf), rfl⟩

/-- **what the stored merged rows are** (C16 `merged_span`): every merged output has two or more members,
its row carries the fresh id `<featuretype of the first member>_<n>`, spans min start … max end of the
members, and `assign_child` writes exactly that id into `Parent`. -/
theorem merge_all_new_rows (s : Session) (cs : List Crit) (outs : List MObj) (ai : Dict Nat)
    (hm : merge (mergeCfg s) cs s.auto (mergeInput s) = .ok (outs, ai)) :
    ∀ o ∈ outs.filter isMulti, ∃ k0 k1 rest n, kidsOf o = k0 :: k1 :: rest ∧ 0 < n ∧
      (toRow o.f).id = mkId k0.ftype n ∧ pidOf o = [mkId k0.ftype n] ∧ Covers o.f (kidsOf o) ∧
      (toRow o.f).start = o.f.start ∧ (toRow o.f).stop = o.f.stop ∧
      (toRow o.f).attrs = [("ID".toList, [mkId k0.ftype n])] := by
  intro o ho
  obtain ⟨ho1, ho2⟩ := List.mem_filter.1 ho
  rcases merged_span (mergeCfg s) cs s.auto (mergeInput s) outs ai hm o ho1 with h0 | ⟨k0, k1, rest, n, hch, hn, hcov, hoid, hattrs, _⟩
  · unfold isMulti at ho2; rw [h0] at ho2; cases ho2
  · have hk : kidsOf o = k0 :: k1 :: rest := kidsOf_of_children hch
    refine ⟨k0, k1, rest, n, hk, hn, ?_, ?_, by rw [hk]; exact hcov, rfl, rfl, hattrs⟩
    · show o.f.id.getD [] = _
      rw [hoid]; rfl
    · unfold pidOf; rw [hattrs]; rfl

/-! ### non-vacuity -/

section Examples
open GffProofs.DbExportAux.Ex

/-- `children_bp` of the gene over its six exons: 10 + 13 + 10 + 11 + 11 + 11 -/
example : childrenBp sess "g1".toList "exon".toList false [] = .ok (66, sess) := by
  rw [children_bp_sum sess _ _ _ (by unfold ChildCoords; decide +kernel)]
  have : ((childRows sess "g1".toList "exon".toList).map rowLen).sum = 66 := by decide +kernel
  rw [this]

theorem ex_childRows : childRows sess "t1".toList "exon".toList = [e4, e1, e3, e2] := by decide +kernel

theorem ex_oneClass : OneClass sess "t1".toList "exon".toList "chr1".toList "+".toList := by
  intro r hr
  rw [ex_childRows] at hr
  simp only [List.mem_cons, List.not_mem_nil, or_false] at hr
  rcases hr with rfl | rfl | rfl | rfl
  · exact ⟨rfl, rfl, 40, 50, rfl, rfl, by omega⟩
  · exact ⟨rfl, rfl, 1, 10, rfl, rfl, by omega⟩
  · exact ⟨rfl, rfl, 21, 30, rfl, rfl, by omega⟩
  · exact ⟨rfl, rfl, 8, 20, rfl, rfl, by omega⟩

/-- `children_bp(t1, 'exon', merge=True)`: 1..10 ∪ 8..20 ∪ 21..30 = 1..30 (overlapping, then adjacent),
40..50 apart: 30 + 11 positions -/
example : ∃ ai', childrenBp sess "t1".toList "exon".toList true defaultCriteria =
    .ok (41, { sess with auto := ai' }) := by
  obtain ⟨ai', h⟩ := children_bp_union sess "t1".toList "exon".toList "chr1".toList "+".toList (by decide)
    ex_oneClass 1 50 (by decide +kernel)
  have hc : countCovered ((childRows sess "t1".toList "exon".toList).map rowIv) 1 50 = 41 := by decide +kernel
  rw [hc] at h
  exact ⟨ai', h⟩

/-- a small table for `merge_all`: `a` 1..10 and `b` 5..20 overlap, `c` 30..40 is apart; `a` has a child `x` -/
def a := mkRow "a" "exon" 1 10 "+" []
def b := mkRow "b" "exon" 5 20 "+" []
def c := mkRow "c" "exon" 30 40 "+" []
def x := mkRow "x" "CDS" 2 3 "-" ["a"]

def sess2 : Session :=
  { db := { features := [b, x, c, a], relations := [rel "a" "x" 1] },
    auto := [], dialect := Dialect.default, directives := [] }

theorem sortedRows_eq_of_sorted (s : Session) (l : List (Nat × Row)) (hperm : l.Perm (indexed s.db.features))
    (hs : l.Pairwise (fun p q => rowLe [.seqid, .featuretype, .strand, .start] false p q = true))
    (hanti : ∀ p ∈ l, ∀ q ∈ l, rowLe [.seqid, .featuretype, .strand, .start] false p q = true →
      rowLe [.seqid, .featuretype, .strand, .start] false q p = true → p = q) :
    sortedRows s = l.map (·.2) := by
  unfold sortedRows runQuery
  congr 1
  have hfil : (indexed s.db.features).filter
      (fun p => rowMatches { orderBy := [.seqid, .featuretype, .strand, .start] } p.2) = indexed s.db.features :=
    List.filter_eq_self.2 (fun p _ => rowMatches_order _ p.2)
  rw [hfil]
  have hp : (order { orderBy := [.seqid, .featuretype, .strand, .start] } (indexed s.db.features)).Perm l :=
    (C11.order_perm _ _).trans hperm.symm
  exact List.Perm.eq_of_pairwise
    (le := fun p q => rowLe [.seqid, .featuretype, .strand, .start] false p q = true)
    (fun p q hp' hq => hanti p (hp.subset hp') q hq)
    (C11.order_sorted { orderBy := [.seqid, .featuretype, .strand, .start] } _ (by simp)) hs hp

theorem ex_sorted : sortedRows sess2 = [x, a, b, c] :=
  sortedRows_eq_of_sorted sess2 [(2, x), (4, a), (1, b), (3, c)] (by decide +kernel) (by decide +kernel)
    (by decide +kernel)

example : C04.IdsNodup sess2.db := by unfold C04.IdsNodup; decide +kernel

set_option synthInstance.maxSize 4000 in
/-- `merge_all()` on it succeeds: one merged feature `exon_1` spanning 1..20 is stored after the four
rows, `a` and `b` stay, and the relations gain `(exon_1, a, 1)`, `(exon_1, b, 1)` -/
example : (mergeAll sess2 defaultCriteria false).toOption.map (fun p =>
      (p.1.map (fun f => (f.id, f.start, f.stop)),
       p.2.db.features.map (fun r => (r.id, r.start, r.stop, Dict.get? r.attrs "Parent".toList)),
       p.2.db.relations)) =
    some ([(some "exon_1".toList, some 1, some 20)],
      [("b".toList, some 5, some 20, some ["exon_1".toList]), ("x".toList, some 2, some 3, some ["a".toList]),
       ("c".toList, some 30, some 40, none), ("a".toList, some 1, some 10, some ["exon_1".toList]),
       ("exon_1".toList, some 1, some 20, none)],
      [rel "a" "x" 1, rel "exon_1" "a" 1, rel "exon_1" "b" 1]) := by
  rw [mergeAll_eq]
  unfold mergeInput
  rw [ex_sorted]
  decide +kernel

set_option synthInstance.maxSize 4000 in
/-- `merge_all(exclude_components=True)`: `a`, `b` and the relation naming `a` are gone -/
example : (mergeAll sess2 defaultCriteria true).toOption.map (fun p =>
      (p.2.db.features.map (fun r => (r.id, r.start, r.stop)), p.2.db.relations, p.2.db.autoinc, p.2.auto)) =
    some ([("x".toList, some 2, some 3), ("c".toList, some 30, some 40), ("exon_1".toList, some 1, some 20)],
      [], [], [("exon".toList, 1)]) := by
  rw [mergeAll_eq]
  unfold mergeInput
  rw [ex_sorted]
  decide +kernel

end Examples

end GffProofs.C16Db
