/-
  C15 (database-backed clauses) — `FeatureDB.create_introns` and `FeatureDB.create_splice_sites`
  (`GffModel.DbExport`) on top of C15's exact description of `interfeatures`.

  * `transcripts_spec`, `transcripts_error_iff`, `transcripts_grandparent`, `transcripts_parent` — `child_gen()`:
    grandparent form = level-1 children of each feature of the grandparent type, in table order; parent
    form = the features of the parent type in table order; `ValueError` iff both truthy or both `None`.
  * `exonsOf_spec`, `exonsOf_eq_of_sorted`, `exonsOf_starts_sorted` — the exons of a transcript: a
    permutation of the stored level-1 children of the exon type, ordered by start.
  * `introns_exact`, `introns_error_iff`, `intronsOf_geometry`, `introns_geometry` — `create_introns` is the
    concatenation over the transcripts of the C15 gaps of their start-ordered exons; column form: one
    `(prev.end + 1, next.start - 1)` per consecutive pair on one seqid with a base between.
  * `splice_sites_exact` (`_of_exon_ids`), `splice_sites_count`, `siteOf_geometry`, `siteOf_id`,
    `siteOf_noid`, `spliceType_spec`, `splice_sites_nomerge`, `splice_sites_indexerror`, `introns_have_id`,
    `intron_attrs_nomerge`.
  History: before the repair of gffutils (`if "ID" in splice_site.attributes:`), `merge_attributes=False`
  made `create_splice_sites` raise `KeyError` on `attributes["ID"][0]` whenever a transcript had an intron;
  the model follows the repaired code and `splice_sites_nomerge` states the repaired behaviour.
  Core Lean only.
-/
import GffModel.DbExport
import GffProofs.Props.C15
import GffProofs.Lemmas.DbExportAux

namespace GffProofs.C15Db
open GffModel GffModel.Interface GffModel.DbExport GffModel.Inter GffProofs.C15 GffProofs.DbExportAux

/-! ### specification -/

/-- Python truthiness of an optional string argument (`None` and `''` are falsy) -/
def truthy : Option Str → Bool
  | some (_ :: _) => true
  | _ => false

/-- the stored features of type `t`, in table order -/
def featuresOfType (s : Session) (t : Str) : List Row := s.db.features.filter (fun r => decide (r.ftype = t))

/-- the stored features the `relations` table lists as level-1 children of `id`, in table order -/
def childrenL1 (s : Session) (id : Str) : List Row := s.db.features.filter (isChildOf s id (some 1))

/-- `child_gen()` of `create_introns` / `create_splice_sites` as the property describes it -/
def SpecTranscripts (s : Session) (gp pt : Option Str) : Py (List Row) :=
  if (truthy gp = true ∧ truthy pt = true) ∨ (gp = none ∧ pt = none) then .error .value
  else if truthy gp then .ok ((featuresOfType s (gp.getD [])).flatMap (fun g => childrenL1 s g.id))
  else if truthy pt then .ok (featuresOfType s (pt.getD []))
  else .ok []

/-- the exons of a transcript are stored with integer coordinates -/
def ExonCoords (s : Session) (exonType : Str) : Prop :=
  ∀ r ∈ s.db.features, r.ftype = exonType → r.start.isSome ∧ r.stop.isSome

/-- the interfeatures of a feature list, as C15 describes them (`interfeatures_exact`) -/
def gapsOf (cfg : Inter.DbCfg) (o : Opts) : List Feature → List Feature
  | [] => []
  | f :: fs => (triples f f fs).filterMap (gap3 cfg o)

/-- the options `create_introns` passes to `interfeatures` -/
def intronOpts (newType : Str) (mergeAttrs numeric : Bool) : Opts :=
  { newFtype := some newType, mergeAttrs := mergeAttrs, numericSort := numeric }

/-- the introns of transcript `t` -/
def intronsOf (s : Session) (exonType newType : Str) (mergeAttrs numeric : Bool) (t : Row) : List Feature :=
  gapsOf (interCfg s) (intronOpts newType mergeAttrs numeric) (exonsOf s t.id exonType)

/-- consecutive pairs -/
def consec {α : Type} (l : List α) : List (α × α) := l.zip l.tail

/-- six observable columns of a feature -/
structure Cols where
  seqid : Str
  start : Option Int
  stop : Option Int
  ftype : Str
  strand : Str
  source : Str
  deriving DecidableEq, Repr

/-- the gap between two stored exons `p`, `n` (previous, next): seqid, start, end, featuretype, strand,
source — present iff both are on one seqid with at least one base between them -/
def rowGap (newType : Str) (pn : Row × Row) : Option Cols :=
  match pn.1.stop, pn.2.start with
  | some pe, some ns =>
    if pn.2.seqid = pn.1.seqid ∧ pe + 1 < ns then
      some ⟨pn.1.seqid, some (pe + 1), some (ns - 1), newType,
            if pn.1.strand = pn.2.strand then pn.1.strand else ['.'], "gffutils_derived".toList⟩
    else none
  | _, _ => none

/-- the observable columns of a feature -/
def cols (g : Feature) : Cols := ⟨g.seqid, g.start, g.stop, g.ftype, g.strand, g.source⟩

/-- the splice site made from intron `g`: two bases at its left (`[start, start+1]`) or right
(`[end-1, end]`) end, typed `nt`; when the intron carries an `ID` its first value is prefixed with `nt_`,
an intron without `ID` (`merge_attributes=False`) keeps its attributes unchanged
(`if "ID" in splice_site.attributes:`).  An empty `ID` list is outside this specification (Python:
`IndexError`, see `splice_sites_indexerror`). -/
def siteOf (left : Bool) (nt : Str) (g : Feature) : Feature :=
  { g with
    ftype := nt,
    start := if left then g.start else g.stop.map (· - 1),
    stop := if left then g.start.map (· + 1) else g.stop,
    attrs := match Dict.get? g.attrs "ID".toList with
      | some (v :: _) => Dict.set g.attrs "ID".toList [nt ++ ['_'] ++ v]
      | _ => g.attrs }

/-- the sites of one side, transcript by transcript -/
def sitesOfSide (s : Session) (exonType newType : Str) (mergeAttrs numeric : Bool) (ts : List Row)
    (left : Bool) : List Feature :=
  ts.flatMap (fun t => (intronsOf s exonType newType mergeAttrs numeric t).map
    (siteOf left (spliceType left t.strand)))

/-! ### `transcripts` -/

theorem truthy_eq (o : Option Str) : truthy o = (match o with | some g => !g.isEmpty | none => false) := by
  cases o with
  | none => rfl
  | some g => cases g <;> rfl

/-- **`transcripts` meets its specification**: grandparent form — the level-1 children of each feature
of type `gp`, grandparents taken in table order and the children of each in table order; parent form —
the features of type `pt` in table order; `ValueError` iff both are given or both are `None`. -/
theorem transcripts_spec (s : Session) (gp pt : Option Str) :
    transcripts s gp pt = SpecTranscripts s gp pt := by
  rcases gp with _ | (_ | ⟨c, g⟩) <;> rcases pt with _ | (_ | ⟨d, p⟩) <;>
    simp [transcripts, SpecTranscripts, truthy, runQuery_ftype, runRelation_plain, featuresOfType, childrenL1]

/-- `ValueError` exactly when both arguments are truthy or both are `None`; no other error -/
theorem transcripts_error_iff (s : Session) (gp pt : Option Str) (e : PyErr) :
    transcripts s gp pt = .error e ↔
      e = .value ∧ ((truthy gp = true ∧ truthy pt = true) ∨ (gp = none ∧ pt = none)) := by
  rw [transcripts_spec]
  unfold SpecTranscripts
  split
  · rename_i h
    constructor
    · intro he; injection he with he; exact ⟨he.symm, h⟩
    · rintro ⟨rfl, _⟩; rfl
  · rename_i h
    constructor
    · intro he; split at he <;> (try split at he) <;> cases he
    · rintro ⟨_, h'⟩; exact absurd h' h

/-- grandparent form -/
theorem transcripts_grandparent (s : Session) (g : Str) (pt : Option Str) (hg : g ≠ [])
    (hpt : truthy pt = false) :
    transcripts s (some g) pt = .ok ((featuresOfType s g).flatMap (fun gf => childrenL1 s gf.id)) := by
  have hgt : truthy (some g) = true := by cases g with | nil => exact absurd rfl hg | cons _ _ => rfl
  rw [transcripts_spec]
  simp [SpecTranscripts, hgt, hpt]

/-- parent form -/
theorem transcripts_parent (s : Session) (gp : Option Str) (p : Str) (hp : p ≠ [])
    (hgp : truthy gp = false) :
    transcripts s gp (some p) = .ok (featuresOfType s p) := by
  have hpt : truthy (some p) = true := by cases p with | nil => exact absurd rfl hp | cons _ _ => rfl
  rw [transcripts_spec]
  simp [SpecTranscripts, hpt, hgp]

/-- every transcript is a stored feature; in the parent form each once, in the grandparent form once per
grandparent that lists it -/
theorem transcripts_stored (s : Session) (gp pt : Option Str) (ts : List Row)
    (h : transcripts s gp pt = .ok ts) : ∀ t ∈ ts, t ∈ s.db.features := by
  rw [transcripts_spec] at h
  unfold SpecTranscripts at h
  intro t ht
  split at h
  · cases h
  · split at h
    · injection h with h; subst h
      obtain ⟨g, _, hg⟩ := List.mem_flatMap.1 ht
      exact (List.mem_filter.1 hg).1
    · split at h
      · injection h with h; subst h
        exact (List.mem_filter.1 ht).1
      · injection h with h; subst h; cases ht

/-! ### `exonsOf` -/

/-- **the exons of a transcript**: the stored rows that are level-1 children of `id` and of type
`exonType` — a permutation of them, each once — ordered by start (sqlite: NULL first), turned into
Features of the session's dialect. -/
theorem exonsOf_spec (s : Session) (id exonType : Str) :
    ∃ rows : List Row, exonsOf s id exonType = rows.map s.returner ∧
      rows.Perm (s.db.features.filter (fun r => isChildOf s id (some 1) r && decide (r.ftype = exonType))) ∧
      rows.Pairwise C18Aux.startLe :=
  ⟨orderedKids s id (some 1) exonType, rfl, orderedKids_perm s id (some 1) exonType,
    orderedKids_sorted s id (some 1) exonType⟩

/-- with pairwise different start keys the two facts determine the list: any start-sorted arrangement of
the matching rows IS the exon list -/
theorem exonsOf_eq_of_sorted (s : Session) (id exonType : Str) (l : List Row)
    (hperm : l.Perm (s.db.features.filter (fun r => isChildOf s id (some 1) r && decide (r.ftype = exonType))))
    (hs : l.Pairwise C18Aux.startLe)
    (hanti : ∀ a ∈ l, ∀ b ∈ l, C18Aux.startLe a b → C18Aux.startLe b a → a = b) :
    exonsOf s id exonType = l.map s.returner := by
  unfold exonsOf
  rw [← orderedKids_eq_of_sorted s id (some 1) exonType l hperm hs hanti]; rfl

/-- for exons with integer coordinates "ordered by start" is `≤` on the starts -/
theorem exonsOf_starts_sorted (s : Session) (id exonType : Str) (hc : ExonCoords s exonType) :
    (exonsOf s id exonType).Pairwise (fun a b => ∃ x y, a.start = some x ∧ b.start = some y ∧ x ≤ y) := by
  unfold exonsOf
  refine List.Pairwise.map _ ?_ (List.Pairwise.and_mem.1 (orderedKids_sorted s id (some 1) exonType))
  intro a b ⟨ha, hb, hab⟩
  have hka := (mem_orderedKids s id (some 1) exonType a).1 ha
  have hkb := (mem_orderedKids s id (some 1) exonType b).1 hb
  have hta : a.ftype = exonType := by
    have := hka.2; simp only [isKidOfType, Bool.and_eq_true, decide_eq_true_eq] at this; exact this.2
  have htb : b.ftype = exonType := by
    have := hkb.2; simp only [isKidOfType, Bool.and_eq_true, decide_eq_true_eq] at this; exact this.2
  obtain ⟨x, hx⟩ := Option.isSome_iff_exists.1 (hc a hka.1 hta).1
  obtain ⟨y, hy⟩ := Option.isSome_iff_exists.1 (hc b hkb.1 htb).1
  exact ⟨x, y, hx, hy, (startLe_some hx hy).1 hab⟩

theorem exonsOf_coords (s : Session) (id exonType : Str) (hc : ExonCoords s exonType) :
    ∀ g ∈ exonsOf s id exonType, HasCoords g := by
  intro g hg
  unfold exonsOf at hg
  obtain ⟨r, hr, rfl⟩ := List.mem_map.1 hg
  have hk := (mem_orderedKids s id (some 1) exonType r).1 hr
  have ht : r.ftype = exonType := by
    have := hk.2; simp only [isKidOfType, Bool.and_eq_true, decide_eq_true_eq] at this; exact this.2
  exact hc r hk.1 ht

/-! ### `create_introns` -/

theorem interfeatures_gapsOf (cfg : Inter.DbCfg) (o : Opts) (l : List Feature) (hc : ∀ g ∈ l, HasCoords g) :
    interfeatures cfg o l = .ok (gapsOf cfg o l) := by
  cases l with
  | nil => rfl
  | cons f fs => exact interfeatures_exact cfg o f fs hc

/-- the per-transcript structure of `create_introns`, for all inputs -/
theorem createIntrons_eq (s : Session) (exonType : Str) (gp pt : Option Str) (newType : Str)
    (mergeAttrs numeric : Bool) :
    createIntrons s exonType gp pt newType mergeAttrs numeric =
      (transcripts s gp pt).bind (fun ts =>
        (ts.mapM (fun t => interfeatures (interCfg s) (intronOpts newType mergeAttrs numeric)
          (exonsOf s t.id exonType))).map List.flatten) := by
  unfold createIntrons
  cases transcripts s gp pt with
  | error e => rfl
  | ok ts =>
    simp only [bind, Except.bind, pure, Except.pure, intronOpts, Except.map]

/-- **`introns_exact`**: when the exons are stored with integer coordinates, `create_introns` is —
`ValueError` for a wrong `grandparent`/`parent` combination, otherwise — the concatenation, over the
transcripts in the order of `SpecTranscripts`, of the interfeatures (C15: `gap3` over consecutive
triples) of each transcript's start-ordered exon children. -/
theorem introns_exact (s : Session) (exonType : Str) (gp pt : Option Str) (newType : Str)
    (mergeAttrs numeric : Bool) (hc : ExonCoords s exonType) :
    createIntrons s exonType gp pt newType mergeAttrs numeric =
      (SpecTranscripts s gp pt).map (fun ts =>
        ts.flatMap (intronsOf s exonType newType mergeAttrs numeric)) := by
  rw [createIntrons_eq, transcripts_spec]
  cases SpecTranscripts s gp pt with
  | error e => rfl
  | ok ts =>
    simp only [Except.bind, Except.map]
    rw [C18Aux.mapM_eq_ok_map _ (intronsOf s exonType newType mergeAttrs numeric) ts
      (fun t _ => interfeatures_gapsOf _ _ _ (exonsOf_coords s t.id exonType hc))]
    simp only [List.flatMap]

/-- the only error on that domain is the `ValueError` of the argument check -/
theorem introns_error_iff (s : Session) (exonType : Str) (gp pt : Option Str) (newType : Str)
    (mergeAttrs numeric : Bool) (hc : ExonCoords s exonType) (e : PyErr) :
    createIntrons s exonType gp pt newType mergeAttrs numeric = .error e ↔
      e = .value ∧ ((truthy gp = true ∧ truthy pt = true) ∨ (gp = none ∧ pt = none)) := by
  rw [introns_exact _ _ _ _ _ _ _ hc, ← transcripts_error_iff s, transcripts_spec]
  cases SpecTranscripts s gp pt with
  | error e' => simp [Except.map]
  | ok ts => simp [Except.map]

/-! ### gap geometry on the stored rows -/

theorem gapCore_cols (s : Session) (o : Opts) (newType : Str) (ho : o.newFtype = some newType) (p n : Row) :
    (gapCore (interCfg s) o (s.returner p, s.returner n)).map cols = rowGap newType (p, n) := by
  unfold gapCore gap3 rowGap
  simp only [Session.returner, Row.toFeature]
  cases p.stop <;> cases n.start <;> try rfl
  rename_i pe ns
  simp only
  have : (pe + 2 ≤ ns) ↔ (pe + 1 < ns) := by omega
  by_cases hcond : n.seqid = p.seqid ∧ pe + 1 < ns
  · have hcond' : n.seqid = p.seqid ∧ pe + 2 ≤ ns := ⟨hcond.1, this.2 hcond.2⟩
    simp only [hcond, hcond', and_self, if_true, Option.map_some, cols, core, gapType, ho]
    by_cases hs : p.strand = n.strand <;> simp [hs]
  · have hcond' : ¬ (n.seqid = p.seqid ∧ pe + 2 ≤ ns) := fun c => hcond ⟨c.1, this.1 c.2⟩
    simp only [hcond, hcond', if_false, Option.map_none]

theorem cols_core (g : Feature) : cols (core g) = cols g := rfl

theorem zip_tail_map {α β : Type} (f : α → β) (l : List α) :
    (l.map f).zip (l.map f).tail = (l.zip l.tail).map (fun p => (f p.1, f p.2)) := by
  rw [← List.map_tail, List.zip_map]
  rfl

/-- **gap geometry of one transcript**: the introns' columns are exactly, for the consecutive pairs of the
start-ordered exon rows, one entry `(prev.end + 1, next.start - 1)` of type `newType` per pair on one
seqid with at least one base between — none for touching, overlapping or nested pairs. -/
theorem intronsOf_geometry (s : Session) (exonType newType : Str) (mergeAttrs numeric : Bool) (t : Row)
    (hc : ExonCoords s exonType) :
    (intronsOf s exonType newType mergeAttrs numeric t).map cols =
      (consec (orderedKids s t.id (some 1) exonType)).filterMap (rowGap newType) := by
  obtain ⟨outs, hok, hmap⟩ := interfeatures_pairs (interCfg s) (intronOpts newType mergeAttrs numeric)
    (exonsOf s t.id exonType) (exonsOf_coords s t.id exonType hc)
  rw [interfeatures_gapsOf _ _ _ (exonsOf_coords s t.id exonType hc)] at hok
  injection hok with hok
  unfold intronsOf
  rw [hok]
  have h1 : outs.map cols = (outs.map core).map cols := by
    rw [List.map_map]; rfl
  rw [h1, hmap]
  unfold exonsOf consec
  show List.map cols (List.filterMap _ (((orderedKids s t.id (some 1) exonType).map s.returner).zip
    ((orderedKids s t.id (some 1) exonType).map s.returner).tail)) = _
  rw [zip_tail_map, List.filterMap_map, List.map_filterMap]
  apply filterMap_congr'
  intro pn _
  exact gapCore_cols s _ newType rfl pn.1 pn.2

/-- **`introns_geometry`**: the whole result of `create_introns`, as columns. -/
theorem introns_geometry (s : Session) (exonType : Str) (gp pt : Option Str) (newType : Str)
    (mergeAttrs numeric : Bool) (hc : ExonCoords s exonType) (ts : List Row)
    (hts : transcripts s gp pt = .ok ts) :
    ∃ outs, createIntrons s exonType gp pt newType mergeAttrs numeric = .ok outs ∧
      outs.map cols = ts.flatMap (fun t =>
        (consec (orderedKids s t.id (some 1) exonType)).filterMap (rowGap newType)) := by
  rw [transcripts_spec] at hts
  refine ⟨_, by rw [introns_exact _ _ _ _ _ _ _ hc, hts]; rfl, ?_⟩
  rw [List.map_flatMap]
  congr 1
  funext t
  exact intronsOf_geometry s exonType newType mergeAttrs numeric t hc

/-! ### `create_splice_sites` -/

/-- the label: five prime on the left of a `+` transcript and on the right of a `-` transcript, three
prime on the other side, plain `splice_site` for every other strand -/
theorem spliceType_spec (left : Bool) (strand : Str) :
    spliceType left strand =
      if strand = ['+'] then
        (if left then "five_prime_cis_splice_site".toList else "three_prime_cis_splice_site".toList)
      else if strand = ['-'] then
        (if left then "three_prime_cis_splice_site".toList else "five_prime_cis_splice_site".toList)
      else "splice_site".toList := by
  unfold spliceType
  cases left
  · simp only [Bool.false_eq_true, if_false]
  · simp only [if_true]

/-- the model's per-intron step -/
def siteM (left : Bool) (nt : Str) (g : Feature) : Py Feature := do
  let g : Feature ← match g.start, g.stop with
    | some a, some b => pure (if left then { g with stop := some (a + 1) } else { g with start := some (b - 1) })
    | _, _ => throw PyErr.type
  match g.attrs.get? "ID".toList with
  | some (v :: _) => pure { g with attrs := Dict.set g.attrs "ID".toList [nt ++ ['_'] ++ v] }
  | some [] => throw PyErr.index
  | none => pure g

/-- one side of `create_splice_sites` -/
def sideM (s : Session) (exonType : Str) (mergeAttrs numeric : Bool) (ts : List Row) (left : Bool) :
    Py (List Feature) :=
  (ts.mapM (fun t =>
    (interfeatures (interCfg s) (intronOpts (spliceType left t.strand) mergeAttrs numeric)
      (exonsOf s t.id exonType)).bind (fun gaps => gaps.mapM (siteM left (spliceType left t.strand))))).map
    List.flatten

/-- the structure of `create_splice_sites`, for all inputs: every left site, then every right site -/
theorem createSpliceSites_eq (s : Session) (exonType : Str) (gp pt : Option Str) (mergeAttrs numeric : Bool) :
    createSpliceSites s exonType gp pt mergeAttrs numeric =
      (transcripts s gp pt).bind (fun ts =>
        (sideM s exonType mergeAttrs numeric ts true).bind (fun l =>
          (sideM s exonType mergeAttrs numeric ts false).map (fun r => l ++ r))) := by
  unfold createSpliceSites sideM
  cases transcripts s gp pt with
  | error e => rfl
  | ok ts => rfl

/-- retyping: the gaps do not depend on `new_featuretype` except in the `featuretype` column -/
theorem gap3_retype (cfg : Inter.DbCfg) (o : Opts) (nt : Str) (t : Feature × Feature × Feature) :
    gap3 cfg { o with newFtype := some nt } t = (gap3 cfg o t).map (fun g => { g with ftype := nt }) := by
  unfold gap3
  cases t.2.1.stop <;> cases t.2.2.start <;> try rfl
  simp only
  split <;> rfl

theorem gapsOf_retype (cfg : Inter.DbCfg) (o : Opts) (nt : Str) (l : List Feature) :
    gapsOf cfg { o with newFtype := some nt } l = (gapsOf cfg o l).map (fun g => { g with ftype := nt }) := by
  cases l with
  | nil => rfl
  | cons f fs =>
    unfold gapsOf
    rw [List.map_filterMap]
    apply filterMap_congr'
    intro t _
    exact gap3_retype cfg o nt t

/-- every gap has integer coordinates -/
theorem gapsOf_coords (cfg : Inter.DbCfg) (o : Opts) (l : List Feature) :
    ∀ g ∈ gapsOf cfg o l, ∃ a b, g.start = some a ∧ g.stop = some b ∧ a ≤ b := by
  intro g hg
  cases l with
  | nil => cases hg
  | cons f fs =>
    unfold gapsOf at hg
    obtain ⟨t, _, ht⟩ := List.mem_filterMap.1 hg
    obtain ⟨h, p, n⟩ := t
    obtain ⟨pe, ns, _, _, _, hle, _, hs, he, _⟩ := interfeature_fields cfg o h p n g ht
    exact ⟨pe + 1, ns - 1, hs, he, by omega⟩

/-- one intron that carries an `ID` -/
theorem siteM_ok (left : Bool) (nt : Str) (g : Feature) (a b : Int) (v : Str) (vs : List Str)
    (ha : g.start = some a) (hb : g.stop = some b) (hid : Dict.get? g.attrs "ID".toList = some (v :: vs)) :
    siteM left nt { g with ftype := nt } = .ok (siteOf left nt g) := by
  have hid' : Dict.get? g.attrs ['I', 'D'] = some (v :: vs) := hid
  unfold siteM siteOf
  cases left <;> simp [ha, hb, hid', bind, Except.bind, pure, Except.pure]

/-- one intron without `ID`: the attributes are left alone (pre-repair code: `KeyError`) -/
theorem siteM_none (left : Bool) (nt : Str) (g : Feature) (a b : Int)
    (ha : g.start = some a) (hb : g.stop = some b) (hid : Dict.get? g.attrs "ID".toList = none) :
    siteM left nt { g with ftype := nt } = .ok (siteOf left nt g) := by
  have hid' : Dict.get? g.attrs ['I', 'D'] = none := hid
  unfold siteM siteOf
  cases left <;> simp [ha, hb, hid', bind, Except.bind, pure, Except.pure]

/-- one intron with an empty `ID` list: `attributes["ID"][0]` is an `IndexError` -/
theorem siteM_index (left : Bool) (nt : Str) (g : Feature) (a b : Int)
    (ha : g.start = some a) (hb : g.stop = some b) (hid : Dict.get? g.attrs "ID".toList = some []) :
    siteM left nt { g with ftype := nt } = .error .index := by
  have hid' : Dict.get? g.attrs ['I', 'D'] = some [] := hid
  unfold siteM
  cases left <;> simp [ha, hb, hid', bind, Except.bind, pure, Except.pure, throw, throwThe, MonadExceptOf.throw]

/-- no intron has an `ID` attribute with an EMPTY value list (an intron may have no `ID` at all) -/
def NoEmptyId (s : Session) (exonType : Str) (mergeAttrs numeric : Bool) (ts : List Row) : Prop :=
  ∀ t ∈ ts, ∀ g ∈ intronsOf s exonType [] mergeAttrs numeric t, Dict.get? g.attrs "ID".toList ≠ some []

/-- every intron carries an `ID` with at least one value -/
def IntronsHaveId (s : Session) (exonType : Str) (mergeAttrs numeric : Bool) (ts : List Row) : Prop :=
  ∀ t ∈ ts, ∀ g ∈ intronsOf s exonType [] mergeAttrs numeric t,
    ∃ v vs, Dict.get? g.attrs "ID".toList = some (v :: vs)

theorem noEmptyId_of_haveId {s : Session} {exonType : Str} {mergeAttrs numeric : Bool} {ts : List Row}
    (h : IntronsHaveId s exonType mergeAttrs numeric ts) : NoEmptyId s exonType mergeAttrs numeric ts := by
  intro t ht g hg hc
  obtain ⟨v, vs, hv⟩ := h t ht g hg
  rw [hv] at hc; cases hc

theorem intronsOf_retype (s : Session) (exonType a b : Str) (mergeAttrs numeric : Bool) (t : Row) :
    intronsOf s exonType b mergeAttrs numeric t =
      (intronsOf s exonType a mergeAttrs numeric t).map (fun g => { g with ftype := b }) :=
  gapsOf_retype (interCfg s) (intronOpts a mergeAttrs numeric) b _

theorem sideM_ok (s : Session) (exonType newType : Str) (mergeAttrs numeric : Bool) (ts : List Row) (left : Bool)
    (hc : ExonCoords s exonType) (hid : NoEmptyId s exonType mergeAttrs numeric ts) :
    sideM s exonType mergeAttrs numeric ts left =
      .ok (sitesOfSide s exonType newType mergeAttrs numeric ts left) := by
  unfold sideM sitesOfSide
  rw [C18Aux.mapM_eq_ok_map _ (fun t => (intronsOf s exonType newType mergeAttrs numeric t).map
    (siteOf left (spliceType left t.strand))) ts]
  · simp only [Except.map, List.flatMap]
  · intro t ht
    rw [interfeatures_gapsOf _ _ _ (exonsOf_coords s t.id exonType hc)]
    show List.mapM _ (intronsOf s exonType (spliceType left t.strand) mergeAttrs numeric t) = _
    rw [intronsOf_retype s exonType newType (spliceType left t.strand), List.mapM_map]
    apply C18Aux.mapM_eq_ok_map
    intro g hg
    obtain ⟨a, b, ha, hb, _⟩ := gapsOf_coords _ _ _ g hg
    have hg0 : ({ g with ftype := [] } : Feature) ∈ intronsOf s exonType [] mergeAttrs numeric t := by
      rw [intronsOf_retype s exonType newType []]
      exact List.mem_map_of_mem hg
    have hne := hid t ht _ hg0
    cases hv : Dict.get? g.attrs "ID".toList with
    | none => exact siteM_none left _ g a b ha hb hv
    | some l =>
      cases l with
      | nil => exact absurd hv hne
      | cons v vs => exact siteM_ok left _ g a b v vs ha hb hv

/-- **`splice_sites_exact`**: for exons stored with integer coordinates, provided no intron has an `ID`
attribute with an empty value list, `create_splice_sites` returns all left sites followed by all right
sites; the left (right) sites of a transcript are its introns (those of `create_introns`, whatever
`new_featuretype`) mapped to `[start, start+1]` (`[end-1, end]`), typed `spliceType side strand`, with
`ID` prefixed by that type when the intron has an `ID` and the attributes unchanged when it has none.
The argument check fails with `ValueError` as in `create_introns`. -/
theorem splice_sites_exact (s : Session) (exonType newType : Str) (gp pt : Option Str)
    (mergeAttrs numeric : Bool) (hc : ExonCoords s exonType)
    (hid : ∀ ts, transcripts s gp pt = .ok ts → NoEmptyId s exonType mergeAttrs numeric ts) :
    createSpliceSites s exonType gp pt mergeAttrs numeric =
      (SpecTranscripts s gp pt).map (fun ts =>
        sitesOfSide s exonType newType mergeAttrs numeric ts true ++
        sitesOfSide s exonType newType mergeAttrs numeric ts false) := by
  rw [createSpliceSites_eq]
  rw [transcripts_spec] at hid ⊢
  cases hts : SpecTranscripts s gp pt with
  | error e => rfl
  | ok ts =>
    simp only [Except.bind, Except.map]
    rw [sideM_ok s exonType newType mergeAttrs numeric ts true hc (hid ts hts),
      sideM_ok s exonType newType mergeAttrs numeric ts false hc (hid ts hts)]

theorem sitesOfSide_length (s : Session) (exonType newType : Str) (mergeAttrs numeric : Bool) (ts : List Row)
    (left : Bool) :
    (sitesOfSide s exonType newType mergeAttrs numeric ts left).length =
      (ts.flatMap (intronsOf s exonType newType mergeAttrs numeric)).length := by
  unfold sitesOfSide
  induction ts with
  | nil => rfl
  | cons t ts ih => simp only [List.flatMap_cons, List.length_append, List.length_map, ih]

/-- **two sites per intron**: the number of splice sites is twice the number of introns -/
theorem splice_sites_count (s : Session) (exonType newType : Str) (gp pt : Option Str)
    (mergeAttrs numeric : Bool) (hc : ExonCoords s exonType)
    (hid : ∀ ts, transcripts s gp pt = .ok ts → NoEmptyId s exonType mergeAttrs numeric ts)
    (introns sites : List Feature)
    (hi : createIntrons s exonType gp pt newType mergeAttrs numeric = .ok introns)
    (hs : createSpliceSites s exonType gp pt mergeAttrs numeric = .ok sites) :
    sites.length = 2 * introns.length := by
  rw [introns_exact _ _ _ _ _ _ _ hc] at hi
  rw [splice_sites_exact s exonType newType gp pt mergeAttrs numeric hc hid] at hs
  cases hts : SpecTranscripts s gp pt with
  | error e => rw [hts] at hi; cases hi
  | ok ts =>
    rw [hts] at hi hs
    simp only [Except.map] at hi hs
    injection hi with hi; injection hs with hs
    subst hi; subst hs
    rw [List.length_append, sitesOfSide_length, sitesOfSide_length]; omega

/-- **site geometry**: start, end and type of the site made from an intron `[a, b]` -/
theorem siteOf_geometry (left : Bool) (nt : Str) (g : Feature) (a b : Int) (ha : g.start = some a)
    (hb : g.stop = some b) :
    (siteOf left nt g).ftype = nt ∧ (siteOf left nt g).seqid = g.seqid ∧ (siteOf left nt g).strand = g.strand ∧
    (siteOf left nt g).start = some (if left then a else b - 1) ∧
    (siteOf left nt g).stop = some (if left then a + 1 else b) := by
  unfold siteOf
  cases left <;> simp [ha, hb]

/-- the `ID` of a site is the intron's first `ID` value prefixed with the site type; other keys are kept -/
theorem siteOf_id (left : Bool) (nt : Str) (g : Feature) (v : Str) (vs : List Str)
    (hid : Dict.get? g.attrs "ID".toList = some (v :: vs)) :
    Dict.get? (siteOf left nt g).attrs "ID".toList = some [nt ++ ['_'] ++ v] ∧
    ∀ k, k ≠ "ID".toList → Dict.get? (siteOf left nt g).attrs k = Dict.get? g.attrs k := by
  unfold siteOf
  simp only [hid]
  exact ⟨get_set_eq' _ _ _, fun k hk => get_set_ne' _ _ _ _ hk⟩

/-- an intron without `ID` gives a site with the intron's attributes, unchanged -/
theorem siteOf_noid (left : Bool) (nt : Str) (g : Feature) (hid : Dict.get? g.attrs "ID".toList = none) :
    (siteOf left nt g).attrs = g.attrs := by
  unfold siteOf
  simp only [hid]

/-- **`IndexError`** (the case excluded from `splice_sites_exact`): when the arguments are right, exons
have integer coordinates, and some intron has an `ID` attribute with an empty value list,
`create_splice_sites` raises `IndexError` (`attributes["ID"][0]`) — the only error the per-intron step can
raise on that domain. -/
theorem splice_sites_indexerror (s : Session) (exonType : Str) (gp pt : Option Str)
    (mergeAttrs numeric : Bool) (hc : ExonCoords s exonType) (ts : List Row)
    (hts : transcripts s gp pt = .ok ts)
    (hex : ∃ t ∈ ts, ∃ g ∈ intronsOf s exonType [] mergeAttrs numeric t,
      Dict.get? g.attrs "ID".toList = some []) :
    createSpliceSites s exonType gp pt mergeAttrs numeric = .error .index := by
  rw [createSpliceSites_eq, hts]
  simp only [Except.bind]
  have hside : sideM s exonType mergeAttrs numeric ts true = .error .index := by
    unfold sideM
    have hper : ∀ t ∈ ts,
        (interfeatures (interCfg s) (intronOpts (spliceType true t.strand) mergeAttrs numeric)
          (exonsOf s t.id exonType)).bind (fun gaps => gaps.mapM (siteM true (spliceType true t.strand))) =
        (intronsOf s exonType [] mergeAttrs numeric t).mapM
          (fun g => siteM true (spliceType true t.strand) { g with ftype := spliceType true t.strand }) := by
      intro t _
      rw [interfeatures_gapsOf _ _ _ (exonsOf_coords s t.id exonType hc)]
      show List.mapM _ (intronsOf s exonType (spliceType true t.strand) mergeAttrs numeric t) = _
      rw [intronsOf_retype s exonType [] (spliceType true t.strand), List.mapM_map]
      rfl
    have hstep : ∀ t ∈ ts, ∀ g ∈ intronsOf s exonType [] mergeAttrs numeric t,
        (∃ y, siteM true (spliceType true t.strand) { g with ftype := spliceType true t.strand } = .ok y) ∨
        siteM true (spliceType true t.strand) { g with ftype := spliceType true t.strand } = .error .index := by
      intro t _ g hg
      obtain ⟨a, b, ha, hb, _⟩ := gapsOf_coords _ _ _ g hg
      cases hv : Dict.get? g.attrs "ID".toList with
      | none => exact Or.inl ⟨_, siteM_none true _ g a b ha hb hv⟩
      | some l =>
        cases l with
        | nil => exact Or.inr (siteM_index true _ g a b ha hb hv)
        | cons v vs => exact Or.inl ⟨_, siteM_ok true _ g a b v vs ha hb hv⟩
    have hbad : ∀ t ∈ ts, ∀ g ∈ intronsOf s exonType [] mergeAttrs numeric t,
        Dict.get? g.attrs "ID".toList = some [] →
        siteM true (spliceType true t.strand) { g with ftype := spliceType true t.strand } = .error .index := by
      intro t _ g hg hv
      obtain ⟨a, b, ha, hb, _⟩ := gapsOf_coords _ _ _ g hg
      exact siteM_index true _ g a b ha hb hv
    have : ts.mapM (fun t =>
        (interfeatures (interCfg s) (intronOpts (spliceType true t.strand) mergeAttrs numeric)
          (exonsOf s t.id exonType)).bind (fun gaps => gaps.mapM (siteM true (spliceType true t.strand)))) =
        .error .index := by
      apply mapM_error_of_exists
      · intro t ht
        rw [hper t ht]
        by_cases hall : ∃ g ∈ intronsOf s exonType [] mergeAttrs numeric t,
            Dict.get? g.attrs "ID".toList = some []
        · right
          apply mapM_error_of_exists _ _ _ (hstep t ht)
          obtain ⟨g, hg, hv⟩ := hall
          exact ⟨g, hg, hbad t ht g hg hv⟩
        · left
          apply GffProofs.mapM_ok
          intro g hg
          rcases hstep t ht g hg with h | h
          · exact h
          · exfalso
            apply hall
            refine ⟨g, hg, ?_⟩
            obtain ⟨a, b, ha, hb, _⟩ := gapsOf_coords _ _ _ g hg
            cases hv : Dict.get? g.attrs "ID".toList with
            | none => rw [siteM_none true _ g a b ha hb hv] at h; cases h
            | some l =>
              cases l with
              | nil => rfl
              | cons v vs => rw [siteM_ok true _ g a b v vs ha hb hv] at h; cases h
      · obtain ⟨t, ht, g, hg, hv⟩ := hex
        refine ⟨t, ht, ?_⟩
        rw [hper t ht]
        apply mapM_error_of_exists _ _ _ (hstep t ht)
        exact ⟨g, hg, hbad t ht g hg hv⟩
    rw [this]; rfl
  rw [hside]

/-- with `merge_attributes=False` an intron has no attributes at all -/
theorem intron_attrs_nomerge (s : Session) (exonType newType : Str) (numeric : Bool) (t : Row) :
    ∀ g ∈ intronsOf s exonType newType false numeric t, g.attrs = [] := by
  intro g hg
  unfold intronsOf at hg
  cases hl : exonsOf s t.id exonType with
  | nil => rw [hl] at hg; cases hg
  | cons f fs =>
    rw [hl] at hg
    unfold gapsOf at hg
    obtain ⟨tr, _, ht⟩ := List.mem_filterMap.1 hg
    obtain ⟨h, p, n⟩ := tr
    obtain ⟨pe, ns, _, _, _, _, _, _, _, _, _, _, hattrs, _⟩ := interfeature_fields _ _ h p n g ht
    rw [hattrs]; rfl

/-- **`splice_sites_nomerge`**: with `merge_attributes=False` (exons stored with integer coordinates) the
call succeeds — `ValueError` only from the argument check —, the result is all left sites followed by all
right sites, and every site has NO attributes, the type `spliceType side strand` and the two-base
geometry of `siteOf_geometry`.  (Before the repair of gffutils this call raised `KeyError('ID')` whenever
a transcript had an intron: `splice_site.attributes["ID"][0]` on the empty attributes.) -/
theorem splice_sites_nomerge (s : Session) (exonType newType : Str) (gp pt : Option Str) (numeric : Bool)
    (hc : ExonCoords s exonType) :
    createSpliceSites s exonType gp pt false numeric =
      (SpecTranscripts s gp pt).map (fun ts =>
        sitesOfSide s exonType newType false numeric ts true ++
        sitesOfSide s exonType newType false numeric ts false) ∧
    ∀ ts left, ∀ t ∈ ts, ∀ g ∈ intronsOf s exonType newType false numeric t,
      siteOf left (spliceType left t.strand) g ∈ sitesOfSide s exonType newType false numeric ts left ∧
      (siteOf left (spliceType left t.strand) g).attrs = [] ∧
      (siteOf left (spliceType left t.strand) g).ftype = spliceType left t.strand ∧
      ∃ a b, g.start = some a ∧ g.stop = some b ∧ a ≤ b ∧
        (siteOf left (spliceType left t.strand) g).start = some (if left then a else b - 1) ∧
        (siteOf left (spliceType left t.strand) g).stop = some (if left then a + 1 else b) := by
  refine ⟨?_, ?_⟩
  · apply splice_sites_exact s exonType newType gp pt false numeric hc
    intro ts _ t _ g hg hv
    rw [intron_attrs_nomerge s exonType [] numeric t g hg] at hv
    cases hv
  · intro ts left t ht g hg
    have hattrs := intron_attrs_nomerge s exonType newType numeric t g hg
    obtain ⟨a, b, ha, hb, hab⟩ := gapsOf_coords _ _ _ g hg
    obtain ⟨h1, _, _, h4, h5⟩ := siteOf_geometry left (spliceType left t.strand) g a b ha hb
    refine ⟨?_, ?_, h1, a, b, ha, hb, hab, h4, h5⟩
    · unfold sitesOfSide
      exact List.mem_flatMap.2 ⟨t, ht, List.mem_map_of_mem hg⟩
    · rw [siteOf_noid left _ g (by rw [hattrs]; rfl), hattrs]

/-- every site of `sitesOfSide` is the `siteOf` of an intron of one of the transcripts -/
theorem mem_sitesOfSide (s : Session) (exonType newType : Str) (mergeAttrs numeric : Bool) (ts : List Row)
    (left : Bool) (x : Feature) :
    x ∈ sitesOfSide s exonType newType mergeAttrs numeric ts left ↔
      ∃ t ∈ ts, ∃ g ∈ intronsOf s exonType newType mergeAttrs numeric t,
        x = siteOf left (spliceType left t.strand) g := by
  unfold sitesOfSide
  rw [List.mem_flatMap]
  constructor
  · rintro ⟨t, ht, hx⟩
    obtain ⟨g, hg, rfl⟩ := List.mem_map.1 hx
    exact ⟨t, ht, g, hg, rfl⟩
  · rintro ⟨t, ht, g, hg, rfl⟩
    exact ⟨t, ht, List.mem_map_of_mem hg⟩

/-! ### when do the introns carry an `ID`? -/

/-- every stored exon has attributes with distinct keys (a JSON object) and an `ID` with a value -/
def ExonsHaveId (s : Session) (exonType : Str) : Prop :=
  ∀ r ∈ s.db.features, r.ftype = exonType →
    (Dict.keys r.attrs).Nodup ∧ ∃ v vs, Dict.get? r.attrs "ID".toList = some (v :: vs)

theorem mapM_keys_snd (u : List Str) : ∀ ks, u.mapM (fun s => (decKey s).map (fun k => (k, s))) = some ks →
    ks.map (·.2) = u := by
  induction u with
  | nil => intro ks h; simp at h; subst h; rfl
  | cons x xs ih =>
    intro ks h
    rw [List.mapM_cons] at h
    cases hx : decKey x with
    | none => rw [hx] at h; simp at h
    | some k =>
      cases hxs : xs.mapM (fun s => (decKey s).map (fun k => (k, s))) with
      | none => rw [hx, hxs] at h; simp at h
      | some ks' =>
        rw [hx, hxs] at h
        simp at h
        subst h
        simp [ih ks' hxs]

theorem numericSorted_mem (v : List Str) (x : Str) : x ∈ numericSorted v ↔ x ∈ v := by
  unfold numericSorted
  simp only
  split
  · rename_i ks hks
    have := mapM_keys_snd _ ks hks
    have h2 : x ∈ v ↔ x ∈ dedup v := by rw [GffProofs.C09.mem_dedup]
    rw [h2, ← this]
    simp only [List.mem_map, List.mem_mergeSort]
  · unfold sortStrs
    rw [List.mem_mergeSort, GffProofs.C09.mem_dedup]

theorem mem_triples (h p : Feature) (l : List Feature) (t : Feature × Feature × Feature)
    (ht : t ∈ triples h p l) : t.2.2 ∈ l := by
  have : (t.2.1, t.2.2) ∈ (triples h p l).map (fun t => (t.2.1, t.2.2)) := List.mem_map_of_mem ht
  rw [triples_pairs] at this
  exact (List.of_mem_zip this).2

/-- **with `merge_attributes=True` and exons that carry an `ID`, every intron carries one** -/
theorem introns_have_id (s : Session) (exonType : Str) (numeric : Bool) (ts : List Row)
    (h : ExonsHaveId s exonType) : IntronsHaveId s exonType true numeric ts := by
  intro t _ g hg
  unfold intronsOf at hg
  cases hl : exonsOf s t.id exonType with
  | nil => rw [hl] at hg; cases hg
  | cons f fs =>
    rw [hl] at hg
    unfold gapsOf at hg
    obtain ⟨tr, htr, ht⟩ := List.mem_filterMap.1 hg
    have hn : tr.2.2 ∈ exonsOf s t.id exonType := by
      rw [hl]; exact List.mem_cons_of_mem _ (mem_triples f f fs tr htr)
    obtain ⟨hd, p, n⟩ := tr
    simp only at hn
    obtain ⟨pe, ns, _, _, _, _, _, _, _, _, _, _, hattrs, _⟩ := interfeature_fields _ _ hd p n g ht
    -- `n` is the Feature of a stored exon row
    unfold exonsOf at hn
    obtain ⟨r, hr, rfl⟩ := List.mem_map.1 hn
    have hk := (mem_orderedKids s t.id (some 1) exonType r).1 hr
    have hty : r.ftype = exonType := by
      have := hk.2; simp only [isKidOfType, Bool.and_eq_true, decide_eq_true_eq] at this; exact this.2
    obtain ⟨hnd, v, vs, hv⟩ := h r hk.1 hty
    have hnattrs : (s.returner r).attrs = r.attrs := rfl
    have hmerged : ∃ w ws, Dict.get? (mergeAttributes p.attrs (s.returner r).attrs numeric) "ID".toList =
        some (w :: ws) := by
      rw [mergeAttributes_get _ _ _ (by rw [hnattrs]; exact hnd), hnattrs, hv]
      have hne : ∀ (l : List Str), v ∈ l → ∃ w ws, (if numeric = true then numericSorted l else sortedSet l) = w :: ws := by
        intro l hl
        have hmem : v ∈ (if numeric = true then numericSorted l else sortedSet l) := by
          cases numeric
          · simp only [Bool.false_eq_true, if_false]; exact (sortedSet_mem l v).2 hl
          · simp only [if_true]; exact (numericSorted_mem l v).2 hl
        cases hres : (if numeric = true then numericSorted l else sortedSet l) with
        | nil => rw [hres] at hmem; cases hmem
        | cons w ws => exact ⟨w, ws, rfl⟩
      cases Dict.get? p.attrs "ID".toList with
      | none =>
        obtain ⟨w, ws, hw⟩ := hne (v :: vs) List.mem_cons_self
        exact ⟨w, ws, by simp only [hw]⟩
      | some v1 =>
        obtain ⟨w, ws, hw⟩ := hne ((v :: vs) ++ v1) (by simp)
        exact ⟨w, ws, by simp only [hw]⟩
    obtain ⟨w, ws, hw⟩ := hmerged
    have hid := joinIds_ID (Dict.update (mergeAttributes p.attrs (s.returner r).attrs numeric) [])
    rw [update_nil, hw] at hid
    rw [hattrs]
    show ∃ v vs, Dict.get? (joinIds (Dict.update (mergeAttributes p.attrs (s.returner r).attrs numeric) []))
      "ID".toList = some (v :: vs)
    rw [update_nil, hid]
    simp only
    split
    · exact ⟨_, _, rfl⟩
    · exact ⟨w, ws, rfl⟩

/-- **`splice_sites_exact` on the property's domain** ("exons carrying an ID attribute"): with
`merge_attributes=True`, exons stored with integer coordinates and an `ID`, the result is all left sites
followed by all right sites (or the `ValueError` of the argument check) — no other hypothesis. -/
theorem splice_sites_exact_of_exon_ids (s : Session) (exonType newType : Str) (gp pt : Option Str)
    (numeric : Bool) (hc : ExonCoords s exonType) (hx : ExonsHaveId s exonType) :
    createSpliceSites s exonType gp pt true numeric =
      (SpecTranscripts s gp pt).map (fun ts =>
        sitesOfSide s exonType newType true numeric ts true ++
        sitesOfSide s exonType newType true numeric ts false) :=
  splice_sites_exact s exonType newType gp pt true numeric hc
    (fun ts _ => noEmptyId_of_haveId (introns_have_id s exonType numeric ts hx))

/-! ### non-vacuity: the session `DbExportAux.Ex.sess` (one gene, two transcripts, six exons) -/

section Examples
open GffProofs.DbExportAux.Ex

theorem ex_coords : ExonCoords sess "exon".toList := by
  intro r hr _
  have : ∀ r ∈ sess.db.features, r.start.isSome ∧ r.stop.isSome := by decide +kernel
  exact this r hr

theorem ex_haveId : ExonsHaveId sess "exon".toList := by
  intro r hr _
  have : ∀ r ∈ sess.db.features, (Dict.keys r.attrs).Nodup ∧
      ((Dict.get? r.attrs "ID".toList).getD []) ≠ [] := by decide +kernel
  obtain ⟨h1, h2⟩ := this r hr
  refine ⟨h1, ?_⟩
  cases hv : Dict.get? r.attrs "ID".toList with
  | none => rw [hv] at h2; exact absurd rfl h2
  | some l =>
    cases l with
    | nil => rw [hv] at h2; exact absurd rfl h2
    | cons v vs => exact ⟨v, vs, rfl⟩

/-- grandparent form: the level-1 children of the gene, in table order -/
theorem ex_transcripts : transcripts sess (some "gene".toList) none = .ok [t1, t2] := by
  rw [transcripts_spec]; decide +kernel

/-- parent form gives the same transcripts here -/
example : transcripts sess none (some "mRNA".toList) = .ok [t1, t2] := by
  rw [transcripts_spec]; decide +kernel

example : transcripts sess (some "gene".toList) (some "mRNA".toList) = .error .value ∧
    transcripts sess none none = .error .value := by
  rw [transcripts_spec, transcripts_spec]; decide +kernel

/-- the exons of `t1` come out in start order although they are stored as `e4, e1, e3, e2` -/
example : exonsOf sess "t1".toList "exon".toList = [e1, e2, e3, e4].map sess.returner := by
  unfold exonsOf; exact congrArg _ kids_t1

/-- `create_introns`: nothing for the overlapping pair `e1/e2` and the adjacent pair `e2/e3`; `31..39`
between `e3` and `e4`; `111..119` for the second transcript -/
example : ∃ outs, createIntrons sess "exon".toList (some "gene".toList) none "intron".toList true false = .ok outs ∧
    outs.map cols =
      [⟨"chr1".toList, some 31, some 39, "intron".toList, "+".toList, "gffutils_derived".toList⟩,
       ⟨"chr1".toList, some 111, some 119, "intron".toList, "-".toList, "gffutils_derived".toList⟩] := by
  obtain ⟨outs, h1, h2⟩ := introns_geometry sess "exon".toList (some "gene".toList) none "intron".toList true false
    ex_coords _ ex_transcripts
  refine ⟨outs, h1, ?_⟩
  rw [h2]
  simp only [List.flatMap_cons, List.flatMap_nil, List.append_nil]
  have ht1 : t1.id = "t1".toList := rfl
  have ht2 : t2.id = "t2".toList := rfl
  rw [ht1, ht2, kids_t1, kids_t2]
  decide +kernel

/-- `create_splice_sites` on the same session: hypotheses hold, 2 × 2 sites; left sites first -/
example : ∃ sites, createSpliceSites sess "exon".toList (some "gene".toList) none true false = .ok sites ∧
    sites.map (fun g => (g.start, g.stop, g.ftype)) =
      [(some 31, some 32, "five_prime_cis_splice_site".toList),
       (some 111, some 112, "three_prime_cis_splice_site".toList),
       (some 38, some 39, "three_prime_cis_splice_site".toList),
       (some 118, some 119, "five_prime_cis_splice_site".toList)] := by
  have h := splice_sites_exact sess "exon".toList "intron".toList (some "gene".toList) none true false ex_coords
    (fun ts _ => noEmptyId_of_haveId (introns_have_id sess _ false ts ex_haveId))
  rw [← transcripts_spec, ex_transcripts] at h
  refine ⟨_, h, ?_⟩
  simp only [sitesOfSide, intronsOf, exonsOf, List.flatMap_cons, List.flatMap_nil, List.append_nil]
  have ht1 : t1.id = "t1".toList := rfl
  have ht2 : t2.id = "t2".toList := rfl
  have k1 := kids_t1
  have k2 := kids_t2
  unfold orderedKids at k1 k2
  rw [ht1, ht2, k1, k2]
  decide +kernel

/-- `merge_attributes=False`: the introns have no attributes; the call succeeds (it raised `KeyError`
before the repair) and the four sites have the same geometry and labels, and empty attributes -/
example : ∃ sites, createSpliceSites sess "exon".toList (some "gene".toList) none false false = .ok sites ∧
    sites.map (fun g => (g.start, g.stop, g.ftype, g.attrs.isEmpty)) =
      [(some 31, some 32, "five_prime_cis_splice_site".toList, true),
       (some 111, some 112, "three_prime_cis_splice_site".toList, true),
       (some 38, some 39, "three_prime_cis_splice_site".toList, true),
       (some 118, some 119, "five_prime_cis_splice_site".toList, true)] := by
  have h := (splice_sites_nomerge sess "exon".toList "intron".toList (some "gene".toList) none false ex_coords).1
  rw [← transcripts_spec, ex_transcripts] at h
  refine ⟨_, h, ?_⟩
  simp only [sitesOfSide, intronsOf, exonsOf, List.flatMap_cons, List.flatMap_nil, List.append_nil]
  have ht1 : t1.id = "t1".toList := rfl
  have ht2 : t2.id = "t2".toList := rfl
  have k1 := kids_t1
  have k2 := kids_t2
  unfold orderedKids at k1 k2
  rw [ht1, ht2, k1, k2]
  decide +kernel

end Examples

end GffProofs.C15Db
