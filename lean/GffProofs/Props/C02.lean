/-
  C02 — GFF3 hierarchy: the relations table after `create_db` is exactly the Parent graph, two levels
  deep, whatever the order of the lines; `children` / `parents` read it back exactly.
-/
import GffModel.Interface
import GffProofs.Props.C12
import GffProofs.Lemmas.C02Db

namespace GffProofs.C02
open GffModel GffModel.Create GffModel.Interface

def idKey : Str := "ID".toList

/-- the `ID` of a GFF3 feature when it carries exactly one -/
def idOf (f : Feature) : Option Str :=
  match f.attrs.get? idKey with
  | some [v] => some v
  | _ => none

/-- the `Parent` values of a feature -/
def parentsOf (f : Feature) : List Str := (f.attrs.get? parentKey).getD []

/-- the property's domain: a non-empty GFF3 annotation whose features all carry one `ID`, pairwise
different (so keys do not depend on line order and no merge strategy is ever invoked) -/
structure GraphOk (fs : List Feature) : Prop where
  nonempty : fs ≠ []
  ids : ∀ f ∈ fs, ∃ id, idOf f = some id
  nodup : (fs.filterMap idOf).Nodup

/-- the default GFF3 importer configuration (`id_spec="ID"`), any strategy / dialect -/
def gffCfg (strategy : Strategy) (d : Dialect) : Cfg :=
  { idSpec := defaultGffSpec, strategy := strategy, dialect := d }

/-- the level-1 edge set the Parent attributes define -/
def Edge1 (fs : List Feature) (p c : Str) : Prop := ∃ f ∈ fs, idOf f = some c ∧ p ∈ parentsOf f


/-! ### One line of the importer under `GraphOk` -/

theorem get_of_idOf {f : Feature} {id : Str} (h : idOf f = some id) : f.attrs.get? "ID".toList = some [id] := by
  unfold idOf idKey at h
  split at h
  · rename_i v hv; cases h; exact hv
  · cases h

theorem idHandler_default (auto : Dict Nat) (f : Feature) (id : Str) (h : idOf f = some id) :
    idHandler defaultGffSpec auto f = .ok (id, auto) := by
  have hg := get_of_idOf h
  have hf : isFieldSpec "ID".toList = false := by decide
  simp only [idHandler, defaultGffSpec, tryKeys, hf, hg, bind, Except.bind, pure, Except.pure]
  simp

theorem calcBin_ne_set (st en : Option Int) (bs : List Int) : Feature.calcBin st en ≠ some (.set bs) := by
  intro hb
  unfold Feature.calcBin at hb
  cases st with
  | none => cases hb
  | some s =>
    cases en with
    | none => simp only at hb; split at hb <;> cases hb
    | some e =>
      obtain ⟨b, hb'⟩ := GffProofs.C12.binOne_isInt s e .gff
      unfold Bins.binOne at hb'
      simp only [hb'] at hb
      cases hb

theorem ofFeature_ok (f : Feature) (id : Str) :
    ∃ row, Row.ofFeature { f with id := some id } = .ok row ∧ row.id = id := by
  unfold Row.ofFeature
  simp only
  split
  · rename_i bs hb
    exact absurd hb (calcBin_ne_set _ _ _)
  · exact ⟨_, rfl, rfl⟩

theorem insert_fresh (db : Db) (row : Row) (h : row.id ∉ db.features.map (·.id)) :
    db.insert row = .ok { db with features := db.features ++ [row] } := by
  unfold Db.insert Db.hasId
  have : db.features.any (fun x => decide (x.id = row.id)) = false := by
    rw [List.any_eq_false]
    intro x hx hxe
    apply h
    simp only [decide_eq_true_eq] at hxe
    exact List.mem_map.mpr ⟨x, hx, hxe⟩
  simp [this]

theorem edge1_nil (p c : Str) : ¬ Edge1 [] p c := by
  rintro ⟨f, hf, _⟩; cases hf

theorem edge1_append_single (pre : List Feature) (f : Feature) (p c : Str) :
    Edge1 (pre ++ [f]) p c ↔ Edge1 pre p c ∨ (idOf f = some c ∧ p ∈ parentsOf f) := by
  unfold Edge1
  constructor
  · rintro ⟨g, hg, h1, h2⟩
    rcases List.mem_append.mp hg with hg | hg
    · exact Or.inl ⟨g, hg, h1, h2⟩
    · simp only [List.mem_singleton] at hg; subst hg; exact Or.inr ⟨h1, h2⟩
  · rintro (⟨g, hg, h1, h2⟩ | ⟨h1, h2⟩)
    · exact ⟨g, List.mem_append_left _ hg, h1, h2⟩
    · exact ⟨f, by simp, h1, h2⟩

/-- the invariant of `_populate_from_lines` after the prefix `pre` -/
structure Inv (pre : List Feature) (db : Db) : Prop where
  feats : db.features.map (·.id) = pre.filterMap idOf
  rels : ∀ r, r ∈ db.relations ↔ ∃ p c, r = ⟨p, c, 1⟩ ∧ Edge1 pre p c
  nodup : db.relations.Nodup

theorem gffStep_inv (strategy : Strategy) (d : Dialect) (pre : List Feature) (db : Db) (auto : Dict Nat)
    (f : Feature) (id : Str) (hid : idOf f = some id) (hfresh : id ∉ pre.filterMap idOf) (inv : Inv pre db) :
    ∃ db', gffStep (gffCfg strategy d) (db, auto) f = .ok (db', auto) ∧ Inv (pre ++ [f]) db' := by
  obtain ⟨row, hrow, hrid⟩ := ofFeature_ok f id
  have hins := insert_fresh db row (by rw [hrid, inv.feats]; exact hfresh)
  refine ⟨((f.attrs.get? parentKey).getD []).foldl (fun db p => db.insertRelIgnore ⟨p, id, 1⟩)
      { db with features := db.features ++ [row] }, ?_, ?_, ?_, ?_⟩
  · simp only [gffStep, gffCfg, idHandler_default auto f id hid, fileFeature, hrow, hins, bind, Except.bind,
      pure, Except.pure]
  · rw [foldl_insertRel_features]
    simp only [List.map_append, List.map_cons, List.map_nil, List.filterMap_append, List.filterMap_cons,
      List.filterMap_nil, hid, hrid, inv.feats]
  · intro r
    rw [foldl_insertRel_mem]
    show (r ∈ db.relations ∨ _) ↔ _
    rw [inv.rels]
    constructor
    · rintro (⟨p, c, rfl, he⟩ | ⟨p, hp, rfl⟩)
      · exact ⟨p, c, rfl, (edge1_append_single _ _ _ _).mpr (Or.inl he)⟩
      · exact ⟨p, id, rfl, (edge1_append_single _ _ _ _).mpr (Or.inr ⟨hid, hp⟩)⟩
    · rintro ⟨p, c, rfl, he⟩
      rcases (edge1_append_single _ _ _ _).mp he with he | ⟨h1, h2⟩
      · exact Or.inl ⟨p, c, rfl, he⟩
      · rw [hid] at h1; cases h1
        exact Or.inr ⟨p, h2, rfl⟩
  · exact foldl_insertRel_nodup _ _ _ inv.nodup

theorem foldlM_inv (strategy : Strategy) (d : Dialect) (post : List Feature) :
    ∀ (pre : List Feature) (db : Db) (auto : Dict Nat), Inv pre db →
      (∀ f ∈ post, ∃ id, idOf f = some id) → ((pre ++ post).filterMap idOf).Nodup →
      ∃ db', post.foldlM (gffStep (gffCfg strategy d)) (db, auto) = .ok (db', auto) ∧ Inv (pre ++ post) db' := by
  induction post with
  | nil =>
    intro pre db auto inv _ _
    exact ⟨db, rfl, by simpa using inv⟩
  | cons f post ih =>
    intro pre db auto inv hids hnd
    obtain ⟨id, hid⟩ := hids f (by simp)
    have hnd' : (((pre ++ [f]) ++ post).filterMap idOf).Nodup := by simpa using hnd
    have hfresh : id ∉ pre.filterMap idOf := by
      intro hmem
      rw [List.filterMap_append, List.filterMap_cons, hid, List.nodup_append] at hnd
      exact hnd.2.2 id hmem id (by simp) rfl
    obtain ⟨db1, h1, inv1⟩ := gffStep_inv strategy d pre db auto f id hid hfresh inv
    obtain ⟨db2, h2, inv2⟩ := ih (pre ++ [f]) db1 auto inv1 (fun g hg => hids g (by simp [hg])) hnd'
    refine ⟨db2, ?_, by simpa using inv2⟩
    simp only [List.foldlM_cons, h1, bind, Except.bind]
    exact h2

theorem populateGff_inv (strategy : Strategy) (d : Dialect) (fs : List Feature) (h : GraphOk fs) :
    ∃ db, populateGff (gffCfg strategy d) {} [] fs = .ok (db, []) ∧ Inv fs db := by
  have hne : fs.isEmpty = false := by
    cases fs with
    | nil => exact absurd rfl h.nonempty
    | cons a l => rfl
  have inv0 : Inv [] ({} : Db) :=
    ⟨rfl, fun r => ⟨fun hr => (by cases hr), fun ⟨p, c, _, he⟩ => absurd he (edge1_nil p c)⟩, List.nodup_nil⟩
  obtain ⟨db, hdb, inv⟩ := foldlM_inv strategy d fs [] {} [] inv0 h.ids (by simpa using h.nodup)
  refine ⟨db, ?_, by simpa using inv⟩
  unfold populateGff
  rw [hne]
  exact hdb

/-- the database `create_db` returns, explicitly -/
theorem createDb_eq (strategy : Strategy) (d : Dialect) (dirs : List Str) (fs : List Feature) (h : GraphOk fs) :
    ∃ db0, Inv fs db0 ∧
      createDb .gff (gffCfg strategy d) dirs fs = .ok (finalize (updateRelationsGff db0) d dirs []) := by
  obtain ⟨db0, h0, inv⟩ := populateGff_inv strategy d fs h
  refine ⟨db0, inv, ?_⟩
  simp only [createDb, h0, bind, Except.bind, pure, Except.pure]
  rfl

/-- **Import succeeds, stores every line once in order, and the relations are exactly the Parent graph**:
level 1 = the Parent values; level 2 = two level-1 steps starting from a *stored* feature; nothing else;
no duplicates. Dangling Parent values (naming no stored feature) cause no error. -/
theorem import_relations_exact (strategy : Strategy) (d : Dialect) (dirs : List Str) (fs : List Feature)
    (h : GraphOk fs) :
    ∃ db, createDb .gff (gffCfg strategy d) dirs fs = .ok db ∧
      db.features.map (·.id) = fs.filterMap idOf ∧
      (∀ p c, (⟨p, c, 1⟩ : Rel) ∈ db.relations ↔ Edge1 fs p c) ∧
      (∀ p c, (⟨p, c, 2⟩ : Rel) ∈ db.relations ↔
          (p ∈ fs.filterMap idOf ∧ ∃ m, Edge1 fs p m ∧ Edge1 fs m c)) ∧
      (∀ r ∈ db.relations, r.level = 1 ∨ r.level = 2) ∧
      db.relations.Nodup := by
  obtain ⟨db0, inv, hdb⟩ := createDb_eq strategy d dirs fs h
  have e1 : ∀ p c, (⟨p, c, 1⟩ : Rel) ∈ db0.relations ↔ Edge1 fs p c := by
    intro p c
    rw [inv.rels]
    constructor
    · rintro ⟨p', c', heq, he⟩; cases heq; exact he
    · intro he; exact ⟨p, c, rfl, he⟩
  refine ⟨_, hdb, ?_, ?_, ?_, ?_, ?_⟩
  · rw [finalize_features, updateRelationsGff_features]; exact inv.feats
  · intro p c
    rw [finalize_relations, updateRelationsGff_mem, e1]
    constructor
    · rintro (he | ⟨row, _, m, c', _, _, heq⟩)
      · exact he
      · cases heq
    · exact Or.inl
  · intro p c
    rw [finalize_relations, updateRelationsGff_mem, inv.rels]
    constructor
    · rintro (⟨p', c', heq, _⟩ | ⟨row, hrow, m, c', h1, h2, heq⟩)
      · cases heq
      · cases heq
        refine ⟨?_, m, (e1 _ _).mp h1, (e1 _ _).mp h2⟩
        rw [← inv.feats]
        exact List.mem_map.mpr ⟨row, hrow, rfl⟩
    · rintro ⟨hp, m, h1, h2⟩
      rw [← inv.feats] at hp
      obtain ⟨row, hrow, rfl⟩ := List.mem_map.mp hp
      exact Or.inr ⟨row, hrow, m, c, (e1 _ _).mpr h1, (e1 _ _).mpr h2, rfl⟩
  · intro r hr
    rw [finalize_relations, updateRelationsGff_mem, inv.rels] at hr
    rcases hr with ⟨p, c, rfl, _⟩ | ⟨row, _, m, c, _, _, rfl⟩
    · exact Or.inl rfl
    · exact Or.inr rfl
  · rw [finalize_relations]
    exact updateRelationsGff_nodup _ inv.nodup

theorem graphOk_perm {fs gs : List Feature} (h : GraphOk fs) (hp : fs.Perm gs) : GraphOk gs where
  nonempty := by
    intro hg; subst hg
    exact h.nonempty (List.perm_nil.mp hp)
  ids := fun f hf => h.ids f (hp.mem_iff.mpr hf)
  nodup := ((hp.filterMap idOf).nodup_iff).mp h.nodup

theorem edge1_perm {fs gs : List Feature} (hp : fs.Perm gs) (p c : Str) : Edge1 fs p c ↔ Edge1 gs p c := by
  unfold Edge1
  constructor
  · rintro ⟨f, hf, h⟩; exact ⟨f, hp.mem_iff.mp hf, h⟩
  · rintro ⟨f, hf, h⟩; exact ⟨f, hp.mem_iff.mpr hf, h⟩

/-- **Order independence**: any permutation of the lines gives the same relation *set*. -/
theorem order_independent (strategy : Strategy) (d : Dialect) (dirs : List Str) (fs gs : List Feature)
    (h : GraphOk fs) (hp : fs.Perm gs) :
    ∃ db₁ db₂, createDb .gff (gffCfg strategy d) dirs fs = .ok db₁ ∧
      createDb .gff (gffCfg strategy d) dirs gs = .ok db₂ ∧
      (∀ r, r ∈ db₁.relations ↔ r ∈ db₂.relations) := by
  obtain ⟨db₁, h1, _, a1, a2, a3, _⟩ := import_relations_exact strategy d dirs fs h
  obtain ⟨db₂, h2, _, b1, b2, b3, _⟩ := import_relations_exact strategy d dirs gs (graphOk_perm h hp)
  have key : ∀ p c l, l = 1 ∨ l = 2 → ((⟨p, c, l⟩ : Rel) ∈ db₁.relations ↔ (⟨p, c, l⟩ : Rel) ∈ db₂.relations) := by
    intro p c l hl
    rcases hl with rfl | rfl
    · rw [a1, b1, edge1_perm hp]
    · rw [a2, b2, (hp.filterMap idOf).mem_iff]
      simp only [edge1_perm hp]
  refine ⟨db₁, db₂, h1, h2, fun r => ⟨fun hr => ?_, fun hr => ?_⟩⟩
  · obtain ⟨p, c, l⟩ := r
    exact (key p c l (a3 _ hr)).mp hr
  · obtain ⟨p, c, l⟩ := r
    exact (key p c l (b3 _ hr)).mpr hr

theorem mem_runRelation_empty (s : Session) (isChildren : Bool) (x : Str) (level : Option Int) (r : Row) :
    r ∈ runRelation s isChildren x level {} ↔ (r ∈ s.db.features ∧ ∃ rel ∈ s.db.relations,
        (match level with | some l => rel.level = l | none => True) ∧
        (if isChildren then rel.parent = x ∧ rel.child = r.id else rel.child = x ∧ rel.parent = r.id)) := by
  rw [runRelation_empty, List.mem_filter, List.contains_iff_mem, mem_related]
  exact Iff.rfl

/-- **children / parents read the table exactly, each feature once** (no filter, no ordering):
`children(x, level)` are the stored features `y` with a relation `(x, y, level)` (any level when
`level = none`); `parents` is the same with the roles swapped; results contain only stored features
(no phantom), each once when the stored ids are distinct. -/
theorem relation_query_exact (s : Session) (isChildren : Bool) (x : Str) (level : Option Int)
    (hid : (s.db.features.map (·.id)).Nodup) :
    let res := runRelation s isChildren x level {}
    (res.map (·.id)).Nodup ∧
    (∀ r, r ∈ res ↔ (r ∈ s.db.features ∧ ∃ rel ∈ s.db.relations,
        (match level with | some l => rel.level = l | none => True) ∧
        (if isChildren then rel.parent = x ∧ rel.child = r.id else rel.child = x ∧ rel.parent = r.id))) := by
  intro res
  refine ⟨?_, fun r => ?_⟩
  rotate_left
  · cases level
    · exact mem_runRelation_empty s isChildren x none r
    · exact mem_runRelation_empty s isChildren x (some _) r
  show ((runRelation s isChildren x level {}).map (·.id)).Nodup
  rw [runRelation_empty]
  exact hid.sublist (List.filter_sublist.map _)

/-- **parents is the exact inverse of children at every level** -/
theorem parents_inverse (s : Session) (x y : Row) (level : Option Int)
    (hx : x ∈ s.db.features) (hy : y ∈ s.db.features) :
    y ∈ runRelation s true x.id level {} ↔ x ∈ runRelation s false y.id level {} := by
  rw [mem_runRelation_empty, mem_runRelation_empty]
  simp only [if_true, Bool.false_eq_true, if_false]
  constructor
  · rintro ⟨_, rel, hrel, hl, hp, hc⟩; exact ⟨hx, rel, hrel, hl, hc, hp⟩
  · rintro ⟨_, rel, hrel, hl, hc, hp⟩; exact ⟨hy, rel, hrel, hl, hp, hc⟩

/-- **x is never its own relative** when no feature is its own ancestor within two steps -/
theorem not_self (strategy : Strategy) (d : Dialect) (dirs : List Str) (fs : List Feature) (h : GraphOk fs)
    (hacyc : ∀ x, ¬ Edge1 fs x x ∧ ¬ ∃ m, Edge1 fs x m ∧ Edge1 fs m x)
    (db : Db) (hdb : createDb .gff (gffCfg strategy d) dirs fs = .ok db) :
    ∀ r ∈ db.relations, r.parent ≠ r.child := by
  obtain ⟨db', h1, _, a1, a2, a3, _⟩ := import_relations_exact strategy d dirs fs h
  rw [hdb] at h1; cases h1
  rintro ⟨p, c, l⟩ hr heq
  simp only at heq; subst heq
  rcases a3 _ hr with hl | hl <;> simp only at hl <;> subst hl
  · exact (hacyc p).1 ((a1 _ _).mp hr)
  · exact (hacyc p).2 ((a2 _ _).mp hr).2

/-! ### Non-vacuity: gene → mRNA → two exons; `e2` has two parents, one of them (`m2`) dangling; the
lines are given children-first -/

section Example

def mkF (ft id : String) (s e : Int) (parents : List String) : Feature :=
  { seqid := "chr1".toList, ftype := ft.toList, start := some s, stop := some e,
    attrs := [("ID".toList, [id.toList])] ++
      (if parents.isEmpty then [] else [("Parent".toList, parents.map String.toList)]) }

def ex : List Feature :=
  [mkF "exon" "e2" 300 400 ["m1", "m2"], mkF "gene" "g1" 1 1000 [], mkF "mRNA" "m1" 1 1000 ["g1"],
   mkF "exon" "e1" 100 200 ["m1"]]

theorem ex_ok : GraphOk ex where
  nonempty := by simp [ex]
  ids := by
    intro f hf
    simp only [ex, List.mem_cons, List.not_mem_nil, or_false] at hf
    rcases hf with rfl | rfl | rfl | rfl <;> exact ⟨_, rfl⟩
  nodup := by decide +kernel

def rel (p c : String) (l : Int) : Rel := ⟨p.toList, c.toList, l⟩

/-- the relation table of the example, computed by the model -/
example : (createDb .gff (gffCfg .error Dialect.default) [] ex).toOption.map (·.relations) =
    some [rel "m1" "e2" 1, rel "m2" "e2" 1, rel "g1" "m1" 1, rel "m1" "e1" 1, rel "g1" "e2" 2, rel "g1" "e1" 2] := by
  decide +kernel

/-- `import_relations_exact` / `order_independent` apply to the example (and to its reversal) -/
example : ∃ db₁ db₂, createDb .gff (gffCfg .merge Dialect.default) [] ex = .ok db₁ ∧
    createDb .gff (gffCfg .merge Dialect.default) [] ex.reverse = .ok db₂ ∧
    (∀ r, r ∈ db₁.relations ↔ r ∈ db₂.relations) :=
  order_independent .merge Dialect.default [] ex ex.reverse ex_ok (List.reverse_perm ex).symm

theorem ex_edges (p c : Str) : Edge1 ex p c ↔
    (p, c) ∈ [("m1".toList, "e2".toList), ("m2".toList, "e2".toList), ("g1".toList, "m1".toList),
              ("m1".toList, "e1".toList)] := by
  obtain ⟨db, hdb, _, h1, _⟩ := import_relations_exact .error Dialect.default [] ex ex_ok
  rw [← h1]
  have : db.relations =
      [rel "m1" "e2" 1, rel "m2" "e2" 1, rel "g1" "m1" 1, rel "m1" "e1" 1, rel "g1" "e2" 2, rel "g1" "e1" 2] := by
    have : (createDb .gff (gffCfg .error Dialect.default) [] ex).toOption.map (·.relations) =
      some [rel "m1" "e2" 1, rel "m2" "e2" 1, rel "g1" "m1" 1, rel "m1" "e1" 1, rel "g1" "e2" 2, rel "g1" "e1" 2] := by
      decide +kernel
    rw [hdb] at this
    simpa [Except.toOption] using this
  rw [this]
  simp [rel, Rel.mk.injEq]

/-- the acyclicity hypothesis of `not_self` holds for the example -/
example : ∀ x, ¬ Edge1 ex x x ∧ ¬ ∃ m, Edge1 ex x m ∧ Edge1 ex m x := by
  intro x
  simp only [ex_edges]
  simp
  constructor
  · refine ⟨?_, ?_, ?_, ?_⟩ <;> (rintro rfl; decide)
  · rintro m (⟨rfl, rfl⟩ | ⟨rfl, rfl⟩ | ⟨rfl, rfl⟩ | ⟨rfl, rfl⟩) <;> decide

/-- the opened example database satisfies the hypothesis of `relation_query_exact` (distinct stored
ids), and `children("g1", level=2)` / `parents("e2")` are what the table says -/
def exSession : Option Session :=
  (createDb .gff (gffCfg .error Dialect.default) [] ex).toOption.map
    (fun db => { db := db, auto := [], dialect := Dialect.default, directives := [] })

example : exSession.map (fun s =>
      (decide (s.db.features.map (·.id)).Nodup,
       (runRelation s true "g1".toList (some 2) {}).map (·.id),
       (runRelation s false "e2".toList none {}).map (·.id))) =
    some (true, ["e2".toList, "e1".toList], ["g1".toList, "m1".toList]) := by
  decide +kernel

end Example

end GffProofs.C02
