/-
  C14 (part b) — directives survive updates.

  `db.directives` after `create_db` is the directive list of the imported file (`C14.db_directives`).  This
  file adds the life of that list AFTER the import: every `update` re-runs `_finalize`, which appends the
  importer's directive list to the `directives` table.  In the model `Interface.update` hands `[]` to
  `Create.finalize`: the real `FeatureDB.update` builds its `_DBCreator` without the iterator's directives,
  so the `##` lines of an update's input are DROPPED, not appended (validated by the correspondence, not
  proved here).  Consequently the table — and what `FeatureDB.__init__` reads from it on reopening — is
  the creation's list for the whole life of the file.  A code change that let `update` write its input's
  directives (or re-write the table) would break "db.directives after reopening" although no earlier
  theorem spoke about updates.

  * `finalize_directives`      — `_finalize` appends; with `[]` the table is unchanged.
  * `update_directives`        — one successful `update` (any format / configuration / input).
  * `history_directives`       — any successful history from any session: the table does not move.
  * `directives_survive`       — `create_db … dirs fs`, open, any history: session, table and every reopening
                                 give exactly `dirs`.
  * `directives_survive_file`  — the same with `dirs` the directives `create_db` collects from a file
                                 (repaired iterator): every reopening gives `directivesSpec lines`.
-/
import GffProofs.Props.C09c
import GffProofs.Props.C14

namespace GffProofs.C14
open GffModel GffModel.Create GffModel.Interface
open GffProofs.C09 (HStep runSteps DirOk)

/-- `_finalize` APPENDS the directive list it is given; given none, the table is unchanged -/
theorem finalize_directives (db : Db) (d : Dialect) (dirs : List Str) (auto : Dict Nat) :
    (finalize db d dirs auto).directives = db.directives ++ dirs ∧
    (finalize db d [] auto).directives = db.directives :=
  ⟨rfl, List.append_nil _⟩

/-- **one `update` leaves the directives alone** — the table and the session's copy, for GFF3 and GTF
databases, every configuration, strategy and input (whatever directives that input's file had) -/
theorem update_directives (s s' : Session) (cfg : Cfg) (fs : List Feature) (h : update s cfg fs = .ok s') :
    s'.db.directives = s.db.directives ∧ s'.directives = s.directives ∧
    ∀ ko sv s'', openDb s'.db ko sv = .ok s'' → s''.directives = s.db.directives := by
  obtain ⟨_, hd, _, _, _, hdir⟩ := C09.update_tables s s' cfg fs h
  refine ⟨hdir, hd, fun ko sv s'' ho => ?_⟩
  obtain ⟨_, _, _, _, rfl⟩ := C09.openDb_dialect_head _ ko sv s'' ho
  exact hdir

/-- **no history moves the `directives` table** (from ANY session, steps with arbitrary configurations);
a session whose copy agrees with the table keeps its copy, and every reopening reads the same list -/
theorem history_directives (steps : List HStep) (s s' : Session) (h : runSteps s steps = .ok s') :
    s'.db.directives = s.db.directives ∧ (DirOk s → s'.directives = s.directives) ∧
    ∀ ko sv s'', openDb s'.db ko sv = .ok s'' → s''.directives = s.db.directives := by
  obtain ⟨_, hdir, _, ho⟩ := C09.history_tables steps s s' h
  refine ⟨hdir, fun hok => (ho hok).2, fun ko sv s'' hopen => ?_⟩
  obtain ⟨_, _, _, _, rfl⟩ := C09.openDb_dialect_head _ ko sv s'' hopen
  exact hdir

/-- **directives survive updates**: after `create_db` with directive list `dirs` (either importer, any
configuration), opening, and any finite sequence of successful update / delete / add_relation / reopen
steps, `db.directives` of the session is `dirs`, the table holds `dirs`, and reopening (any flags)
succeeds and reads exactly `dirs` — nothing dropped, nothing added by the updates' inputs. -/
theorem directives_survive (imp : Importer) (cfg : Cfg) (dirs : List Str) (fs : List Feature) (db : Db)
    (ko sv : Bool) (s s' : Session) (steps : List HStep)
    (hc : createDb imp cfg dirs fs = .ok db) (ho : openDb db ko sv = .ok s) (hr : runSteps s steps = .ok s') :
    s.directives = dirs ∧ s'.directives = dirs ∧ s'.db.directives = dirs ∧
    ∀ ko' sv', ∃ s'', openDb s'.db ko' sv' = .ok s'' ∧ s''.directives = dirs := by
  obtain ⟨_, _, _, h1, h2, h3⟩ := C09.history_dialect imp cfg dirs fs db ko sv s s' steps hc ho hr
  obtain ⟨_, hd⟩ := C09.createDb_tables imp cfg dirs fs db hc
  obtain ⟨_, _, _, _, rfl⟩ := C09.openDb_dialect_head db ko sv s ho
  refine ⟨hd, h1, h2, fun ko' sv' => ?_⟩
  obtain ⟨s'', a, _, b⟩ := h3 ko' sv'
  exact ⟨s'', a, b⟩

/-- **the file's directives, for the life of the database**: with `dirs` the list `create_db` collects
from the lines of a file (repaired iterator; any `checklines`, dialect inferred or supplied), every
reopening after any history reads every `##` line of the body, in file order (`directivesSpec`). -/
theorem directives_survive_file (lines : List Str) (cl : Nat) (peeked : Bool)
    (imp : Importer) (cfg : Cfg) (fs : List Feature) (db : Db)
    (ko sv : Bool) (s s' : Session) (steps : List HStep)
    (hc : createDb imp cfg (Iter.createDbDirectives .repaired lines cl peeked) fs = .ok db)
    (ho : openDb db ko sv = .ok s) (hr : runSteps s steps = .ok s') :
    s'.directives = directivesSpec lines ∧
    ∀ ko' sv', ∃ s'', openDb s'.db ko' sv' = .ok s'' ∧ s''.directives = directivesSpec lines := by
  have h := directives_survive imp cfg _ fs db ko sv s s' steps hc ho hr
  rw [(db_directives lines cl peeked).1] at h
  exact ⟨h.2.1, h.2.2.2⟩

/-! ### non-vacuity -/

/-- the history of `C09.hist` (two non-empty updates, an empty one, delete, reopen, add_relation) on a
database created with one directive: reopened at the end, the directive list is the creation's -/
example : ((C09.created.bind (fun s => openDb s.db true true)).toOption.map (fun s => (s.directives, s.db.directives))) =
    some (["gff-version 3".toList], ["gff-version 3".toList]) := by decide +kernel

/-- `directives_survive_file` applied to a concrete file (`demo`: a directive before and one after the
window, a FASTA tail): its hypotheses are met by the evaluated chain -/
example : ((do
      let db ← createDb .gff C09.cfg0 (Iter.createDbDirectives .repaired demo 0 true) [C09.gA]
      let s ← openDb db
      let s ← runSteps s C09.hist
      openDb s.db).toOption.map (fun (s : Session) => s.directives)) = some (directivesSpec demo) := by decide +kernel

end GffProofs.C14
