/-
  C18 — coordinate conventions of the exports: `len(feature)`, `feature.sequence(fasta)`,
  `FeatureDB.bed12(...)` and `convert.to_bed12(...)`.

  Every theorem is about the frozen model `GffModel.Export` (tied to the Python code by the differential
  check).  Specifications written from the property text come first; the theorems state
  "model = specification".
-/
import GffModel.Export
import GffProofs.Props.C11
import GffProofs.Props.C04
import GffProofs.Lemmas.C18Aux

namespace GffProofs.C18
open GffModel GffModel.Export GffModel.Interface GffProofs.C18Aux

/-! ## Specifications -/

/-- a row whose `start` and `end` are integers (neither is `.` / `None`) -/
def IntCoords (r : Row) : Prop := r.start.isSome = true ∧ r.stop.isSome = true

instance (r : Row) : Decidable (IntCoords r) := by unfold IntCoords; infer_instance

/-- the (1-based, inclusive) start of a row with integer coordinates (`0` is a don't-care default, never used
under `IntCoords`) -/
def lo (r : Row) : Int := r.start.getD 0
/-- the (1-based, inclusive) end of a row with integer coordinates -/
def hi (r : Row) : Int := r.stop.getD 0

theorem IntCoords.start_eq {r : Row} (h : IntCoords r) : r.start = some (lo r) := by
  unfold IntCoords at h; unfold lo; cases hs : r.start <;> simp [hs] at h ⊢
theorem IntCoords.stop_eq {r : Row} (h : IntCoords r) : r.stop = some (hi r) := by
  unfold IntCoords at h; unfold hi; cases hs : r.stop <;> simp [hs] at h ⊢

/-- **bases `a … b` (1-based, inclusive) of `seq`**: drop the first `a-1`, keep `b-a+1`.  Pinned down
pointwise by `specBases_length` / `specBases_getElem?`. -/
def SpecBases (seq : Str) (a b : Int) : Str := (seq.drop (a - 1).toNat).take (b - a + 1).toNat

/-- reverse complement -/
def revComp (l : Str) : Str := l.reverse.map complement

/-- the alphabet the model's complement table covers -/
def alphabet : List Char := ['A', 'C', 'G', 'T', 'N', 'a', 'c', 'g', 't', 'n',
  'R', 'Y', 'K', 'M', 'S', 'W', 'B', 'D', 'H', 'V', 'X', 'r', 'y', 'k', 'm', 's', 'w', 'b', 'd', 'h', 'v', 'x']

/-- the twelve BED12 fields -/
structure Bed12Fields where
  chrom : Str
  chromStart : Int
  chromEnd : Int
  name : Str
  score : Str
  strand : Str
  thickStart : Int
  thickEnd : Int
  itemRgb : Str
  blockCount : Nat
  blockSizes : List Int
  blockStarts : List Int

/-- the twelve columns as text: integers in decimal, the two lists comma-joined -/
def Bed12Fields.columns (b : Bed12Fields) : List Str :=
  [b.chrom, Str.intToStr b.chromStart, Str.intToStr b.chromEnd, b.name, b.score, b.strand,
   Str.intToStr b.thickStart, Str.intToStr b.thickEnd, b.itemRgb, Str.natToStr b.blockCount,
   Str.join [','] (b.blockSizes.map Str.intToStr), Str.join [','] (b.blockStarts.map Str.intToStr)]

/-- the BED12 line: the columns joined by tabs -/
def Bed12Fields.line (b : Bed12Fields) : Str := Str.join ['\t'] b.columns

/-- **block rows**: the children of `id` with a block featuretype ordered by start, or the feature itself
when there are none -/
def blockRows (s : Session) (id : Str) (block : List Str) (f : Row) : List Row :=
  if (kids s id block).isEmpty then [f] else kids s id block

/-- exactly one of `thick_featuretype` / `thin_featuretype` is given (non-empty) -/
def ExactlyOne (thick thin : List Str) : Prop := (thick ≠ [] ∧ thin = []) ∨ (thick = [] ∧ thin ≠ [])

/-- the children that delimit the thick region: of the thick featuretypes when those are given, otherwise
of the thin featuretypes; ordered by start -/
def thickRows (s : Session) (id : Str) (thick thin : List Str) : List Row :=
  kids s id (if thick.isEmpty then thin else thick)

/-- **thickStart / thickEnd**.  With thick children `t`: start of the first (0-based) and end of the last.
With thin children `t` (UTRs): end of the first and start-1 of the last.  With no such child: the
feature's own `start` and `end` — `start`, not `start-1`: this is what the code does. -/
def SpecThick (f : Row) (thickGiven : Bool) (t : List Row) : Int × Int :=
  match t.head?, t.getLast? with
  | some a, some b => if thickGiven then (lo a - 1, hi b) else (hi a, lo b - 1)
  | _, _ => (lo f, hi f)

/-- the name column: first value of the `name_field` attribute, `.` when the attribute is absent -/
def SpecName (f : Row) (nameField : Str) : Str :=
  match f.attrs.get? nameField with
  | some (v :: _) => v
  | _ => ['.']

/-- the colour column: the argument (default `0,0,0`) with spaces removed, stripped -/
def SpecColor (color : Option Str) : Str := Str.strip ((color.getD "0,0,0".toList).filter (· ≠ ' '))

/-- **BED12 of `FeatureDB.bed12`** for a feature row `f` with block rows `bs` and thick bounds `tb`:
`chromStart = start-1`, `chromEnd = end`, `score` `.` → `0`, `blockCount = |bs|`, `blockSizes` = the
blocks' lengths `end-start+1`, `blockStarts` = the blocks' 0-based starts relative to `chromStart`. -/
def SpecBed12 (f : Row) (bs : List Row) (tb : Int × Int) (name color : Str) : Bed12Fields :=
  { chrom := f.seqid, chromStart := lo f - 1, chromEnd := hi f, name := name,
    score := if f.score = ['.'] then ['0'] else f.score, strand := f.strand,
    thickStart := tb.1, thickEnd := tb.2, itemRgb := color, blockCount := bs.length,
    blockSizes := bs.map (fun r => hi r - lo r + 1),
    blockStarts := bs.map (fun r => (lo r - 1) - (lo f - 1)) }

/-- **BED12 of `convert.to_bed12`**: same `chromStart`/`chromEnd`/blocks; the score is copied, the thick
region is the whole feature written as `start … end` (sic: `start`, not `start-1`), colour `0,0,0`;
`blockStarts` relative to `start`. -/
def SpecToBed12 (f : Row) (children : List Row) (name : Str) : Bed12Fields :=
  { chrom := f.seqid, chromStart := lo f - 1, chromEnd := hi f, name := name, score := f.score,
    strand := f.strand, thickStart := lo f, thickEnd := hi f, itemRgb := "0,0,0".toList,
    blockCount := children.length,
    blockSizes := children.map (fun r => hi r - lo r + 1),
    blockStarts := children.map (fun r => lo r - lo f) }

/-- the `feature` argument of `FeatureDB.bed12`: an id string or a `Feature` object -/
inductive FeatureArg
  | id (k : Str)
  | feature (g : Feature)

/-- what `self.children(feature, …)` and `self[feature]` look up: the string itself, or `feature.id` -/
def FeatureArg.key : FeatureArg → Option Str
  | .id k => some k
  | .feature g => g.id

/-- `db.bed12(arg, …)` on the repaired code path (`feature = self[feature]` before anything reads a
coordinate): everything is computed from the key.  A `Feature` with `id = None` is never returned by the
database; for it both look-ups are made with `None`: no children, then `FeatureNotFoundError` (after the
thick/thin `ValueError` check). -/
def bed12Arg (s : Session) (a : FeatureArg) (block thick thin : List Str) (nameField : Str) (color : Option Str) :
    Py Str :=
  match a.key with
  | some k => bed12 s k block thick thin nameField color
  | none => if !thick.isEmpty && !thin.isEmpty then .error .value else .error .featureNotFound

/-! ## 1. `len` -/

/-- **`len(feature) = end - start + 1`** for integer coordinates, `TypeError` otherwise -/
theorem len_def (f : Feature) :
    (∀ s e : Int, f.start = some s → f.stop = some e → Feature.len f = .ok (e - s + 1)) ∧
    ((f.start = none ∨ f.stop = none) → Feature.len f = .error .type) := by
  constructor
  · intro s e hs he; simp [Feature.len, hs, he]
  · intro h
    unfold Feature.len
    rcases h with h | h
    · simp [h]
    · cases hs : f.start <;> simp [h]

/-- the same on a stored row -/
theorem rowLen_def (r : Row) :
    (∀ s e : Int, r.start = some s → r.stop = some e → rowLen r = .ok (e - s + 1)) ∧
    ((r.start = none ∨ r.stop = none) → rowLen r = .error .type) := by
  constructor
  · intro s e hs he; simp [rowLen, hs, he]
  · intro h
    unfold rowLen
    rcases h with h | h
    · simp [h]
    · cases hs : r.start <;> simp [h]

/-- `len` of the Feature the database returns for a row is the row's length -/
theorem len_returner (s : Session) (r : Row) : Feature.len (s.returner r) = rowLen r := rfl

theorem rowLen_of_intCoords {r : Row} (h : IntCoords r) : rowLen r = .ok (hi r - lo r + 1) :=
  (rowLen_def r).1 _ _ h.start_eq h.stop_eq

/-! ## 2. `sequence` -/

theorem specBases_length (seq : Str) (a b : Int) (h1 : 1 ≤ a) (h2 : a ≤ b) (h3 : b ≤ seq.length) :
    ((SpecBases seq a b).length : Int) = b - a + 1 := by
  unfold SpecBases
  simp only [List.length_take, List.length_drop]
  omega

/-- the `k`-th base (0-based) of the extract is base number `a + k` (1-based) of the sequence -/
theorem specBases_getElem? (seq : Str) (a b : Int) (k : Nat) (hk : (k : Int) < b - a + 1) :
    (SpecBases seq a b)[k]? = seq[(a - 1).toNat + k]? := by
  unfold SpecBases
  rw [List.getElem?_take_of_lt (by omega), List.getElem?_drop]

theorem revComp_length (l : Str) : (revComp l).length = l.length := by simp [revComp]

/-- base `k` of the reverse complement is the complement of base `k` counted from the end -/
theorem revComp_getElem? (l : Str) (k : Nat) (hk : k < l.length) :
    (revComp l)[k]? = (l[l.length - 1 - k]?).map complement := by
  unfold revComp
  rw [List.getElem?_map, List.getElem?_reverse hk]

/-- **`complement` is an involution** (on the modelled alphabet it swaps `A↔T`, `C↔G`, fixes `N`; every
other character is left alone) -/
theorem complement_involutive (c : Char) : complement (complement c) = c := complement_complement c

theorem complement_alphabet (c : Char) (h : c ∈ alphabet) : complement c ∈ alphabet := by
  have hall : ∀ c ∈ alphabet, complement c ∈ alphabet := by decide
  exact hall c h

/-- reverse-complementing twice is the identity -/
theorem revComp_revComp (l : Str) : revComp (revComp l) = l := by
  unfold revComp
  rw [← List.map_reverse, List.reverse_reverse, map_complement_involutive]

theorem slice_eq_specBases (seq : Str) (a b : Int) (h2 : a ≤ b) :
    slice seq (a - 1) b = SpecBases seq a b := by
  unfold slice SpecBases
  rw [if_neg (by omega)]
  congr 2
  omega

/-- **`feature.sequence(fasta, use_strand)`**: for `1 ≤ start ≤ end ≤ |seq|` the result is exactly bases
`start … end` of the named sequence, reverse-complemented iff the strand is `-` and `use_strand`. -/
theorem sequence_slice (fasta : Dict Str) (seqid seq strand : Str) (useStrand : Bool) (a b : Int)
    (hseq : fasta.get? seqid = some seq) (_h1 : 1 ≤ a) (h2 : a ≤ b) (_h3 : b ≤ seq.length) :
    sequence fasta seqid (some a) (some b) strand useStrand =
      .ok (if strand = ['-'] ∧ useStrand = true then revComp (SpecBases seq a b) else SpecBases seq a b) := by
  unfold sequence
  simp only [hseq, getInt, bind, Except.bind, pure, Except.pure, slice_eq_specBases seq a b h2]
  congr 1
  cases useStrand <;> by_cases hs : strand = ['-'] <;> simp [hs, revComp]

/-- … so its length is `end - start + 1 = len(feature)`, on either strand -/
theorem sequence_length (fasta : Dict Str) (seqid seq strand : Str) (useStrand : Bool) (a b : Int)
    (hseq : fasta.get? seqid = some seq) (h1 : 1 ≤ a) (h2 : a ≤ b) (h3 : b ≤ seq.length)
    (f : Feature) (hfs : f.start = some a) (hfe : f.stop = some b) :
    ∃ out, sequence fasta seqid f.start f.stop strand useStrand = .ok out ∧
      (out.length : Int) = b - a + 1 ∧ Feature.len f = .ok (out.length : Int) := by
  rw [hfs, hfe, sequence_slice fasta seqid seq strand useStrand a b hseq h1 h2 h3]
  refine ⟨_, rfl, ?_⟩
  have hl := specBases_length seq a b h1 h2 h3
  have : ((if strand = ['-'] ∧ useStrand = true then revComp (SpecBases seq a b) else SpecBases seq a b).length : Int)
      = b - a + 1 := by
    split
    · rw [revComp_length]; exact hl
    · exact hl
  exact ⟨this, by rw [this]; exact (len_def f).1 a b hfs hfe⟩

/-- a minus-strand extract read back on the minus strand is the plus-strand extract -/
theorem sequence_minus_is_revComp_of_plus (fasta : Dict Str) (seqid seq : Str) (a b : Int)
    (hseq : fasta.get? seqid = some seq) (h1 : 1 ≤ a) (h2 : a ≤ b) (h3 : b ≤ seq.length) :
    ∃ p m, sequence fasta seqid (some a) (some b) ['+'] true = .ok p ∧
      sequence fasta seqid (some a) (some b) ['-'] true = .ok m ∧
      sequence fasta seqid (some a) (some b) ['-'] false = .ok p ∧
      m = revComp p ∧ revComp m = p := by
  refine ⟨SpecBases seq a b, revComp (SpecBases seq a b), ?_, ?_, ?_, rfl, revComp_revComp _⟩
  · rw [sequence_slice fasta seqid seq _ _ a b hseq h1 h2 h3]; simp
  · rw [sequence_slice fasta seqid seq _ _ a b hseq h1 h2 h3]; simp
  · rw [sequence_slice fasta seqid seq _ _ a b hseq h1 h2 h3]; simp

/-- an unknown sequence name is a `KeyError`; a `.` coordinate a `TypeError` -/
theorem sequence_errors (fasta : Dict Str) (seqid seq strand : Str) (useStrand : Bool) (start stop : Option Int) :
    (fasta.get? seqid = none → sequence fasta seqid start stop strand useStrand = .error .key) ∧
    (fasta.get? seqid = some seq → (start = none ∨ stop = none) →
      sequence fasta seqid start stop strand useStrand = .error .type) := by
  constructor
  · intro h; simp [sequence, h, bind, Except.bind, throw, throwThe, MonadExceptOf.throw]
  · intro h hc
    unfold sequence
    rcases hc with hc | hc
    · simp [h, hc, getInt, bind, Except.bind, pure, Except.pure]
    · cases start <;> simp [h, hc, getInt, bind, Except.bind, pure, Except.pure]

/-! ## 3. `bed12`: the twelve fields -/

/-- `kids` is exactly "the children with an admitted featuretype, ordered by start": a permutation of
the stored rows that are children (any level) of `id` with featuretype in `fts` (no restriction when
`fts` is empty), each once, sorted by sqlite's `ORDER BY start` -/
theorem kids_exact (s : Session) (id : Str) (fts : List Str) :
    (kids s id fts).Perm (s.db.features.filter (fun r =>
        (related s.db true id none).contains r.id && (fts.isEmpty || fts.contains r.ftype))) ∧
    (kids s id fts).Pairwise (fun a b => (optInt a.start).le (optInt b.start) = true) :=
  ⟨kids_perm s id fts, kids_sorted s id fts⟩

theorem blockRows_ne_nil (s : Session) (id : Str) (block : List Str) (f : Row) : blockRows s id block f ≠ [] := by
  unfold blockRows
  split
  · simp
  · rename_i h; intro h'; rw [h'] at h; simp at h

/-- there always is a first and a last block row -/
theorem blockRows_first_last (s : Session) (id : Str) (block : List Str) (f : Row) :
    ∃ a b, (blockRows s id block f).head? = some a ∧ (blockRows s id block f).getLast? = some b := by
  have h := blockRows_ne_nil s id block f
  cases hb : blockRows s id block f with
  | nil => exact absurd hb h
  | cons x xs => exact ⟨x, (x :: xs).getLast (by simp), rfl, List.getLast?_eq_some_getLast (by simp)⟩

theorem not_both_of_exactlyOne {thick thin : List Str} (h : ExactlyOne thick thin) :
    (!thick.isEmpty && !thin.isEmpty) = false := by
  rcases h with ⟨_, h2⟩ | ⟨h1, _⟩
  · simp [h2]
  · simp [h1]

theorem withName_ok (f : Row) (nf : Str) (k : Str → Py Str) (h : f.attrs.get? nf ≠ some []) :
    withName f nf k = k (SpecName f nf) := by
  unfold withName SpecName
  cases hg : f.attrs.get? nf with
  | none => rfl
  | some l =>
    cases l with
    | nil => exact absurd hg h
    | cons v vs => rfl

theorem getInt_some (i : Int) : getInt (some i) = .ok i := rfl
theorem ok_bind {ε α β : Type} (a : α) (k : α → Except ε β) : (Except.ok a >>= k) = k a := rfl

theorem relStart_of_intCoords (c : Int) {r : Row} (h : IntCoords r) : relStart c r = .ok (lo r - 1 - c) := by
  unfold relStart; rw [h.start_eq]; rfl

theorem withThick_ok (s : Session) (id : Str) (thick thin : List Str) (f : Row)
    (k : Option (Option Int × Option Int) → Py Str)
    (hfc : IntCoords f) (hone : ExactlyOne thick thin)
    (htc : ∀ r ∈ thickRows s id thick thin, IntCoords r) :
    withThick s id thick thin f k =
      k (some (some (SpecThick f (!thick.isEmpty) (thickRows s id thick thin)).1,
               some (SpecThick f (!thick.isEmpty) (thickRows s id thick thin)).2)) := by
  unfold withThick SpecThick
  rcases hone with ⟨h1, h2⟩ | ⟨h1, h2⟩
  · have hk : (!thick.isEmpty) = true := by cases thick <;> simp_all
    have hr : thickRows s id thick thin = kids s id thick := by
      unfold thickRows; cases thick <;> simp_all
    rw [hr] at htc ⊢
    simp only [hk, if_true]
    cases hh : (kids s id thick).head? with
    | none => simp only [hfc.start_eq, hfc.stop_eq]
    | some a =>
      cases hl : (kids s id thick).getLast? with
      | none => simp only [hfc.start_eq, hfc.stop_eq]
      | some b =>
        have ha := htc a (List.mem_of_head? hh)
        have hb := htc b (List.mem_of_getLast? hl)
        simp only [ha.start_eq, hb.stop_eq, getInt_some, ok_bind]
  · have hk : (!thick.isEmpty) = false := by simp [h1]
    have hk2 : (!thin.isEmpty) = true := by cases thin <;> simp_all
    have hr : thickRows s id thick thin = kids s id thin := by
      unfold thickRows; simp [h1]
    rw [hr] at htc ⊢
    simp only [hk, hk2, if_true, Bool.false_eq_true, if_false]
    cases hh : (kids s id thin).head? with
    | none => simp only [hfc.start_eq, hfc.stop_eq]
    | some a =>
      cases hl : (kids s id thin).getLast? with
      | none => simp only [hfc.start_eq, hfc.stop_eq]
      | some b =>
        have ha := htc a (List.mem_of_head? hh)
        have hb := htc b (List.mem_of_getLast? hl)
        simp only [ha.stop_eq, hb.start_eq, getInt_some, ok_bind]

/-- the stages after the span checks produce exactly the specified line -/
theorem body_ok (s : Session) (id : Str) (thick thin : List Str) (nameField : Str) (color : Option Str)
    (f b : Row) (exons : List Row)
    (hfc : IntCoords f) (hone : ExactlyOne thick thin) (hname : f.attrs.get? nameField ≠ some [])
    (hbc : ∀ r ∈ exons, IntCoords r) (htc : ∀ r ∈ thickRows s id thick thin, IntCoords r)
    (hb : exons.getLast? = some b) (hbs : b.stop = f.stop) :
    body s id thick thin nameField color f exons =
      .ok (SpecBed12 f exons (SpecThick f (!thick.isEmpty) (thickRows s id thick thin))
        (SpecName f nameField) (SpecColor color)).line := by
  unfold body
  have hsizes : exons.mapM rowLen = .ok (exons.map (fun r => hi r - lo r + 1)) :=
    mapM_eq_ok_map _ _ _ (fun r hr => rowLen_of_intCoords (hbc r hr))
  have hstarts : exons.mapM (relStart (lo f - 1)) = .ok (exons.map (fun r => lo r - 1 - (lo f - 1))) :=
    mapM_eq_ok_map _ _ _ (fun r hr => relStart_of_intCoords _ (hbc r hr))
  have hbI := hbc b (List.mem_of_getLast? hb)
  rw [hfc.start_eq, getInt_some, ok_bind, withName_ok f nameField _ hname, hsizes, ok_bind, hstarts, ok_bind,
    withThick_ok s id thick thin f _ hfc hone htc]
  rw [tail_eq f (lo f - 1) _ _ _ _ _ _ (lo b - 1 - (lo f - 1)) (hi b - lo b + 1)
    (by rw [List.getLast?_map, hb]; rfl) (by rw [List.getLast?_map, hb]; rfl)]
  have hstop : some (lo f - 1 + (lo b - 1 - (lo f - 1)) + (hi b - lo b + 1)) = f.stop := by
    rw [← hbs, hbI.stop_eq]; congr 1; omega
  rw [if_neg (fun h => h hstop)]
  unfold finish
  simp only [hfc.stop_eq]
  rfl

/-- **`bed12_fields`** — for a stored feature `f` with integer coordinates, exactly one of thick/thin given,
a usable name attribute, block rows and thick (resp. thin) rows with integer coordinates: whenever the first
block starts at `f.start` and the last block ends at `f.end`, `bed12` returns exactly the tab-join of the
twelve specified fields. -/
theorem bed12_fields (s : Session) (id : Str) (block thick thin : List Str) (nameField : Str) (color : Option Str)
    (f : Row) (hf : s.db.getRow? id = some f) (hfc : IntCoords f)
    (hone : ExactlyOne thick thin) (hname : f.attrs.get? nameField ≠ some [])
    (hbc : ∀ r ∈ blockRows s id block f, IntCoords r)
    (htc : ∀ r ∈ thickRows s id thick thin, IntCoords r)
    (hfirst : ∃ a, (blockRows s id block f).head? = some a ∧ a.start = f.start)
    (hlast : ∃ b, (blockRows s id block f).getLast? = some b ∧ b.stop = f.stop) :
    bed12 s id block thick thin nameField color =
      .ok (SpecBed12 f (blockRows s id block f) (SpecThick f (!thick.isEmpty) (thickRows s id thick thin))
        (SpecName f nameField) (SpecColor color)).line := by
  obtain ⟨a, ha, has⟩ := hfirst
  obtain ⟨b, hb, hbs⟩ := hlast
  rw [bed12_present s id block thick thin nameField color f (not_both_of_exactlyOne hone) hf]
  change spanCheck s id thick thin nameField color f (blockRows s id block f) = _
  rw [spanCheck_eq s id thick thin nameField color f a b _ ha hb, if_neg (fun h => h has), if_neg (fun h => h hbs)]
  exact body_ok s id thick thin nameField color f b _ hfc hone hname hbc htc hb hbs

/-! ### consequences for the fields -/

/-- `blockStarts` are the blocks' starts relative to the feature's start -/
theorem specBed12_blockStarts (f : Row) (bs : List Row) (tb : Int × Int) (name color : Str) :
    (SpecBed12 f bs tb name color).blockStarts = bs.map (fun r => lo r - lo f) := by
  simp only [SpecBed12]
  apply List.map_congr_left
  intro r _; omega

/-- **the first block starts at 0** (under the span condition on the first block) -/
theorem bed12_first_block_zero (f a : Row) (bs : List Row) (tb : Int × Int) (name color : Str)
    (ha : bs.head? = some a) (has : a.start = f.start) :
    (SpecBed12 f bs tb name color).blockStarts.head? = some 0 := by
  rw [specBed12_blockStarts, List.head?_map, ha]
  have : lo a = lo f := by unfold lo; rw [has]
  simp [this]

/-- **the last block ends at `chromEnd`**: `chromStart + blockStarts[-1] + blockSizes[-1] = chromEnd`, so the
code's final assertion never fires under the span condition on the last block -/
theorem bed12_last_block_end (f b : Row) (bs : List Row) (tb : Int × Int) (name color : Str)
    (hb : bs.getLast? = some b) (hbs : b.stop = f.stop) :
    ∃ ls lz, (SpecBed12 f bs tb name color).blockStarts.getLast? = some ls ∧
      (SpecBed12 f bs tb name color).blockSizes.getLast? = some lz ∧
      (SpecBed12 f bs tb name color).chromStart + ls + lz = (SpecBed12 f bs tb name color).chromEnd := by
  refine ⟨lo b - 1 - (lo f - 1), hi b - lo b + 1, ?_, ?_, ?_⟩
  · simp only [SpecBed12, List.getLast?_map, hb]; rfl
  · simp only [SpecBed12, List.getLast?_map, hb]; rfl
  · have : hi b = hi f := by unfold hi; rw [hbs]
    simp only [SpecBed12]; omega

/-- **`blockSizes` are the blocks' lengths** (`len` of each block feature) and `blockCount` their number:
the children when there are any, otherwise one block (the feature itself) -/
theorem bed12_sizes_are_lengths (s : Session) (id : Str) (block : List Str) (f : Row) (tb : Int × Int) (name color : Str)
    (hbc : ∀ r ∈ blockRows s id block f, IntCoords r) :
    (blockRows s id block f).mapM rowLen = .ok (SpecBed12 f (blockRows s id block f) tb name color).blockSizes ∧
    (SpecBed12 f (blockRows s id block f) tb name color).blockSizes.length =
      (SpecBed12 f (blockRows s id block f) tb name color).blockCount ∧
    (SpecBed12 f (blockRows s id block f) tb name color).blockStarts.length =
      (SpecBed12 f (blockRows s id block f) tb name color).blockCount ∧
    (SpecBed12 f (blockRows s id block f) tb name color).blockCount =
      (if kids s id block = [] then 1 else (kids s id block).length) := by
  refine ⟨mapM_eq_ok_map _ _ _ (fun r hr => rowLen_of_intCoords (hbc r hr)), by simp [SpecBed12],
    by simp [SpecBed12], ?_⟩
  simp only [SpecBed12, blockRows]
  cases kids s id block <;> simp

/-- **thick bounds from the thick children**: `thickStart` = 0-based start of the first thick child,
`thickEnd` = end of the last -/
theorem specThick_thick (f a b : Row) (t : List Row) (ha : t.head? = some a) (hb : t.getLast? = some b) :
    SpecThick f true t = (lo a - 1, hi b) := by
  simp [SpecThick, ha, hb]

/-- thick bounds from thin children (UTRs): `thickStart` = end of the first, `thickEnd` = start-1 of the last -/
theorem specThick_thin (f a b : Row) (t : List Row) (ha : t.head? = some a) (hb : t.getLast? = some b) :
    SpecThick f false t = (hi a, lo b - 1) := by
  simp [SpecThick, ha, hb]

/-- no thick (resp. thin) child: the feature's own `start` and `end`, as the code does -/
theorem specThick_none (f : Row) (g : Bool) : SpecThick f g [] = (lo f, hi f) := by
  simp [SpecThick]

theorem startLe_of_intCoords {a b : Row} (ha : IntCoords a) (hb : IntCoords b) (h : startLe a b) : lo a ≤ lo b := by
  unfold startLe at h
  rw [ha.start_eq, hb.start_eq] at h
  simpa [optInt, SqlVal.le] using h

/-- **ascending blocks**: the children come `ORDER BY start` (C11's sortedness of `order`), so `blockStarts`
is ascending — and non-negative when the first block starts at the feature's start -/
theorem bed12_block_starts_ascending (s : Session) (id : Str) (block : List Str) (f : Row) (tb : Int × Int)
    (name color : Str) (hbc : ∀ r ∈ blockRows s id block f, IntCoords r) :
    (SpecBed12 f (blockRows s id block f) tb name color).blockStarts.Pairwise (· ≤ ·) := by
  rw [specBed12_blockStarts, List.pairwise_map]
  have hs : (blockRows s id block f).Pairwise startLe := by
    unfold blockRows
    split
    · simp
    · exact kids_sorted s id block
  refine List.Pairwise.imp_of_mem ?_ hs
  intro a b ha hb hab
  have := startLe_of_intCoords (hbc a ha) (hbc b hb) hab
  omega

theorem bed12_block_starts_nonneg (s : Session) (id : Str) (block : List Str) (f a : Row) (tb : Int × Int)
    (name color : Str) (hbc : ∀ r ∈ blockRows s id block f, IntCoords r)
    (ha : (blockRows s id block f).head? = some a) (has : a.start = f.start) :
    ∀ x ∈ (SpecBed12 f (blockRows s id block f) tb name color).blockStarts, 0 ≤ x := by
  have h0 := bed12_first_block_zero f a _ tb name color ha has
  have hp := bed12_block_starts_ascending s id block f tb name color hbc
  generalize (SpecBed12 f (blockRows s id block f) tb name color).blockStarts = l at h0 hp
  cases l with
  | nil => simp
  | cons x xs =>
    simp only [List.head?_cons, Option.some.injEq] at h0
    subst h0
    intro y hy
    rcases List.mem_cons.1 hy with rfl | hy
    · exact Int.le_refl _
    · exact (List.pairwise_cons.1 hp).1 y hy

/-- the line has twelve columns -/
theorem columns_length (b : Bed12Fields) : b.columns.length = 12 := rfl

/-- the five free-text columns contain no tab (true of everything read from a tab-separated line) -/
def TabFree (b : Bed12Fields) : Prop :=
  '\t' ∉ b.chrom ∧ '\t' ∉ b.name ∧ '\t' ∉ b.score ∧ '\t' ∉ b.strand ∧ '\t' ∉ b.itemRgb

/-- **twelve tab-separated fields**: splitting the line at tabs gives back exactly the twelve columns
(the numeric columns consist of digits, `-` and `,` only) -/
theorem line_split (b : Bed12Fields) (h : TabFree b) :
    Str.split ['\t'] b.line = b.columns ∧ b.columns.length = 12 := by
  obtain ⟨h1, h2, h3, h4, h5⟩ := h
  refine ⟨?_, rfl⟩
  have := split_join [] [] '\t' (by simp) b.columns (by simp [Bed12Fields.columns]) (by
    intro p hp
    simp only [Bed12Fields.columns, List.mem_cons, List.not_mem_nil, or_false] at hp
    rcases hp with rfl | rfl | rfl | rfl | rfl | rfl | rfl | rfl | rfl | rfl | rfl | rfl
    · exact h1
    · exact tab_not_in_intToStr _
    · exact tab_not_in_intToStr _
    · exact h2
    · exact h3
    · exact h4
    · exact tab_not_in_intToStr _
    · exact tab_not_in_intToStr _
    · exact h5
    · exact tab_not_in_natToStr _
    · exact tab_not_in_intList _
    · exact tab_not_in_intList _)
  simpa [Bed12Fields.line] using this

/-- the two list columns split at commas into one decimal number per block -/
theorem list_column_split (l : List Int) (h : l ≠ []) :
    Str.split [','] (Str.join [','] (l.map Str.intToStr)) = l.map Str.intToStr := by
  have := split_join [] [] ',' (by simp) (l.map Str.intToStr) (by simpa using h) (by
    intro p hp
    obtain ⟨i, _, rfl⟩ := List.mem_map.1 hp
    exact comma_not_in_intToStr i)
  simpa using this

/-! ## 4. `bed12`: errors -/

/-- **`ValueError` iff the blocks do not span the feature** (exactly one of thick/thin given, feature stored):
`a`/`b` are the first/last block row (they always exist: `blockRows_first_last`).  The comparison is
Python's `!=` on possibly-`None` values, so no integrality hypothesis is needed. -/
theorem bed12_error_iff (s : Session) (id : Str) (block thick thin : List Str) (nameField : Str) (color : Option Str)
    (f a b : Row) (hf : s.db.getRow? id = some f) (hone : ExactlyOne thick thin)
    (ha : (blockRows s id block f).head? = some a) (hb : (blockRows s id block f).getLast? = some b) :
    bed12 s id block thick thin nameField color = .error .value ↔ (a.start ≠ f.start ∨ b.stop ≠ f.stop) := by
  rw [bed12_present s id block thick thin nameField color f (not_both_of_exactlyOne hone) hf]
  change spanCheck s id thick thin nameField color f (blockRows s id block f) = _ ↔ _
  rw [spanCheck_eq s id thick thin nameField color f a b _ ha hb]
  by_cases h1 : a.start ≠ f.start
  · simp [h1]
  · by_cases h2 : b.stop ≠ f.stop
    · simp [h2]
    · rw [if_neg h1, if_neg h2]
      constructor
      · intro h
        have := body_error h
        simp [Late] at this
      · rintro (h | h)
        · exact absurd h h1
        · exact absurd h h2

/-- both `thick_featuretype` and `thin_featuretype` given: `ValueError` (checked before any look-up) -/
theorem bed12_both_given (s : Session) (id : Str) (block thick thin : List Str) (nameField : Str) (color : Option Str)
    (h1 : thick ≠ []) (h2 : thin ≠ []) :
    bed12 s id block thick thin nameField color = .error .value := by
  apply bed12_both
  cases thick <;> cases thin <;> simp_all

/-- an id that is not stored: `FeatureNotFoundError` (unless both thick and thin were given) -/
theorem bed12_absent_id (s : Session) (id : Str) (block thick thin : List Str) (nameField : Str) (color : Option Str)
    (h : thick = [] ∨ thin = []) (hf : s.db.getRow? id = none) :
    bed12 s id block thick thin nameField color = .error .featureNotFound := by
  apply bed12_absent _ _ _ _ _ _ _ _ hf
  rcases h with h | h <;> simp [h]

/-- **neither thick nor thin given** (`thick_featuretype=None, thin_featuretype=None`): on an otherwise valid,
spanning input the code reaches the final join with `thickStart` never assigned — `UnboundLocalError`.
(Not part of the property's claim, which quantifies over thick/thin *choices*; recorded because it is what
the code does.) -/
theorem bed12_neither_given (s : Session) (id : Str) (block : List Str) (nameField : Str) (color : Option Str)
    (f : Row) (hf : s.db.getRow? id = some f) (hfc : IntCoords f) (hname : f.attrs.get? nameField ≠ some [])
    (hbc : ∀ r ∈ blockRows s id block f, IntCoords r)
    (hfirst : ∃ a, (blockRows s id block f).head? = some a ∧ a.start = f.start)
    (hlast : ∃ b, (blockRows s id block f).getLast? = some b ∧ b.stop = f.stop) :
    bed12 s id block [] [] nameField color = .error .unbound := by
  obtain ⟨a, ha, has⟩ := hfirst
  obtain ⟨b, hb, hbs⟩ := hlast
  rw [bed12_present s id block [] [] nameField color f rfl hf]
  change spanCheck s id [] [] nameField color f (blockRows s id block f) = _
  rw [spanCheck_eq s id [] [] nameField color f a b _ ha hb, if_neg (fun h => h has), if_neg (fun h => h hbs)]
  unfold body
  have hsizes : (blockRows s id block f).mapM rowLen = .ok ((blockRows s id block f).map (fun r => hi r - lo r + 1)) :=
    mapM_eq_ok_map _ _ _ (fun r hr => rowLen_of_intCoords (hbc r hr))
  have hstarts : (blockRows s id block f).mapM (relStart (lo f - 1)) =
      .ok ((blockRows s id block f).map (fun r => lo r - 1 - (lo f - 1))) :=
    mapM_eq_ok_map _ _ _ (fun r hr => relStart_of_intCoords _ (hbc r hr))
  have hbI := hbc b (List.mem_of_getLast? hb)
  rw [hfc.start_eq, getInt_some, ok_bind, withName_ok f nameField _ hname, hsizes, ok_bind, hstarts, ok_bind]
  have hw : ∀ k, withThick s id [] [] f k = k none := fun k => rfl
  rw [hw, tail_eq f (lo f - 1) _ _ _ _ _ _ (lo b - 1 - (lo f - 1)) (hi b - lo b + 1)
    (by rw [List.getLast?_map, hb]; rfl) (by rw [List.getLast?_map, hb]; rfl)]
  have hstop : some (lo f - 1 + (lo b - 1 - (lo f - 1)) + (hi b - lo b + 1)) = f.stop := by
    rw [← hbs, hbI.stop_eq]; congr 1; omega
  rw [if_neg (fun h => h hstop)]
  rfl

/-- the complete list of exceptions `bed12` can raise; after the span checks only `TypeError` (a `.`
coordinate), `IndexError` (an empty name list), `AssertionError`, `UnboundLocalError` (neither thick nor
thin given) remain -/
theorem bed12_error_cases (s : Session) (id : Str) (block thick thin : List Str) (nameField : Str) (color : Option Str)
    (e : PyErr) (h : bed12 s id block thick thin nameField color = .error e) :
    e = .value ∨ e = .featureNotFound ∨ e = .type ∨ e = .index ∨ e = .assertion ∨ e = .unbound := by
  by_cases hb : (!thick.isEmpty && !thin.isEmpty) = true
  · rw [bed12_both _ _ _ _ _ _ _ hb] at h; cases h; simp
  · have hb' : (!thick.isEmpty && !thin.isEmpty) = false := by simpa using hb
    cases hf : s.db.getRow? id with
    | none => rw [bed12_absent _ _ _ _ _ _ _ hb' hf] at h; cases h; simp
    | some f =>
      obtain ⟨a, b, ha, hl⟩ := blockRows_first_last s id block f
      rw [bed12_present s id block thick thin nameField color f hb' hf] at h
      change spanCheck s id thick thin nameField color f (blockRows s id block f) = _ at h
      rw [spanCheck_eq s id thick thin nameField color f a b _ ha hl] at h
      split at h
      · cases h; simp
      · split at h
        · cases h; simp
        · have := body_error h
          unfold Late at this
          exact Or.inr (Or.inr this)

/-- the assertion is dead code: under integer coordinates it cannot fire once the span checks passed -/
theorem bed12_never_assertion (s : Session) (id : Str) (block thick thin : List Str) (nameField : Str)
    (color : Option Str) (f : Row) (hf : s.db.getRow? id = some f) (hfc : IntCoords f)
    (hone : ExactlyOne thick thin) (hname : f.attrs.get? nameField ≠ some [])
    (hbc : ∀ r ∈ blockRows s id block f, IntCoords r)
    (htc : ∀ r ∈ thickRows s id thick thin, IntCoords r) :
    bed12 s id block thick thin nameField color ≠ .error .assertion := by
  obtain ⟨a, b, ha, hb⟩ := blockRows_first_last s id block f
  by_cases hspan : a.start ≠ f.start ∨ b.stop ≠ f.stop
  · rw [(bed12_error_iff s id block thick thin nameField color f a b hf hone ha hb).2 hspan]
    intro h; cases h
  · have h1 : a.start = f.start := Classical.byContradiction (fun h => hspan (Or.inl h))
    have h2 : b.stop = f.stop := Classical.byContradiction (fun h => hspan (Or.inr h))
    rw [bed12_fields s id block thick thin nameField color f hf hfc hone hname hbc htc ⟨a, ha, h1⟩ ⟨b, hb, h2⟩]
    intro h; cases h

/-! ## 5. id or Feature -/

/-- **`bed12` depends only on what is stored under the id**: the stored row and the ordered children lists.
Two sessions that agree on these give the same result (in particular the coordinates carried by a
`Feature` object passed as argument play no role). -/
theorem bed12_depends_on_stored (s s' : Session) (id : Str) (block thick thin : List Str) (nameField : Str)
    (color : Option Str) (hrow : s.db.getRow? id = s'.db.getRow? id)
    (hkids : ∀ fts, kids s id fts = kids s' id fts) :
    bed12 s id block thick thin nameField color = bed12 s' id block thick thin nameField color := by
  have hw : ∀ f k, withThick s id thick thin f k = withThick s' id thick thin f k := by
    intro f k; unfold withThick; simp only [hkids]
  have hbody : ∀ f ex, body s id thick thin nameField color f ex = body s' id thick thin nameField color f ex := by
    intro f ex; unfold body; simp only [hw]
  have hspan : ∀ f ex, spanCheck s id thick thin nameField color f ex =
      spanCheck s' id thick thin nameField color f ex := by
    intro f ex; unfold spanCheck; simp only [hbody]
  rw [bed12_stages, bed12_stages]
  simp only [hrow, hkids, hspan]

/-- **an id and the Feature carrying that id give the same result.**  In the model the argument of `bed12`
*is* the key; `bed12Arg` adds the Python-level choice "id string or Feature object", resolved as the
repaired code does (`self.children(feature, …)` and `feature = self[feature]` both reduce a Feature to
its `.id` before anything else is read).  So this statement holds by construction of `bed12Arg`; that
`bed12Arg` is what the code does — including for zero block children, where the unrepaired code used the
*argument* as the single block (D8) — is established by the differential correspondence, not here. -/
theorem bed12_id_or_feature (s : Session) (k : Str) (g : Feature) (hg : g.id = some k)
    (block thick thin : List Str) (nameField : Str) (color : Option Str) :
    bed12Arg s (.feature g) block thick thin nameField color = bed12Arg s (.id k) block thick thin nameField color := by
  simp [bed12Arg, FeatureArg.key, hg]

/-- in particular for the Feature the database itself returns for `k` (`db[k]`, C04) -/
theorem bed12_id_or_fetched_feature (s : Session) (k : Str) (g : Feature) (hg : getItem s k = .ok g)
    (block thick thin : List Str) (nameField : Str) (color : Option Str) :
    bed12Arg s (.feature g) block thick thin nameField color = bed12 s k block thick thin nameField color :=
  bed12_id_or_feature s k g (C04.getitem_id s k g hg) block thick thin nameField color

/-- … and two Feature objects with the same id, whatever their other fields -/
theorem bed12_feature_fields_irrelevant (s : Session) (g g' : Feature) (h : g.id = g'.id)
    (block thick thin : List Str) (nameField : Str) (color : Option Str) :
    bed12Arg s (.feature g) block thick thin nameField color =
      bed12Arg s (.feature g') block thick thin nameField color := by
  simp [bed12Arg, FeatureArg.key, h]

/-! ## 6. `convert.to_bed12` -/

/-- **`to_bed12`**: for a stored feature with integer coordinates, a usable name attribute and children of
`child_type` with integer coordinates, the result is exactly the tab-join of the specified fields plus a
newline.  There is no span check and no "no children" fallback: with zero children `blockCount = 0` and
both lists are empty. -/
theorem to_bed12_fields (s : Session) (id childType nameField : Str) (f : Row)
    (hf : s.db.getRow? id = some f) (hfc : IntCoords f) (hname : f.attrs.get? nameField ≠ some [])
    (hcc : ∀ r ∈ kids s id [childType], IntCoords r) :
    toBed12 s id childType nameField =
      .ok ((SpecToBed12 f (kids s id [childType]) (SpecName f nameField)).line ++ ['\n']) := by
  have hsizes : (kids s id [childType]).mapM rowLen = .ok ((kids s id [childType]).map (fun r => hi r - lo r + 1)) :=
    mapM_eq_ok_map _ _ _ (fun r hr => rowLen_of_intCoords (hcc r hr))
  have hstarts : (kids s id [childType]).mapM (fun r => do pure ((← getInt r.start) - lo f)) =
      .ok ((kids s id [childType]).map (fun r => lo r - lo f)) :=
    mapM_eq_ok_map _ _ _ (fun r hr => by rw [(hcc r hr).start_eq]; rfl)
  unfold toBed12
  simp only [hf, hfc.start_eq, hfc.stop_eq, getInt_some, pure_bind, ok_bind, hsizes, hstarts]
  unfold SpecName
  cases hg : f.attrs.get? nameField with
  | none => rfl
  | some l =>
    cases l with
    | nil => exact absurd hg hname
    | cons v vs => rfl

theorem to_bed12_absent_id (s : Session) (id childType nameField : Str) (hf : s.db.getRow? id = none) :
    toBed12 s id childType nameField = .error .featureNotFound := by
  unfold toBed12; simp only [hf]; rfl

/-- **the facts the two converters share**: on the same block list (`block_featuretype = [child_type]`, at
least one child) `chrom`, `chromStart = start-1`, `chromEnd = end`, name, strand, `blockCount`,
`blockSizes` and `blockStarts` coincide -/
theorem to_bed12_agrees_with_bed12 (f : Row) (bs : List Row) (tb : Int × Int) (name color : Str) :
    let x := SpecToBed12 f bs name
    let y := SpecBed12 f bs tb name color
    x.chrom = y.chrom ∧ x.chromStart = lo f - 1 ∧ y.chromStart = lo f - 1 ∧ x.chromEnd = hi f ∧ y.chromEnd = hi f ∧
    x.name = y.name ∧ x.strand = y.strand ∧ x.blockCount = y.blockCount ∧ x.blockSizes = y.blockSizes ∧
    x.blockStarts = y.blockStarts := by
  refine ⟨rfl, rfl, rfl, rfl, rfl, rfl, rfl, rfl, rfl, ?_⟩
  exact (specBed12_blockStarts f bs tb name color).symm

/-! ## Non-vacuity: a concrete session

Transcript `t1` 100..400 with exons 100..150, 200..260, 300..400 (stored out of order) and CDS 120..150,
200..230, UTRs 100..119 and 231..260; transcript `t2` 100..400 whose only exon is 150..400 (does not
span); transcript `t3` 500..600 without children and without an `ID`. -/

/-- decidable equality of results, for the `decide +kernel` evaluations below only -/
local instance exceptDecEq {ε α : Type} [DecidableEq ε] [DecidableEq α] : DecidableEq (Except ε α) :=
  fun x y => match x, y with
  | .ok a, .ok b => if h : a = b then isTrue (by rw [h]) else isFalse (fun h' => h (by cases h'; rfl))
  | .error a, .error b => if h : a = b then isTrue (by rw [h]) else isFalse (fun h' => h (by cases h'; rfl))
  | .ok _, .error _ => isFalse (fun h => by cases h)
  | .error _, .ok _ => isFalse (fun h => by cases h)

private def mkRow (id ftype : String) (start stop : Int) (attrs : Attrs := []) : Row :=
  { id := id.toList, seqid := "chr1".toList, source := ['.'], ftype := ftype.toList, start := some start,
    stop := some stop, score := ['.'], strand := ['-'], frame := ['.'], attrs := attrs, extra := [], bin := none }

private def t1 := mkRow "t1" "mRNA" 100 400 [("ID".toList, ["t1".toList])]
private def e1 := mkRow "e1" "exon" 100 150
private def e2 := mkRow "e2" "exon" 200 260
private def e3 := mkRow "e3" "exon" 300 400
private def c1 := mkRow "c1" "CDS" 120 150
private def c2 := mkRow "c2" "CDS" 200 230
private def u1 := mkRow "u1" "UTR" 100 119
private def u2 := mkRow "u2" "UTR" 231 260
private def t2 := mkRow "t2" "mRNA" 100 400 [("ID".toList, ["t2".toList])]
private def x1 := mkRow "x1" "exon" 150 400
private def t3 := mkRow "t3" "mRNA" 500 600
private def rel (p c : String) : Rel := ⟨p.toList, c.toList, 1⟩

private def sess : Session :=
  { db := { features := [t1, e2, c2, u2, e1, e3, c1, u1, t2, x1, t3],
            relations := [rel "t1" "e1", rel "t1" "e2", rel "t1" "e3", rel "t1" "c1", rel "t1" "c2",
                          rel "t1" "u1", rel "t1" "u2", rel "t2" "x1"] },
    auto := [], dialect := Dialect.default, directives := [] }

private theorem kids_t1_exon : kids sess "t1".toList ["exon".toList] = [e1, e2, e3] :=
  kids_eq_of_sorted _ _ _ _ (by decide +kernel) (by decide +kernel) (by decide +kernel)
private theorem kids_t1_cds : kids sess "t1".toList ["CDS".toList] = [c1, c2] :=
  kids_eq_of_sorted _ _ _ _ (by decide +kernel) (by decide +kernel) (by decide +kernel)
private theorem kids_t1_utr : kids sess "t1".toList ["UTR".toList] = [u1, u2] :=
  kids_eq_of_sorted _ _ _ _ (by decide +kernel) (by decide +kernel) (by decide +kernel)
private theorem kids_t2_exon : kids sess "t2".toList ["exon".toList] = [x1] :=
  kids_eq_of_sorted _ _ _ _ (by decide +kernel) (by decide +kernel) (by decide +kernel)
private theorem kids_t3 (fts : List Str) : kids sess "t3".toList fts = [] := by
  have h := kids_perm sess "t3".toList fts
  have : sess.db.features.filter (isKid sess "t3".toList fts) = [] := by
    apply List.filter_eq_nil_iff.2
    intro r _
    have : related sess.db true "t3".toList none = [] := by decide +kernel
    simp only [isKid, this]
    simp
  rw [this] at h
  exact h.eq_nil

private theorem blocks_t1 : blockRows sess "t1".toList ["exon".toList] t1 = [e1, e2, e3] := by
  unfold blockRows; rw [kids_t1_exon]; rfl
private theorem thick_t1 : thickRows sess "t1".toList ["CDS".toList] [] = [c1, c2] := by
  unfold thickRows; exact kids_t1_cds
private theorem thin_t1 : thickRows sess "t1".toList [] ["UTR".toList] = [u1, u2] := by
  unfold thickRows; exact kids_t1_utr

/-- the BED12 line of `t1` (thick = CDS): every hypothesis of `bed12_fields` holds, and the specified line is
`chr1 99 400 t1 0 - 119 230 0,0,0 3 51,61,101 0,100,200` -/
example : bed12 sess "t1".toList ["exon".toList] ["CDS".toList] [] "ID".toList none =
    .ok "chr1\t99\t400\tt1\t0\t-\t119\t230\t0,0,0\t3\t51,61,101\t0,100,200".toList := by
  rw [bed12_fields sess _ _ _ _ _ _ t1 (by decide +kernel) (by decide) (Or.inl ⟨by decide, rfl⟩) (by decide +kernel)
    (by rw [blocks_t1]; decide) (by rw [thick_t1]; decide)
    ⟨e1, by rw [blocks_t1]; rfl, rfl⟩ ⟨e3, by rw [blocks_t1]; rfl, rfl⟩, blocks_t1, thick_t1]
  decide +kernel

/-- the same transcript with the thick region given by its UTRs (thin), a colour with spaces -/
example : bed12 sess "t1".toList ["exon".toList] [] ["UTR".toList] "ID".toList (some "255, 0, 0".toList) =
    .ok "chr1\t99\t400\tt1\t0\t-\t119\t230\t255,0,0\t3\t51,61,101\t0,100,200".toList := by
  rw [bed12_fields sess _ _ _ _ _ _ t1 (by decide +kernel) (by decide) (Or.inr ⟨rfl, by decide⟩) (by decide +kernel)
    (by rw [blocks_t1]; decide) (by rw [thin_t1]; decide)
    ⟨e1, by rw [blocks_t1]; rfl, rfl⟩ ⟨e3, by rw [blocks_t1]; rfl, rfl⟩, blocks_t1, thin_t1]
  decide +kernel

/-- no block children and no `ID`: one block, name `.`, thick bounds = `start`/`end` (sic) -/
example : bed12 sess "t3".toList ["exon".toList] ["CDS".toList] [] "ID".toList none =
    .ok "chr1\t499\t600\t.\t0\t-\t500\t600\t0,0,0\t1\t101\t0".toList := by
  have hb : blockRows sess "t3".toList ["exon".toList] t3 = [t3] := by unfold blockRows; rw [kids_t3]; rfl
  have ht : thickRows sess "t3".toList ["CDS".toList] [] = [] := by unfold thickRows; exact kids_t3 _
  rw [bed12_fields sess _ _ _ _ _ _ t3 (by decide +kernel) (by decide) (Or.inl ⟨by decide, rfl⟩) (by decide +kernel)
    (by rw [hb]; decide) (by rw [ht]; decide) ⟨t3, by rw [hb]; rfl, rfl⟩ ⟨t3, by rw [hb]; rfl, rfl⟩, hb, ht]
  decide +kernel

/-- a transcript whose blocks do not span it: `ValueError` -/
example : bed12 sess "t2".toList ["exon".toList] ["CDS".toList] [] "ID".toList none = .error .value := by
  have hb : blockRows sess "t2".toList ["exon".toList] t2 = [x1] := by unfold blockRows; rw [kids_t2_exon]; rfl
  exact (bed12_error_iff sess _ _ _ _ _ _ t2 x1 x1 (by decide +kernel) (Or.inl ⟨by decide, rfl⟩)
    (by rw [hb]; rfl) (by rw [hb]; rfl)).2 (Or.inl (by decide))

example : bed12 sess "t1".toList ["exon".toList] ["CDS".toList] ["UTR".toList] "ID".toList none = .error .value :=
  bed12_both_given _ _ _ _ _ _ _ (by decide) (by decide)
example : bed12 sess "nope".toList ["exon".toList] ["CDS".toList] [] "ID".toList none = .error .featureNotFound :=
  bed12_absent_id _ _ _ _ _ _ _ (Or.inr rfl) (by decide +kernel)

/-- the consequences on `t1`: first block 0, last block ends at `chromEnd`, ascending -/
example : (SpecBed12 t1 [e1, e2, e3] (119, 230) "t1".toList "0,0,0".toList).blockStarts = [0, 100, 200] ∧
    (SpecBed12 t1 [e1, e2, e3] (119, 230) "t1".toList "0,0,0".toList).blockSizes = [51, 61, 101] ∧
    (99 : Int) + 200 + 101 = 400 := by decide +kernel
example : TabFree (SpecBed12 t1 [e1, e2, e3] (119, 230) "t1".toList "0,0,0".toList) := by
  unfold TabFree; decide +kernel

/-- `to_bed12` on `t1`: score copied, thick region `start … end`, trailing newline -/
example : toBed12 sess "t1".toList "exon".toList "ID".toList =
    .ok "chr1\t99\t400\tt1\t.\t-\t100\t400\t0,0,0\t3\t51,61,101\t0,100,200\n".toList := by
  rw [to_bed12_fields sess _ _ _ t1 (by decide +kernel) (by decide) (by decide +kernel)
    (by rw [kids_t1_exon]; decide), kids_t1_exon]
  decide +kernel

/-- an id and a Feature carrying that id (with deliberately wrong coordinates) give the same result -/
example : bed12Arg sess (.feature { id := some "t1".toList, start := some 1, stop := some 2 })
      ["exon".toList] ["CDS".toList] [] "ID".toList none =
    bed12Arg sess (.id "t1".toList) ["exon".toList] ["CDS".toList] [] "ID".toList none :=
  bed12_id_or_feature sess _ _ rfl _ _ _ _ _

/-- two different sessions over the same tables (other counters / dialect flags) agree -/
example : bed12 sess "t1".toList ["exon".toList] ["CDS".toList] [] "ID".toList none =
    bed12 { sess with auto := [("exon".toList, 7)], keepOrder := true } "t1".toList ["exon".toList] ["CDS".toList] []
      "ID".toList none :=
  bed12_depends_on_stored _ _ _ _ _ _ _ _ rfl (fun _ => rfl)

/-- `len` and `sequence` on a 13-base reference -/
private def fasta : Dict Str := [("chr1".toList, "ACGTNNGATTACA".toList)]

example : Feature.len { start := some 100, stop := some 400 } = .ok 301 ∧
    Feature.len { start := none, stop := some 400 } = .error .type ∧ rowLen t1 = .ok 301 := by decide +kernel
example : sequence fasta "chr1".toList (some 3) (some 8) ['+'] true = .ok "GTNNGA".toList ∧
    sequence fasta "chr1".toList (some 3) (some 8) ['-'] true = .ok "TCNNAC".toList ∧
    sequence fasta "chr1".toList (some 3) (some 8) ['-'] false = .ok "GTNNGA".toList ∧
    sequence fasta "chr1".toList (some 13) (some 13) ['-'] true = .ok "T".toList ∧
    sequence fasta "chrX".toList (some 3) (some 8) ['-'] true = .error .key := by decide +kernel
example : ∃ out, sequence fasta "chr1".toList (some 3) (some 8) ['-'] true = .ok out ∧ (out.length : Int) = 8 - 3 + 1 ∧
    Feature.len { start := some 3, stop := some 8 } = .ok (out.length : Int) :=
  sequence_length fasta "chr1".toList "ACGTNNGATTACA".toList ['-'] true 3 8 (by decide +kernel) (by decide) (by decide)
    (by decide) { start := some 3, stop := some 8 } rfl rfl
example : SpecBases "ACGTNNGATTACA".toList 3 8 = "GTNNGA".toList ∧
    revComp "GTNNGA".toList = "TCNNAC".toList := by decide +kernel

end GffProofs.C18
