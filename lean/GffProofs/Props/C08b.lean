/-
  C08 (part b) — attribute mappings survive print / re-parse with the same (supplied) dialect.
-/
import GffModel.Parser
import GffProofs.Lemmas.SplitJoin
import GffProofs.Props.C08a
import GffProofs.Lemmas.C08bAux

namespace GffProofs.C08
open GffModel GffModel.Parser GffModel.Str GffProofs.C08bAux

/-- the three field separators of the grammar -/
def IsFieldSep (s : Str) : Prop := s = [';'] ∨ s = [';', ' '] ∨ s = [' ', ';', ' ']

/-- GFF3-style dialect dictionaries (any separator, trailing semicolon, repeated keys, quoting) -/
structure Gff3Dialect (d : Dialect) : Prop where
  fmt : d.fmt = gff3
  kv : d.kvSep = ['=']
  multi : d.multiSep = [',']
  lead : d.leadingSemicolon = false
  sep : IsFieldSep d.fieldSep

/-- mappings: distinct keys free of `;` and `=`, each with a non-empty list of non-empty strings over
ARBITRARY characters (tab, newline, `%`, `;`, `=`, `&`, `,`, control characters, any Unicode).
(The property's word-like keys `[A-Za-z_][A-Za-z0-9_.-]*` satisfy the key condition.) -/
structure MapOk (a : Attrs) : Prop where
  nodup : (a.map (·.1)).Nodup
  keys : ∀ kv ∈ a, ';' ∉ kv.1 ∧ '=' ∉ kv.1
  vals : ∀ kv ∈ a, kv.2 ≠ [] ∧ ∀ v ∈ kv.2, v ≠ []

/-- GTF-style dialects (no escaping): quoted values, space as key/value separator -/
structure GtfDialect (d : Dialect) : Prop where
  fmt : d.fmt = gtf
  kv : d.kvSep = [' ']
  multi : d.multiSep = [',']
  quoted : d.quoted = true
  lead : d.leadingSemicolon = false
  sep : IsFieldSep d.fieldSep

/-- GTF mappings: keys without `;` and blank, not starting with whitespace; values free of `;` and `,`
(the property also excludes `"` and control characters; they are not needed for this statement) -/
structure GtfMapOk (a : Attrs) : Prop where
  nodup : (a.map (·.1)).Nodup
  keys : ∀ kv ∈ a, kv.1 ≠ [] ∧ ';' ∉ kv.1 ∧ ' ' ∉ kv.1 ∧ ∀ c, kv.1.head? = some c → Str.isPySpace c = false
  vals : ∀ kv ∈ a, kv.2 ≠ [] ∧ ∀ v ∈ kv.2, v ≠ [] ∧ ';' ∉ v ∧ ',' ∉ v

/-! ### unfolding the two model functions -/

/-- the per-item step of the fold in `splitProvided` -/
def foldStep (d : Dialect) (quals : Attrs) (item : List Str) : Py Attrs := do
  let (key, val) ← keyVal d.kvSep item
  let quals := if quals.contains key then quals else Dict.set quals key []
  let val := if d.quoted && isQuotedVal val then stripQuotes val else val
  if !val.isEmpty then
    let vals := Str.split [','] val
    pure (Dict.set quals key ((quals.get? key).getD [] ++ vals))
  else pure quals

theorem splitProvided_gff3 (s : Str) (d : Dialect) (hfmt : d.fmt = gff3)
    (hlead : d.leadingSemicolon = false) :
    splitProvided s d false = (do
      let parts ← pySplit d.fieldSep (if d.trailingSemicolon then rstripChars [';'] s else s)
      let keyVals ← parts.mapM (pySplit d.kvSep)
      let quals ← keyVals.foldlM (foldStep d) []
      pure (unquoteQuals quals d false, d)) := by
  unfold splitProvided
  simp only [hfmt, hlead, if_true, Bool.false_eq_true, if_false]
  rfl

theorem splitProvided_gtf (s : Str) (d : Dialect) (hfmt : d.fmt = gtf)
    (hlead : d.leadingSemicolon = false) :
    splitProvided s d false = (do
      let parts ← pySplit d.fieldSep (if d.trailingSemicolon then rstripChars [';'] s else s)
      let pieces ← (parts.zipIdx).mapM (fun (p : Str × Nat) => pySplit d.kvSep (Str.strip p.1))
      let keyVals ← pieces.mapM headRest
      let quals ← keyVals.foldlM (foldStep d) []
      pure (unquoteQuals quals d false, d)) := by
  have hne : gtf ≠ gff3 := by decide
  unfold splitProvided
  simp only [hfmt, hlead, hne, Bool.false_eq_true, if_false, Bool.and_false]
  rfl

def items (d : Dialect) (attrs : Attrs) : List (Str × List Str) :=
  if d.repeatedKeys then
    attrs.flatMap (fun (k, v) => if v.length > 1 then v.map (fun x => (k, [x])) else [(k, v)])
  else attrs

def mkPart (d : Dialect) : Str × List Str → Str := fun (key, val) =>
  if !val.isEmpty then
    let valStr := Str.join d.multiSep val
    if !valStr.isEmpty then
      let valStr := if d.quoted then '"' :: valStr ++ ['"'] else valStr
      Str.join d.kvSep [key, valStr]
    else key
  else
    if d.fmt = gtf then Str.join d.kvSep [key, ['"', '"']] else key

def attrsOf (d : Dialect) (a : Attrs) : Attrs :=
  if false || d.fmt ≠ gff3 then a else Dict.ofList (a.map (fun (k, v) => (k, v.map Quote.quoteStr)))

theorem reconstruct_eq (d : Dialect) (a : Attrs) (hne : a ≠ []) :
    reconstruct a (some d) false false =
      .ok (if d.trailingSemicolon then Str.join d.fieldSep ((items d (attrsOf d a)).map (mkPart d)) ++ [';']
           else Str.join d.fieldSep ((items d (attrsOf d a)).map (mkPart d))) := by
  have : a.isEmpty = false := by cases a <;> simp_all
  unfold reconstruct
  simp only [this, Bool.false_eq_true, if_false]
  rfl


/-! ### values text and the fold step -/

def wrap (d : Dialect) (t : Str) : Str := if d.quoted then '"' :: t ++ ['"'] else t
def valText (d : Dialect) (chunk : List Str) : Str := wrap d (Str.join [','] chunk)

def addVals (q : Attrs) (it : Str × List Str) : Attrs :=
  let q' := if q.contains it.1 then q else Dict.set q it.1 []
  Dict.set q' it.1 ((q'.get? it.1).getD [] ++ it.2)

theorem mem_valText (d : Dialect) (chunk : List Str) (c : Char) (h : c ∈ valText d chunk) :
    c = '"' ∨ c = ',' ∨ ∃ x ∈ chunk, c ∈ x := by
  unfold valText wrap at h
  have hj : c ∈ Str.join [','] chunk → c = ',' ∨ ∃ x ∈ chunk, c ∈ x := by
    intro h
    rcases mem_join _ _ _ h with h | h
    · left; simpa using h
    · right; exact h
  split at h
  · simp only [List.mem_cons, List.mem_append, List.not_mem_nil, or_false] at h
    rcases h with (h | h) | h
    · left; exact h
    · right; exact hj h
    · left; exact h
  · right; exact hj h

theorem isQuotedVal_wrap (t : Str) : isQuotedVal ('"' :: t ++ ['"']) = true := by
  have : ('"' :: t ++ ['"']).getLast? = some '"' := by
    rw [List.getLast?_concat]
  simp only [isQuotedVal, this]
  simp

theorem stripQuotes_wrap (t : Str) : stripQuotes ('"' :: t ++ ['"']) = t := by
  simp [stripQuotes]

theorem split_join_comma (chunk : List Str) (hne : chunk ≠ []) (h : ∀ x ∈ chunk, ',' ∉ x) :
    Str.split [','] (Str.join [','] chunk) = chunk :=
  split_join [] [] ',' (by simp) chunk hne h

theorem foldStep_item (d : Dialect) (q : Attrs) (k : Str) (chunk : List Str) (hne : chunk ≠ [])
    (h : ∀ x ∈ chunk, x ≠ [] ∧ ',' ∉ x) :
    foldStep d q [k, valText d chunk] = .ok (addVals q (k, chunk)) := by
  have hj : Str.join [','] chunk ≠ [] := by
    cases chunk with
    | nil => exact absurd rfl hne
    | cons x r => exact join_ne_nil _ _ _ (h x (by simp)).1
  have hv : (if (d.quoted && isQuotedVal (valText d chunk)) = true then stripQuotes (valText d chunk)
      else valText d chunk) = Str.join [','] chunk := by
    unfold valText wrap
    cases hq : d.quoted
    · simp
    · simp only [Bool.true_and, isQuotedVal_wrap, stripQuotes_wrap, if_true]
  have he : (Str.join [','] chunk).isEmpty = false := by
    cases hh : Str.join [','] chunk with
    | nil => exact absurd hh hj
    | cons _ _ => rfl
  unfold foldStep
  simp only [keyVal, bind, Except.bind, hv, he, Bool.not_false, if_true, pure, Except.pure,
    split_join_comma chunk hne (fun x hx => (h x hx).2)]
  rfl

theorem addVals_new (acc : Attrs) (k : Str) (chunk : List Str) (h : k ∉ acc.map (·.1)) :
    addVals acc (k, chunk) = acc ++ [(k, chunk)] := by
  unfold addVals
  simp only [Dict.contains, get?_none_of_not_mem acc k h, Option.isSome_none, Bool.false_eq_true,
    if_false, set_of_not_mem acc k _ h, get?_append_last acc k _ h, Option.getD_some,
    set_append_last acc k _ _ h, List.nil_append]

theorem addVals_last (acc : Attrs) (k : Str) (cur chunk : List Str) (h : k ∉ acc.map (·.1)) :
    addVals (acc ++ [(k, cur)]) (k, chunk) = acc ++ [(k, cur ++ chunk)] := by
  unfold addVals
  simp only [Dict.contains, get?_append_last acc k _ h, Option.isSome_some, if_true,
    Option.getD_some, set_append_last acc k _ _ h]

theorem foldl_singles (acc : Attrs) (k : Str) (cur rest : List Str) (h : k ∉ acc.map (·.1)) :
    (rest.map (fun x => (k, [x]))).foldl addVals (acc ++ [(k, cur)]) = acc ++ [(k, cur ++ rest)] := by
  induction rest generalizing cur with
  | nil => simp
  | cons x r ih =>
    simp only [List.map_cons, List.foldl_cons, addVals_last acc k cur [x] h, ih]
    simp

/-- the items printed for one entry -/
def expand (d : Dialect) (kv : Str × List Str) : List (Str × List Str) :=
  if d.repeatedKeys then
    (if kv.2.length > 1 then kv.2.map (fun x => (kv.1, [x])) else [(kv.1, kv.2)])
  else [kv]

theorem items_eq (d : Dialect) (attrs : Attrs) : items d attrs = attrs.flatMap (expand d) := by
  unfold items expand
  cases d.repeatedKeys
  · simp
  · simp

theorem foldl_expand (d : Dialect) (acc : Attrs) (kv : Str × List Str) (h : kv.1 ∉ acc.map (·.1)) :
    (expand d kv).foldl addVals acc = acc ++ [kv] := by
  obtain ⟨k, v⟩ := kv
  unfold expand
  split
  · split
    · rename_i hl
      cases v with
      | nil => simp at hl
      | cons x r =>
        simp only [List.map_cons, List.foldl_cons, addVals_new acc k [x] h]
        rw [foldl_singles acc k [x] r h]; simp
    · simp [addVals_new acc k v h]
  · simp [addVals_new acc k v h]

theorem foldl_items (d : Dialect) (attrs acc : Attrs) (h : ((acc ++ attrs).map (·.1)).Nodup) :
    (items d attrs).foldl addVals acc = acc ++ attrs := by
  rw [items_eq]
  induction attrs generalizing acc with
  | nil => simp
  | cons kv r ih =>
    have hq : kv.1 ∉ acc.map (·.1) := by
      simp only [List.map_append, List.map_cons, List.nodup_append, List.mem_cons] at h
      intro hmem
      exact h.2.2 _ hmem kv.1 (Or.inl rfl) rfl
    rw [List.flatMap_cons, List.foldl_append, foldl_expand d acc kv hq, ih]
    · simp
    · simpa using h

/-- what `expand` preserves: a key property, non-emptiness, a value property -/
theorem items_forall (d : Dialect) (attrs : Attrs) (P : Str → Prop) (Q : Str → Prop)
    (h : ∀ kv ∈ attrs, P kv.1 ∧ kv.2 ≠ [] ∧ ∀ x ∈ kv.2, Q x) :
    ∀ it ∈ items d attrs, P it.1 ∧ it.2 ≠ [] ∧ ∀ x ∈ it.2, Q x := by
  intro it hit
  rw [items_eq] at hit
  obtain ⟨kv, hkv, hit⟩ := List.mem_flatMap.mp hit
  have hk := h kv hkv
  unfold expand at hit
  split at hit
  · split at hit
    · obtain ⟨x, hx, rfl⟩ := List.mem_map.mp hit
      refine ⟨hk.1, by simp, ?_⟩
      intro y hy
      simp only [List.mem_cons, List.not_mem_nil, or_false] at hy
      rw [hy]; exact hk.2.2 x hx
    · simp only [List.mem_cons, List.not_mem_nil, or_false] at hit
      subst hit; exact hk
  · simp only [List.mem_cons, List.not_mem_nil, or_false] at hit
    subst hit; exact hk

theorem items_ne_nil (d : Dialect) (attrs : Attrs) (hne : attrs ≠ []) (h : ∀ kv ∈ attrs, kv.2 ≠ []) :
    items d attrs ≠ [] := by
  cases attrs with
  | nil => exact absurd rfl hne
  | cons kv r =>
    rw [items_eq, List.flatMap_cons]
    have : expand d kv ≠ [] := by
      unfold expand
      have := h kv (by simp)
      split
      · split
        · simpa using this
        · simp
      · simp
    simp [this]

/-! ### the parse side -/

theorem not_bad (c : Char) (h : bad c = false) :
    c ≠ ';' ∧ c ≠ '=' ∧ c ≠ ',' ∧ c ≠ '\t' ∧ c ≠ '\n' ∧ c ≠ '\r' := by
  refine ⟨?_, ?_, ?_, ?_, ?_, ?_⟩ <;> (intro hc; subst hc; revert h; decide)


def part (d : Dialect) (it : Str × List Str) : Str := it.1 ++ d.kvSep ++ valText d it.2

theorem mkPart_eq (d : Dialect) (hm : d.multiSep = [',']) (it : Str × List Str) (hne : it.2 ≠ [])
    (hx : ∀ x ∈ it.2, x ≠ []) : mkPart d it = part d it := by
  obtain ⟨k, v⟩ := it
  have hj : Str.join [','] v ≠ [] := by
    cases v with
    | nil => exact absurd rfl hne
    | cons x r => exact join_ne_nil _ _ _ (hx x (by simp))
  have he : (Str.join [','] v).isEmpty = false := by
    cases hh : Str.join [','] v with
    | nil => exact absurd hh hj
    | cons _ _ => rfl
  have hv : v.isEmpty = false := by
    cases v with
    | nil => exact absurd rfl hne
    | cons _ _ => rfl
  simp only [mkPart, part, valText, wrap, hm, hv, he, Bool.not_false, if_true, Str.join]

theorem fieldSep_ne (fs : Str) (h : IsFieldSep fs) : fs ≠ [] := by
  rcases h with h | h | h <;> simp [h]

theorem split_fieldSep (fs : Str) (h : IsFieldSep fs) (parts : List Str) (hne : parts ≠ [])
    (hp : ∀ p ∈ parts, ';' ∉ p) : Str.split fs (Str.join fs parts) = parts := by
  rcases h with h | h | h <;> subst h
  · exact split_join [] [] ';' (by simp) parts hne hp
  · exact split_join [] [' '] ';' (by simp) parts hne hp
  · exact split_join [' '] [' '] ';' (by simp) parts hne hp

theorem join_isEmpty (sep : Str) (parts : List Str) (hne : parts ≠ []) (hp : ∀ p ∈ parts, p ≠ []) :
    (Str.join sep parts).isEmpty = false := by
  cases parts with
  | nil => exact absurd rfl hne
  | cons p r =>
    have := join_ne_nil sep p r (hp p (by simp))
    cases hh : Str.join sep (p :: r) with
    | nil => exact absurd hh this
    | cons _ _ => rfl

/-- the text handed to the field split is the joined parts, with or without the trailing `;` -/
theorem stripped (d : Dialect) (parts : List Str) (hne : parts ≠ [])
    (hp : ∀ p ∈ parts, p ≠ [] ∧ ';' ∉ p) :
    (if d.trailingSemicolon then
        Str.rstripChars [';'] (if d.trailingSemicolon then Str.join d.fieldSep parts ++ [';']
          else Str.join d.fieldSep parts)
      else (if d.trailingSemicolon then Str.join d.fieldSep parts ++ [';']
          else Str.join d.fieldSep parts)) = Str.join d.fieldSep parts := by
  cases d.trailingSemicolon
  · simp
  · simp only [if_true]; exact rstrip_join _ _ hne hp

theorem printed_isEmpty (d : Dialect) (parts : List Str) (hne : parts ≠ []) (hp : ∀ p ∈ parts, p ≠ []) :
    (if d.trailingSemicolon then Str.join d.fieldSep parts ++ [';']
          else Str.join d.fieldSep parts).isEmpty = false := by
  have := join_isEmpty d.fieldSep parts hne hp
  split
  · cases hh : Str.join d.fieldSep parts with
    | nil => rw [hh] at this; simp at this
    | cons _ _ => rfl
  · exact this

theorem parse_gff3 (d : Dialect) (hd : Gff3Dialect d) (its : List (Str × List Str)) (hne : its ≠ [])
    (hok : ∀ it ∈ its, (';' ∉ it.1 ∧ '=' ∉ it.1) ∧ it.2 ≠ [] ∧
      ∀ x ∈ it.2, (x ≠ [] ∧ ∀ c ∈ x, bad c = false)) :
    splitKeyvals (if d.trailingSemicolon then Str.join d.fieldSep (its.map (part d)) ++ [';']
        else Str.join d.fieldSep (its.map (part d))) (some d)
      = .ok (unquoteQuals (its.foldl addVals []) d false, d) := by
  have hvt : ∀ it ∈ its, ∀ c ∈ valText d it.2, c ≠ ';' ∧ c ≠ '=' := by
    intro it hit c hc
    rcases mem_valText _ _ _ hc with h | h | ⟨x, hx, hcx⟩
    · subst h; decide
    · subst h; decide
    · have := not_bad c (((hok it hit).2.2 x hx).2 c hcx)
      exact ⟨this.1, this.2.1⟩
  have hparts : ∀ p ∈ its.map (part d), p ≠ [] ∧ ';' ∉ p := by
    intro p hp
    obtain ⟨it, hit, rfl⟩ := List.mem_map.mp hp
    refine ⟨by simp [part, hd.kv], ?_⟩
    intro hc
    simp only [part, hd.kv, List.mem_append, List.mem_cons, List.not_mem_nil, or_false] at hc
    rcases hc with (hc | hc) | hc
    · exact (hok it hit).1.1 hc
    · exact absurd hc (by decide)
    · exact (hvt it hit _ hc).1 rfl
  have hpne : its.map (part d) ≠ [] := by simpa using hne
  unfold splitKeyvals
  simp only [printed_isEmpty d _ hpne (fun p hp => (hparts p hp).1), Bool.false_eq_true, if_false]
  rw [splitProvided_gff3 _ d hd.fmt hd.lead, stripped d _ hpne hparts,
    pySplit_ok _ _ (fieldSep_ne _ hd.sep),
    split_fieldSep _ hd.sep _ hpne (fun p hp => (hparts p hp).2)]
  simp only [bind, Except.bind]
  rw [mapM_map_ok (pySplit d.kvSep) (part d) (fun it => [it.1, valText d it.2]) its]
  · simp only []
    rw [foldlM_map_ok (foldStep d) (fun it => [it.1, valText d it.2]) addVals its []]
    · rfl
    · intro acc it hit
      have := hok it hit
      exact foldStep_item d acc it.1 it.2 this.2.1 (fun x hx =>
        ⟨(this.2.2 x hx).1, fun hc => (not_bad _ ((this.2.2 x hx).2 _ hc)).2.2.1 rfl⟩)
  · intro it hit
    rw [hd.kv, pySplit_ok _ _ (by simp)]
    have h1 : '=' ∉ it.1 := (hok it hit).1.2
    have h2 : '=' ∉ valText d it.2 := fun hc => (hvt it hit _ hc).2 rfl
    have := split_join [] [] '=' (by simp) [it.1, valText d it.2] (by simp) (by
      intro p hp
      simp only [List.mem_cons, List.not_mem_nil, or_false] at hp
      rcases hp with hp | hp <;> subst hp <;> assumption)
    simp only [part, hd.kv]
    simpa [Str.join] using this

/-- the encoded mapping -/
def enc (a : Attrs) : Attrs := a.map (fun (k, v) => (k, v.map Quote.quoteStr))

theorem enc_keys (a : Attrs) : (enc a).map (·.1) = a.map (·.1) := by
  simp [enc, List.map_map, Function.comp_def]

theorem attrsOf_gff3 (d : Dialect) (a : Attrs) (hf : d.fmt = gff3) (hn : (a.map (·.1)).Nodup) :
    attrsOf d a = enc a := by
  unfold attrsOf
  simp only [hf, ne_eq, not_true_eq_false, decide_false, Bool.or_self, Bool.false_eq_true, if_false]
  exact ofList_nodup _ (by rw [← enc_keys] at hn; exact hn)

theorem unquote_enc (d : Dialect) (a : Attrs) (hf : d.fmt = gff3)
    (huq : ∀ s, Quote.unquote (Quote.quoteStr s) = s) : unquoteQuals (enc a) d false = a := by
  unfold unquoteQuals enc
  simp only [hf, Bool.not_false, Bool.true_and, decide_true, if_true, List.map_map]
  have : ∀ kv : Str × List Str,
      ((fun (x : Str × List Str) => (x.1, x.2.map Quote.unquote)) ∘
        (fun (x : Str × List Str) => (x.1, x.2.map Quote.quoteStr))) kv = kv := by
    intro kv
    obtain ⟨k, v⟩ := kv
    simp only [Function.comp, List.map_map, Prod.mk.injEq, true_and]
    conv => rhs; rw [← List.map_id v]
    apply List.map_congr_left
    intro x _; exact huq x
  conv => rhs; rw [← List.map_id a]
  apply List.map_congr_left
  intro kv _; exact this kv

/-- **GFF3-style dialects: re-parsing the printed attributes with the same dialect returns the same
mapping** (keys in the same order, values in the same order), for arbitrary value content.
`huq` (percent-decoding undoes percent-encoding) is proved separately and discharged at merge time. -/
theorem reparse_print_gff3_of_huq (d : Dialect) (a : Attrs) (hd : Gff3Dialect d) (ha : MapOk a)
    (huq : ∀ s, Quote.unquote (Quote.quoteStr s) = s) :
    ∃ s, reconstruct a (some d) false false = .ok s ∧ splitKeyvals s (some d) = .ok (a, d) := by
  by_cases hne : a = []
  · subst hne
    exact ⟨[], rfl, rfl⟩
  · have hq : ∀ kv ∈ enc a, (';' ∉ kv.1 ∧ '=' ∉ kv.1) ∧ kv.2 ≠ [] ∧
        ∀ x ∈ kv.2, (x ≠ [] ∧ ∀ c ∈ x, bad c = false) := by
      intro kv hkv
      obtain ⟨kv0, h0, rfl⟩ := List.mem_map.mp hkv
      obtain ⟨k, v⟩ := kv0
      have hv := ha.vals _ h0
      refine ⟨ha.keys (k, v) h0, by simpa using hv.1, ?_⟩
      intro x hx
      change x ∈ v.map Quote.quoteStr at hx
      obtain ⟨y, hy, rfl⟩ := List.mem_map.mp hx
      exact ⟨quoteStr_ne_nil y (hv.2 y hy), fun c hc => quoteStr_not_bad y c hc⟩
    have hits := items_forall d (enc a) (fun k => ';' ∉ k ∧ '=' ∉ k)
      (fun x => x ≠ [] ∧ ∀ c ∈ x, bad c = false) hq
    have hene : enc a ≠ [] := by simpa [enc] using hne
    have hparts : (items d (enc a)).map (mkPart d) = (items d (enc a)).map (part d) := by
      apply List.map_congr_left
      intro it hit
      exact mkPart_eq d hd.multi it (hits it hit).2.1 (fun x hx => ((hits it hit).2.2 x hx).1)
    refine ⟨_, reconstruct_eq d a hne, ?_⟩
    rw [attrsOf_gff3 d a hd.fmt ha.nodup, hparts,
      parse_gff3 d hd _ (items_ne_nil d _ hene (fun kv hkv => (hq kv hkv).2.1)) hits,
      foldl_items d (enc a) [] (by simpa [enc_keys] using ha.nodup)]
    simp only [List.nil_append, unquote_enc d a hd.fmt huq]

/-! ### no line breaks in the printed column -/

theorem items_forall' (d : Dialect) (attrs : Attrs) (P : Str → Prop) (Q : Str → Prop)
    (h : ∀ kv ∈ attrs, P kv.1 ∧ ∀ x ∈ kv.2, Q x) :
    ∀ it ∈ items d attrs, P it.1 ∧ ∀ x ∈ it.2, Q x := by
  intro it hit
  rw [items_eq] at hit
  obtain ⟨kv, hkv, hit⟩ := List.mem_flatMap.mp hit
  have hk := h kv hkv
  unfold expand at hit
  split at hit
  · split at hit
    · obtain ⟨x, hx, rfl⟩ := List.mem_map.mp hit
      refine ⟨hk.1, ?_⟩
      intro y hy
      simp only [List.mem_cons, List.not_mem_nil, or_false] at hy
      rw [hy]; exact hk.2 x hx
    · simp only [List.mem_cons, List.not_mem_nil, or_false] at hit
      subst hit; exact hk
  · simp only [List.mem_cons, List.not_mem_nil, or_false] at hit
    subst hit; exact hk

theorem mem_mkPart (d : Dialect) (it : Str × List Str) (c : Char) (h : c ∈ mkPart d it) :
    c ∈ it.1 ∨ c ∈ d.kvSep ∨ c = '"' ∨ c ∈ d.multiSep ∨ ∃ x ∈ it.2, c ∈ x := by
  obtain ⟨k, v⟩ := it
  simp only [mkPart] at h
  split at h
  · split at h
    · simp only [Str.join, List.mem_append] at h
      rcases h with (h | h) | h
      · left; exact h
      · right; left; exact h
      · split at h
        · simp only [List.mem_cons, List.mem_append, List.not_mem_nil, or_false] at h
          rcases h with (h | h) | h
          · right; right; left; exact h
          · rcases mem_join _ _ _ h with h | h
            · right; right; right; left; exact h
            · right; right; right; right; exact h
          · right; right; left; exact h
        · rcases mem_join _ _ _ h with h | h
          · right; right; right; left; exact h
          · right; right; right; right; exact h
    · left; exact h
  · split at h
    · simp only [Str.join, List.mem_append, List.mem_cons, List.not_mem_nil, or_false] at h
      rcases h with (h | h) | h
      · left; exact h
      · right; left; exact h
      · right; right; left; rcases h with h | h <;> exact h
    · left; exact h

/-- the printed attribute column contains no tab, CR or LF (so the printed Feature is one line of
exactly nine columns plus the extra columns) when the keys contain none -/
theorem print_gff3_no_breaks (d : Dialect) (a : Attrs) (hd : Gff3Dialect d)
    (hk : ∀ kv ∈ a, ∀ c ∈ kv.1, c ≠ '\t' ∧ c ≠ '\n' ∧ c ≠ '\r') (s : Str)
    (hs : reconstruct a (some d) false false = .ok s) : ∀ c ∈ s, c ≠ '\t' ∧ c ≠ '\n' ∧ c ≠ '\r' := by
  by_cases hne : a = []
  · subst hne
    have : s = [] := by
      have : reconstruct [] (some d) false false = .ok [] := rfl
      rw [this] at hs; injection hs with hs; exact hs.symm
    subst this; simp
  · rw [reconstruct_eq d a hne] at hs
    injection hs with hs
    have hattrs : ∀ kv ∈ attrsOf d a, (∀ c ∈ kv.1, c ≠ '\t' ∧ c ≠ '\n' ∧ c ≠ '\r') ∧
        ∀ x ∈ kv.2, (∀ c ∈ x, c ≠ '\t' ∧ c ≠ '\n' ∧ c ≠ '\r') := by
      intro kv hkv
      unfold attrsOf at hkv
      simp only [hd.fmt, ne_eq, not_true_eq_false, decide_false, Bool.or_self, Bool.false_eq_true,
        if_false] at hkv
      obtain ⟨kv0, h0, rfl⟩ := List.mem_map.mp (mem_ofList _ _ hkv)
      obtain ⟨k, v⟩ := kv0
      refine ⟨hk (k, v) h0, ?_⟩
      intro x hx
      change x ∈ v.map Quote.quoteStr at hx
      obtain ⟨y, _, rfl⟩ := List.mem_map.mp hx
      intro c hc
      have := not_bad c (quoteStr_not_bad y c hc)
      exact ⟨this.2.2.2.1, this.2.2.2.2.1, this.2.2.2.2.2⟩
    have hits := items_forall' d (attrsOf d a) (fun k => ∀ c ∈ k, c ≠ '\t' ∧ c ≠ '\n' ∧ c ≠ '\r')
      (fun x => ∀ c ∈ x, c ≠ '\t' ∧ c ≠ '\n' ∧ c ≠ '\r') hattrs
    have hfs : ∀ c ∈ d.fieldSep, c ≠ '\t' ∧ c ≠ '\n' ∧ c ≠ '\r' := by
      intro c hc
      rcases hd.sep with h | h | h <;> rw [h] at hc <;>
        simp only [List.mem_cons, List.not_mem_nil, or_false] at hc
      · subst hc; decide
      · rcases hc with hc | hc <;> subst hc <;> decide
      · rcases hc with hc | hc | hc <;> subst hc <;> decide
    have hbody : ∀ c ∈ Str.join d.fieldSep ((items d (attrsOf d a)).map (mkPart d)),
        c ≠ '\t' ∧ c ≠ '\n' ∧ c ≠ '\r' := by
      intro c hc
      rcases mem_join _ _ _ hc with h | ⟨p, hp, hcp⟩
      · exact hfs c h
      · obtain ⟨it, hit, rfl⟩ := List.mem_map.mp hp
        rcases mem_mkPart d it c hcp with h | h | h | h | ⟨x, hx, hcx⟩
        · exact (hits it hit).1 c h
        · rw [hd.kv] at h; simp only [List.mem_cons, List.not_mem_nil, or_false] at h
          subst h; decide
        · subst h; decide
        · rw [hd.multi] at h; simp only [List.mem_cons, List.not_mem_nil, or_false] at h
          subst h; decide
        · exact (hits it hit).2 x hx c hcx
    intro c hc
    rw [← hs] at hc
    split at hc
    · simp only [List.mem_append, List.mem_cons, List.not_mem_nil, or_false] at hc
      rcases hc with hc | hc
      · exact hbody c hc
      · subst hc; decide
    · exact hbody c hc

/-! ### GTF -/

theorem parse_gtf (d : Dialect) (hd : GtfDialect d) (its : List (Str × List Str)) (hne : its ≠ [])
    (hok : ∀ it ∈ its,
      (it.1 ≠ [] ∧ ';' ∉ it.1 ∧ ' ' ∉ it.1 ∧ ∀ c, it.1.head? = some c → Str.isPySpace c = false) ∧
      it.2 ≠ [] ∧ ∀ x ∈ it.2, (x ≠ [] ∧ ';' ∉ x ∧ ',' ∉ x)) :
    splitKeyvals (if d.trailingSemicolon then Str.join d.fieldSep (its.map (part d)) ++ [';']
        else Str.join d.fieldSep (its.map (part d))) (some d)
      = .ok (its.foldl addVals [], d) := by
  have hvt : ∀ it ∈ its, ∀ c ∈ valText d it.2, c ≠ ';' := by
    intro it hit c hc
    rcases mem_valText _ _ _ hc with h | h | ⟨x, hx, hcx⟩
    · subst h; decide
    · subst h; decide
    · intro h; subst h; exact ((hok it hit).2.2 x hx).2.1 hcx
  have hparts : ∀ p ∈ its.map (part d), p ≠ [] ∧ ';' ∉ p := by
    intro p hp
    obtain ⟨it, hit, rfl⟩ := List.mem_map.mp hp
    refine ⟨by simp [part, hd.kv], ?_⟩
    intro hc
    simp only [part, hd.kv, List.mem_append, List.mem_cons, List.not_mem_nil, or_false] at hc
    rcases hc with (hc | hc) | hc
    · exact (hok it hit).1.2.1 hc
    · exact absurd hc (by decide)
    · exact hvt it hit _ hc rfl
  have hpne : its.map (part d) ≠ [] := by simpa using hne
  have hstrip : ∀ it ∈ its, Str.strip (part d it) = part d it := by
    intro it hit
    obtain ⟨hk, _⟩ := hok it hit
    apply strip_id
    · intro c hc
      apply hk.2.2.2 c
      cases hh : it.1 with
      | nil => exact absurd hh hk.1
      | cons x r => simpa [part, hh] using hc
    · intro c hc
      have : (part d it).getLast? = some '"' := by
        simp only [part, valText, wrap, hd.quoted, if_true]
        rw [← List.append_assoc, List.getLast?_concat]
      rw [this] at hc; injection hc with hc; subst hc; decide
  unfold splitKeyvals
  simp only [printed_isEmpty d _ hpne (fun p hp => (hparts p hp).1), Bool.false_eq_true, if_false]
  rw [splitProvided_gtf _ d hd.fmt hd.lead, stripped d _ hpne hparts,
    pySplit_ok _ _ (fieldSep_ne _ hd.sep),
    split_fieldSep _ hd.sep _ hpne (fun p hp => (hparts p hp).2)]
  simp only [bind, Except.bind]
  rw [zipIdx_mapM_map_ok (fun (p : Str × Nat) => pySplit d.kvSep (Str.strip p.1)) (part d)
    (fun it => it.1 :: Str.split [' '] (valText d it.2)) its 0]
  · simp only []
    rw [mapM_map_ok headRest _ (fun it => [it.1, valText d it.2]) its]
    · simp only []
      rw [foldlM_map_ok (foldStep d) (fun it => [it.1, valText d it.2]) addVals its []]
      · have hne' : gtf ≠ gff3 := by decide
        simp only [pure, Except.pure, unquoteQuals, hd.fmt, hne', decide_false, Bool.and_false,
          Bool.false_eq_true, if_false]
      · intro acc it hit
        have := hok it hit
        exact foldStep_item d acc it.1 it.2 this.2.1 (fun x hx =>
          ⟨(this.2.2 x hx).1, (this.2.2 x hx).2.2⟩)
    · intro it _
      simp only [headRest, join_split_char]
  · intro it hit i
    simp only [hstrip it hit]
    rw [hd.kv, pySplit_ok _ _ (by simp)]
    simp only [part, hd.kv, List.append_assoc, List.singleton_append]
    rw [split_char_cons ' ' it.1 _ (hok it hit).1.2.2.1]

/-- **GTF-style dialects: re-parsing the printed attributes with the same dialect returns the same
mapping.** -/
theorem reparse_print_gtf (d : Dialect) (a : Attrs) (hd : GtfDialect d) (ha : GtfMapOk a) :
    ∃ s, reconstruct a (some d) false false = .ok s ∧ splitKeyvals s (some d) = .ok (a, d) := by
  by_cases hne : a = []
  · subst hne
    exact ⟨[], rfl, rfl⟩
  · have hne' : gtf ≠ gff3 := by decide
    have hattrs : attrsOf d a = a := by
      simp [attrsOf, hd.fmt, hne']
    have hq : ∀ kv ∈ a,
        (kv.1 ≠ [] ∧ ';' ∉ kv.1 ∧ ' ' ∉ kv.1 ∧ ∀ c, kv.1.head? = some c → Str.isPySpace c = false) ∧
        kv.2 ≠ [] ∧ ∀ x ∈ kv.2, (x ≠ [] ∧ ';' ∉ x ∧ ',' ∉ x) :=
      fun kv hkv => ⟨ha.keys kv hkv, ha.vals kv hkv⟩
    have hits := items_forall d a
      (fun k => k ≠ [] ∧ ';' ∉ k ∧ ' ' ∉ k ∧ ∀ c, k.head? = some c → Str.isPySpace c = false)
      (fun x => x ≠ [] ∧ ';' ∉ x ∧ ',' ∉ x) hq
    have hparts : (items d a).map (mkPart d) = (items d a).map (part d) := by
      apply List.map_congr_left
      intro it hit
      exact mkPart_eq d hd.multi it (hits it hit).2.1 (fun x hx => ((hits it hit).2.2 x hx).1)
    refine ⟨_, reconstruct_eq d a hne, ?_⟩
    rw [hattrs, hparts,
      parse_gtf d hd _ (items_ne_nil d _ hne (fun kv hkv => (hq kv hkv).2.1)) hits,
      foldl_items d a [] (by simpa using ha.nodup)]
    simp

/-! ### Non-vacuity: concrete dialects and mappings satisfying the hypotheses, checked against the
executable model -/

section NonVacuity

/-- `"; "` separator, trailing semicolon, repeated keys -/
def exD3 : Dialect :=
  { Dialect.default with fieldSep := "; ".toList, trailingSemicolon := true, repeatedKeys := true }
/-- `" ; "` separator, quoted values, comma-joined multi-values -/
def exD3q : Dialect := { Dialect.default with fieldSep := " ; ".toList, quoted := true }
def exA3 : Attrs :=
  [("ID".toList, ["a;b".toList, "c,d".toList]), ("Note".toList, ["x y\t%".toList])]

def exDg : Dialect :=
  { Dialect.default with
    fieldSep := "; ".toList, trailingSemicolon := true, quoted := true,
    kvSep := [' '], fmt := gtf, repeatedKeys := true }
def exDg2 : Dialect := { exDg with repeatedKeys := false, trailingSemicolon := false, fieldSep := [';'] }
def exAg : Attrs :=
  [("gene_id".toList, ["g 1".toList]), ("tag".toList, ["a\"b".toList, "c=d %41".toList])]

theorem exD3_ok : Gff3Dialect exD3 := ⟨rfl, rfl, rfl, rfl, Or.inr (Or.inl rfl)⟩
theorem exD3q_ok : Gff3Dialect exD3q := ⟨rfl, rfl, rfl, rfl, Or.inr (Or.inr rfl)⟩
theorem exA3_ok : MapOk exA3 := ⟨by decide, by decide, by decide⟩
theorem exDg_ok : GtfDialect exDg := ⟨rfl, rfl, rfl, rfl, rfl, Or.inr (Or.inl rfl)⟩
theorem exDg2_ok : GtfDialect exDg2 := ⟨rfl, rfl, rfl, rfl, rfl, Or.inl rfl⟩
theorem exAg_ok : GtfMapOk exAg := ⟨by decide, by decide, by decide⟩

/-- the GFF3 theorem applies to the example (given the separately proved `huq`) -/
example (huq : ∀ s, Quote.unquote (Quote.quoteStr s) = s) :
    ∃ s, reconstruct exA3 (some exD3) false false = .ok s ∧ splitKeyvals s (some exD3) = .ok (exA3, exD3) :=
  reparse_print_gff3_of_huq exD3 exA3 exD3_ok exA3_ok huq

/-- the same instance computed by the executable model, with no hypothesis -/
example : reconstruct exA3 (some exD3) false false = .ok "ID=a%3Bb; ID=c%2Cd; Note=x y%09%25;".toList := by
  rfl
example : reconstruct exA3 (some exD3q) false false
    = .ok "ID=\"a%3Bb,c%2Cd\" ; Note=\"x y%09%25\"".toList := by rfl

/-- `r = .ok x`, as a `Bool` (so that the kernel can evaluate the well-founded `split`) -/
def okEq (r : Py (Attrs × Dialect)) (x : Attrs × Dialect) : Bool :=
  match r with | .ok y => decide (y = x) | _ => false

example : okEq (splitKeyvals "ID=a%3Bb; ID=c%2Cd; Note=x y%09%25;".toList (some exD3)) (exA3, exD3) = true := by
  decide +kernel
example : okEq (splitKeyvals "ID=\"a%3Bb,c%2Cd\" ; Note=\"x y%09%25\"".toList (some exD3q)) (exA3, exD3q)
    = true := by decide +kernel

example : ∀ c ∈ "ID=a%3Bb; ID=c%2Cd; Note=x y%09%25;".toList, c ≠ '\t' ∧ c ≠ '\n' ∧ c ≠ '\r' :=
  print_gff3_no_breaks exD3 exA3 exD3_ok (by decide) _ (by rfl)

/-- GTF: repeated keys with `"; "` and a trailing semicolon; one comma-joined field with `";"` -/
example : ∃ s, reconstruct exAg (some exDg) false false = .ok s ∧ splitKeyvals s (some exDg) = .ok (exAg, exDg) :=
  reparse_print_gtf exDg exAg exDg_ok exAg_ok
example : ∃ s, reconstruct exAg (some exDg2) false false = .ok s ∧
    splitKeyvals s (some exDg2) = .ok (exAg, exDg2) :=
  reparse_print_gtf exDg2 exAg exDg2_ok exAg_ok
example : reconstruct exAg (some exDg) false false
    = .ok "gene_id \"g 1\"; tag \"a\"b\"; tag \"c=d %41\";".toList := by rfl
example : reconstruct exAg (some exDg2) false false = .ok "gene_id \"g 1\";tag \"a\"b,c=d %41\"".toList := by
  rfl
example : okEq (splitKeyvals "gene_id \"g 1\"; tag \"a\"b\"; tag \"c=d %41\";".toList (some exDg)) (exAg, exDg)
    = true := by decide +kernel

end NonVacuity

/-- **GFF3-style dialects: re-parsing the printed attributes with the same dialect returns the same
mapping** (keys in the same order, values in the same order), for arbitrary value content — with the
percent-decoding round trip `unquote_quote` (C08a) discharged. -/
theorem reparse_print_gff3 (d : Dialect) (a : Attrs) (hd : Gff3Dialect d) (ha : MapOk a) :
    ∃ s, reconstruct a (some d) false false = .ok s ∧ splitKeyvals s (some d) = .ok (a, d) :=
  reparse_print_gff3_of_huq d a hd ha unquote_quote

example : ∃ s, reconstruct exA3 (some exD3) false false = .ok s ∧ splitKeyvals s (some exD3) = .ok (exA3, exD3) :=
  reparse_print_gff3 exD3 exA3 exD3_ok exA3_ok

/-- **D14 (known finding, kept in known_findings.json).**  For a supplied GTF dialect with *unquoted*
values the statement fails: a value ending in a blank comes back without it, because every part is
`strip()`ped.  The witness below is replayed on the real code by the C08 check. -/
def d14Dialect : Dialect := { Dialect.default with fmt := gtf, kvSep := [' '], quoted := false }
example : reconstruct [("a".toList, ["x ".toList])] (some d14Dialect) false false = .ok "a x ".toList := by rfl
example : (splitKeyvals "a x ".toList (some d14Dialect)).toOption = some ([("a".toList, ["x".toList])], d14Dialect) := by
  decide +kernel

end GffProofs.C08
