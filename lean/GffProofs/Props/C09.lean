/-
  C09 — the weighted vote of `helpers._choose_dialect`.

  Proof route: `tally` is characterised by right-induction over the observations (`tally_snoc`):
  (B) `tally_keys`   — its keys are exactly the observed values,
  (C) `tally_weight` — the weight stored with `v` is `weightOf obs v`,
  (D) `tally_order`  — it is strictly sorted by `firstIdx obs` (hence also duplicate-free);
  `winner_spec` says `winner l` is the first entry of maximal weight.  Core Lean only.
-/
import GffModel.Helpers

namespace GffProofs.C09
open GffModel GffModel.Helpers

/-- total weight of the observations of value `v` -/
def weightOf {α : Type} [DecidableEq α] (obs : List (α × Nat)) (v : α) : Nat :=
  (obs.filter (fun p => p.1 = v)).foldl (fun n p => n + p.2) 0

/-- position of the first observation of `v` -/
def firstIdx {α : Type} [DecidableEq α] (obs : List (α × Nat)) (v : α) : Nat :=
  obs.findIdx (fun p => p.1 = v)

/-! ## Helper lemmas -/

section Helpers
variable {α : Type} [DecidableEq α]

theorem rev_ind {β : Type} {P : List β → Prop} (nil : P [])
    (snoc : ∀ l a, P l → P (l ++ [a])) : ∀ l, P l := by
  have : ∀ r : List β, P r.reverse := by
    intro r
    induction r with
    | nil => exact nil
    | cons a r ih => rw [List.reverse_cons]; exact snoc _ _ ih
  intro l
  have := this l.reverse
  rwa [List.reverse_reverse] at this

/-- one step of the tally loop -/
def step (acc : List (α × Nat)) (x : α × Nat) : List (α × Nat) :=
  if acc.any (fun p => p.1 = x.1) then acc.map (fun p => if p.1 = x.1 then (p.1, p.2 + x.2) else p)
  else acc ++ [x]

theorem tally_nil : tally ([] : List (α × Nat)) = [] := rfl

theorem tally_snoc (obs : List (α × Nat)) (x : α × Nat) : tally (obs ++ [x]) = step (tally obs) x := by
  unfold tally
  rw [List.foldl_append]
  cases x
  rfl

def Seen (obs : List (α × Nat)) (v : α) : Prop := ∃ p ∈ obs, p.1 = v

theorem weightOf_snoc (obs : List (α × Nat)) (x : α × Nat) (u : α) :
    weightOf (obs ++ [x]) u = weightOf obs u + (if x.1 = u then x.2 else 0) := by
  unfold weightOf
  rw [List.filter_append, List.foldl_append]
  by_cases h : x.1 = u <;> simp [List.filter, h]

theorem weightOf_not_seen (obs : List (α × Nat)) (u : α) (h : ¬ Seen obs u) : weightOf obs u = 0 := by
  unfold weightOf
  have : obs.filter (fun p => p.1 = u) = [] := by
    rw [List.filter_eq_nil_iff]
    intro p hp hpu
    exact h ⟨p, hp, by simpa using hpu⟩
  rw [this]; rfl

theorem firstIdx_lt (obs : List (α × Nat)) (u : α) (h : Seen obs u) : firstIdx obs u < obs.length := by
  unfold firstIdx
  obtain ⟨p, hp, hpu⟩ := h
  exact List.findIdx_lt_length_of_exists ⟨p, hp, by simpa using hpu⟩

theorem firstIdx_snoc_seen (obs : List (α × Nat)) (x : α × Nat) (u : α) (h : Seen obs u) :
    firstIdx (obs ++ [x]) u = firstIdx obs u := by
  have := firstIdx_lt obs u h
  unfold firstIdx at *
  rw [List.findIdx_append, if_pos this]

theorem firstIdx_snoc_new (obs : List (α × Nat)) (x : α × Nat) (h : ¬ Seen obs x.1) :
    firstIdx (obs ++ [x]) x.1 = obs.length := by
  unfold firstIdx
  rw [List.findIdx_append]
  have : ¬ (obs.findIdx (fun p => decide (p.1 = x.1)) < obs.length) := by
    intro hlt
    have := List.findIdx_getElem (w := hlt)
    exact h ⟨_, List.getElem_mem hlt, by simpa using this⟩
  rw [if_neg this]
  simp [List.findIdx_cons]


theorem step_keys (acc : List (α × Nat)) (x : α × Nat) (u : α) :
    (∃ p ∈ step acc x, p.1 = u) ↔ ((∃ p ∈ acc, p.1 = u) ∨ x.1 = u) := by
  unfold step
  split
  next hany =>
    rw [List.any_eq_true] at hany
    obtain ⟨q, hq, hqx⟩ := hany
    have hqx : q.1 = x.1 := by simpa using hqx
    constructor
    · rintro ⟨p, hp, hpu⟩
      rw [List.mem_map] at hp
      obtain ⟨p', hp', rfl⟩ := hp
      left
      refine ⟨p', hp', ?_⟩
      split at hpu <;> exact hpu
    · rintro (⟨p, hp, hpu⟩ | hxu)
      · refine ⟨_, List.mem_map.2 ⟨p, hp, rfl⟩, ?_⟩
        split <;> exact hpu
      · refine ⟨_, List.mem_map.2 ⟨q, hq, rfl⟩, ?_⟩
        rw [if_pos hqx]; exact hqx.trans hxu
  next hany =>
    constructor
    · rintro ⟨p, hp, hpu⟩
      rw [List.mem_append, List.mem_singleton] at hp
      rcases hp with hp | rfl
      · exact Or.inl ⟨p, hp, hpu⟩
      · exact Or.inr hpu
    · rintro (⟨p, hp, hpu⟩ | hxu)
      · exact ⟨p, List.mem_append_left _ hp, hpu⟩
      · exact ⟨x, List.mem_append_right _ (List.mem_singleton.2 rfl), hxu⟩

/-- (B) the keys of the tally are exactly the observed values -/
theorem tally_keys (obs : List (α × Nat)) (u : α) : (∃ p ∈ tally obs, p.1 = u) ↔ Seen obs u := by
  induction obs using rev_ind with
  | nil => simp [tally_nil, Seen]
  | snoc obs x ih =>
    rw [tally_snoc, step_keys, ih]
    unfold Seen
    constructor
    · rintro (⟨p, hp, hpu⟩ | hxu)
      · exact ⟨p, List.mem_append_left _ hp, hpu⟩
      · exact ⟨x, List.mem_append_right _ (List.mem_singleton.2 rfl), hxu⟩
    · rintro ⟨p, hp, hpu⟩
      rw [List.mem_append, List.mem_singleton] at hp
      rcases hp with hp | rfl
      · exact Or.inl ⟨p, hp, hpu⟩
      · exact Or.inr hpu

theorem any_iff_seen (obs : List (α × Nat)) (u : α) :
    (tally obs).any (fun p => p.1 = u) = true ↔ Seen obs u := by
  rw [← tally_keys, List.any_eq_true]
  simp

/-- (C) the weight stored with `v` is `weightOf obs v` -/
theorem tally_weight (obs : List (α × Nat)) : ∀ p ∈ tally obs, p.2 = weightOf obs p.1 := by
  induction obs using rev_ind with
  | nil => simp [tally_nil]
  | snoc obs x ih =>
    intro p hp
    rw [tally_snoc] at hp
    unfold step at hp
    rw [weightOf_snoc]
    split at hp
    next hany =>
      rw [List.mem_map] at hp
      obtain ⟨q, hq, rfl⟩ := hp
      by_cases hqx : q.1 = x.1
      · have hxq : x.1 = q.1 := hqx.symm
        simp only [if_pos hqx, if_pos hxq]
        rw [ih q hq]
      · have hxq : ¬ x.1 = q.1 := fun h => hqx h.symm
        simp only [if_neg hqx, if_neg hxq]
        rw [ih q hq]; rfl
    next hany =>
      rw [any_iff_seen] at hany
      rw [List.mem_append, List.mem_singleton] at hp
      rcases hp with hp | rfl
      · have : ¬ x.1 = p.1 := by
          intro h
          exact hany ((tally_keys obs x.1).1 ⟨p, hp, h.symm⟩)
        rw [if_neg this, ih p hp]; rfl
      · rw [if_pos rfl, weightOf_not_seen obs _ hany]; simp

/-- (D) the tally is in first-seen order -/
theorem tally_order (obs : List (α × Nat)) :
    (tally obs).Pairwise (fun p q => firstIdx obs p.1 < firstIdx obs q.1) := by
  induction obs using rev_ind with
  | nil => simp [tally_nil]
  | snoc obs x ih =>
    have keep : ∀ p ∈ tally obs, firstIdx (obs ++ [x]) p.1 = firstIdx obs p.1 := fun p hp =>
      firstIdx_snoc_seen obs x p.1 ((tally_keys obs p.1).1 ⟨p, hp, rfl⟩)
    have ih' : (tally obs).Pairwise (fun p q => firstIdx (obs ++ [x]) p.1 < firstIdx (obs ++ [x]) q.1) := by
      refine List.Pairwise.imp_of_mem ?_ ih
      intro p q hp hq hlt
      rw [keep p hp, keep q hq]; exact hlt
    rw [tally_snoc]
    unfold step
    split
    next hany =>
      rw [List.pairwise_map]
      refine List.Pairwise.imp ?_ ih'
      intro p q hlt
      have e : ∀ r : α × Nat, (if r.1 = x.1 then (r.1, r.2 + x.2) else r).1 = r.1 := by
        intro r; split <;> rfl
      rw [e, e]; exact hlt
    next hany =>
      rw [any_iff_seen] at hany
      rw [List.pairwise_append]
      refine ⟨ih', by simp, ?_⟩
      intro p hp q hq
      rw [List.mem_singleton] at hq
      subst hq
      rw [keep p hp, firstIdx_snoc_new obs q hany]
      exact firstIdx_lt obs p.1 ((tally_keys obs p.1).1 ⟨p, hp, rfl⟩)

/-! ### `winner` -/

omit [DecidableEq α] in
theorem foldl_max_ge (l : List (α × Nat)) (m : Nat) :
    m ≤ l.foldl (fun m p => max m p.2) m ∧ ∀ p ∈ l, p.2 ≤ l.foldl (fun m p => max m p.2) m := by
  induction l generalizing m with
  | nil => simp
  | cons a l ih =>
    rw [List.foldl_cons]
    have := ih (max m a.2)
    refine ⟨by omega, ?_⟩
    intro p hp
    rw [List.mem_cons] at hp
    rcases hp with rfl | hp
    · omega
    · exact this.2 p hp

omit [DecidableEq α] in
theorem foldl_max_attained (l : List (α × Nat)) (m : Nat) :
    l.foldl (fun m p => max m p.2) m = m ∨ ∃ p ∈ l, p.2 = l.foldl (fun m p => max m p.2) m := by
  induction l generalizing m with
  | nil => simp
  | cons a l ih =>
    rw [List.foldl_cons]
    rcases ih (max m a.2) with h | ⟨p, hp, h⟩
    · rw [h]
      by_cases hm : a.2 ≤ m
      · left; omega
      · right; exact ⟨a, List.mem_cons_self, by omega⟩
    · right; exact ⟨p, List.mem_cons_of_mem _ hp, h⟩

omit [DecidableEq α] in
theorem winner_eq_none {l : List (α × Nat)} (h : winner l = none) : l = [] := by
  cases l with
  | nil => rfl
  | cons a l =>
    obtain ⟨v, w⟩ := a
    simp only [winner] at h
    split at h
    · cases h
    · split at h <;> cases h

omit [DecidableEq α] in
/-- `winner` returns the first entry of maximal weight -/
theorem winner_spec (l : List (α × Nat)) (v : α) (h : winner l = some v) :
    ∃ pre wt post, l = pre ++ (v, wt) :: post ∧ (∀ p ∈ pre, p.2 < wt) ∧ (∀ p ∈ post, p.2 ≤ wt) := by
  induction l generalizing v with
  | nil => simp [winner] at h
  | cons a rest ih =>
    obtain ⟨v0, w0⟩ := a
    simp only [winner] at h
    split at h
    next hnone =>
      have := winner_eq_none hnone
      subst this
      cases h
      exact ⟨[], w0, [], rfl, by simp, by simp⟩
    next v' hsome =>
      obtain ⟨pre, wt, post, hl, hpre, hpost⟩ := ih v' hsome
      have hmax : rest.foldl (fun m p => max m p.2) 0 = wt := by
        have hge := (foldl_max_ge rest 0).2 (v', wt) (by rw [hl]; simp)
        rcases foldl_max_attained rest 0 with h0 | ⟨p, hp, hp2⟩
        · simp only at hge; omega
        · rw [hl, List.mem_append, List.mem_cons] at hp
          have : p.2 ≤ wt := by
            rcases hp with hp | rfl | hp
            · exact Nat.le_of_lt (hpre p hp)
            · exact Nat.le_refl _
            · exact hpost p hp
          simp only at hge; omega
      rw [hmax] at h
      split at h
      next hge =>
        cases h
        refine ⟨[], w0, rest, rfl, by simp, ?_⟩
        intro p hp
        have := (foldl_max_ge rest 0).2 p hp
        omega
      next hlt =>
        cases h
        refine ⟨(v0, w0) :: pre, wt, post, by rw [hl]; rfl, ?_, hpost⟩
        intro p hp
        rw [List.mem_cons] at hp
        rcases hp with rfl | hp
        · simp only; omega
        · exact hpre p hp


theorem tally_ne_nil (obs : List (α × Nat)) (hne : obs ≠ []) : tally obs ≠ [] := by
  intro h
  obtain ⟨p, hp⟩ := List.exists_mem_of_ne_nil obs hne
  have := (tally_keys obs p.1).2 ⟨p, hp, rfl⟩
  rw [h] at this
  simp at this

theorem vote_eq_winner (dflt : α) (obs : List (α × Nat)) (hne : obs ≠ []) :
    winner (tally obs) = some (vote dflt obs) := by
  unfold vote
  cases hwin : winner (tally obs) with
  | none => exact absurd (winner_eq_none hwin) (tally_ne_nil obs hne)
  | some v => rfl

theorem winner_tally_spec (obs : List (α × Nat)) (w : α) (hw : winner (tally obs) = some w) :
    (∃ p ∈ obs, p.1 = w) ∧
    (∀ v, weightOf obs v ≤ weightOf obs w) ∧
    (∀ v, (∃ p ∈ obs, p.1 = v) → weightOf obs v = weightOf obs w → v ≠ w → firstIdx obs w < firstIdx obs v) := by
  obtain ⟨pre, wt, post, hl, hpre, hpost⟩ := winner_spec _ _ hw
  have hmem : (w, wt) ∈ tally obs := by rw [hl]; simp
  have hwt : wt = weightOf obs w := tally_weight obs _ hmem
  have hseen : Seen obs w := (tally_keys obs w).1 ⟨_, hmem, rfl⟩
  refine ⟨hseen, ?_, ?_⟩
  · intro v
    by_cases hv : Seen obs v
    · obtain ⟨p, hp, rfl⟩ := (tally_keys obs v).2 hv
      rw [← tally_weight obs p hp, ← hwt]
      rw [hl, List.mem_append, List.mem_cons] at hp
      rcases hp with hp | rfl | hp
      · exact Nat.le_of_lt (hpre p hp)
      · exact Nat.le_refl _
      · exact hpost p hp
    · rw [weightOf_not_seen obs v hv]; exact Nat.zero_le _
  · intro v hv heq hvw
    obtain ⟨p, hp, rfl⟩ := (tally_keys obs v).2 hv
    have hp2 := tally_weight obs p hp
    have hp' := hp
    rw [hl, List.mem_append, List.mem_cons] at hp'
    rcases hp' with hp' | rfl | hp'
    · have := hpre p hp'; omega
    · exact absurd rfl hvw
    · have hord := tally_order obs
      rw [hl, List.pairwise_append] at hord
      exact (List.pairwise_cons.1 hord.2.1).1 p hp'

end Helpers

/-! ### `dedup` -/

theorem dedup_go (l acc : List Str) (hacc : acc.Nodup) :
    (l.foldl (fun acc x => if acc.contains x then acc else acc ++ [x]) acc).Nodup ∧
    ∀ k, k ∈ l.foldl (fun acc x => if acc.contains x then acc else acc ++ [x]) acc ↔ k ∈ acc ∨ k ∈ l := by
  induction l generalizing acc with
  | nil => simp [hacc]
  | cons a l ih =>
    rw [List.foldl_cons]
    by_cases ha : a ∈ acc
    · have hc : acc.contains a = true := by simpa using ha
      rw [if_pos hc]
      refine ⟨(ih acc hacc).1, fun k => ?_⟩
      rw [(ih acc hacc).2 k, List.mem_cons]
      constructor
      · rintro (h | h)
        · exact Or.inl h
        · exact Or.inr (Or.inr h)
      · rintro (h | rfl | h)
        · exact Or.inl h
        · exact Or.inl ha
        · exact Or.inr h
    · have hc : ¬ acc.contains a = true := by simpa using ha
      rw [if_neg hc]
      have hacc' : (acc ++ [a]).Nodup := by
        rw [List.nodup_append]
        refine ⟨hacc, by simp, ?_⟩
        intro x hx y hy
        rw [List.mem_singleton] at hy
        subst hy
        intro hxy; subst hxy; exact ha hx
      refine ⟨(ih _ hacc').1, fun k => ?_⟩
      rw [(ih _ hacc').2 k, List.mem_append, List.mem_singleton, List.mem_cons]
      constructor
      · rintro ((h | h) | h)
        · exact Or.inl h
        · exact Or.inr (Or.inl h)
        · exact Or.inr (Or.inr h)
      · rintro (h | h | h)
        · exact Or.inl (Or.inl h)
        · exact Or.inl (Or.inr h)
        · exact Or.inr h

theorem dedup_nodup (l : List Str) : (dedup l).Nodup := (dedup_go l [] List.nodup_nil).1

theorem mem_dedup (l : List Str) (k : Str) : k ∈ dedup l ↔ k ∈ l := by
  unfold dedup
  rw [(dedup_go l [] List.nodup_nil).2 k]
  simp

/-! ## The specification -/

/-- **The vote is the weighted majority, ties going to the value seen first.**  For a non-empty
observation list the chosen value (i) was observed, (ii) has maximal total weight, and (iii) every
other value of the same total weight was first seen later. -/
theorem vote_spec {α : Type} [DecidableEq α] (dflt : α) (obs : List (α × Nat)) (hne : obs ≠ []) :
    let w := vote dflt obs
    (∃ p ∈ obs, p.1 = w) ∧
    (∀ v, weightOf obs v ≤ weightOf obs w) ∧
    (∀ v, (∃ p ∈ obs, p.1 = v) → weightOf obs v = weightOf obs w → v ≠ w → firstIdx obs w < firstIdx obs v) :=
  winner_tally_spec obs _ (vote_eq_winner dflt obs hne)

/-- if every observation carries the same value, that value wins (whatever the weights, all-zero included) -/
theorem vote_unanimous {α : Type} [DecidableEq α] (dflt v : α) (obs : List (α × Nat)) (hne : obs ≠ [])
    (h : ∀ p ∈ obs, p.1 = v) : vote dflt obs = v := by
  obtain ⟨p, hp, hpw⟩ := (vote_spec dflt obs hne).1
  rw [← hpw]; exact h p hp

/-- `choose_empty`: no features → `constants.dialect` -/
theorem choose_empty : chooseDialect [] = Dialect.default := rfl

theorem choose_order_eq (fs : List (Dialect × List Str)) (hne : fs ≠ []) :
    (chooseDialect fs).order = dedup (fs.map (·.2)).flatten := by
  unfold chooseDialect
  have : fs.isEmpty = false := by simpa using hne
  rw [this]
  rfl

/-- `choose_order_first_seen`: the order is the duplicate-free concatenation of the features' keys in
first-seen order: it has no duplicates, contains exactly the keys seen, and `k` precedes `k'` iff `k`
is first seen before `k'`. -/
theorem choose_order_nodup (fs : List (Dialect × List Str)) (hne : fs ≠ []) :
    (chooseDialect fs).order.Nodup ∧
    (∀ k, k ∈ (chooseDialect fs).order ↔ ∃ f ∈ fs, k ∈ f.2) := by
  rw [choose_order_eq fs hne]
  refine ⟨dedup_nodup _, fun k => ?_⟩
  rw [mem_dedup, List.mem_flatten]
  constructor
  · rintro ⟨l, hl, hk⟩
    rw [List.mem_map] at hl
    obtain ⟨f, hf, rfl⟩ := hl
    exact ⟨f, hf, hk⟩
  · rintro ⟨f, hf, hk⟩
    exact ⟨f.2, List.mem_map.2 ⟨f, hf, rfl⟩, hk⟩

theorem choose_order_first_seen (fs : List (Dialect × List Str)) (hne : fs ≠ []) :
    (chooseDialect fs).order = dedup (fs.map (·.2)).flatten :=
  choose_order_eq fs hne

theorem vote_map_const {β : Type} [DecidableEq β] (dflt v : β) (fs : List (Dialect × List Str))
    (hne : fs ≠ []) (g : Dialect → β) (wt : Dialect × List Str → Nat) (h : ∀ f ∈ fs, g f.1 = v) :
    vote dflt (fs.map (fun f => (g f.1, wt f))) = v := by
  apply vote_unanimous
  · simpa using hne
  · intro p hp
    rw [List.mem_map] at hp
    obtain ⟨f, hf, rfl⟩ := hp
    exact h f hf

/-- `consistent_file_dialect`: if every inspected feature carries the same dialect `D` (up to `order`),
the chosen dialect is `D` with the first-seen key order. -/
theorem choose_consistent (D : Dialect) (fs : List (Dialect × List Str)) (hne : fs ≠ [])
    (h : ∀ f ∈ fs, { f.1 with order := [] } = { D with order := [] }) :
    chooseDialect fs = { D with order := dedup (fs.map (·.2)).flatten } := by
  have h' : ∀ f ∈ fs, f.1.leadingSemicolon = D.leadingSemicolon ∧ f.1.trailingSemicolon = D.trailingSemicolon ∧
      f.1.quoted = D.quoted ∧ f.1.fieldSep = D.fieldSep ∧ f.1.kvSep = D.kvSep ∧ f.1.multiSep = D.multiSep ∧
      f.1.fmt = D.fmt ∧ f.1.repeatedKeys = D.repeatedKeys := by
    intro f hf
    have := h f hf
    rw [Dialect.mk.injEq] at this
    obtain ⟨h1, h2, h3, h4, h5, h6, h7, h8, -⟩ := this
    exact ⟨h1, h2, h3, h4, h5, h6, h7, h8⟩
  unfold chooseDialect
  have : fs.isEmpty = false := by simpa using hne
  rw [this]
  simp only [Bool.false_eq_true, if_false]
  rw [Dialect.mk.injEq]
  refine ⟨?_, ?_, ?_, ?_, ?_, ?_, ?_, ?_, rfl⟩
  · exact vote_map_const _ _ fs hne (·.leadingSemicolon) _ (fun f hf => (h' f hf).1)
  · exact vote_map_const _ _ fs hne (·.trailingSemicolon) _ (fun f hf => (h' f hf).2.1)
  · exact vote_map_const _ _ fs hne (·.quoted) _ (fun f hf => (h' f hf).2.2.1)
  · exact vote_map_const _ _ fs hne (·.fieldSep) _ (fun f hf => (h' f hf).2.2.2.1)
  · exact vote_map_const _ _ fs hne (·.kvSep) _ (fun f hf => (h' f hf).2.2.2.2.1)
  · exact vote_map_const _ _ fs hne (·.multiSep) _ (fun f hf => (h' f hf).2.2.2.2.2.1)
  · exact vote_map_const _ _ fs hne (·.fmt) _ (fun f hf => (h' f hf).2.2.2.2.2.2.1)
  · exact vote_map_const _ _ fs hne (·.repeatedKeys) _ (fun f hf => (h' f hf).2.2.2.2.2.2.2)

/-! ## Non-vacuity -/

-- a three-way tie (1 ↦ 2+1, 2 ↦ 3, 3 ↦ 3) goes to the value seen first
example : vote 0 [(1, 2), (2, 3), (1, 1), (3, 3)] = 1 := by decide
-- ... even if it only reaches the maximum late
example : vote 0 [(2, 3), (1, 2), (3, 3), (1, 1)] = 2 := by decide
-- a strict majority that is not first
example : vote 0 [(1, 2), (2, 3), (3, 1), (2, 0)] = 2 := by decide
-- all weights zero (features without attributes): first seen wins, the default is not used
example : vote 7 [(5, 0), (6, 0), (5, 0)] = 5 := by decide
example : vote true [(false, 0), (true, 0)] = false := by decide
-- the hypotheses of clause (iii) of `vote_spec` are satisfiable: `2` ties with the winner `1`
example : (∃ p ∈ [(1, 2), (2, 3), (1, 1)], p.1 = 2) ∧
    weightOf [(1, 2), (2, 3), (1, 1)] 2 = weightOf [(1, 2), (2, 3), (1, 1)] (vote 0 [(1, 2), (2, 3), (1, 1)]) ∧
    2 ≠ vote 0 [(1, 2), (2, 3), (1, 1)] ∧
    firstIdx [(1, 2), (2, 3), (1, 1)] (vote 0 [(1, 2), (2, 3), (1, 1)]) = 0 ∧
    firstIdx [(1, 2), (2, 3), (1, 1)] 2 = 1 := by decide
example : firstIdx [(1, 2), (2, 3), (1, 1)] (vote 0 [(1, 2), (2, 3), (1, 1)]) < firstIdx [(1, 2), (2, 3), (1, 1)] 2 :=
  (vote_spec 0 [(1, 2), (2, 3), (1, 1)] (by decide)).2.2 2 (by decide) (by decide) (by decide)
example : vote 0 [(4, 0), (4, 5), (4, 0)] = 4 := vote_unanimous 0 4 _ (by decide) (by decide)

/-- a GTF-like dialect differing from the default in several keys -/
def gtfLike : Dialect :=
  { Dialect.default with trailingSemicolon := true, quoted := true, fieldSep := [';', ' '], kvSep := [' '],
                         fmt := ['g', 't', 'f'], order := [['x']] }

-- `choose_consistent` on a window of three features whose dialects differ only in `order`
example : chooseDialect
    [(gtfLike, [['g'], ['t']]), ({ gtfLike with order := [] }, []), ({ gtfLike with order := [['t']] }, [['t'], ['e'], ['g']])]
    = { gtfLike with order := [['g'], ['t'], ['e']] } := by
  rw [choose_consistent gtfLike _ (by decide) (by decide)]
  decide

-- an inconsistent window: weights 1+2 (default) against 3 (GTF-like) tie, so the first-seen default value wins;
-- with weight 4 the GTF-like value wins; the keys come out in first-seen order
example : (chooseDialect
    [(Dialect.default, [['a']]), (gtfLike, [['b'], ['a'], ['c']]), (Dialect.default, [['c'], ['d']])]).quoted = false ∧
  (chooseDialect
    [(Dialect.default, [['a']]), (gtfLike, [['b'], ['a'], ['c'], ['e']]), (Dialect.default, [['c'], ['d']])]).quoted = true ∧
  (chooseDialect
    [(Dialect.default, [['a']]), (gtfLike, [['b'], ['a'], ['c']]), (Dialect.default, [['c'], ['d']])]).order
    = [['a'], ['b'], ['c'], ['d']] := by decide

end GffProofs.C09
