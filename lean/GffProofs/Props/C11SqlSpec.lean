/-
  C11Sql — specification definitions used by the theorems of `GffProofs/Props/C11Sql.lean`.  Nothing is
  proved here.  Every definition is written from the keyword arguments of the gffutils methods (what the
  caller MEANS), not from the control flow of `make_query`.
-/
import GffModel.Sql

namespace GffProofs.C11Sql
open GffModel GffModel.Sql GffModel.Interface

/-! ### the bound conditions the caller intends (lock-step) -/

/-- the conditions `other` / `extra` stand for, with the values of the pre-filled `args`:
`other`'s `?` comes first in the text, `extra`'s second -/
def relSpec (o : Other) (x : Extra) (args : List SqlArg) : List BCond :=
  match o, x, args with
  | .join _ to, .level, [id, lvl] => [.eq (.rel to) id, .eq (.rel .level) lvl]
  | .join _ to, .none, [id] => [.eq (.rel to) id]
  | .none, .level, [lvl] => [.eq (.rel .level) lvl]
  | _, _, _ => []

/-- `featuretype = <s>` / `featuretype IN <collection>` -/
def ftSpec : Ft → List BCond
  | .none => []
  | .str s => if s.isEmpty then [] else [.eq (.feat true .featuretype) (.text s)]
  | .coll l => if l.isEmpty then [] else [.isIn (.feat true .featuretype) (l.map .text)]

/-- `strand = <s>` -/
def strandSpec : Option Str → List BCond
  | none => []
  | some s => if s.isEmpty then [] else [.eq (.feat true .strand) (.text s)]

/-- the bin pre-filter, when present -/
def binSpec : Option (List Int) → List BCond
  | some bs => [.inLits (.feat true .bin) bs]
  | none => []

/-- the region restriction `(seqid, start, stop)`: contained (`within`) or overlapping — in overlap mode the
feature's START is compared with the region's END and vice versa — plus the bin pre-filter -/
def limitSpec (within : Bool) (seqid start stop : SqlArg) (bins : Option (List Int)) : List BCond :=
  (if within then
     [.eq (.feat true .seqid) seqid, .cmp (.feat true .start) .ge start, .cmp (.feat true .stop) .le stop]
   else
     [.eq (.feat true .seqid) seqid, .cmp (.feat true .start) .le stop, .cmp (.feat true .stop) .ge start]) ++
  binSpec bins

/-- … for a `limit=` value (`""`, `()` and `None` mean "no limit") -/
def limitSpecOf (lim : Limit) (within : Bool) : List BCond :=
  match limitParts lim with
  | .ok (some (seqid, start, stop)) =>
    (match pyInt start, pyInt stop with
     | .ok s, .ok e => limitSpec within seqid start stop (binClause s e)
     | _, _ => [])
  | _ => []

/-- the statement `make_query` is meant to build, every condition paired with its value -/
def spec (a : SArgs) : BoundQuery :=
  { distinct := false,
    join := match a.other with | .join on _ => some on | .none => none,
    conds := relSpec a.other a.extra a.args ++ ftSpec a.featuretype ++ limitSpecOf a.limit a.within ++
             strandSpec a.strand,
    order := match orderAst a.orderBy a.reverse with | .ok o => o | .error _ => none }

/-! ### the meaning-level query (`Interface.Query`) of the keyword arguments -/

/-- the `order_by` names the meaning-level model knows -/
def sortKeyTable : List (Str × SortKey) :=
  [("seqid".toList, .seqid), ("source".toList, .source), ("featuretype".toList, .featuretype),
   ("start".toList, .start), ("end".toList, .stop), ("score".toList, .score), ("strand".toList, .strand),
   ("frame".toList, .frame), ("file_order".toList, .fileOrder), ("length".toList, .length)]

def sortKeyOfName (s : Str) : Option SortKey := (sortKeyTable.find? (fun p => p.1 = s)).map (·.2)

def sortKeysOfNames : List Str → Option (List SortKey)
  | [] => some []
  | s :: rest =>
    match sortKeyOfName s, sortKeysOfNames rest with
    | some k, some ks => some (k :: ks)
    | _, _ => none

def orderKeysOf : OrderBy → Option (List SortKey)
  | .none => some []
  | .str s => if s.isEmpty then some [] else (sortKeyOfName s).map (fun k => [k])
  | .tuple l => sortKeysOfNames l

def ftOf : Ft → List Str
  | .none => []
  | .str s => if s.isEmpty then [] else [s]
  | .coll l => l

/-- a seqid given as an `int` is compared as its decimal text -/
def seqidOf : SqlArg → Str
  | .text s => s
  | .int i => Str.intToStr i

def intOf : SqlArg → Option Int
  | .int i => some i
  | .text s => Str.parseInt? s

/-- `none` = the limit is malformed (the call raises); `some none` = no limit -/
def limitOf (lim : Limit) : Option (Option (Str × Int × Int)) :=
  match limitParts lim with
  | .ok none => some none
  | .ok (some (seqid, start, stop)) =>
    (match intOf start, intOf stop with
     | some s, some e => some (some (seqidOf seqid, s, e))
     | _, _ => none)
  | .error _ => none

/-- the `Interface.Query` of the keyword arguments of `all_features` / `features_of_type` / `children` /
`parents`; `none` when `limit` is malformed or an `order_by` name is not a sort key of the meaning-level model -/
def toQuery (limit : Limit) (strand : Option Str) (ft : Ft) (ob : OrderBy) (reverse within : Bool) : Option Query :=
  match limitOf limit, orderKeysOf ob with
  | some lim, some keys =>
    some { featuretype := ftOf ft, strand := strand, limit := lim, within := within, orderBy := keys, reverse := reverse }
  | _, _ => none

/-- a coordinate given as text is a plain integer literal: what Python's `int()` reads is what sqlite's
INTEGER affinity converts (fails for `'1_000'`, non-ASCII digits, blanks sqlite does not skip) -/
def SqlArg.plain : SqlArg → Prop
  | .int _ => True
  | .text s => sqliteInt? s = Str.parseInt? s

def Limit.plain (lim : Limit) : Prop :=
  ∀ seqid start stop, limitParts lim = .ok (some (seqid, start, stop)) → SqlArg.plain start ∧ SqlArg.plain stop

/-- `region()` executes a statement sqlite accepts: some position restriction is present and the featuretype
collection is not empty (otherwise the real code raises `sqlite3.OperationalError`) -/
def RegionArgs.executable (a : RegionArgs) : Prop :=
  (a.seqid ≠ none ∨ truthy a.start ≠ none ∨ truthy a.stop ≠ none) ∧ a.featuretype ≠ some []

end GffProofs.C11Sql
