/-
  C17 — Attribute container, JSON storage form and feature equality are coherent.

  Model: GffModel.AttrsModel (`Attributes`, `Feature.setItem/getItem/pyEq/pyHash`, `mergeAttributes`),
  GffModel.Json (text-level `simplejson.dumps/loads` for the two stored shapes).

  Everything below is proved for ALL inputs of the model (any Unicode scalar values, empty lists, scalars,
  tuples where the container is concerned); nothing is partial.  Hypotheses that appear:
    * `(Dict.keys m).Nodup` — a Python `dict` has no repeated key; the association-list type does not
      enforce it (counterexample without it: `[("a",["x"]),("a",["y"])]` is not a dict, its JSON text decodes
      with `dict(pairs)` semantics to `{"a": ["y"]}`)
    * no tuple among the arguments of `merge_attributes` (outside the model, see `mergeAttributesWith`)
    * `k1 = .dict ∨ view = true` for the specification of `merge_attributes`: the first argument is a plain
      dict, or the reads inside the function see `always_return_list = True`.  On the current tree the
      remaining case (an `Attributes` first argument under `always_return_list = False`) violates the
      property — defect D7; the negation is proved at concrete witnesses (`merge_D7_*`).
-/
import GffModel
import GffProofs.Lemmas.DictLemmas
import GffProofs.Lemmas.SortLemmas
import GffProofs.Lemmas.MergeLemmas
import GffProofs.Lemmas.JsonRoundTrip

namespace GffProofs.C17
open GffModel GffProofs.DictL GffProofs.SortL GffProofs.MergeL GffProofs.JsonRT

/-- decidable equality of Python results, for the concrete examples -/
instance instDecEqExcept {ε α : Type} [DecidableEq ε] [DecidableEq α] : DecidableEq (Except ε α)
  | .ok a, .ok b => if h : a = b then isTrue (by rw [h]) else isFalse (fun e => h (by cases e; rfl))
  | .error a, .error b => if h : a = b then isTrue (by rw [h]) else isFalse (fun e => h (by cases e; rfl))
  | .ok _, .error _ => isFalse (fun e => by cases e)
  | .error _, .ok _ => isFalse (fun e => by cases e)

/-! ## 1. the container: wrapping on set -/

/-- After `attrs[k] = v` the stored value is a sequence: `[v]` for a scalar, `v` itself for a list or a
tuple; other keys keep their values. -/
theorem set_wraps (a : Attributes) (k : Str) (v : PyVal) :
    Dict.get? (Attributes.set a k v) k = some v.wrap ∧ v.wrap.isSeq = true ∧
    (∀ s, v = .scalar s → v.wrap = .list [s]) ∧ (v.isSeq = true → v.wrap = v) ∧
    (∀ k', k' ≠ k → Dict.get? (Attributes.set a k v) k' = Dict.get? a k') := by
  refine ⟨get?_set_self a k _, ?_, ?_, ?_, ?_⟩
  · cases v <;> rfl
  · intro s h; subst h; rfl
  · intro h; cases v
    · cases h
    · rfl
    · rfl
  · intro k' hne
    unfold Attributes.set
    rw [get?_set]
    have : ¬ k = k' := fun e => hne e.symm
    simp [this]

example : Dict.get? (Attributes.set [("ID".toList, .list ["a".toList])] "Name".toList (.scalar "n".toList)) "Name".toList
    = some (.list ["n".toList]) := by decide

theorem set_preserves_WF (a : Attributes) (k : Str) (v : PyVal) (h : Attributes.WF a) :
    Attributes.WF (Attributes.set a k v) := by
  unfold Attributes.set
  intro p hp
  induction a with
  | nil =>
    simp only [Dict.set, List.mem_singleton] at hp
    subst hp; cases v <;> rfl
  | cons q a ih =>
    simp only [Dict.set] at hp
    split at hp
    · rcases List.mem_cons.1 hp with e | e
      · subst e; cases v <;> rfl
      · exact h p (List.mem_cons_of_mem _ e)
    · rcases List.mem_cons.1 hp with e | e
      · subst e; exact h _ (List.mem_cons_self ..)
      · exact ih (fun p hp => h p (List.mem_cons_of_mem _ hp)) e

/-- every way of filling an `Attributes` (`update`, the constructor, `update` from another `Attributes`
under either setting) leaves only sequences in the store -/
theorem update_preserves_WF (e : Dict PyVal) : ∀ (a : Attributes), Attributes.WF a →
    Attributes.WF (Attributes.update a e) := by
  induction e with
  | nil => intro a h; exact h
  | cons p e ih =>
    intro a h
    exact ih _ (set_preserves_WF a p.1 p.2 h)

theorem ofDict_WF (e : Dict PyVal) : Attributes.WF (Attributes.ofDict e) :=
  update_preserves_WF e [] (fun _ h => by cases h)

theorem updateFrom_preserves_WF (a e : Attributes) (al : Bool) (h : Attributes.WF a) :
    Attributes.WF (Attributes.updateFrom a e al) :=
  update_preserves_WF _ a h

theorem lower_lift (m : Attrs) : Attributes.lower (Attributes.lift m) = m := by
  induction m with
  | nil => rfl
  | cons p m ih =>
    show (p.1, p.2) :: Attributes.lower (Attributes.lift m) = p :: m
    rw [ih]

theorem toList_wrap (v : PyVal) : v.wrap.toList = v.toList := by cases v <;> rfl

theorem lower_set_lift (a : Attrs) (k : Str) (w : PyVal) :
    Attributes.lower (Dict.set (Attributes.lift a) k w) = Dict.set a k w.toList := by
  induction a with
  | nil => rfl
  | cons p a ih =>
    show Attributes.lower (Dict.set ((p.1, PyVal.list p.2) :: Attributes.lift a) k w) = _
    simp only [Dict.set]
    by_cases h : p.1 = k
    · simp only [h, if_true]
      show (k, w.toList) :: Attributes.lower (Attributes.lift a) = _
      rw [lower_lift]
    · simp only [h, if_false]
      show (p.1, p.2) :: Attributes.lower (Dict.set (Attributes.lift a) k w) = _
      rw [ih]

/-- `feature[key] = v` stores the strings of `v` as a sequence (same rule, through the Feature): the
`Feature` model's `setItem` is `Attributes.set` on its attributes -/
theorem feature_set_wraps (f : Feature) (k : Str) (v : PyVal) :
    Dict.get? (f.setItem k v).attrs k = some v.toList ∧
    (∀ s, v = .scalar s → Dict.get? (f.setItem k v).attrs k = some [s]) ∧
    Attributes.lower (Attributes.set (Attributes.lift f.attrs) k v) = (f.setItem k v).attrs := by
  refine ⟨get?_set_self _ _ _, fun s h => by subst h; exact get?_set_self _ _ _, ?_⟩
  unfold Attributes.set Feature.setItem
  rw [lower_set_lift, toList_wrap]

/-- what the parser and the JSON decoder hand out is *typed* as `Attrs = Dict (List Str)`: every value is
a list of strings by construction (there is nothing to prove beyond the typing of
`Parser.splitKeyvals`, `featureFromLine`, `Json.decodeAttrs`); lifted into the container they are lists. -/
theorem parsed_values_are_lists (a : Attrs) : ∀ p ∈ Attributes.lift a, p.2.isList = true := by
  intro p hp
  obtain ⟨q, _, rfl⟩ := List.mem_map.1 hp
  rfl

/-! ## 2. the view switch -/

/-- `always_return_list` changes what `__getitem__` hands out only for a stored *list* of exactly one
item (then: its element); with the switch on, the stored value itself is handed out.  `get` is a pure
function of the store: reading never changes it (by typing). -/
theorem view_switch (v : PyVal) :
    Attributes.view true v = v ∧
    (Attributes.view false v ≠ v ↔ ∃ x, v = .list [x]) ∧
    (∀ x, Attributes.view false (.list [x]) = .scalar x) := by
  refine ⟨view_true v, ?_, fun _ => rfl⟩
  constructor
  · intro h
    unfold Attributes.view at h
    split at h
    · exact ⟨_, rfl⟩
    · exact absurd rfl h
  · rintro ⟨x, rfl⟩ h
    cases h

theorem get_switch (a : Attributes) (k : Str) :
    (∀ v, Attributes.get a true k = .ok v ↔ Dict.get? a k = some v) ∧
    Attributes.get a false k = (Attributes.get a true k).map (Attributes.view false) ∧
    (Attributes.get a false k = .error .key ↔ Dict.get? a k = none) := by
  unfold Attributes.get
  cases h : Dict.get? a k with
  | none => simp [Except.map]
  | some v => simp [Except.map, view_true]

theorem items_switch (a : Attributes) (al : Bool) :
    Attributes.items a true = a ∧
    Attributes.items a al = (Attributes.items a true).map (fun p => (p.1, Attributes.view al p.2)) ∧
    (Attributes.items a al).map (·.1) = Attributes.keys a := by
  have h1 : Attributes.items a true = a := by
    unfold Attributes.items
    induction a with
    | nil => rfl
    | cons p a ih => rw [List.map_cons, ih, view_true]
  refine ⟨h1, ?_, ?_⟩
  · rw [h1]; rfl
  · simp [Attributes.items, Attributes.keys, Dict.keys]

/-- copying one `Attributes` into another goes through the view and is nevertheless independent of the
setting: the wrap on the way in undoes the unwrap on the way out -/
theorem updateFrom_setting_irrelevant (a e : Attributes) (al : Bool) :
    Attributes.updateFrom a e al = Attributes.updateFrom a e true := by
  unfold Attributes.updateFrom Attributes.update Attributes.items
  rw [List.foldl_map, List.foldl_map]
  congr 1
  funext d p
  simp only [Attributes.set, wrap_view]

example : Attributes.get [("ID".toList, .list ["a".toList])] false "ID".toList = .ok (.scalar "a".toList) ∧
    Attributes.get [("ID".toList, .list ["a".toList])] true "ID".toList = .ok (.list ["a".toList]) ∧
    Attributes.get [("ID".toList, .tuple ["a".toList])] false "ID".toList = .ok (.tuple ["a".toList]) ∧
    Attributes.get [("ID".toList, .list ["a".toList, "b".toList])] false "ID".toList =
      .ok (.list ["a".toList, "b".toList]) := by decide

/-! ## 3. JSON: text and back -/

/-- the pairs level, without any hypothesis: the text of a mapping is read back as exactly its pairs, in
order, every value a list -/
theorem json_pairs_roundtrip (m : Attrs) :
    Json.decodeObj (Json.encodeAttrs m) = some (Dict.ofList (m.map (fun q => (q.1, PyVal.list q.2)))) :=
  decodeObj_encodeAttrs m

theorem ofDict_lift (m : Attrs) (hn : (Dict.keys m).Nodup) :
    Attributes.ofDict (Attributes.lift m) = Attributes.lift m := by
  have hk : Dict.keys (Attributes.lift m) = Dict.keys m := by
    simp [Attributes.lift, Dict.keys]
  have hf : Attributes.ofDict (Attributes.lift m) = foldSet PyVal.wrap [] (Attributes.lift m) := rfl
  rw [hf]
  apply DictL.ext
  · rw [keys_foldSet _ _ [] (hk ▸ hn)]; simp [keys_nil]
  · exact nodup_keys_foldSet _ _ [] List.nodup_nil
  · intro k
    rw [get?_foldSet _ _ [] (hk ▸ hn) k]
    cases h : Dict.get? (Attributes.lift m) k with
    | none => simp [Dict.get?]
    | some v =>
      have hm := mem_of_get? _ _ _ h
      obtain ⟨q, _, hq⟩ := List.mem_map.1 hm
      cases hq
      rfl

/-- **`_unjsonify(_jsonify(attributes), isattributes=True) = attributes`** for every mapping from strings
to lists of strings (all Unicode scalar values, empty strings, empty lists, any number of keys), with the
key order kept. -/
theorem json_roundtrip (m : Attrs) (hn : (Dict.keys m).Nodup) :
    Json.decodeAttrs (Json.encodeAttrs m) = some m := by
  unfold Json.decodeAttrs
  rw [decodeObj_encodeAttrs]
  have hk : Dict.keys (m.map (fun q => (q.1, PyVal.list q.2))) = Dict.keys m := by
    simp [Dict.keys]
  have : Dict.ofList (m.map (fun q => (q.1, PyVal.list q.2))) = Attributes.lift m :=
    ofList_of_nodup _ (hk ▸ hn)
  rw [this]
  simp only [Option.map_some, Option.some.injEq]
  rw [ofDict_lift m hn, lower_lift]

/-- the hypothesis of `json_roundtrip` is needed: this association list is not a `dict` -/
example : Json.decodeAttrs (Json.encodeAttrs [("a".toList, ["x".toList]), ("a".toList, ["y".toList])]) =
    some [("a".toList, ["y".toList])] := by
  rw [Json.decodeAttrs, decodeObj_encodeAttrs]; decide

/-- **`_unjsonify(_jsonify(extra)) = extra`** for every list of strings -/
theorem json_roundtrip_extra (l : List Str) : Json.decodeList (Json.encodeList l) = some l :=
  decodeList_encodeList l

/-- the escaping layer alone: a string literal is read back as the string it was written from, whatever
follows the closing quote -/
theorem json_string_roundtrip (s rest : Str) :
    Json.scanStr (Json.escBody s ++ '"' :: rest) = some (s, rest) := scanStr_escBody s rest

/-- non-vacuity: a mapping with an astral character, a control character, quotes and an empty list -/
example : Json.decodeAttrs (Json.encodeAttrs
    [("ID".toList, [[Char.ofNat 0x1F600, '"', '\\', '\n', Char.ofNat 0x7f, 'é', Char.ofNat 1]]), ([], [])]) =
    some [("ID".toList, [[Char.ofNat 0x1F600, '"', '\\', '\n', Char.ofNat 0x7f, 'é', Char.ofNat 1]]), ([], [])] :=
  json_roundtrip _ (by decide)

example : Json.encodeAttrs [("a".toList, [[Char.ofNat 0x1F600, '/', Char.ofNat 0x7f]])] =
    "{\"a\":[\"\\ud83d\\ude00/\\u007f\"]}".toList := by decide

/-! ## 4. `merge_attributes` -/

/-- the strings a mapping binds to a key: a scalar counts as one string, a missing key as none -/
def valsAt (d : Dict PyVal) (k : Str) : List Str :=
  match Dict.get? d k with
  | some v => v.toList
  | none => []

theorem noTuple_of_get? (a : Dict PyVal) (t : a.all (fun p => p.2.noTuple) = true) (k : Str) (v : PyVal)
    (h : Dict.get? a k = some v) : v.noTuple = true :=
  (List.all_eq_true.1 t) (k, v) (mem_of_get? a k v h)

/-- The specification of the body of `merge_attributes`, for every pair of mappings (no repeated keys, no
tuples), every combination of argument classes and `numeric_sort`, when the reads see the stored lists
(`k1 = .dict ∨ view = true`):
the call succeeds; the result's keys are those of the first argument followed by the new keys of the
second, in order; and every key is bound to the sorted duplicate-free union of both arguments' values —
in numeric order when `numeric_sort` is on and all the values are numbers, in string order otherwise.
(The model is pure: the arguments cannot change.  The harness compares the Python objects before/after.) -/
theorem mergeWith_spec (k1 k2 : Kind) (a1 a2 : Dict PyVal) (num view : Bool)
    (hv : k1 = .dict ∨ view = true)
    (h1 : (Dict.keys a1).Nodup) (h2 : (Dict.keys a2).Nodup)
    (t1 : a1.all (fun p => p.2.noTuple) = true) (t2 : a2.all (fun p => p.2.noTuple) = true) :
    ∃ r, mergeAttributesWith k1 k2 a1 a2 num view = .ok r ∧
      Dict.keys r = Dict.keys a1 ++ (Dict.keys a2).filter (fun k => !(Dict.keys a1).contains k) ∧
      (Dict.keys r).Nodup ∧
      ∀ k ∈ Dict.keys r, ∃ vs, Dict.get? r k = some vs ∧ SortedUnion num (valsAt a1 k ++ valsAt a2 k) vs := by
  have hread := hread_of k1 view hv
  -- stage B
  have hB := mergeUpdate_eq k1 k2 view a1 a2
  have keysB := keys_foldSet (fun v => wv k1 (readVal k2 view v)) a2 a1 h2
  have nodupB := nodup_keys_foldSet (fun v => wv k1 (readVal k2 view v)) a2 a1 h1
  have getB := get?_foldSet (fun v => wv k1 (readVal k2 view v)) a2 a1 h2
  rw [← hB] at keysB nodupB getB
  -- stage C
  have keysC := keys_mergeWrap k1 view hread (mergeUpdate k1 k2 view a1 a2)
  have getC := get?_mergeWrap k1 view hread (mergeUpdate k1 k2 view a1 a2) nodupB
  have getC' : ∀ k, Dict.get? (mergeWrap k1 view (mergeUpdate k1 k2 view a1 a2)) k =
      match Dict.get? a2 k with
      | some v2 => some (.list v2.toList)
      | none => (Dict.get? a1 k).map (fun v1 => .list v1.toList) := by
    intro k
    rw [getC k, getB k]
    cases h : Dict.get? a2 k with
    | some v2 =>
      simp only [Option.map_some, wrap_wv_readVal]
      rw [wrap_of_noTuple v2 (noTuple_of_get? a2 t2 k v2 h)]
    | none =>
      cases h' : Dict.get? a1 k with
      | none => rfl
      | some v1 =>
        simp only [Option.map_some]
        rw [wrap_of_noTuple v1 (noTuple_of_get? a1 t1 k v1 h')]
  -- stage D
  obtain ⟨d', hd', keysD, getD⟩ := foldlM_extend k1 view hread a2 a1
    (mergeWrap k1 view (mergeUpdate k1 k2 view a1 a2)) h1 (by
      intro k v _ hc
      rw [getC' k]
      have : (Dict.get? a2 k).isSome = true := hc
      cases h : Dict.get? a2 k with
      | none => rw [h] at this; cases this
      | some v2 => exact ⟨_, rfl⟩)
  have hext : mergeExtend k1 view a1 a2 (mergeWrap k1 view (mergeUpdate k1 k2 view a1 a2)) = .ok d' := by
    unfold mergeExtend
    rw [readItems_id k1 view hread]
    exact hd'
  -- stage E
  refine ⟨mergeFinal k1 view num d', ?_, ?_, ?_, ?_⟩
  · unfold mergeAttributesWith
    simp only [t1, t2, Bool.and_self, Bool.not_true, Bool.false_eq_true, if_false]
    rw [hext]
    rfl
  · unfold mergeFinal
    rw [readItems_id k1 view hread, keys_map_val (fun v => finalSort num (elemsOf v)), keysD, keysC, keysB]
  · unfold mergeFinal
    rw [readItems_id k1 view hread, keys_map_val (fun v => finalSort num (elemsOf v)), keysD, keysC]
    exact nodupB
  · intro k hk
    unfold mergeFinal at hk ⊢
    rw [readItems_id k1 view hread] at hk ⊢
    rw [keys_map_val (fun v => finalSort num (elemsOf v)), keysD, keysC, keysB] at hk
    rw [get?_map_val (fun v => finalSort num (elemsOf v)), getD k, getC' k]
    unfold valsAt
    have hc : Dict.contains a2 k = (Dict.get? a2 k).isSome := rfl
    rw [hc]
    cases e1 : Dict.get? a1 k with
    | some v1 =>
      cases e2 : Dict.get? a2 k with
      | some v2 =>
        refine ⟨_, rfl, ?_⟩
        simp only [appendTo, elemsOf]
        exact (finalSort_spec num (v2.toList ++ v1.toList)).congr (fun x => by
          simp only [List.mem_append]; exact Or.comm)
      | none =>
        refine ⟨_, rfl, ?_⟩
        simp only [elemsOf]
        exact (finalSort_spec num v1.toList).congr (fun x => by simp)
    | none =>
      cases e2 : Dict.get? a2 k with
      | some v2 =>
        refine ⟨_, rfl, ?_⟩
        simp only [elemsOf]
        exact (finalSort_spec num v2.toList).congr (fun x => by simp)
      | none =>
        exfalso
        rcases List.mem_append.1 hk with h | h
        · exact (get?_eq_none_iff a1 k).1 e1 h
        · exact (get?_eq_none_iff a2 k).1 e2 (List.mem_filter.1 h).1

/-- **`merge_attributes_spec`** — the repaired behaviour (setting pinned inside the function): for all
argument classes and both settings of the caller, the sorted duplicate-free union. -/
theorem merge_attributes_spec (k1 k2 : Kind) (a1 a2 : Dict PyVal) (num : Bool)
    (h1 : (Dict.keys a1).Nodup) (h2 : (Dict.keys a2).Nodup)
    (t1 : a1.all (fun p => p.2.noTuple) = true) (t2 : a2.all (fun p => p.2.noTuple) = true) :
    ∃ r, mergeAttributesFixed k1 k2 a1 a2 num = .ok r ∧
      Dict.keys r = Dict.keys a1 ++ (Dict.keys a2).filter (fun k => !(Dict.keys a1).contains k) ∧
      (Dict.keys r).Nodup ∧
      ∀ k ∈ Dict.keys r, ∃ vs, Dict.get? r k = some vs ∧ SortedUnion num (valsAt a1 k ++ valsAt a2 k) vs :=
  mergeWith_spec k1 k2 a1 a2 num true (Or.inr rfl) h1 h2 t1 t2

/-- the code as the tree has it, wherever the reads see the stored lists: the caller's setting is
`True` (today) — after the repair `mergeEffectiveView` is constantly `true` and the hypothesis is void —
or the first argument is a plain dict -/
theorem merge_attributes_spec_current (k1 k2 : Kind) (a1 a2 : Dict PyVal) (num alwaysList : Bool)
    (hv : k1 = .dict ∨ mergeEffectiveView alwaysList = true)
    (h1 : (Dict.keys a1).Nodup) (h2 : (Dict.keys a2).Nodup)
    (t1 : a1.all (fun p => p.2.noTuple) = true) (t2 : a2.all (fun p => p.2.noTuple) = true) :
    ∃ r, mergeAttributes k1 k2 a1 a2 num alwaysList = .ok r ∧
      Dict.keys r = Dict.keys a1 ++ (Dict.keys a2).filter (fun k => !(Dict.keys a1).contains k) ∧
      (Dict.keys r).Nodup ∧
      ∀ k ∈ Dict.keys r, ∃ vs, Dict.get? r k = some vs ∧ SortedUnion num (valsAt a1 k ++ valsAt a2 k) vs :=
  mergeWith_spec k1 k2 a1 a2 num _ hv h1 h2 t1 t2

/-- where the current code and the repaired code coincide -/
theorem merge_current_eq_fixed (k1 k2 : Kind) (a1 a2 : Dict PyVal) (num alwaysList : Bool)
    (h : mergeEffectiveView alwaysList = true) :
    mergeAttributes k1 k2 a1 a2 num alwaysList = mergeAttributesFixed k1 k2 a1 a2 num := by
  unfold mergeAttributes mergeAttributesFixed
  rw [h]

/-- a strictly increasing list is determined by its elements -/
theorem strictSorted_unique {α : Type} (lt : α → α → Prop) (irrefl : ∀ a, ¬ lt a a)
    (trans : ∀ a b c, lt a b → lt b c → lt a c) :
    ∀ (out out' : List α), out.Pairwise lt → out'.Pairwise lt → (∀ x, x ∈ out ↔ x ∈ out') → out = out' := by
  intro out
  induction out with
  | nil =>
    intro out' _ _ hm
    cases out' with
    | nil => rfl
    | cons b _ => exact absurd ((hm b).2 (List.mem_cons_self ..)) (by simp)
  | cons a out ih =>
    intro out' s1 s2 hm
    cases out' with
    | nil => exact absurd ((hm a).1 (List.mem_cons_self ..)) (by simp)
    | cons b out' =>
      rw [List.pairwise_cons] at s1 s2
      have hab : a = b := by
        have ha := (hm a).1 (List.mem_cons_self ..)
        have hb := (hm b).2 (List.mem_cons_self ..)
        rcases List.mem_cons.1 ha with e | e
        · exact e
        · rcases List.mem_cons.1 hb with e' | e'
          · exact e'.symm
          · exact absurd (trans _ _ _ (s1.1 b e') (s2.1 a e)) (irrefl a)
      subst hab
      congr 1
      apply ih out' s1.2 s2.2
      intro x
      constructor
      · intro hx
        rcases List.mem_cons.1 ((hm x).1 (List.mem_cons_of_mem _ hx)) with e | e
        · subst e; exact absurd (s1.1 x hx) (irrefl x)
        · exact e
      · intro hx
        rcases List.mem_cons.1 ((hm x).2 (List.mem_cons_of_mem _ hx)) with e | e
        · subst e; exact absurd (s2.1 x hx) (irrefl x)
        · exact e

theorem numLt_irrefl (a : Str) : ¬ numLt a a := by
  rintro (h | ⟨_, h⟩)
  · omega
  · exact List.lt_irrefl _ h

theorem numLt_trans (a b c : Str) (h1 : numLt a b) (h2 : numLt b c) : numLt a c := by
  unfold numLt at *
  rcases h1 with h1 | ⟨h1, h1'⟩ <;> rcases h2 with h2 | ⟨h2, h2'⟩
  · left; omega
  · left; omega
  · left; omega
  · right; exact ⟨by omega, List.lt_trans h1' h2'⟩

/-- the result of a merge is determined: two lists that are both the sorted duplicate-free union of the
same values are equal (the specification leaves no freedom, e.g. to the iteration order of `set`) -/
theorem SortedUnion_unique (num : Bool) (src out out' : List Str)
    (h : SortedUnion num src out) (h' : SortedUnion num src out') : out = out' := by
  have hm : ∀ x, x ∈ out ↔ x ∈ out' := fun x => (h.mem x).trans (h'.mem x).symm
  by_cases hc : num = true ∧ AllNumeric src
  · exact strictSorted_unique numLt numLt_irrefl numLt_trans out out' (h.numeric hc.1 hc.2)
      (h'.numeric hc.1 hc.2) hm
  · exact strictSorted_unique (· < ·) (fun a => List.lt_irrefl a) (fun _ _ _ => List.lt_trans) out out'
      (h.lexical hc) (h'.lexical hc) hm

/-! ### defect D7 on the current tree: an `Attributes` first argument under `always_return_list = False`

The statements are about `mergeAttributesWith … (view := false)`, the code reading through the unwrapping
view; they stay true after the repair (which only stops `merge_attributes` from running under that view). -/

/-- a shared single-valued key: `AttributeError: 'str' object has no attribute 'extend'` -/
theorem merge_D7_crash :
    mergeAttributesWith .attrs .attrs [("ID".toList, .list ["x".toList])] [("ID".toList, .list ["y".toList])]
      false false = .error .attribute := by decide

/-- a single-valued key of one argument only: the value is silently split into its characters -/
theorem merge_D7_chars :
    mergeAttributesWith .attrs .attrs [("ID".toList, .list ["ab".toList])] [("Name".toList, .list ["y".toList, "z".toList])]
      false false = .ok [("ID".toList, ["a".toList, "b".toList]), ("Name".toList, ["y".toList, "z".toList])] := by
  have h : mergeExtend .attrs false [("ID".toList, .list ["ab".toList])] [("Name".toList, .list ["y".toList, "z".toList])]
      (mergeWrap .attrs false (mergeUpdate .attrs .attrs false [("ID".toList, .list ["ab".toList])]
        [("Name".toList, .list ["y".toList, "z".toList])])) =
      .ok [("ID".toList, .list ["ab".toList]), ("Name".toList, .list ["y".toList, "z".toList])] := by decide
  unfold mergeAttributesWith
  rw [h]
  simp (config := {decide := true}) [mergeFinal, readItems, readVal, Attributes.view, elemsOf, finalSort, dedup,
    sortStrs, List.mergeSort, strLe, bind, Except.bind, pure, Except.pure]

/-- the same arguments as `merge_D7_crash` under the pinned setting -/
example : mergeAttributesFixed .attrs .attrs [("ID".toList, .list ["x".toList])] [("ID".toList, .list ["y".toList])]
    false = .ok [("ID".toList, ["x".toList, "y".toList])] := by
  have h : mergeExtend .attrs true [("ID".toList, .list ["x".toList])] [("ID".toList, .list ["y".toList])]
      (mergeWrap .attrs true (mergeUpdate .attrs .attrs true [("ID".toList, .list ["x".toList])]
        [("ID".toList, .list ["y".toList])])) = .ok [("ID".toList, .list ["y".toList, "x".toList])] := by decide
  unfold mergeAttributesFixed mergeAttributesWith
  rw [h]
  simp (config := {decide := true}) [mergeFinal, readItems, readVal, Attributes.view, elemsOf, finalSort, dedup,
    sortStrs, List.mergeSort, strLe, bind, Except.bind, pure, Except.pure]

/-- today `mergeAttributes … (alwaysList := false)` *is* that code -/
theorem merge_D7_current (k1 k2 : Kind) (a1 a2 : Dict PyVal) (num : Bool) :
    mergeAttributes k1 k2 a1 a2 num false = mergeAttributesWith k1 k2 a1 a2 num (mergeEffectiveView false) := rfl

/-- non-vacuity of the specification: scalars, an empty list, a shared key, numeric values, both classes -/
example := merge_attributes_spec .dict .attrs [("k".toList, .scalar "10".toList), ("j".toList, .list [])]
    [("k".toList, .list ["9".toList, "1.5".toList, "10".toList]), ("n".toList, .list ["x".toList])] true
    (by decide) (by decide) (by decide) (by decide)

/-- numeric order differs from string order -/
example : finalSort true [['1', '0'], ['9'], ['1', '.', '5'], ['1', '0']] = [['1', '.', '5'], ['9'], ['1', '0']] ∧
    finalSort false [['1', '0'], ['9'], ['1', '.', '5'], ['1', '0']] = [['1', '.', '5'], ['1', '0'], ['9']] ∧
    finalSort true [['1', '0'], ['9'], ['x']] = [['1', '0'], ['9'], ['x']] := by
  have h1 : decKey? ['1', '0'] = some (10 * 10 ^ 15) := by decide
  have h2 : decKey? ['9'] = some (9 * 10 ^ 15) := by decide
  have h3 : decKey? ['1', '.', '5'] = some (15 * 10 ^ 14) := by decide
  have h4 : decKey? ['x'] = none := by decide
  refine ⟨?_, ?_, ?_⟩
  · simp (config := {decide := true}) [finalSort, dedup, sortNumeric, List.mergeSort, numLe, h1, h2, h3]
  · simp (config := {decide := true}) [finalSort, dedup, sortStrs, List.mergeSort, strLe]
  · simp (config := {decide := true}) [finalSort, dedup, sortNumeric, sortStrs, List.mergeSort, strLe, h1, h2, h4]

/-! ## 5. equality and hash of Features are those of the printed line -/

/-- `f == g` exactly when both print, to the same line -/
theorem eq_iff_print (f g : Feature) :
    f.pyEq g = .ok true ↔ ∃ s, f.print = .ok s ∧ g.print = .ok s := by
  unfold Feature.pyEq
  cases hf : f.print with
  | error e => simp [bind, Except.bind]
  | ok a =>
    cases hg : g.print with
    | error e => simp [bind, Except.bind]
    | ok b =>
      simp only [bind, Except.bind, pure, Except.pure, Except.ok.injEq, decide_eq_true_eq]
      constructor
      · intro h; exact ⟨a, rfl, by rw [h]⟩
      · rintro ⟨s, h1, h2⟩; exact h1.trans h2.symm

theorem ne_iff_print (f g : Feature) :
    f.pyNe g = .ok true ↔ ∃ s t, f.print = .ok s ∧ g.print = .ok t ∧ s ≠ t := by
  unfold Feature.pyNe
  cases hf : f.print with
  | error e => simp [bind, Except.bind]
  | ok a =>
    cases hg : g.print with
    | error e => simp [bind, Except.bind]
    | ok b =>
      simp only [bind, Except.bind, pure, Except.pure, Except.ok.injEq, decide_eq_true_eq]
      constructor
      · intro h; exact ⟨a, b, rfl, rfl, h⟩
      · rintro ⟨s, t, h1, h2, h3⟩; cases h1; cases h2; exact h3

/-- `!=` is the negation of `==` (whenever either is defined) -/
theorem ne_eq_not_eq (f g : Feature) : f.pyNe g = (f.pyEq g).map (!·) := by
  unfold Feature.pyNe Feature.pyEq
  cases f.print with
  | error e => rfl
  | ok a =>
    cases g.print with
    | error e => rfl
    | ok b => simp [bind, Except.bind, pure, Except.pure, Except.map]

/-- equal Features hash alike, for any hash that is a function of the printed text -/
theorem hash_of_eq (h : Str → Int) (f g : Feature) (he : f.pyEq g = .ok true) :
    f.pyHash h = g.pyHash h ∧ ∃ n, f.pyHash h = .ok n := by
  obtain ⟨s, hf, hg⟩ := (eq_iff_print f g).1 he
  unfold Feature.pyHash
  rw [hf, hg]
  exact ⟨rfl, _, rfl⟩

/-- equality ignores everything that is not printed (database id, file order, bin) -/
theorem eq_ignores_unprinted (f : Feature) (s : Str) (hf : f.print = .ok s) (id' : Option Str)
    (fo : Option Nat) (b : Option Bins.BinResult) :
    f.pyEq { f with id := id', fileOrder := fo, bin := b } = .ok true :=
  (eq_iff_print _ _).2 ⟨s, hf, hf⟩

example : ∃ f g : Feature, f.pyEq g = .ok true ∧ f.id ≠ g.id :=
  ⟨{ seqid := "c".toList }, { seqid := "c".toList, id := some "x".toList },
    by decide +kernel, by decide⟩

example : ∃ f g : Feature, f.pyEq g = .ok false ∧ f.pyNe g = .ok true :=
  ⟨{ seqid := "c".toList }, { seqid := "d".toList }, by decide +kernel, by decide +kernel⟩

end GffProofs.C17
