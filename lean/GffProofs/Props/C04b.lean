/-
  C04 (part b) — "an id attribute carrying several values is rejected, never silently truncated", at LINE
  level for the repeated-key spelling `ID=a;ID=b`.

  `C04.multi_valued_rejected` speaks about a Feature whose mapping already holds two values.  What makes a
  LINE with a repeated id key reach that state is the parser: both `_split_keyvals` paths APPEND the values
  of a repeated key (the supplied-dialect path whatever the dialect's `repeated keys` flag says — it never
  reads it).  A parser change to "last one wins" / "first one wins" would silently turn such a line into a
  single-valued id; no earlier theorem spoke about it for texts outside the `LineSpec` grammar or for a
  supplied dialect whose flag disagrees with the text.

  * `provided_values`, `inferred_values` — Dict level, every key: what `_split_keyvals` stores under `k`
    is the concatenation, in order of occurrence, of the contributions of ALL parts whose key is `k`.
  * `repeated_key_both_values`  — a key written twice with ordinary values `v`, `w` holds exactly `[v, w]`.
  * `repeated_key_two_or_more`  — a key written (at least) twice with non-empty values holds ≥ 2 values.
  * `rejected_of_reaches`       — `_id_handler` with any id_spec whose loop reaches such a key: `ValueError`.
  * `repeated_id_line_rejected` — the two composed at `feature_from_line` level (any text, either parser).
  * `lineSpec_multi_id_provided`, `lineSpec_multi_id_inferred` — for rendered lines of the grammar
    (`repeated = true`: the `ID=a;ID=b` spelling, `renderItem_repeated`), supplied dialect with EITHER
    value of the flag, or inferred.
-/
import GffProofs.Lemmas.C04bAux3
import GffProofs.Props.C04
import GffProofs.Props.C01

namespace GffProofs.C04
open GffModel GffModel.Parser GffModel.Grammar GffModel.Create
open GffProofs.C04b

/-! ## Specification -/

/-- the `(key, raw value)` parts of an attribute text, as the parser chosen by `dl` cuts them -/
def kvParts (a : Str) : Option Dialect → Py (List (Str × Str))
  | some d => do
    let items ← provItems a d
    items.mapM (keyVal d.kvSep)
  | none => do
    let (items, d) ← inferItems (C07.frontStage a).1 (C07.frontStage a).2
    items.mapM (keyVal d.kvSep)

/-- does the parser strip quotes from a written value? (supplied: when the dialect says so; inferring: always) -/
def stripsQuotes : Option Dialect → Bool
  | some d => d.quoted
  | none => true

/-- the keys `_id_handler` walks for this feature -/
def listedKeys (spec : IdSpec) (f : Feature) : Option (List KeySpec) :=
  match spec with
  | .keys ks => some ks
  | .perType m => m.get? f.ftype

/-- the loop of `_id_handler` REACHES the attribute key `k`: `k` is listed (not a `:field:` form) and the
loop falls through everything listed before it (absent attributes, empty value lists, callables returning
None / '') -/
def Reaches (spec : IdSpec) (auto : Dict Nat) (f : Feature) (k : Str) : Prop :=
  ∃ pre post, listedKeys spec f = some (pre ++ KeySpec.attr k :: post) ∧ isFieldSpec k = false ∧
    tryKeys auto f pre = .ok none

/-! ## 1. Dict level: values of a key are concatenated in order of occurrence -/

/-- **supplied dialect** (any dialect, any text): the dialect comes back unchanged and, for EVERY key, the
stored list is the decoded concatenation of what each part with that key contributes, in order -/
theorem provided_values (a : Str) (d : Dialect) (ie : Bool) (attrs : Attrs) (d' : Dialect) (hne : a ≠ [])
    (h : splitKeyvals a (some d) ie = .ok (attrs, d')) :
    d' = d ∧ ∃ kvs, kvParts a (some d) = .ok kvs ∧
      ∀ k, attrs.get? k = if k ∈ kvs.map (·.1) then some (decode d ie (collect (provVals d) k kvs)) else none := by
  have he : a.isEmpty = false := by cases a with | nil => exact absurd rfl hne | cons _ _ => rfl
  unfold splitKeyvals at h
  simp only [he, Bool.false_eq_true, if_false] at h
  rw [splitProvided_eq] at h
  simp only [kvParts]
  cases hi : provItems a d with
  | error e => rw [hi] at h; cases h
  | ok items =>
    rw [hi] at h
    simp only [bind, Except.bind, pure, Except.pure] at h ⊢
    cases hf : List.foldlM (C08.foldStep d) [] items with
    | error e => rw [hf] at h; cases h
    | ok q =>
      rw [hf] at h
      simp only [Except.ok.injEq, Prod.mk.injEq] at h
      obtain ⟨rfl, rfl⟩ := h
      obtain ⟨kvs, hm, hq⟩ := provFold_get? d items [] q hf
      refine ⟨rfl, kvs, hm, fun k => ?_⟩
      rw [unquoteQuals_get?, hq k]
      by_cases hin : k ∈ kvs.map (·.1) <;> simp [hin, Dict.get?]

/-- **inferring parser** (any text): for EVERY key, the stored list is the decoded concatenation of what
each part with that key contributes, in order (a part's contribution depends on the keys before it:
`inferCollect`, started with no key seen and no repetition) -/
theorem inferred_values (a : Str) (ie : Bool) (attrs : Attrs) (d' : Dialect) (hne : a ≠ [])
    (h : splitKeyvals a none ie = .ok (attrs, d')) :
    ∃ kvs, kvParts a none = .ok kvs ∧
      ∀ k, attrs.get? k = if k ∈ kvs.map (·.1) then some (decode d' ie (inferCollect k [] false kvs)) else none := by
  have he : a.isEmpty = false := by cases a with | nil => exact absurd rfl hne | cons _ _ => rfl
  unfold splitKeyvals at h
  simp only [he, Bool.false_eq_true, if_false] at h
  rw [splitInfer_eq] at h
  simp only [kvParts]
  cases hi : inferItems (C07.frontStage a).1 (C07.frontStage a).2 with
  | error e => rw [hi] at h; cases h
  | ok r =>
    obtain ⟨items, d1⟩ := r
    have hrep := (inferItems_repeated _ _ _ _ hi).trans (frontStage_repeated a)
    rw [hi] at h
    simp only [bind, Except.bind, pure, Except.pure] at h ⊢
    cases hf : List.foldlM C07.stepO (([] : Attrs), d1) items with
    | error e => rw [hf] at h; cases h
    | ok r2 =>
      obtain ⟨q, d2⟩ := r2
      rw [hf] at h
      simp only [Except.ok.injEq] at h
      obtain ⟨kvs, hm, _, hq⟩ := inferFold_get? items [] q d1 d2 [] (fun k => rfl) hf
      have h2 : (C07.finishStage q d2 ie).2 = d' := by rw [h]
      have h1 : attrs = unquoteQuals q (C07.finishStage q d2 ie).2 ie :=
        (congrArg Prod.fst h).symm
      rw [h2] at h1
      refine ⟨kvs, hm, fun k => ?_⟩
      rw [h1, unquoteQuals_get?, hq k, hrep]
      by_cases hin : k ∈ kvs.map (·.1) <;> simp [hin, Dict.get?]

/-! ## 2. a key written twice -/

/-- **the common core, either parser**: a key `k` written at two places of the text, with raw values `v`
then `w`, holds `A ++ x ++ B ++ y ++ C` (decoded) where `x`, `y` are the contributions of the two
places — non-empty for non-empty values, `[v]` / `[w]` for ordinary ones — and `A`, `B`, `C` (the
contributions of further occurrences before / between / after) are empty when there are none -/
theorem values_twice (a : Str) (dl : Option Dialect) (ie : Bool) (attrs : Attrs) (d' : Dialect) (hne : a ≠ [])
    (h : splitKeyvals a dl ie = .ok (attrs, d')) (k v w : Str) (pre mid post : List (Str × Str))
    (hk : kvParts a dl = .ok (pre ++ (k, v) :: (mid ++ (k, w) :: post))) :
    ∃ A x B y C, attrs.get? k = some (decode d' ie (A ++ x ++ B ++ y ++ C)) ∧
      (PlainVal v → x = [v]) ∧ (PlainVal w → y = [w]) ∧
      (Valued (stripsQuotes dl) v → x ≠ []) ∧ (Valued (stripsQuotes dl) w → y ≠ []) ∧
      (k ∉ pre.map (·.1) → A = []) ∧ (k ∉ mid.map (·.1) → B = []) ∧ (k ∉ post.map (·.1) → C = []) := by
  have hmem : k ∈ (pre ++ (k, v) :: (mid ++ (k, w) :: post)).map (·.1) := by simp
  cases dl with
  | some d =>
    obtain ⟨rfl, kvs, hkv, hq⟩ := provided_values a d ie attrs d' hne h
    rw [hk] at hkv
    cases hkv
    refine ⟨collect (provVals d') k pre, provVals d' v, collect (provVals d') k mid, provVals d' w,
      collect (provVals d') k post, ?_, provVals_plain d' v, provVals_plain d' w, provVals_ne d' v, provVals_ne d' w,
      collect_absent _ _ _, collect_absent _ _ _, collect_absent _ _ _⟩
    rw [hq k, if_pos hmem, collect_twice]
  | none =>
    obtain ⟨kvs, hkv, hq⟩ := inferred_values a ie attrs d' hne h
    rw [hk] at hkv
    cases hkv
    obtain ⟨r1, A, B, C, he, hA, hB, hC⟩ := inferCollect_twice k v w pre mid post [] false
    refine ⟨A, inferVals r1 v, B, inferVals true w, C, ?_, inferVals_plain r1 v, inferVals_plain true w,
      inferVals_ne r1 v, inferVals_ne true w, hA, hB, hC⟩
    rw [hq k, if_pos hmem, he]

/-- **both values, in order**: a key written exactly twice with ordinary values (non-empty, no comma, not
in quotes) holds exactly `[v, w]` (percent-decoded when the format is gff3) — supplied dialect with any
`repeated keys` flag, or inferred -/
theorem repeated_key_both_values (a : Str) (dl : Option Dialect) (ie : Bool) (attrs : Attrs) (d' : Dialect)
    (hne : a ≠ []) (h : splitKeyvals a dl ie = .ok (attrs, d')) (k v w : Str) (pre mid post : List (Str × Str))
    (hk : kvParts a dl = .ok (pre ++ (k, v) :: (mid ++ (k, w) :: post)))
    (h1 : k ∉ pre.map (·.1)) (h2 : k ∉ mid.map (·.1)) (h3 : k ∉ post.map (·.1))
    (hv : PlainVal v) (hw : PlainVal w) : attrs.get? k = some (decode d' ie [v, w]) := by
  obtain ⟨A, x, B, y, C, hg, hx, hy, _, _, hA, hB, hC⟩ := values_twice a dl ie attrs d' hne h k v w pre mid post hk
  rw [hg, hA h1, hB h2, hC h3, hx hv, hy hw]; rfl

/-- **never truncated**: a key written at least twice with non-empty values holds at least two values -/
theorem repeated_key_two_or_more (a : Str) (dl : Option Dialect) (ie : Bool) (attrs : Attrs) (d' : Dialect)
    (hne : a ≠ []) (h : splitKeyvals a dl ie = .ok (attrs, d')) (k v w : Str) (pre mid post : List (Str × Str))
    (hk : kvParts a dl = .ok (pre ++ (k, v) :: (mid ++ (k, w) :: post)))
    (hv : Valued (stripsQuotes dl) v) (hw : Valued (stripsQuotes dl) w) :
    ∃ x y zs, attrs.get? k = some (x :: y :: zs) := by
  obtain ⟨A, x, B, y, C, hg, _, _, hx, hy, _⟩ := values_twice a dl ie attrs d' hne h k v w pre mid post hk
  have hl : 2 ≤ (decode d' ie (A ++ x ++ B ++ y ++ C)).length := by
    have := List.length_pos_iff.mpr (hx hv)
    have := List.length_pos_iff.mpr (hy hw)
    rw [decode_length]; simp only [List.length_append]; omega
  obtain ⟨p, q, r, e⟩ := two_of_length hl
  exact ⟨p, q, r, by rw [hg, e]⟩

/-! ## 3. rejection -/

/-- **any id_spec whose loop reaches a key holding several values rejects the feature** (`ValueError`) —
string / list / dict-of-list specs, with absent attributes or None-returning callables listed before -/
theorem rejected_of_reaches (spec : IdSpec) (auto : Dict Nat) (f : Feature) (k x y : Str) (zs : List Str)
    (hr : Reaches spec auto f k) (hk : f.attrs.get? k = some (x :: y :: zs)) :
    idHandler spec auto f = .error .value := by
  obtain ⟨pre, post, hl, hfs, hpre⟩ := hr
  have key : tryKeys auto f (pre ++ KeySpec.attr k :: post) = .error .value := by
    rw [tryKeys_fallthrough auto f pre _ hpre]
    simp [tryKeys, hfs, hk]
  unfold listedKeys at hl
  cases spec with
  | keys ks => cases hl; simp only [idHandler, key, bind, Except.bind]
  | perType m => simp only [idHandler, hl, key, bind, Except.bind]

/-! ## 4. at `feature_from_line` level (any text, either parser) -/

/-- **a line whose attribute column writes the id key twice is rejected, and the Feature holds both
values**: for `feature_from_line(line, dialect=dl)` (`dl` supplied — whatever its `repeated keys` flag — or
`None`), if the parts of the ninth column contain `k` at two places with non-empty values, the parsed
Feature has at least two values under `k` (exactly `[v, w]`, decoded, when these are the only two and
ordinary) and `_id_handler` with any id_spec that reaches `k` raises `ValueError`. -/
theorem repeated_id_line_rejected (line : Str) (dl : Option Dialect) (ko ie : Bool) (f : Feature)
    (h : featureFromLine line dl true ko ie = .ok f) (hne : attrColumn line ≠ [])
    (k v w : Str) (pre mid post : List (Str × Str))
    (hk : kvParts (attrColumn line) dl = .ok (pre ++ (k, v) :: (mid ++ (k, w) :: post)))
    (hv : Valued (stripsQuotes dl) v) (hw : Valued (stripsQuotes dl) w) :
    (∃ x y zs, f.attrs.get? k = some (x :: y :: zs)) ∧
    (k ∉ pre.map (·.1) → k ∉ mid.map (·.1) → k ∉ post.map (·.1) → PlainVal v → PlainVal w →
      ∃ d', f.attrs.get? k = some (decode d' ie [v, w])) ∧
    ∀ spec auto, Reaches spec auto f k → idHandler spec auto f = .error .value := by
  obtain ⟨attrs, d', hs, rfl⟩ := featureFromLine_attrs line dl ko ie f h
  obtain ⟨x, y, zs, hg⟩ := repeated_key_two_or_more _ dl ie _ d' hne hs k v w pre mid post hk hv hw
  exact ⟨⟨x, y, zs, hg⟩,
    fun h1 h2 h3 pv pw => ⟨d', repeated_key_both_values _ dl ie _ d' hne hs k v w pre mid post hk h1 h2 h3 pv pw⟩,
    fun spec auto hr => rejected_of_reaches spec auto f k x y zs hr hg⟩

/-! ## 5. lines of the grammar -/

/-- with `repeated = true` a multi-valued item IS written in the repeated-key spelling `k=v;k=w;…` -/
theorem renderItem_repeated (s : LineSpec) (hr : s.repeated = true) (k v w : Str) (vs : List Str) :
    renderItem s ⟨k, v :: w :: vs⟩ = (v :: w :: vs).map (fun x => k ++ s.kvSep ++ wrapQ s (s.encVal x)) := by
  simp [renderItem, hr]

theorem mapping_get? (s : LineSpec) (hnd : (s.attrs.map (·.key)).Nodup) (it : AttrItem) (h : it ∈ s.attrs) :
    s.mapping.get? it.key = some it.vals := by
  apply DictL.get?_of_mem
  · have : Dict.keys s.mapping = s.attrs.map (·.key) := by
      simp only [Dict.keys, LineSpec.mapping, List.map_map]; rfl
    rw [this]; exact hnd
  · exact List.mem_map.mpr ⟨it, h, rfl⟩

/-- **supplied dialect**: a renderable line (`WFprov`) carrying an item with two or more values — written
`k=v;k=w` when `repeated`, `k=v,w` otherwise — parsed with a dialect that has the line's dimensions and
EITHER value of the `repeated keys` flag: the Feature holds all the values in order, and every id_spec
reaching `k` rejects it -/
theorem lineSpec_multi_id_provided (s : LineSpec) (h : s.WFprov = true) (d : Dialect)
    (hd : C01.HasDims { d with repeatedKeys := s.repeated } s) (ko : Bool)
    (k v w : Str) (vs : List Str) (hit : (⟨k, v :: w :: vs⟩ : AttrItem) ∈ s.attrs) :
    ∃ f, featureFromLine (renderLine s) (some d) true ko = .ok f ∧ f.attrs.get? k = some (v :: w :: vs) ∧
      ∀ spec auto, Reaches spec auto f k → idHandler spec auto f = .error .value := by
  have h1 := (C01.provided_parse_render_line s h _ hd ko).1
  have hdd : d = { ({ d with repeatedKeys := s.repeated } : Dialect) with repeatedKeys := d.repeatedKeys } := by
    cases d; rfl
  have hf : featureFromLine (renderLine s) (some d) true ko = .ok (C01.provFeature s d ko) := by
    conv => lhs; rw [hdd]
    rw [featureFromLine_flag, h1]
    cases d; rfl
  have hg : (C01.provFeature s d ko).attrs.get? k = some (v :: w :: vs) :=
    mapping_get? s (C01.pfacts s h).1.nodup _ hit
  exact ⟨_, hf, hg, fun spec auto hr => rejected_of_reaches spec auto _ k v w vs hr hg⟩

/-- **inferring parser**: the same for a fully well-formed line (`WF`) parsed without a dialect -/
theorem lineSpec_multi_id_inferred (s : LineSpec) (h : s.WF = true) (ko : Bool)
    (k v w : Str) (vs : List Str) (hit : (⟨k, v :: w :: vs⟩ : AttrItem) ∈ s.attrs) :
    ∃ f, featureFromLine (renderLine s) none true ko = .ok f ∧ f.attrs.get? k = some (v :: w :: vs) ∧
      ∀ spec auto, Reaches spec auto f k → idHandler spec auto f = .error .value := by
  obtain ⟨o3, o4, _, _, hf⟩ := C07.strict_feature s h ko
  have hg : (C07.specFeature s o3 o4 ko).attrs.get? k = some (v :: w :: vs) :=
    mapping_get? s (C01.pfacts s (C01.wfprov_of_wf s h)).1.nodup _ hit
  exact ⟨_, hf, hg, fun spec auto hr => rejected_of_reaches spec auto _ k v w vs hr hg⟩

/-! ## non-vacuity -/

section Examples

/-- a hand-written line: the id key twice -/
def dupLine : Str := "chr1\t.\tgene\t1\t9\t.\t+\t.\tID=gX;ID=gY".toList
def idK : Str := "ID".toList

-- the parts, as both parsers cut them
example : kvParts (attrColumn dupLine) (some Dialect.default) = .ok [(idK, "gX".toList), (idK, "gY".toList)] := by
  decide +kernel
example : kvParts (attrColumn dupLine) none = .ok [(idK, "gX".toList), (idK, "gY".toList)] := by decide +kernel

-- evaluated: with the default dialect SUPPLIED (`repeated keys` = False; what a line beyond the inspection
-- window gets) and inferred, the Feature holds both values and the default GFF3 id_spec raises ValueError
example : ((featureFromLine dupLine (some Dialect.default) true false).toOption.map (·.attrs)) =
    some [(idK, ["gX".toList, "gY".toList])] := by decide +kernel
example : ((featureFromLine dupLine none true false).toOption.map (·.attrs)) =
    some [(idK, ["gX".toList, "gY".toList])] := by decide +kernel
example : ((featureFromLine dupLine (some Dialect.default) true false).bind (idHandler defaultGffSpec [])) =
    .error .value := by decide +kernel

-- the same through the iterator: one ordinary line inside the window (`checklines = 1`) votes the default
-- dialect, the duplicated-id line beyond it is parsed with that dialect, and `create_db` fails
example : ((Iter.runFile ["chr1\t.\tgene\t1\t9\t.\t+\t.\tID=g0".toList, dupLine] 1 none none).bind
      (fun r => createDb .gff { idSpec := defaultGffSpec, dialect := r.1 } r.2.2 r.2.1)).toOption.isNone = true ∧
    ((Iter.runFile ["chr1\t.\tgene\t1\t9\t.\t+\t.\tID=g0".toList, dupLine] 1 none none).map
      (fun r => (r.1.repeatedKeys, r.2.1.map (fun f => f.attrs.get? idK)))) =
      .ok (false, [some ["g0".toList], some ["gX".toList, "gY".toList]]) := by decide +kernel

/-- the hypotheses of `repeated_id_line_rejected` hold for the hand-written line (either parser) and the
default id_spec reaches `ID` -/
example (dl : Option Dialect) (hdl : dl = some Dialect.default ∨ dl = none) (f : Feature)
    (h : featureFromLine dupLine dl true false = .ok f) :
    idHandler defaultGffSpec [] f = .error .value := by
  have hk : kvParts (attrColumn dupLine) dl = .ok ([] ++ (idK, "gX".toList) :: ([] ++ (idK, "gY".toList) :: [])) := by
    rcases hdl with rfl | rfl <;> decide +kernel
  have hv : ∀ x, x = "gX".toList ∨ x = "gY".toList → Valued (stripsQuotes dl) x := by
    rcases hdl with rfl | rfl <;> (intro x hx; rcases hx with rfl | rfl <;> decide)
  exact (repeated_id_line_rejected dupLine dl false false f h (by decide) idK _ _ [] [] [] hk
    (hv _ (Or.inl rfl)) (hv _ (Or.inr rfl))).2.2 _ [] ⟨[], [], rfl, by decide, rfl⟩

/-- a grammar line in the repeated-key spelling, GTF-style dialect supplied with the flag OFF -/
def dupSpec : LineSpec :=
  { cols := ["chr1", "src", "gene", "1", "9", ".", "+", "."].map String.toList, sep := "; ".toList,
    trailing := true, style := .eq, quoted := false, repeated := true,
    attrs := [⟨idK, ["gX".toList, "gY".toList]⟩, ⟨"Name".toList, ["n".toList]⟩], extra := [] }
def dupDialect : Dialect := { dupSpec.dialect with repeatedKeys := false, order := [] }

example : renderAttrs dupSpec = "ID=gX; ID=gY; Name=n;".toList := by decide +kernel
example : ∃ f, featureFromLine (renderLine dupSpec) (some dupDialect) true false = .ok f ∧
    f.attrs.get? idK = some ["gX".toList, "gY".toList] ∧ idHandler defaultGffSpec [] f = .error .value := by
  obtain ⟨f, hf, hg, hr⟩ := lineSpec_multi_id_provided dupSpec (by decide +kernel) dupDialect (by decide +kernel) false
    idK "gX".toList "gY".toList [] (by decide)
  exact ⟨f, hf, hg, hr _ [] ⟨[], [], rfl, by decide, rfl⟩⟩
example : ∃ f, featureFromLine (renderLine dupSpec) none true false = .ok f ∧
    idHandler defaultGffSpec [] f = .error .value := by
  obtain ⟨f, hf, _, hr⟩ := lineSpec_multi_id_inferred dupSpec (by decide +kernel) false
    idK "gX".toList "gY".toList [] (by decide)
  exact ⟨f, hf, hr _ [] ⟨[], [], rfl, by decide, rfl⟩⟩

end Examples

end GffProofs.C04
