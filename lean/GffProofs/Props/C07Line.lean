/-
  C07 — line level: `feature_from_line` on a rendered line specification, and printing it back.
-/
import GffModel.Grammar
import GffProofs.Props.C07
import GffProofs.Lemmas.C07LineStr

namespace GffProofs.C07
open GffModel GffModel.Parser GffModel.Grammar

/-- the eight fixed columns of a parsed feature, as text -/
def featureCols (f : Feature) : List Str :=
  [f.seqid, f.source, f.ftype, Feature.coordStr f.start, Feature.coordStr f.stop, f.score, f.strand, f.frame]

/-! ### the column facts of `LineSpec.WF` -/

structure ColFacts (s : LineSpec) : Prop where
  len : s.cols.length = 8
  cols : ∀ c ∈ s.cols, colOk c = true
  extra : ∀ c ∈ s.extra, colOk c = true
  c3 : (s.cols[3]?).getD [] = ['.'] ∨ canonInt ((s.cols[3]?).getD []) = true
  c4 : (s.cols[4]?).getD [] = ['.'] ∨ canonInt ((s.cols[4]?).getD []) = true

theorem colFacts (s : LineSpec) (h : s.WF = true) : ColFacts s := by
  simp only [LineSpec.WF, Bool.and_eq_true] at h
  obtain ⟨⟨⟨⟨⟨⟨⟨⟨⟨⟨⟨⟨⟨h1, h2⟩, h3⟩, h4⟩, h5⟩, _⟩, _⟩, _⟩, _⟩, _⟩, _⟩, _⟩, _⟩, _⟩ := h
  refine ⟨by simpa using h1, by simpa using h2, by simpa using h3, ?_, ?_⟩
  · simpa using h4
  · simpa using h5

/-- a character excluded from columns -/
def Bad (c : Char) : Prop := c = '\t' ∨ c = '\r' ∨ c = '\n'

theorem colOk_not_mem (f : Str) (h : colOk f = true) (c : Char) (hc : Bad c) : c ∉ f := by
  apply noneOf_not_mem _ _ h c
  rcases hc with rfl | rfl | rfl <;> simp

theorem mem_wrapQ (s : LineSpec) (X : Str) (c : Char) (h : c ∈ wrapQ s X) : c = '"' ∨ c ∈ X := by
  unfold wrapQ at h
  split at h
  · simp only [List.mem_cons, List.mem_append, List.not_mem_nil, or_false] at h
    rcases h with (h | h) | h
    · exact Or.inl h
    · exact Or.inr h
    · exact Or.inl h
  · exact Or.inr h

theorem mem_renderItem (s : LineSpec) (it : AttrItem) (p : Str) (hp : p ∈ renderItem s it) (c : Char)
    (hc : c ∈ p) :
    c ∈ it.key ∨ c ∈ s.kvSep ∨ c = '"' ∨ c = ',' ∨ ∃ v ∈ it.vals, c ∈ s.encVal v := by
  unfold renderItem at hp
  split at hp
  · split at hp
    · simp only [List.mem_cons, List.not_mem_nil, or_false] at hp
      subst hp
      simp only [List.mem_append, List.mem_cons, List.not_mem_nil, or_false] at hc
      rcases hc with (h | h) | h | h
      · exact Or.inl h
      · exact Or.inr (Or.inl h)
      · exact Or.inr (Or.inr (Or.inl h))
      · exact Or.inr (Or.inr (Or.inl h))
    · simp only [List.mem_cons, List.not_mem_nil, or_false] at hp
      subst hp; exact Or.inl hc
  · split at hp
    · obtain ⟨v, hv, rfl⟩ := List.mem_map.mp hp
      simp only [List.mem_append] at hc
      rcases hc with (h | h) | h
      · exact Or.inl h
      · exact Or.inr (Or.inl h)
      · rcases mem_wrapQ s _ c h with h | h
        · exact Or.inr (Or.inr (Or.inl h))
        · exact Or.inr (Or.inr (Or.inr (Or.inr ⟨v, hv, h⟩)))
    · simp only [List.mem_cons, List.not_mem_nil, or_false] at hp
      subst hp
      simp only [List.mem_append] at hc
      rcases hc with (h | h) | h
      · exact Or.inl h
      · exact Or.inr (Or.inl h)
      · rcases mem_wrapQ s _ c h with h | h
        · exact Or.inr (Or.inr (Or.inl h))
        · rcases mem_join _ _ c h with h | ⟨q, hq, hcq⟩
          · simp only [List.mem_cons, List.not_mem_nil, or_false] at h
            exact Or.inr (Or.inr (Or.inr (Or.inl h)))
          · obtain ⟨v, hv, rfl⟩ := List.mem_map.mp hq
            exact Or.inr (Or.inr (Or.inr (Or.inr ⟨v, hv, hcq⟩)))

/-- the rendered attribute column contains no tab, CR or LF -/
theorem renderAttrs_clean (s : LineSpec) (h : s.WF = true) (c : Char) (hc : Bad c) :
    c ∉ renderAttrs s := by
  have W := wfacts s h
  have hsemi : c ≠ ';' := by rcases hc with rfl | rfl | rfl <;> decide
  have hbody : c ∉ Str.join s.sep (s.attrs.flatMap (renderItem s)) := by
    intro hm
    rcases mem_join _ _ c hm with hm | ⟨p, hp, hcp⟩
    · rcases W.sep with e | e | e <;> rw [e] at hm <;> rcases hc with rfl | rfl | rfl <;>
        exact absurd hm (by decide)
    · obtain ⟨it, hit, hp⟩ := List.mem_flatMap.mp hp
      rcases mem_renderItem s it p hp c hcp with hk | hk | hk | hk | ⟨v, hv, hk⟩
      · have := W.key it hit
        unfold keyOk at this
        simp only [Bool.and_eq_true] at this
        refine noneOf_not_mem _ _ this.1.1.2 c ?_ hk
        rcases hc with rfl | rfl | rfl <;> simp
      · rcases kvSep_cases s with ⟨_, e⟩ | ⟨_, e⟩ <;> rw [e] at hk <;> rcases hc with rfl | rfl | rfl <;>
          exact absurd hk (by decide)
      · rcases hc with rfl | rfl | rfl <;> exact absurd hk (by decide)
      · rcases hc with rfl | rfl | rfl <;> exact absurd hk (by decide)
      · have := W.val it hit v hv
        unfold valOk at this
        simp only [Bool.and_eq_true] at this
        refine noneOf_not_mem _ _ this.1.1.2 c ?_ hk
        rcases hc with rfl | rfl | rfl <;> simp
  unfold renderAttrs
  split
  · simp
  · simp only
    split
    · intro hm
      rcases List.mem_append.mp hm with hm | hm
      · exact hbody hm
      · simp only [List.mem_cons, List.not_mem_nil, or_false] at hm; exact hsemi hm
    · exact hbody

/-! ### coordinates -/

theorem coord_ok (c : Str) (h : c = ['.'] ∨ canonInt c = true) :
    ∃ o, Feature.parseCoord c = .ok o ∧ Feature.coordStr o = c := by
  by_cases hd : c = ['.']
  · exact ⟨none, by simp [Feature.parseCoord, hd], by simp [Feature.coordStr, hd]⟩
  · have hc : canonInt c = true := by rcases h with h | h; exact absurd h hd; exact h
    unfold canonInt at hc
    split at hc
    · rename_i i hi
      have hne : c ≠ [] := by
        intro e
        have hn : Str.parseInt? [] = none := by decide
        rw [e, hn] at hi; cases hi
      refine ⟨some i, ?_, by simpa [Feature.coordStr] using hc⟩
      simp [Feature.parseCoord, hd, hne, hi]
    · exact absurd hc (by simp)

/-! ### the strict (tab) case -/

/-- the tab-separated fields come back -/
theorem strict_fields (s : LineSpec) (h : s.WF = true) :
    Str.splitChar '\t' (Str.rstripChars ['\n', '\r'] (renderLine s)) = s.cols ++ [renderAttrs s] ++ s.extra := by
  have C := colFacts s h
  have hf : ∀ f ∈ s.cols ++ [renderAttrs s] ++ s.extra, ∀ c, Bad c → c ∉ f := by
    intro f hf c hc
    simp only [List.mem_append, List.mem_cons, List.not_mem_nil, or_false] at hf
    rcases hf with (hf | hf) | hf
    · exact colOk_not_mem f (C.cols f hf) c hc
    · rw [hf]; exact renderAttrs_clean s h c hc
    · exact colOk_not_mem f (C.extra f hf) c hc
  have hclean : ∀ c ∈ renderLine s, ['\n', '\r'].contains c = false := by
    intro c hc
    rcases mem_join _ _ c hc with hm | ⟨p, hp, hcp⟩
    · simp only [List.mem_cons, List.not_mem_nil, or_false] at hm; subst hm; decide
    · have hn : c ≠ '\n' := fun e => hf p hp c (Or.inr (Or.inr e)) hcp
      have hr : c ≠ '\r' := fun e => hf p hp c (Or.inr (Or.inl e)) hcp
      simp [hn, hr]
  rw [rstripChars_id _ _ hclean]
  exact splitChar_join '\t' _ (by simp) (fun f hfm => hf f hfm '\t' (Or.inl rfl))

/-- the Feature built from the eight columns, the specified mapping and dialect -/
def specFeature (s : LineSpec) (o3 o4 : Option Int) (ko : Bool) : Feature :=
  { seqid := (s.cols[0]?).getD ['.'], source := (s.cols[1]?).getD ['.'], ftype := (s.cols[2]?).getD ['.'],
    start := o3, stop := o4, score := (s.cols[5]?).getD ['.'], strand := (s.cols[6]?).getD ['.'],
    frame := (s.cols[7]?).getD ['.'], attrs := s.mapping, extra := s.extra,
    bin := Feature.calcBin o3 o4, dialect := s.dialect, keepOrder := ko }

/-- what `feature_from_line` does once the fields are known -/
def fromFields (fields : List Str) (ko : Bool) : Py Feature := do
  let attrString := (fields[8]?).getD []
  let (attrs, d') ← Parser.splitKeyvals attrString none false
  Feature.mk' (fields.take 8) attrs (fields.drop 9) ((none : Option Dialect).getD d') ko

theorem featureFromLine_strict (line : Str) (ko : Bool) :
    featureFromLine line none true ko =
      fromFields (Str.splitChar '\t' (Str.rstripChars ['\n', '\r'] line)) ko := by
  unfold featureFromLine fromFields
  simp only [if_true, bind, Except.bind, pure, Except.pure]

theorem strict_feature (s : LineSpec) (h : s.WF = true) (ko : Bool) :
    ∃ o3 o4, Feature.coordStr o3 = (s.cols[3]?).getD [] ∧ Feature.coordStr o4 = (s.cols[4]?).getD [] ∧
      featureFromLine (renderLine s) none true ko = .ok (specFeature s o3 o4 ko) := by
  have C := colFacts s h
  obtain ⟨o3, hp3, hs3⟩ := coord_ok _ C.c3
  obtain ⟨o4, hp4, hs4⟩ := coord_ok _ C.c4
  refine ⟨o3, o4, hs3, hs4, ?_⟩
  rw [featureFromLine_strict, strict_fields s h]
  obtain ⟨cols, sep, trailing, style, quoted, repeated, attrs, extra⟩ := s
  have hlen := C.len
  simp only at hlen hp3 hp4
  match cols, hlen with
  | [c0, c1, c2, c3, c4, c5, c6, c7], _ =>
    simp only [List.getElem?_cons_succ, List.getElem?_cons_zero, Option.getD_some] at hp3 hp4
    have hi := infer_render _ h
    simp only [fromFields, List.cons_append, List.nil_append, List.getElem?_cons_succ,
      List.getElem?_cons_zero, Option.getD_some, hi, bind, Except.bind]
    simp [Feature.mk', hp3, hp4, bind, Except.bind, pure, Except.pure, specFeature]

/-- **Parse ∘ render, whole line** (`strict=True`, `keep_order=True`, dialect inferred): the Feature has
the line's eight columns, the decoded attribute mapping in order, the extra columns, and the dialect
the line was written in. -/
theorem parse_render_line (s : LineSpec) (h : s.WF = true) :
    ∃ f, featureFromLine (renderLine s) none true true = .ok f ∧
      featureCols f = s.cols ∧ f.attrs = s.mapping ∧ f.extra = s.extra ∧ f.dialect = s.dialect ∧
      f.keepOrder = true ∧ f.sortVals = false := by
  obtain ⟨o3, o4, h3, h4, hf⟩ := strict_feature s h true
  refine ⟨_, hf, ?_, rfl, rfl, rfl, rfl, rfl⟩
  have hlen := (colFacts s h).len
  obtain ⟨cols, sep, trailing, style, quoted, repeated, attrs, extra⟩ := s
  simp only at hlen h3 h4
  match cols, hlen with
  | [c0, c1, c2, c3, c4, c5, c6, c7], _ =>
    simp only [List.getElem?_cons_succ, List.getElem?_cons_zero, Option.getD_some] at h3 h4
    simp [featureCols, specFeature, h3, h4]

/-- **Print ∘ parse ∘ render, whole line**: the printed Feature is the original line byte for byte —
including trailing extra columns (also an empty last one), `.` coordinates and an empty ninth column. -/
theorem print_parse_render (s : LineSpec) (h : s.WF = true) :
    ∃ f, featureFromLine (renderLine s) none true true = .ok f ∧ f.print = .ok (renderLine s) := by
  obtain ⟨o3, o4, h3, h4, hf⟩ := strict_feature s h true
  refine ⟨_, hf, ?_⟩
  have hlen := (colFacts s h).len
  have hr := reconstruct_render s h
  unfold Feature.print
  simp only [specFeature, hr, bind, Except.bind, pure, Except.pure]
  unfold renderLine
  generalize renderAttrs s = ra
  obtain ⟨cols, sep, trailing, style, quoted, repeated, attrs, extra⟩ := s
  simp only at hlen h3 h4
  match cols, hlen with
  | [c0, c1, c2, c3, c4, c5, c6, c7], _ =>
    simp only [List.getElem?_cons_succ, List.getElem?_cons_zero, Option.getD_some] at h3 h4
    simp only [List.getElem?_cons_succ, List.getElem?_cons_zero, Option.getD_some, h3, h4]
    cases extra with
    | nil => simp
    | cons e es =>
      simp only [List.isEmpty_cons, Bool.false_eq_true, if_false]
      rw [join_append_join _ _ _ (by simp) (by simp)]
      simp

/-! ### the non-strict (blank-separated) case -/

/-- a column of the blank-separated rendering: non-empty, no whitespace, no line break -/
def WordOk (c : Str) : Prop := c ≠ [] ∧ ∀ ch ∈ c, Str.isPySpace ch = false ∧ Str.isLineBreak ch = false

theorem splitWsAux_word' (fuel k : Nat) (w rest : Str) (hw : WordOk w) :
    Str.splitWsAux (fuel + 2) (some (k + 1)) (w ++ ' ' :: rest) = w :: Str.splitWsAux (fuel + 1) (some k) rest := by
  rw [splitWsAux_word (fuel + 1) k w rest hw.1 (fun c hc => (hw.2 c hc).1), splitWsAux_blank]

theorem featureFromLine_nonstrict (line l : Str) (ko : Bool)
    (h1 : ((Str.splitLines line).map Str.strip).filter (fun l => !l.isEmpty) = [l])
    (h2 : l.contains '\t' = false) :
    featureFromLine line none false ko = fromFields (Str.splitWs (some 8) (Str.rstripChars ['\n', '\r'] l)) ko := by
  unfold featureFromLine fromFields
  simp only [h1, h2, Bool.false_eq_true, if_false, bind, Except.bind, pure, Except.pure]

theorem fuel_ex (m : Nat) (h : m ≥ 8) : ∃ n, m + 1 = n + 9 := ⟨m - 8, by omega⟩

theorem splitWs_eight (c0 c1 c2 c3 c4 c5 c6 c7 : Str)
    (h0 : WordOk c0) (h1 : WordOk c1) (h2 : WordOk c2) (h3 : WordOk c3) (h4 : WordOk c4)
    (h5 : WordOk c5) (h6 : WordOk c6) (h7 : WordOk c7) :
    Str.splitWs (some 8) (Str.join [' '] [c0, c1, c2, c3, c4, c5, c6, c7]) = [c0, c1, c2, c3, c4, c5, c6, c7] := by
  unfold Str.splitWs
  simp only [Str.join, List.append_assoc, List.cons_append, List.nil_append]
  have l7 : c7.length > 0 := List.length_pos_iff.mpr h7.1
  obtain ⟨n, hn⟩ : ∃ n, (c0 ++ ' ' :: (c1 ++ ' ' :: (c2 ++ ' ' :: (c3 ++ ' ' :: (c4 ++ ' ' :: (c5 ++ ' ' ::
      (c6 ++ ' ' :: c7))))))).length + 1 = n + 9 := by
    apply fuel_ex
    simp only [List.length_append, List.length_cons]; omega
  rw [hn, splitWsAux_word' _ _ _ _ h0, splitWsAux_word' _ _ _ _ h1, splitWsAux_word' _ _ _ _ h2,
    splitWsAux_word' _ _ _ _ h3, splitWsAux_word' _ _ _ _ h4, splitWsAux_word' _ _ _ _ h5,
    splitWsAux_word' _ _ _ _ h6, splitWsAux_last_word _ _ _ h7.1 (fun c hc => (h7.2 c hc).1)]

theorem splitWs_nine (c0 c1 c2 c3 c4 c5 c6 c7 ra : Str)
    (h0 : WordOk c0) (h1 : WordOk c1) (h2 : WordOk c2) (h3 : WordOk c3) (h4 : WordOk c4)
    (h5 : WordOk c5) (h6 : WordOk c6) (h7 : WordOk c7) (hne : ra ≠ [])
    (hh : (ra.head?.map Str.isPySpace).getD false = false) :
    Str.splitWs (some 8) (Str.join [' '] [c0, c1, c2, c3, c4, c5, c6, c7, ra]) =
      [c0, c1, c2, c3, c4, c5, c6, c7, ra] := by
  unfold Str.splitWs
  simp only [Str.join, List.append_assoc, List.cons_append, List.nil_append]
  obtain ⟨n, hn⟩ : ∃ n, (c0 ++ ' ' :: (c1 ++ ' ' :: (c2 ++ ' ' :: (c3 ++ ' ' :: (c4 ++ ' ' :: (c5 ++ ' ' ::
      (c6 ++ ' ' :: (c7 ++ ' ' :: ra)))))))).length + 1 = n + 9 := by
    apply fuel_ex
    simp only [List.length_append, List.length_cons]; omega
  rw [hn, splitWsAux_word' _ _ _ _ h0, splitWsAux_word' _ _ _ _ h1, splitWsAux_word' _ _ _ _ h2,
    splitWsAux_word' _ _ _ _ h3, splitWsAux_word' _ _ _ _ h4, splitWsAux_word' _ _ _ _ h5,
    splitWsAux_word' _ _ _ _ h6, splitWsAux_word' _ _ _ _ h7, splitWsAux_rest _ _ hne hh]

structure SpFacts (s : LineSpec) : Prop where
  wf : s.WF = true
  extra : s.extra = []
  cols : ∀ c ∈ s.cols, WordOk c
  lb : ∀ ch ∈ renderAttrs s, Str.isLineBreak ch = false
  last : ((renderAttrs s).getLast?.map Str.isPySpace).getD false = false
  head : ((renderAttrs s).head?.map Str.isPySpace).getD false = false

theorem spFacts (s : LineSpec) (h : s.WFspaces = true) : SpFacts s := by
  simp only [LineSpec.WFspaces, Bool.and_eq_true] at h
  obtain ⟨⟨⟨⟨⟨h1, h2⟩, h3⟩, h4⟩, h5⟩, h6⟩ := h
  refine ⟨h1, by simpa using h2, ?_, ?_, by simpa using h5, by simpa using h6⟩
  · intro c hc
    have := List.all_eq_true.mp h3 c hc
    simp only [Bool.and_eq_true, List.all_eq_true] at this
    refine ⟨?_, fun ch hch => ?_⟩
    · intro e; rw [e] at this; simp at this
    · have := this.2 ch hch; simpa using this
  · intro ch hch
    have := List.all_eq_true.mp h4 ch hch
    simpa using this

/-- a character that is neither a line break nor a tab -/
def Plain (c : Char) : Prop := Str.isLineBreak c = false ∧ c ≠ '\t'

theorem plain_blank : Plain ' ' := by constructor <;> decide

theorem wordOk_plain (w : Str) (hw : WordOk w) : ∀ c ∈ w, Plain c := by
  intro c hc
  refine ⟨(hw.2 c hc).2, ?_⟩
  intro e; have := (hw.2 c hc).1; rw [e] at this; revert this; decide

theorem join_plain (parts : List Str) (h : ∀ p ∈ parts, ∀ c ∈ p, Plain c) :
    ∀ c ∈ Str.join [' '] parts, Plain c := by
  intro c hc
  rcases mem_join _ _ c hc with hm | ⟨p, hp, hcp⟩
  · simp only [List.mem_cons, List.not_mem_nil, or_false] at hm; subst hm; exact plain_blank
  · exact h p hp c hcp

theorem plain_not_crlf (c : Char) (h : Plain c) : ['\n', '\r'].contains c = false := by
  have hn : c ≠ '\n' := by intro e; have := h.1; rw [e] at this; revert this; decide
  have hr : c ≠ '\r' := by intro e; have := h.1; rw [e] at this; revert this; decide
  simp [hn, hr]

theorem plain_no_tab (l : Str) (h : ∀ c ∈ l, Plain c) : l.contains '\t' = false := by
  rw [Bool.eq_false_iff]
  intro hc
  have := List.contains_iff_mem.mp hc
  exact (h _ this).2 rfl

theorem lines_one (L L' : Str) (hlb : ∀ c ∈ L, Plain c) (hs : Str.strip L = L') (hne : L' ≠ []) :
    ((Str.splitLines L).map Str.strip).filter (fun l => !l.isEmpty) = [L'] := by
  have hL : L ≠ [] := by
    intro e; rw [e] at hs; apply hne; rw [← hs]; rfl
  rw [splitLines_clean L (fun c hc => (hlb c hc).1) hL]
  simp [hs, hne]

theorem wordOk_head (w : Str) (hw : WordOk w) : (w.head?.map Str.isPySpace).getD false = false := by
  cases w with
  | nil => rfl
  | cons x xs => simpa using (hw.2 x (by simp)).1

theorem wordOk_last (w : Str) (hw : WordOk w) : (w.getLast?.map Str.isPySpace).getD false = false := by
  cases hl : w.getLast? with
  | none => rfl
  | some x => simpa using (hw.2 x (List.mem_of_getLast? hl)).1

/-- the line-level reading of a blank-separated nine-column line -/
theorem nonstrict_fields (c0 c1 c2 c3 c4 c5 c6 c7 ra : Str) (ko : Bool)
    (h0 : WordOk c0) (h1 : WordOk c1) (h2 : WordOk c2) (h3 : WordOk c3) (h4 : WordOk c4)
    (h5 : WordOk c5) (h6 : WordOk c6) (h7 : WordOk c7)
    (hra : ∀ c ∈ ra, Plain c)
    (hh : (ra.head?.map Str.isPySpace).getD false = false)
    (hl : (ra.getLast?.map Str.isPySpace).getD false = false) :
    featureFromLine (Str.join [' '] [c0, c1, c2, c3, c4, c5, c6, c7, ra]) none false ko =
      fromFields (if ra = [] then [c0, c1, c2, c3, c4, c5, c6, c7] else [c0, c1, c2, c3, c4, c5, c6, c7, ra]) ko := by
  have hW : ∀ p ∈ [c0, c1, c2, c3, c4, c5, c6, c7], WordOk p := by
    intro p hp
    simp only [List.mem_cons, List.not_mem_nil, or_false] at hp
    rcases hp with rfl | rfl | rfl | rfl | rfl | rfl | rfl | rfl <;> assumption
  have hcols : ∀ p ∈ [c0, c1, c2, c3, c4, c5, c6, c7], ∀ c ∈ p, Plain c :=
    fun p hp => wordOk_plain p (hW p hp)
  have hall : ∀ p ∈ [c0, c1, c2, c3, c4, c5, c6, c7, ra], ∀ c ∈ p, Plain c := by
    intro p hp
    have : p ∈ [c0, c1, c2, c3, c4, c5, c6, c7] ∨ p = ra := by
      simp only [List.mem_cons, List.not_mem_nil, or_false] at hp ⊢
      rcases hp with h | h | h | h | h | h | h | h | h <;> simp [h]
    rcases this with h | h
    · exact hcols p h
    · rw [h]; exact hra
  have hLp := join_plain _ hall
  have hhead : ∀ rest, ((Str.join [' '] (c0 :: rest)).head?.map Str.isPySpace).getD false = false := by
    intro rest; rw [join_head? _ _ _ h0.1]; exact wordOk_head c0 h0
  by_cases hr : ra = []
  · subst hr
    simp only [if_true]
    have hJp := join_plain _ hcols
    have hJne : Str.join [' '] [c0, c1, c2, c3, c4, c5, c6, c7] ≠ [] := join_ne_nil _ _ _ h0.1
    have e : Str.join [' '] [c0, c1, c2, c3, c4, c5, c6, c7, []] =
        Str.join [' '] [c0, c1, c2, c3, c4, c5, c6, c7] ++ [' '] := by simp [Str.join]
    have hs : Str.strip (Str.join [' '] [c0, c1, c2, c3, c4, c5, c6, c7, []]) =
        Str.join [' '] [c0, c1, c2, c3, c4, c5, c6, c7] := by
      unfold Str.strip
      rw [lstrip_id _ (hhead _), e, rstrip_snoc_blank]
      apply rstrip_id
      rw [join_getLast? _ _ (by simp) (fun p hp => (hW p hp).1)]
      simpa using wordOk_last c7 h7
    rw [featureFromLine_nonstrict _ _ ko (lines_one _ _ hLp hs hJne) (plain_no_tab _ hJp),
      rstripChars_id _ _ (fun c hc => plain_not_crlf c (hJp c hc)),
      splitWs_eight c0 c1 c2 c3 c4 c5 c6 c7 h0 h1 h2 h3 h4 h5 h6 h7]
  · simp only [hr, if_false]
    have hLne : Str.join [' '] [c0, c1, c2, c3, c4, c5, c6, c7, ra] ≠ [] := join_ne_nil _ _ _ h0.1
    have hs : Str.strip (Str.join [' '] [c0, c1, c2, c3, c4, c5, c6, c7, ra]) =
        Str.join [' '] [c0, c1, c2, c3, c4, c5, c6, c7, ra] := by
      apply strip_id _ (hhead _)
      rw [join_getLast? _ _ (by simp) (by
        intro p hp
        rcases List.mem_append.mp (show p ∈ [c0, c1, c2, c3, c4, c5, c6, c7] ++ [ra] from hp) with h | h
        · exact (hW p h).1
        · simp only [List.mem_cons, List.not_mem_nil, or_false] at h; rw [h]; exact hr)]
      simpa using hl
    rw [featureFromLine_nonstrict _ _ ko (lines_one _ _ hLp hs hLne) (plain_no_tab _ hLp),
      rstripChars_id _ _ (fun c hc => plain_not_crlf c (hLp c hc)),
      splitWs_nine c0 c1 c2 c3 c4 c5 c6 c7 ra h0 h1 h2 h3 h4 h5 h6 h7 hr hh]

/-- **`strict=False`, spaces instead of tabs**: for a nine-column line without blanks inside columns
1–8 the space rendering parses to the same Feature (every field) as the tab rendering. -/
theorem nonstrict_spaces (s : LineSpec) (h : s.WFspaces = true) :
    featureFromLine (renderWithSpaces s) none false false = featureFromLine (renderLine s) none true false := by
  have F := spFacts s h
  have hlen := (colFacts s F.wf).len
  have htab := renderAttrs_clean s F.wf '\t' (Or.inl rfl)
  have hcols := F.cols
  have hra : ∀ c ∈ renderAttrs s, Plain c := fun c hc => ⟨F.lb c hc, fun e => htab (e ▸ hc)⟩
  have hh := F.head
  have hl := F.last
  rw [featureFromLine_strict, strict_fields s F.wf, F.extra]
  unfold renderWithSpaces
  generalize renderAttrs s = ra at hra hh hl ⊢
  obtain ⟨cols, sep, trailing, style, quoted, repeated, attrs, extra⟩ := s
  simp only at hlen hcols ⊢
  match cols, hlen with
  | [c0, c1, c2, c3, c4, c5, c6, c7], _ =>
    simp only [List.cons_append, List.nil_append, List.append_nil]
    rw [nonstrict_fields c0 c1 c2 c3 c4 c5 c6 c7 ra false (hcols _ (by simp)) (hcols _ (by simp))
      (hcols _ (by simp)) (hcols _ (by simp)) (hcols _ (by simp)) (hcols _ (by simp)) (hcols _ (by simp))
      (hcols _ (by simp)) hra hh hl]
    by_cases hr : ra = []
    · subst hr; simp [fromFields]
    · simp [hr]

/-! ### non-vacuity -/

/-- `ex1` with integer coordinates and two extra columns, the last one empty -/
def ex1x : LineSpec :=
  { ex1 with cols := ["chr1", "src", "gene", "100", "2500", ".", "+", "."].map String.toList,
             extra := ["extra1".toList, []] }

/-- `ex2` (GTF style, blanks inside the attribute column) with a negative start and one extra column -/
def ex2x : LineSpec :=
  { ex2 with cols := ["chr1", "src", "exon", "-5", ".", "0.5", "-", "0"].map String.toList,
             extra := ["x y".toList] }

/-- a line with an empty ninth column -/
def ex0 : LineSpec :=
  { cols := ["chr1", "src", "gene", "7", "9", ".", "+", "."].map String.toList,
    sep := [';'], trailing := false, style := .eq, quoted := false, repeated := false, attrs := [], extra := [] }

example : ex1x.WF = true := by decide +kernel
example : ex2x.WF = true := by decide +kernel
example : ex0.WF = true := by decide +kernel

example : renderLine ex1x =
    "chr1\tsrc\tgene\t100\t2500\t.\t+\t.\tID=a%3Bb; Parent=p1; Parent=p2; flag;\textra1\t".toList := by
  decide +kernel

example : ∃ f, featureFromLine
      "chr1\tsrc\tgene\t100\t2500\t.\t+\t.\tID=a%3Bb; Parent=p1; Parent=p2; flag;\textra1\t".toList none true true
        = .ok f ∧
      f.print = .ok "chr1\tsrc\tgene\t100\t2500\t.\t+\t.\tID=a%3Bb; Parent=p1; Parent=p2; flag;\textra1\t".toList := by
  have := print_parse_render ex1x (by decide +kernel)
  rwa [show renderLine ex1x =
    "chr1\tsrc\tgene\t100\t2500\t.\t+\t.\tID=a%3Bb; Parent=p1; Parent=p2; flag;\textra1\t".toList
    by decide +kernel] at this

example : ∃ f, featureFromLine (renderLine ex2x) none true true = .ok f ∧
    featureCols f = ex2x.cols ∧ f.attrs = ex2x.mapping ∧ f.extra = ["x y".toList] ∧ f.dialect = ex2x.dialect := by
  obtain ⟨f, h1, h2, h3, h4, h5, _⟩ := parse_render_line ex2x (by decide +kernel)
  exact ⟨f, h1, h2, h3, h4, h5⟩

/-- `WFspaces` holds for the `key=value` example, the GTF example (blanks inside the attribute column) and
for a line with an empty ninth column (the rendering then ends with a blank that `strip` removes) -/
example : ex1.WFspaces = true := by decide +kernel
example : ex2.WFspaces = true := by decide +kernel
example : ex0.WFspaces = true := by decide +kernel

example : renderWithSpaces ex2 =
    "chr1 src exon . . . - 0 gene_id \"g 1\" ; tag \"\" ; note \"x=1,y\"".toList := by decide +kernel
example : renderWithSpaces ex0 = "chr1 src gene 7 9 . + . ".toList := by decide +kernel

example : featureFromLine "chr1 src gene 7 9 . + . ".toList none false false
    = featureFromLine "chr1\tsrc\tgene\t7\t9\t.\t+\t.\t".toList none true false := by
  have := nonstrict_spaces ex0 (by decide +kernel)
  rwa [show renderWithSpaces ex0 = "chr1 src gene 7 9 . + . ".toList by decide +kernel,
    show renderLine ex0 = "chr1\tsrc\tgene\t7\t9\t.\t+\t.\t".toList by decide +kernel] at this

end GffProofs.C07
