/-
  C16 — `FeatureDB.merge` partitions its inputs and computes the interval union (feature-list part;
  `children_bp`, `merge_all` are stated elsewhere on top of this model).

  * `merge_partition_general`, `merge_partition`, `merge_partition_perm` — the outputs, flattened
    (a single stands for itself, a merged output for its children), are the inputs, in order, each
    exactly once.  (General form: up to a dropped last run whose extent has length 0, because
    `if current_merged:` tests `len(feature) != 0`.)
  * `merge_greedy`, `merge_greedy_first`, `merge_greedy_unchecked` — a feature joins the current run iff
    every criterion accepts `(accumulated, feature, children)`; a run of one is checked reflexively.
  * `merged_span` — a merged output spans min start … max end of its children, carries the id
    `<featuretype of the first child>_<n>` in `id` and `ID`, and has `seqid/strand/frame/featuretype/source`
    set as the code does; `merged_ids_distinct` — ids of distinct merged outputs are distinct and fresh.
  * `merge_union` — one class, start-ordered, default criteria: the output extents are sorted, pairwise
    separated by at least one uncovered base, and cover exactly the positions covered by the inputs.
  * `merge_children_irrelevant` (repaired copy step: the `children` attribute left by an earlier call is
    ignored), `merge_counter_irrelevant` (the counter only shows in the fresh ids, for criteria blind to
    `id`/attributes — all shipped ones, `shipped_idBlind`), `merge_idempotent_objects` (merging the same
    objects again gives the same result up to the fresh ids), and the D9 witness on the current copy step.
  Core Lean only.
-/
import GffModel.Merge
import GffProofs.Lemmas.MergeStep

namespace GffProofs.C16
open GffModel GffModel.Merge GffProofs.MergeStep

variable (cfg : DbCfg) (cs : List Crit)

/-! ## 1. partition -/

/-- the inputs the outputs stand for -/
def flat (outs : List MObj) : List Feature := outs.flatMap MObj.members

theorem flat_append (a b : List MObj) : flat (a ++ b) = flat a ++ flat b := by
  unfold flat; exact List.flatMap_append

/-- consumed but not yet yielded -/
def pending (st : St) : List Feature :=
  match st.cur with
  | none => []
  | some c => if st.kids.isEmpty then [c.f] else st.kids

/-- shape of the state: no children without a current feature; a run of one IS the current feature -/
def WF (st : St) : Prop :=
  match st.cur with
  | none => st.kids = []
  | some c => ∀ k, st.kids = [k] → k = c.f

theorem effKids_facts {st : St} {c : MObj} {kids : List Feature} (hwf : WF st) (hcur : st.cur = some c)
    (hk : EffKids cs st c kids) :
    kids ≠ [] ∧ pending st = kids ∧ (∀ k, kids = [k] → k = c.f) := by
  unfold WF at hwf; rw [hcur] at hwf
  unfold pending; rw [hcur]
  rcases hk with ⟨hne, rfl⟩ | ⟨he, _, rfl⟩
  · refine ⟨hne, ?_, hwf⟩
    have : st.kids.isEmpty = false := by
      cases hks : st.kids with
      | nil => exact absurd hks hne
      | cons _ _ => rfl
    simp [this]
  · refine ⟨by simp, ?_, fun k hk => by injection hk with hk _; exact hk.symm⟩
    simp [he]

theorem step_partition {st st' : St} {x : MObj} {ys : List MObj} (hwf : WF st)
    (h : step cfg cs st x = .ok (st', ys)) :
    WF st' ∧ pending st ++ [x.f] = flat ys ++ pending st' := by
  cases step_cases cfg cs st x st' ys h with
  | firstAccept hcur hc hst hys =>
    subst hst; subst hys
    refine ⟨?_, ?_⟩
    · intro k hk; injection hk with hk _; exact hk.symm
    · simp [pending, hcur, flat]
  | firstReject hcur hc hst hys =>
    subst hst; subst hys
    unfold WF at hwf; rw [hcur] at hwf
    refine ⟨?_, ?_⟩
    · unfold WF; simp only [hcur]; exact hwf
    · simp [pending, hcur, flat, members_finalize]
  | uncheckedReject c hcur hk hc hst hys =>
    subst hst; subst hys
    refine ⟨?_, ?_⟩
    · intro k hk'; simp only at hk'; rw [hk] at hk'; cases hk'
    · simp [pending, hcur, hk, flat, members_finalize]
  | flush c kids hcur hk hc hst hys =>
    subst hst; subst hys
    obtain ⟨hne, hp, hsingle⟩ := effKids_facts cs hwf hcur hk
    refine ⟨?_, ?_⟩
    · intro k hk'; cases hk'
    · rw [hp]
      have hm := members_finalize c kids hsingle
      have : kids.isEmpty = false := by
        cases kids with
        | nil => exact absurd rfl hne
        | cons _ _ => rfl
      rw [this] at hm
      simp [pending, flat, hm]
  | join c kids c' lastId' ai' m hcur hk hc hrun habs hst hys =>
    subst hst; subst hys
    obtain ⟨hne, hp, _⟩ := effKids_facts cs hwf hcur hk
    refine ⟨?_, ?_⟩
    · intro k hk'
      simp only at hk'
      cases kids with
      | nil => exact absurd rfl hne
      | cons a r => cases r <;> simp at hk'
    · rw [hp]
      have : (kids ++ [x.f]).isEmpty = false := by cases kids <;> rfl
      simp [pending, flat, this]

theorem loop_partition : ∀ (xs : List MObj) (st st' : St) (ys : List MObj), WF st →
    loop cfg cs st xs = .ok (st', ys) →
    WF st' ∧ pending st ++ xs.map (·.f) = flat ys ++ pending st' := by
  intro xs
  induction xs with
  | nil =>
    intro st st' ys hwf h
    obtain ⟨rfl, rfl⟩ := loop_nil_inv cfg cs st st' ys h
    exact ⟨hwf, by simp [flat]⟩
  | cons x xs ih =>
    intro st st' ys hwf h
    obtain ⟨st1, ys1, zs, hs, hl, rfl⟩ := loop_cons_inv cfg cs st x xs st' ys h
    obtain ⟨hwf1, hp1⟩ := step_partition cfg cs hwf hs
    obtain ⟨hwf2, hp2⟩ := ih st1 st' zs hwf1 hl
    refine ⟨hwf2, ?_⟩
    rw [flat_append, List.map_cons, List.append_assoc, ← hp2, ← List.append_assoc, ← hp1]
    simp

theorem wf_init (ai : Dict Nat) : WF { autoinc := ai } := rfl

/-- what `finish` yields stands for the pending inputs, unless they are dropped -/
theorem finish_partition {st : St} {zs : List MObj} (hwf : WF st) (h : finish st = .ok zs) :
    flat zs = pending st ∨ (zs = [] ∧ ∃ c, st.cur = some c ∧ Feature.len c.f = .ok 0) := by
  rcases finish_cases st zs h with ⟨hcur, rfl⟩ | ⟨c, hcur, hlen, rfl⟩ | ⟨c, n, hcur, _, _, rfl⟩
  · left; simp [pending, hcur, flat]
  · right; exact ⟨rfl, c, hcur, hlen⟩
  · left
    unfold WF at hwf; rw [hcur] at hwf
    simp [flat, pending, hcur, members_finalize c st.kids hwf]

/-- **`merge_partition`, general form.**  For every input list and every criteria list: the flattened
outputs are a prefix of the inputs (same order, every input at most once, nothing invented); what is
missing is either nothing, or the whole last run, and then only because the extent of that run has
length 0 (`if current_merged:` is `len(current_merged) != 0`). -/
theorem merge_partition_general (ai : Dict Nat) (xs outs : List MObj) (ai' : Dict Nat)
    (h : merge cfg cs ai xs = .ok (outs, ai')) :
    ∃ dropped, xs.map (·.f) = flat outs ++ dropped ∧
      (dropped = [] ∨ ∃ st c, st.cur = some c ∧ Feature.len c.f = .ok 0 ∧ dropped = pending st) := by
  obtain ⟨st, ys, zs, hl, hf, rfl, _⟩ := merge_inv cfg cs ai xs outs ai' h
  obtain ⟨hwf, hp⟩ := loop_partition cfg cs xs _ st ys (wf_init ai) hl
  have hp' : xs.map (·.f) = flat ys ++ pending st := by simpa [pending] using hp
  rcases finish_partition hwf hf with hz | ⟨rfl, c, hcur, hlen⟩
  · exact ⟨[], by rw [flat_append, hz, hp']; simp, Or.inl rfl⟩
  · exact ⟨pending st, by rw [hp']; simp [flat], Or.inr ⟨st, c, hcur, hlen, rfl⟩⟩

/-- a proper interval: integer coordinates with `start ≤ end` -/
def PosLen (f : Feature) : Prop := ∃ s e, f.start = some s ∧ f.stop = some e ∧ s ≤ e

theorem len_pos_of_posLen {f : Feature} (h : PosLen f) : ∃ n, Feature.len f = .ok n ∧ 0 < n := by
  obtain ⟨s, e, hs, he, hle⟩ := h
  exact ⟨e - s + 1, by simp [Feature.len, hs, he], by omega⟩

/-- `startRun` keeps the columns and draws the id -/
theorem startRun_ok {c c' : MObj} {lastId lastId' : Option Str} {ai ai' : Dict Nat}
    (h : startRun cfg c lastId ai = .ok (c', lastId', ai')) :
    (c.children = none ∨ cfg.d9fixed = true) ∧ c'.children = none ∧
    ∃ lid, lastId' = some lid ∧
      c'.f = { c.f with attrs := [("ID".toList, [lid])], extra := [], dialect := cfg.dialect,
                        keepOrder := cfg.keepOrder, sortVals := cfg.sortVals,
                        bin := (match c.f.bin with
                          | some b => some b
                          | none => Feature.calcBin c.f.start c.f.stop),
                        id := some lid } ∧
      (lastIdUnset lastId = true → lid = mkId c.f.ftype (cnt ai c.f.ftype + 1) ∧
        ai' = Dict.set ai c.f.ftype (cnt ai c.f.ftype + 1)) := by
  unfold startRun at h
  split at h
  · cases h
  · rename_i m hm
    unfold copyForMerge at hm
    split at hm
    · cases hm
    · rename_i hcond
      injection hm with hm
      injection h with h; injection h with h1 h2; injection h2 with h2 h3
      refine ⟨?_, ?_, ?_⟩
      · cases hch : c.children with
        | none => exact Or.inl rfl
        | some k =>
          right
          rw [hch] at hcond
          cases hfx : cfg.d9fixed with
          | true => rfl
          | false => rw [hfx] at hcond; simp at hcond
      · rw [← h1]
      · refine ⟨_, h2.symm, ?_, ?_⟩
        · rw [← h1, ← hm]; rfl
        · intro hu
          rw [← h3, ← hm]
          simp only [hu, if_true]
          exact ⟨rfl, rfl⟩

/-- the current feature is a proper interval (used to show nothing is dropped) -/
theorem step_posLen {st st' : St} {x : MObj} {ys : List MObj}
    (hI : ∀ c, st.cur = some c → PosLen c.f) (hx : PosLen x.f)
    (h : step cfg cs st x = .ok (st', ys)) : ∀ c, st'.cur = some c → PosLen c.f := by
  cases step_cases cfg cs st x st' ys h with
  | firstAccept hcur hc hst hys =>
    subst hst; intro c hc'; injection hc' with hc'; subst hc'; exact hx
  | firstReject hcur hc hst hys =>
    subst hst; intro c hc'; simp only at hc'; rw [hcur] at hc'; cases hc'
  | uncheckedReject c hcur hk hc hst hys =>
    subst hst; intro c hc'; injection hc' with hc'; subst hc'; exact hx
  | flush c kids hcur hk hc hst hys =>
    subst hst; intro c hc'; injection hc' with hc'; subst hc'; exact hx
  | join c kids c' lastId' ai' m hcur hk hc hrun habs hst hys =>
    subst hst
    intro c2 hc2
    injection hc2 with hc2; subst hc2
    show PosLen m
    obtain ⟨s0, e0, hs0, he0, hle0⟩ := hI c hcur
    have hc'f : c'.f.start = c.f.start ∧ c'.f.stop = c.f.stop := by
      split at hrun
      · obtain ⟨_, _, lid, _, hf, _⟩ := startRun_ok cfg hrun
        rw [hf]; exact ⟨rfl, rfl⟩
      · injection hrun with hrun; injection hrun with h1 _; rw [← h1]; exact ⟨rfl, rfl⟩
    obtain ⟨s, e, xs, xe, hs, he, _, _, hm⟩ := absorb_ok c'.f x.f m habs
    rw [hc'f.1, hs0] at hs; rw [hc'f.2, he0] at he
    injection hs with hs; injection he with he; subst hs; subst he
    refine ⟨if xs < s0 then xs else s0, if e0 < xe then xe else e0, by rw [hm], by rw [hm], ?_⟩
    split <;> split <;> omega

/-- **`merge_partition`**: for every list of proper intervals and every criteria list, the flattened
outputs ARE the inputs: every input is yielded alone (with no children) or is a child of exactly one
merged output, order preserved. -/
theorem merge_partition (ai : Dict Nat) (xs outs : List MObj) (ai' : Dict Nat)
    (hpos : ∀ x ∈ xs, PosLen x.f) (h : merge cfg cs ai xs = .ok (outs, ai')) :
    flat outs = xs.map (·.f) := by
  obtain ⟨st, ys, zs, hl, hf, rfl, _⟩ := merge_inv cfg cs ai xs outs ai' h
  obtain ⟨hwf, hp⟩ := loop_partition cfg cs xs _ st ys (wf_init ai) hl
  have hp' : xs.map (·.f) = flat ys ++ pending st := by simpa [pending] using hp
  -- the final current feature is a proper interval
  have hpl : ∀ c, st.cur = some c → PosLen c.f := by
    have key : ∀ (xs : List MObj) (st st' : St) (ys : List MObj), (∀ x ∈ xs, PosLen x.f) →
        (∀ c, st.cur = some c → PosLen c.f) → loop cfg cs st xs = .ok (st', ys) →
        ∀ c, st'.cur = some c → PosLen c.f := by
      intro xs
      induction xs with
      | nil =>
        intro st st' ys _ hI h
        obtain ⟨rfl, _⟩ := loop_nil_inv cfg cs st st' ys h
        exact hI
      | cons x xs ih =>
        intro st st' ys hx hI h
        obtain ⟨st1, ys1, zs, hs, hl, _⟩ := loop_cons_inv cfg cs st x xs st' ys h
        exact ih st1 st' zs (fun y hy => hx y (List.mem_cons_of_mem _ hy))
          (step_posLen cfg cs hI (hx x List.mem_cons_self) hs) hl
    exact key xs _ st ys hpos (fun c hc => by cases hc) hl
  rcases finish_partition hwf hf with hz | ⟨_, c, hcur, hlen⟩
  · rw [flat_append, hz, hp']
  · obtain ⟨n, hn, hpos⟩ := len_pos_of_posLen (hpl c hcur)
    rw [hn] at hlen; injection hlen with hlen; omega

/-- the multiset form -/
theorem merge_partition_perm (ai : Dict Nat) (xs outs : List MObj) (ai' : Dict Nat)
    (hpos : ∀ x ∈ xs, PosLen x.f) (h : merge cfg cs ai xs = .ok (outs, ai')) :
    (flat outs).Perm (xs.map (·.f)) := by
  rw [merge_partition cfg cs ai xs outs ai' hpos h]

/-! ## 2. greedy -/

/-- **`merge_greedy`**: with a checked run `(c, kids)`, the next feature `x` joins it exactly when every
criterion accepts `(accumulated feature, x, kids)`; otherwise the run is yielded and `x` becomes the
(still unchecked) current feature. -/
theorem merge_greedy {st st' : St} {c x : MObj} {ys : List MObj} (hcur : st.cur = some c)
    (hk : st.kids ≠ []) (h : step cfg cs st x = .ok (st', ys)) :
    (allCrit cs c.f x.f st.kids = .ok true ∧ ys = [] ∧ st'.kids = st.kids ++ [x.f]) ∨
    (allCrit cs c.f x.f st.kids = .ok false ∧ ys = [finalize c st.kids] ∧ st'.cur = some x ∧ st'.kids = []) := by
  have eff : ∀ {c2 kids}, st.cur = some c2 → EffKids cs st c2 kids → c2 = c ∧ kids = st.kids := by
    intro c2 kids h2 he
    rw [hcur] at h2; injection h2 with h2
    rcases he with ⟨_, rfl⟩ | ⟨he, _⟩
    · exact ⟨h2.symm, rfl⟩
    · exact absurd he hk
  cases step_cases cfg cs st x st' ys h with
  | firstAccept hcur' => rw [hcur] at hcur'; cases hcur'
  | firstReject hcur' => rw [hcur] at hcur'; cases hcur'
  | uncheckedReject c2 _ hk' => exact absurd hk' hk
  | flush c2 kids hcur' hke hc hst hys =>
    obtain ⟨rfl, rfl⟩ := eff hcur' hke
    right; subst hst; exact ⟨hc, hys, rfl, rfl⟩
  | join c2 kids c' lastId' ai' m hcur' hke hc hrun habs hst hys =>
    obtain ⟨rfl, rfl⟩ := eff hcur' hke
    left; subst hst; exact ⟨hc, hys, rfl⟩

/-- the first feature (no current run) is checked against itself, with no components -/
theorem merge_greedy_first {st st' : St} {x : MObj} {ys : List MObj} (hcur : st.cur = none)
    (hk : st.kids = []) (h : step cfg cs st x = .ok (st', ys)) :
    (allCrit cs x.f x.f [] = .ok true ∧ ys = [] ∧ st'.cur = some x ∧ st'.kids = [x.f]) ∨
    (allCrit cs x.f x.f [] = .ok false ∧ ys = [finalize x []] ∧ st'.cur = none ∧ st'.kids = []) := by
  cases step_cases cfg cs st x st' ys h with
  | firstAccept _ hc hst hys => left; subst hst; rw [hk] at hc; exact ⟨hc, hys, rfl, rfl⟩
  | firstReject _ hc hst hys => right; subst hst; rw [hk] at hc; exact ⟨hc, hys, hcur, hk⟩
  | uncheckedReject c2 hcur' => rw [hcur] at hcur'; cases hcur'
  | flush c2 kids hcur' => rw [hcur] at hcur'; cases hcur'
  | join c2 kids c' lastId' ai' m hcur' => rw [hcur] at hcur'; cases hcur'

/-- an unchecked current feature (a run of one that started after a flush) is first checked against
itself; only then is `x` tested against it -/
theorem merge_greedy_unchecked {st st' : St} {c x : MObj} {ys : List MObj} (hcur : st.cur = some c)
    (hk : st.kids = []) (h : step cfg cs st x = .ok (st', ys)) :
    (allCrit cs c.f c.f [] = .ok false ∧ ys = [finalize c []] ∧ st'.cur = some x ∧ st'.kids = []) ∨
    (allCrit cs c.f c.f [] = .ok true ∧
      ((allCrit cs c.f x.f [c.f] = .ok true ∧ ys = [] ∧ st'.kids = [c.f, x.f]) ∨
       (allCrit cs c.f x.f [c.f] = .ok false ∧ ys = [finalize c [c.f]] ∧ st'.cur = some x ∧ st'.kids = []))) := by
  have eff : ∀ {c2 kids}, st.cur = some c2 → EffKids cs st c2 kids →
      c2 = c ∧ kids = [c.f] ∧ allCrit cs c.f c.f [] = .ok true := by
    intro c2 kids h2 he
    rw [hcur] at h2; injection h2 with h2
    subst h2
    rcases he with ⟨hne, _⟩ | ⟨_, hc, rfl⟩
    · exact absurd hk hne
    · exact ⟨rfl, rfl, hc⟩
  cases step_cases cfg cs st x st' ys h with
  | firstAccept hcur' => rw [hcur] at hcur'; cases hcur'
  | firstReject hcur' => rw [hcur] at hcur'; cases hcur'
  | uncheckedReject c2 hcur' _ hc hst hys =>
    rw [hcur] at hcur'; injection hcur' with hcur'; subst hcur'
    left; subst hst; exact ⟨hc, hys, rfl, hk⟩
  | flush c2 kids hcur' hke hc hst hys =>
    obtain ⟨rfl, rfl, hr⟩ := eff hcur' hke
    right; subst hst; exact ⟨hr, Or.inr ⟨hc, hys, rfl, rfl⟩⟩
  | join c2 kids c' lastId' ai' m hcur' hke hc hrun habs hst hys =>
    obtain ⟨rfl, rfl, hr⟩ := eff hcur' hke
    right; subst hst; exact ⟨hr, Or.inl ⟨hc, hys, rfl⟩⟩

/-! ## 3. span, fields and ids of merged outputs -/

/-- `m` spans exactly min start … max end of `kids` (all with integer coordinates) -/
def Covers (m : Feature) (kids : List Feature) : Prop :=
  ∃ s e, m.start = some s ∧ m.stop = some e ∧
    (∀ k ∈ kids, ∃ ks ke, k.start = some ks ∧ k.stop = some ke ∧ s ≤ ks ∧ ke ≤ e) ∧
    (∃ k ∈ kids, k.start = some s) ∧ (∃ k ∈ kids, k.stop = some e)

/-- "set mismatched properties to ambiguous values" -/
def amb (dflt cur x : Str) : Str := if x ≠ cur then dflt else cur
/-- `if feature.seqid not in current_merged.seqid.split(","): current_merged.seqid += "," + feature.seqid` -/
def seqidStep (acc x : Str) : Str :=
  if (Str.splitChar ',' acc).contains x then acc else acc ++ [','] ++ x

/-- the accumulated feature `m` of a run with first child `k0` and further children `rest` -/
structure Run (m k0 : Feature) (rest : List Feature) (lid : Str) : Prop where
  covers : Covers m (k0 :: rest)
  id : m.id = some lid
  attrs : m.attrs = [("ID".toList, [lid])]
  seqid : m.seqid = (rest.map (·.seqid)).foldl seqidStep k0.seqid
  strand : m.strand = (rest.map (·.strand)).foldl (amb ['.']) k0.strand
  frame : m.frame = (rest.map (·.frame)).foldl (amb ['.']) k0.frame
  ftype : m.ftype = (rest.map (·.ftype)).foldl (amb "sequence_feature".toList) k0.ftype
  score : m.score = k0.score
  extra : m.extra = []
  dialect : m.dialect = cfg.dialect
  keepOrder : m.keepOrder = cfg.keepOrder
  sortVals : m.sortVals = cfg.sortVals
  fileOrder : m.fileOrder = k0.fileOrder
  bin : m.bin = (match k0.bin with
    | some b => some b
    | none => Feature.calcBin k0.start k0.stop)

theorem Run.with_source {cfg : DbCfg} {m k0 : Feature} {rest : List Feature} {lid : Str}
    (h : Run cfg m k0 rest lid) (src : Str) : Run cfg { m with source := src } k0 rest lid :=
  ⟨h.covers, h.id, h.attrs, h.seqid, h.strand, h.frame, h.ftype, h.score, h.extra, h.dialect, h.keepOrder,
   h.sortVals, h.fileOrder, h.bin⟩

theorem foldl_snoc {α β : Type} (g : β → α → β) (f : Feature → α) (b : β) (rest : List Feature) (x : Feature) :
    ((rest ++ [x]).map f).foldl g b = g ((rest.map f).foldl g b) (f x) := by
  simp [List.foldl_append]

theorem absorb_run {cfg : DbCfg} {m0 m k0 x : Feature} {rest : List Feature} {lid : Str}
    (hr : Run cfg m0 k0 rest lid) (h : absorb m0 x = .ok m) : Run cfg m k0 (rest ++ [x]) lid := by
  obtain ⟨s, e, xs, xe, hs, he, hxs, hxe, hm⟩ := absorb_ok m0 x m h
  obtain ⟨s', e', hs', he', hall, ⟨ws, hws, hws'⟩, ⟨we, hwe, hwe'⟩⟩ := hr.covers
  rw [hs] at hs'; rw [he] at he'
  injection hs' with hs'; injection he' with he'; subst hs'; subst he'
  refine ⟨?_, ?_, ?_, ?_, ?_, ?_, ?_, ?_, ?_, ?_, ?_, ?_, ?_, ?_⟩
  · refine ⟨if xs < s then xs else s, if e < xe then xe else e, by rw [hm], by rw [hm], ?_, ?_, ?_⟩
    · intro k hk
      rw [← List.cons_append, List.mem_append, List.mem_singleton] at hk
      rcases hk with hk | rfl
      · obtain ⟨ks, ke, h1, h2, h3, h4⟩ := hall k hk
        refine ⟨ks, ke, h1, h2, ?_, ?_⟩ <;> split <;> omega
      · refine ⟨xs, xe, hxs, hxe, ?_, ?_⟩ <;> split <;> omega
    · by_cases hlt : xs < s
      · exact ⟨x, by simp, by rw [if_pos hlt]; exact hxs⟩
      · exact ⟨ws, by rw [← List.cons_append]; exact List.mem_append_left _ hws, by rw [if_neg hlt]; exact hws'⟩
    · by_cases hlt : e < xe
      · exact ⟨x, by simp, by rw [if_pos hlt]; exact hxe⟩
      · exact ⟨we, by rw [← List.cons_append]; exact List.mem_append_left _ hwe, by rw [if_neg hlt]; exact hwe'⟩
  · rw [hm]; exact hr.id
  · rw [hm]; exact hr.attrs
  · rw [foldl_snoc, ← hr.seqid, hm]; rfl
  · rw [foldl_snoc, ← hr.strand, hm]; rfl
  · rw [foldl_snoc, ← hr.frame, hm]; rfl
  · rw [foldl_snoc, ← hr.ftype, hm]; rfl
  · rw [hm]; exact hr.score
  · rw [hm]; exact hr.extra
  · rw [hm]; exact hr.dialect
  · rw [hm]; exact hr.keepOrder
  · rw [hm]; exact hr.sortVals
  · rw [hm]; exact hr.fileOrder
  · rw [hm]; exact hr.bin

/-- the invariant of the loop -/
structure G (st : St) : Prop where
  wf : WF st
  lastId : st.kids.length ≤ 1 → st.lastId = none
  run : ∀ c k0 k1 rest, st.cur = some c → st.kids = k0 :: k1 :: rest →
    ∃ lid n, Run cfg c.f k0 (k1 :: rest) lid ∧ st.lastId = some lid ∧ lid = mkId k0.ftype n ∧ 0 < n ∧
      n ≤ cnt st.autoinc k0.ftype

/-- what is true of every yielded object -/
def OutOK (o : MObj) : Prop :=
  o.children = some [] ∨
  ∃ k0 k1 rest lid n, o.children = some (k0 :: k1 :: rest) ∧ Run cfg o.f k0 (k1 :: rest) lid ∧
    lid = mkId k0.ftype n ∧ 0 < n ∧ o.f.source = joinedSources (k0 :: k1 :: rest)

theorem finalize_outOK {st : St} {c : MObj} (hg : G cfg st) (hcur : st.cur = some c) (kids : List Feature)
    (hk : kids = st.kids ∨ kids.length ≤ 1) : OutOK cfg (finalize c kids) := by
  match kids, hk with
  | [], _ => left; rfl
  | [k], _ => left; rfl
  | k0 :: k1 :: rest, hk =>
    have hks : k0 :: k1 :: rest = st.kids := by
      rcases hk with hk | hk
      · exact hk
      · simp at hk
    obtain ⟨lid, n, hrun, _, hlid, hn, _⟩ := hg.run c k0 k1 rest hcur hks.symm
    right
    rw [finalize_merged c _ (by simp)]
    exact ⟨k0, k1, rest, lid, n, rfl, hrun.with_source _, hlid, hn, rfl⟩

theorem g_init (ai : Dict Nat) : G cfg { autoinc := ai } :=
  ⟨rfl, fun _ => rfl, fun c k0 k1 rest h => by cases h⟩

theorem step_G {st st' : St} {x : MObj} {ys : List MObj} (hg : G cfg st)
    (h : step cfg cs st x = .ok (st', ys)) : G cfg st' ∧ ∀ o ∈ ys, OutOK cfg o := by
  have hwf' := (step_partition cfg cs hg.wf h).1
  cases step_cases cfg cs st x st' ys h with
  | firstAccept hcur hc hst hys =>
    subst hst; subst hys
    have hk0 : st.kids = [] := by have := hg.wf; unfold WF at this; rw [hcur] at this; exact this
    refine ⟨⟨hwf', fun _ => hg.lastId (by rw [hk0]; simp), ?_⟩, fun o ho => by cases ho⟩
    intro c k0 k1 rest _ hk; cases hk
  | firstReject hcur hc hst hys =>
    subst hst; subst hys
    refine ⟨⟨hwf', fun _ => rfl, ?_⟩, ?_⟩
    · intro c k0 k1 rest hc'; simp only at hc'; rw [hcur] at hc'; cases hc'
    · intro o ho; rw [List.mem_singleton] at ho; subst ho; left; rfl
  | uncheckedReject c hcur hk hc hst hys =>
    subst hst; subst hys
    refine ⟨⟨hwf', fun _ => rfl, ?_⟩, ?_⟩
    · intro c k0 k1 rest _ hk'; simp only at hk'; rw [hk] at hk'; cases hk'
    · intro o ho; rw [List.mem_singleton] at ho; subst ho; left; rfl
  | flush c kids hcur hk hc hst hys =>
    subst hst; subst hys
    refine ⟨⟨hwf', fun _ => rfl, ?_⟩, ?_⟩
    · intro c k0 k1 rest _ hk'; cases hk'
    · intro o ho; rw [List.mem_singleton] at ho; subst ho
      apply finalize_outOK cfg hg hcur
      rcases hk with ⟨_, rfl⟩ | ⟨_, _, rfl⟩
      · exact Or.inl rfl
      · exact Or.inr (by simp)
  | join c kids c' lastId' ai' m hcur hk hc hrun habs hst hys =>
    subst hst; subst hys
    refine ⟨⟨hwf', ?_, ?_⟩, fun o ho => by cases ho⟩
    · intro hlen
      obtain ⟨hne, _, _⟩ := effKids_facts cs hg.wf hcur hk
      cases kids with
      | nil => exact absurd rfl hne
      | cons a r => simp at hlen
    · intro c2 k0 k1 rest hc2 hkids
      injection hc2 with hc2; subst hc2
      simp only at hkids ⊢
      by_cases hl1 : kids.length = 1
      · -- a run of one starts merging: copy, draw the id
        rw [if_pos hl1] at hrun
        obtain ⟨k, rfl⟩ : ∃ k, kids = [k] := by
          cases kids with
          | nil => simp at hl1
          | cons a r =>
            cases r with
            | nil => exact ⟨a, rfl⟩
            | cons b r' => simp at hl1
        obtain ⟨_, _, hsingle⟩ := effKids_facts cs hg.wf hcur hk
        have hkc : k = c.f := hsingle k rfl
        subst hkc
        simp only [List.cons_append, List.nil_append, List.cons.injEq] at hkids
        obtain ⟨rfl, rfl, rfl⟩ := hkids
        have hunset : st.lastId = none := by
          apply hg.lastId
          rcases hk with ⟨_, hk⟩ | ⟨hk, _⟩
          · rw [← hk]; simp
          · rw [hk]; simp
        obtain ⟨_, _, lid, hl', hf, hdraw⟩ := startRun_ok cfg hrun
        obtain ⟨hlid, hai⟩ := hdraw (by rw [hunset]; rfl)
        obtain ⟨s, e, xs, xe, hs, he, _, _, _⟩ := absorb_ok c'.f x.f m habs
        have hrun0 : Run cfg c'.f c.f [] lid := by
          rw [hf] at hs he ⊢
          simp only at hs he
          exact ⟨⟨s, e, hs, he, fun k hk => by
                    rw [List.mem_singleton] at hk; subst hk; exact ⟨s, e, hs, he, Int.le_refl _, Int.le_refl _⟩,
                  ⟨c.f, by simp, hs⟩, ⟨c.f, by simp, he⟩⟩,
                 rfl, rfl, rfl, rfl, rfl, rfl, rfl, rfl, rfl, rfl, rfl, rfl, rfl⟩
        refine ⟨lid, cnt st.autoinc c.f.ftype + 1, absorb_run hrun0 habs, hl', hlid, by omega, ?_⟩
        rw [hai, cnt_set_eq]; exact Nat.le_refl _
      · -- the run already has two or more members
        rw [if_neg hl1] at hrun
        injection hrun with hrun; injection hrun with h1 h2; injection h2 with h2 h3
        subst h1; subst h2; subst h3
        have hks : kids = st.kids := by
          rcases hk with ⟨_, hk⟩ | ⟨_, _, hk⟩
          · exact hk
          · rw [hk] at hl1; simp at hl1
        subst hks
        obtain ⟨hne, _, _⟩ := effKids_facts cs hg.wf hcur hk
        cases hkk : st.kids with
        | nil => exact absurd hkk hne
        | cons a r0 =>
          cases r0 with
          | nil => rw [hkk] at hl1; simp at hl1
          | cons b r =>
            rw [hkk] at hkids
            simp only [List.cons_append, List.cons.injEq] at hkids
            obtain ⟨rfl, rfl, rfl⟩ := hkids
            obtain ⟨lid, n, hr, hlast, hlid, hn, hle⟩ := hg.run c a b r hcur hkk
            exact ⟨lid, n, by rw [← List.cons_append]; exact absorb_run hr habs, hlast, hlid, hn, hle⟩

theorem loop_G : ∀ (xs : List MObj) (st st' : St) (ys : List MObj), G cfg st →
    loop cfg cs st xs = .ok (st', ys) → G cfg st' ∧ ∀ o ∈ ys, OutOK cfg o :=
  loop_invariant cfg cs (G cfg) (OutOK cfg) (fun _ _ _ _ hg h => step_G cfg cs hg h)

theorem merge_outOK (ai : Dict Nat) (xs outs : List MObj) (ai' : Dict Nat)
    (h : merge cfg cs ai xs = .ok (outs, ai')) : ∀ o ∈ outs, OutOK cfg o := by
  obtain ⟨st, ys, zs, hl, hf, rfl, _⟩ := merge_inv cfg cs ai xs outs ai' h
  obtain ⟨hg, hys⟩ := loop_G cfg cs xs _ st ys (g_init cfg ai) hl
  intro o ho
  rcases List.mem_append.1 ho with ho | ho
  · exact hys o ho
  · rcases finish_cases st zs hf with ⟨_, rfl⟩ | ⟨c, _, _, rfl⟩ | ⟨c, n, hcur, _, _, rfl⟩
    · cases ho
    · cases ho
    · rw [List.mem_singleton] at ho; subst ho
      exact finalize_outOK cfg hg hcur _ (Or.inl rfl)

/-- closed form of the "ambiguous value" fold: the first child's value if all children agree with it,
else the placeholder -/
theorem amb_fold (dflt : Str) : ∀ (xs : List Str) (c : Str),
    xs.foldl (amb dflt) c = if ∀ x ∈ xs, x = c then c else dflt := by
  intro xs
  induction xs with
  | nil => intro c; simp
  | cons x xs ih =>
    intro c
    rw [List.foldl_cons, ih]
    unfold amb
    by_cases hx : x = c
    · subst hx
      simp
    · have h1 : (if x ≠ c then dflt else c) = dflt := by simp [hx]
      rw [h1]
      have h2 : ¬ (∀ y ∈ x :: xs, y = c) := fun hall => hx (hall x List.mem_cons_self)
      rw [if_neg h2]
      split <;> rfl

/-- **`merged_span`**: every yielded object is a single (`children = ()`), or a merged feature with two or
more children that spans min start … max end of its children, whose `id` and only attribute `ID` are
`<featuretype of the first child>_<n>` (n ≥ 1), whose `strand`/`frame`/`featuretype` are the first
child's when all children agree and `.`/`.`/`sequence_feature` otherwise, whose `seqid` is the
comma-joined accumulation of the code, whose `source` joins the children's distinct sources, and which
keeps `score`, `bin`, `file_order` of the first child, with the database's dialect and no extra columns. -/
theorem merged_span (ai : Dict Nat) (xs outs : List MObj) (ai' : Dict Nat)
    (h : merge cfg cs ai xs = .ok (outs, ai')) (o : MObj) (ho : o ∈ outs) :
    o.children = some [] ∨
    ∃ k0 k1 rest n, o.children = some (k0 :: k1 :: rest) ∧ 0 < n ∧
      Covers o.f (k0 :: k1 :: rest) ∧
      o.f.id = some (mkId k0.ftype n) ∧ o.f.attrs = [("ID".toList, [mkId k0.ftype n])] ∧
      o.f.strand = (if ∀ k ∈ k1 :: rest, k.strand = k0.strand then k0.strand else ['.']) ∧
      o.f.frame = (if ∀ k ∈ k1 :: rest, k.frame = k0.frame then k0.frame else ['.']) ∧
      o.f.ftype = (if ∀ k ∈ k1 :: rest, k.ftype = k0.ftype then k0.ftype else "sequence_feature".toList) ∧
      o.f.seqid = ((k1 :: rest).map (·.seqid)).foldl seqidStep k0.seqid ∧
      o.f.source = joinedSources (k0 :: k1 :: rest) ∧
      o.f.score = k0.score ∧ o.f.fileOrder = k0.fileOrder ∧ o.f.extra = [] ∧ o.f.dialect = cfg.dialect ∧
      o.f.bin = (match k0.bin with
        | some b => some b
        | none => Feature.calcBin k0.start k0.stop) := by
  rcases merge_outOK cfg cs ai xs outs ai' h o ho with h0 | ⟨k0, k1, rest, lid, n, hch, hr, hlid, hn, hsrc⟩
  · exact Or.inl h0
  · right
    subst hlid
    have hmem : ∀ (f : Feature → Str), (∀ y ∈ (k1 :: rest).map f, y = f k0) ↔ (∀ k ∈ k1 :: rest, f k = f k0) := by
      intro f
      constructor
      · intro hh k hk; exact hh (f k) (List.mem_map_of_mem hk)
      · intro hh y hy; obtain ⟨k, hk, rfl⟩ := List.mem_map.1 hy; exact hh k hk
    refine ⟨k0, k1, rest, n, hch, hn, hr.covers, hr.id, hr.attrs, ?_, ?_, ?_, hr.seqid, hsrc, hr.score,
      hr.fileOrder, hr.extra, hr.dialect, hr.bin⟩
    · rw [hr.strand, amb_fold]; simp only [hmem (·.strand)]
    · rw [hr.frame, amb_fold]; simp only [hmem (·.frame)]
    · rw [hr.ftype, amb_fold]; simp only [hmem (·.ftype)]

/-! ### ids of merged outputs are fresh and pairwise distinct -/

/-- the `id` of a merged output (nothing for a single) -/
def mergedId (o : MObj) : List (Option Str) :=
  match o.children with
  | some (_ :: _ :: _) => [o.f.id]
  | _ => []

/-- the `id` of the run in progress, once it has two members -/
def curId (st : St) : List (Option Str) :=
  match st.cur, st.kids with
  | some c, _ :: _ :: _ => [c.f.id]
  | _, _ => []

def mkOpt (p : Str × Nat) : Option Str := some (mkId p.1 p.2)

theorem mkOpt_inj (p q : Str × Nat) (h : mkOpt p = mkOpt q) : p = q := by
  unfold mkOpt at h
  injection h with h
  obtain ⟨h1, h2⟩ := mkId_inj _ _ _ _ h
  exact Prod.ext h1 h2

theorem mergedId_finalize {st : St} {c : MObj} (hcur : st.cur = some c) :
    mergedId (finalize c st.kids) = curId st := by
  unfold curId; rw [hcur]
  cases hk : st.kids with
  | nil => rfl
  | cons a r =>
    cases r with
    | nil => rfl
    | cons b r' => rw [finalize_merged c _ (by simp)]; rfl

theorem step_ids {st st' : St} {x : MObj} {ys : List MObj} (hg : G cfg st)
    (h : step cfg cs st x = .ok (st', ys)) :
    ∃ new : List (Str × Nat),
      curId st ++ new.map mkOpt = ys.flatMap mergedId ++ curId st' ∧
      (∀ p ∈ new, cnt st.autoinc p.1 < p.2 ∧ p.2 ≤ cnt st'.autoinc p.1) ∧ new.length ≤ 1 ∧
      (∀ k, cnt st.autoinc k ≤ cnt st'.autoinc k) := by
  cases step_cases cfg cs st x st' ys h with
  | firstAccept hcur hc hst hys =>
    subst hst; subst hys
    exact ⟨[], by simp [curId, hcur], (fun _ hp => by cases hp), by simp, fun k => Nat.le_refl _⟩
  | firstReject hcur hc hst hys =>
    subst hst; subst hys
    exact ⟨[], by simp [curId, hcur, mergedId, finalize], (fun _ hp => by cases hp), by simp,
      fun k => Nat.le_refl _⟩
  | uncheckedReject c hcur hk hc hst hys =>
    subst hst; subst hys
    exact ⟨[], by simp [curId, hcur, hk, mergedId, finalize], (fun _ hp => by cases hp), by simp,
      fun k => Nat.le_refl _⟩
  | flush c kids hcur hk hc hst hys =>
    subst hst; subst hys
    refine ⟨[], ?_, (fun _ hp => by cases hp), by simp, fun k => Nat.le_refl _⟩
    have : mergedId (finalize c kids) = curId st := by
      rcases hk with ⟨_, rfl⟩ | ⟨hk0, _, rfl⟩
      · exact mergedId_finalize hcur
      · simp [curId, hcur, hk0, mergedId, finalize]
    simp [this, curId]
  | join c kids c' lastId' ai' m hcur hk hc hrun habs hst hys =>
    subst hst; subst hys
    obtain ⟨hne, _, hsingle⟩ := effKids_facts cs hg.wf hcur hk
    obtain ⟨_, _, _, _, _, _, _, _, hm⟩ := absorb_ok c'.f x.f m habs
    have hmid : m.id = c'.f.id := by rw [hm]
    have hcur' : curId (St.mk (some { c' with f := m }) (kids ++ [x.f]) lastId' ai') = [c'.f.id] := by
      unfold curId
      cases kids with
      | nil => exact absurd rfl hne
      | cons a r => cases r <;> simp [hmid]
    by_cases hl1 : kids.length = 1
    · rw [if_pos hl1] at hrun
      have hunset : st.lastId = none := by
        apply hg.lastId
        rcases hk with ⟨_, hk⟩ | ⟨hk, _⟩
        · rw [← hk]; omega
        · rw [hk]; simp
      obtain ⟨_, _, lid, hl', hf, hdraw⟩ := startRun_ok cfg hrun
      obtain ⟨hlid, hai⟩ := hdraw (by rw [hunset]; rfl)
      have hcid : c'.f.id = some lid := by rw [hf]
      have hcst : curId st = [] := by
        unfold curId; rw [hcur]
        rcases hk with ⟨_, hk⟩ | ⟨hk, _⟩
        · rw [← hk]
          cases kids with
          | nil => rfl
          | cons a r => cases r with
            | nil => rfl
            | cons b r' => simp at hl1
        · rw [hk]
      refine ⟨[(c.f.ftype, cnt st.autoinc c.f.ftype + 1)], ?_, ?_, by simp, ?_⟩
      · rw [hcur', hcst, hcid, hlid]; simp [mkOpt]
      · intro p hp
        rw [List.mem_singleton] at hp; subst hp
        simp only
        rw [hai, cnt_set_eq]; omega
      · intro k
        simp only
        rw [hai]
        by_cases hkk : k = c.f.ftype
        · subst hkk; rw [cnt_set_eq]; omega
        · rw [cnt_set_ne _ _ _ _ hkk]; exact Nat.le_refl _
    · rw [if_neg hl1] at hrun
      injection hrun with hrun; injection hrun with h1 h2; injection h2 with h2 h3
      subst h1; subst h2; subst h3
      have hks : kids = st.kids := by
        rcases hk with ⟨_, hk⟩ | ⟨_, _, hk⟩
        · exact hk
        · rw [hk] at hl1; simp at hl1
      subst hks
      have hcst : curId st = [c.f.id] := by
        unfold curId; rw [hcur]
        cases hkk : st.kids with
        | nil => exact absurd hkk hne
        | cons a r => cases r with
          | nil => rw [hkk] at hl1; simp at hl1
          | cons b r' => rfl
      exact ⟨[], by rw [hcur', hcst]; simp, (fun _ hp => by cases hp), by simp, fun k => Nat.le_refl _⟩

theorem loop_ids : ∀ (xs : List MObj) (st st' : St) (ys : List MObj), G cfg st →
    loop cfg cs st xs = .ok (st', ys) →
    ∃ new : List (Str × Nat),
      curId st ++ new.map mkOpt = ys.flatMap mergedId ++ curId st' ∧
      (∀ p ∈ new, cnt st.autoinc p.1 < p.2 ∧ p.2 ≤ cnt st'.autoinc p.1) ∧ new.Nodup ∧
      (∀ k, cnt st.autoinc k ≤ cnt st'.autoinc k) := by
  intro xs
  induction xs with
  | nil =>
    intro st st' ys _ h
    obtain ⟨rfl, rfl⟩ := loop_nil_inv cfg cs st st' ys h
    exact ⟨[], by simp, (fun _ hp => by cases hp), List.nodup_nil, fun k => Nat.le_refl _⟩
  | cons x xs ih =>
    intro st st' ys hg h
    obtain ⟨st1, ys1, zs, hs, hl, rfl⟩ := loop_cons_inv cfg cs st x xs st' ys h
    obtain ⟨new1, he1, hb1, hlen1, hm1⟩ := step_ids cfg cs hg hs
    obtain ⟨new2, he2, hb2, hnd2, hm2⟩ := ih st1 st' zs (step_G cfg cs hg hs).1 hl
    refine ⟨new1 ++ new2, ?_, ?_, ?_, fun k => Nat.le_trans (hm1 k) (hm2 k)⟩
    · rw [List.map_append, ← List.append_assoc, he1, List.append_assoc, he2, List.flatMap_append,
        List.append_assoc]
    · intro p hp
      rcases List.mem_append.1 hp with hp | hp
      · exact ⟨(hb1 p hp).1, Nat.le_trans (hb1 p hp).2 (hm2 p.1)⟩
      · exact ⟨Nat.lt_of_le_of_lt (hm1 p.1) (hb2 p hp).1, (hb2 p hp).2⟩
    · rw [List.nodup_append]
      refine ⟨?_, hnd2, ?_⟩
      · match new1, hlen1 with
        | [], _ => exact List.nodup_nil
        | [a], _ => simp
      · intro a ha b hb hab
        subst hab
        have := (hb1 a ha).2
        have := (hb2 a hb).1
        omega

/-- **`merged_ids_distinct`**: the ids of the merged outputs of one call are `<featuretype>_<n>` for
pairwise distinct pairs `(featuretype, n)`, each `n` above the counter value the call started from and
at most the value it leaves; hence the ids are pairwise distinct. -/
theorem merged_ids_distinct (ai : Dict Nat) (xs outs : List MObj) (ai' : Dict Nat)
    (h : merge cfg cs ai xs = .ok (outs, ai')) :
    (outs.flatMap mergedId).Nodup ∧
    ∃ pairs : List (Str × Nat), (outs.flatMap mergedId) <+: pairs.map mkOpt ∧
      ∀ p ∈ pairs, cnt ai p.1 < p.2 ∧ p.2 ≤ cnt ai' p.1 := by
  obtain ⟨st, ys, zs, hl, hf, rfl, rfl⟩ := merge_inv cfg cs ai xs outs ai' h
  obtain ⟨hg, _⟩ := loop_G cfg cs xs _ st ys (g_init cfg ai) hl
  obtain ⟨new, he, hb, hnd, _⟩ := loop_ids cfg cs xs _ st ys (g_init cfg ai) hl
  have he' : new.map mkOpt = ys.flatMap mergedId ++ curId st := by simpa [curId] using he
  have hndm : (new.map mkOpt).Nodup :=
    List.Pairwise.map mkOpt (fun a b hab hc => hab (mkOpt_inj a b hc)) hnd
  have hpre : ((ys ++ zs).flatMap mergedId) <+: new.map mkOpt := by
    rw [he', List.flatMap_append]
    rcases finish_cases st zs hf with ⟨hcur, rfl⟩ | ⟨c, _, _, rfl⟩ | ⟨c, n, hcur, _, _, rfl⟩
    · simp
    · simp
    · simp [mergedId_finalize hcur]
  exact ⟨hndm.sublist hpre.sublist, new, hpre, hb⟩

/-! ## 4. the interval union -/

/-- the default criteria on features of one class -/
theorem defaultCriteria_eval (a x : Feature) (k : List Feature) (as ae xs : Int)
    (h1 : x.seqid = a.seqid) (h2 : a.strand = x.strand) (h3 : a.ftype = x.ftype)
    (ha : a.start = some as) (hae : a.stop = some ae) (hx : x.start = some xs) :
    allCrit defaultCriteria a x k = .ok (decide (as ≤ xs ∧ xs ≤ ae + 1)) := by
  simp only [defaultCriteria, allCrit, Merge.seqid, Merge.strand, Merge.featureType, overlapEndInclusive,
    overlapEndThreshold, h1, h2, h3, ha, hae, hx, decide_true]
  by_cases hle : as ≤ xs
  · by_cases hle2 : xs ≤ ae + 1
    · simp [hle, hle2]
    · simp [hle, hle2]
  · simp [hle]

/-- the sweep the loop performs on extents, as a function on intervals -/
def sweep : Option (Int × Int) → List (Int × Int) → List (Int × Int)
  | none, [] => []
  | some c, [] => [c]
  | none, x :: xs => sweep (some x) xs
  | some c, x :: xs =>
    if c.1 ≤ x.1 ∧ x.1 ≤ c.2 + 1 then
      sweep (some (if x.1 < c.1 then x.1 else c.1, if c.2 < x.2 then x.2 else c.2)) xs
    else c :: sweep (some x) xs

def covered (l : List (Int × Int)) (p : Int) : Prop := ∃ a ∈ l, a.1 ≤ p ∧ p ≤ a.2

theorem covered_cons (x : Int × Int) (l : List (Int × Int)) (p : Int) :
    covered (x :: l) p ↔ (x.1 ≤ p ∧ p ≤ x.2) ∨ covered l p := by
  unfold covered
  constructor
  · rintro ⟨a, ha, h⟩
    rcases List.mem_cons.1 ha with rfl | ha
    · exact Or.inl h
    · exact Or.inr ⟨a, ha, h⟩
  · rintro (h | ⟨a, ha, h⟩)
    · exact ⟨x, List.mem_cons_self, h⟩
    · exact ⟨a, List.mem_cons_of_mem _ ha, h⟩

theorem covered_nil (p : Int) : ¬ covered [] p := by
  rintro ⟨a, ha, _⟩; cases ha

/-- the sweep over start-ordered proper intervals computes the union: maximal runs -/
theorem sweep_some_spec : ∀ (l : List (Int × Int)) (c : Int × Int), c.1 ≤ c.2 → (∀ a ∈ l, a.1 ≤ a.2) →
    (∀ a ∈ l, c.1 ≤ a.1) → l.Pairwise (fun a b => a.1 ≤ b.1) →
    (∀ a ∈ sweep (some c) l, a.1 ≤ a.2 ∧ c.1 ≤ a.1) ∧
    (sweep (some c) l).Pairwise (fun a b => a.2 + 1 < b.1) ∧
    (∀ p, covered (sweep (some c) l) p ↔ (c.1 ≤ p ∧ p ≤ c.2) ∨ covered l p) := by
  intro l
  induction l with
  | nil =>
    intro c hc _ _ _
    refine ⟨?_, ?_, ?_⟩
    · intro a ha; simp only [sweep, List.mem_singleton] at ha; subst ha; exact ⟨hc, Int.le_refl _⟩
    · simp [sweep]
    · intro p; simp only [sweep, covered_cons]
  | cons x l ih =>
    intro c hc hval hlo hsort
    have hx : x.1 ≤ x.2 := hval x List.mem_cons_self
    have hcx : c.1 ≤ x.1 := hlo x List.mem_cons_self
    have hval' : ∀ a ∈ l, a.1 ≤ a.2 := fun a ha => hval a (List.mem_cons_of_mem _ ha)
    rw [List.pairwise_cons] at hsort
    by_cases hj : c.1 ≤ x.1 ∧ x.1 ≤ c.2 + 1
    · have hnlt : ¬ x.1 < c.1 := by omega
      have hsw : sweep (some c) (x :: l) = sweep (some (c.1, if c.2 < x.2 then x.2 else c.2)) l := by
        simp only [sweep, if_pos hj, if_neg hnlt]
      rw [hsw]
      obtain ⟨h1, h2, h3⟩ := ih (c.1, if c.2 < x.2 then x.2 else c.2) (by simp only; split <;> omega) hval'
        (fun a ha => hlo a (List.mem_cons_of_mem _ ha)) hsort.2
      refine ⟨h1, h2, ?_⟩
      intro p
      rw [h3 p, covered_cons]
      simp only
      constructor
      · rintro (⟨ha, hb⟩ | h)
        · by_cases hp : p ≤ c.2
          · exact Or.inl ⟨ha, hp⟩
          · right; left
            split at hb <;> omega
        · exact Or.inr (Or.inr h)
      · rintro (⟨ha, hb⟩ | ⟨ha, hb⟩ | h)
        · left; split <;> omega
        · left; split <;> omega
        · exact Or.inr h
    · have hgt : c.2 + 1 < x.1 := by omega
      have hsw : sweep (some c) (x :: l) = c :: sweep (some x) l := by simp only [sweep, if_neg hj]
      rw [hsw]
      obtain ⟨h1, h2, h3⟩ := ih x hx hval' hsort.1 hsort.2
      refine ⟨?_, ?_, ?_⟩
      · intro a ha
        rcases List.mem_cons.1 ha with rfl | ha
        · exact ⟨hc, Int.le_refl _⟩
        · exact ⟨(h1 a ha).1, by have := (h1 a ha).2; omega⟩
      · rw [List.pairwise_cons]
        exact ⟨fun a ha => by have := (h1 a ha).2; omega, h2⟩
      · intro p
        rw [covered_cons, h3 p, covered_cons]

theorem sweep_none_spec (l : List (Int × Int)) (hval : ∀ a ∈ l, a.1 ≤ a.2)
    (hsort : l.Pairwise (fun a b => a.1 ≤ b.1)) :
    (∀ a ∈ sweep none l, a.1 ≤ a.2) ∧ (sweep none l).Pairwise (fun a b => a.2 + 1 < b.1) ∧
    (∀ p, covered (sweep none l) p ↔ covered l p) := by
  cases l with
  | nil => simp [sweep, covered_nil]
  | cons x l =>
    rw [List.pairwise_cons] at hsort
    obtain ⟨h1, h2, h3⟩ := sweep_some_spec l x (hval x List.mem_cons_self)
      (fun a ha => hval a (List.mem_cons_of_mem _ ha)) hsort.1 hsort.2
    refine ⟨fun a ha => (h1 a ha).1, h2, fun p => ?_⟩
    show covered (sweep (some x) l) p ↔ _
    rw [h3 p, covered_cons]

/-- integer extent of a feature -/
def ivOf (f : Feature) : Option (Int × Int) :=
  match f.start, f.stop with
  | some s, some e => some (s, e)
  | _, _ => none

def ivD (f : Feature) : Int × Int := (ivOf f).getD (0, 0)

def curExt (st : St) : Option (Int × Int) := st.cur.bind (fun c => ivOf c.f)

/-- a feature of the class `(seqid, strand, featuretype)` that is a proper interval -/
structure InClass (sq sd ft : Str) (f : Feature) : Prop where
  seqid : f.seqid = sq
  strand : f.strand = sd
  ftype : f.ftype = ft
  pos : PosLen f

theorem ivOf_of_posLen {f : Feature} (h : PosLen f) :
    ∃ s e, f.start = some s ∧ f.stop = some e ∧ s ≤ e ∧ ivOf f = some (s, e) ∧ ivD f = (s, e) := by
  obtain ⟨s, e, hs, he, hle⟩ := h
  exact ⟨s, e, hs, he, hle, by simp [ivOf, hs, he], by simp [ivD, ivOf, hs, he]⟩

theorem splitChar_no_sep (c : Char) : ∀ (s : Str), c ∉ s → Str.splitChar c s = [s] := by
  intro s
  induction s with
  | nil => intro _; rfl
  | cons x xs ih =>
    intro h
    have hx : ¬ x = c := fun e => h (by rw [e]; exact List.mem_cons_self)
    have hxs : c ∉ xs := fun e => h (List.mem_cons_of_mem _ e)
    simp only [Str.splitChar, if_neg hx, ih hxs]

theorem ivOf_finalize (c : MObj) (kids : List Feature) : ivOf (finalize c kids).f = ivOf c.f := by
  unfold finalize; split <;> rfl

variable (sq sd ft : Str)

theorem step_union {st st' : St} {x : MObj} {ys : List MObj} (hsq : ',' ∉ sq)
    (hI : ∀ c, st.cur = some c → InClass sq sd ft c.f) (hx : InClass sq sd ft x.f)
    (h : step cfg defaultCriteria st x = .ok (st', ys)) :
    (∀ c, st'.cur = some c → InClass sq sd ft c.f) ∧
    ∀ rest, ys.map (fun o => ivOf o.f) ++ (sweep (curExt st') rest).map some =
      (sweep (curExt st) (ivD x.f :: rest)).map some := by
  have hpl := step_posLen cfg defaultCriteria (fun c hc => (hI c hc).pos) hx.pos h
  obtain ⟨xs, xe, hxs, hxe, hxle, hxiv, hxd⟩ := ivOf_of_posLen hx.pos
  have hrefl : ∀ (f : Feature) (k : List Feature), InClass sq sd ft f →
      allCrit defaultCriteria f f k = .ok true := by
    intro f k hf
    obtain ⟨s, e, hs, he, hle, _, _⟩ := ivOf_of_posLen hf.pos
    rw [defaultCriteria_eval f f k s e s rfl rfl rfl hs he hs]
    have : s ≤ s ∧ s ≤ e + 1 := ⟨Int.le_refl _, by omega⟩
    simp [this]
  cases step_cases cfg defaultCriteria st x st' ys h with
  | firstAccept hcur hc hst hys =>
    subst hst; subst hys
    refine ⟨fun c hc' => by injection hc' with hc'; subst hc'; exact hx, fun rest => ?_⟩
    simp [curExt, hcur, hxiv, hxd, sweep]
  | firstReject hcur hc hst hys =>
    rw [hrefl x.f _ hx] at hc; cases hc
  | uncheckedReject c hcur hk hc hst hys =>
    rw [hrefl c.f _ (hI c hcur)] at hc; cases hc
  | flush c kids hcur hk hc hst hys =>
    subst hst; subst hys
    have hcI := hI c hcur
    obtain ⟨s, e, hs, he, hle, hiv, _⟩ := ivOf_of_posLen hcI.pos
    rw [defaultCriteria_eval c.f x.f kids s e xs (by rw [hx.seqid, hcI.seqid])
      (by rw [hx.strand, hcI.strand]) (by rw [hx.ftype, hcI.ftype]) hs he hxs] at hc
    injection hc with hc
    have hnj : ¬ (s ≤ xs ∧ xs ≤ e + 1) := by simpa using hc
    refine ⟨fun c hc' => by injection hc' with hc'; subst hc'; exact hx, fun rest => ?_⟩
    simp only [curExt, hcur, Option.bind_some, hiv, hxd, hxiv, sweep, if_neg hnj, List.map_cons,
      List.map_nil, ivOf_finalize, List.cons_append, List.nil_append]
  | join c kids c' lastId' ai' m hcur hk hc hrun habs hst hys =>
    subst hst; subst hys
    have hcI := hI c hcur
    obtain ⟨s, e, hs, he, hle, hiv, _⟩ := ivOf_of_posLen hcI.pos
    rw [defaultCriteria_eval c.f x.f kids s e xs (by rw [hx.seqid, hcI.seqid])
      (by rw [hx.strand, hcI.strand]) (by rw [hx.ftype, hcI.ftype]) hs he hxs] at hc
    injection hc with hc
    have hj : s ≤ xs ∧ xs ≤ e + 1 := by simpa using hc
    have hc'f : c'.f.start = c.f.start ∧ c'.f.stop = c.f.stop ∧ c'.f.seqid = c.f.seqid ∧
        c'.f.strand = c.f.strand ∧ c'.f.ftype = c.f.ftype := by
      split at hrun
      · obtain ⟨_, _, lid, _, hf, _⟩ := startRun_ok cfg hrun
        rw [hf]; exact ⟨rfl, rfl, rfl, rfl, rfl⟩
      · injection hrun with hrun; injection hrun with h1 _; rw [← h1]; exact ⟨rfl, rfl, rfl, rfl, rfl⟩
    obtain ⟨s', e', xs', xe', hs', he', hxs', hxe', hm⟩ := absorb_ok c'.f x.f m habs
    rw [hc'f.1, hs] at hs'; rw [hc'f.2.1, he] at he'; rw [hxs] at hxs'; rw [hxe] at hxe'
    injection hs' with hs'; injection he' with he'; injection hxs' with hxs'; injection hxe' with hxe'
    subst hs'; subst he'; subst hxs'; subst hxe'
    have hmiv : ivOf m = some (if xs < s then xs else s, if e < xe then xe else e) := by
      rw [hm]; rfl
    refine ⟨?_, fun rest => ?_⟩
    · intro c2 hc2
      injection hc2 with hc2; subst hc2
      refine ⟨?_, ?_, ?_, hpl _ rfl⟩
      · show m.seqid = sq
        rw [hm]; simp only
        rw [hc'f.2.2.1, hcI.seqid, hx.seqid, splitChar_no_sep ',' sq hsq]
        simp
      · show m.strand = sd
        rw [hm]; simp only
        rw [hc'f.2.2.2.1, hcI.strand, hx.strand]; simp
      · show m.ftype = ft
        rw [hm]; simp only
        rw [hc'f.2.2.2.2, hcI.ftype, hx.ftype]; simp
    · simp only [curExt, hcur, Option.bind_some, hiv, hxd, hmiv, sweep, if_pos hj, List.map_nil,
        List.nil_append]

theorem loop_union (hsq : ',' ∉ sq) : ∀ (xs : List MObj) (st st' : St) (ys : List MObj),
    (∀ c, st.cur = some c → InClass sq sd ft c.f) → (∀ x ∈ xs, InClass sq sd ft x.f) →
    loop cfg defaultCriteria st xs = .ok (st', ys) →
    (∀ c, st'.cur = some c → InClass sq sd ft c.f) ∧
    ∀ rest, ys.map (fun o => ivOf o.f) ++ (sweep (curExt st') rest).map some =
      (sweep (curExt st) (xs.map (fun x => ivD x.f) ++ rest)).map some := by
  intro xs
  induction xs with
  | nil =>
    intro st st' ys hI _ h
    obtain ⟨rfl, rfl⟩ := loop_nil_inv cfg defaultCriteria st st' ys h
    exact ⟨hI, fun rest => by simp⟩
  | cons x xs ih =>
    intro st st' ys hI hxs h
    obtain ⟨st1, ys1, zs, hs, hl, rfl⟩ := loop_cons_inv cfg defaultCriteria st x xs st' ys h
    obtain ⟨hI1, hu1⟩ := step_union cfg sq sd ft hsq hI (hxs x List.mem_cons_self) hs
    obtain ⟨hI2, hu2⟩ := ih st1 st' zs hI1 (fun y hy => hxs y (List.mem_cons_of_mem _ hy)) hl
    refine ⟨hI2, fun rest => ?_⟩
    rw [List.map_append, List.append_assoc, hu2 rest, hu1]
    simp

/-- **`merge_union`**: inputs of one class `(seqid, strand, featuretype)` (seqid without a comma), proper
intervals ordered by start, default criteria.  Then every output has an integer extent, and the list of
output extents is: made of proper intervals, pairwise separated by at least one base that no output
covers (hence strictly sorted), and covers exactly the positions covered by the inputs — the outputs
are the maximal runs of overlapping-or-adjacent input intervals. -/
theorem merge_union (hsq : ',' ∉ sq) (ai : Dict Nat) (xs outs : List MObj) (ai' : Dict Nat)
    (hcls : ∀ x ∈ xs, InClass sq sd ft x.f)
    (hsort : (xs.map (fun x => ivD x.f)).Pairwise (fun a b => a.1 ≤ b.1))
    (h : merge cfg defaultCriteria ai xs = .ok (outs, ai')) :
    ∃ exts : List (Int × Int), outs.map (fun o => ivOf o.f) = exts.map some ∧
      (∀ a ∈ exts, a.1 ≤ a.2) ∧ exts.Pairwise (fun a b => a.2 + 1 < b.1) ∧
      (∀ p, covered exts p ↔ covered (xs.map (fun x => ivD x.f)) p) := by
  obtain ⟨st, ys, zs, hl, hf, rfl, _⟩ := merge_inv cfg defaultCriteria ai xs outs ai' h
  obtain ⟨hI, hu⟩ := loop_union cfg sq sd ft hsq xs _ st ys (fun c hc => by cases hc) hcls hl
  have hu0 := hu []
  simp only [List.append_nil] at hu0
  have hzs : zs.map (fun o => ivOf o.f) = (sweep (curExt st) []).map some := by
    rcases finish_cases st zs hf with ⟨hcur, rfl⟩ | ⟨c, hcur, hlen, rfl⟩ | ⟨c, n, hcur, _, _, rfl⟩
    · simp [curExt, hcur, sweep]
    · obtain ⟨n, hn, hpos⟩ := len_pos_of_posLen (hI c hcur).pos
      rw [hn] at hlen; injection hlen with hlen; omega
    · obtain ⟨s, e, _, _, _, hiv, _⟩ := ivOf_of_posLen (hI c hcur).pos
      simp [curExt, hcur, hiv, sweep, ivOf_finalize]
  have hval : ∀ a ∈ xs.map (fun x => ivD x.f), a.1 ≤ a.2 := by
    intro a ha
    obtain ⟨x, hx, rfl⟩ := List.mem_map.1 ha
    obtain ⟨s, e, _, _, hle, _, hd⟩ := ivOf_of_posLen (hcls x hx).pos
    rw [hd]; exact hle
  obtain ⟨h1, h2, h3⟩ := sweep_none_spec _ hval hsort
  refine ⟨sweep none (xs.map (fun x => ivD x.f)), ?_, h1, h2, h3⟩
  rw [List.map_append, hzs, hu0]
  rfl

theorem pairwise_mem {α : Type} {R : α → α → Prop} : ∀ {l : List α}, l.Pairwise R → ∀ {a b : α}, a ∈ l → b ∈ l →
    a = b ∨ R a b ∨ R b a := by
  intro l
  induction l with
  | nil => intro _ a b ha; cases ha
  | cons x l ih =>
    intro hp a b ha hb
    rw [List.pairwise_cons] at hp
    rcases List.mem_cons.1 ha with hax | ha' <;> rcases List.mem_cons.1 hb with hbx | hb'
    · exact Or.inl (hax.trans hbx.symm)
    · subst hax; exact Or.inr (Or.inl (hp.1 b hb'))
    · subst hbx; exact Or.inr (Or.inr (hp.1 a ha'))
    · exact ih hp.2 ha' hb'

/-- **maximal runs**: proper extents that are pairwise separated by an uncovered base and cover exactly
the positions the inputs cover are the maximal runs of covered positions: every position of an extent is
covered by an input, the base before it and the base after it are not. -/
theorem maximal_runs (exts ins : List (Int × Int)) (hval : ∀ a ∈ exts, a.1 ≤ a.2)
    (hsep : exts.Pairwise (fun a b => a.2 + 1 < b.1)) (hcov : ∀ p, covered exts p ↔ covered ins p)
    (a : Int × Int) (ha : a ∈ exts) :
    (∀ p, a.1 ≤ p → p ≤ a.2 → covered ins p) ∧ ¬ covered ins (a.1 - 1) ∧ ¬ covered ins (a.2 + 1) := by
  have hva := hval a ha
  refine ⟨fun p h1 h2 => (hcov p).1 ⟨a, ha, h1, h2⟩, ?_, ?_⟩
  · intro hc
    obtain ⟨b, hb, h1, h2⟩ := (hcov _).2 hc
    have hvb := hval b hb
    rcases pairwise_mem hsep ha hb with rfl | h | h <;> omega
  · intro hc
    obtain ⟨b, hb, h1, h2⟩ := (hcov _).2 hc
    have hvb := hval b hb
    rcases pairwise_mem hsep ha hb with rfl | h | h <;> omega

/-- `merge_union` in the "maximal runs" wording -/
theorem merge_union_maximal (hsq : ',' ∉ sq) (ai : Dict Nat) (xs outs : List MObj) (ai' : Dict Nat)
    (hcls : ∀ x ∈ xs, InClass sq sd ft x.f)
    (hsort : (xs.map (fun x => ivD x.f)).Pairwise (fun a b => a.1 ≤ b.1))
    (h : merge cfg defaultCriteria ai xs = .ok (outs, ai')) :
    ∀ o ∈ outs, ∃ s e, o.f.start = some s ∧ o.f.stop = some e ∧ s ≤ e ∧
      (∀ p, s ≤ p → p ≤ e → covered (xs.map (fun x => ivD x.f)) p) ∧
      ¬ covered (xs.map (fun x => ivD x.f)) (s - 1) ∧ ¬ covered (xs.map (fun x => ivD x.f)) (e + 1) := by
  obtain ⟨exts, hmap, hval, hsep, hcov⟩ := merge_union cfg sq sd ft hsq ai xs outs ai' hcls hsort h
  intro o ho
  have hm : ivOf o.f ∈ exts.map some := by rw [← hmap]; exact List.mem_map_of_mem ho
  obtain ⟨a, ha, hao⟩ := List.mem_map.1 hm
  have hcoords : o.f.start = some a.1 ∧ o.f.stop = some a.2 := by
    unfold ivOf at hao
    cases hs : o.f.start <;> cases he : o.f.stop <;> rw [hs, he] at hao <;> simp at hao
    rw [hao]; exact ⟨rfl, rfl⟩
  obtain ⟨h1, h2, h3⟩ := maximal_runs exts _ hval hsep hcov a ha
  exact ⟨a.1, a.2, hcoords.1, hcoords.2, hval a ha, h1, h2, h3⟩

/-! ## 5. previously merged objects (D9) -/

/-- forget the `children` attribute -/
def strip (o : MObj) : MObj := { o with children := none }
def stripSt (st : St) : St := { st with cur := st.cur.map strip }
def N (r : St × List MObj) : St × List MObj := (stripSt r.1, r.2)

theorem strip_strip (o : MObj) : strip (strip o) = strip o := rfl
theorem stripSt_stripSt (st : St) : stripSt (stripSt st) = stripSt st := by
  unfold stripSt; cases st.cur <;> rfl

theorem finalize_strip (c : MObj) (kids : List Feature) : finalize (strip c) kids = finalize c kids := by
  unfold finalize strip; split <;> rfl

theorem startRun_strip (hfix : cfg.d9fixed = true) (c : MObj) (l : Option Str) (ai : Dict Nat) :
    startRun cfg (strip c) l ai = startRun cfg c l ai := by
  unfold startRun copyForMerge strip
  simp [hfix]

theorem stepMain_strip (hfix : cfg.d9fixed = true) (c x : MObj) (kids : List Feature) (l : Option Str)
    (ai : Dict Nat) :
    (stepMain cfg cs (strip c) kids l ai (strip x)).map N = (stepMain cfg cs c kids l ai x).map N := by
  unfold stepMain
  rw [startRun_strip cfg hfix]
  show (match allCrit cs c.f x.f kids with
    | .error e => _
    | .ok false => _
    | .ok true => _ : Py (St × List MObj)).map N = _
  cases allCrit cs c.f x.f kids with
  | error e => rfl
  | ok b =>
    cases b with
    | false => simp only [finalize_strip]; rfl
    | true =>
      by_cases hl : kids.length = 1
      · simp only [if_pos hl]
        cases startRun cfg c l ai with
        | error e => rfl
        | ok r =>
          obtain ⟨c', l', ai'⟩ := r
          simp only
          show (match absorb c'.f x.f with
            | .error e => _
            | .ok m => _ : Py (St × List MObj)).map N = _
          cases absorb c'.f x.f <;> rfl
      · simp only [if_neg hl]
        show (match absorb c.f x.f with
          | .error e => _
          | .ok m => _ : Py (St × List MObj)).map N = _
        cases absorb c.f x.f <;> rfl

theorem step_strip (hfix : cfg.d9fixed = true) (st : St) (x : MObj) :
    (step cfg cs (stripSt st) (strip x)).map N = (step cfg cs st x).map N := by
  unfold step
  cases hcur : st.cur with
  | none =>
    have : (stripSt st).cur = none := by simp [stripSt, hcur]
    simp only [this]
    show (match allCrit cs x.f x.f st.kids with
      | .error e => _
      | .ok true => _
      | .ok false => _ : Py (St × List MObj)).map N = _
    cases allCrit cs x.f x.f st.kids with
    | error e => rfl
    | ok b =>
      cases b with
      | false => simp only [Except.map, N, stripSt, hcur, Option.map, finalize_strip]
      | true => simp only [Except.map, N, stripSt, hcur, Option.map, strip]
  | some c =>
    have : (stripSt st).cur = some (strip c) := by simp [stripSt, hcur]
    simp only [this]
    show (if st.kids.isEmpty = true then
        (match allCrit cs c.f c.f st.kids with
          | .error e => _
          | .ok true => _
          | .ok false => _ : Py (St × List MObj))
      else _).map N = _
    by_cases hk : st.kids.isEmpty = true
    · simp only [if_pos hk]
      cases allCrit cs c.f c.f st.kids with
      | error e => rfl
      | ok b =>
        cases b with
        | false => simp only [finalize_strip]; rfl
        | true => exact stepMain_strip cfg cs hfix c x [c.f] st.lastId st.autoinc
    · simp only [if_neg hk]
      exact stepMain_strip cfg cs hfix c x st.kids st.lastId st.autoinc

/-- with the repaired copy step, one iteration does not look at the `children` attributes -/
theorem step_congr (hfix : cfg.d9fixed = true) {st1 st2 : St} {x1 x2 : MObj}
    (hst : stripSt st1 = stripSt st2) (hx : x1.f = x2.f) :
    (step cfg cs st1 x1).map N = (step cfg cs st2 x2).map N := by
  have hx' : strip x1 = strip x2 := by unfold strip; rw [hx]
  rw [← step_strip cfg cs hfix st1 x1, ← step_strip cfg cs hfix st2 x2, hst, hx']

theorem loop_congr (hfix : cfg.d9fixed = true) : ∀ (xs1 xs2 : List MObj) (st1 st2 : St),
    stripSt st1 = stripSt st2 → xs1.map (·.f) = xs2.map (·.f) →
    (loop cfg cs st1 xs1).map N = (loop cfg cs st2 xs2).map N := by
  intro xs1
  induction xs1 with
  | nil =>
    intro xs2 st1 st2 hst hxs
    cases xs2 with
    | nil => simp only [loop, Except.map, N, hst]
    | cons _ _ => simp at hxs
  | cons x1 xs1 ih =>
    intro xs2 st1 st2 hst hxs
    cases xs2 with
    | nil => simp at hxs
    | cons x2 xs2 =>
      simp only [List.map_cons, List.cons.injEq] at hxs
      have hstep := step_congr cfg cs hfix hst hxs.1
      simp only [loop]
      cases h1 : step cfg cs st1 x1 with
      | error e1 =>
        cases h2 : step cfg cs st2 x2 with
        | error e2 => rw [h1, h2] at hstep; simp only [Except.map] at hstep ⊢; exact hstep
        | ok r2 => rw [h1, h2] at hstep; simp [Except.map] at hstep
      | ok r1 =>
        cases h2 : step cfg cs st2 x2 with
        | error e2 => rw [h1, h2] at hstep; simp [Except.map] at hstep
        | ok r2 =>
          rw [h1, h2] at hstep
          simp only [Except.map, N, Except.ok.injEq, Prod.mk.injEq] at hstep
          obtain ⟨st1', ys1⟩ := r1
          obtain ⟨st2', ys2⟩ := r2
          simp only at hstep ⊢
          obtain ⟨hst', rfl⟩ := hstep
          have hrec := ih xs2 st1' st2' hst' hxs.2
          cases h3 : loop cfg cs st1' xs1 with
          | error e3 =>
            cases h4 : loop cfg cs st2' xs2 with
            | error e4 => rw [h3, h4] at hrec; simp only [Except.map] at hrec ⊢; exact hrec
            | ok r4 => rw [h3, h4] at hrec; simp [Except.map] at hrec
          | ok r3 =>
            cases h4 : loop cfg cs st2' xs2 with
            | error e4 => rw [h3, h4] at hrec; simp [Except.map] at hrec
            | ok r4 =>
              rw [h3, h4] at hrec
              simp only [Except.map, N, Except.ok.injEq, Prod.mk.injEq] at hrec
              obtain ⟨a, b⟩ := r3
              obtain ⟨a', b'⟩ := r4
              simp only at hrec ⊢
              simp only [Except.map, N, hrec.1, hrec.2]

theorem finish_strip (st : St) : finish (stripSt st) = finish st := by
  unfold finish stripSt
  cases st.cur with
  | none => rfl
  | some c => simp only [Option.map, finalize_strip]; rfl

/-- **`merge_children_irrelevant`** (repaired copy step): two lists of objects carrying the same features
— fresh, or left behind by earlier `merge` calls with whatever `children` attribute — give the same
result. -/
theorem merge_children_irrelevant (hfix : cfg.d9fixed = true) (ai : Dict Nat) (xs1 xs2 : List MObj)
    (hxs : xs1.map (·.f) = xs2.map (·.f)) : merge cfg cs ai xs1 = merge cfg cs ai xs2 := by
  have hl := loop_congr cfg cs hfix xs1 xs2 { autoinc := ai } { autoinc := ai } rfl hxs
  unfold merge
  cases h1 : loop cfg cs { autoinc := ai } xs1 with
  | error e1 =>
    cases h2 : loop cfg cs { autoinc := ai } xs2 with
    | error e2 => rw [h1, h2] at hl; simp only [Except.map] at hl; injection hl with hl; rw [hl]
    | ok r2 => rw [h1, h2] at hl; simp [Except.map] at hl
  | ok r1 =>
    cases h2 : loop cfg cs { autoinc := ai } xs2 with
    | error e2 => rw [h1, h2] at hl; simp [Except.map] at hl
    | ok r2 =>
      rw [h1, h2] at hl
      simp only [Except.map, N, Except.ok.injEq, Prod.mk.injEq] at hl
      obtain ⟨st1, ys1⟩ := r1
      obtain ⟨st2, ys2⟩ := r2
      simp only at hl ⊢
      obtain ⟨hst, rfl⟩ := hl
      have hf : finish st1 = finish st2 := by rw [← finish_strip st1, ← finish_strip st2, hst]
      have ha : st1.autoinc = st2.autoinc := by
        have := congrArg St.autoinc hst
        simpa [stripSt] using this
      rw [hf, ha]

theorem inputsAfter_features (outs : List MObj) : (inputsAfter outs).map (·.f) = flat outs := by
  unfold inputsAfter flat
  induction outs with
  | nil => rfl
  | cons o outs ih =>
    simp only [List.flatMap_cons, List.map_append, ih]
    congr 1
    unfold MObj.members
    cases o.children with
    | none => rfl
    | some l =>
      cases l with
      | nil => rfl
      | cons k ks => simp [List.map_map, Function.comp_def]

/-- idempotence from the SAME counter state (repaired copy step): literally the same outputs; the form for
an arbitrary counter state is `merge_idempotent_objects` below -/
theorem merge_idempotent_objects_same_counter (hfix : cfg.d9fixed = true) (ai : Dict Nat) (xs outs : List MObj)
    (ai' : Dict Nat) (hpos : ∀ x ∈ xs, PosLen x.f) (h : merge cfg cs ai xs = .ok (outs, ai')) :
    merge cfg cs ai (inputsAfter outs) = .ok (outs, ai') := by
  rw [← h]
  apply merge_children_irrelevant cfg cs hfix
  rw [inputsAfter_features, merge_partition cfg cs ai xs outs ai' hpos h]

/-! ### the counter only shows in the ids -/

/-- forget `id` and attributes (for a merged feature: its fresh id and the `ID` attribute) -/
def eraseF (f : Feature) : Feature := { f with id := none, attrs := [] }

/-- a criterion that does not look at the accumulated feature's `id` and attributes -/
def IdBlind (c : Crit) : Prop := ∀ a x k, c (eraseF a) x k = c a x k

def eraseO (o : MObj) : MObj := { o with f := eraseF o.f }

/-- forget the id of a merged output -/
def NO (o : MObj) : MObj :=
  match o.children with
  | some (_ :: _ :: _) => eraseO o
  | _ => o

def normL (l : Option Str) : Option Str := if lastIdUnset l then none else some ['x']

def curN (kids : List Feature) (c : MObj) : MObj := if 2 ≤ kids.length then eraseO c else c

/-- forget the ids in a loop state: the accumulated feature's (once it is a copy), `last_id` up to being
set, and the counters -/
def NS (st : St) : St :=
  { cur := st.cur.map (curN st.kids), kids := st.kids, lastId := normL st.lastId, autoinc := [] }

def normR (r : St × List MObj) : St × List MObj := (NS r.1, r.2.map NO)

theorem allCrit_blind (hb : ∀ c ∈ cs, IdBlind c) (a x : Feature) (k : List Feature) :
    allCrit cs (eraseF a) x k = allCrit cs a x k := by
  induction cs with
  | nil => rfl
  | cons c cs ih =>
    simp only [allCrit]
    rw [hb c List.mem_cons_self a x k, ih (fun c hc => hb c (List.mem_cons_of_mem _ hc))]

theorem absorb_erase (m x : Feature) : absorb (eraseF m) x = (absorb m x).map eraseF := by
  unfold absorb eraseF
  simp only
  cases ltI x.start m.start <;> cases ltI m.stop x.stop <;> rfl

theorem unset_normL (l : Option Str) : lastIdUnset (normL l) = lastIdUnset l := by
  cases l with
  | none => rfl
  | some s => cases s <;> rfl

theorem normL_normL (l : Option Str) : normL (normL l) = normL l := by
  cases l with
  | none => rfl
  | some s => cases s <;> rfl

theorem NO_finalize_single (c : MObj) (kids : List Feature) (h : ¬ kids.length > 1) :
    NO (finalize c kids) = finalize c kids := by
  rw [finalize_single c kids h]; rfl

theorem NO_finalize_merged (c : MObj) (kids : List Feature) (h : kids.length > 1) :
    NO (finalize c kids) = { f := eraseF { c.f with source := joinedSources kids }, children := some kids } := by
  rw [finalize_merged c kids h]
  match kids, h with
  | _ :: _ :: _, _ => rfl

theorem NO_finalize_curN (c : MObj) (kids : List Feature) :
    NO (finalize (curN kids c) kids) = NO (finalize c kids) := by
  unfold curN
  by_cases h : 2 ≤ kids.length
  · rw [if_pos h, NO_finalize_merged _ _ (by omega), NO_finalize_merged _ _ (by omega)]; rfl
  · rw [if_neg h]

theorem mkId_ne_nil (a : Str) (n : Nat) : (mkId a n).isEmpty = false := by
  unfold mkId; cases a <;> rfl

/-- `startRun` up to ids: same failure, or copies that agree after erasing, and `last_id` set -/
theorem startRun_norm (c : MObj) (l : Option Str) (ai : Dict Nat) :
    (startRun cfg c (normL l) []).map (fun r => (eraseO r.1, normL r.2.1)) =
      (startRun cfg c l ai).map (fun r => (eraseO r.1, normL r.2.1)) := by
  unfold startRun
  cases copyForMerge cfg c with
  | error e => rfl
  | ok m =>
    simp only [Except.map, unset_normL]
    congr 1
    refine Prod.ext ?_ ?_
    · rfl
    · simp only
      cases hu : lastIdUnset l with
      | true => simp [normL, lastIdUnset, mkId_ne_nil]
      | false =>
        simp only [Bool.false_eq_true, if_false]
        have h1 : normL l = some ['x'] := by simp [normL, hu]
        rw [h1]
        cases l with
        | none => simp [lastIdUnset] at hu
        | some s =>
          simp only [lastIdUnset] at hu
          simp [normL, lastIdUnset, hu]

theorem allCrit_curN (hb : ∀ c ∈ cs, IdBlind c) (c : MObj) (x : Feature) (kids : List Feature) :
    allCrit cs (curN kids c).f x kids = allCrit cs c.f x kids := by
  unfold curN
  split
  · exact allCrit_blind cs hb c.f x kids
  · rfl

theorem eraseF_eraseF (f : Feature) : eraseF (eraseF f) = eraseF f := rfl

theorem stepMain_norm (hb : ∀ c ∈ cs, IdBlind c) (c x : MObj) (kids : List Feature) (l : Option Str)
    (ai : Dict Nat) :
    (stepMain cfg cs (curN kids c) kids (normL l) [] x).map normR =
      (stepMain cfg cs c kids l ai x).map normR := by
  unfold stepMain
  rw [allCrit_curN cs hb]
  cases allCrit cs c.f x.f kids with
  | error e => rfl
  | ok b =>
    cases b with
    | false =>
      simp only [Except.map, normR, NS, List.map_cons, List.map_nil, NO_finalize_curN]
    | true =>
      simp only
      by_cases hl : kids.length = 1
      · have hcn : curN kids c = c := by unfold curN; rw [if_neg (by omega)]
        rw [hcn]
        simp only [if_pos hl]
        have hs := startRun_norm cfg c l ai
        cases h1 : startRun cfg c (normL l) [] with
        | error e1 =>
          cases h2 : startRun cfg c l ai with
          | error e2 => rw [h1, h2] at hs; simp only [Except.map] at hs; injection hs with hs; rw [hs]
          | ok r2 => rw [h1, h2] at hs; simp [Except.map] at hs
        | ok r1 =>
          cases h2 : startRun cfg c l ai with
          | error e2 => rw [h1, h2] at hs; simp [Except.map] at hs
          | ok r2 =>
            rw [h1, h2] at hs
            simp only [Except.map, Except.ok.injEq, Prod.mk.injEq] at hs
            obtain ⟨c1, l1, a1⟩ := r1
            obtain ⟨c2, l2, a2⟩ := r2
            simp only at hs ⊢
            obtain ⟨hc12, hl12⟩ := hs
            have hf12 : eraseF c1.f = eraseF c2.f := by have := congrArg MObj.f hc12; exact this
            have hch12 : c1.children = c2.children := by have := congrArg MObj.children hc12; exact this
            have habs : (absorb c1.f x.f).map eraseF = (absorb c2.f x.f).map eraseF := by
              rw [← absorb_erase, ← absorb_erase, hf12]
            have h2len : 2 ≤ (kids ++ [x.f]).length := by simp; omega
            cases ha1 : absorb c1.f x.f with
            | error e1 =>
              cases ha2 : absorb c2.f x.f with
              | error e2 => rw [ha1, ha2] at habs; simp only [Except.map] at habs; injection habs with habs; rw [habs]
              | ok m2 => rw [ha1, ha2] at habs; simp [Except.map] at habs
            | ok m1 =>
              cases ha2 : absorb c2.f x.f with
              | error e2 => rw [ha1, ha2] at habs; simp [Except.map] at habs
              | ok m2 =>
                rw [ha1, ha2] at habs
                simp only [Except.map, Except.ok.injEq] at habs
                simp only [Except.map, normR, NS, List.map_nil, Option.map, curN, if_pos h2len, eraseO, habs,
                  hch12, hl12]
      · simp only [if_neg hl]
        have habs : (absorb (curN kids c).f x.f).map eraseF = (absorb c.f x.f).map eraseF := by
          unfold curN
          split
          · show (absorb (eraseF c.f) x.f).map eraseF = _
            rw [absorb_erase]
            cases absorb c.f x.f <;> rfl
          · rfl
        cases ha1 : absorb (curN kids c).f x.f with
        | error e1 =>
          cases ha2 : absorb c.f x.f with
          | error e2 => rw [ha1, ha2] at habs; simp only [Except.map] at habs; injection habs with habs; rw [habs]
          | ok m2 => rw [ha1, ha2] at habs; simp [Except.map] at habs
        | ok m1 =>
          cases ha2 : absorb c.f x.f with
          | error e2 => rw [ha1, ha2] at habs; simp [Except.map] at habs
          | ok m2 =>
            rw [ha1, ha2] at habs
            simp only [Except.map, Except.ok.injEq] at habs
            simp only [Except.map, normR, NS, List.map_nil, Option.map, normL_normL, Except.ok.injEq,
              Prod.mk.injEq, and_true, St.mk.injEq, Option.some.injEq]
            by_cases h2 : 2 ≤ kids.length
            · have h3 : 2 ≤ (kids ++ [x.f]).length := by simp; omega
              have hm1 : m1 = eraseF m2 := by
                have : absorb (curN kids c).f x.f = (absorb c.f x.f).map eraseF := by
                  unfold curN; rw [if_pos h2]; exact absorb_erase c.f x.f
                rw [ha1, ha2] at this; simp only [Except.map] at this; injection this
              simp only [curN, if_pos h2, if_pos h3, eraseO, hm1, eraseF_eraseF]
            · have hm1 : m1 = m2 := by
                have : absorb (curN kids c).f x.f = absorb c.f x.f := by unfold curN; rw [if_neg h2]
                rw [ha1, ha2] at this; injection this
              simp only [curN, if_neg h2, hm1]

theorem step_norm (hb : ∀ c ∈ cs, IdBlind c) (st : St) (x : MObj) :
    (step cfg cs (NS st) x).map normR = (step cfg cs st x).map normR := by
  unfold step
  cases hcur : st.cur with
  | none =>
    have h0 : (NS st).cur = none := by simp [NS, hcur]
    simp only [h0]
    show (match allCrit cs x.f x.f st.kids with
      | .error e => _
      | .ok true => _
      | .ok false => _ : Py (St × List MObj)).map normR = _
    cases allCrit cs x.f x.f st.kids with
    | error e => rfl
    | ok b =>
      cases b with
      | false => simp only [Except.map, normR, NS, hcur, Option.map]
      | true => simp only [Except.map, normR, NS, hcur, Option.map, normL_normL]
  | some c =>
    have h0 : (NS st).cur = some (curN st.kids c) := by simp [NS, hcur]
    simp only [h0]
    show (if st.kids.isEmpty = true then
        (match allCrit cs (curN st.kids c).f (curN st.kids c).f st.kids with
          | .error e => _
          | .ok true => _
          | .ok false => _ : Py (St × List MObj))
      else _).map normR = _
    by_cases hk : st.kids.isEmpty = true
    · have hk' : st.kids = [] := by simpa using hk
      have hc0 : curN st.kids c = c := by rw [hk']; rfl
      simp only [if_pos hk, hc0]
      cases allCrit cs c.f c.f st.kids with
      | error e => rfl
      | ok b =>
        cases b with
        | false => simp only [Except.map, normR, NS, hcur, Option.map]
        | true =>
          have := stepMain_norm cfg cs hb c x [c.f] st.lastId st.autoinc
          have hc1 : curN [c.f] c = c := rfl
          rw [hc1] at this
          exact this
    · simp only [if_neg hk]
      exact stepMain_norm cfg cs hb c x st.kids st.lastId st.autoinc

theorem loop_norm (hb : ∀ c ∈ cs, IdBlind c) : ∀ (xs : List MObj) (st1 st2 : St), NS st1 = NS st2 →
    (loop cfg cs st1 xs).map normR = (loop cfg cs st2 xs).map normR := by
  intro xs
  induction xs with
  | nil => intro st1 st2 h; simp only [loop, Except.map, normR, h]
  | cons x xs ih =>
    intro st1 st2 hst
    have hstep : (step cfg cs st1 x).map normR = (step cfg cs st2 x).map normR := by
      rw [← step_norm cfg cs hb st1 x, ← step_norm cfg cs hb st2 x, hst]
    simp only [loop]
    cases h1 : step cfg cs st1 x with
    | error e1 =>
      cases h2 : step cfg cs st2 x with
      | error e2 => rw [h1, h2] at hstep; simp only [Except.map] at hstep ⊢; exact hstep
      | ok r2 => rw [h1, h2] at hstep; simp [Except.map] at hstep
    | ok r1 =>
      cases h2 : step cfg cs st2 x with
      | error e2 => rw [h1, h2] at hstep; simp [Except.map] at hstep
      | ok r2 =>
        rw [h1, h2] at hstep
        simp only [Except.map, normR, Except.ok.injEq, Prod.mk.injEq] at hstep
        obtain ⟨s1, ys1⟩ := r1
        obtain ⟨s2, ys2⟩ := r2
        simp only at hstep ⊢
        obtain ⟨hs', hys⟩ := hstep
        have hrec := ih s1 s2 hs'
        cases h3 : loop cfg cs s1 xs with
        | error e3 =>
          cases h4 : loop cfg cs s2 xs with
          | error e4 => rw [h3, h4] at hrec; simp only [Except.map] at hrec ⊢; exact hrec
          | ok r4 => rw [h3, h4] at hrec; simp [Except.map] at hrec
        | ok r3 =>
          cases h4 : loop cfg cs s2 xs with
          | error e4 => rw [h3, h4] at hrec; simp [Except.map] at hrec
          | ok r4 =>
            rw [h3, h4] at hrec
            simp only [Except.map, normR, Except.ok.injEq, Prod.mk.injEq] at hrec
            obtain ⟨a, b⟩ := r3
            obtain ⟨a', b'⟩ := r4
            simp only at hrec ⊢
            simp only [Except.map, normR, List.map_append, hrec.1, hrec.2, hys]

theorem len_eraseF (f : Feature) : Feature.len (eraseF f) = Feature.len f := rfl

theorem finish_norm (st : St) : (finish (NS st)).map (List.map NO) = (finish st).map (List.map NO) := by
  unfold finish
  cases hcur : st.cur with
  | none => simp [NS, hcur]
  | some c =>
    have h0 : (NS st).cur = some (curN st.kids c) := by simp [NS, hcur]
    simp only [h0]
    have hlen : Feature.len (curN st.kids c).f = Feature.len c.f := by
      unfold curN; split <;> rfl
    rw [hlen]
    cases Feature.len c.f with
    | error e => rfl
    | ok n =>
      simp only
      by_cases h1 : n < 0
      · simp only [if_pos h1]
      · simp only [if_neg h1]
        by_cases h2 : n = 0
        · simp only [if_pos h2]
        · simp only [if_neg h2, Except.map, List.map_cons, List.map_nil]
          show Except.ok [NO (finalize (curN st.kids c) st.kids)] = _
          rw [NO_finalize_curN]

/-- **the counter only shows in the ids**: for criteria that do not look at the accumulated feature's
`id` and attributes, two runs over the same objects from different counter states fail alike or yield the
same objects up to the fresh ids (`id` and `ID`) of the merged outputs. -/
theorem merge_counter_irrelevant (hb : ∀ c ∈ cs, IdBlind c) (ai1 ai2 : Dict Nat) (xs : List MObj) :
    (merge cfg cs ai1 xs).map (fun r => r.1.map NO) = (merge cfg cs ai2 xs).map (fun r => r.1.map NO) := by
  have hl := loop_norm cfg cs hb xs { autoinc := ai1 } { autoinc := ai2 } rfl
  unfold merge
  cases h1 : loop cfg cs { autoinc := ai1 } xs with
  | error e1 =>
    cases h2 : loop cfg cs { autoinc := ai2 } xs with
    | error e2 => rw [h1, h2] at hl; simp only [Except.map] at hl; injection hl with hl; rw [hl]
    | ok r2 => rw [h1, h2] at hl; simp [Except.map] at hl
  | ok r1 =>
    cases h2 : loop cfg cs { autoinc := ai2 } xs with
    | error e2 => rw [h1, h2] at hl; simp [Except.map] at hl
    | ok r2 =>
      rw [h1, h2] at hl
      simp only [Except.map, normR, Except.ok.injEq, Prod.mk.injEq] at hl
      obtain ⟨s1, ys1⟩ := r1
      obtain ⟨s2, ys2⟩ := r2
      simp only at hl ⊢
      obtain ⟨hs, hys⟩ := hl
      have hf : (finish s1).map (List.map NO) = (finish s2).map (List.map NO) := by
        rw [← finish_norm s1, ← finish_norm s2, hs]
      cases h3 : finish s1 with
      | error e3 =>
        cases h4 : finish s2 with
        | error e4 => rw [h3, h4] at hf; simp only [Except.map] at hf; injection hf with hf; rw [hf]
        | ok z4 => rw [h3, h4] at hf; simp [Except.map] at hf
      | ok z3 =>
        cases h4 : finish s2 with
        | error e4 => rw [h3, h4] at hf; simp [Except.map] at hf
        | ok z4 =>
          rw [h3, h4] at hf
          simp only [Except.map, Except.ok.injEq] at hf
          simp only [Except.map, List.map_append, hys, hf]

/-- the shipped criteria are blind to `id` and attributes -/
theorem shipped_idBlind :
    IdBlind Merge.seqid ∧ IdBlind Merge.strand ∧ IdBlind featureType ∧ IdBlind exactCoordinatesOnly ∧
    IdBlind overlapEndInclusive ∧ IdBlind overlapStartInclusive ∧ IdBlind overlapAnyInclusive ∧
    (∀ t, IdBlind (overlapEndThreshold t)) ∧ (∀ t, IdBlind (overlapStartThreshold t)) ∧
    (∀ t, IdBlind (overlapAnyThreshold t)) :=
  ⟨fun _ _ _ => rfl, fun _ _ _ => rfl, fun _ _ _ => rfl, fun _ _ _ => rfl, fun _ _ _ => rfl, fun _ _ _ => rfl,
   fun _ _ _ => rfl, fun _ _ _ _ => rfl, fun _ _ _ _ => rfl, fun _ _ _ _ => rfl⟩

/-- **`merge_idempotent_objects`, full form** (repaired copy step, id-blind criteria — e.g. any list of
shipped ones): after a successful call, merging the same objects again, as that call left them and from
ANY counter state (in particular the one it left), succeeds and yields the same outputs up to the fresh
ids of the merged ones. -/
theorem merge_idempotent_objects (hfix : cfg.d9fixed = true) (hb : ∀ c ∈ cs, IdBlind c) (ai ai2 : Dict Nat)
    (xs outs : List MObj) (ai' : Dict Nat) (hpos : ∀ x ∈ xs, PosLen x.f)
    (h : merge cfg cs ai xs = .ok (outs, ai')) :
    ∃ outs2 ai2', merge cfg cs ai2 (inputsAfter outs) = .ok (outs2, ai2') ∧ outs2.map NO = outs.map NO := by
  have h1 := merge_idempotent_objects_same_counter cfg cs hfix ai xs outs ai' hpos h
  have h2 := merge_counter_irrelevant cfg cs hb ai2 ai (inputsAfter outs)
  rw [h1] at h2
  cases h3 : merge cfg cs ai2 (inputsAfter outs) with
  | error e => rw [h3] at h2; simp [Except.map] at h2
  | ok r =>
    rw [h3] at h2
    simp only [Except.map, Except.ok.injEq] at h2
    exact ⟨r.1, r.2, rfl, h2⟩

/-! ## 6. witnesses and non-vacuity -/

section Examples

def exF (seqid : String) (s e : Int) (strand : String := "+") (src : String := "s") : Feature :=
  { seqid := seqid.toList, source := src.toList, ftype := "exon".toList, start := some s, stop := some e,
    strand := strand.toList, attrs := [("ID".toList, ["x".toList])] }

def exO (seqid : String) (s e : Int) (strand : String := "+") (src : String := "s") : MObj :=
  { f := exF seqid s e strand src }

/-- four intervals: 1-3, 2-6 and 7-8 chain into one run (overlap, then adjacency); 10-12 stays alone -/
def exList : List MObj := [exO "c1" 1 3, exO "c1" 2 6 "+" "t", exO "c1" 7 8, exO "c1" 10 12]

/-- shape of the result: one merged output 1..8 with three children, one single 10..12 -/
example : (merge {} defaultCriteria [] exList).toOption.map
      (fun r => r.1.map (fun o => (o.f.start, o.f.stop, (o.children.getD []).length))) =
    some [(some 1, some 8, 3), (some 10, some 12, 0)] := by decide +kernel

/-- its id, `ID`, source and the counter afterwards -/
example : (merge {} defaultCriteria [] exList).toOption.map
      (fun r => (r.1.map (fun o => (o.f.id, o.f.source)), r.2)) =
    some ([(some "exon_1".toList, "s,t".toList), (none, "s".toList)], [("exon".toList, 1)]) := by
  decide +kernel

example : ∀ x ∈ exList, InClass "c1".toList "+".toList "exon".toList x.f := by
  intro x hx
  simp only [exList, List.mem_cons, List.not_mem_nil, or_false] at hx
  rcases hx with rfl | rfl | rfl | rfl <;> exact ⟨rfl, rfl, rfl, _, _, rfl, rfl, by decide⟩

example : ',' ∉ "c1".toList := by decide

example : (exList.map (fun x => ivD x.f)).Pairwise (fun a b => a.1 ≤ b.1) := by decide

/-- **D9 on the current code** (`d9fixed = false`): two far-apart features are yielded as singles; the
same objects, as that call left them (`children = ()`), merged again under criteria that now join them,
raise `TypeError`; fresh objects, or the repaired copy step, do not. -/
def d9in : List MObj := [exO "c1" 1 3, exO "c1" 10 12]

def d9after : List MObj :=
  match merge {} defaultCriteria [] d9in with
  | .ok (outs, _) => inputsAfter outs
  | .error _ => []

example : d9after.map (fun o => o.children.map List.length) = [some 0, some 0] := by decide +kernel

example : (match merge {} [] [] d9after with
    | .error .type => true
    | _ => false) = true := by decide +kernel

example : (merge {} [] [] d9in).toOption.map (fun r => r.1.map (fun o => (o.f.start, o.f.stop))) =
    some [(some 1, some 12)] := by decide +kernel

example : (merge { d9fixed := true } [] [] d9after).toOption.map
      (fun r => r.1.map (fun o => (o.f.start, o.f.stop))) = some [(some 1, some 12)] := by decide +kernel

theorem defaultCriteria_idBlind : ∀ c ∈ defaultCriteria, IdBlind c := by
  intro c hc
  simp only [defaultCriteria, List.mem_cons, List.not_mem_nil, or_false] at hc
  rcases hc with rfl | rfl | rfl | rfl <;> exact fun _ _ _ => rfl

/-- the hypothesis of `merge_partition` cannot be dropped: a last feature (or run) whose extent has length
0 (`end = start - 1`) is falsy in `if current_merged:` and is not yielded at all -/
example : (merge {} defaultCriteria [] [exO "c1" 1 3, exO "c1" 9 8]).toOption.map
      (fun r => r.1.map (fun o => (o.f.start, o.f.stop))) = some [(some 1, some 3)] := by decide +kernel

/-- the hypothesis `',' ∉ seqid` of `merge_union` cannot be dropped: on a seqid containing a comma the
accumulated seqid becomes `a,b,a,b`, and the third overlapping feature is rejected by `mc.seqid` -/
example : (merge {} defaultCriteria [] [exO "a,b" 1 5, exO "a,b" 2 6, exO "a,b" 3 7]).toOption.map
      (fun r => r.1.map (fun o => (o.f.seqid, o.f.start, o.f.stop))) =
    some [("a,b,a,b".toList, some 1, some 6), ("a,b".toList, some 3, some 7)] := by decide +kernel

/-- a `None` coordinate is Python's `TypeError` in `overlap_end_inclusive` -/
example : (match merge {} defaultCriteria [] [exO "c1" 1 3, { f := { exF "c1" 2 4 with start := none } }] with
    | .error .type => true
    | _ => false) = true := by decide +kernel

end Examples

end GffProofs.C16
