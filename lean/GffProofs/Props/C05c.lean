/-
  C05c — Duplicate keys are resolved exactly as the chosen merge_strategy says: the GTF importer, WHOLE IMPORT.

  `Props/C05.lean` proves the one-arrival decision table for both importers and the whole-import theorems for the
  GFF3 importer; `Props/C05b.lean` the whole-import theorem for `merge` (GFF3).  Here the same five whole-import
  statements are proved for `Create.populateGtf` (`_GTFDBCreator._populate_from_lines`), for an ARBITRARY
  configuration `cfg` (any `id_spec`, transcript / gene key, dialect, `force_merge_fields`) and an arbitrary
  starting database (so that `FeatureDB.update` on a GTF database is covered, §7), in terms of the SAME
  specification functions as C05 / C05b, generalised from "key = the `ID` attribute" to an arbitrary key function
  (`Lemmas/C05cSpec.lean`, where `firstArrivals = firstsBy keyOf`, `placements = placementsBy keyOf`, … are proved)
  and with the GTF link rule `gtfLinks` in place of the GFF3 `linksOf`.

  Layout
  * §0  specification: `gtfLinks` (the GTF link rule), `KeyedBy` (what `id_spec` does on the input), `rowBy`
  * §1  the GTF importer is an instance of the abstract importer of `Lemmas/C05cAux.lean`
  * §2  `error`        : `error_aborts_seq_gtf`, `error_exact_gtf`, `no_collision_seq_gtf`
  * §3  `warning`      : `warning_keeps_first_seq_gtf`
  * §4  `replace`      : `replace_keeps_last_seq_gtf`   (relations accumulate: finding D12b, stated as such)
  * §5  `create_unique`: `create_unique_all_seq_gtf`
  * §6  `merge`        : `merge_seq_from_gtf`, `merge_exact_seq_gtf`, `merge_exact_seq_rows_gtf`
  * §7  `update` on a GTF database with both inference flags off
  * §8  arbitrary `id_spec` (autoincrement, callables): `error` / `warning` / `replace` along the key trace
  * §8b the GFF3 theorems of C05 / C05b re-derived as the instance `key = keyOf`, `link = linksOf`
  * §9  non-vacuity
-/
import GffProofs.Lemmas.C05cMerge

namespace GffProofs.C05
open GffModel GffModel.Create GffModel.Interface
open GffProofs.C04 (autoId incr_spec IdsNodup)
open GffProofs.C02 (idOf parentsOf gffCfg)

/-! ## §0 Specification -/

/-- **the GTF link rule**: a line filed under id `fid` whose transcript attribute has first value `t` and whose
gene attribute has first value `g` contributes `(t, fid, 1)`, `(g, fid, 2)` and `(g, t, 1)`, where a feature is
never its own relative: `(t, fid, 1)` is skipped for `t = fid` (an explicit transcript line), `(g, fid, 2)` is
skipped for `g = fid` (an explicit gene line) and for `t = fid`, `(g, t, 1)` is skipped for `t = g`. -/
def gtfLinks (cfg : Cfg) (f : Feature) (fid : Str) : List Rel :=
  let t := firstVal f cfg.transcriptKey
  let g := firstVal f cfg.geneKey
  (match t with
    | some t => if t ≠ fid then [⟨t, fid, 1⟩] else []
    | none => []) ++
  (match g with
    | some g =>
      (if fid ≠ g ∧ t ≠ some fid then [⟨g, fid, 2⟩] else []) ++
      (match t with
        | some t => if t ≠ g then [⟨g, t, 1⟩] else []
        | none => [])
    | none => [])

/-- the same, as a membership statement (the form of `nothing_lost_or_invented_gtf`, C05) -/
theorem mem_gtfLinks (cfg : Cfg) (f : Feature) (fid : Str) (r : Rel) :
    r ∈ gtfLinks cfg f fid ↔
      ((∃ t, firstVal f cfg.transcriptKey = some t ∧ t ≠ fid ∧ r = ⟨t, fid, 1⟩) ∨
       (∃ g, firstVal f cfg.geneKey = some g ∧ fid ≠ g ∧ firstVal f cfg.transcriptKey ≠ some fid ∧
          r = ⟨g, fid, 2⟩) ∨
       (∃ g t, firstVal f cfg.geneKey = some g ∧ firstVal f cfg.transcriptKey = some t ∧ t ≠ g ∧
          r = ⟨g, t, 1⟩)) := by
  unfold gtfLinks
  cases hp : firstVal f cfg.transcriptKey with
  | none =>
    cases hg : firstVal f cfg.geneKey with
    | none => simp
    | some g => by_cases h1 : fid = g <;> simp [h1]
  | some t =>
    cases hg : firstVal f cfg.geneKey with
    | none => by_cases h0 : t = fid <;> simp [h0]
    | some g =>
      by_cases h2 : t = g
      · subst h2
        by_cases h0 : t = fid
        · subst h0; simp
        · have h1 : ¬ fid = t := fun e => h0 e.symm
          simp [h0, h1]
      · have h2' : ¬ g = t := fun e => h2 e.symm
        by_cases h0 : t = fid
        · subst h0
          simp [h2]
        · by_cases h1 : fid = g
          · subst h1
            simp [h0]
          · simp [h0, h1, h2]

/-- **what `id_spec` does on the input**: every arrival `f` gets the key `key f`, whatever the counters, and
the counters are left alone (no autoincrement).  True of a plain attribute `id_spec` on lines that carry that
attribute once (`keyedBy_attr`), and of the default GTF `id_spec` on explicit gene / transcript lines
(`keyedBy_default`); §8 drops this hypothesis for `error` / `warning` / `replace`. -/
def KeyedBy (cfg : Cfg) (key : Feature → Str) (fs : List Feature) : Prop :=
  ∀ f ∈ fs, ∀ auto, idHandler cfg.idSpec auto f = .ok (key f, auto)

theorem KeyedBy.sub {cfg : Cfg} {key : Feature → Str} {fs fs' : List Feature} (h : KeyedBy cfg key fs)
    (hs : ∀ x ∈ fs', x ∈ fs) : KeyedBy cfg key fs' := fun f hf => h f (hs f hf)

/-- the first value of attribute `k` (the key under `id_spec = k`) -/
def attrKey (k : Str) (f : Feature) : Str := ((f.attrs.get? k).getD []).headD []

/-- `id_spec="<attribute>"` (e.g. `id_spec="eid"`): lines carrying exactly one value of the attribute -/
theorem keyedBy_attr (cfg : Cfg) (k : Str) (fs : List Feature) (hspec : cfg.idSpec = .keys [.attr k])
    (hk : isFieldSpec k = false) (h : ∀ f ∈ fs, ∃ v, f.attrs.get? k = some [v]) :
    KeyedBy cfg (attrKey k) fs := by
  intro f hf auto
  obtain ⟨v, hv⟩ := h f hf
  simp only [idHandler, hspec, tryKeys, hk, hv, attrKey, bind, Except.bind, pure, Except.pure]
  rfl

/-- the key under the default GTF `id_spec` `{gene: gene_id, transcript: transcript_id}` -/
def gtfDefaultKey (f : Feature) : Str :=
  if f.ftype = "gene".toList then attrKey "gene_id".toList f else attrKey "transcript_id".toList f

theorem idHandler_perType_attr (m : Dict (List KeySpec)) (auto : Dict Nat) (f : Feature) (k v : Str)
    (hm : Dict.get? m f.ftype = some [KeySpec.attr k]) (hk : isFieldSpec k = false)
    (hv : f.attrs.get? k = some [v]) : idHandler (.perType m) auto f = .ok (v, auto) := by
  simp only [idHandler, hm, tryKeys, hk, hv, bind, Except.bind, pure, Except.pure]
  rfl

/-- the default GTF `id_spec` on explicit gene lines (one `gene_id`) and transcript lines (one `transcript_id`) -/
theorem keyedBy_default (cfg : Cfg) (fs : List Feature) (hspec : cfg.idSpec = defaultGtfSpec)
    (h : ∀ f ∈ fs, (f.ftype = "gene".toList ∧ ∃ v, f.attrs.get? "gene_id".toList = some [v]) ∨
                   (f.ftype = "transcript".toList ∧ ∃ v, f.attrs.get? "transcript_id".toList = some [v])) :
    KeyedBy cfg gtfDefaultKey fs := by
  intro f hf auto
  rw [hspec]
  rcases h f hf with ⟨hft, v, hv⟩ | ⟨hft, v, hv⟩
  · have hkey : gtfDefaultKey f = v := by
      unfold gtfDefaultKey attrKey
      rw [if_pos hft, hv]; rfl
    rw [hkey]
    exact idHandler_perType_attr _ auto f "gene_id".toList v (by rw [hft]; rfl) (by decide) hv
  · have hne : ¬ ("transcript".toList = "gene".toList) := by decide
    have hkey : gtfDefaultKey f = v := by
      unfold gtfDefaultKey attrKey
      rw [if_neg (by rw [hft]; exact hne), hv]; rfl
    rw [hkey]
    exact idHandler_perType_attr _ auto f "transcript_id".toList v (by rw [hft]; rfl) (by decide) hv

/-- the row an arrival is stored as under its own key -/
def rowBy (key : Feature → Str) (f : Feature) : Row := storedRow f (key f)

/-! ## §1 The GTF importer as an abstract importer -/

/-- `_GTFDBCreator._populate_from_lines`, seen as: key, decision table, GTF links -/
def gtfImp (cfg : Cfg) (key : Feature → Str) : Imp Feature where
  cfg := cfg
  feat := id
  key := key
  link := gtfLinks cfg
  attach := fun db filed f => attachGtf cfg db filed f
  step := gtfStep cfg
  attach_none := fun _ _ => rfl
  attach_same := fun db filed f => attachGtf_same cfg db filed f
  attach_mem := fun db fid f r => by
    rw [mem_attachGtf, mem_gtfLinks]
    simp

theorem gtfImp_table (cfg : Cfg) (key : Feature → Str) (fs : List Feature) (hK : KeyedBy cfg key fs) :
    (gtfImp cfg key).Table fs :=
  fun f hf db auto => gtfStep_table cfg db auto auto f (key f) (hK f hf auto)

theorem populateGtf_fold (cfg : Cfg) (db : Db) (auto : Dict Nat) (fs : List Feature) (hne : fs ≠ []) :
    populateGtf cfg db auto fs = fs.foldlM (gtfStep cfg) (db, auto) := by
  unfold populateGtf
  cases fs with
  | nil => exact absurd rfl hne
  | cons f fs => rfl

/-! ## §2 `error` -/

/-- **no collision, whole GTF import: all five strategies behave alike** — every arrival is stored unchanged
under its key, in order of arrival, with exactly its GTF links; counters and the other tables are untouched -/
theorem no_collision_seq_gtf (cfg : Cfg) (key : Feature → Str) (fs : List Feature) (db : Db) (auto : Dict Nat)
    (hne : fs ≠ []) (hK : KeyedBy cfg key fs) (hnd : (idsOf db ++ fs.map key).Nodup) :
    ∃ db', populateGtf cfg db auto fs = .ok (db', auto) ∧
      db'.features = db.features ++ fs.map (rowBy key) ∧
      (∀ r, r ∈ db'.relations ↔ r ∈ db.relations ∨ ∃ f ∈ fs, r ∈ gtfLinks cfg f (key f)) ∧
      SameOther db db' := by
  rw [populateGtf_fold _ _ _ _ hne]
  exact (gtfImp cfg key).no_collision_fold fs db auto (gtfImp_table cfg key fs hK) hnd

/-- **1. `error`, whole GTF import.**  Let `f` be the FIRST arrival whose key is already held — by a stored row or
by an earlier arrival — i.e. the arrivals `pre` before it collide with nothing.  Then
* the whole import fails with `ValueError`, whatever follows `f` (`post` is arbitrary: not even `id_spec` is
  required to succeed on it — nothing after `f` is looked at);
* the state in which it fails is the import of the prefix: importing `pre` alone succeeds, stores exactly the
  arrivals of `pre` (unchanged, in order, with their links, counters untouched), and the step for `f` taken in
  that state is the `ValueError`. -/
theorem error_aborts_seq_gtf (cfg : Cfg) (key : Feature → Str) (pre : List Feature) (f : Feature)
    (post : List Feature) (db : Db) (auto : Dict Nat)
    (hs : cfg.strategy = .error) (hK : KeyedBy cfg key (pre ++ [f]))
    (hnd : (idsOf db ++ pre.map key).Nodup) (hc : key f ∈ idsOf db ++ pre.map key) :
    populateGtf cfg db auto (pre ++ f :: post) = .error .value ∧
    ∃ db1, pre.foldlM (gtfStep cfg) (db, auto) = .ok (db1, auto) ∧
      db1.features = db.features ++ pre.map (rowBy key) ∧
      (∀ r, r ∈ db1.relations ↔ r ∈ db.relations ∨ ∃ b ∈ pre, r ∈ gtfLinks cfg b (key b)) ∧
      SameOther db db1 ∧
      gtfStep cfg (db1, auto) f = .error .value := by
  obtain ⟨db1, h1, h2, h3, h4, h5, h6⟩ :=
    (gtfImp cfg key).error_fold hs pre f post db auto (gtfImp_table cfg key _ hK) hnd hc
  refine ⟨?_, db1, h1, h2, h3, h4, h5⟩
  rw [populateGtf_fold _ _ _ _ (by simp)]
  exact h6

/-- **1. `error`, exactly**: on a database with distinct ids the import fails with `ValueError` iff some key is
held twice (by two arrivals, or by an arrival and a stored row); otherwise it stores everything
(`no_collision_seq_gtf`). -/
theorem error_exact_gtf (cfg : Cfg) (key : Feature → Str) (fs : List Feature) (db : Db) (auto : Dict Nat)
    (hs : cfg.strategy = .error) (hne : fs ≠ []) (hK : KeyedBy cfg key fs) (h0 : IdsNodup db) :
    (¬ (idsOf db ++ fs.map key).Nodup → populateGtf cfg db auto fs = .error .value) ∧
    ((idsOf db ++ fs.map key).Nodup → ∃ db', populateGtf cfg db auto fs = .ok (db', auto) ∧
      db'.features = db.features ++ fs.map (rowBy key) ∧
      (∀ r, r ∈ db'.relations ↔ r ∈ db.relations ∨ ∃ f ∈ fs, r ∈ gtfLinks cfg f (key f)) ∧
      SameOther db db') := by
  refine ⟨fun hdup => ?_, fun hnd => no_collision_seq_gtf cfg key fs db auto hne hK hnd⟩
  obtain ⟨pre, f, post, rfl, h1, h2⟩ := first_collision (idsOf db) key fs h0 hdup
  exact (error_aborts_seq_gtf cfg key pre f post db auto hs
    (hK.sub (fun x hx => by
      rcases List.mem_append.mp hx with h | h
      · exact List.mem_append_left _ h
      · simp only [List.mem_singleton] at h; subst h; simp)) h1 h2).1

/-! ## §3 `warning` -/

/-- **2. `warning`, whole GTF import.**  The import succeeds; the stored rows are the old rows followed by exactly
the FIRST arrival of each new key, unchanged, in order of first arrival; the relations are the old ones plus
exactly the GTF links of those stored (first) arrivals — an ignored line contributes nothing; the counters,
`duplicates` and the other tables are untouched. -/
theorem warning_keeps_first_seq_gtf (cfg : Cfg) (key : Feature → Str) (fs : List Feature) (db : Db) (auto : Dict Nat)
    (hs : cfg.strategy = .warning) (hne : fs ≠ []) (hK : KeyedBy cfg key fs) :
    ∃ db', populateGtf cfg db auto fs = .ok (db', auto) ∧
      db'.features = db.features ++ (firstsBy key (idsOf db) fs).map (rowBy key) ∧
      (∀ r, r ∈ db'.relations ↔
        r ∈ db.relations ∨ ∃ f ∈ firstsBy key (idsOf db) fs, r ∈ gtfLinks cfg f (key f)) ∧
      SameOther db db' := by
  rw [populateGtf_fold _ _ _ _ hne]
  exact (gtfImp cfg key).warning_fold hs fs db auto (gtfImp_table cfg key fs hK)

/-! ## §4 `replace` -/

/-- **3. `replace`, whole GTF import.**  The import succeeds; the rows keep their places — old rows first, then one
row per new key in order of FIRST arrival — and each row whose key arrived holds the LAST arrival of that key,
unchanged; rows whose key never arrived are untouched; counters and the other tables are untouched.
**Relations accumulate** (finding D12b, here for GTF): the relations are the old ones plus the GTF links of EVERY
arrival under its key — the links of overwritten arrivals (and those a stored row had before) are not withdrawn. -/
theorem replace_keeps_last_seq_gtf (cfg : Cfg) (key : Feature → Str) (fs : List Feature) (db : Db) (auto : Dict Nat)
    (hs : cfg.strategy = .replace) (hne : fs ≠ []) (hK : KeyedBy cfg key fs) :
    ∃ db', populateGtf cfg db auto fs = .ok (db', auto) ∧
      db'.features = (db.features ++ (firstsBy key (idsOf db) fs).map (rowBy key)).map (replacedBy id key fs) ∧
      (∀ r, r ∈ db'.relations ↔ r ∈ db.relations ∨ ∃ f ∈ fs, r ∈ gtfLinks cfg f (key f)) ∧
      SameOther db db' := by
  rw [populateGtf_fold _ _ _ _ hne]
  exact (gtfImp cfg key).replace_fold hs fs db auto (gtfImp_table cfg key fs hK)

/-- the content of the rows, spelled out: a row under id `k` holds the last arrival with key `k` -/
theorem replacedBy_spec (key : Feature → Str) (fs : List Feature) (r : Row) :
    (∀ l, lastBy key fs r.id = some l → replacedBy id key fs r = storedRow l r.id) ∧
    (lastBy key fs r.id = none → replacedBy id key fs r = r) := by
  unfold replacedBy
  constructor
  · intro l hl; rw [hl]; rfl
  · intro hl; rw [hl]

/-- `create_db` with `replace` on a GTF file: one row per key, at the place of the first arrival, holding the
last arrival -/
theorem replace_keeps_last_create_gtf (cfg : Cfg) (key : Feature → Str) (fs : List Feature)
    (hs : cfg.strategy = .replace) (hne : fs ≠ []) (hK : KeyedBy cfg key fs) :
    ∃ db', populateGtf cfg {} [] fs = .ok (db', []) ∧
      db'.features.map (·.id) = (firstsBy key [] fs).map key ∧
      (∀ f ∈ firstsBy key [] fs, ∃ l, lastBy key fs (key f) = some l ∧ storedRow l (key f) ∈ db'.features) ∧
      db'.features.length = (firstsBy key [] fs).length := by
  obtain ⟨db', h1, h2, _, _⟩ := replace_keeps_last_seq_gtf cfg key fs {} [] hs hne hK
  have h2' : db'.features = ((firstsBy key [] fs).map (rowBy key)).map (replacedBy id key fs) := by
    simpa [idsOf] using h2
  have hlast : ∀ f ∈ firstsBy key [] fs, ∃ l, lastBy key fs (key f) = some l := by
    intro f hf
    have hmem : f ∈ fs := (firstsBy_sublist key [] fs).subset hf
    cases hl : lastBy key fs (key f) with
    | some l => exact ⟨l, rfl⟩
    | none =>
      unfold lastBy at hl
      rw [List.getLast?_eq_none_iff, List.filter_eq_nil_iff] at hl
      exact absurd (by simp) (hl f hmem)
  refine ⟨db', h1, ?_, ?_, by rw [h2']; simp⟩
  · rw [h2', List.map_map, List.map_map]
    apply List.map_congr_left
    intro f hf
    obtain ⟨l, hl⟩ := hlast f hf
    simp only [Function.comp, replacedBy, rowBy, storedRow_id, hl]
  · intro f hf
    obtain ⟨l, hl⟩ := hlast f hf
    refine ⟨l, hl, ?_⟩
    rw [h2']
    refine List.mem_map.mpr ⟨rowBy key f, List.mem_map.mpr ⟨f, hf, rfl⟩, ?_⟩
    simp only [replacedBy, rowBy, storedRow_id, hl, id]

/-! ## §5 `create_unique` -/

/-- **4. `create_unique`, whole GTF import.**  Under `FreshBy` (no generated id `<key>_<n>` beyond the current
counter is stored or is a key) the import succeeds and stores EVERY arrival unchanged, appended in order of arrival;
the `i`-th arrival, with key `k`, sits under `uniqueIdBy key (idsOf db) auto (fs.take i) k`: under `k` if it is the
first holder of `k`, under `k_<c+j>` if `j ≥ 1` holders came before (`c` = the counter of `k` at the start; `k_j` for
`create_db`, see `uniqueIdBy_create`).  The relations are the old ones plus the GTF links of every arrival, attached
to the id it was filed under.  The counter of every key is advanced by the number of its collisions. -/
theorem create_unique_all_seq_gtf (cfg : Cfg) (key : Feature → Str) (fs : List Feature) (db : Db) (auto : Dict Nat)
    (hs : cfg.strategy = .createUnique) (hne : fs ≠ []) (hK : KeyedBy cfg key fs)
    (hF : FreshBy key (idsOf db) auto fs) :
    ∃ db' auto', populateGtf cfg db auto fs = .ok (db', auto') ∧
      db'.features.length = db.features.length + fs.length ∧
      (∀ i, i < db.features.length → db'.features[i]? = db.features[i]?) ∧
      (∀ i (hi : i < fs.length), db'.features[db.features.length + i]? =
          some (storedRow fs[i] (uniqueIdBy key (idsOf db) auto (fs.take i) (key fs[i])))) ∧
      (∀ r, r ∈ db'.relations ↔ r ∈ db.relations ∨
          ∃ i, ∃ hi : i < fs.length, r ∈ gtfLinks cfg fs[i] (uniqueIdBy key (idsOf db) auto (fs.take i) (key fs[i]))) ∧
      (∀ k, (auto'.get? k).getD 0 = (auto.get? k).getD 0 + (priorCountBy key (idsOf db) fs k - 1)) ∧
      SameOther db db' := by
  rw [populateGtf_fold _ _ _ _ hne]
  exact (gtfImp cfg key).create_unique_indexed hs fs db auto (gtfImp_table cfg key fs hK) hF

/-- the same as one list equation: the rows appended are the placements -/
theorem create_unique_all_seq_gtf_rows (cfg : Cfg) (key : Feature → Str) (fs : List Feature) (db : Db) (auto : Dict Nat)
    (hs : cfg.strategy = .createUnique) (hne : fs ≠ []) (hK : KeyedBy cfg key fs)
    (hF : FreshBy key (idsOf db) auto fs) :
    ∃ db' auto', populateGtf cfg db auto fs = .ok (db', auto') ∧
      db'.features = db.features ++ (placementsBy key (idsOf db) auto [] fs).map (fun p => storedRow p.1 p.2) ∧
      (∀ r, r ∈ db'.relations ↔
        r ∈ db.relations ∨ ∃ p ∈ placementsBy key (idsOf db) auto [] fs, r ∈ gtfLinks cfg p.1 p.2) ∧
      (∀ k, (auto'.get? k).getD 0 = (auto.get? k).getD 0 + (priorCountBy key (idsOf db) fs k - 1)) ∧
      SameOther db db' := by
  rw [populateGtf_fold _ _ _ _ hne]
  exact (gtfImp cfg key).create_unique_fold hs fs db auto (gtfImp_table cfg key fs hK) hF

/-- `create_db` with `create_unique`: the first arrival of `k` is stored under `k`, the `j`-th later arrival
of `k` under `k_j` -/
theorem uniqueIdBy_create {α : Type} (key : α → Str) (pre : List α) (k : Str) :
    uniqueIdBy key [] [] pre k =
      if (pre.filter (fun f => key f = k)).length = 0 then k
      else autoId k (pre.filter (fun f => key f = k)).length := uidBy_eq key pre k

/-! ## §6 `merge` -/

/-- the invariant of a `merge` import of a GTF file (C05b `MergeInv` with the GTF key and link functions): after
the arrivals `pre`, started on `db0`, the tables hold exactly the grouping specification for `pre` -/
abbrev GtfMergeInv (cfg : Cfg) (key : Feature → Str) (db0 : Db) (pre : List Feature) (db : Db) (auto : Dict Nat) : Prop :=
  MergeInvBy (gtfImp cfg key) db0 pre db auto

/-- what the invariant says, in plain terms -/
theorem gtfMergeInv_iff (cfg : Cfg) (key : Feature → Str) (db0 : Db) (pre : List Feature) (db : Db) (auto : Dict Nat) :
    GtfMergeInv cfg key db0 pre db auto ↔
      db.features = mergeRowsBy id key cfg.forceMergeFields pre ∧
      db.duplicates = mergeDupsBy id key cfg.forceMergeFields pre ∧
      (∀ r, r ∈ db.relations ↔ r ∈ db0.relations ∨ r ∈ mergeLinksBy id key (gtfLinks cfg) cfg.forceMergeFields pre) ∧
      (∀ k, (auto.get? k).getD 0 = cntKeyBy key k (groupRepsBy id key cfg.forceMergeFields pre) - 1) ∧
      db.metaRows = db0.metaRows ∧ db.directives = db0.directives ∧ db.autoinc = db0.autoinc :=
  ⟨fun h => ⟨h.feats, h.dups, h.rels, h.cnt, h.other.1, h.other.2.1, h.other.2.2⟩,
   fun h => ⟨h.1, h.2.1, h.2.2.1, h.2.2.2.1, h.2.2.2.2⟩⟩

/-- a database without rows and `duplicates`, with no counters (`create_db`), satisfies the invariant for `pre = []` -/
theorem gtfMergeInv_nil (cfg : Cfg) (key : Feature → Str) (db0 : Db) (h1 : db0.features = []) (h2 : db0.duplicates = []) :
    GtfMergeInv cfg key db0 [] db0 [] := mergeInvBy_nil (gtfImp cfg key) db0 h1 h2

/-- **5. `merge`, continued GTF import** (`update` on a database that an earlier `merge` import of `pre` left, with the
same configuration — or `create_db`, `pre = []`): for every configuration with `merge_strategy="merge"` (any
`force_merge_fields`, dialect, transcript / gene key), the import of `post` succeeds and leaves exactly the grouping
specification for `pre ++ post`. -/
theorem merge_seq_from_gtf (cfg : Cfg) (key : Feature → Str) (db0 : Db) (pre post : List Feature) (db : Db)
    (auto : Dict Nat) (hs : cfg.strategy = .merge) (hne : post ≠ []) (hK : KeyedBy cfg key post)
    (hdom : MergeDomainBy id key (pre ++ post)) (inv : GtfMergeInv cfg key db0 pre db auto) :
    ∃ db' auto', populateGtf cfg db auto post = .ok (db', auto') ∧
      GtfMergeInv cfg key db0 (pre ++ post) db' auto' := by
  rw [populateGtf_fold _ _ _ _ hne]
  exact merge_foldBy (I := gtfImp cfg key) hs db0 post pre db auto (gtfImp_table cfg key post hK) hdom inv

/-- **5. `merge`, whole GTF import = the specification by grouping.**  For every configuration with
`merge_strategy="merge"`, every start database without rows (`create_db`: the empty one) and every non-empty input
in `MergeDomainBy`, `_populate_from_lines` succeeds and
* `features` = `mergeRowsBy`: one row per group (same key, same compared columns), in order of the groups' first
  arrivals; the first group of a key under the key, its `j`-th later group under `key_j`; each row is C05b's `groupRow`
  (first arrival's columns; exempt columns = `groupText`, attributes = `groupAttrs`);
* `duplicates` = `mergeDupsBy`: `(key, key_j)` for the later groups, in order;
* relations = the old ones plus every arrival's GTF links attached to the id of ITS group;
* the counter of a key = the number of its later groups; the other tables are untouched. -/
theorem merge_exact_seq_gtf (cfg : Cfg) (key : Feature → Str) (db0 : Db) (fs : List Feature)
    (hs : cfg.strategy = .merge) (hne : fs ≠ []) (hK : KeyedBy cfg key fs)
    (hdom : MergeDomainBy id key fs) (h0 : db0.features = [] ∧ db0.duplicates = []) :
    ∃ db auto, populateGtf cfg db0 [] fs = .ok (db, auto) ∧
      db.features = mergeRowsBy id key cfg.forceMergeFields fs ∧
      db.duplicates = mergeDupsBy id key cfg.forceMergeFields fs ∧
      (∀ r, r ∈ db.relations ↔ r ∈ db0.relations ∨ r ∈ mergeLinksBy id key (gtfLinks cfg) cfg.forceMergeFields fs) ∧
      (∀ k, (auto.get? k).getD 0 = cntKeyBy key k (groupRepsBy id key cfg.forceMergeFields fs) - 1) ∧
      db.metaRows = db0.metaRows ∧ db.directives = db0.directives ∧ db.autoinc = db0.autoinc := by
  obtain ⟨db, auto, h1, inv⟩ := merge_seq_from_gtf cfg key db0 [] fs db0 [] hs hne hK (by simpa using hdom)
    (gtfMergeInv_nil cfg key db0 h0.1 h0.2)
  rw [List.nil_append] at inv
  exact ⟨db, auto, h1, inv.feats, inv.dups, inv.rels, inv.cnt, inv.other.1, inv.other.2.1, inv.other.2.2⟩

theorem mergeRowsBy_getElem {α : Type} (feat : α → Feature) (key : α → Str) (fmf : List Str) (fs : List α) (i : Nat)
    (hi : i < (groupRepsBy feat key fmf fs).length) :
    (mergeRowsBy feat key fmf fs)[i]? =
      some (groupRow fmf ((groupOfBy feat key fmf fs (groupRepsBy feat key fmf fs)[i]).map feat)
        (feat (groupRepsBy feat key fmf fs)[i])
        (uniqueIdBy key [] [] ((groupRepsBy feat key fmf fs).take i) (key (groupRepsBy feat key fmf fs)[i]))) := by
  unfold mergeRowsBy
  rw [List.getElem?_map]
  unfold groupPlacesBy
  rw [placementsBy_getElem?, List.getElem?_eq_getElem hi]
  simp [placeRowBy]

theorem mergeRowsBy_length {α : Type} (feat : α → Feature) (key : α → Str) (fmf : List Str) (fs : List α) :
    (mergeRowsBy feat key fmf fs).length = (groupRepsBy feat key fmf fs).length := by
  unfold mergeRowsBy
  rw [List.length_map]; unfold groupPlacesBy; exact placementsBy_length _ _ _ _ _

/-- **5. `merge`, whole GTF import, row by row** (no reference to `groupRow` / `groupAttrs`): with `reps` the first
arrival of every group in order, `create_db` stores exactly one row per group, in that order; the row of `reps[i]`
* sits under `uniqueIdBy key [] [] (reps.take i) key` (`key` for the first group of a key, `key_j` for its `j`-th later one);
* has start, end, extra fields and every column of the FIRST arrival, except the exempt text columns, which hold
  `groupText` (C05b `groupText_spec`: the comma-joined sorted duplicate-free set of the group's values);
* per attribute key holds exactly the values of the group's arrivals (attribute keys pairwise different in every
  arrival: `hattr`), without repeats as soon as two arrivals were merged, under pairwise different keys. -/
theorem merge_exact_seq_rows_gtf (cfg : Cfg) (key : Feature → Str) (db0 : Db) (fs : List Feature)
    (hs : cfg.strategy = .merge) (hne : fs ≠ []) (hK : KeyedBy cfg key fs)
    (hdom : MergeDomainBy id key fs) (h0 : db0.features = [] ∧ db0.duplicates = [])
    (hattr : ∀ f ∈ fs, (Dict.keys f.attrs).Nodup) :
    let fmf := cfg.forceMergeFields
    let reps := groupRepsBy id key fmf fs
    ∃ db auto, populateGtf cfg db0 [] fs = .ok (db, auto) ∧
      db.features.length = reps.length ∧
      ∀ i (hi : i < reps.length), ∃ row, db.features[i]? = some row ∧
        row.id = uniqueIdBy key [] [] (reps.take i) (key reps[i]) ∧
        row.start = reps[i].start ∧ row.stop = reps[i].stop ∧ row.extra = reps[i].extra ∧
        (∀ k ∈ gffCols, colText (row.toFeature cfg.dialect) k =
          if k ∈ fmf ∧ k ≠ "start".toList ∧ k ≠ "end".toList then groupText (groupOfBy id key fmf fs reps[i]) k
          else colText reps[i] k) ∧
        (∀ k v, v ∈ (row.attrs.get? k).getD [] ↔
          ∃ g ∈ fs, groupKeyBy id key fmf g = groupKeyBy id key fmf reps[i] ∧ v ∈ (g.attrs.get? k).getD []) ∧
        (2 ≤ (groupOfBy id key fmf fs reps[i]).length → ∀ k, ((row.attrs.get? k).getD []).Nodup) ∧
        (Dict.keys row.attrs).Nodup := by
  intro fmf reps
  obtain ⟨db, auto, h1, h2, _⟩ := merge_exact_seq_gtf cfg key db0 fs hs hne hK hdom h0
  refine ⟨db, auto, h1, by rw [h2, mergeRowsBy_length], fun i hi => ?_⟩
  have hG : ∀ g ∈ groupOfBy id key fmf fs reps[i], (Dict.keys g.attrs).Nodup :=
    fun g hg => hattr g (groupOfBy_sub id key fmf fs _ g hg)
  refine ⟨groupRow fmf (groupOfBy id key fmf fs reps[i]) reps[i]
      (uniqueIdBy key [] [] (reps.take i) (key reps[i])),
    by rw [h2, mergeRowsBy_getElem id key fmf fs i hi]; simp [reps],
    rfl, rfl, rfl, rfl,
    fun k hk => colText_groupRow cfg.dialect fmf _ _ _ k hk, fun k v => ?_, fun h2 k => groupAttrs_nodup _ h2 k,
    groupAttrs_keys_nodup _ hG⟩
  show v ∈ ((groupAttrs _).get? k).getD [] ↔ _
  rw [groupAttrs_values _ hG]
  simp only [mem_groupOfBy]
  constructor
  · rintro ⟨g, ⟨h1, h2⟩, h3⟩; exact ⟨g, h1, h2, h3⟩
  · rintro ⟨g, h1, h2, h3⟩; exact ⟨g, ⟨h1, h2⟩, h3⟩

/-! ## §7 `update` on a GTF database, both inference flags off

`FeatureDB.update` runs the same `_populate_from_lines` on the open database with the live counters, then
`_update_relations` — which does nothing when `disable_infer_genes` and `disable_infer_transcripts` are both set —
then `_finalize` (which touches neither `features` nor `relations` nor `duplicates`).  So every theorem of §2–§6
transfers; with inference on, `_update_relations` adds derived rows (C10c). -/

theorem updateRelationsGtf_off (cfg : Cfg) (db : Db) (auto : Dict Nat)
    (hg : cfg.disableGenes = true) (ht : cfg.disableTranscripts = true) :
    updateRelationsGtf cfg db auto = .ok (db, auto) := by
  unfold updateRelationsGtf
  simp [hg, ht, pure, Except.pure]

/-- `update` on a GTF database with inference off = the importer, then `_finalize` -/
theorem update_gtf_noinfer (s : Session) (cfg : Cfg) (fs : List Feature) (hne : fs ≠ [])
    (hfmt : s.dialect.fmt = Parser.gtf) (hg : cfg.disableGenes = true) (ht : cfg.disableTranscripts = true) :
    update s cfg fs =
      match populateGtf cfg s.db s.auto fs with
      | .error e => .error e
      | .ok (db, auto) => .ok { s with db := finalize db cfg.dialect [] auto, auto := auto } := by
  rw [(update_same_as_create s cfg fs).2.1 hne hfmt]
  cases populateGtf cfg s.db s.auto fs with
  | error e => rfl
  | ok r =>
    obtain ⟨db, auto⟩ := r
    simp only [updateRelationsGtf_off cfg db auto hg ht]

theorem finalize_duplicates (db : Db) (d : Dialect) (dirs : List Str) (auto : Dict Nat) :
    (finalize db d dirs auto).duplicates = db.duplicates := rfl

/-- **1. `error` through `update`**: the first arrival whose key is held aborts the update with `ValueError` -/
theorem update_error_gtf (s : Session) (cfg : Cfg) (key : Feature → Str) (pre : List Feature) (f : Feature)
    (post : List Feature) (hfmt : s.dialect.fmt = Parser.gtf) (hg : cfg.disableGenes = true)
    (ht : cfg.disableTranscripts = true) (hs : cfg.strategy = .error) (hK : KeyedBy cfg key (pre ++ [f]))
    (hnd : (idsOf s.db ++ pre.map key).Nodup) (hc : key f ∈ idsOf s.db ++ pre.map key) :
    update s cfg (pre ++ f :: post) = .error .value := by
  rw [update_gtf_noinfer s cfg _ (by simp) hfmt hg ht,
    (error_aborts_seq_gtf cfg key pre f post s.db s.auto hs hK hnd hc).1]

/-- **2. `warning` through `update`**: stored rows kept, first arrival of every new key appended, links of exactly
those, counters unchanged -/
theorem update_warning_gtf (s : Session) (cfg : Cfg) (key : Feature → Str) (fs : List Feature)
    (hfmt : s.dialect.fmt = Parser.gtf) (hg : cfg.disableGenes = true) (ht : cfg.disableTranscripts = true)
    (hs : cfg.strategy = .warning) (hne : fs ≠ []) (hK : KeyedBy cfg key fs) :
    ∃ s', update s cfg fs = .ok s' ∧ s'.auto = s.auto ∧
      s'.db.features = s.db.features ++ (firstsBy key (idsOf s.db) fs).map (rowBy key) ∧
      (∀ r, r ∈ s'.db.relations ↔
        r ∈ s.db.relations ∨ ∃ f ∈ firstsBy key (idsOf s.db) fs, r ∈ gtfLinks cfg f (key f)) ∧
      s'.db.duplicates = s.db.duplicates := by
  obtain ⟨db', h1, h2, h3, h4⟩ := warning_keeps_first_seq_gtf cfg key fs s.db s.auto hs hne hK
  rw [update_gtf_noinfer s cfg fs hne hfmt hg ht, h1]
  exact ⟨_, rfl, rfl, h2, h3, h4.2.2.2⟩

/-- **3. `replace` through `update`** -/
theorem update_replace_gtf (s : Session) (cfg : Cfg) (key : Feature → Str) (fs : List Feature)
    (hfmt : s.dialect.fmt = Parser.gtf) (hg : cfg.disableGenes = true) (ht : cfg.disableTranscripts = true)
    (hs : cfg.strategy = .replace) (hne : fs ≠ []) (hK : KeyedBy cfg key fs) :
    ∃ s', update s cfg fs = .ok s' ∧ s'.auto = s.auto ∧
      s'.db.features =
        (s.db.features ++ (firstsBy key (idsOf s.db) fs).map (rowBy key)).map (replacedBy id key fs) ∧
      (∀ r, r ∈ s'.db.relations ↔ r ∈ s.db.relations ∨ ∃ f ∈ fs, r ∈ gtfLinks cfg f (key f)) ∧
      s'.db.duplicates = s.db.duplicates := by
  obtain ⟨db', h1, h2, h3, h4⟩ := replace_keeps_last_seq_gtf cfg key fs s.db s.auto hs hne hK
  rw [update_gtf_noinfer s cfg fs hne hfmt hg ht, h1]
  exact ⟨_, rfl, rfl, h2, h3, h4.2.2.2⟩

/-- **4. `create_unique` through `update`** -/
theorem update_create_unique_gtf (s : Session) (cfg : Cfg) (key : Feature → Str) (fs : List Feature)
    (hfmt : s.dialect.fmt = Parser.gtf) (hg : cfg.disableGenes = true) (ht : cfg.disableTranscripts = true)
    (hs : cfg.strategy = .createUnique) (hne : fs ≠ []) (hK : KeyedBy cfg key fs)
    (hF : FreshBy key (idsOf s.db) s.auto fs) :
    ∃ s', update s cfg fs = .ok s' ∧
      s'.db.features = s.db.features ++
        (placementsBy key (idsOf s.db) s.auto [] fs).map (fun p => storedRow p.1 p.2) ∧
      (∀ r, r ∈ s'.db.relations ↔
        r ∈ s.db.relations ∨ ∃ p ∈ placementsBy key (idsOf s.db) s.auto [] fs, r ∈ gtfLinks cfg p.1 p.2) ∧
      (∀ k, (s'.auto.get? k).getD 0 = (s.auto.get? k).getD 0 + (priorCountBy key (idsOf s.db) fs k - 1)) ∧
      s'.db.duplicates = s.db.duplicates := by
  obtain ⟨db', auto', h1, h2, h3, h4, h5⟩ := create_unique_all_seq_gtf_rows cfg key fs s.db s.auto hs hne hK hF
  rw [update_gtf_noinfer s cfg fs hne hfmt hg ht, h1]
  exact ⟨_, rfl, h2, h3, h4, h5.2.2.2⟩

/-- **5. `merge` through `update`**: on a session whose tables an earlier `merge` import of `pre` left (same
configuration), updating with `post` leaves the grouping specification for `pre ++ post` -/
theorem update_merge_gtf (s : Session) (cfg : Cfg) (key : Feature → Str) (db0 : Db) (pre post : List Feature)
    (hfmt : s.dialect.fmt = Parser.gtf) (hg : cfg.disableGenes = true) (ht : cfg.disableTranscripts = true)
    (hs : cfg.strategy = .merge) (hne : post ≠ []) (hK : KeyedBy cfg key post)
    (hdom : MergeDomainBy id key (pre ++ post)) (inv : GtfMergeInv cfg key db0 pre s.db s.auto) :
    ∃ s', update s cfg post = .ok s' ∧
      s'.db.features = mergeRowsBy id key cfg.forceMergeFields (pre ++ post) ∧
      s'.db.duplicates = mergeDupsBy id key cfg.forceMergeFields (pre ++ post) ∧
      (∀ r, r ∈ s'.db.relations ↔
        r ∈ db0.relations ∨ r ∈ mergeLinksBy id key (gtfLinks cfg) cfg.forceMergeFields (pre ++ post)) ∧
      (∀ k, (s'.auto.get? k).getD 0 =
        cntKeyBy key k (groupRepsBy id key cfg.forceMergeFields (pre ++ post)) - 1) := by
  obtain ⟨db', auto', h1, inv'⟩ := merge_seq_from_gtf cfg key db0 pre post s.db s.auto hs hne hK hdom inv
  rw [update_gtf_noinfer s cfg post hne hfmt hg ht, h1]
  exact ⟨_, rfl, inv'.feats, inv'.dups, inv'.rels, inv'.cnt⟩

/-! ## §8 Arbitrary `id_spec`: `error`, `warning`, `replace` along the key trace

Under these three strategies filing never touches the id counters, so the keys of a whole import are determined by
`id_spec` alone: `keyTrace` threads the counters through `_id_handler` (autoincrement for featuretypes without an
entry in a dict `id_spec`, callables, `autoincrement:` prefixes, …).  The three theorems then hold for EVERY
`id_spec`, over the keyed arrivals `(f, k)`; e.g. the default GTF `id_spec` on a file with explicit transcript
lines (keyed by `transcript_id`) and exon lines (`exon_1`, `exon_2`, …).  (`create_unique` and `merge` advance the
counter of a colliding key themselves; they are stated for `KeyedBy` inputs, §5–§6.) -/

/-- the keys `id_spec` assigns along an import, and the counters afterwards -/
def keyTrace (spec : IdSpec) : Dict Nat → List Feature → Py (List (Feature × Str) × Dict Nat)
  | auto, [] => .ok ([], auto)
  | auto, f :: fs =>
    match idHandler spec auto f with
    | .error e => .error e
    | .ok (k, auto1) =>
      match keyTrace spec auto1 fs with
      | .error e => .error e
      | .ok (kfs, auto') => .ok ((f, k) :: kfs, auto')

/-- on a `KeyedBy` input the trace is `key` and the counters do not move: §8 generalises §2–§4 -/
theorem keyTrace_keyedBy (cfg : Cfg) (key : Feature → Str) (fs : List Feature) (auto : Dict Nat)
    (hK : KeyedBy cfg key fs) : keyTrace cfg.idSpec auto fs = .ok (fs.map (fun f => (f, key f)), auto) := by
  induction fs with
  | nil => rfl
  | cons f fs ih =>
    simp only [keyTrace, hK f (by simp) auto, ih (hK.sub (fun x hx => List.mem_cons_of_mem _ hx)), List.map_cons]

theorem keyTrace_fst (spec : IdSpec) : ∀ (fs : List Feature) (auto : Dict Nat) (kfs : List (Feature × Str))
    (auto' : Dict Nat), keyTrace spec auto fs = .ok (kfs, auto') → kfs.map (·.1) = fs := by
  intro fs
  induction fs with
  | nil => intro auto kfs auto' h; simp only [keyTrace, Except.ok.injEq, Prod.mk.injEq] at h; rw [← h.1]; rfl
  | cons f fs ih =>
    intro auto kfs auto' h
    simp only [keyTrace] at h
    split at h
    · cases h
    · rename_i k auto1 _
      split at h
      · cases h
      · rename_i kfs' auto'' hrest
        simp only [Except.ok.injEq, Prod.mk.injEq] at h
        rw [← h.1, List.map_cons, ih auto1 kfs' auto'' hrest]

/-- the importer over keyed arrivals `(f, k)`: the decision table on `(f, k)`, then the GTF links of `f` -/
def pairImp (cfg : Cfg) : Imp (Feature × Str) where
  cfg := cfg
  feat := Prod.fst
  key := Prod.snd
  link := fun p fid => gtfLinks cfg p.1 fid
  attach := fun db filed p => attachGtf cfg db filed p.1
  step := fun st p =>
    match fileSpec cfg st.1 st.2 p.1 p.2 with
    | .error e => .error e
    | .ok (db1, auto2, filed) => .ok (attachGtf cfg db1 filed p.1, auto2)
  attach_none := fun _ _ => rfl
  attach_same := fun db filed p => attachGtf_same cfg db filed p.1
  attach_mem := fun db fid p r => by
    rw [mem_attachGtf, mem_gtfLinks]
    simp

theorem pairImp_table (cfg : Cfg) (kfs : List (Feature × Str)) : (pairImp cfg).Table kfs :=
  fun _ _ _ _ => rfl

/-- under `error` / `warning` / `replace` the decision table neither reads nor writes the counters -/
theorem fileSpec_counters (cfg : Cfg)
    (hs : cfg.strategy = .error ∨ cfg.strategy = .warning ∨ cfg.strategy = .replace)
    (db : Db) (a b : Dict Nat) (f : Feature) (k : Str) :
    fileSpec cfg db a f k =
      match fileSpec cfg db b f k with
      | .error e => .error e
      | .ok (d, _, fl) => .ok (d, a, fl) := by
  unfold fileSpec
  by_cases hc : db.hasId k = false
  · rw [if_pos hc, if_pos hc]
  · rw [if_neg hc, if_neg hc]
    rcases hs with h | h | h <;> rw [h]

/-- the GTF importer and the importer over the keyed arrivals run in lock step -/
theorem trace_sim (cfg : Cfg) (hs : cfg.strategy = .error ∨ cfg.strategy = .warning ∨ cfg.strategy = .replace) :
    ∀ (fs : List Feature) (auto : Dict Nat) (kfs : List (Feature × Str)) (auto' : Dict Nat) (db : Db) (X : Dict Nat),
      keyTrace cfg.idSpec auto fs = .ok (kfs, auto') →
      fs.foldlM (gtfStep cfg) (db, auto) =
        match kfs.foldlM (pairImp cfg).step (db, X) with
        | .error e => .error e
        | .ok (d, _) => .ok (d, auto') := by
  intro fs
  induction fs with
  | nil =>
    intro auto kfs auto' db X h
    simp only [keyTrace, Except.ok.injEq, Prod.mk.injEq] at h
    obtain ⟨rfl, rfl⟩ := h
    rfl
  | cons f fs ih =>
    intro auto kfs auto' db X h
    simp only [keyTrace] at h
    split at h
    · cases h
    · rename_i k auto1 hid
      split at h
      · cases h
      · rename_i kfs' auto'' hrest
        simp only [Except.ok.injEq, Prod.mk.injEq] at h
        obtain ⟨rfl, rfl⟩ := h
        have hg := gtfStep_table cfg db auto auto1 f k hid
        rw [fileSpec_counters cfg hs db auto1 X f k] at hg
        have hp : (pairImp cfg).step (db, X) (f, k) =
            match fileSpec cfg db X f k with
            | .error e => .error e
            | .ok (db1, auto2, filed) => .ok (attachGtf cfg db1 filed f, auto2) := rfl
        cases hfs : fileSpec cfg db X f k with
        | error e =>
          rw [hfs] at hg hp
          rw [foldlM_cons_error _ _ _ _ _ hg, foldlM_cons_error _ _ _ _ _ hp]
        | ok r =>
          obtain ⟨d, X2, fl⟩ := r
          rw [hfs] at hg hp
          rw [foldlM_cons_ok _ _ _ _ _ hg, foldlM_cons_ok _ _ _ _ _ hp]
          exact ih auto1 kfs' auto'' _ X2 hrest

/-- **2. `warning`, whole GTF import, any `id_spec`**: with `kfs` the keyed arrivals, the rows are the old rows
followed by the first arrival of each new key; the relations are the old ones plus the links of exactly those; the
counters are those `id_spec` alone produces (ignored arrivals included — an ignored line still advances an
autoincrement counter, as in the real code). -/
theorem warning_keeps_first_trace_gtf (cfg : Cfg) (fs : List Feature) (db : Db) (auto auto' : Dict Nat)
    (kfs : List (Feature × Str)) (hs : cfg.strategy = .warning) (hne : fs ≠ [])
    (hT : keyTrace cfg.idSpec auto fs = .ok (kfs, auto')) :
    ∃ db', populateGtf cfg db auto fs = .ok (db', auto') ∧
      db'.features = db.features ++ (firstsBy Prod.snd (idsOf db) kfs).map (fun p => storedRow p.1 p.2) ∧
      (∀ r, r ∈ db'.relations ↔
        r ∈ db.relations ∨ ∃ p ∈ firstsBy Prod.snd (idsOf db) kfs, r ∈ gtfLinks cfg p.1 p.2) ∧
      SameOther db db' := by
  obtain ⟨db', h1, h2, h3, h4⟩ := (pairImp cfg).warning_fold hs kfs db auto (pairImp_table cfg kfs)
  refine ⟨db', ?_, h2, h3, h4⟩
  rw [populateGtf_fold _ _ _ _ hne, trace_sim cfg (Or.inr (Or.inl hs)) fs auto kfs auto' db auto hT, h1]

/-- **3. `replace`, whole GTF import, any `id_spec`** -/
theorem replace_keeps_last_trace_gtf (cfg : Cfg) (fs : List Feature) (db : Db) (auto auto' : Dict Nat)
    (kfs : List (Feature × Str)) (hs : cfg.strategy = .replace) (hne : fs ≠ [])
    (hT : keyTrace cfg.idSpec auto fs = .ok (kfs, auto')) :
    ∃ db', populateGtf cfg db auto fs = .ok (db', auto') ∧
      db'.features = (db.features ++ (firstsBy Prod.snd (idsOf db) kfs).map (fun p => storedRow p.1 p.2)).map
        (replacedBy Prod.fst Prod.snd kfs) ∧
      (∀ r, r ∈ db'.relations ↔ r ∈ db.relations ∨ ∃ p ∈ kfs, r ∈ gtfLinks cfg p.1 p.2) ∧
      SameOther db db' := by
  obtain ⟨db', h1, h2, h3, h4⟩ := (pairImp cfg).replace_fold hs kfs db auto (pairImp_table cfg kfs)
  refine ⟨db', ?_, h2, h3, h4⟩
  rw [populateGtf_fold _ _ _ _ hne, trace_sim cfg (Or.inr (Or.inr hs)) fs auto kfs auto' db auto hT, h1]

/-- **1. `error`, whole GTF import, any `id_spec`**: `kpre` = the keyed arrivals before the first arrival `f` whose
key `k` is already held; the import of the prefix succeeds and stores exactly `kpre`, the import as a whole fails
with `ValueError` whatever follows. -/
theorem error_aborts_trace_gtf (cfg : Cfg) (pre : List Feature) (f : Feature) (post : List Feature) (db : Db)
    (auto auto1 auto2 : Dict Nat) (kpre : List (Feature × Str)) (k : Str) (hs : cfg.strategy = .error)
    (hT : keyTrace cfg.idSpec auto pre = .ok (kpre, auto1)) (hid : idHandler cfg.idSpec auto1 f = .ok (k, auto2))
    (hnd : (idsOf db ++ kpre.map Prod.snd).Nodup) (hc : k ∈ idsOf db ++ kpre.map Prod.snd) :
    populateGtf cfg db auto (pre ++ f :: post) = .error .value ∧
    ∃ db1, pre.foldlM (gtfStep cfg) (db, auto) = .ok (db1, auto1) ∧
      db1.features = db.features ++ kpre.map (fun p => storedRow p.1 p.2) ∧
      (∀ r, r ∈ db1.relations ↔ r ∈ db.relations ∨ ∃ p ∈ kpre, r ∈ gtfLinks cfg p.1 p.2) ∧
      SameOther db db1 ∧
      gtfStep cfg (db1, auto1) f = .error .value := by
  obtain ⟨db1, h1, h2, h3, h4⟩ := (pairImp cfg).no_collision_fold kpre db auto (pairImp_table cfg kpre) hnd
  have hpre : pre.foldlM (gtfStep cfg) (db, auto) = .ok (db1, auto1) := by
    rw [trace_sim cfg (Or.inl hs) pre auto kpre auto1 db auto hT, h1]
  have hmem : db1.hasId k = true := by
    rw [hasId_iff]
    have : db1.features.map (·.id) = idsOf db ++ kpre.map Prod.snd := by
      rw [h2]; simp only [idsOf, List.map_append, List.map_map]; rfl
    rw [this]; exact hc
  have hstep : gtfStep cfg (db1, auto1) f = .error .value :=
    (error_aborts_step cfg db1 auto1 auto2 f k hs hid hmem).2
  refine ⟨?_, db1, hpre, h2, h3, h4, hstep⟩
  rw [populateGtf_fold _ _ _ _ (by simp)]
  exact foldlM_append_error _ pre post f _ _ _ hpre hstep

/-! ## §8b The GFF3 theorems of C05 / C05b are the instance `key = keyOf`, `link = linksOf`

(sanity of the factoring: the abstract importer specialises to the GFF3 importer with the default `id_spec`, and the
generic theorems give back the statements of C05 §4 / C05b §3 word for word) -/

/-- `_GFFDBCreator._populate_from_lines` with the default `id_spec`, as an abstract importer -/
def gffImp (cfg : Cfg) : Imp Feature where
  cfg := cfg
  feat := id
  key := keyOf
  link := linksOf
  attach := attachParents
  step := gffStep cfg
  attach_none := fun _ _ => rfl
  attach_same := attachParents_same
  attach_mem := fun db fid f r => by
    rw [mem_attachParents, mem_linksOf]
    simp

theorem gffImp_table (cfg : Cfg) (fs : List Feature) (hspec : cfg.idSpec = defaultGffSpec) (hK : Keyed fs) :
    (gffImp cfg).Table fs := by
  intro f hf db auto
  obtain ⟨k, hk⟩ := hK f hf
  have hid : idHandler cfg.idSpec auto f = .ok (keyOf f, auto) := by
    rw [hspec, keyOf_eq hk]; exact C02.idHandler_default auto f k hk
  exact gffStep_table cfg db auto auto f (keyOf f) hid

/-- C05 `warning_keeps_first_seq`, re-derived from the generic theorem -/
example (d : Dialect) (fs : List Feature) (db : Db) (auto : Dict Nat) (hne : fs ≠ []) (hK : Keyed fs) :
    ∃ db', populateGff (gffCfg .warning d) db auto fs = .ok (db', auto) ∧
      db'.features = db.features ++ (firstArrivals (idsOf db) fs).map rowOf ∧
      (∀ r, r ∈ db'.relations ↔
        r ∈ db.relations ∨ ∃ f ∈ firstArrivals (idsOf db) fs, r ∈ linksOf f (keyOf f)) ∧
      SameOther db db' := by
  rw [populateGff_ne _ _ _ _ hne, firstArrivals_keyOf]
  exact (gffImp (gffCfg .warning d)).warning_fold rfl fs db auto (gffImp_table _ fs rfl hK)

/-- C05b `merge_exact_seq`, re-derived from the generic theorem -/
example (d : Dialect) (fmf : List Str) (db0 : Db) (fs : List Feature) (hne : fs ≠ [])
    (hdom : MergeDomain fs) (h0 : db0.features = [] ∧ db0.duplicates = []) :
    ∃ db auto, populateGff (mergeCfg d fmf) db0 [] fs = .ok (db, auto) ∧
      db.features = mergeRows fmf fs ∧ db.duplicates = mergeDups fmf fs ∧
      (∀ r, r ∈ db.relations ↔ r ∈ db0.relations ∨ r ∈ mergeLinks fmf fs) := by
  obtain ⟨hK, hd⟩ := (MergeDomain_keyOf fs).mp hdom
  obtain ⟨db, auto, h1, inv⟩ := merge_foldBy (I := gffImp (mergeCfg d fmf)) rfl db0 fs [] db0 []
    (gffImp_table _ fs rfl hK) (by rw [List.nil_append]; exact hd) (mergeInvBy_nil _ db0 h0.1 h0.2)
  rw [List.nil_append] at inv
  refine ⟨db, auto, by rw [populateGff_ne _ _ _ _ hne]; exact h1, ?_, ?_, ?_⟩
  · rw [mergeRows_keyOf]; exact inv.feats
  · rw [mergeDups_keyOf]; exact inv.dups
  · intro r; rw [mergeLinks_keyOf]; exact inv.rels r

/-! ## §9 Non-vacuity: the hypotheses are met by concrete GTF inputs, and the model computes what the theorems say

The inputs are those replayed on the real code (`create_db(text, ':memory:', from_string=True, id_spec='eid',
merge_strategy=…, disable_infer_genes=True, disable_infer_transcripts=True)`): the tables below are the ones
sqlite holds afterwards. -/

section Examples

private def s (x : String) : Str := x.toList

/-- the GTF line `chr1 <src> <ft> <st> <en> . . . eid "<eid>"; gene_id "<g>"; transcript_id "<t>";` -/
private def ln (ft eid g t src : String) (st en : Int) : Feature :=
  { seqid := s "chr1", source := s src, ftype := s ft, start := some st, stop := some en,
    attrs := [(s "eid", [s eid]), (s "gene_id", [s g]), (s "transcript_id", [s t])] }

/-- five arrivals: key `k0` three times (other source / other featuretype, start and transcript), `k1` twice -/
private def x0 : Feature := ln "exon" "k0" "G" "T" "A" 1 10
private def x1 : Feature := ln "exon" "k1" "G" "T" "A" 20 30
private def x2 : Feature := ln "exon" "k0" "G2" "T2" "B" 1 10
private def x3 : Feature := ln "CDS" "k0" "G" "T3" "A" 5 10
private def x4 : Feature := ln "exon" "k1" "G" "T" "C" 20 30
private def inp : List Feature := [x0, x1, x2, x3, x4]

private def cfgE (st : Strategy) (fmf : List String := []) : Cfg :=
  { idSpec := .keys [.attr (s "eid")], strategy := st, forceMergeFields := fmf.map s,
    disableGenes := true, disableTranscripts := true }

private abbrev ek : Feature → Str := attrKey (s "eid")

private theorem keyed_of (st : Strategy) (fmf : List String) (fs : List Feature)
    (h : ∀ f ∈ fs, f.attrs.get? (s "eid") = some [ek f]) : KeyedBy (cfgE st fmf) ek fs :=
  keyedBy_attr _ (s "eid") fs rfl (by decide) (fun f hf => ⟨ek f, h f hf⟩)

private theorem inp_keyed (st : Strategy) (fmf : List String := []) : KeyedBy (cfgE st fmf) ek inp :=
  keyed_of st fmf inp (by decide +kernel)

private theorem inp_ne : inp ≠ [] := by simp [inp]

/-- what we look at: (id, source, start) per row, the relations, `duplicates`, the counters -/
private structure View where
  rows : List (Str × Str × Option Int)
  rels : List Rel
  dups : List (Str × Str)
  counters : List (Str × Nat)
  deriving DecidableEq

private def view (r : Py (Db × Dict Nat)) : Option View :=
  match r with
  | .ok (db, auto) => some ⟨db.features.map (fun r => (r.id, r.source, r.start)), db.relations, db.duplicates, auto⟩
  | .error _ => none

private def rel (p c : String) (l : Int) : Rel := ⟨s p, s c, l⟩

/-- the GTF link rule on an ordinary line, on a renamed one, and on explicit transcript / gene lines -/
example : gtfLinks (cfgE .warning) x0 (s "k0") = [rel "T" "k0" 1, rel "G" "k0" 2, rel "G" "T" 1] := by decide +kernel
example : gtfLinks (cfgE .warning) x3 (s "k0_2") = [rel "T3" "k0_2" 1, rel "G" "k0_2" 2, rel "G" "T3" 1] := by
  decide +kernel
example : gtfLinks (cfgE .warning) x0 (s "T") = [rel "G" "T" 1] := by decide +kernel
example : gtfLinks (cfgE .warning) x0 (s "G") = [rel "T" "G" 1, rel "G" "T" 1] := by decide +kernel

/-- `error`: `x2` is the first arrival whose key (`k0`) is held; the prefix `[x0, x1]` is imported, then `ValueError` -/
example : populateGtf (cfgE .error) {} [] inp = .error .value ∧
    ∃ db1, [x0, x1].foldlM (gtfStep (cfgE .error)) ({}, []) = .ok (db1, []) ∧
      db1.features = [rowBy ek x0, rowBy ek x1] := by
  obtain ⟨h1, db1, h2, h3, _⟩ := error_aborts_seq_gtf (cfgE .error) ek [x0, x1] x2 [x3, x4] {} [] rfl
    (keyed_of .error [] _ (by decide +kernel)) (by decide +kernel) (by decide +kernel)
  exact ⟨h1, db1, h2, by simpa using h3⟩

/-- … and through `error_exact_gtf` (some key is held twice) -/
example : populateGtf (cfgE .error) {} [] inp = .error .value :=
  (error_exact_gtf (cfgE .error) ek inp {} [] rfl inp_ne (inp_keyed .error) (by simp [IdsNodup])).1
    (by decide +kernel)

/-- `warning`: first arrival per key, links of exactly those -/
example : ∃ db', populateGtf (cfgE .warning) {} [] inp = .ok (db', []) ∧
    db'.features = [rowBy ek x0, rowBy ek x1] ∧
    (∀ r, r ∈ db'.relations ↔ r ∈ [rel "T" "k0" 1, rel "G" "k0" 2, rel "G" "T" 1, rel "T" "k1" 1, rel "G" "k1" 2]) := by
  obtain ⟨db', h1, h2, h3, _⟩ := warning_keeps_first_seq_gtf (cfgE .warning) ek inp {} [] rfl inp_ne (inp_keyed .warning)
  have hfa : firstsBy ek (idsOf {}) inp = [x0, x1] := rfl
  refine ⟨db', h1, by rw [h2, hfa]; rfl, fun r => ?_⟩
  rw [h3, hfa]
  have l0 : gtfLinks (cfgE .warning) x0 (ek x0) = [rel "T" "k0" 1, rel "G" "k0" 2, rel "G" "T" 1] := by decide +kernel
  have l1 : gtfLinks (cfgE .warning) x1 (ek x1) = [rel "T" "k1" 1, rel "G" "k1" 2, rel "G" "T" 1] := by decide +kernel
  simp only [List.mem_cons, List.not_mem_nil, or_false, exists_eq_or_imp, exists_eq_left, l0, l1,
    false_or]
  constructor
  · rintro ((h | h | h) | (h | h | h)) <;> simp [h]
  · rintro (h | h | h | h | h) <;> simp [h]

example : view (populateGtf (cfgE .warning) {} [] inp) =
    some ⟨[(s "k0", s "A", some 1), (s "k1", s "A", some 20)],
          [rel "T" "k0" 1, rel "G" "k0" 2, rel "G" "T" 1, rel "T" "k1" 1, rel "G" "k1" 2], [], []⟩ := by decide +kernel

/-- `replace`: rows at the place of the first arrival, content of the last (`x3` for `k0`, `x4` for `k1`); the links
of the overwritten `x0`, `x2` stay attached to `k0` (D12b) -/
example : ((([] : List Row) ++ (firstsBy ek [] inp).map (rowBy ek)).map (replacedBy id ek inp)) =
    [storedRow x3 (s "k0"), storedRow x4 (s "k1")] := by decide +kernel

example : ∃ db', populateGtf (cfgE .replace) {} [] inp = .ok (db', []) ∧
    db'.features = [storedRow x3 (s "k0"), storedRow x4 (s "k1")] ∧
    rel "T2" "k0" 1 ∈ db'.relations ∧ rel "G2" "k0" 2 ∈ db'.relations := by
  obtain ⟨db', h1, h2, h3, _⟩ := replace_keeps_last_seq_gtf (cfgE .replace) ek inp {} [] rfl inp_ne (inp_keyed .replace)
  refine ⟨db', h1, by rw [h2]; decide +kernel, ?_, ?_⟩
  · rw [h3]; exact Or.inr ⟨x2, by simp [inp], by decide +kernel⟩
  · rw [h3]; exact Or.inr ⟨x2, by simp [inp], by decide +kernel⟩

example : view (populateGtf (cfgE .replace) {} [] inp) =
    some ⟨[(s "k0", s "A", some 5), (s "k1", s "C", some 20)],
          [rel "T" "k0" 1, rel "G" "k0" 2, rel "G" "T" 1, rel "T" "k1" 1, rel "G" "k1" 2, rel "T2" "k0" 1,
           rel "G2" "k0" 2, rel "G2" "T2" 1, rel "T3" "k0" 1, rel "G" "T3" 1], [], []⟩ := by decide +kernel

/-- `create_unique`: `FreshBy` holds (no underscore in any key); `x3`, the second later arrival of `k0`, sits at
position 3 under `k0_2` with its links attached to `k0_2` -/
private theorem inp_fresh : FreshBy ek (idsOf {}) [] inp :=
  freshBy_of_no_underscore ek _ _ _ (by simp [idsOf]) (by decide +kernel)

example : ∃ db' auto', populateGtf (cfgE .createUnique) {} [] inp = .ok (db', auto') ∧
    db'.features[3]? = some (storedRow x3 (s "k0_2")) ∧ rel "T3" "k0_2" 1 ∈ db'.relations ∧
    (auto'.get? (s "k0")).getD 0 = 2 := by
  obtain ⟨db', auto', h1, _, _, h4, h5, h6, _⟩ :=
    create_unique_all_seq_gtf (cfgE .createUnique) ek inp {} [] rfl inp_ne (inp_keyed .createUnique) inp_fresh
  refine ⟨db', auto', h1, ?_, ?_, ?_⟩
  · have := h4 3 (by decide)
    simp only [show (({} : Db).features.length) = 0 from rfl, Nat.zero_add] at this
    rw [this]
    exact congrArg some (by decide +kernel)
  · rw [h5]
    exact Or.inr ⟨3, by decide, by decide +kernel⟩
  · rw [h6]; decide +kernel

example : view (populateGtf (cfgE .createUnique) {} [] inp) =
    some ⟨[(s "k0", s "A", some 1), (s "k1", s "A", some 20), (s "k0_1", s "B", some 1), (s "k0_2", s "A", some 5),
           (s "k1_1", s "C", some 20)],
          [rel "T" "k0" 1, rel "G" "k0" 2, rel "G" "T" 1, rel "T" "k1" 1, rel "G" "k1" 2,
           rel "T2" "k0_1" 1, rel "G2" "k0_1" 2, rel "G2" "T2" 1,
           rel "T3" "k0_2" 1, rel "G" "k0_2" 2, rel "G" "T3" 1, rel "T" "k1_1" 1, rel "G" "k1_1" 2],
          [], [(s "k0", 2), (s "k1", 1)]⟩ := by decide +kernel

/-- `merge` with `source` exempt: `MergeDomainBy` holds; groups `{x0, x2}` under `k0`, `{x1, x4}` under `k1`, `{x3}`
under `k0_1`; the links of `x2` go to `k0`, those of `x3` to `k0_1` -/
private theorem inp_dom : MergeDomainBy id ek inp :=
  ⟨freshBy_of_no_underscore ek _ _ _ (by simp) (by decide +kernel), by decide +kernel⟩

example : groupRepsBy id ek [s "source"] inp = [x0, x1, x3] := rfl
example : groupOfBy id ek [s "source"] inp x0 = [x0, x2] ∧ groupOfBy id ek [s "source"] inp x1 = [x1, x4] :=
  ⟨rfl, rfl⟩

example : ∃ db auto, populateGtf (cfgE .merge ["source"]) {} [] inp = .ok (db, auto) ∧
    db.features.map (·.id) = [s "k0", s "k1", s "k0_1"] ∧ db.duplicates = [(s "k0", s "k0_1")] ∧
    (auto.get? (s "k0")).getD 0 = 1 ∧ rel "T2" "k0" 1 ∈ db.relations ∧ rel "T3" "k0_1" 1 ∈ db.relations := by
  obtain ⟨db, auto, h1, h2, h3, h4, h5, _⟩ :=
    merge_exact_seq_gtf (cfgE .merge ["source"]) ek {} inp rfl inp_ne (inp_keyed .merge ["source"]) inp_dom ⟨rfl, rfl⟩
  refine ⟨db, auto, h1, ?_, ?_, ?_, ?_, ?_⟩
  · rw [h2]; decide +kernel
  · rw [h3]; decide +kernel
  · rw [h5]; decide +kernel
  · rw [h4]; exact Or.inr (by decide +kernel)
  · rw [h4]; exact Or.inr (by decide +kernel)

/-- `merge`, nothing exempt, evaluated on the model (`x5` agrees with `x1` on every column: merged into `k1`, its
links — another transcript — are attached to `k1`; `x2` differs in `source`: `k0_1`) -/
private def x5 : Feature := ln "exon" "k1" "G" "T9" "A" 20 30

example : view (populateGtf (cfgE .merge) {} [] [x0, x1, x2, x5]) =
    some ⟨[(s "k0", s "A", some 1), (s "k1", s "A", some 20), (s "k0_1", s "B", some 1)],
          [rel "T" "k0" 1, rel "G" "k0" 2, rel "G" "T" 1, rel "T" "k1" 1, rel "G" "k1" 2,
           rel "T2" "k0_1" 1, rel "G2" "k0_1" 2, rel "G2" "T2" 1, rel "T9" "k1" 1, rel "G" "T9" 1],
          [(s "k0", s "k0_1")], [(s "k0", 1)]⟩ := by decide +kernel

/-- `merge_seq_from_gtf`: importing `[x0, x1, x2]`, then `[x3, x4]` into the state that left (an `update`) -/
example : ∃ db auto db' auto', populateGtf (cfgE .merge ["source"]) {} [] [x0, x1, x2] = .ok (db, auto) ∧
    populateGtf (cfgE .merge ["source"]) db auto [x3, x4] = .ok (db', auto') ∧
    db'.features = mergeRowsBy id ek [s "source"] inp := by
  have hd : MergeDomainBy id ek ([] ++ [x0, x1, x2]) :=
    inp_dom.sub (fun x hx => by simp [inp] at hx ⊢; rcases hx with h | h | h <;> simp [h])
  obtain ⟨db, auto, h1, inv⟩ := merge_seq_from_gtf (cfgE .merge ["source"]) ek {} [] [x0, x1, x2] {} [] rfl (by simp)
    (keyed_of .merge ["source"] _ (by decide +kernel)) hd (gtfMergeInv_nil _ _ {} rfl rfl)
  rw [List.nil_append] at inv
  obtain ⟨db', auto', h2, inv'⟩ := merge_seq_from_gtf (cfgE .merge ["source"]) ek {} [x0, x1, x2] [x3, x4] db auto rfl
    (by simp) (keyed_of .merge ["source"] _ (by decide +kernel)) inp_dom inv
  exact ⟨db, auto, db', auto', h1, h2, inv'.feats⟩

/-! ### the default GTF `id_spec`: explicit gene / transcript lines collide -/

private def gl (src : String) (en : Int) : Feature :=
  { seqid := s "chr1", source := s src, ftype := s "gene", start := some 1, stop := some en,
    attrs := [(s "gene_id", [s "G"])] }
private def tl (src : String) (st en : Int) : Feature :=
  { seqid := s "chr1", source := s src, ftype := s "transcript", start := some st, stop := some en,
    attrs := [(s "gene_id", [s "G"]), (s "transcript_id", [s "T"])] }
private def el (st en : Int) : Feature :=
  { seqid := s "chr1", source := s "A", ftype := s "exon", start := some st, stop := some en,
    attrs := [(s "gene_id", [s "G"]), (s "transcript_id", [s "T"])] }

private def cfgD (st : Strategy) : Cfg :=
  { idSpec := defaultGtfSpec, strategy := st, disableGenes := true, disableTranscripts := true }

private def inpD : List Feature := [gl "A" 100, tl "A" 1 50, tl "B" 2 60, gl "B" 200]

private theorem inpD_keyed (st : Strategy) : KeyedBy (cfgD st) gtfDefaultKey inpD :=
  keyedBy_default _ inpD rfl (by
    intro f hf
    simp only [inpD, List.mem_cons, List.not_mem_nil, or_false] at hf
    rcases hf with rfl | rfl | rfl | rfl
    · exact Or.inl ⟨rfl, s "G", rfl⟩
    · exact Or.inr ⟨rfl, s "T", rfl⟩
    · exact Or.inr ⟨rfl, s "T", rfl⟩
    · exact Or.inl ⟨rfl, s "G", rfl⟩)

/-- `warning` keeps the first `G` and the first `T`; the only relation is `(G, T, 1)` (explicit lines are not their
own relatives) -/
example : ∃ db', populateGtf (cfgD .warning) {} [] inpD = .ok (db', []) ∧
    db'.features = [rowBy gtfDefaultKey (gl "A" 100), rowBy gtfDefaultKey (tl "A" 1 50)] := by
  obtain ⟨db', h1, h2, _⟩ := warning_keeps_first_seq_gtf (cfgD .warning) gtfDefaultKey inpD {} [] rfl (by simp [inpD])
    (inpD_keyed .warning)
  exact ⟨db', h1, by rw [h2]; decide +kernel⟩

example : view (populateGtf (cfgD .warning) {} [] inpD) =
    some ⟨[(s "G", s "A", some 1), (s "T", s "A", some 1)], [rel "G" "T" 1], [], []⟩ := by decide +kernel

/-- `create_unique` (observation, same on the real code): the second transcript line is filed under `T_1`, so the
guard "not its own child" compares `T` with `T_1` and the copy becomes a level-1 CHILD of `T` and a level-2 child of
`G`; the second gene line `G_1` becomes a level-2 child of `G` — exactly `gtfLinks … (tl "B" 2 60) "T_1"` and
`gtfLinks … (gl "B" 200) "G_1"` of `create_unique_all_seq_gtf`. -/
example : gtfLinks (cfgD .createUnique) (tl "B" 2 60) (s "T_1") = [rel "T" "T_1" 1, rel "G" "T_1" 2, rel "G" "T" 1] := by
  decide +kernel
example : gtfLinks (cfgD .createUnique) (gl "B" 200) (s "G_1") = [rel "G" "G_1" 2] := by decide +kernel

example : view (populateGtf (cfgD .createUnique) {} [] inpD) =
    some ⟨[(s "G", s "A", some 1), (s "T", s "A", some 1), (s "T_1", s "B", some 2), (s "G_1", s "B", some 1)],
          [rel "G" "T" 1, rel "T" "T_1" 1, rel "G" "T_1" 2, rel "G" "G_1" 2], [], [(s "T", 1), (s "G", 1)]⟩ := by
  decide +kernel

/-! ### arbitrary `id_spec` (§8): the default GTF `id_spec` with autoincremented exon lines -/

private def inpT : List Feature := [tl "A" 1 50, el 1 10, tl "B" 2 60, el 20 30]

example : keyTrace defaultGtfSpec [] inpT =
    .ok ([(tl "A" 1 50, s "T"), (el 1 10, s "exon_1"), (tl "B" 2 60, s "T"), (el 20 30, s "exon_2")],
         [(s "exon", 2)]) := rfl

/-- `replace` with the default `id_spec`: the row `T` holds the second transcript line; the exons are `exon_1`,
`exon_2`; the counter of `exon` is 2 -/
example : ∃ db', populateGtf (cfgD .replace) {} [] inpT = .ok (db', [(s "exon", 2)]) ∧
    db'.features = [storedRow (tl "B" 2 60) (s "T"), storedRow (el 1 10) (s "exon_1"), storedRow (el 20 30) (s "exon_2")] := by
  obtain ⟨db', h1, h2, _⟩ := replace_keeps_last_trace_gtf (cfgD .replace) inpT {} [] [(s "exon", 2)] _ rfl
    (by simp [inpT]) (rfl :
      keyTrace (cfgD .replace).idSpec [] inpT =
        .ok ([(tl "A" 1 50, s "T"), (el 1 10, s "exon_1"), (tl "B" 2 60, s "T"), (el 20 30, s "exon_2")],
             [(s "exon", 2)]))
  exact ⟨db', h1, by rw [h2]; decide +kernel⟩

/-- `error` with the default `id_spec`: the second transcript line aborts the import -/
example : populateGtf (cfgD .error) {} [] inpT = .error .value :=
  (error_aborts_trace_gtf (cfgD .error) [tl "A" 1 50, el 1 10] (tl "B" 2 60) [el 20 30] {} [] [(s "exon", 1)]
    [(s "exon", 1)] [(tl "A" 1 50, s "T"), (el 1 10, s "exon_1")] (s "T") rfl rfl rfl
    (by decide +kernel) (by decide +kernel)).1

/-! ### `update` on a GTF session -/

private def gtfDialect : Dialect := { Dialect.default with fmt := Parser.gtf }
private def sess : Session :=
  { db := { features := [rowBy ek x0] }, auto := [], dialect := gtfDialect, directives := [] }

/-- `update(..., merge_strategy="warning")` on a GTF session that already stores `k0`: all `k0` arrivals are
ignored, the first `k1` arrival is added -/
example : ∃ s', update sess (cfgE .warning) inp = .ok s' ∧ s'.db.features = [rowBy ek x0, rowBy ek x1] := by
  obtain ⟨s', h1, _, h3, _⟩ := update_warning_gtf sess (cfgE .warning) ek inp rfl rfl rfl rfl inp_ne (inp_keyed .warning)
  exact ⟨s', h1, by rw [h3]; decide +kernel⟩

/-- `update(..., merge_strategy="error")`: the very first arrival collides with the stored `k0` -/
example : update sess (cfgE .error) inp = .error .value :=
  update_error_gtf sess (cfgE .error) ek [] x0 [x1, x2, x3, x4] rfl rfl rfl rfl
    (keyed_of .error [] _ (by decide +kernel)) (by decide +kernel) (by decide +kernel)

/-- `update(..., merge_strategy="create_unique")` on a session that stores `k0` with counter `k0 ↦ 4`: the first
arrival is already a later holder of `k0` and goes to `k0_5` -/
example : uniqueIdBy ek [s "k0"] [(s "k0", 4)] [] (s "k0") = s "k0_5" := by decide +kernel

end Examples

end GffProofs.C05
