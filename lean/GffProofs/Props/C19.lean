/-
  C19 — Existing databases are never clobbered; queries never write.

  The file system is `GffModel.World` (path ↦ database content).  Three thin theorems:

  * `create_existing_fails_untouched` — `create_db` on an occupied path without `force` raises
    `OperationalError` and the world is unchanged.
  * `create_force_fresh` — on a free path, or with `force`, a successful `create_db` leaves at the path
    exactly the import of the new input into an EMPTY database (`Create.createDb`, which has no access to
    the world, hence to the old file); every other file is untouched.  `create_force_only_new` spells the
    content out in the C02 domain.
  * `reads_do_not_write` — every read-style operation returns the connection (world, path, session)
    unchanged; so do whole histories of them (`read_history_no_write`), and reopening afterwards observes
    what it would have observed before (`reopen_after_reads`).

  SAID PLAINLY: in a pure functional model "a read does not write" is true by the way `World.step` is
  written; the content of `reads_do_not_write` is the CLASSIFICATION of the operations (`Op.isRead`:
  look-up, `all_features`/`features_of_type`, `children`/`parents`, `region`, the counts and the distinct
  lists are reads; `update`, `delete`, `add_relation` are writes; `reopen` replaces the session and writes
  nothing).  The tie to the real code is not this proof but the correspondence check: an `sqlite3` trace
  callback on `FeatureDB.conn` must show only `SELECT`/`PRAGMA` statements during those calls, and the
  projection of the file after reopening must be unchanged.  Likewise "schema creation fails before any
  row is written" is the modelled meaning of sqlite (`World.createDb`), validated by the correspondence.
  The derived read-style methods of the property text that the model does not contain (`interfeatures`,
  `create_introns`, `merge`, `children_bp`, `bed12`) are outside this file.
-/
import GffProofs.Props.C10

namespace GffProofs.C19
open GffModel GffModel.Create GffModel.Interface
open GffProofs.C10 (read_write_self read_write_ne abs Spec Spec.update Spec.Equiv)

/-! ### create_db and existing files -/

/-- **an occupied path without `force`: error, world untouched** — whatever the old content, the
importer, the configuration and the input (the input is not even looked at) -/
theorem create_existing_fails_untouched (w : World) (path : Str) (old : Db) (imp : Importer) (cfg : Cfg)
    (dirs : List Str) (fs : List Feature) (residue : Db) (h : w.read path = some old) :
    World.createDb w path false imp cfg dirs fs residue = (w, .error .operational) := by
  unfold World.createDb
  simp [h]

/-- in particular the old file is still there, byte for byte, and so is every other file -/
theorem create_existing_keeps_file (w : World) (path : Str) (old : Db) (imp : Importer) (cfg : Cfg)
    (dirs : List Str) (fs : List Feature) (residue : Db) (h : w.read path = some old) :
    (World.createDb w path false imp cfg dirs fs residue).1.files = w.files ∧
    (World.createDb w path false imp cfg dirs fs residue).1.read path = some old := by
  rw [create_existing_fails_untouched w path old imp cfg dirs fs residue h]
  exact ⟨rfl, h⟩

/-- **free path or `force`: the file is the import of the new input alone.**  `db` is the result of
importing `fs` into the EMPTY database; it is a function of the input only — the old world does not
occur in it.  Every other file is untouched. -/
theorem create_force_fresh (w : World) (path : Str) (force : Bool) (imp : Importer) (cfg : Cfg)
    (dirs : List Str) (fs : List Feature) (residue : Db) (db : Db)
    (hfree : force = true ∨ w.read path = none)
    (hdb : Create.createDb imp cfg dirs fs = .ok db) :
    World.createDb w path force imp cfg dirs fs residue = (w.write path db, .ok ()) ∧
    (World.createDb w path force imp cfg dirs fs residue).1.read path = some db ∧
    ∀ q, q ≠ path → (World.createDb w path force imp cfg dirs fs residue).1.read q = w.read q := by
  have h1 : World.createDb w path force imp cfg dirs fs residue = (w.write path db, .ok ()) := by
    unfold World.createDb
    rcases hfree with rfl | hnone
    · simp [hdb]
    · simp [hnone, hdb]
  rw [h1]
  exact ⟨rfl, read_write_self _ _ _, fun q hq => read_write_ne _ _ _ _ hq⟩

/-- two different old worlds, same forced `create_db`: the same file content results -/
theorem create_force_independent_of_old (w₁ w₂ : World) (path : Str) (imp : Importer) (cfg : Cfg)
    (dirs : List Str) (fs : List Feature) (residue : Db) (db : Db)
    (hdb : Create.createDb imp cfg dirs fs = .ok db) :
    (World.createDb w₁ path true imp cfg dirs fs residue).1.read path =
    (World.createDb w₂ path true imp cfg dirs fs residue).1.read path := by
  rw [(create_force_fresh w₁ path true imp cfg dirs fs residue db (Or.inl rfl) hdb).2.1,
      (create_force_fresh w₂ path true imp cfg dirs fs residue db (Or.inl rfl) hdb).2.1]

/-- in the C02 domain the forced result is spelled out: exactly the rows of the new input and exactly its
Parent graph — the reference `update` of the EMPTY content, nothing of the old file -/
theorem create_force_only_new (w : World) (path : Str) (strategy : Strategy) (d : Dialect) (dirs : List Str)
    (fs : List Feature) (residue : Db) (h : C02.GraphOk fs) :
    ∃ db, World.createDb w path true .gff (C02.gffCfg strategy d) dirs fs residue = (w.write path db, .ok ()) ∧
      (abs db).Equiv (Spec.update { rows := [], rels := fun _ => False } fs) := by
  obtain ⟨db, hdb, heq⟩ := C10.createDb_refines_spec strategy d dirs fs h
  exact ⟨db, (create_force_fresh w path true .gff _ dirs fs residue db (Or.inl rfl) hdb).1, heq⟩

/-! ### read-style operations -/

/-- **reads do not write**: every operation classified as read-style returns the connection unchanged —
the file map, the open path, and the session (database, counters, dialect, directives) -/
theorem reads_do_not_write (residue : Session → World.Op → Session) (c : World.Conn) (op : World.Op)
    (h : op.isRead = true) : (World.step residue c op).1 = c := by
  cases op <;> simp only [World.Op.isRead] at h <;> simp only [World.step]
  case get key => split <;> rfl
  all_goals first | rfl | cases h

theorem reads_keep_files (residue : Session → World.Op → Session) (c : World.Conn) (op : World.Op)
    (h : op.isRead = true) :
    (World.step residue c op).1.world.files = c.world.files ∧ (World.step residue c op).1.sess.db = c.sess.db ∧
    (World.step residue c op).1.sess.auto = c.sess.auto ∧ (World.step residue c op).1.sess.dialect = c.sess.dialect ∧
    (World.step residue c op).1.sess.directives = c.sess.directives := by
  rw [reads_do_not_write residue c op h]
  exact ⟨rfl, rfl, rfl, rfl, rfl⟩

/-- `reopen` writes nothing either (it only replaces the session) -/
theorem reopen_keeps_files (residue : Session → World.Op → Session) (c : World.Conn) :
    (World.step residue c .reopen).1.world = c.world := by
  simp only [World.step]
  split
  · rfl
  · split <;> rfl

/-- **any sequence of read-style calls, arbitrary arguments, arbitrary database** -/
theorem read_history_no_write (residue : Session → World.Op → Session) (ops : List World.Op) (c : World.Conn)
    (h : ∀ op ∈ ops, op.isRead = true) : World.run residue c ops = c := by
  induction ops generalizing c with
  | nil => rfl
  | cons op rest ih =>
    simp only [World.run]
    rw [reads_do_not_write residue c op (h op (by simp))]
    exact ih c (fun o ho => h o (by simp [ho]))

/-- what reopening the file observes afterwards is what it would have observed before -/
theorem reopen_after_reads (residue : Session → World.Op → Session) (ops : List World.Op) (c : World.Conn)
    (h : ∀ op ∈ ops, op.isRead = true) (ko sv : Bool) :
    World.connect (World.run residue c ops).world c.path ko sv = World.connect c.world c.path ko sv := by
  rw [read_history_no_write residue ops c h]

/-- the classification is total: an operation is read-style or one of the four listed writes -/
theorem classification (op : World.Op) :
    op.isRead = true ∨ (∃ cfg fs i b, op = .update cfg fs i b) ∨ (∃ ids b, op = .delete ids b) ∨
      (∃ p c l, op = .addRelation p c l) ∨ op = .reopen := by
  cases op
  case update cfg fs i b => exact Or.inr (Or.inl ⟨cfg, fs, i, b, rfl⟩)
  case delete ids b => exact Or.inr (Or.inr (Or.inl ⟨ids, b, rfl⟩))
  case addRelation p c l => exact Or.inr (Or.inr (Or.inr (Or.inl ⟨p, c, l, rfl⟩)))
  case reopen => exact Or.inr (Or.inr (Or.inr (Or.inr rfl)))
  all_goals exact Or.inl rfl

/-! ### non-vacuity -/

section Examples
open GffProofs.C10 (exDb exSess newFs)

private def w0 : World := { files := [("a.db".toList, exDb), ("b.db".toList, {})] }
private def c0 : World.Conn := { world := w0, path := "a.db".toList, sess := exSess }

/-- an occupied path, no `force`: error and the same world -/
example : World.createDb w0 "a.db".toList false .gff (C02.gffCfg .error Dialect.default) [] newFs =
    (w0, .error .operational) :=
  create_existing_fails_untouched w0 _ exDb _ _ _ _ _ rfl

/-- with `force` the three new lines alone make up the file: none of the four old rows, none of the six old
relations -/
example : ((World.createDb w0 "a.db".toList true .gff (C02.gffCfg .error Dialect.default) [] newFs).1.read
      "a.db".toList).map (fun db => (db.features.map (fun r => String.ofList r.id), db.relations)) =
    some (["e3", "m9", "g2"], [C02.rel "m1" "e3" 1, C02.rel "g2" "m9" 1]) := by decide +kernel

example : ∃ db, World.createDb w0 "a.db".toList true .gff (C02.gffCfg .error Dialect.default) [] newFs =
      (w0.write "a.db".toList db, .ok ()) ∧
      (abs db).Equiv (Spec.update { rows := [], rels := fun _ => False } newFs) :=
  create_force_only_new w0 _ .error Dialect.default [] newFs {} C10.ex_updateOk.graph

/-- a history of read-style calls with assorted arguments (including an absent key, which raises) -/
private def reads : List World.Op :=
  [.get "g1".toList, .get "nope".toList, .query { featuretype := ["exon".toList], orderBy := [.start], reverse := true },
   .relation true "g1".toList (some 2) {}, .relation false "e2".toList none {},
   .region { seqid := some "chr1".toList, start := some 50, stop := some 350 }, .count none,
   .count (some "exon".toList), .featuretypes, .seqids]

example : World.run (fun s _ => s) c0 reads = c0 :=
  read_history_no_write _ reads c0 (by decide)

/-- the calls do return data (the examples are not reading an empty database) -/
example : (match (World.step (fun s _ => s) c0 (.relation true "g1".toList (some 2) {})).2 with
    | .rows rs => rs.map (fun r => String.ofList r.id)
    | _ => []) = ["e2", "e1"] := by decide +kernel

end Examples

end GffProofs.C19
