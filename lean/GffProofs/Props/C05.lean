/-
  C05 — Duplicate keys are resolved exactly as the chosen merge_strategy says.

  Layout
  * §0  specification vocabulary (`storedRow`, `Agrees`, `mergeInto`, `fileSpec`, `firstArrivals`, …)
  * §1  `strategy_table`: `fileFeature` = the decision table `fileSpec` (one arrival, every strategy)
  * §2  one-arrival theorems per strategy: `error_aborts`, `warning_keeps_first`, `replace_keeps_last`,
        `create_unique_all`, `merge_exact` (+ what the merged attributes / exempt columns are)
  * §3  `nothing_lost_or_invented` (relations, GFF3 and GTF; attribute values)
  * §4  whole-import theorems over `populateGff` (error / no collision / warning / replace / create_unique)
  * §5  `update_same_as_create`; §5b the whole-import form of `merge` as an unproved `Prop`
  * §6  non-vacuity examples

  Helper lemmas and the names given to sub-expressions of the model (`candRows`, `dedupPrint`, `agreesB`,
  `matched`, `mergedAttrs`, `exemptText`, `attachParents`, `attachGtf`, `firstVal`) live in
  `GffProofs/Lemmas/C05Aux.lean`.
-/
import GffProofs.Lemmas.C05Aux
import GffProofs.Lemmas.SplitJoin

namespace GffProofs.C05
open GffModel GffModel.Create GffModel.Interface
open GffProofs.C04 (autoId incr_spec IdsNodup)
open GffProofs.C02 (idOf parentsOf gffCfg)

/-! ## §0 Specification vocabulary -/

/-- the `bin` column: `calc_bin()` of the coordinates -/
def binOf (s e : Option Int) : Option Int :=
  match Feature.calcBin s e with
  | some (.int i) => some i
  | _ => none

/-- **"stored unchanged"**: the row that holds feature `f` under id `id` — every column, the attributes and
the extra fields are those of `f`; the bin is recomputed from the coordinates -/
def storedRow (f : Feature) (id : Str) : Row :=
  { id := id, seqid := f.seqid, source := f.source, ftype := f.ftype, start := f.start, stop := f.stop,
    score := f.score, strand := f.strand, frame := f.frame, attrs := f.attrs, extra := f.extra,
    bin := binOf f.start f.stop }

@[simp] theorem storedRow_id (f : Feature) (id : Str) : (storedRow f id).id = id := rfl

/-- `merge`: candidate `ex` agrees with the arrival `f` on every column that is not exempt -/
def Agrees (cfg : Cfg) (f ex : Feature) : Prop :=
  ∀ k ∈ gffCols, k ∉ cfg.forceMergeFields → colText ex k = colText f k

/-- `merge`, the row after merging arrival `f` and the matched candidates `M` into row `r`: the attributes
are the merged dictionary, each exempt text column (`seqid, source, featuretype, score, strand, frame`
when listed in `force_merge_fields`) is the joined set of values seen, everything else — id, start, end,
extra, bin, and the non-exempt columns — is `r`'s. -/
def mergeInto (cfg : Cfg) (f : Feature) (M : List Feature) (r : Row) : Row :=
  let pick (k : String) (old : Str) : Str :=
    if k.toList ∈ cfg.forceMergeFields then exemptText f M k.toList else old
  { r with
    attrs := mergedAttrs f M
    seqid := pick "seqid" r.seqid
    source := pick "source" r.source
    ftype := pick "featuretype" r.ftype
    score := pick "score" r.score
    strand := pick "strand" r.strand
    frame := pick "frame" r.frame }

/-- the next generated id for key `id`: `<id>_<counter+1>` -/
def nextId (auto : Dict Nat) (id : Str) : Str := autoId id ((auto.get? id).getD 0 + 1)

/-- the counters after handing out `nextId` -/
def bump (auto : Dict Nat) (id : Str) : Dict Nat := Dict.set auto id ((auto.get? id).getD 0 + 1)

/-- appending a row to the `features` table -/
def addRow (db : Db) (r : Row) : Db := { db with features := db.features ++ [r] }

/-- **The decision table of the property text** for one arrival `f` whose key is `id`:
result database, counters and the id the arrival is filed under (`none` = ignored). -/
def fileSpec (cfg : Cfg) (db : Db) (auto : Dict Nat) (f : Feature) (id : Str) : Py (Db × Dict Nat × Option Str) :=
  if db.hasId id = false then
    -- no collision: stored unchanged under its key, at the end
    .ok (addRow db (storedRow f id), auto, some id)
  else match cfg.strategy with
    | .error => .error .value
    | .warning => .ok (db, auto, none)
    | .replace => .ok (db.replaceRow id (storedRow f id), auto, some id)
    | .createUnique =>
      if db.hasId (nextId auto id) then .error .integrity
      else .ok (addRow db (storedRow f (nextId auto id)), bump auto id, some (nextId auto id))
    | .merge =>
      match (matched cfg db id f).getLast? with
      | some ex =>
        .ok (db.modifyRow (ex.id.getD id) (mergeInto cfg f (matched cfg db id f)), auto, some (ex.id.getD id))
      | none =>
        if db.hasId (nextId auto id) then .error .integrity
        else .ok (addRow { db with duplicates := db.duplicates ++ [(id, nextId auto id)] }
                    (storedRow f (nextId auto id)), bump auto id, some (nextId auto id))

/-! ## §1 `fileFeature` is the decision table -/

theorem ofFeature_stored (f : Feature) (id : Str) :
    Row.ofFeature { f with id := some id } = .ok (storedRow f id) := by
  unfold Row.ofFeature
  simp only
  split
  · rename_i bs hb
    exact absurd hb (C02.calcBin_ne_set _ _ _)
  · rfl

theorem hasId_iff (db : Db) (id : Str) : db.hasId id = true ↔ id ∈ db.features.map (·.id) := by
  simp only [Db.hasId, List.any_eq_true, decide_eq_true_eq, List.mem_map]

theorem hasId_false_iff (db : Db) (id : Str) : db.hasId id = false ↔ id ∉ db.features.map (·.id) := by
  rw [← hasId_iff]; simp

/-- no collision: the arrival is appended unchanged under its key, for every strategy -/
theorem fresh_stored (cfg : Cfg) (db : Db) (auto : Dict Nat) (f : Feature) (id : Str)
    (hc : db.hasId id = false) :
    fileFeature cfg db auto f id = .ok (addRow db (storedRow f id), auto, some id) := by
  simp only [fileFeature, ofFeature_stored, Db.insert, storedRow_id, hc, bind, Except.bind, pure, Except.pure]
  rfl

/-- **1. `error`: a collision aborts with `ValueError`; nothing is returned** -/
theorem error_aborts (cfg : Cfg) (db : Db) (auto : Dict Nat) (f : Feature) (id : Str)
    (hs : cfg.strategy = .error) (hc : db.hasId id = true) :
    fileFeature cfg db auto f id = .error .value := by
  simp only [fileFeature, ofFeature_stored, Db.insert, storedRow_id, hc, bind, Except.bind, pure, Except.pure,
    hs, doMerge]
  rfl

/-- **2. `warning`: the colliding arrival is ignored** — database and counters unchanged, filed nowhere -/
theorem warning_keeps_first (cfg : Cfg) (db : Db) (auto : Dict Nat) (f : Feature) (id : Str)
    (hs : cfg.strategy = .warning) (hc : db.hasId id = true) :
    fileFeature cfg db auto f id = .ok (db, auto, none) := by
  simp only [fileFeature, ofFeature_stored, Db.insert, storedRow_id, hc, bind, Except.bind, pure, Except.pure,
    hs, doMerge]
  rfl

/-- **3. `replace`: the row under the key becomes the row of the new arrival** (`UPDATE … WHERE id = key`),
filed under the same id; counters unchanged -/
theorem replace_keeps_last (cfg : Cfg) (db : Db) (auto : Dict Nat) (f : Feature) (id : Str)
    (hs : cfg.strategy = .replace) (hc : db.hasId id = true) :
    fileFeature cfg db auto f id = .ok (db.replaceRow id (storedRow f id), auto, some id) := by
  simp only [fileFeature, ofFeature_stored, Db.insert, storedRow_id, hc, bind, Except.bind, pure, Except.pure,
    hs, doMerge]
  rfl

/-- what `replaceRow` does to a table with distinct ids: the row at the key's position is exchanged, every
other row and every other table is untouched -/
theorem replaceRow_shape (db : Db) (pre post : List Row) (r new : Row)
    (hdb : db.features = pre ++ r :: post) (hnd : IdsNodup db) :
    db.replaceRow r.id new = { db with features := pre ++ new :: post } := by
  unfold IdsNodup at hnd
  rw [hdb, List.map_append, List.map_cons, List.nodup_append] at hnd
  obtain ⟨_, h2, h3⟩ := hnd
  rw [List.nodup_cons] at h2
  have hpre : ∀ x ∈ pre, x.id ≠ r.id := fun x hx e =>
    h3 x.id (List.mem_map.mpr ⟨x, hx, rfl⟩) r.id (by simp) e
  have hpost : ∀ x ∈ post, x.id ≠ r.id := fun x hx e =>
    h2.1 (List.mem_map.mpr ⟨x, hx, e⟩)
  unfold Db.replaceRow
  rw [hdb, List.map_append, List.map_cons]
  congr 2
  · rw [List.map_congr_left (g := fun x => x)]
    · simp
    · intro x hx; simp [hpre x hx]
  · simp only [if_true]
    congr 1
    rw [List.map_congr_left (g := fun x => x)]
    · simp
    · intro x hx; simp [hpost x hx]

/-- **4. `create_unique`: the colliding arrival is appended unchanged under `<key>_<j>`, `j = counter+1`**,
the counter is advanced; if that id is taken the step fails with `IntegrityError` -/
theorem create_unique_all (cfg : Cfg) (db : Db) (auto : Dict Nat) (f : Feature) (id : Str)
    (hs : cfg.strategy = .createUnique) (hc : db.hasId id = true) :
    (db.hasId (nextId auto id) = false →
      fileFeature cfg db auto f id =
        .ok (addRow db (storedRow f (nextId auto id)), bump auto id, some (nextId auto id))) ∧
    (db.hasId (nextId auto id) = true → fileFeature cfg db auto f id = .error .integrity) := by
  simp only [fileFeature, ofFeature_stored, Db.insert, storedRow_id, hc, bind, Except.bind, pure, Except.pure,
    hs, doMerge, incr_spec, if_true, nextId, bump]
  constructor
  · intro hj; simp only [hj]; rfl
  · intro hj; simp only [hj, if_true]

theorem fileFeature_merge_some (cfg : Cfg) (db db1 : Db) (auto auto1 : Dict Nat) (f fx : Feature) (id : Str)
    (hc : db.hasId id = true)
    (h : doMerge cfg db auto { f with id := some id } id cfg.strategy = .ok (some fx, .merge, db1, auto1)) :
    fileFeature cfg db auto f id =
      .ok (cfg.forceMergeFields.foldl (fun db k => db.modifyRow (fx.id.getD id) (colCopy fx k))
            (db1.modifyRow (fx.id.getD id) (fun r => { r with attrs := fx.attrs })), auto1, some (fx.id.getD id)) := by
  simp only [fileFeature, ofFeature_stored, Db.insert, storedRow_id, hc, bind, Except.bind, pure, Except.pure,
    if_true, h]
  rfl

/-- `merge`, some candidate agrees: everything is merged into the LAST agreeing candidate's row -/
theorem merge_hit_eq (cfg : Cfg) (db : Db) (auto : Dict Nat) (f : Feature) (id : Str)
    (hs : cfg.strategy = .merge) (hc : db.hasId id = true) (ex : Feature)
    (h : (matched cfg db id f).getLast? = some ex) :
    fileFeature cfg db auto f id =
      .ok (db.modifyRow (ex.id.getD id) (mergeInto cfg f (matched cfg db id f)), auto, some (ex.id.getD id)) := by
  have hd := doMerge_merge_hit cfg db auto f id (some id) _ h
  rw [show doMerge cfg db auto { f with id := some id } id Strategy.merge =
        doMerge cfg db auto { f with id := some id } id cfg.strategy from by rw [hs]] at hd
  rw [fileFeature_merge_some cfg db db auto auto f _ id hc hd]
  rw [foldl_setCol]
  rw [foldl_modifyRow _ _ _ _ (fun a r => colCopy_id _ a r), modifyRow_comp]
  · congr 3
    funext r
    rw [foldl_colCopy]
    simp only [mergeInto]
    congr 1 <;> (split <;> simp_all)
  · intro r; rfl

/-- `merge`, no candidate agrees: a fresh row `<key>_<j>` (arrival unchanged) and a `duplicates` record -/
theorem merge_miss_eq (cfg : Cfg) (db : Db) (auto : Dict Nat) (f : Feature) (id : Str)
    (hs : cfg.strategy = .merge) (hc : db.hasId id = true) (h : matched cfg db id f = []) :
    (db.hasId (nextId auto id) = false →
      fileFeature cfg db auto f id =
        .ok (addRow { db with duplicates := db.duplicates ++ [(id, nextId auto id)] }
              (storedRow f (nextId auto id)), bump auto id, some (nextId auto id))) ∧
    (db.hasId (nextId auto id) = true → fileFeature cfg db auto f id = .error .integrity) := by
  have hd := doMerge_merge_miss cfg db auto f id (some id) h
  have hh : ∀ d x, ({ db with duplicates := d } : Db).hasId x = db.hasId x := fun _ _ => rfl
  simp only [fileFeature, ofFeature_stored, Db.insert, storedRow_id, hc, bind, Except.bind, pure, Except.pure,
    hs, hd, if_true, nextId, bump, hh]
  constructor
  · intro hj; simp only [hj]; rfl
  · intro hj; simp only [hj, if_true]

/-- **`fileFeature` (what both importers do with one arrival) is exactly the decision table** -/
theorem strategy_table (cfg : Cfg) (db : Db) (auto : Dict Nat) (f : Feature) (id : Str) :
    fileFeature cfg db auto f id = fileSpec cfg db auto f id := by
  unfold fileSpec
  by_cases hc : db.hasId id = false
  · rw [if_pos hc]; exact fresh_stored cfg db auto f id hc
  · rw [if_neg hc]
    have hc : db.hasId id = true := by simpa using hc
    cases hs : cfg.strategy with
    | error => exact error_aborts cfg db auto f id hs hc
    | warning => exact warning_keeps_first cfg db auto f id hs hc
    | replace => exact replace_keeps_last cfg db auto f id hs hc
    | createUnique =>
      simp only
      by_cases hj : db.hasId (nextId auto id) = true
      · rw [if_pos hj]; exact (create_unique_all cfg db auto f id hs hc).2 hj
      · rw [if_neg hj]; exact (create_unique_all cfg db auto f id hs hc).1 (by simpa using hj)
    | merge =>
      simp only
      cases hl : (matched cfg db id f).getLast? with
      | some ex => exact merge_hit_eq cfg db auto f id hs hc ex hl
      | none =>
        have hM : matched cfg db id f = [] := List.getLast?_eq_none_iff.mp hl
        simp only
        by_cases hj : db.hasId (nextId auto id) = true
        · rw [if_pos hj]; exact (merge_miss_eq cfg db auto f id hs hc hM).2 hj
        · rw [if_neg hj]; exact (merge_miss_eq cfg db auto f id hs hc hM).1 (by simpa using hj)

/-! ## §2 `merge`: who matches, what the merged row is -/

theorem agreesB_iff (cfg : Cfg) (f ex : Feature) : agreesB cfg f ex = true ↔ Agrees cfg f ex := by
  unfold agreesB Agrees
  simp only [List.all_eq_true, List.mem_filter, Bool.not_eq_eq_eq_not, Bool.not_true,
    List.contains_eq_mem, decide_eq_false_iff_not, beq_iff_eq, and_imp]

/-- the matched candidates are exactly the candidates that agree on the non-exempt columns, in
candidate order -/
theorem mem_matched (cfg : Cfg) (db : Db) (id : Str) (f ex : Feature) :
    ex ∈ matched cfg db id f ↔ ex ∈ candidates cfg db id ∧ Agrees cfg f ex := by
  unfold matched
  rw [List.mem_filter, agreesB_iff]

theorem matched_sublist (cfg : Cfg) (db : Db) (id : Str) (f : Feature) :
    (matched cfg db id f).Sublist (candidates cfg db id) := List.filter_sublist

/-- **the candidates**: every candidate is the feature of a stored row — the row under the key or a row
recorded for the key in `duplicates`; conversely every such row is represented by a candidate that prints
the same (`list(set(...))` drops candidates that print alike). -/
theorem candidates_sound (cfg : Cfg) (db : Db) (id : Str) (ex : Feature) (h : ex ∈ candidates cfg db id) :
    ∃ r, ex = r.toFeature cfg.dialect ∧ r ∈ db.features ∧ db.getRow? r.id = some r ∧
      (r.id = id ∨ (id, r.id) ∈ db.duplicates) := mem_candidates cfg db id ex h

theorem candidates_complete (cfg : Cfg) (db : Db) (id : Str) (r : Row)
    (h : db.getRow? id = some r ∨ ∃ nid, (id, nid) ∈ db.duplicates ∧ db.getRow? nid = some r) :
    ∃ a ∈ candidates cfg db id, (a.print).toOption = ((r.toFeature cfg.dialect).print).toOption := by
  rw [candidates_eq]
  apply dedupPrint_cover
  exact List.mem_map.mpr ⟨r, (mem_candRows db id r).mpr h, rfl⟩

/-- when no two candidate rows print alike, the candidates are exactly the candidate rows, in order:
the row under the key first, then the recorded duplicates in the order they were recorded -/
theorem candidates_exact (cfg : Cfg) (db : Db) (id : Str)
    (h : ((candRows db id).map (fun r => r.toFeature cfg.dialect)).Pairwise
          (fun a b => (a.print).toOption ≠ (b.print).toOption)) :
    candidates cfg db id = (candRows db id).map (fun r => r.toFeature cfg.dialect) := by
  rw [candidates_eq, dedupPrint_self _ h]

/-- **merged attribute values, per key: exactly the arrival's values and the matched candidates' values** -/
theorem mergedAttrs_values (f : Feature) (M : List Feature) (k v : Str) :
    v ∈ ((mergedAttrs f M).get? k).getD [] ↔
      v ∈ (f.attrs.get? k).getD [] ∨ ∃ ex ∈ M, ∃ vs, (k, vs) ∈ ex.attrs ∧ v ∈ vs := by
  rw [mergedAttrs_get, ← foldl_union_get]
  cases Dict.get? (M.foldl (fun m ex => unionAttrs m ex.attrs) f.attrs) k with
  | none => simp
  | some vs => simp [C11.dedup_exact vs]

/-- … without repeats -/
theorem mergedAttrs_nodup (f : Feature) (M : List Feature) (k : Str) (vs : List Str)
    (h : (mergedAttrs f M).get? k = some vs) : vs.Nodup := by
  rw [mergedAttrs_get] at h
  cases hg : Dict.get? (M.foldl (fun m ex => unionAttrs m ex.attrs) f.attrs) k with
  | none => rw [hg] at h; cases h
  | some ws =>
    rw [hg] at h
    simp only [Option.map_some, Option.some.injEq] at h
    subst h
    exact (C11.dedup_exact ws).1

/-- … the arrival's keys first, in the arrival's order -/
theorem mergedAttrs_keys_prefix (f : Feature) (M : List Feature) :
    Dict.keys f.attrs <+: Dict.keys (mergedAttrs f M) := by
  rw [mergedAttrs_keys]; exact foldl_union_keys_prefix M f.attrs

/-- … and no key beyond those of the arrival and of the matched candidates -/
theorem mergedAttrs_mem_keys (f : Feature) (M : List Feature) (k : Str) :
    k ∈ Dict.keys (mergedAttrs f M) ↔ k ∈ Dict.keys f.attrs ∨ ∃ ex ∈ M, k ∈ Dict.keys ex.attrs := by
  rw [mergedAttrs_keys]; exact foldl_union_mem_keys M f.attrs k

theorem mergedAttrs_keys_nodup (f : Feature) (M : List Feature) (h : (Dict.keys f.attrs).Nodup) :
    (Dict.keys (mergedAttrs f M)).Nodup := by
  rw [mergedAttrs_keys]; exact foldl_union_keys_nodup M f.attrs h

/-- the values seen in column `k`: the arrival's and the matched candidates', each split on `,` -/
def seenValues (f : Feature) (M : List Feature) (k : Str) : List Str :=
  (colText f k :: M.map (fun e => colText e k)).flatMap (Str.split [','])

/-- **an exempt column becomes the comma-joined, sorted, duplicate-free set of the values seen** -/
theorem exemptText_spec (f : Feature) (M : List Feature) (k : Str) :
    ∃ vs : List Str, exemptText f M k = Str.join [','] vs ∧ vs.Nodup ∧ vs.Pairwise (fun a b => a ≤ b) ∧
      ∀ v, v ∈ vs ↔ v ∈ seenValues f M k := by
  refine ⟨sortStrs (dedup (seenValues f M k)), rfl, ?_, sortStrs_sorted _, ?_⟩
  · exact (sortStrs_perm _).nodup_iff.mpr (C11.dedup_exact _).1
  · intro v
    rw [(sortStrs_perm _).mem_iff, (C11.dedup_exact _).2]

/-- a table with distinct ids: updating "the rows whose id is `r.id`" touches exactly the one row `r` -/
theorem map_update_shape (pre post : List Row) (r : Row) (g : Row → Row)
    (hnd : ((pre ++ r :: post).map (·.id)).Nodup) :
    (pre ++ r :: post).map (fun x => if x.id = r.id then g x else x) = pre ++ g r :: post := by
  rw [List.map_append, List.map_cons, List.nodup_append] at hnd
  obtain ⟨_, h2, h3⟩ := hnd
  rw [List.nodup_cons] at h2
  have hpre : ∀ x ∈ pre, x.id ≠ r.id := fun x hx e =>
    h3 x.id (List.mem_map.mpr ⟨x, hx, rfl⟩) r.id (by simp) e
  have hpost : ∀ x ∈ post, x.id ≠ r.id := fun x hx e =>
    h2.1 (List.mem_map.mpr ⟨x, hx, e⟩)
  rw [List.map_append, List.map_cons]
  congr 1
  · rw [List.map_congr_left (g := fun x => x)]
    · simp
    · intro x hx; simp [hpre x hx]
  · simp only [if_true]
    congr 1
    rw [List.map_congr_left (g := fun x => x)]
    · simp
    · intro x hx; simp [hpost x hx]

theorem modifyRow_shape (db : Db) (pre post : List Row) (r : Row) (g : Row → Row)
    (hdb : db.features = pre ++ r :: post) (hnd : IdsNodup db) :
    db.modifyRow r.id g = { db with features := pre ++ g r :: post } := by
  unfold IdsNodup at hnd
  rw [hdb] at hnd
  unfold Db.modifyRow
  rw [hdb, map_update_shape pre post r g hnd]

/-- **5. `merge`, exactly.**  Let `M` be the candidates (row under the key + rows recorded for it in
`duplicates`) that agree with the arrival on every non-exempt column.
* `M ≠ []`: the LAST of them is a stored row `m`; every row with that id (exactly `m` when ids are
  distinct) becomes `mergeInto cfg f M ·` — attributes `mergedAttrs f M`, exempt columns `exemptText f M ·`,
  nothing else changed; no row is added; counters and `duplicates` untouched; filed under `m.id`.
* `M = []`: the arrival is appended unchanged under `<key>_<j>`, `(key, <key>_<j>)` is recorded in
  `duplicates`, the counter is advanced — or `IntegrityError` when `<key>_<j>` is taken. -/
theorem merge_exact (cfg : Cfg) (db : Db) (auto : Dict Nat) (f : Feature) (id : Str)
    (hs : cfg.strategy = .merge) (hc : db.hasId id = true) :
    (matched cfg db id f ≠ [] →
      ∃ m : Row, m ∈ db.features ∧ db.getRow? m.id = some m ∧ (m.id = id ∨ (id, m.id) ∈ db.duplicates) ∧
        (matched cfg db id f).getLast? = some (m.toFeature cfg.dialect) ∧
        fileFeature cfg db auto f id =
          .ok ({ db with features := (db.features.map
                  (fun x => if x.id = m.id then mergeInto cfg f (matched cfg db id f) x else x)) },
               auto, some m.id)) ∧
    (matched cfg db id f = [] →
      (db.hasId (nextId auto id) = false →
        fileFeature cfg db auto f id =
          .ok (addRow { db with duplicates := db.duplicates ++ [(id, nextId auto id)] }
                (storedRow f (nextId auto id)), bump auto id, some (nextId auto id))) ∧
      (db.hasId (nextId auto id) = true → fileFeature cfg db auto f id = .error .integrity)) := by
  refine ⟨fun hne => ?_, fun hM => merge_miss_eq cfg db auto f id hs hc hM⟩
  cases hl : (matched cfg db id f).getLast? with
  | none => exact absurd (List.getLast?_eq_none_iff.mp hl) hne
  | some ex =>
    have hmem : ex ∈ matched cfg db id f := List.mem_of_getLast? hl
    obtain ⟨m, rfl, hm1, hm2, hm3⟩ := mem_candidates cfg db id ex ((mem_matched _ _ _ _ _).mp hmem).1
    refine ⟨m, hm1, hm2, hm3, rfl, ?_⟩
    rw [merge_hit_eq cfg db auto f id hs hc _ hl]
    rfl

/-- `merge` with distinct ids and exactly one agreeing candidate `m` (the situation in every state
reached by imports with one fixed configuration: rows `k, k_1, k_2, …` were created precisely because
they disagree pairwise on a non-exempt column, and merging never changes a non-exempt column):
the one row `m` is rewritten in place, its values per attribute key are those of the arrival and of `m`. -/
theorem merge_exact_single (cfg : Cfg) (db : Db) (auto : Dict Nat) (f : Feature) (id : Str)
    (hs : cfg.strategy = .merge) (hc : db.hasId id = true) (hnd : IdsNodup db)
    (pre post : List Row) (m : Row) (hdb : db.features = pre ++ m :: post)
    (hM : matched cfg db id f = [m.toFeature cfg.dialect]) :
    fileFeature cfg db auto f id =
        .ok ({ db with features := pre ++ mergeInto cfg f [m.toFeature cfg.dialect] m :: post }, auto, some m.id) ∧
    (∀ k v, v ∈ ((mergeInto cfg f [m.toFeature cfg.dialect] m).attrs.get? k).getD [] ↔
        v ∈ (f.attrs.get? k).getD [] ∨ ∃ vs, (k, vs) ∈ m.attrs ∧ v ∈ vs) := by
  constructor
  · rw [merge_hit_eq cfg db auto f id hs hc (m.toFeature cfg.dialect) (by rw [hM]; rfl), hM]
    show Except.ok (db.modifyRow m.id _, auto, some m.id) = _
    rw [modifyRow_shape db pre post m _ hdb hnd]
  · intro k v
    show v ∈ ((mergedAttrs f [m.toFeature cfg.dialect]).get? k).getD [] ↔ _
    rw [mergedAttrs_values]
    simp [Row.toFeature]

/-! ## §3 Nothing lost, nothing invented -/

/-- filing an arrival touches the `features` table (and, for a `merge` miss, `duplicates`) only -/
theorem fileFeature_frame (cfg : Cfg) (db db1 : Db) (auto auto1 : Dict Nat) (f : Feature) (id : Str)
    (filed : Option Str) (h : fileFeature cfg db auto f id = .ok (db1, auto1, filed)) :
    db1.relations = db.relations ∧ db1.metaRows = db.metaRows ∧ db1.directives = db.directives ∧
    db1.autoinc = db.autoinc := by
  rw [strategy_table] at h
  unfold fileSpec at h
  split at h
  · cases h; exact ⟨rfl, rfl, rfl, rfl⟩
  · split at h
    · cases h
    · cases h; exact ⟨rfl, rfl, rfl, rfl⟩
    · cases h; exact ⟨rfl, rfl, rfl, rfl⟩
    · split at h
      · cases h
      · cases h; exact ⟨rfl, rfl, rfl, rfl⟩
    · split at h
      · cases h; exact ⟨rfl, rfl, rfl, rfl⟩
      · split at h
        · cases h
        · cases h; exact ⟨rfl, rfl, rfl, rfl⟩

theorem mergeInto_id (cfg : Cfg) (f : Feature) (M : List Feature) (r : Row) : (mergeInto cfg f M r).id = r.id := rfl

/-- **no feature is lost**: filing an arrival never removes or renames a stored id; it adds at most one -/
theorem fileFeature_ids (cfg : Cfg) (db db1 : Db) (auto auto1 : Dict Nat) (f : Feature) (id : Str)
    (filed : Option Str) (h : fileFeature cfg db auto f id = .ok (db1, auto1, filed)) :
    db1.features.map (·.id) = db.features.map (·.id) ∨
    ∃ fid, filed = some fid ∧ db1.features.map (·.id) = db.features.map (·.id) ++ [fid] := by
  rw [strategy_table] at h
  unfold fileSpec at h
  split at h
  · cases h; exact Or.inr ⟨id, rfl, by simp [addRow]⟩
  · split at h
    · cases h
    · cases h; exact Or.inl rfl
    · cases h; exact Or.inl (C04.replaceRow_ids _ _ _ rfl)
    · split at h
      · cases h
      · cases h; exact Or.inr ⟨_, rfl, by simp [addRow]⟩
    · split at h
      · cases h; exact Or.inl (C04.modifyRow_ids _ _ _ (fun r => rfl))
      · split at h
        · cases h
        · cases h; exact Or.inr ⟨_, rfl, by simp [addRow]⟩

/-- the id an arrival is filed under names a stored row -/
theorem filed_is_stored (cfg : Cfg) (db db1 : Db) (auto auto1 : Dict Nat) (f : Feature) (id fid : Str)
    (h : fileFeature cfg db auto f id = .ok (db1, auto1, some fid)) : fid ∈ db1.features.map (·.id) := by
  have h0 := h
  rw [strategy_table] at h
  unfold fileSpec at h
  split at h
  · cases h; simp [addRow]
  · rename_i hc
    have hc : db.hasId id = true := by simpa using hc
    split at h
    · cases h
    · cases h
    · cases h
      rw [C04.replaceRow_ids db id (storedRow f id) rfl]
      exact (hasId_iff db id).mp hc
    · split at h
      · cases h
      · cases h; simp [addRow]
    · split at h
      · rename_i ex hl
        cases h
        rw [C04.modifyRow_ids db (ex.id.getD id) (mergeInto cfg f (matched cfg db id f)) (fun r => rfl)]
        have hmem : ex ∈ matched cfg db id f := List.mem_of_getLast? hl
        obtain ⟨m, rfl, hm1, _, _⟩ := mem_candidates cfg db id ex ((mem_matched _ _ _ _ _).mp hmem).1
        exact List.mem_map.mpr ⟨m, hm1, rfl⟩
      · split at h
        · cases h
        · cases h; simp [addRow]

/-- **6. GFF3, every strategy: the relation set after one arrival is the old one plus exactly the arrival's
`Parent` links, attached to the id the arrival was filed under — and unchanged when it was ignored.**
The rest of the step is the decision table `fileSpec`; the relation pass changes no other table. -/
theorem nothing_lost_or_invented (cfg : Cfg) (db db' : Db) (auto auto' : Dict Nat) (f : Feature)
    (h : gffStep cfg (db, auto) f = .ok (db', auto')) :
    ∃ id auto1 db1 filed,
      idHandler cfg.idSpec auto f = .ok (id, auto1) ∧
      fileSpec cfg db auto1 f id = .ok (db1, auto', filed) ∧
      SameButRels db1 db' ∧
      (∀ fid, filed = some fid → fid ∈ db'.features.map (·.id)) ∧
      (∀ rel, rel ∈ db'.relations ↔
        rel ∈ db.relations ∨ ∃ fid, filed = some fid ∧ ∃ p ∈ parentsOf f, rel = ⟨p, fid, 1⟩) := by
  cases hid : idHandler cfg.idSpec auto f with
  | error e => rw [gffStep_idErr cfg db auto f e hid] at h; cases h
  | ok r =>
    obtain ⟨id, auto1⟩ := r
    rw [gffStep_eq cfg db auto auto1 f id hid] at h
    cases hf : fileFeature cfg db auto1 f id with
    | error e => rw [hf] at h; cases h
    | ok r =>
      obtain ⟨db1, auto2, filed⟩ := r
      rw [hf] at h
      simp only [Except.ok.injEq, Prod.mk.injEq] at h
      obtain ⟨rfl, rfl⟩ := h
      have hsame := attachParents_same db1 filed f
      refine ⟨id, auto1, db1, filed, rfl, by rw [← strategy_table]; exact hf, hsame, ?_, ?_⟩
      · intro fid hfid
        subst hfid
        rw [hsame.1]
        exact filed_is_stored cfg db db1 auto1 auto2 f id fid hf
      · intro rel
        rw [mem_attachParents, (fileFeature_frame cfg db db1 auto1 auto2 f id filed hf).1]

/-- **6. GTF, every strategy: the relation set after one arrival is the old one plus exactly
`(transcript, fid, 1)`, `(gene, fid, 2)`, `(gene, transcript, 1)` (self-relations skipped), where
`transcript` / `gene` are the first values of the arrival's transcript / gene attributes and `fid` is the id
the arrival was filed under — and unchanged when it was ignored.** -/
theorem nothing_lost_or_invented_gtf (cfg : Cfg) (db db' : Db) (auto auto' : Dict Nat) (f : Feature)
    (h : gtfStep cfg (db, auto) f = .ok (db', auto')) :
    ∃ id auto1 db1 filed,
      idHandler cfg.idSpec auto f = .ok (id, auto1) ∧
      fileSpec cfg db auto1 f id = .ok (db1, auto', filed) ∧
      SameButRels db1 db' ∧
      (∀ fid, filed = some fid → fid ∈ db'.features.map (·.id)) ∧
      (∀ rel, rel ∈ db'.relations ↔
        rel ∈ db.relations ∨ ∃ fid, filed = some fid ∧
          ((∃ t, firstVal f cfg.transcriptKey = some t ∧ t ≠ fid ∧ rel = ⟨t, fid, 1⟩) ∨
           (∃ g, firstVal f cfg.geneKey = some g ∧ fid ≠ g ∧ firstVal f cfg.transcriptKey ≠ some fid ∧
              rel = ⟨g, fid, 2⟩) ∨
           (∃ g t, firstVal f cfg.geneKey = some g ∧ firstVal f cfg.transcriptKey = some t ∧ t ≠ g ∧
              rel = ⟨g, t, 1⟩))) := by
  cases hid : idHandler cfg.idSpec auto f with
  | error e => simp only [gtfStep, hid, bind, Except.bind] at h; cases h
  | ok r =>
    obtain ⟨id, auto1⟩ := r
    rw [gtfStep_eq cfg db auto auto1 f id hid] at h
    cases hf : fileFeature cfg db auto1 f id with
    | error e => rw [hf] at h; cases h
    | ok r =>
      obtain ⟨db1, auto2, filed⟩ := r
      rw [hf] at h
      simp only [Except.ok.injEq, Prod.mk.injEq] at h
      obtain ⟨rfl, rfl⟩ := h
      have hsame := attachGtf_same cfg db1 filed f
      refine ⟨id, auto1, db1, filed, rfl, by rw [← strategy_table]; exact hf, hsame, ?_, ?_⟩
      · intro fid hfid
        subst hfid
        rw [hsame.1]
        exact filed_is_stored cfg db db1 auto1 auto2 f id fid hf
      · intro rel
        rw [mem_attachGtf, (fileFeature_frame cfg db db1 auto1 auto2 f id filed hf).1]

/-- **6. attribute values after a merge: every value stored for the row the arrival was filed under comes
from the arrival or from a merged (matched) candidate, every value of both is present, no repeats; every
other row is untouched.** -/
theorem nothing_lost_or_invented_values (cfg : Cfg) (db : Db) (auto : Dict Nat) (f : Feature) (id : Str)
    (hs : cfg.strategy = .merge) (hc : db.hasId id = true) (hne : matched cfg db id f ≠ []) :
    ∃ db' fid, fileFeature cfg db auto f id = .ok (db', auto, some fid) ∧
      db'.features.map (·.id) = db.features.map (·.id) ∧
      fid ∈ db'.features.map (·.id) ∧
      (∀ r' ∈ db'.features, r'.id = fid → ∀ k,
        (∀ v, v ∈ (r'.attrs.get? k).getD [] ↔
          v ∈ (f.attrs.get? k).getD [] ∨ ∃ ex ∈ matched cfg db id f, ∃ vs, (k, vs) ∈ ex.attrs ∧ v ∈ vs) ∧
        ((r'.attrs.get? k).getD []).Nodup) ∧
      (∀ r', r'.id ≠ fid → (r' ∈ db'.features ↔ r' ∈ db.features)) := by
  obtain ⟨m, hm1, _, _, _, hfile⟩ := (merge_exact cfg db auto f id hs hc).1 hne
  refine ⟨_, m.id, hfile, ?_, ?_, ?_, ?_⟩
  · exact C04.modifyRow_ids db m.id _ (fun r => rfl)
  · show m.id ∈ (db.modifyRow m.id (mergeInto cfg f (matched cfg db id f))).features.map (·.id)
    rw [C04.modifyRow_ids db m.id (mergeInto cfg f (matched cfg db id f)) (fun r => rfl)]
    exact List.mem_map.mpr ⟨m, hm1, rfl⟩
  · intro r' hr' hid k
    simp only [List.mem_map] at hr'
    obtain ⟨x, _, hx⟩ := hr'
    by_cases hxi : x.id = m.id
    · rw [if_pos hxi] at hx
      subst hx
      refine ⟨fun v => mergedAttrs_values f _ k v, ?_⟩
      show ((mergedAttrs f (matched cfg db id f)).get? k).getD [] |>.Nodup
      cases hg : (mergedAttrs f (matched cfg db id f)).get? k with
      | none => simp
      | some vs => exact mergedAttrs_nodup f _ k vs hg
    · rw [if_neg hxi] at hx
      subst hx
      exact absurd hid hxi
  · intro r' hne'
    simp only [List.mem_map]
    constructor
    · rintro ⟨x, hx, hxe⟩
      by_cases hxi : x.id = m.id
      · rw [if_pos hxi] at hxe
        subst hxe
        exact absurd hxi hne'
      · rw [if_neg hxi] at hxe
        subst hxe; exact hx
    · intro hr
      exact ⟨r', hr, by rw [if_neg hne']⟩

/-! ## §2b The same, as steps of the two importers -/

/-- one line of the GFF3 importer = id_spec, then the decision table, then the Parent links -/
theorem gffStep_table (cfg : Cfg) (db : Db) (auto auto1 : Dict Nat) (f : Feature) (id : Str)
    (hid : idHandler cfg.idSpec auto f = .ok (id, auto1)) :
    gffStep cfg (db, auto) f =
      match fileSpec cfg db auto1 f id with
      | .error e => .error e
      | .ok (db1, auto2, filed) => .ok (attachParents db1 filed f, auto2) := by
  rw [gffStep_eq cfg db auto auto1 f id hid, strategy_table]
  cases fileSpec cfg db auto1 f id <;> rfl

/-- one line of the GTF importer = id_spec, then the decision table, then the transcript / gene links -/
theorem gtfStep_table (cfg : Cfg) (db : Db) (auto auto1 : Dict Nat) (f : Feature) (id : Str)
    (hid : idHandler cfg.idSpec auto f = .ok (id, auto1)) :
    gtfStep cfg (db, auto) f =
      match fileSpec cfg db auto1 f id with
      | .error e => .error e
      | .ok (db1, auto2, filed) => .ok (attachGtf cfg db1 filed f, auto2) := by
  rw [gtfStep_eq cfg db auto auto1 f id hid, strategy_table]
  cases fileSpec cfg db auto1 f id <;> rfl

/-- **1. `error`, importer step: both importers fail with `ValueError`** -/
theorem error_aborts_step (cfg : Cfg) (db : Db) (auto auto1 : Dict Nat) (f : Feature) (id : Str)
    (hs : cfg.strategy = .error) (hid : idHandler cfg.idSpec auto f = .ok (id, auto1)) (hc : db.hasId id = true) :
    gffStep cfg (db, auto) f = .error .value ∧ gtfStep cfg (db, auto) f = .error .value := by
  rw [gffStep_eq cfg db auto auto1 f id hid, gtfStep_eq cfg db auto auto1 f id hid,
    error_aborts cfg db auto1 f id hs hc]
  exact ⟨rfl, rfl⟩

/-- **1. `error`, whole import: the first collision aborts the import with `ValueError`**, whatever follows -/
theorem error_aborts_import (cfg : Cfg) (db db1 : Db) (auto auto1 auto2 : Dict Nat) (pre post : List Feature)
    (f : Feature) (id : Str) (hs : cfg.strategy = .error)
    (hpre : pre.foldlM (gffStep cfg) (db, auto) = .ok (db1, auto1))
    (hid : idHandler cfg.idSpec auto1 f = .ok (id, auto2)) (hc : db1.hasId id = true) :
    populateGff cfg db auto (pre ++ f :: post) = .error .value := by
  unfold populateGff
  have hne : (pre ++ f :: post).isEmpty = false := by cases pre <;> rfl
  rw [hne]
  exact foldlM_append_error _ pre post f _ _ _ hpre (error_aborts_step cfg db1 auto1 auto2 f id hs hid hc).1

theorem error_aborts_import_gtf (cfg : Cfg) (db db1 : Db) (auto auto1 auto2 : Dict Nat) (pre post : List Feature)
    (f : Feature) (id : Str) (hs : cfg.strategy = .error)
    (hpre : pre.foldlM (gtfStep cfg) (db, auto) = .ok (db1, auto1))
    (hid : idHandler cfg.idSpec auto1 f = .ok (id, auto2)) (hc : db1.hasId id = true) :
    populateGtf cfg db auto (pre ++ f :: post) = .error .value := by
  unfold populateGtf
  have hne : (pre ++ f :: post).isEmpty = false := by cases pre <;> rfl
  rw [hne]
  exact foldlM_append_error _ pre post f _ _ _ hpre (error_aborts_step cfg db1 auto1 auto2 f id hs hid hc).2

/-- **2. `warning`, importer step: the whole state — rows, relations, `duplicates` — is unchanged**
(the counters are those left by `id_spec`) -/
theorem warning_keeps_first_step (cfg : Cfg) (db : Db) (auto auto1 : Dict Nat) (f : Feature) (id : Str)
    (hs : cfg.strategy = .warning) (hid : idHandler cfg.idSpec auto f = .ok (id, auto1))
    (hc : db.hasId id = true) :
    gffStep cfg (db, auto) f = .ok (db, auto1) ∧ gtfStep cfg (db, auto) f = .ok (db, auto1) := by
  rw [gffStep_eq cfg db auto auto1 f id hid, gtfStep_eq cfg db auto auto1 f id hid,
    warning_keeps_first cfg db auto1 f id hs hc]
  exact ⟨rfl, rfl⟩

/-- **3. `replace`, importer step** -/
theorem replace_keeps_last_step (cfg : Cfg) (db : Db) (auto auto1 : Dict Nat) (f : Feature) (id : Str)
    (hs : cfg.strategy = .replace) (hid : idHandler cfg.idSpec auto f = .ok (id, auto1))
    (hc : db.hasId id = true) :
    gffStep cfg (db, auto) f = .ok (attachParents (db.replaceRow id (storedRow f id)) (some id) f, auto1) ∧
    gtfStep cfg (db, auto) f = .ok (attachGtf cfg (db.replaceRow id (storedRow f id)) (some id) f, auto1) := by
  rw [gffStep_eq cfg db auto auto1 f id hid, gtfStep_eq cfg db auto auto1 f id hid,
    replace_keeps_last cfg db auto1 f id hs hc]
  exact ⟨rfl, rfl⟩

/-- **4. `create_unique`, importer step** -/
theorem create_unique_all_step (cfg : Cfg) (db : Db) (auto auto1 : Dict Nat) (f : Feature) (id : Str)
    (hs : cfg.strategy = .createUnique) (hid : idHandler cfg.idSpec auto f = .ok (id, auto1))
    (hc : db.hasId id = true) (hfree : db.hasId (nextId auto1 id) = false) :
    gffStep cfg (db, auto) f =
      .ok (attachParents (addRow db (storedRow f (nextId auto1 id))) (some (nextId auto1 id)) f, bump auto1 id) ∧
    gtfStep cfg (db, auto) f =
      .ok (attachGtf cfg (addRow db (storedRow f (nextId auto1 id))) (some (nextId auto1 id)) f, bump auto1 id) := by
  rw [gffStep_eq cfg db auto auto1 f id hid, gtfStep_eq cfg db auto auto1 f id hid,
    (create_unique_all cfg db auto1 f id hs hc).1 hfree]
  exact ⟨rfl, rfl⟩

/-! ## §4 Whole imports, keys taken from a single-valued `ID` attribute (the default GFF3 `id_spec`) -/

/-- every arrival carries exactly one `ID` value -/
def Keyed (fs : List Feature) : Prop := ∀ f ∈ fs, ∃ k, idOf f = some k

/-- the key of an arrival (its `ID`) -/
def keyOf (f : Feature) : Str := (idOf f).getD []

/-- the ids stored in a database, in row order -/
def idsOf (db : Db) : List Str := db.features.map (·.id)

/-- **the first arrival of each key, in order of arrival**; the keys in `seen` count as already taken -/
def firstArrivals (seen : List Str) : List Feature → List Feature
  | [] => []
  | f :: fs => if keyOf f ∈ seen then firstArrivals seen fs else f :: firstArrivals (keyOf f :: seen) fs

/-- **the last arrival with key `k`** -/
def lastArrival (fs : List Feature) (k : Str) : Option Feature := (fs.filter (fun f => keyOf f = k)).getLast?

theorem keyOf_eq {f : Feature} {k : Str} (h : idOf f = some k) : keyOf f = k := by simp [keyOf, h]

theorem Keyed.tail {f : Feature} {fs : List Feature} (h : Keyed (f :: fs)) : Keyed fs :=
  fun g hg => h g (List.mem_cons_of_mem _ hg)

theorem Keyed.head {f : Feature} {fs : List Feature} (h : Keyed (f :: fs)) : idOf f = some (keyOf f) := by
  obtain ⟨k, hk⟩ := h f (by simp)
  rw [keyOf_eq hk]; exact hk

/-! ### sanity of the specification `firstArrivals` -/

theorem firstArrivals_congr (s1 s2 : List Str) (fs : List Feature) (h : ∀ k, k ∈ s1 ↔ k ∈ s2) :
    firstArrivals s1 fs = firstArrivals s2 fs := by
  induction fs generalizing s1 s2 with
  | nil => rfl
  | cons f fs ih =>
    simp only [firstArrivals]
    by_cases hk : keyOf f ∈ s1
    · rw [if_pos hk, if_pos ((h _).mp hk)]; exact ih s1 s2 h
    · rw [if_neg hk, if_neg (fun h2 => hk ((h _).mpr h2))]
      congr 1
      apply ih
      intro k; simp only [List.mem_cons, h k]

theorem firstArrivals_sublist (seen : List Str) (fs : List Feature) : (firstArrivals seen fs).Sublist fs := by
  induction fs generalizing seen with
  | nil => exact List.Sublist.slnil
  | cons f fs ih =>
    simp only [firstArrivals]
    split
    · exact (ih seen).cons f
    · exact (ih _).cons_cons f

/-- `f` is listed iff it is an arrival whose key is not taken and did not occur earlier -/
theorem mem_firstArrivals (seen : List Str) (fs : List Feature) (k : Str) :
    (∃ f ∈ firstArrivals seen fs, keyOf f = k) ↔ k ∉ seen ∧ ∃ f ∈ fs, keyOf f = k := by
  induction fs generalizing seen with
  | nil => simp [firstArrivals]
  | cons f fs ih =>
    simp only [firstArrivals]
    by_cases hk : keyOf f ∈ seen
    · rw [if_pos hk, ih seen]
      constructor
      · rintro ⟨h1, g, hg, hgk⟩; exact ⟨h1, g, List.mem_cons_of_mem _ hg, hgk⟩
      · rintro ⟨h1, g, hg, hgk⟩
        refine ⟨h1, ?_⟩
        rcases List.mem_cons.mp hg with rfl | hg
        · rw [hgk] at hk; exact absurd hk h1
        · exact ⟨g, hg, hgk⟩
    · rw [if_neg hk]
      simp only [List.mem_cons, exists_eq_or_imp]
      rw [ih (keyOf f :: seen)]
      simp only [List.mem_cons, not_or]
      constructor
      · rintro (h | ⟨⟨h1, h2⟩, g, hg, hgk⟩)
        · exact ⟨by rw [← h]; exact hk, Or.inl h⟩
        · exact ⟨h2, Or.inr ⟨g, hg, hgk⟩⟩
      · rintro ⟨h1, h | ⟨g, hg, hgk⟩⟩
        · exact Or.inl h
        · by_cases he : keyOf f = k
          · exact Or.inl he
          · exact Or.inr ⟨⟨fun e => he e.symm, h1⟩, g, hg, hgk⟩

/-- the listed arrivals have pairwise different keys, none of them in `seen` -/
theorem firstArrivals_keys_nodup (seen : List Str) (fs : List Feature) :
    ((firstArrivals seen fs).map keyOf).Nodup ∧ ∀ f ∈ firstArrivals seen fs, keyOf f ∉ seen := by
  induction fs generalizing seen with
  | nil => simp [firstArrivals]
  | cons f fs ih =>
    simp only [firstArrivals]
    by_cases hk : keyOf f ∈ seen
    · rw [if_pos hk]; exact ih seen
    · rw [if_neg hk]
      obtain ⟨h1, h2⟩ := ih (keyOf f :: seen)
      refine ⟨?_, ?_⟩
      · rw [List.map_cons, List.nodup_cons]
        refine ⟨?_, h1⟩
        intro hmem
        obtain ⟨g, hg, hgk⟩ := List.mem_map.mp hmem
        exact h2 g hg (by rw [hgk]; simp)
      · intro g hg
        rcases List.mem_cons.mp hg with rfl | hg
        · exact hk
        · exact fun hm => h2 g hg (List.mem_cons_of_mem _ hm)

/-- the listed arrival with key `k` is the first arrival with key `k` -/
theorem firstArrivals_find (seen : List Str) (fs : List Feature) (k : Str) (hk : k ∉ seen) :
    (firstArrivals seen fs).find? (fun f => keyOf f = k) = fs.find? (fun f => keyOf f = k) := by
  induction fs generalizing seen with
  | nil => rfl
  | cons f fs ih =>
    simp only [firstArrivals]
    by_cases hf : keyOf f ∈ seen
    · rw [if_pos hf]
      have : keyOf f ≠ k := fun e => hk (e ▸ hf)
      rw [List.find?_cons_of_neg (by simpa using this)]
      exact ih seen hk
    · rw [if_neg hf]
      by_cases he : keyOf f = k
      · rw [List.find?_cons_of_pos (by simpa using he), List.find?_cons_of_pos (by simpa using he)]
      · rw [List.find?_cons_of_neg (by simpa using he), List.find?_cons_of_neg (by simpa using he)]
        exact ih _ (by simp only [List.mem_cons, not_or]; exact ⟨fun e => he e.symm, hk⟩)

/-! ### one keyed arrival -/

/-- the row an arrival is stored as under its own key -/
def rowOf (f : Feature) : Row := storedRow f (keyOf f)

/-- the level-1 relation rows an arrival filed under `fid` contributes: one per `Parent` value -/
def linksOf (f : Feature) (fid : Str) : List Rel := (parentsOf f).map (fun p => ⟨p, fid, 1⟩)

theorem mem_linksOf (f : Feature) (fid : Str) (r : Rel) :
    r ∈ linksOf f fid ↔ ∃ p ∈ parentsOf f, r = ⟨p, fid, 1⟩ := by
  simp only [linksOf, List.mem_map]
  constructor
  · rintro ⟨p, hp, rfl⟩; exact ⟨p, hp, rfl⟩
  · rintro ⟨p, hp, rfl⟩; exact ⟨p, hp, rfl⟩

/-- tables other than `features` and `relations` -/
def SameOther (db db' : Db) : Prop :=
  db'.metaRows = db.metaRows ∧ db'.directives = db.directives ∧ db'.autoinc = db.autoinc ∧
  db'.duplicates = db.duplicates

theorem SameOther.refl (db : Db) : SameOther db db := ⟨rfl, rfl, rfl, rfl⟩
theorem SameOther.trans {a b c : Db} (h1 : SameOther a b) (h2 : SameOther b c) : SameOther a c :=
  ⟨h2.1.trans h1.1, h2.2.1.trans h1.2.1, h2.2.2.1.trans h1.2.2.1, h2.2.2.2.trans h1.2.2.2⟩
theorem SameButRels.other {a b : Db} (h : SameButRels a b) : SameOther a b := ⟨h.2.1, h.2.2.1, h.2.2.2.1, h.2.2.2.2⟩

/-- the state after filing under `fid` a row list `rows'` and attaching the arrival's links -/
theorem attach_facts (db : Db) (rows' : List Row) (fid : Str) (f : Feature) :
    let db1 := attachParents { db with features := rows' } (some fid) f
    db1.features = rows' ∧ (∀ r, r ∈ db1.relations ↔ r ∈ db.relations ∨ r ∈ linksOf f fid) ∧ SameOther db db1 := by
  intro db1
  have hs := attachParents_same { db with features := rows' } (some fid) f
  refine ⟨hs.1, fun r => ?_, hs.other⟩
  show r ∈ (attachParents { db with features := rows' } (some fid) f).relations ↔ _
  rw [mem_attachParents, mem_linksOf]
  simp

theorem kstep (st : Strategy) (d : Dialect) (db : Db) (auto : Dict Nat) (f : Feature)
    (hk : idOf f = some (keyOf f)) :
    gffStep (gffCfg st d) (db, auto) f =
      match fileSpec (gffCfg st d) db auto f (keyOf f) with
      | .error e => .error e
      | .ok (db1, auto2, filed) => .ok (attachParents db1 filed f, auto2) :=
  gffStep_table _ _ _ _ _ _ (C02.idHandler_default auto f _ hk)

/-- a keyed arrival whose key is free: appended unchanged, links attached — the same for every strategy -/
theorem kstep_fresh (st : Strategy) (d : Dialect) (db : Db) (auto : Dict Nat) (f : Feature)
    (hk : idOf f = some (keyOf f)) (hfree : keyOf f ∉ idsOf db) :
    gffStep (gffCfg st d) (db, auto) f =
      .ok (attachParents { db with features := db.features ++ [rowOf f] } (some (keyOf f)) f, auto) := by
  rw [kstep st d db auto f hk]
  unfold fileSpec
  rw [if_pos ((hasId_false_iff db _).mpr hfree)]
  rfl

theorem kstep_error (d : Dialect) (db : Db) (auto : Dict Nat) (f : Feature)
    (hk : idOf f = some (keyOf f)) (hmem : keyOf f ∈ idsOf db) :
    gffStep (gffCfg .error d) (db, auto) f = .error .value := by
  rw [kstep .error d db auto f hk]
  unfold fileSpec
  rw [if_neg (by rw [(hasId_iff db _).mpr hmem]; simp)]
  rfl

theorem kstep_warning (d : Dialect) (db : Db) (auto : Dict Nat) (f : Feature)
    (hk : idOf f = some (keyOf f)) (hmem : keyOf f ∈ idsOf db) :
    gffStep (gffCfg .warning d) (db, auto) f = .ok (db, auto) := by
  rw [kstep .warning d db auto f hk]
  unfold fileSpec
  rw [if_neg (by rw [(hasId_iff db _).mpr hmem]; simp)]
  rfl

theorem kstep_replace (d : Dialect) (db : Db) (auto : Dict Nat) (f : Feature)
    (hk : idOf f = some (keyOf f)) (hmem : keyOf f ∈ idsOf db) :
    gffStep (gffCfg .replace d) (db, auto) f =
      .ok (attachParents { db with features := db.features.map (fun x => if x.id = keyOf f then rowOf f else x) }
            (some (keyOf f)) f, auto) := by
  rw [kstep .replace d db auto f hk]
  unfold fileSpec
  rw [if_neg (by rw [(hasId_iff db _).mpr hmem]; simp)]
  rfl

theorem kstep_unique (d : Dialect) (db : Db) (auto : Dict Nat) (f : Feature)
    (hk : idOf f = some (keyOf f)) (hmem : keyOf f ∈ idsOf db) (hfree : nextId auto (keyOf f) ∉ idsOf db) :
    gffStep (gffCfg .createUnique d) (db, auto) f =
      .ok (attachParents { db with features := db.features ++ [storedRow f (nextId auto (keyOf f))] }
            (some (nextId auto (keyOf f))) f, bump auto (keyOf f)) := by
  rw [kstep .createUnique d db auto f hk]
  unfold fileSpec
  rw [if_neg (by rw [(hasId_iff db _).mpr hmem]; simp)]
  simp only [gffCfg]
  rw [if_neg (by rw [(hasId_false_iff db _).mpr hfree]; simp)]
  rfl

theorem kstep_unique_taken (d : Dialect) (db : Db) (auto : Dict Nat) (f : Feature)
    (hk : idOf f = some (keyOf f)) (hmem : keyOf f ∈ idsOf db) (htaken : nextId auto (keyOf f) ∈ idsOf db) :
    gffStep (gffCfg .createUnique d) (db, auto) f = .error .integrity := by
  rw [kstep .createUnique d db auto f hk]
  unfold fileSpec
  rw [if_neg (by rw [(hasId_iff db _).mpr hmem]; simp)]
  simp only [gffCfg]
  rw [if_pos ((hasId_iff db _).mpr htaken)]

/-! ### no collision: every strategy stores every arrival, in order -/

/-- **no two arrivals share a key and none is already stored ⇒ for every strategy the import succeeds,
appends every arrival unchanged in order of arrival, adds exactly the Parent links of every arrival,
touches nothing else and leaves the counters alone** -/
theorem no_collision_fold (st : Strategy) (d : Dialect) :
    ∀ (fs : List Feature) (db : Db) (auto : Dict Nat), Keyed fs → (idsOf db ++ fs.map keyOf).Nodup →
      ∃ db', fs.foldlM (gffStep (gffCfg st d)) (db, auto) = .ok (db', auto) ∧
        db'.features = db.features ++ fs.map rowOf ∧
        (∀ r, r ∈ db'.relations ↔ r ∈ db.relations ∨ ∃ f ∈ fs, r ∈ linksOf f (keyOf f)) ∧
        SameOther db db' := by
  intro fs
  induction fs with
  | nil => intro db auto _ _; exact ⟨db, rfl, by simp, by simp, SameOther.refl db⟩
  | cons f fs ih =>
    intro db auto hK hnd
    have hfree : keyOf f ∉ idsOf db := by
      intro hm
      rw [List.map_cons, List.nodup_append] at hnd
      exact hnd.2.2 _ hm _ (by simp) rfl
    have hstep := kstep_fresh st d db auto f hK.head hfree
    obtain ⟨hf1, hr1, ho1⟩ := attach_facts db (db.features ++ [rowOf f]) (keyOf f) f
    generalize attachParents { db with features := db.features ++ [rowOf f] } (some (keyOf f)) f = db1 at *
    have hnd1 : (idsOf db1 ++ fs.map keyOf).Nodup := by
      have : idsOf db1 = idsOf db ++ [keyOf f] := by simp [idsOf, hf1, rowOf]
      rw [this, List.append_assoc]; simpa using hnd
    obtain ⟨db', hrun, hf', hr', ho'⟩ := ih db1 auto hK.tail hnd1
    refine ⟨db', ?_, ?_, ?_, ho1.trans ho'⟩
    · rw [foldlM_cons_ok _ _ _ _ _ hstep]; exact hrun
    · rw [hf', hf1]; simp
    · intro r
      rw [hr', hr1]
      simp only [List.mem_cons, exists_eq_or_imp]
      exact or_assoc

/-- **1. `error`, whole import, keyed arrivals: as soon as two arrivals share a key (or an arrival's key is
already stored) the import fails with `ValueError`** -/
theorem error_aborts_fold (d : Dialect) :
    ∀ (fs : List Feature) (db : Db) (auto : Dict Nat), Keyed fs → (idsOf db).Nodup →
      ¬ (idsOf db ++ fs.map keyOf).Nodup →
      fs.foldlM (gffStep (gffCfg .error d)) (db, auto) = .error .value := by
  intro fs
  induction fs with
  | nil => intro db auto _ h0 hd; exact absurd (by simpa using h0) hd
  | cons f fs ih =>
    intro db auto hK h0 hd
    by_cases hmem : keyOf f ∈ idsOf db
    · exact foldlM_cons_error _ _ _ _ _ (kstep_error d db auto f hK.head hmem)
    · have hstep := kstep_fresh .error d db auto f hK.head hmem
      obtain ⟨hf1, _, _⟩ := attach_facts db (db.features ++ [rowOf f]) (keyOf f) f
      generalize attachParents { db with features := db.features ++ [rowOf f] } (some (keyOf f)) f = db1 at *
      have hids : idsOf db1 = idsOf db ++ [keyOf f] := by simp [idsOf, hf1, rowOf]
      rw [foldlM_cons_ok _ _ _ _ _ hstep]
      apply ih db1 auto hK.tail
      · rw [hids, List.nodup_append]
        refine ⟨h0, by simp, ?_⟩
        intro a ha b hb
        simp only [List.mem_singleton] at hb
        subst hb
        intro e; subst e; exact hmem ha
      · rw [hids, List.append_assoc]; simpa using hd

/-! ### `warning` -/

/-- **2. `warning`, whole import.**  The import succeeds; the stored rows are the old rows followed by
exactly the FIRST arrival of each new key, unchanged, in order of first arrival; the relations are the
old ones plus exactly the Parent links of those first arrivals; nothing else changes. -/
theorem warning_fold (d : Dialect) :
    ∀ (fs : List Feature) (db : Db) (auto : Dict Nat), Keyed fs →
      ∃ db', fs.foldlM (gffStep (gffCfg .warning d)) (db, auto) = .ok (db', auto) ∧
        db'.features = db.features ++ (firstArrivals (idsOf db) fs).map rowOf ∧
        (∀ r, r ∈ db'.relations ↔
          r ∈ db.relations ∨ ∃ f ∈ firstArrivals (idsOf db) fs, r ∈ linksOf f (keyOf f)) ∧
        SameOther db db' := by
  intro fs
  induction fs with
  | nil => intro db auto _; exact ⟨db, rfl, by simp [firstArrivals], by simp [firstArrivals], SameOther.refl db⟩
  | cons f fs ih =>
    intro db auto hK
    by_cases hmem : keyOf f ∈ idsOf db
    · obtain ⟨db', hrun, hf', hr', ho'⟩ := ih db auto hK.tail
      refine ⟨db', ?_, ?_, ?_, ho'⟩
      · rw [foldlM_cons_ok _ _ _ _ _ (kstep_warning d db auto f hK.head hmem)]; exact hrun
      · simp only [firstArrivals, if_pos hmem]; exact hf'
      · simp only [firstArrivals, if_pos hmem]; exact hr'
    · have hstep := kstep_fresh .warning d db auto f hK.head hmem
      obtain ⟨hf1, hr1, ho1⟩ := attach_facts db (db.features ++ [rowOf f]) (keyOf f) f
      generalize attachParents { db with features := db.features ++ [rowOf f] } (some (keyOf f)) f = db1 at *
      have hids : idsOf db1 = idsOf db ++ [keyOf f] := by simp [idsOf, hf1, rowOf]
      have hcongr : firstArrivals (idsOf db1) fs = firstArrivals (keyOf f :: idsOf db) fs :=
        firstArrivals_congr _ _ fs (fun k => by rw [hids]; simp [or_comm])
      obtain ⟨db', hrun, hf', hr', ho'⟩ := ih db1 auto hK.tail
      refine ⟨db', ?_, ?_, ?_, ho1.trans ho'⟩
      · rw [foldlM_cons_ok _ _ _ _ _ hstep]; exact hrun
      · simp only [firstArrivals, if_neg hmem]
        rw [hf', hf1, hcongr]; simp
      · intro r
        simp only [firstArrivals, if_neg hmem]
        rw [hr', hr1, hcongr]
        simp only [List.mem_cons, exists_eq_or_imp]
        exact or_assoc

/-! ### `replace` -/

/-- the content of a row after the import: that of the LAST arrival with the row's id if there is one,
otherwise unchanged -/
def replaced (fs : List Feature) (r : Row) : Row :=
  match lastArrival fs r.id with
  | some f => storedRow f r.id
  | none => r

theorem lastArrival_cons (f : Feature) (fs : List Feature) (k : Str) :
    lastArrival (f :: fs) k =
      match lastArrival fs k with
      | some g => some g
      | none => if keyOf f = k then some f else none := by
  unfold lastArrival
  by_cases h : keyOf f = k
  · rw [List.filter_cons_of_pos (by simpa using h), List.getLast?_cons, if_pos h]
    cases (fs.filter (fun f => decide (keyOf f = k))).getLast? <;> rfl
  · rw [List.filter_cons_of_neg (by simpa using h), if_neg h]
    cases (fs.filter (fun f => decide (keyOf f = k))).getLast? <;> rfl

theorem replaced_cons_ne (f : Feature) (fs : List Feature) (r : Row) (h : r.id ≠ keyOf f) :
    replaced (f :: fs) r = replaced fs r := by
  unfold replaced
  rw [lastArrival_cons, if_neg (fun e => h e.symm)]
  cases lastArrival fs r.id <;> rfl

theorem replaced_cons_eq (f : Feature) (fs : List Feature) (r : Row) (h : r.id = keyOf f) :
    replaced (f :: fs) r = replaced fs (rowOf f) := by
  unfold replaced
  rw [lastArrival_cons, if_pos h.symm]
  have : (rowOf f).id = r.id := by rw [h]; rfl
  rw [this]
  cases lastArrival fs r.id with
  | none => simp only [rowOf, h]
  | some g => rfl

/-- **3. `replace`, whole import.**  The import succeeds; the rows keep their places — old rows first, then
one row per new key in order of FIRST arrival — and each row whose key arrived holds the LAST arrival of
that key, unchanged; rows whose key never arrived are untouched.  The relations are the old ones plus the
Parent links of ALL arrivals (the links of overwritten arrivals are not withdrawn: known finding). -/
theorem replace_fold (d : Dialect) :
    ∀ (fs : List Feature) (db : Db) (auto : Dict Nat), Keyed fs →
      ∃ db', fs.foldlM (gffStep (gffCfg .replace d)) (db, auto) = .ok (db', auto) ∧
        db'.features = (db.features ++ (firstArrivals (idsOf db) fs).map rowOf).map (replaced fs) ∧
        (∀ r, r ∈ db'.relations ↔ r ∈ db.relations ∨ ∃ f ∈ fs, r ∈ linksOf f (keyOf f)) ∧
        SameOther db db' := by
  intro fs
  induction fs with
  | nil =>
    intro db auto _
    refine ⟨db, rfl, ?_, by simp, SameOther.refl db⟩
    simp only [firstArrivals, List.map_nil, List.append_nil]
    rw [List.map_congr_left (g := fun x => x)]
    · simp
    · intro x _; rfl
  | cons f fs ih =>
    intro db auto hK
    by_cases hmem : keyOf f ∈ idsOf db
    · have hstep := kstep_replace d db auto f hK.head hmem
      obtain ⟨hf1, hr1, ho1⟩ := attach_facts db
        (db.features.map (fun x : Row => if x.id = keyOf f then rowOf f else x)) (keyOf f) f
      generalize attachParents { db with features := (db.features.map
        (fun x => if x.id = keyOf f then rowOf f else x)) } (some (keyOf f)) f = db1 at *
      have hids : idsOf db1 = idsOf db := by
        simp only [idsOf, hf1, List.map_map]
        apply List.map_congr_left
        intro x _
        simp only [Function.comp]
        split
        · rename_i h; rw [h]; rfl
        · rfl
      obtain ⟨db', hrun, hf', hr', ho'⟩ := ih db1 auto hK.tail
      refine ⟨db', ?_, ?_, ?_, ho1.trans ho'⟩
      · rw [foldlM_cons_ok _ _ _ _ _ hstep]; exact hrun
      · simp only [firstArrivals, if_pos hmem]
        rw [hf', hf1, hids, List.map_append, List.map_append, List.map_map]
        congr 1
        · apply List.map_congr_left
          intro x _
          simp only [Function.comp]
          by_cases hx : x.id = keyOf f
          · rw [if_pos hx, replaced_cons_eq f fs x hx]
          · rw [if_neg hx, replaced_cons_ne f fs x hx]
        · apply List.map_congr_left
          intro x hx
          obtain ⟨g, hg, rfl⟩ := List.mem_map.mp hx
          symm
          apply replaced_cons_ne
          intro e
          exact (firstArrivals_keys_nodup (idsOf db) fs).2 g hg (by rw [show keyOf g = keyOf f from e]; exact hmem)
      · intro r
        rw [hr', hr1]
        simp only [List.mem_cons, exists_eq_or_imp]
        exact or_assoc
    · have hstep := kstep_fresh .replace d db auto f hK.head hmem
      obtain ⟨hf1, hr1, ho1⟩ := attach_facts db (db.features ++ [rowOf f]) (keyOf f) f
      generalize attachParents { db with features := db.features ++ [rowOf f] } (some (keyOf f)) f = db1 at *
      have hids : idsOf db1 = idsOf db ++ [keyOf f] := by simp [idsOf, hf1, rowOf]
      have hcongr : firstArrivals (idsOf db1) fs = firstArrivals (keyOf f :: idsOf db) fs :=
        firstArrivals_congr _ _ fs (fun k => by rw [hids]; simp [or_comm])
      obtain ⟨db', hrun, hf', hr', ho'⟩ := ih db1 auto hK.tail
      refine ⟨db', ?_, ?_, ?_, ho1.trans ho'⟩
      · rw [foldlM_cons_ok _ _ _ _ _ hstep]; exact hrun
      · simp only [firstArrivals, if_neg hmem]
        rw [hf', hf1, hcongr]
        simp only [List.map_append, List.map_cons, List.append_assoc, List.singleton_append]
        congr 1
        · apply List.map_congr_left
          intro x hx
          symm
          apply replaced_cons_ne
          intro e
          exact hmem (by rw [← e]; exact List.mem_map.mpr ⟨x, hx, rfl⟩)
        · congr 1
          · exact (replaced_cons_eq f fs (rowOf f) rfl).symm
          · apply List.map_congr_left
            intro x hx
            obtain ⟨g, hg, rfl⟩ := List.mem_map.mp hx
            symm
            apply replaced_cons_ne
            intro e
            exact (firstArrivals_keys_nodup (keyOf f :: idsOf db) fs).2 g hg
              (by rw [show keyOf g = keyOf f from e]; simp)
      · intro r
        rw [hr', hr1]
        simp only [List.mem_cons, exists_eq_or_imp]
        exact or_assoc

/-! ### `create_unique` -/

/-- how many holders of key `k` came before: earlier arrivals (those in `pre`) with that key, plus one if
a row with that id was already stored -/
def priorCount (ids0 : List Str) (pre : List Feature) (k : Str) : Nat :=
  (pre.filter (fun f => keyOf f = k)).length + (if k ∈ ids0 then 1 else 0)

/-- **the id `create_unique` gives an arrival with key `k` that comes after the arrivals `pre`**: `k` itself
if nobody held `k` before, otherwise `k_<c+j>` where `c` is the initial counter of `k` and `j` the number
of earlier holders -/
def uniqueId (ids0 : List Str) (auto0 : Dict Nat) (pre : List Feature) (k : Str) : Str :=
  if priorCount ids0 pre k = 0 then k else autoId k ((auto0.get? k).getD 0 + priorCount ids0 pre k)

/-- every arrival with the id it is given; `pre` = the arrivals before `rest` -/
def placements (ids0 : List Str) (auto0 : Dict Nat) : List Feature → List Feature → List (Feature × Str)
  | _, [] => []
  | pre, f :: rest => (f, uniqueId ids0 auto0 pre (keyOf f)) :: placements ids0 auto0 (pre ++ [f]) rest

/-- **domain condition for `create_unique`**: a generated id beyond the current counter is neither stored
already nor the key of an arrival -/
def Fresh (ids0 : List Str) (auto0 : Dict Nat) (fs : List Feature) : Prop :=
  ∀ f ∈ fs, ∀ n, (auto0.get? (keyOf f)).getD 0 < n →
    autoId (keyOf f) n ∉ ids0 ∧ ∀ g ∈ fs, keyOf g ≠ autoId (keyOf f) n

/-- a simple sufficient condition: no stored id and no key contains an underscore -/
theorem fresh_of_no_underscore (ids0 : List Str) (auto0 : Dict Nat) (fs : List Feature)
    (h0 : ∀ x ∈ ids0, '_' ∉ x) (h1 : ∀ f ∈ fs, '_' ∉ keyOf f) : Fresh ids0 auto0 fs := by
  intro f _ n _
  refine ⟨fun hm => h0 _ hm (underscore_mem_autoId _ _), fun g hg e => ?_⟩
  exact h1 g hg (by rw [e]; exact underscore_mem_autoId _ _)

/-- the `i`-th placement is the `i`-th arrival with the id computed from the arrivals before it -/
theorem placements_getElem? (ids0 : List Str) (auto0 : Dict Nat) (pre rest : List Feature) (i : Nat) :
    (placements ids0 auto0 pre rest)[i]? =
      (rest[i]?).map (fun f => (f, uniqueId ids0 auto0 (pre ++ rest.take i) (keyOf f))) := by
  induction rest generalizing pre i with
  | nil => simp [placements]
  | cons f rest ih =>
    cases i with
    | zero => simp [placements]
    | succ i =>
      simp only [placements, List.getElem?_cons_succ, List.take_succ_cons]
      rw [ih]
      simp

theorem placements_length (ids0 : List Str) (auto0 : Dict Nat) (pre rest : List Feature) :
    (placements ids0 auto0 pre rest).length = rest.length := by
  induction rest generalizing pre with
  | nil => rfl
  | cons f rest ih => simp [placements, ih]

theorem placements_shift (ids0 ids1 : List Str) (auto0 auto1 : Dict Nat) (f : Feature) (fs : List Feature)
    (h : ∀ pre, ∀ g ∈ fs, uniqueId ids1 auto1 pre (keyOf g) = uniqueId ids0 auto0 (f :: pre) (keyOf g)) :
    ∀ pre, placements ids1 auto1 pre fs = placements ids0 auto0 (f :: pre) fs := by
  induction fs with
  | nil => intro pre; rfl
  | cons g fs ih =>
    intro pre
    simp only [placements]
    rw [h pre g (by simp), ih (fun pre g' hg' => h pre g' (List.mem_cons_of_mem _ hg')) (pre ++ [g])]
    rfl

theorem priorCount_cons (ids0 : List Str) (f : Feature) (pre : List Feature) (k : Str) :
    priorCount ids0 (f :: pre) k = priorCount ids0 pre k + (if keyOf f = k then 1 else 0) := by
  unfold priorCount
  by_cases h : keyOf f = k
  · rw [List.filter_cons_of_pos (by simpa using h), if_pos h]; simp only [List.length_cons]; omega
  · rw [List.filter_cons_of_neg (by simpa using h), if_neg h]; omega

/-- **4. `create_unique`, whole import.**  Under `Fresh` the import succeeds and stores EVERY arrival
unchanged, appended in order of arrival; the `i`-th arrival, with key `k`, sits under `uniqueId … (fs.take i) k`:
under `k` if it is the first holder of `k`, under `k_<c+j>` if `j ≥ 1` holders came before (`c` = initial
counter of `k`).  The relations are the old ones plus the Parent links of every arrival, attached to the id it
was given.  The counter of every arriving key is advanced by the number of collisions. -/
theorem create_unique_fold (d : Dialect) :
    ∀ (fs : List Feature) (db : Db) (auto : Dict Nat), Keyed fs → Fresh (idsOf db) auto fs →
      ∃ db' auto', fs.foldlM (gffStep (gffCfg .createUnique d)) (db, auto) = .ok (db', auto') ∧
        db'.features = db.features ++ (placements (idsOf db) auto [] fs).map (fun p => storedRow p.1 p.2) ∧
        (∀ r, r ∈ db'.relations ↔
          r ∈ db.relations ∨ ∃ p ∈ placements (idsOf db) auto [] fs, r ∈ linksOf p.1 p.2) ∧
        (∀ k, (auto'.get? k).getD 0 = (auto.get? k).getD 0 + (priorCount (idsOf db) fs k - 1)) ∧
        SameOther db db' := by
  intro fs
  induction fs with
  | nil =>
    intro db auto _ _
    refine ⟨db, auto, rfl, by simp [placements], by simp [placements], fun k => ?_, SameOther.refl db⟩
    unfold priorCount; split <;> simp
  | cons f fs ih =>
    intro db auto hK hF
    have hFtail : ∀ g ∈ fs, ∀ n, (auto.get? (keyOf g)).getD 0 < n →
        autoId (keyOf g) n ∉ idsOf db ∧ ∀ g' ∈ f :: fs, keyOf g' ≠ autoId (keyOf g) n :=
      fun g hg => hF g (List.mem_cons_of_mem _ hg)
    by_cases hmem : keyOf f ∈ idsOf db
    · -- collision: filed under the next generated id
      have hfree : nextId auto (keyOf f) ∉ idsOf db := (hF f (by simp) _ (Nat.lt_succ_self _)).1
      have hstep := kstep_unique d db auto f hK.head hmem hfree
      obtain ⟨hf1, hr1, ho1⟩ := attach_facts db (db.features ++ [storedRow f (nextId auto (keyOf f))])
        (nextId auto (keyOf f)) f
      generalize attachParents { db with features := db.features ++ [storedRow f (nextId auto (keyOf f))] }
        (some (nextId auto (keyOf f))) f = db1 at *
      have hids : idsOf db1 = idsOf db ++ [nextId auto (keyOf f)] := by simp [idsOf, hf1]
      have hbump_self : ((bump auto (keyOf f)).get? (keyOf f)).getD 0 = (auto.get? (keyOf f)).getD 0 + 1 := by
        simp [bump, C04.Dict.get?_set_self]
      have hbump_ne : ∀ k, k ≠ keyOf f → (bump auto (keyOf f)).get? k = auto.get? k :=
        fun k hk => C04.Dict.get?_set_ne _ _ _ _ hk
      have hkey_ne : ∀ g ∈ f :: fs, keyOf g ≠ nextId auto (keyOf f) :=
        (hF f (by simp) _ (Nat.lt_succ_self _)).2
      have hF1 : Fresh (idsOf db1) (bump auto (keyOf f)) fs := by
        intro g hg n hn
        by_cases hgk : keyOf g = keyOf f
        · rw [hgk] at hn ⊢
          rw [hbump_self] at hn
          obtain ⟨h1, h2⟩ := hF f (by simp) n (by omega)
          refine ⟨?_, fun g' hg' => h2 g' (List.mem_cons_of_mem _ hg')⟩
          rw [hids, List.mem_append, List.mem_singleton]
          rintro (h | h)
          · exact h1 h
          · have := (autoId_inj _ _ _ _ h).2; omega
        · rw [hbump_ne _ hgk] at hn
          obtain ⟨h1, h2⟩ := hFtail g hg n hn
          refine ⟨?_, fun g' hg' => h2 g' (List.mem_cons_of_mem _ hg')⟩
          rw [hids, List.mem_append, List.mem_singleton]
          rintro (h | h)
          · exact h1 h
          · exact hgk (autoId_inj _ _ _ _ h).1
      have hshift : ∀ pre, ∀ g ∈ fs,
          uniqueId (idsOf db1) (bump auto (keyOf f)) pre (keyOf g) = uniqueId (idsOf db) auto (f :: pre) (keyOf g) := by
        intro pre g hg
        have hne := hkey_ne g (List.mem_cons_of_mem _ hg)
        have hpc : priorCount (idsOf db1) pre (keyOf g) = priorCount (idsOf db) pre (keyOf g) := by
          unfold priorCount
          rw [hids]
          simp only [List.mem_append, List.mem_singleton, hne, or_false]
        unfold uniqueId
        rw [priorCount_cons, hpc]
        by_cases hgk : keyOf f = keyOf g
        · rw [if_pos hgk]
          have hpos : priorCount (idsOf db) pre (keyOf g) ≠ 0 := by
            unfold priorCount; rw [← hgk, if_pos hmem]; omega
          rw [if_neg hpos, if_neg (by omega), ← hgk, hbump_self]
          congr 1; omega
        · rw [if_neg hgk, hbump_ne _ (fun e => hgk e.symm)]
          rfl
      obtain ⟨db', auto', hrun, hf', hr', hc', ho'⟩ := ih db1 (bump auto (keyOf f)) hK.tail hF1
      have hpl := placements_shift (idsOf db) (idsOf db1) auto (bump auto (keyOf f)) f fs hshift []
      have hu : uniqueId (idsOf db) auto [] (keyOf f) = nextId auto (keyOf f) := by
        unfold uniqueId priorCount nextId
        simp [hmem]
      refine ⟨db', auto', ?_, ?_, ?_, ?_, ho1.trans ho'⟩
      · rw [foldlM_cons_ok _ _ _ _ _ hstep]; exact hrun
      · rw [hf', hf1, hpl]
        simp only [placements, hu, List.nil_append, List.map_cons, List.append_assoc, List.singleton_append]
      · intro r
        rw [hr', hr1, hpl]
        simp only [placements, hu, List.nil_append, List.mem_cons, exists_eq_or_imp]
        exact or_assoc
      · intro k
        rw [hc' k, priorCount_cons]
        by_cases hk : k = keyOf f
        · subst hk
          rw [hbump_self, if_pos rfl]
          have hpc : priorCount (idsOf db1) fs (keyOf f) = priorCount (idsOf db) fs (keyOf f) := by
            unfold priorCount; rw [hids]
            simp only [List.mem_append, List.mem_singleton, hkey_ne f (by simp), or_false]
          have hpos : priorCount (idsOf db) fs (keyOf f) ≠ 0 := by
            unfold priorCount; rw [if_pos hmem]; omega
          rw [hpc]; omega
        · rw [hbump_ne k hk, if_neg (fun e => hk e.symm)]
          by_cases hn : k = nextId auto (keyOf f)
          · subst hn
            have h0 : (fs.filter (fun g => keyOf g = nextId auto (keyOf f))) = [] := by
              rw [List.filter_eq_nil_iff]
              intro g hg; simpa using hkey_ne g (List.mem_cons_of_mem _ hg)
            unfold priorCount
            rw [h0, hids, if_neg hfree]
            simp
          · have hpc : priorCount (idsOf db1) fs k = priorCount (idsOf db) fs k := by
              unfold priorCount; rw [hids]
              simp only [List.mem_append, List.mem_singleton, hn, or_false]
            rw [hpc]; simp
    · -- no collision: filed under its own key
      have hstep := kstep_fresh .createUnique d db auto f hK.head hmem
      obtain ⟨hf1, hr1, ho1⟩ := attach_facts db (db.features ++ [rowOf f]) (keyOf f) f
      generalize attachParents { db with features := db.features ++ [rowOf f] } (some (keyOf f)) f = db1 at *
      have hids : idsOf db1 = idsOf db ++ [keyOf f] := by simp [idsOf, hf1, rowOf]
      have hF1 : Fresh (idsOf db1) auto fs := by
        intro g hg n hn
        obtain ⟨h1, h2⟩ := hFtail g hg n hn
        refine ⟨?_, fun g' hg' => h2 g' (List.mem_cons_of_mem _ hg')⟩
        rw [hids, List.mem_append, List.mem_singleton]
        rintro (h | h)
        · exact h1 h
        · exact h2 f (by simp) h.symm
      have hpc : ∀ pre k, priorCount (idsOf db1) pre k = priorCount (idsOf db) (f :: pre) k := by
        intro pre k
        rw [priorCount_cons]
        unfold priorCount
        rw [hids]
        by_cases hk : keyOf f = k
        · subst hk
          simp [hmem]
        · have hk' : ¬ k = keyOf f := fun e => hk e.symm
          simp [hk, hk']
      have hshift : ∀ pre, ∀ g ∈ fs,
          uniqueId (idsOf db1) auto pre (keyOf g) = uniqueId (idsOf db) auto (f :: pre) (keyOf g) := by
        intro pre g _
        unfold uniqueId
        rw [hpc]
      obtain ⟨db', auto', hrun, hf', hr', hc', ho'⟩ := ih db1 auto hK.tail hF1
      have hpl := placements_shift (idsOf db) (idsOf db1) auto auto f fs hshift []
      have hu : uniqueId (idsOf db) auto [] (keyOf f) = keyOf f := by
        unfold uniqueId priorCount
        simp [hmem]
      refine ⟨db', auto', ?_, ?_, ?_, ?_, ho1.trans ho'⟩
      · rw [foldlM_cons_ok _ _ _ _ _ hstep]; exact hrun
      · rw [hf', hf1, hpl]
        simp only [placements, hu, List.nil_append, List.map_cons, List.append_assoc, List.singleton_append]
        rfl
      · intro r
        rw [hr', hr1, hpl]
        simp only [placements, hu, List.nil_append, List.mem_cons, exists_eq_or_imp]
        exact or_assoc
      · intro k
        rw [hc' k, hpc]

/-! ### the same, stated for `populateGff` (= `_populate_from_lines`; `create_db` starts it on the empty
database with no counters, `update` on the open database with the live counters) -/

theorem populateGff_ne (cfg : Cfg) (db : Db) (auto : Dict Nat) (fs : List Feature) (hne : fs ≠ []) :
    populateGff cfg db auto fs = fs.foldlM (gffStep cfg) (db, auto) := by
  unfold populateGff
  cases fs with
  | nil => exact absurd rfl hne
  | cons f fs => rfl

/-- **1. `error`, whole import** (`create_db` and `update` alike): if some key is held twice — by two
arrivals, or by an arrival and a stored row — the import fails with `ValueError` and returns nothing -/
theorem error_aborts_seq (d : Dialect) (fs : List Feature) (db : Db) (auto : Dict Nat)
    (hK : Keyed fs) (h0 : IdsNodup db) (hdup : ¬ (idsOf db ++ fs.map keyOf).Nodup) :
    populateGff (gffCfg .error d) db auto fs = .error .value := by
  have hne : fs ≠ [] := by
    rintro rfl
    exact hdup (by simpa [idsOf, IdsNodup] using h0)
  rw [populateGff_ne _ _ _ _ hne]
  exact error_aborts_fold d fs db auto hK h0 hdup

/-- **no collision, whole import: all five strategies behave alike** — every arrival stored unchanged,
in order, with exactly its Parent links -/
theorem no_collision_seq (st : Strategy) (d : Dialect) (fs : List Feature) (db : Db) (auto : Dict Nat)
    (hne : fs ≠ []) (hK : Keyed fs) (hnd : (idsOf db ++ fs.map keyOf).Nodup) :
    ∃ db', populateGff (gffCfg st d) db auto fs = .ok (db', auto) ∧
      db'.features = db.features ++ fs.map rowOf ∧
      (∀ r, r ∈ db'.relations ↔ r ∈ db.relations ∨ ∃ f ∈ fs, r ∈ linksOf f (keyOf f)) ∧
      SameOther db db' := by
  rw [populateGff_ne _ _ _ _ hne]
  exact no_collision_fold st d fs db auto hK hnd

/-- **2. `warning`, whole import**: the stored rows are the old rows followed by exactly the FIRST arrival
of each new key, unchanged, in order of first arrival; the level-1 relations added are exactly the Parent
links of those first arrivals; counters, `duplicates` and the other tables are untouched. -/
theorem warning_keeps_first_seq (d : Dialect) (fs : List Feature) (db : Db) (auto : Dict Nat)
    (hne : fs ≠ []) (hK : Keyed fs) :
    ∃ db', populateGff (gffCfg .warning d) db auto fs = .ok (db', auto) ∧
      db'.features = db.features ++ (firstArrivals (idsOf db) fs).map rowOf ∧
      (∀ r, r ∈ db'.relations ↔
        r ∈ db.relations ∨ ∃ f ∈ firstArrivals (idsOf db) fs, r ∈ linksOf f (keyOf f)) ∧
      SameOther db db' := by
  rw [populateGff_ne _ _ _ _ hne]
  exact warning_fold d fs db auto hK

/-- `create_db` with `warning`: exactly the first arrival per key -/
theorem warning_keeps_first_create (d : Dialect) (fs : List Feature) (hne : fs ≠ []) (hK : Keyed fs) :
    ∃ db', populateGff (gffCfg .warning d) {} [] fs = .ok (db', []) ∧
      db'.features = (firstArrivals [] fs).map rowOf ∧
      (∀ r, r ∈ db'.relations ↔ ∃ f ∈ firstArrivals [] fs, r ∈ linksOf f (keyOf f)) := by
  obtain ⟨db', h1, h2, h3, _⟩ := warning_keeps_first_seq d fs {} [] hne hK
  refine ⟨db', h1, by simpa [idsOf] using h2, fun r => ?_⟩
  rw [h3]
  simp [idsOf]

/-- **3. `replace`, whole import**: rows stay where the key FIRST appeared (old rows, then new keys in order
of first arrival); a row whose key arrived holds the LAST arrival of that key, unchanged; other rows are
untouched.  Relations: the old ones plus the Parent links of ALL arrivals (known finding: the links of
overwritten arrivals stay). -/
theorem replace_keeps_last_seq (d : Dialect) (fs : List Feature) (db : Db) (auto : Dict Nat)
    (hne : fs ≠ []) (hK : Keyed fs) :
    ∃ db', populateGff (gffCfg .replace d) db auto fs = .ok (db', auto) ∧
      db'.features = (db.features ++ (firstArrivals (idsOf db) fs).map rowOf).map (replaced fs) ∧
      (∀ r, r ∈ db'.relations ↔ r ∈ db.relations ∨ ∃ f ∈ fs, r ∈ linksOf f (keyOf f)) ∧
      SameOther db db' := by
  rw [populateGff_ne _ _ _ _ hne]
  exact replace_fold d fs db auto hK

/-- `create_db` with `replace`: one row per key, at the place of the first arrival, holding the last arrival -/
theorem replace_keeps_last_create (d : Dialect) (fs : List Feature) (hne : fs ≠ []) (hK : Keyed fs) :
    ∃ db', populateGff (gffCfg .replace d) {} [] fs = .ok (db', []) ∧
      db'.features.map (·.id) = (firstArrivals [] fs).map keyOf ∧
      (∀ f ∈ firstArrivals [] fs, ∃ l, lastArrival fs (keyOf f) = some l ∧ storedRow l (keyOf f) ∈ db'.features) ∧
      db'.features.length = (firstArrivals [] fs).length := by
  obtain ⟨db', h1, h2, _, _⟩ := replace_keeps_last_seq d fs {} [] hne hK
  have h2' : db'.features = ((firstArrivals [] fs).map rowOf).map (replaced fs) := by simpa [idsOf] using h2
  have hlast : ∀ f ∈ firstArrivals [] fs, ∃ l, lastArrival fs (keyOf f) = some l := by
    intro f hf
    have hmem : f ∈ fs := (firstArrivals_sublist [] fs).subset hf
    cases hl : lastArrival fs (keyOf f) with
    | some l => exact ⟨l, rfl⟩
    | none =>
      unfold lastArrival at hl
      rw [List.getLast?_eq_none_iff, List.filter_eq_nil_iff] at hl
      exact absurd (by simp) (hl f hmem)
  refine ⟨db', h1, ?_, ?_, by rw [h2']; simp⟩
  · rw [h2', List.map_map, List.map_map]
    apply List.map_congr_left
    intro f hf
    obtain ⟨l, hl⟩ := hlast f hf
    simp only [Function.comp, replaced, rowOf, storedRow_id, hl]
  · intro f hf
    obtain ⟨l, hl⟩ := hlast f hf
    refine ⟨l, hl, ?_⟩
    rw [h2']
    refine List.mem_map.mpr ⟨rowOf f, List.mem_map.mpr ⟨f, hf, rfl⟩, ?_⟩
    simp only [replaced, rowOf, storedRow_id, hl]

/-- **4. `create_unique`, whole import**: under `Fresh`, every arrival is stored unchanged, appended in
order; the `i`-th arrival (key `k`) sits under `uniqueId (idsOf db) auto (fs.take i) k`; the relations added
are the Parent links of every arrival under the id it was given. -/
theorem create_unique_all_seq (d : Dialect) (fs : List Feature) (db : Db) (auto : Dict Nat)
    (hne : fs ≠ []) (hK : Keyed fs) (hF : Fresh (idsOf db) auto fs) :
    ∃ db' auto', populateGff (gffCfg .createUnique d) db auto fs = .ok (db', auto') ∧
      db'.features.length = db.features.length + fs.length ∧
      (∀ i, i < db.features.length → db'.features[i]? = db.features[i]?) ∧
      (∀ i (hi : i < fs.length), db'.features[db.features.length + i]? =
          some (storedRow fs[i] (uniqueId (idsOf db) auto (fs.take i) (keyOf fs[i])))) ∧
      (∀ r, r ∈ db'.relations ↔ r ∈ db.relations ∨
          ∃ i, ∃ hi : i < fs.length, r ∈ linksOf fs[i] (uniqueId (idsOf db) auto (fs.take i) (keyOf fs[i]))) ∧
      (∀ k, (auto'.get? k).getD 0 = (auto.get? k).getD 0 + (priorCount (idsOf db) fs k - 1)) ∧
      SameOther db db' := by
  rw [populateGff_ne _ _ _ _ hne]
  obtain ⟨db', auto', hrun, hf, hr, hc, ho⟩ := create_unique_fold d fs db auto hK hF
  have hget : ∀ i (hi : i < fs.length), (placements (idsOf db) auto [] fs)[i]? =
      some (fs[i], uniqueId (idsOf db) auto (fs.take i) (keyOf fs[i])) := by
    intro i hi
    rw [placements_getElem?, List.getElem?_eq_getElem hi]
    simp
  refine ⟨db', auto', hrun, ?_, ?_, ?_, ?_, hc, ho⟩
  · rw [hf]; simp [placements_length]
  · intro i hi
    rw [hf, List.getElem?_append_left hi]
  · intro i hi
    rw [hf, List.getElem?_append_right (by omega)]
    simp only [Nat.add_sub_cancel_left, List.getElem?_map, hget i hi, Option.map_some]
  · intro r
    rw [hr]
    constructor
    · rintro (h | ⟨p, hp, hl⟩)
      · exact Or.inl h
      · obtain ⟨i, hi, hpi⟩ := List.getElem_of_mem hp
        have hi' : i < fs.length := by rw [placements_length] at hi; exact hi
        have := hget i hi'
        rw [List.getElem?_eq_getElem hi, Option.some.injEq, hpi] at this
        subst this
        exact Or.inr ⟨i, hi', hl⟩
    · rintro (h | ⟨i, hi, hl⟩)
      · exact Or.inl h
      · exact Or.inr ⟨_, List.mem_of_getElem? (hget i hi), hl⟩

/-- `create_db` with `create_unique`: the first arrival of `k` is stored under `k`, the `j`-th later arrival
of `k` under `k_j` -/
theorem uniqueId_create (pre : List Feature) (k : Str) :
    uniqueId [] [] pre k =
      if (pre.filter (fun f => keyOf f = k)).length = 0 then k
      else autoId k (pre.filter (fun f => keyOf f = k)).length := by
  unfold uniqueId priorCount
  simp [Dict.get?]

/-! ## §5 `update` re-uses the importer -/

/-- **7. `update` is the importer of `create_db` run on the session's tables and counters**, followed by the
same relation pass and `_finalize` (no new directives); an empty input is a no-op; a database whose
dialect is neither GFF3 nor GTF is rejected.  (This is close to the definition of the model's `update`, which
transcribes `FeatureDB.update`; the content is that the SAME `populateGff` / `populateGtf` — hence the
same `fileFeature`, to which every theorem above applies for arbitrary `db` and counters — is used.) -/
theorem update_same_as_create (s : Session) (cfg : Cfg) (fs : List Feature) :
    (fs = [] → update s cfg fs = .ok s) ∧
    (fs ≠ [] → s.dialect.fmt = Parser.gtf →
      update s cfg fs =
        match populateGtf cfg s.db s.auto fs with
        | .error e => .error e
        | .ok (db, auto) =>
          match updateRelationsGtf cfg db auto with
          | .error e => .error e
          | .ok (db, auto) => .ok { s with db := finalize db cfg.dialect [] auto, auto := auto }) ∧
    (fs ≠ [] → s.dialect.fmt = Parser.gff3 →
      update s cfg fs =
        match populateGff cfg s.db s.auto fs with
        | .error e => .error e
        | .ok (db, auto) =>
          .ok { s with db := finalize (updateRelationsGff db) cfg.dialect [] auto, auto := auto }) ∧
    (fs ≠ [] → s.dialect.fmt ≠ Parser.gtf → s.dialect.fmt ≠ Parser.gff3 → update s cfg fs = .error .value) := by
  have hgg : Parser.gff3 ≠ Parser.gtf := by decide
  refine ⟨?_, ?_, ?_, ?_⟩
  · rintro rfl; rfl
  · intro hne hfmt
    have he : fs.isEmpty = false := by cases fs with | nil => exact absurd rfl hne | cons _ _ => rfl
    simp only [update, he, hfmt, bind, Except.bind, pure, Except.pure, if_true, Bool.false_eq_true, if_false]
    cases populateGtf cfg s.db s.auto fs with
    | error e => rfl
    | ok r =>
      obtain ⟨db, auto⟩ := r
      simp only
      cases updateRelationsGtf cfg db auto with
      | error e => rfl
      | ok r => rfl
  · intro hne hfmt
    have he : fs.isEmpty = false := by cases fs with | nil => exact absurd rfl hne | cons _ _ => rfl
    simp only [update, he, hfmt, hgg, bind, Except.bind, pure, Except.pure, if_true, Bool.false_eq_true, if_false]
    cases populateGff cfg s.db s.auto fs with
    | error e => rfl
    | ok r => rfl
  · intro hne h1 h2
    have he : fs.isEmpty = false := by cases fs with | nil => exact absurd rfl hne | cons _ _ => rfl
    simp only [update, he, h1, h2, bind, Except.bind, pure, Except.pure, Bool.false_eq_true, if_false]

/-- `create_db` in the same form: the importer on the empty database with no counters -/
theorem createDb_gff_eq (cfg : Cfg) (dirs : List Str) (fs : List Feature) :
    createDb .gff cfg dirs fs =
      match populateGff cfg {} [] fs with
      | .error e => .error e
      | .ok (db, auto) => .ok (finalize (updateRelationsGff db) cfg.dialect dirs auto) := by
  simp only [createDb, bind, Except.bind, pure, Except.pure]
  cases populateGff cfg {} [] fs with
  | error e => rfl
  | ok r => rfl

/-- `update` on a freshly created empty GFF3 session yields the very database `create_db` builds -/
theorem update_empty_is_create (cfg : Cfg) (d : Dialect) (fs : List Feature) (hne : fs ≠ [])
    (hd : d.fmt = Parser.gff3) :
    (update { db := {}, auto := [], dialect := d, directives := [] } cfg fs).map (·.db) =
      createDb .gff cfg [] fs := by
  rw [(update_same_as_create _ cfg fs).2.2.1 hne hd, createDb_gff_eq]
  cases populateGff cfg {} [] fs with
  | error e => rfl
  | ok r => rfl

/-- example of transfer: `update(..., merge_strategy="warning")` on an open GFF3 database keeps the stored
rows and the first arrival of every new key -/
theorem update_warning (s : Session) (d : Dialect) (fs : List Feature) (hne : fs ≠ []) (hK : Keyed fs)
    (hfmt : s.dialect.fmt = Parser.gff3) :
    ∃ s', update s (gffCfg .warning d) fs = .ok s' ∧ s'.auto = s.auto ∧
      s'.db.features = s.db.features ++ (firstArrivals (idsOf s.db) fs).map rowOf ∧
      (∀ r, r.level = 1 → (r ∈ s'.db.relations ↔
        r ∈ s.db.relations ∨ ∃ f ∈ firstArrivals (idsOf s.db) fs, r ∈ linksOf f (keyOf f))) := by
  obtain ⟨db', h1, h2, h3, _⟩ := warning_keeps_first_seq d fs s.db s.auto hne hK
  rw [(update_same_as_create s _ fs).2.2.1 hne hfmt, h1]
  refine ⟨_, rfl, rfl, ?_, ?_⟩
  · show (finalize (updateRelationsGff db') _ _ _).features = _
    rw [C02.finalize_features, C02.updateRelationsGff_features, h2]
  · intro r hl
    show r ∈ (finalize (updateRelationsGff db') _ _ _).relations ↔ _
    rw [C02.finalize_relations, C02.updateRelationsGff_mem, h3]
    constructor
    · rintro (h | ⟨_, _, _, _, _, _, rfl⟩)
      · exact h
      · simp at hl
    · exact Or.inl

/-! ## §5b `merge` over a whole import — stated, NOT proved

`merge_exact` above is the complete one-arrival statement.  The whole-import reading of the property text
("arrivals are grouped by key and non-exempt columns; each group is one stored feature") is recorded here as
a `Prop`; it is not proved in this file.  Two side conditions are expected to be needed for it: candidate rows
must print successfully (`_candidate_merges` drops a candidate whose `str()` equals that of an earlier one,
and the model compares failed prints as equal), and attribute dictionaries must not repeat a key. -/

/-- two arrivals belong to the same merge group: same key, same text in every non-exempt column -/
def SameGroup (cfg : Cfg) (f g : Feature) : Prop := keyOf f = keyOf g ∧ Agrees cfg f g

/-- **whole-import form of `merge` (unproved)**: with `reps` the first arrival of every group, in order,
`create_db` stores exactly one row per group, in that order; the group of `reps[i]` sits under
`uniqueId [] [] (reps.take i) key` (`key` for the first group of a key, `key_j` for its `j`-th later group);
its values per attribute key are exactly the values of the group's arrivals, without repeats. -/
def merge_exact_seq_full : Prop :=
  ∀ (d : Dialect) (fmf : List Str) (fs reps : List Feature),
    let cfg : Cfg := { gffCfg .merge d with forceMergeFields := fmf }
    fs ≠ [] → Keyed fs → Fresh [] [] fs →
    reps.Sublist fs → reps.Pairwise (fun f g => ¬ SameGroup cfg f g) →
    (∀ pre f post, fs = pre ++ f :: post → (f ∈ reps ↔ ∀ g ∈ pre, ¬ SameGroup cfg g f)) →
    ∃ db auto, populateGff cfg {} [] fs = .ok (db, auto) ∧
      db.features.length = reps.length ∧
      ∀ i (hi : i < reps.length), ∃ row, db.features[i]? = some row ∧
        row.id = uniqueId [] [] (reps.take i) (keyOf reps[i]) ∧
        ∀ k, ((row.attrs.get? k).getD []).Nodup ∧
          ∀ v, v ∈ (row.attrs.get? k).getD [] ↔
            ∃ f ∈ fs, SameGroup cfg reps[i] f ∧ v ∈ (f.attrs.get? k).getD []

/-! ## §6 Non-vacuity: the hypotheses are met by concrete inputs, and the model computes what the theorems say -/

section Examples

private def s (x : String) : Str := x.toList

private def mk (ft id src : String) (st en : Int) (extra : List (String × List String)) : Feature :=
  { seqid := s "chr1", source := s src, ftype := s ft, start := some st, stop := some en,
    attrs := (("ID", [id]) :: extra).map (fun p => (s p.1, p.2.map s)) }

/-- five arrivals, four of them with key `g1`: different source (`a2`), different start (`a3`),
different source and start (`a4`) -/
private def a1 : Feature := mk "gene" "g1" "A" 1 100 [("Name", ["x"])]
private def e1 : Feature := mk "exon" "e1" "A" 1 50 [("Parent", ["g1"])]
private def a2 : Feature := mk "gene" "g1" "B" 1 100 [("Name", ["y", "x"]), ("Parent", ["p2"])]
private def a3 : Feature := mk "gene" "g1" "A" 5 100 [("Name", ["z"]), ("Parent", ["p3"])]
private def a4 : Feature := mk "gene" "g1" "C" 5 100 [("Note", ["n"])]

private def input : List Feature := [a1, e1, a2, a3, a4]

private def cfgOf (st : Strategy) (fmf : List String := []) : Cfg :=
  { gffCfg st Dialect.default with forceMergeFields := fmf.map s }

/-- what we look at: (id, source, start) per row, the relations, `duplicates`, the counters -/
private structure View where
  rows : List (Str × Str × Option Int)
  rels : List Rel
  dups : List (Str × Str)
  counters : List (Str × Nat)
  deriving DecidableEq

private def view (r : Py (Db × Dict Nat)) : Option View :=
  match r with
  | .ok (db, auto) => some ⟨db.features.map (fun r => (r.id, r.source, r.start)), db.relations, db.duplicates, auto⟩
  | .error _ => none

private def rel (p c : String) : Rel := ⟨s p, s c, 1⟩

private theorem keyed_of_all (fs : List Feature) (h : fs.all (fun f => (idOf f).isSome) = true) : Keyed fs := by
  intro f hf
  exact Option.isSome_iff_exists.mp (List.all_eq_true.mp h f hf)

private theorem input_keyed : Keyed input := keyed_of_all _ (by decide)
private theorem input_ne : input ≠ [] := by simp [input]

/-- `error`: the hypotheses of `error_aborts_seq` hold for `input` (key `g1` arrives four times) -/
example : populateGff (gffCfg .error Dialect.default) {} [] input = .error .value :=
  error_aborts_seq _ input {} [] input_keyed (by simp [IdsNodup]) (by decide)

/-- … and for `update`: the key of the only arrival is already stored -/
example : populateGff (gffCfg .error Dialect.default) { features := [rowOf a1] } [] [a2] = .error .value :=
  error_aborts_seq _ [a2] _ [] (keyed_of_all _ (by decide)) (by simp [IdsNodup]) (by decide)

/-- `warning`: first arrival per key, its Parent link only -/
example : ∃ db', populateGff (gffCfg .warning Dialect.default) {} [] input = .ok (db', []) ∧
    db'.features = [rowOf a1, rowOf e1] ∧ (∀ r, r ∈ db'.relations ↔ r = rel "g1" "e1") := by
  obtain ⟨db', h1, h2, h3⟩ := warning_keeps_first_create Dialect.default input input_ne input_keyed
  refine ⟨db', h1, h2, fun r => ?_⟩
  rw [h3]
  simp [firstArrivals, input, keyOf, a1, e1, a2, a3, a4, mk, idOf, C02.idKey, Dict.get?, s, linksOf, parentsOf, parentKey,
    rel]
  exact eq_comm

example : view (populateGff (cfgOf .warning) {} [] input) =
    some ⟨[(s "g1", s "A", some 1), (s "e1", s "A", some 1)], [rel "g1" "e1"], [], []⟩ := by decide +kernel

/-- `replace`: the row `g1` keeps its place and holds the LAST arrival `a4`; the links of `a2`, `a3` stay -/
example : ((([] : List Row) ++ (firstArrivals [] input).map rowOf).map (replaced input)) =
    [storedRow a4 (s "g1"), rowOf e1] := by decide +kernel

example : view (populateGff (cfgOf .replace) {} [] input) =
    some ⟨[(s "g1", s "C", some 5), (s "e1", s "A", some 1)],
          [rel "g1" "e1", rel "p2" "g1", rel "p3" "g1"], [], []⟩ := by decide +kernel

/-- `create_unique`: `Fresh` holds (no underscore anywhere); the later arrivals of `g1` sit under `g1_1..3` -/
private theorem input_fresh : Fresh (idsOf {}) [] input :=
  fresh_of_no_underscore _ _ _ (by simp [idsOf]) (by decide)

example : ∃ db' auto', populateGff (gffCfg .createUnique Dialect.default) {} [] input = .ok (db', auto') ∧
    db'.features[3]? = some (storedRow a3 (s "g1_2")) := by
  obtain ⟨db', auto', h1, _, _, h4, _⟩ :=
    create_unique_all_seq Dialect.default input {} [] input_ne input_keyed input_fresh
  refine ⟨db', auto', h1, ?_⟩
  have := h4 3 (by decide)
  simp only [List.length_nil, Nat.zero_add] at this
  rw [this]
  exact congrArg some (by decide +kernel)

example : view (populateGff (cfgOf .createUnique) {} [] input) =
    some ⟨[(s "g1", s "A", some 1), (s "e1", s "A", some 1), (s "g1_1", s "B", some 1), (s "g1_2", s "A", some 5),
           (s "g1_3", s "C", some 5)],
          [rel "g1" "e1", rel "p2" "g1_1", rel "p3" "g1_2"], [], [(s "g1", 3)]⟩ := by decide +kernel

/-- `create_unique`, the `IntegrityError` clause is real: `g1_1` is taken and the counter of `g1` is 0 -/
example : fileFeature (cfgOf .createUnique) { features := [rowOf a1, storedRow a2 (s "g1_1")] } [] a3 (s "g1")
    = .error .integrity :=
  (create_unique_all _ _ _ _ _ rfl (by decide)).2 (by decide +kernel)

/-- `merge`, nothing exempt: `a2` (source), `a3` (start), `a4` (both) each disagree with everything stored -/
example : view (populateGff (cfgOf .merge) {} [] input) =
    some ⟨[(s "g1", s "A", some 1), (s "e1", s "A", some 1), (s "g1_1", s "B", some 1), (s "g1_2", s "A", some 5),
           (s "g1_3", s "C", some 5)],
          [rel "g1" "e1", rel "p2" "g1_1", rel "p3" "g1_2"],
          [(s "g1", s "g1_1"), (s "g1", s "g1_2"), (s "g1", s "g1_3")], [(s "g1", 3)]⟩ := by decide +kernel

/-- `merge` with `source` exempt, one step through `merge_exact_single`: `a2` is merged into the row of `a1`;
its source becomes `A,B`, `Name` becomes `[y, x]` (arrival's values first, no repeat), `Parent` is added -/
private def db1 : Db := { features := [rowOf a1, rowOf e1] }

private theorem db1_matched :
    matched (cfgOf .merge ["source"]) db1 (s "g1") a2 = [(rowOf a1).toFeature Dialect.default] := by
  rfl

example : fileFeature (cfgOf .merge ["source"]) db1 [] a2 (s "g1") =
    .ok ({ db1 with features :=
            [{ rowOf a1 with source := s "A,B",
                             attrs := [(s "ID", [s "g1"]), (s "Name", [s "y", s "x"]), (s "Parent", [s "p2"])] },
             rowOf e1] }, [], some (s "g1")) := by
  have h := (merge_exact_single (cfgOf .merge ["source"]) db1 [] a2 (s "g1") rfl (by decide)
    (by unfold IdsNodup; decide) [] [rowOf e1] (rowOf a1) rfl db1_matched).1
  simp only [show (cfgOf .merge ["source"]).dialect = Dialect.default from rfl] at h
  rw [h]
  have hB : Str.split [','] (s "B") = [s "B"] := by simp [Str.split, splitAux_cons, splitAux_nil, s]
  have hA : Str.split [','] (s "A") = [s "A"] := by simp [Str.split, splitAux_cons, splitAux_nil, s]
  have hx : exemptText a2 [(rowOf a1).toFeature Dialect.default] (s "source") = s "A,B" := by
    unfold exemptText
    have h1 : colText a2 (s "source") = s "B" := by decide +kernel
    have h2 : colText ((rowOf a1).toFeature Dialect.default) (s "source") = s "A" := by decide +kernel
    simp only [List.map_cons, List.map_nil, h1, h2, List.flatMap_cons, List.flatMap_nil, hA, hB]
    have h3 : dedup ([s "B"] ++ ([s "A"] ++ [])) = [s "B", s "A"] := by decide +kernel
    have h4 : sortStrs [s "B", s "A"] = [s "A", s "B"] := by
      simp [sortStrs, List.mergeSort, List.MergeSort.Internal.splitInTwo, List.merge, strLe, s]
      decide
    rw [h3, h4]
    decide +kernel
  have hat : mergedAttrs a2 [(rowOf a1).toFeature Dialect.default] =
      [(s "ID", [s "g1"]), (s "Name", [s "y", s "x"]), (s "Parent", [s "p2"])] := by decide +kernel
  have hm : mergeInto (cfgOf .merge ["source"]) a2 [(rowOf a1).toFeature Dialect.default] (rowOf a1) =
      { rowOf a1 with source := exemptText a2 [(rowOf a1).toFeature Dialect.default] (s "source"),
                      attrs := mergedAttrs a2 [(rowOf a1).toFeature Dialect.default] } := by
    simp only [mergeInto]
    congr 1 <;> rfl
  rw [hm, hx, hat]
  rfl

/-- `update` on an empty GFF3 session is `create_db` -/
example : (update { db := {}, auto := [], dialect := Dialect.default, directives := [] }
      (gffCfg .replace Dialect.default) input).map (·.db) = createDb .gff (gffCfg .replace Dialect.default) [] input :=
  update_empty_is_create _ Dialect.default input input_ne rfl

/-- `update(..., merge_strategy="warning")` on a session that already stores `g1`: all four `g1` arrivals are
ignored, `e1` is added -/
example : ∃ s', update { db := { features := [rowOf a1] }, auto := [], dialect := Dialect.default, directives := [] }
      (gffCfg .warning Dialect.default) input = .ok s' ∧ s'.db.features = [rowOf a1, rowOf e1] := by
  obtain ⟨s', h1, _, h3, _⟩ := update_warning
    { db := { features := [rowOf a1] }, auto := [], dialect := Dialect.default, directives := [] }
    Dialect.default input input_ne input_keyed rfl
  exact ⟨s', h1, h3⟩

/-- one GFF3 step under `replace` succeeds, so `nothing_lost_or_invented` applies: the relations afterwards
are the old ones plus `(p2, g1, 1)` -/
example : ∃ db', gffStep (gffCfg .replace Dialect.default) (db1, []) a2 = .ok (db', []) ∧
    ∀ r, r ∈ db'.relations ↔ r ∈ db1.relations ∨ r = rel "p2" "g1" := by
  have hid : idHandler (gffCfg .replace Dialect.default).idSpec [] a2 = .ok (s "g1", []) :=
    C02.idHandler_default [] a2 (s "g1") (by decide)
  have hstep := (replace_keeps_last_step (gffCfg .replace Dialect.default) db1 [] [] a2 (s "g1") rfl hid (by decide)).1
  refine ⟨_, hstep, fun r => ?_⟩
  obtain ⟨id, auto1, db1', filed, h1, h2, _, _, h5⟩ := nothing_lost_or_invented _ _ _ _ _ _ hstep
  rw [hid] at h1
  simp only [Except.ok.injEq, Prod.mk.injEq] at h1
  obtain ⟨rfl, rfl⟩ := h1
  have hf : filed = some (s "g1") := by
    rw [← strategy_table, replace_keeps_last _ _ _ _ _ rfl (by decide)] at h2
    simp only [Except.ok.injEq, Prod.mk.injEq] at h2
    exact h2.2.2.symm
  rw [h5, hf]
  simp [parentsOf, a2, mk, parentKey, Dict.get?, s, rel]

/-- GTF importer, default GTF `id_spec`, `warning`: a second `gene` line with the same `gene_id` is ignored -/
private def gtfCfg (st : Strategy) : Cfg := { idSpec := defaultGtfSpec, strategy := st }
private def gg (src : String) : Feature :=
  { ftype := s "gene", source := s src, start := some 1, stop := some 9, attrs := [(s "gene_id", [s "G"])] }

example : gtfStep (gtfCfg .warning) ({ features := [storedRow (gg "A") (s "G")] }, []) (gg "B") =
    .ok ({ features := [storedRow (gg "A") (s "G")] }, []) :=
  (warning_keeps_first_step (gtfCfg .warning) _ [] [] (gg "B") (s "G") rfl (by rfl) (by decide)).2

example : gtfStep (gtfCfg .error) ({ features := [storedRow (gg "A") (s "G")] }, []) (gg "B") = .error .value :=
  (error_aborts_step (gtfCfg .error) _ [] [] (gg "B") (s "G") rfl (by rfl) (by decide)).2

/-- `replaceRow_shape` on a two-row table -/
example : db1.replaceRow (rowOf a1).id (storedRow a4 (s "g1")) = { db1 with features := [storedRow a4 (s "g1"), rowOf e1] } :=
  replaceRow_shape db1 [] [rowOf e1] (rowOf a1) _ rfl (by unfold IdsNodup; decide)

end Examples

end GffProofs.C05
