/-
  C11Sql2 — two additions to the SQL text layer (`GffProofs/Props/C11Sql.lean`).

  (a) `region` for ALL arguments: the evaluation of the generated statement IS `Interface.regionPy` — the rows of
      `Interface.region` when sqlite accepts the statement, `OperationalError` exactly when it does not
      (`regionExecutable`: no position restriction, or an empty featuretype collection).
  (b) C19 ("read-style methods issue no writes"): every statement the modelled builders produce is ONE SELECT
      statement — it starts with `SELECT ` (the count / DISTINCT-column texts after their leading blanks) and
      contains no `;`.  For `make_query` over arbitrary caller-supplied `other` / `extra` / bare `order_by`
      strings this holds exactly when those strings contain no `;` (they are pasted into the text verbatim).
-/
import GffProofs.Props.C11Sql
import GffProofs.Lemmas.C11Sql2Aux

namespace GffProofs.C11Sql
open GffModel GffModel.Sql GffModel.Interface

/-! ## (a) region, total -/

/-- the Boolean test of the model is the specification predicate -/
theorem regionExecutable_iff (a : RegionArgs) : regionExecutable a = true ↔ RegionArgs.executable a := by
  unfold regionExecutable RegionArgs.executable
  simp only [Bool.and_eq_true, Bool.or_eq_true, Option.isSome_iff_ne_none, bne_iff_ne, ne_eq, or_assoc]

theorem regionPos_nil (a : RegionArgs) (h1 : a.seqid = none) (h2 : truthy a.start = none) (h3 : truthy a.stop = none) :
    (regionPos a).1 = [] := by
  unfold regionPos regionStart regionStop
  cases a.within <;> simp [h1, h2, h3]

/-- sqlite rejects the statement of every non-executable call -/
theorem region_rejected (a : RegionArgs) (h : ¬ RegionArgs.executable a) : (regionAst a).1.accepted = false := by
  unfold RegionArgs.executable at h
  by_cases hft : a.featuretype = some []
  · -- `AND ()`
    have hc : (regionAst a).1.core.conds.all Cond.syntaxOk = false := by
      simp only [regionAst, SqlQuery.core, List.all_append]
      have : (regionFt a).1.toList.all Cond.syntaxOk = false := by
        simp [regionFt, hft, Cond.syntaxOk]
      rw [this]; simp
    unfold SqlQuery.accepted
    rw [hc]; rfl
  · -- `WHERE` followed by nothing
    have hpos : ¬ (a.seqid ≠ none ∨ truthy a.start ≠ none ∨ truthy a.stop ≠ none) := fun hp => h ⟨hp, hft⟩
    simp only [not_or, ne_eq] at hpos
    have hnil := regionPos_nil a (Classical.not_not.mp hpos.1) (Classical.not_not.mp hpos.2.1)
      (Classical.not_not.mp hpos.2.2)
    unfold SqlQuery.accepted
    simp only [regionAst, hnil, List.isEmpty_nil, Bool.not_true, Bool.and_false]

/-- `eval` of the statement `region` executes, with the rowids, for ALL arguments -/
theorem eval_region_rows (db : Db) (a : RegionArgs) :
    eval (regionAst a).1 (regionAst a).2 db =
      if regionExecutable a then .ok ((indexed db.features).filter (fun p => regionMatches a p.2))
      else .error .operational := by
  by_cases hx : regionExecutable a = true
  · rw [if_pos hx]
    exact eval_region db a ((regionExecutable_iff a).mp hx)
  · rw [if_neg hx]
    have hrej := region_rejected a (fun h => hx ((regionExecutable_iff a).mpr h))
    unfold eval
    rw [hrej]; rfl

/-- **`eval` of the generated `region` statement equals `Interface.regionPy`, for all arguments and sessions**:
the rows of the meaning-level `region` in the same order when sqlite accepts the statement, and
`OperationalError` exactly when it rejects it. -/
theorem eval_region_eq_regionPy (s : Session) (a : RegionArgs) :
    (eval (regionAst a).1 (regionAst a).2 s.db).map (fun rows => rows.map (·.2)) = regionPy s a := by
  rw [eval_region_rows]
  unfold regionPy
  by_cases hx : regionExecutable a = true
  · simp only [hx, if_true, Except.map, region]
    rw [GffProofs.C11.filter_indexed]
  · simp only [hx, Bool.false_eq_true, if_false, Except.map]

/-- … on the text actually executed -/
theorem eval_regionText_eq_regionPy (s : Session) (a : RegionArgs) :
    ∃ q, render q = (regionText a).1 ∧
      (eval q (regionText a).2 s.db).map (fun rows => rows.map (·.2)) = regionPy s a := by
  refine ⟨(regionAst a).1, ?_, ?_⟩
  · rw [regionText_eq_render]
  · rw [regionText_eq_render]; exact eval_region_eq_regionPy s a

/-! ## (b) reads are single SELECT statements (C19) -/

/-- every statement of the AST: first keyword `SELECT`, and — without unvalidated ORDER BY text — no `;` -/
theorem render_is_select (q : SqlQuery) : StartsSelectWs (render q) ∧ (NoRaw q → ';' ∉ render q) :=
  ⟨startsSelectWs_render q, noSemi_render q⟩

/-- the `make_query` and `region` statement shapes start with `SELECT ` at the first character -/
theorem render_select_region_starts (q : SqlQuery) (h : match q with | .select _ | .region _ => True | _ => False) :
    StartsSelect (render q) := by
  cases q with
  | select s => exact startsSelect_select s
  | region r => exact startsSelect_region r
  | count b => exact h.elim
  | distinctCol c => exact h.elim

/-- what the caller pastes into the text contains no `;` -/
def MqArgs.noSemi (a : MqArgs) : Prop :=
  ';' ∉ a.other.getD [] ∧ ';' ∉ a.extra.getD [] ∧ OrderBy.noSemi a.orderBy

/-- `make_query` over ARBITRARY `other` / `extra` / `order_by` strings: the text always starts with `SELECT `;
it is free of `;` when the pasted strings are (bound parameters — featuretypes, seqid, coordinates, strand, ids —
never enter the text) -/
theorem makeQuery_is_select (a : MqArgs) (t : Str) (args : List SqlArg) (h : makeQuery a = .ok (t, args)) :
    StartsSelect t ∧ (MqArgs.noSemi a → ';' ∉ t) := by
  obtain ⟨h1, h2⟩ := makeQueryCore_select _ _ _ _ _ _ _ _ _ t args h
  exact ⟨h1, fun hn => h2 hn.1 hn.2.1 hn.2.2⟩

/-- … and the hypothesis is exact: a `;` in any pasted string is a `;` in the text -/
theorem makeQuery_semi_iff (a : MqArgs) (t : Str) (args : List SqlArg) (h : makeQuery a = .ok (t, args))
    (ho : match a.orderBy with | .str _ => False | _ => True) :
    ';' ∈ t ↔ (';' ∈ a.other.getD [] ∨ ';' ∈ a.extra.getD []) := by
  constructor
  · intro ht
    apply Classical.byContradiction
    intro hn
    simp only [not_or] at hn
    have hob : OrderBy.noSemi a.orderBy := by
      cases hb : a.orderBy with
      | str s => rw [hb] at ho; exact ho.elim
      | none => trivial
      | tuple l => trivial
    exact (makeQuery_is_select a t args h).2 ⟨hn.1, hn.2, hob⟩ ht
  · intro hs
    unfold makeQuery makeQueryCore at h
    simp only [Bind.bind, Except.bind, pure, Except.pure] at h
    split at h
    · cases h
    · cases hl : limitSlot a.limit a.within with
      | error e => rw [hl] at h; cases h
      | ok la =>
        rw [hl] at h
        cases hq : orderSlot a.orderBy a.reverse with
        | error e => rw [hq] at h; cases h
        | ok obt =>
          rw [hq] at h
          simp only [Except.ok.injEq, Prod.mk.injEq] at h
          rw [← h.1]
          unfold formatQuery
          simp only [List.mem_append]
          rcases hs with hs | hs
          · exact Or.inl (Or.inl (Or.inl (Or.inl (Or.inl (Or.inl (Or.inl (Or.inl (Or.inl (Or.inl (Or.inr hs))))))))))
          · refine Or.inl (Or.inl (Or.inl (Or.inl (Or.inl (Or.inl (Or.inl (Or.inl (Or.inr ?_))))))))
            unfold prefixSlot
            split
            · exact hs
            · split <;> exact List.mem_append_right _ hs

/-- the callers' uses of `make_query` (`all_features`, `features_of_type`, `_relation`'s inner call): the `other` /
`extra` texts are the fixed JOIN and level clauses — no hypothesis on them -/
theorem makeQuery_callers_select (a : SArgs) (t : Str) (args : List SqlArg) (h : makeQuery a.toMq = .ok (t, args)) :
    StartsSelect t ∧ (OrderBy.noSemi a.orderBy → ';' ∉ t) := by
  obtain ⟨h1, h2⟩ := makeQuery_is_select a.toMq t args h
  refine ⟨h1, fun hn => h2 ⟨?_, ?_, hn⟩⟩
  · rw [toMq_other]
    cases a.other with
    | none => simp [Other.text]
    | join on to => exact noSemi_otherText on to
  · rw [toMq_extra]
    cases a.extra with
    | none => simp [Extra.text]
    | level => decide

/-- `children` / `parents`: the executed text starts with `SELECT DISTINCT ` (whatever `order_by` is), and with a
known `order_by` it has no `;` -/
theorem relationText_is_select (r : RelArgs) (t : Str) (args : List SqlArg) (h : relationText r = .ok (t, args)) :
    ("SELECT DISTINCT ".toList).isPrefixOf t = true ∧ (OrderBy.known r.orderBy → ';' ∉ t) := by
  constructor
  · have e2 : relationText r =
        (makeQuery r.toSArgs.toMq >>= fun p => pure (replaceAll kwSelect kwSelectDistinct p.1, p.2)) := by
      rw [← relation_mq r]; rfl
    rw [e2] at h
    cases hm : makeQuery r.toSArgs.toMq with
    | error e => rw [hm] at h; cases h
    | ok p =>
      rw [hm] at h
      simp only [Bind.bind, Except.bind, pure, Except.pure, Except.ok.injEq, Prod.mk.injEq] at h
      rw [← h.1]
      exact replaceAll_startsSelect p.1 (makeQuery_is_select _ p.1 p.2 hm).1
  · intro hk
    rw [relationText_eq_render r hk] at h
    cases hq : relationAst r with
    | error e => rw [hq] at h; cases h
    | ok p =>
      rw [hq] at h
      simp only [Except.map, Except.ok.injEq, Prod.mk.injEq] at h
      rw [← h.1]
      apply noSemi_render
      -- no unvalidated ORDER BY text
      unfold relationAst at hq
      cases hm : makeSelect r.toSArgs with
      | error e => rw [hm] at hq; cases hq
      | ok sp =>
        rw [hm] at hq
        simp only [Except.map, Except.ok.injEq] at hq
        obtain ⟨_, ho⟩ := makeSelect_distinct _ sp.1 sp.2 hm
        intro ts d hs
        rw [← hq] at hs
        simp only [SqlQuery.core] at hs
        rw [hs] at ho
        exact (orderAst_allKeys _ _ ts d hk ho).1

/-- `region`: for ALL arguments -/
theorem regionText_is_select (a : RegionArgs) : StartsSelect (regionText a).1 ∧ ';' ∉ (regionText a).1 := by
  rw [regionText_eq_render]
  exact ⟨startsSelect_region _, noSemi_region _⟩

/-- `count_features_of_type`, `featuretypes`, `seqids` -/
theorem count_distinct_is_select (b : Bool) (c : FCol) :
    StartsSelectWs (countText b) ∧ ';' ∉ countText b ∧
    StartsSelectWs (distinctColText c) ∧ ';' ∉ distinctColText c :=
  ⟨startsSelectWs_render (.count b), noSemi_render (.count b) (fun _ _ hs => by simp [SqlQuery.core] at hs),
   startsSelectWs_render (.distinctCol c), noSemi_render (.distinctCol c) (fun _ _ hs => by simp [SqlQuery.core] at hs)⟩

/-- **C19, SQL side: every statement a read-style method executes is a single SELECT.**
For all arguments of `all_features` / `features_of_type` (1), `children` / `parents` (2), `region` (3),
`count_features_of_type` / `featuretypes` / `seqids` (4): the text starts with `SELECT` and contains no `;`
(for (1), (2): when a bare-string `order_by` is a column key, resp. contains no `;` — it is pasted unvalidated). -/
theorem reads_are_selects :
    (∀ limit strand ft ob rev within t args, featuresText limit strand ft ob rev within = .ok (t, args) →
        StartsSelect t ∧ (OrderBy.noSemi ob → ';' ∉ t)) ∧
    (∀ (r : RelArgs) t args, relationText r = .ok (t, args) →
        StartsSelect t ∧ (OrderBy.known r.orderBy → ';' ∉ t)) ∧
    (∀ a : RegionArgs, StartsSelect (regionText a).1 ∧ ';' ∉ (regionText a).1) ∧
    (∀ ft : Option Str, StartsSelectWs (countText ft.isSome) ∧ ';' ∉ countText ft.isSome) ∧
    (∀ c : FCol, StartsSelectWs (distinctColText c) ∧ ';' ∉ distinctColText c) := by
  refine ⟨?_, ?_, regionText_is_select, ?_, ?_⟩
  · intro limit strand ft ob rev within t args h
    exact makeQuery_callers_select
      { limit := limit, strand := strand, featuretype := ft, orderBy := ob, reverse := rev, within := within } t args h
  · intro r t args h
    obtain ⟨h1, h2⟩ := relationText_is_select r t args h
    refine ⟨?_, h2⟩
    show kwSelectSp.isPrefixOf t = true
    rw [List.isPrefixOf_iff_prefix] at h1 ⊢
    obtain ⟨rest, rfl⟩ := h1
    exact ⟨"DISTINCT ".toList ++ rest, by rw [← List.append_assoc]; rfl⟩
  · intro ft
    exact ⟨(count_distinct_is_select ft.isSome .id).1, (count_distinct_is_select ft.isSome .id).2.1⟩
  · intro c
    exact ⟨(count_distinct_is_select true c).2.2.1, (count_distinct_is_select true c).2.2.2⟩

/-! ## non-vacuity and witnesses -/


private def mkRow (id seqid ftype : String) (start stop : Option Int) : Row :=
  { id := id.toList, seqid := seqid.toList, source := ['.'], ftype := ftype.toList, start := start, stop := stop,
    score := ['.'], strand := ['+'], frame := ['.'], attrs := [], extra := [], bin := some 4681 }

private def s0 : Session :=
  { db := { features := [mkRow "g1" "chr1" "gene" (some 100) (some 500), mkRow "e1" "chr2" "exon" (some 100) (some 150)] },
    auto := [], dialect := Dialect.default, directives := [] }

-- (a) both branches of `regionPy` occur, and `eval` follows them
example : regionExecutable {} = false ∧ regionPy s0 {} = .error .operational ∧
    eval (regionAst {}).1 (regionAst {}).2 s0.db = .error .operational := by
  refine ⟨by decide, by decide +kernel, by decide +kernel⟩
example : regionExecutable { start := some 0 } = false ∧
    regionExecutable { seqid := some "chr1".toList, featuretype := some [] } = false ∧
    regionExecutable { start := some 5 } = true := by decide
example : regionPy s0 { seqid := some "chr1".toList, start := some 120, stop := some 300 } =
      .ok [mkRow "g1" "chr1" "gene" (some 100) (some 500)] ∧
    (eval (regionAst { seqid := some "chr1".toList, start := some 120, stop := some 300 }).1
          (regionAst { seqid := some "chr1".toList, start := some 120, stop := some 300 }).2 s0.db).map
        (fun rows => rows.map (·.2)) = .ok [mkRow "g1" "chr1" "gene" (some 100) (some 500)] := by
  refine ⟨by decide +kernel, by decide +kernel⟩

-- (b) a full `make_query` text: starts with SELECT, no `;`
example :
    (makeQuery { featuretype := .coll ["exon".toList, "gene".toList], strand := some ['+'],
                 limit := .str "chr1:90-600".toList, orderBy := .tuple ["seqid".toList, "length".toList],
                 reverse := true }).map (fun p => (kwSelectSp.isPrefixOf p.1, p.1.contains ';')) = .ok (true, false) := by
  decide +kernel
example : MqArgs.noSemi { other := some (otherText .child .parent), extra := some levelText, orderBy := .str "start".toList } := by
  refine ⟨by decide +kernel, by decide, ?_⟩
  show ';' ∉ "start".toList
  decide
-- the hypothesis is needed: a `;` in a caller-supplied text (or a bare-string `order_by`) reaches the statement
example :
    (makeQuery { other := some "; DROP TABLE features".toList }).map (fun p => p.1.contains ';') = .ok true ∧
    (makeQuery { orderBy := .str "start; DELETE FROM features".toList }).map (fun p => p.1.contains ';') = .ok true := by
  refine ⟨by decide +kernel, by decide +kernel⟩
-- children("g1", level=1, order_by="end"): SELECT DISTINCT …, no `;`
example :
    (relationText { isChildren := true, id := "g1".toList, level := some 1, orderBy := .str "end".toList }).map
      (fun p => (("SELECT DISTINCT ".toList).isPrefixOf p.1, p.1.contains ';')) = .ok (true, false) := by
  decide +kernel
-- the count / distinct statements start with blanks, then SELECT
example : ¬ StartsSelect (countText true) ∧ StartsSelectWs (countText true) := by
  refine ⟨by decide +kernel, by decide +kernel⟩

end GffProofs.C11Sql
