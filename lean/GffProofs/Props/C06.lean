/-
  C06 — region and limit queries return exactly the overlapping / contained features: the bin
  pre-filter is transparent wherever the code applies it (by C12's soundness theorems), for all
  coordinates including bin boundaries and values at or beyond 2^29.
-/
import GffModel.Interface
import GffProofs.Props.C12

namespace GffProofs.C06
open GffModel GffModel.Interface

/-- every stored row's bin is the bin of its coordinates (what `Feature.astuple` computes) -/
def BinInv (db : Db) : Prop :=
  ∀ r ∈ db.features, r.bin = (match Feature.calcBin r.start r.stop with
    | some (.int b) => some b
    | _ => none)

/-- rows written by the importer satisfy the invariant -/
theorem ofFeature_bin (f : Feature) (r : Row) (h : Row.ofFeature f = .ok r) :
    r.bin = (match Feature.calcBin r.start r.stop with | some (.int b) => some b | _ => none) := by
  unfold Row.ofFeature at h
  split at h
  · cases h
  · split at h
    · cases h
    · cases h; rfl

/-- `Db.insert`, `replaceRow` with an `ofFeature` row, `modifyRow` that leaves coordinates and bin
alone, `deleteId`, relation inserts: all preserve `BinInv` -/
theorem insert_preserves (db db' : Db) (f : Feature) (r : Row) (hr : Row.ofFeature f = .ok r)
    (hi : BinInv db) (h : db.insert r = .ok db') : BinInv db' := by
  unfold Db.insert at h
  split at h
  · cases h
  · cases h
    intro x hx
    simp only [List.mem_append, List.mem_singleton] at hx
    rcases hx with hx | rfl
    · exact hi x hx
    · exact ofFeature_bin f x hr
theorem delete_preserves (db : Db) (id : Str) (hi : BinInv db) : BinInv (db.deleteId id) := by
  intro x hx
  simp only [Db.deleteId, List.mem_filter] at hx
  exact hi x hx.1

theorem replaceRow_preserves (db : Db) (id : Str) (f : Feature) (r : Row) (hr : Row.ofFeature f = .ok r)
    (hi : BinInv db) : BinInv (db.replaceRow id r) := by
  intro x hx
  simp only [Db.replaceRow, List.mem_map] at hx
  obtain ⟨y, hy, rfl⟩ := hx
  split
  · exact ofFeature_bin f r hr
  · exact hi y hy

theorem modifyRow_preserves (db : Db) (id : Str) (g : Row → Row)
    (hg : ∀ x, (g x).start = x.start ∧ (g x).stop = x.stop ∧ (g x).bin = x.bin)
    (hi : BinInv db) : BinInv (db.modifyRow id g) := by
  intro x hx
  simp only [Db.modifyRow, List.mem_map] at hx
  obtain ⟨y, hy, rfl⟩ := hx
  split
  · obtain ⟨h1, h2, h3⟩ := hg y
    rw [h1, h2, h3]; exact hi y hy
  · exact hi y hy

theorem insertRelIgnore_preserves (db : Db) (rel : Rel) (hi : BinInv db) : BinInv (db.insertRelIgnore rel) := by
  unfold Db.insertRelIgnore
  split
  · exact hi
  · exact hi

theorem insertRel_preserves (db db' : Db) (rel : Rel) (hi : BinInv db) (h : db.insertRel rel = .ok db') :
    BinInv db' := by
  unfold Db.insertRel at h
  split at h
  · cases h
  · cases h; exact hi

/-- the plain overlap predicate of the property: `row.start ≤ end ∧ row.end ≥ start` (false on `.`) -/
def overlaps (r : Row) (a b : Int) : Bool := le? r.start b && ge? r.stop a
/-- the plain containment predicate: `start ≤ row.start ∧ row.end ≤ end` -/
def within (r : Row) (a b : Int) : Bool := ge? r.start a && le? r.stop b

def seqOk (sq : Option Str) (r : Row) : Bool := match sq with | some x => decide (r.seqid = x) | none => true
def strandOk (st : Option Str) (r : Row) : Bool := match st with | some x => decide (r.strand = x) | none => true
def typeOk (ft : Option (List Str)) (r : Row) : Bool := match ft with | some l => l.contains r.ftype | none => true

/-! ### the bin clause is implied by the plain predicate -/

theorem truthy_some (a : Int) (h : a ≠ 0) : truthy (some a) = some a := by
  unfold truthy
  split
  · rename_i heq; cases heq; exact absurd rfl h
  · rfl

/-- **Transparency of the bin pre-filter**: a row whose stored bin is the bin of its coordinates and
which is contained in / overlaps an in-range query `a … b` has its bin in the query's bin set —
whatever the row's coordinates are (bin boundaries, negative, at or beyond 2^29). -/
theorem bin_clause (r : Row)
    (hb : r.bin = (match Feature.calcBin r.start r.stop with | some (.int b) => some b | _ => none))
    (x y : Int) (hs : r.start = some x) (he : r.stop = some y) (a b : Int)
    (hq : C12.InRange a b .gff) (hc : (a ≤ x ∧ y ≤ b) ∨ (x ≤ b ∧ a ≤ y))
    (bs : List Int) (hbs : Bins.bins a b .gff false = .set bs) : inBins r bs = true := by
  have key : ∃ bb, Bins.binOne x y .gff = .int bb ∧ Bins.inBinSet bb a b .gff := by
    by_cases hf : C12.InRange x y .gff
    · rcases hc with ⟨h1, h2⟩ | ⟨h1, h2⟩
      · exact C12.bin_sound_within x y a b .gff hf hq h1 h2
      · exact C12.bin_sound_overlap x y a b .gff hf hq h1 h2
    · exact ⟨1, C12.bins_out_of_range_one x y .gff hf, (C12.binSet_mem_iff a b .gff hq 1).mpr (Or.inl rfl)⟩
  obtain ⟨bb, h1, h2⟩ := key
  have hbin : r.bin = some bb := by
    rw [hb, hs, he]
    simp only [Feature.calcBin]
    unfold Bins.binOne at h1
    rw [h1]
  unfold Bins.inBinSet at h2
  rw [hbs] at h2
  simp only [inBins, hbin, List.contains_iff_mem]
  exact h2

theorem le?_some {o : Option Int} {b : Int} (h : le? o b = true) : ∃ x, o = some x ∧ x ≤ b := by
  cases o with
  | none => simp [le?] at h
  | some x => exact ⟨x, rfl, by simpa [le?] using h⟩
theorem ge?_some {o : Option Int} {b : Int} (h : ge? o b = true) : ∃ x, o = some x ∧ b ≤ x := by
  cases o with
  | none => simp [ge?] at h
  | some x => exact ⟨x, rfl, by simpa [ge?] using h⟩
theorem lt?_some {o : Option Int} {b : Int} (h : lt? o b = true) : ∃ x, o = some x ∧ x < b := by
  cases o with
  | none => simp [lt?] at h
  | some x => exact ⟨x, rfl, by simpa [lt?] using h⟩
theorem gt?_some {o : Option Int} {b : Int} (h : gt? o b = true) : ∃ x, o = some x ∧ b < x := by
  cases o with
  | none => simp [gt?] at h
  | some x => exact ⟨x, rfl, by simpa [gt?] using h⟩

/-- the bin clause of `region(..., completely_within=True)` as a function of the row -/
def regionBinClause (a b : Int) (r : Row) : Bool :=
  if 0 < a ∧ a < Bins.maxChrom ∧ 0 ≤ b ∧ b < Bins.maxChrom then
    match Bins.bins a b .gff false with
    | .set bs => if bs.eraseDups.length < 900 then inBins r bs else true
    | .int _ => true
  else true

theorem regionBinClause_of_within (r : Row)
    (hb : r.bin = (match Feature.calcBin r.start r.stop with | some (.int b) => some b | _ => none))
    (a b : Int) (hw : within r a b = true) : regionBinClause a b r = true := by
  unfold within at hw
  rw [Bool.and_eq_true] at hw
  obtain ⟨x, hs, hx⟩ := ge?_some hw.1
  obtain ⟨y, he, hy⟩ := le?_some hw.2
  unfold regionBinClause
  split
  · rename_i hr
    have hq : C12.InRange a b .gff := by
      unfold C12.InRange; simp only [Bins.CoordFmt.off]; omega
    split
    · rename_i bs hbs
      split
      · exact bin_clause r hb x y hs he a b hq (Or.inl ⟨hx, hy⟩) bs hbs
      · rfl
    · rfl
  · rfl

theorem mem_eraseDups_iff (l : List Int) (x : Int) : x ∈ l.eraseDups ↔ x ∈ l := by
  exact List.mem_eraseDups

theorem limitBins_of_pred (r : Row)
    (hb : r.bin = (match Feature.calcBin r.start r.stop with | some (.int b) => some b | _ => none))
    (a b : Int) (hp : within r a b = true ∨ overlaps r a b = true) :
    (match limitBins a b with | some bs => inBins r bs | none => true) = true := by
  have hxy : ∃ x y, r.start = some x ∧ r.stop = some y ∧ ((a ≤ x ∧ y ≤ b) ∨ (x ≤ b ∧ a ≤ y)) := by
    rcases hp with hw | ho
    · unfold within at hw
      rw [Bool.and_eq_true] at hw
      obtain ⟨x, hs, hx⟩ := ge?_some hw.1
      obtain ⟨y, he, hy⟩ := le?_some hw.2
      exact ⟨x, y, hs, he, Or.inl ⟨hx, hy⟩⟩
    · unfold overlaps at ho
      rw [Bool.and_eq_true] at ho
      obtain ⟨x, hs, hx⟩ := le?_some ho.1
      obtain ⟨y, he, hy⟩ := ge?_some ho.2
      exact ⟨x, y, hs, he, Or.inr ⟨hx, hy⟩⟩
  obtain ⟨x, y, hs, he, hc⟩ := hxy
  split
  · rename_i bs hl
    unfold limitBins at hl
    split at hl
    · rename_i hr
      have hq : C12.InRange a b .gff := by
        unfold C12.InRange; simp only [Bins.CoordFmt.off]; omega
      split at hl
      · rename_i bs0 hbs
        simp only at hl
        split at hl
        · cases hl
          have h0 := bin_clause r hb x y hs he a b hq hc bs0 hbs
          unfold inBins at h0 ⊢
          split
          · rename_i bb hbb
            rw [hbb] at h0
            simp only [List.contains_iff_mem] at h0 ⊢
            exact (mem_eraseDups_iff bs0 bb).mpr h0
          · rename_i hn; rw [hn] at h0; exact h0
        · cases hl
      · cases hl
    · cases hl
  · rfl

/-- **region, overlap mode, exact** for `1 ≤ a ≤ b` of ANY magnitude and ANY rows (also rows with a
`.` coordinate, which are never returned, and rows with `start > end`): the result is exactly the rows
with `row.start ≤ b ∧ row.end ≥ a` on the seqid, intersected with the strand / featuretype restrictions.
(Before the repair of the SQL's garbled three-way OR — `fix: region() overlap test …` — a point query
`a = b` also returned rows whose only integer coordinate equals `a`.) -/
theorem region_overlap_exact (s : Session) (sq st : Option Str) (ft : Option (List Str)) (a b : Int)
    (h1 : 1 ≤ a) (h2 : a ≤ b) :
    region s { seqid := sq, start := some a, stop := some b, strand := st, featuretype := ft, within := false }
      = s.db.features.filter (fun r => seqOk sq r && overlaps r a b && typeOk ft r && strandOk st r) := by
  unfold region
  apply List.filter_congr
  intro r _
  have ha : truthy (some a) = some a := truthy_some a (by omega)
  have hb' : truthy (some b) = some b := truthy_some b (by omega)
  simp only [regionMatches, ha, hb', Bool.false_eq_true, if_false, overlaps, seqOk, typeOk, strandOk,
    Bool.and_true]
  rfl

/-- **region, completely_within, exact** for `1 ≤ a ≤ b` of ANY magnitude, given `BinInv`: the bin
pre-filter drops nothing -/
theorem region_within_exact (s : Session) (hinv : BinInv s.db) (sq st : Option Str) (ft : Option (List Str))
    (a b : Int) (h1 : 1 ≤ a) (h2 : a ≤ b) :
    region s { seqid := sq, start := some a, stop := some b, strand := st, featuretype := ft, within := true }
      = s.db.features.filter (fun r => seqOk sq r && within r a b && typeOk ft r && strandOk st r) := by
  unfold region
  apply List.filter_congr
  intro r hr
  have ha : truthy (some a) = some a := truthy_some a (by omega)
  have hb' : truthy (some b) = some b := truthy_some b (by omega)
  have hm : regionMatches { seqid := sq, start := some a, stop := some b, strand := st, featuretype := ft, within := true } r
      = (seqOk sq r && within r a b && regionBinClause a b r && typeOk ft r && strandOk st r) := by
    simp only [regionMatches, ha, hb', if_true, seqOk, typeOk, strandOk, within, regionBinClause]
    rfl
  rw [hm]
  cases hw : within r a b with
  | false => simp
  | true =>
    rw [regionBinClause_of_within r (hinv r hr) a b hw]
    simp

set_option linter.unusedVariables false in
/-- **limit=, exact**: the WHERE part of `make_query` with a limit equals the plain predicate -/
theorem limit_exact (s : Session) (hinv : BinInv s.db) (q : Query) (sq : Str) (a b : Int)
    (hq : q.limit = some (sq, a, b)) (h1 : 1 ≤ a) (h2 : a ≤ b) (r : Row) (hr : r ∈ s.db.features) :
    rowMatches q r =
      ((q.featuretype.isEmpty || q.featuretype.contains r.ftype) &&
       (decide (r.seqid = sq) && (if q.within then within r a b else overlaps r a b)) &&
       (match q.strand with | none => true | some st => st.isEmpty || decide (r.strand = st))) := by
  unfold rowMatches
  rw [hq]
  simp only
  have hcoord : (if q.within then ge? r.start a && le? r.stop b else le? r.start b && ge? r.stop a)
      = (if q.within then within r a b else overlaps r a b) := by
    unfold within overlaps; rfl
  rw [hcoord]
  cases hp : (if q.within then within r a b else overlaps r a b) with
  | false => simp
  | true =>
    have hpred : within r a b = true ∨ overlaps r a b = true := by
      cases hw : q.within with
      | true => rw [hw] at hp; exact Or.inl (by simpa using hp)
      | false => rw [hw] at hp; exact Or.inr (by simpa using hp)
    have h := limitBins_of_pred r (hinv r hr) a b hpred
    cases hl : limitBins a b with
    | none => simp; rfl
    | some bs => rw [hl] at h; simp only at h; simp [h]; rfl

/-- **one-sided bounds**: only `start` given ⇒ every returned row has `end > start` (so none outside
the half-line) and every row with `end > start` on the seqid is returned; with `completely_within` the
comparison is `row.start ≥ start`; symmetric for only `end` -/
theorem one_sided_start (s : Session) (sq : Option Str) (a : Int) (h : a ≠ 0) (r : Row) :
    r ∈ region s { seqid := sq, start := some a, within := false } ↔
      (r ∈ s.db.features ∧ seqOk sq r = true ∧ gt? r.stop a = true) := by
  unfold region
  rw [List.mem_filter]
  have ha : truthy (some a) = some a := truthy_some a h
  have hn : truthy none = none := rfl
  simp only [regionMatches, ha, hn, Bool.false_eq_true, if_false, seqOk, Bool.and_true, Bool.and_eq_true]
  exact Iff.rfl
theorem one_sided_end (s : Session) (sq : Option Str) (b : Int) (h : b ≠ 0) (r : Row) :
    r ∈ region s { seqid := sq, stop := some b, within := false } ↔
      (r ∈ s.db.features ∧ seqOk sq r = true ∧ lt? r.start b = true) := by
  unfold region
  rw [List.mem_filter]
  have hb : truthy (some b) = some b := truthy_some b h
  have hn : truthy none = none := rfl
  simp only [regionMatches, hb, hn, Bool.false_eq_true, if_false, seqOk, Bool.and_true, Bool.and_eq_true]
  exact Iff.rfl

/-- the `completely_within` forms of the one-sided bounds -/
theorem one_sided_start_within (s : Session) (sq : Option Str) (a : Int) (h : a ≠ 0) (r : Row) :
    r ∈ region s { seqid := sq, start := some a, within := true } ↔
      (r ∈ s.db.features ∧ seqOk sq r = true ∧ ge? r.start a = true) := by
  unfold region
  rw [List.mem_filter]
  have ha : truthy (some a) = some a := truthy_some a h
  have hn : truthy none = none := rfl
  simp only [regionMatches, ha, hn, if_true, seqOk, Bool.and_true, Bool.and_eq_true]
  exact Iff.rfl
theorem one_sided_end_within (s : Session) (sq : Option Str) (b : Int) (h : b ≠ 0) (r : Row) :
    r ∈ region s { seqid := sq, stop := some b, within := true } ↔
      (r ∈ s.db.features ∧ seqOk sq r = true ∧ le? r.stop b = true) := by
  unfold region
  rw [List.mem_filter]
  have hb : truthy (some b) = some b := truthy_some b h
  have hn : truthy none = none := rfl
  simp only [regionMatches, hb, hn, if_true, seqOk, Bool.and_true, Bool.true_and, Bool.and_eq_true]
  exact Iff.rfl

/-- rows with a `.` coordinate are never returned by a two-sided coordinate query (either mode) -/
theorem null_coords_excluded (s : Session) (a : RegionArgs) (x y : Int) (ha : a.start = some x) (hb : a.stop = some y)
    (hx : x ≠ 0) (hy : y ≠ 0)
    (r : Row) (hr : r ∈ region s a) : r.start ≠ none ∧ r.stop ≠ none := by
  unfold region at hr
  rw [List.mem_filter] at hr
  have hm := hr.2
  have hx' : truthy (some x) = some x := truthy_some x hx
  have hy' : truthy (some y) = some y := truthy_some y hy
  unfold regionMatches at hm
  rw [ha, hb, hx', hy'] at hm
  simp only [Bool.and_eq_true] at hm
  obtain ⟨⟨⟨⟨_, hc⟩, _⟩, _⟩, _⟩ := hm
  cases hw : a.within with
  | true =>
    rw [hw] at hc
    simp only [if_true, Bool.and_eq_true] at hc
    obtain ⟨u, hu, _⟩ := ge?_some hc.1
    obtain ⟨v, hv, _⟩ := le?_some hc.2
    rw [hu, hv]; simp
  | false =>
    rw [hw] at hc
    simp only [Bool.false_eq_true, if_false, Bool.and_eq_true] at hc
    obtain ⟨u, hu, _⟩ := le?_some hc.1
    obtain ⟨v, hv, _⟩ := ge?_some hc.2
    rw [hu, hv]; simp

/-! ### Non-vacuity: concrete sessions with rows on bin boundaries and beyond 2^29 -/

section Examples

def exRow (id : String) (s e : Option Int) (bin : Option Int) (strand : String := "+") : Row :=
  { id := id.toList, seqid := "chr1".toList, source := [], ftype := "gene".toList, start := s, stop := e,
    score := ['.'], strand := strand.toList, frame := ['.'], attrs := [], extra := [], bin := bin }

/-- `a`: straddles the first level-0 bin boundary (0-based 131071 | 131072) → level-1 bin 585;
`b`: just after it → level-0 bin 4682; `c`: at 2^29 → bin 1; `d`: whole chromosome → bin 1;
`e`: reversed coordinates; `f`: no coordinates. -/
def exRows : List Row :=
  [ exRow "a" (some 131072) (some 131073) (some 585),
    exRow "b" (some 131073) (some 131074) (some 4682) "-",
    exRow "c" (some 536870912) (some 536870920) (some 1),
    exRow "d" (some 1) (some 536870911) (some 1),
    exRow "f" none none none ]

def exSession : Session :=
  { db := { features := exRows }, auto := [], dialect := Dialect.default, directives := [] }

theorem exInv : BinInv exSession.db := by
  unfold BinInv; decide +kernel

theorem exWf : ∀ r ∈ exSession.db.features, ∀ x y, r.start = some x → r.stop = some y → x ≤ y := by
  intro r hr x y hs he
  simp only [exSession, exRows, List.mem_cons, List.not_mem_nil, or_false] at hr
  rcases hr with rfl | rfl | rfl | rfl | rfl <;> simp [exRow] at hs he <;> omega

theorem exNull : ∀ r ∈ exSession.db.features, (r.start = none ↔ r.stop = none) := by
  decide +kernel

/-- the rows are what the importer writes (`ofFeature_bin`'s hypothesis is satisfiable) -/
def exFeature : Feature :=
  { seqid := "chr1".toList, source := [], ftype := "gene".toList, start := some 131072, stop := some 131073,
    strand := ['+'], id := some ['a'] }
example : Row.ofFeature exFeature = .ok (exRow "a" (some 131072) (some 131073) (some 585)) := by
  rfl

/-- completely_within on the bin boundary: the bin clause IS applied (2 ≤ 900 bins) and drops nothing -/
example : region exSession { seqid := some "chr1".toList, start := some 131072, stop := some 131073, within := true }
    = [exRow "a" (some 131072) (some 131073) (some 585)] := by decide +kernel
example : (region exSession { seqid := some "chr1".toList, start := some 131072, stop := some 131074, within := true }).map (·.id)
    = [['a'], ['b']] := by
  rw [region_within_exact exSession exInv _ _ _ 131072 131074 (by decide) (by decide)]; decide +kernel
/-- at and beyond 2^29 (no bin clause) -/
example : (region exSession { start := some 536870912, stop := some 536870920, within := true }).map (·.id) = [['c']] := by
  rw [region_within_exact exSession exInv _ _ _ _ _ (by decide) (by decide)]; decide +kernel
example : (region exSession { start := some 1, stop := some 536870920, within := true }).map (·.id)
    = [['a'], ['b'], ['c'], ['d']] := by decide +kernel
/-- overlap mode, single base on the boundary, `a = b` -/
example : (region exSession { start := some 131073, stop := some 131073, strand := some ['+'] }).map (·.id)
    = [['a'], ['d']] := by
  rw [region_overlap_exact exSession _ _ _ 131073 131073 (by decide) (by decide)]
  decide +kernel
example : (region exSession { start := some 131074, stop := some 600000000 }).map (·.id)
    = [['b'], ['c'], ['d']] := by
  rw [region_overlap_exact exSession _ _ _ _ _ (by decide) (by decide)]
  decide +kernel

/-- `limit=`: the bin clause is active (`limitBins` is `some`) and the row on the boundary passes -/
example : limitBins 131072 131073 = some [1, 4681, 4682, 585, 73, 9] := by decide +kernel
example : rowMatches { limit := some ("chr1".toList, 131072, 131073), within := true }
    (exRow "a" (some 131072) (some 131073) (some 585)) = true := by
  rw [limit_exact exSession exInv _ "chr1".toList 131072 131073 rfl (by decide) (by decide) _ (by decide +kernel)]
  decide +kernel
example : (runQuery exSession { limit := some ("chr1".toList, 131074, 131074) }).map (·.id) = [['b'], ['d']] := by
  decide +kernel

/-- one-sided -/
example : (region exSession { start := some 131073 }).map (·.id) = [['b'], ['c'], ['d']] := by decide +kernel
example : exRow "b" (some 131073) (some 131074) (some 4682) "-" ∈ region exSession { start := some 131073 } :=
  (one_sided_start exSession none 131073 (by decide) _).mpr (by decide +kernel)

/-- null rows are excluded -/
example : ∀ r ∈ region exSession { start := some 1, stop := some 600000000 }, r.start ≠ none ∧ r.stop ≠ none :=
  fun r hr => null_coords_excluded exSession _ 1 600000000 rfl rfl (by decide) (by decide) r hr

/-! #### the repaired defect: a point query no longer returns a row by one coordinate alone -/

/-- a row with `start = 5`, `end = .` (its stored bin is NULL, so `BinInv` holds) and one with `start = 7` -/
def cexSession : Session :=
  { db := { features := [exRow "h" (some 5) none none, exRow "k" (some 7) none none] },
    auto := [], dialect := Dialect.default, directives := [] }

example : BinInv cexSession.db := by unfold BinInv; decide +kernel

/-- on the pinned commit `region(start=5, end=5)` returned the half-null row `h`; now it returns nothing -/
example : region cexSession { start := some 5, stop := some 5 } = [] := by decide +kernel

end Examples

end GffProofs.C06
