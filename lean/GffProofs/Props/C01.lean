/-
  C01 — Import fidelity: every input line is stored once and comes back unchanged.

  The property is a COMPOSITION over the one model, proved in layers:

  A. per line, PROVIDED-dialect path (`provided_render`, `reconstruct_keep_order`,
     `provided_parse_render_line`, `provided_print_parse_render`);
  B. storage (`row_roundtrip`, `row_roundtrip_print`; the JSON text layer is C17's `json_roundtrip`);
  C. import (`import_all_once_in_order`, `lookup_each`, `reopen_same`);
  W. the dialect vote over the inspected window (`window_votes_dialect`);
  D. end to end (`printed_identical`, and `printed_identical_of_window` = D with hypothesis (i)
     discharged by W).

  Specification definitions (`LineSpec.WFprov`, `HasDims`, `OrderConsistent`, `storedRow`, `returned`,
  `provFeature`, `IdsOk`, …) are in `GffProofs/Props/C01Spec.lean`; helper lemmas in
  `GffProofs/Lemmas/C01Aux.lean`, `C01Line.lean`, `C01Db.lean`, `C01File.lean`.
-/
import GffProofs.Props.C01Spec
import GffProofs.Lemmas.C01Aux
import GffProofs.Lemmas.C01Line
import GffProofs.Lemmas.C01Db
import GffProofs.Lemmas.C01File
import GffProofs.Props.C04
import GffProofs.Props.C17

namespace GffProofs.C01
open GffModel GffModel.Parser GffModel.Grammar GffModel.Create GffModel.Interface
open GffProofs.C02 (idOf idKey GraphOk gffCfg)
open GffProofs.C07 (featureCols ColFacts)

/-! ## bridges from the specification predicates to the lemma-level facts -/

theorem pfacts (s : LineSpec) (h : s.WFprov = true) : PFacts s ∧ ColFacts s := by
  simp only [LineSpec.WFprov, Bool.and_eq_true] at h
  obtain ⟨⟨⟨⟨⟨⟨⟨h1, h2⟩, h3⟩, h4⟩, h5⟩, hsep⟩, hitems⟩, hnodup⟩ := h
  simp only [List.all_eq_true, Bool.and_eq_true] at hitems
  refine ⟨⟨?_, ?_, ?_, ?_⟩, ⟨by simpa using h1, by simpa using h2, by simpa using h3, ?_, ?_⟩⟩
  · simpa [or_assoc] using hsep
  · exact fun it hit => (hitems it hit).1
  · exact fun it hit v hv => (hitems it hit).2 v hv
  · simpa using hnodup
  · simpa using h4
  · simpa using h5

/-- `WFprov` really is a relaxation of `WF` -/
theorem wfprov_of_wf (s : LineSpec) (h : s.WF = true) : s.WFprov = true := by
  simp only [LineSpec.WF, Bool.and_eq_true] at h
  obtain ⟨⟨⟨⟨⟨⟨⟨⟨⟨⟨⟨⟨⟨h1, h2⟩, h3⟩, h4⟩, h5⟩, hsep⟩, hitems⟩, hnodup⟩, _⟩, _⟩, _⟩, _⟩, _⟩, _⟩ := h
  simp only [LineSpec.WFprov, Bool.and_eq_true]
  refine ⟨⟨⟨⟨⟨⟨⟨h1, h2⟩, h3⟩, h4⟩, h5⟩, hsep⟩, ?_⟩, hnodup⟩
  simp only [List.all_eq_true, Bool.and_eq_true] at hitems ⊢
  exact fun it hit => (hitems it hit).1

theorem hasDims_eq (d : Dialect) (s : LineSpec) (h : HasDims d s) : d = dOf s d.order := by
  obtain ⟨a, b, c, e, f, g, i, j, o⟩ := d
  obtain ⟨h1, h2, h3, h4, h5, h6, h7, h8⟩ := h
  simp only at h1 h2 h3 h4 h5 h6 h7 h8
  subst h1 h2 h3 h4 h5 h6 h7 h8
  rfl

theorem hasDims_dOf (s : LineSpec) (ord : List Str) : HasDims (dOf s ord) s :=
  ⟨rfl, rfl, rfl, rfl, rfl, rfl, rfl, rfl⟩

theorem hasDims_of_sameDims (s s0 : LineSpec) (h : SameDims s s0) (ord : List Str) :
    HasDims (dOf s0 ord) s := by
  rw [← dOf_sameDims s s0 h]; exact hasDims_dOf s ord

theorem partKeys_eq (s : LineSpec) : partKeys s = s.attrs.flatMap (C07.blockKeys s) := rfl

/-- order consistency, as a sortedness statement: the part keys are already in rank order -/
theorem orderConsistent_iff (order : List Str) (s : LineSpec) :
    OrderConsistent order s ↔ (partKeys s).Pairwise (fun a b => keyRank order a ≤ keyRank order b) := by
  unfold OrderConsistent
  constructor
  · intro h
    have := List.pairwise_mergeSort (le := fun a b => decide (keyRank order a ≤ keyRank order b))
      (fun a b c hab hbc => by simp only [decide_eq_true_eq] at *; omega)
      (fun a b => by simp only [Bool.or_eq_true, decide_eq_true_eq]; omega) (partKeys s)
    rw [h] at this
    exact this.imp (fun hab => by simpa using hab)
  · intro h
    exact List.mergeSort_of_pairwise (h.imp (fun hab => by simpa using hab))

theorem its_sorted (order : List Str) (s : LineSpec) (h : OrderConsistent order s) :
    (its s).Pairwise (fun a b => sortKeyLe order a b = true) := by
  apply its_pairwise
  rw [← partKeys_eq]
  exact ((orderConsistent_iff order s).mp h).imp (fun hab => by simpa [keyRank] using hab)

/-- a line is always consistent with its own key order (what C07 uses) -/
theorem orderConsistent_own (s : LineSpec) (h : s.WFprov = true) : OrderConsistent (partKeys s) s := by
  rw [orderConsistent_iff]
  have := own_order_pairwise s (pfacts s h).1
  have h2 : ((its s).map (·.1)).Pairwise (fun a b => keyRank (partKeys s) a ≤ keyRank (partKeys s) b) := by
    rw [List.pairwise_map]
    refine this.imp ?_
    intro a b hab
    rw [C07.sortKeyLe_eq] at hab
    exact of_decide_eq_true hab
  rw [its_keys] at h2
  exact h2

/-! ## A. one line, provided-dialect path -/

/-- **Parse ∘ render, provided dialect.**  For a line renderable under dimensions `D` (`WFprov`) and
ANY dialect `d` carrying those dimensions (whatever its `order`), `_split_keyvals(text, dialect=d)`
returns exactly the specified mapping — decoded values, keys in line order, valueless flags (`key` /
`key ""`) and the empty column included — and hands `d` back.  Extends C08b (`reparse_print_*`) to
flags, to the unquoted `key value` style, and to texts that do not themselves exhibit the dialect. -/
theorem provided_render (s : LineSpec) (h : s.WFprov = true) (d : Dialect) (hd : HasDims d s) :
    splitKeyvals (renderAttrs s) (some d) = .ok (s.mapping, d) := by
  rw [hasDims_eq d s hd]
  exact prov_parse s (pfacts s h).1 d.order

/-- `provided_eq_infer` (DESIGN.md §C01): on a fully well-formed text the provided-dialect path returns
the mapping the inferring path returns — this connects the lines beyond the window to C07 -/
theorem provided_eq_infer (s : LineSpec) (h : s.WF = true) (d : Dialect) (hd : HasDims d s) :
    (splitKeyvals (renderAttrs s) (some d)).map (·.1) = (splitKeyvals (renderAttrs s) none).map (·.1) := by
  rw [provided_render s (wfprov_of_wf s h) d hd, C07.infer_render s h]; rfl

/-- **Print with `keep_order=True` under a foreign key order.**  `_reconstruct` with the dimensions of
`s` and an arbitrary `order` reproduces the attribute text byte for byte whenever the part keys of `s`
are already sorted by their rank in that order (unknown keys last). -/
theorem reconstruct_keep_order (s : LineSpec) (h : s.WFprov = true) (d : Dialect) (hd : HasDims d s)
    (ho : OrderConsistent d.order s) :
    reconstruct s.mapping (some d) true false = .ok (renderAttrs s) := by
  rw [hasDims_eq d s hd]
  exact prov_reconstruct s (pfacts s h).1 d.order (its_sorted d.order s ho)

/-- the hypothesis of `reconstruct_keep_order` is needed (DESIGN.md's example): under the voted order
`[q, p]` the line `p=2;q=3` is not order-consistent -/
example : ¬ OrderConsistent [['q'], ['p']]
    { cols := [], sep := [';'], trailing := false, style := .eq, quoted := false, repeated := false,
      attrs := [⟨['p'], [['2']]⟩, ⟨['q'], [['3']]⟩], extra := [] } := by
  rw [orderConsistent_iff]; decide

/-- **`feature_from_line(line, dialect=d)` on a rendered line**: the Feature is `provFeature s d ko`,
i.e. it has the line's eight columns (coordinates as integers / `None`), the decoded mapping in order,
the extra columns, dialect `d`, no id, and the bin of its coordinates. -/
theorem provided_parse_render_line (s : LineSpec) (h : s.WFprov = true) (d : Dialect) (hd : HasDims d s)
    (ko : Bool) :
    featureFromLine (renderLine s) (some d) true ko = .ok (provFeature s d ko) ∧
      featureCols (provFeature s d ko) = s.cols ∧ (provFeature s d ko).attrs = s.mapping ∧
      (provFeature s d ko).extra = s.extra ∧ (provFeature s d ko).dialect = d ∧
      (provFeature s d ko).keepOrder = ko ∧ (provFeature s d ko).sortVals = false ∧
      (provFeature s d ko).id = none ∧
      (provFeature s d ko).bin = Feature.calcBin (provFeature s d ko).start (provFeature s d ko).stop := by
  have := strict_featureP s (pfacts s h).1 (pfacts s h).2 d.order ko
  rw [← hasDims_eq d s hd] at this
  exact ⟨this.1, this.2, rfl, rfl, rfl, rfl, rfl, rfl, rfl⟩

/-- **Print ∘ parse ∘ render, whole line, provided dialect**: whatever `keep_order` the line was parsed
with, printing the Feature with `keep_order=True` gives the original line byte for byte — trailing extra
columns, `.` coordinates, flags and an empty ninth column included. -/
theorem provided_print_parse_render (s : LineSpec) (h : s.WFprov = true) (d : Dialect) (hd : HasDims d s)
    (ho : OrderConsistent d.order s) (ko : Bool) :
    ∃ f, featureFromLine (renderLine s) (some d) true ko = .ok f ∧
      ({ f with keepOrder := true } : Feature).print = .ok (renderLine s) := by
  obtain ⟨hf, hc, _⟩ := provided_parse_render_line s h d hd ko
  refine ⟨_, hf, ?_⟩
  exact print_of_fields _ s hc rfl rfl rfl rfl (reconstruct_keep_order s h d hd ho)

/-- the `keep_order=True` instance: parse and print, nothing in between -/
theorem provided_print_parse_render_ko (s : LineSpec) (h : s.WFprov = true) (d : Dialect) (hd : HasDims d s)
    (ho : OrderConsistent d.order s) :
    ∃ f, featureFromLine (renderLine s) (some d) true true = .ok f ∧ f.print = .ok (renderLine s) := by
  obtain ⟨f, hf, hp⟩ := provided_print_parse_render s h d hd ho true
  refine ⟨f, hf, ?_⟩
  have hk : f.keepOrder = true := by
    rw [(provided_parse_render_line s h d hd true).1] at hf
    cases hf; rfl
  have : ({ f with keepOrder := true } : Feature) = f := by
    obtain ⟨a1, a2, a3, a4, a5, a6, a7, a8, a9, a10, a11, a12, a13, a14, a15, a16⟩ := f
    simp only at hk; subst hk; rfl
  rw [this] at hp; exact hp

/-! ## B. storage -/

/-- **Row round trip** (`Feature.astuple()` then `Feature(dialect=d, **row)`): for a feature filed under
`id`, the feature rebuilt from its row has the same eight columns, attributes and extra columns, id
`id`, the bin of its coordinates, the dialect / `keep_order` / `sort_attribute_values` of the reader, and
no file order.  (The Db model stores structured attributes; that the JSON text the real code stores
decodes to the same mapping is C17's `C17.json_roundtrip` — keys distinct — and
`C17.json_roundtrip_extra`.) -/
theorem row_roundtrip (f : Feature) (id : Str) (hid : f.id = some id) (d : Dialect) (ko sv : Bool) :
    ∃ r, Row.ofFeature f = .ok r ∧ r = rowOf f id ∧
      r.toFeature d ko sv =
        { f with bin := Feature.calcBin f.start f.stop, id := some id, dialect := d, fileOrder := none,
                 keepOrder := ko, sortVals := sv } :=
  ⟨rowOf f id, ofFeature_eq f id hid, rfl, toFeature_rowOf f id d ko sv⟩

/-- … hence it prints like the original feature under the reader's dialect and flags -/
theorem row_roundtrip_print (f : Feature) (id : Str) (hid : f.id = some id) (d : Dialect) (ko sv : Bool) :
    ∃ r, Row.ofFeature f = .ok r ∧
      (r.toFeature d ko sv).print = ({ f with dialect := d, keepOrder := ko, sortVals := sv } : Feature).print := by
  obtain ⟨r, hr, _, ht⟩ := row_roundtrip f id hid d ko sv
  exact ⟨r, hr, by rw [ht]; rfl⟩

/-- the JSON layer under the stored attributes (C17), for reference: a parsed line's mapping has
distinct keys, so its stored text decodes to itself -/
theorem stored_attrs_json (s : LineSpec) (h : s.WFprov = true) :
    Json.decodeAttrs (Json.encodeAttrs s.mapping) = some s.mapping := by
  apply C17.json_roundtrip
  rw [mapping_keys]; exact (pfacts s h).1.nodup

/-! ## C. import -/

theorem returner_storedRow (f : Feature) (id : Str) (hid : idOf f = some id) (d : Dialect) (ko sv : Bool) :
    (storedRow f).toFeature d ko sv = returned d ko sv f := by
  unfold storedRow returned
  rw [toFeature_rowOf, hid]; rfl

/-- **Every input line is stored exactly once, in input order, and comes back with its content.**
For a GFF3 feature list with unique single-valued IDs (C02's `GraphOk`), any merge strategy, database
dialect `d`, directives `dirs`, and any reader flags: `create_db` succeeds; opening the result succeeds;
a full iteration yields exactly one row per input feature, in input order, namely `storedRow f` (the ten
data fields copied, key = the `ID`, bin recomputed); and the Features handed back are `returned d ko sv f`
— equal to the input in the eight columns, attributes and extra columns (clauses 5–14), with `id` = the
`ID`, the bin of the coordinates, the database dialect and the reader's flags.  The session carries the
dialect, the directives and no counters. -/
theorem import_all_once_in_order (strategy : Strategy) (d : Dialect) (dirs : List Str) (fs : List Feature)
    (h : GraphOk fs) (ko sv : Bool) :
    ∃ db s, createDb .gff (gffCfg strategy d) dirs fs = .ok db ∧ openDb db ko sv = .ok s ∧
      runQuery s {} = fs.map storedRow ∧
      (runQuery s {}).map s.returner = fs.map (returned d ko sv) ∧
      (∀ f, (returned d ko sv f).seqid = f.seqid ∧ (returned d ko sv f).source = f.source ∧
        (returned d ko sv f).ftype = f.ftype ∧ (returned d ko sv f).start = f.start ∧
        (returned d ko sv f).stop = f.stop ∧ (returned d ko sv f).score = f.score ∧
        (returned d ko sv f).strand = f.strand ∧ (returned d ko sv f).frame = f.frame ∧
        (returned d ko sv f).attrs = f.attrs ∧ (returned d ko sv f).extra = f.extra) ∧
      s.dialect = d ∧ s.directives = dirs ∧ s.auto = [] ∧ s.keepOrder = ko ∧ s.sortVals = sv := by
  obtain ⟨db, hdb, hf, hm, hdir, hau⟩ := createDb_rows strategy d dirs fs h
  have hopen : openDb db ko sv = .ok ⟨db, db.autoinc, d, db.directives, ko, sv⟩ := by
    unfold openDb; rw [hm]
  refine ⟨db, _, hdb, hopen, ?_, ?_, ?_, rfl, hdir, hau, rfl, rfl⟩
  · rw [C11.full_iteration_in_input_order]; exact hf
  · rw [C11.full_iteration_in_input_order]
    show db.features.map _ = _
    rw [hf, List.map_map]
    apply List.map_congr_left
    intro f hfm
    obtain ⟨id, hid⟩ := h.ids f hfm
    exact returner_storedRow f id hid d ko sv
  · intro f; exact ⟨rfl, rfl, rfl, rfl, rfl, rfl, rfl, rfl, rfl, rfl⟩

/-- each stored feature is also found under its `ID` by `db[id]` (C04's `getitem_exact`) -/
theorem lookup_each (strategy : Strategy) (d : Dialect) (dirs : List Str) (fs : List Feature)
    (h : GraphOk fs) (ko sv : Bool) :
    ∃ db s, createDb .gff (gffCfg strategy d) dirs fs = .ok db ∧ openDb db ko sv = .ok s ∧
      ∀ f ∈ fs, ∀ id, idOf f = some id → getItem s id = .ok (returned d ko sv f) := by
  obtain ⟨db, hdb, hf, hm, hdir, hau⟩ := createDb_rows strategy d dirs fs h
  have hopen : openDb db ko sv = .ok ⟨db, db.autoinc, d, db.directives, ko, sv⟩ := by
    unfold openDb; rw [hm]
  refine ⟨db, _, hdb, hopen, ?_⟩
  intro f hfm id hid
  have hnd : C04.IdsNodup db := by
    unfold C04.IdsNodup
    rw [hf, map_storedRow_id fs h.ids]; exact h.nodup
  have hmem : storedRow f ∈ db.features := by rw [hf]; exact List.mem_map.mpr ⟨f, hfm, rfl⟩
  have := C04.getitem_exact ⟨db, db.autoinc, d, db.directives, ko, sv⟩ hnd (storedRow f) hmem
  rw [storedRow_id f id hid] at this
  rw [this]
  exact congrArg _ (returner_storedRow f id hid d ko sv)

/-- **Closing and reopening observes the same content**: `FeatureDB(path)` reads everything from the
persistent tables, so two sessions opened on the database `create_db` returned — with any reader flags —
agree on dialect (`= d`), directives (`= dirs`), counters (none), the stored rows and every query;
with equal flags they hand back the same Features. -/
theorem reopen_same (strategy : Strategy) (d : Dialect) (dirs : List Str) (fs : List Feature)
    (h : GraphOk fs) (ko sv ko' sv' : Bool) :
    ∃ db s s', createDb .gff (gffCfg strategy d) dirs fs = .ok db ∧
      openDb db ko sv = .ok s ∧ openDb db ko' sv' = .ok s' ∧
      s'.dialect = s.dialect ∧ s.dialect = d ∧ s'.directives = s.directives ∧ s.directives = dirs ∧
      s'.auto = s.auto ∧ s.auto = [] ∧ s'.db.features = s.db.features ∧ s.db.features = fs.map storedRow ∧
      (∀ q, runQuery s' q = runQuery s q) ∧
      (ko' = ko → sv' = sv → ∀ r, s'.returner r = s.returner r) := by
  obtain ⟨db, hdb, hf, hm, hdir, hau⟩ := createDb_rows strategy d dirs fs h
  have hopen : ∀ a b, openDb db a b = .ok ⟨db, db.autoinc, d, db.directives, a, b⟩ := by
    intro a b; unfold openDb; rw [hm]
  refine ⟨db, _, _, hdb, hopen ko sv, hopen ko' sv', rfl, rfl, rfl, hdir, rfl, hau, rfl, hf,
    fun q => rfl, ?_⟩
  intro h1 h2 r; subst h1 h2; rfl

/-! ## W. the dialect vote over the inspected window -/

/-- **The window votes the file's dialect.**  If every line of the inspected window (the first
`checklines+1` feature lines) is fully well-formed (`LineSpec.WF`: it *exhibits* its dialect) and all are
written with the dimensions of `s0`, `_FileIterator`'s dialect is exactly those dimensions together with
the first-seen, duplicate-free key order of the window.  (From C07's `infer_render` per line and C09's
`choose_consistent`.)  Directive, comment, blank and FASTA lines may be interleaved: `lines` is any text
whose feature lines are the rendered specifications. -/
theorem window_votes_dialect (lines : List Str) (specs : List LineSpec) (checklines : Nat) (s0 : LineSpec)
    (hfl : Iter.featureLines lines = specs.map renderLine) (hne : specs ≠ [])
    (hwin : ∀ s ∈ specs.take (checklines + 1), s.WF = true ∧ SameDims s s0) :
    Iter.fileDialect lines checklines =
      .ok (dOf s0 (Helpers.firstSeenOrder ((specs.take (checklines + 1)).map (fun s => s.attrs.map (·.key))))) :=
  vote_window lines specs checklines s0 hfl hne hwin

/-! ## D. end to end -/

theorem specId_eq (s : LineSpec) (d : Dialect) (ko : Bool) : idOf (provFeature s d ko) = specId s := rfl

theorem graphOk_of_idsOk (specs : List LineSpec) (h : IdsOk specs) (d : Dialect) (ko : Bool) :
    GraphOk (specs.map (fun s => provFeature s d ko)) where
  nonempty := by simpa using h.nonempty
  ids := by
    intro f hf
    obtain ⟨s, hs, rfl⟩ := List.mem_map.mp hf
    exact h.ids s hs
  nodup := by
    rw [List.filterMap_map]
    exact h.nodup

/-- **Printed form is byte-identical, end to end.**  Let `lines` be any text (directives, comments, blank
lines and a FASTA section allowed) whose feature lines are the renderings of `specs`, each renderable
(`WFprov`).  Assume (i) the dialect voted over the inspection window, `d`, has the dimensions every line
is written in, (ii) every line's key order is consistent with the voted order `d.order`, and the lines
carry unique single `ID`s.  Then: `DataIterator(text, checklines)` yields `d`, the parsed features
`provFeature s d false` and the directives; `create_db` (GFF importer, any merge strategy) succeeds;
opening the database with `keep_order=True` succeeds; and iterating it yields, in input order, features
whose printed forms are exactly the feature lines of the input, byte for byte. -/
theorem printed_identical (lines : List Str) (specs : List LineSpec) (checklines : Nat) (d : Dialect)
    (strategy : Strategy)
    (hfl : Iter.featureLines lines = specs.map renderLine)
    (hwf : ∀ s ∈ specs, s.WFprov = true)
    (hvote : Iter.fileDialect lines checklines = .ok d)
    (hdims : ∀ s ∈ specs, HasDims d s)
    (hord : ∀ s ∈ specs, OrderConsistent d.order s)
    (hids : IdsOk specs) :
    ∃ db sess,
      Iter.runFile lines checklines none none =
        .ok (d, specs.map (fun s => provFeature s d false), Iter.directives lines) ∧
      createDb .gff (gffCfg strategy d) (Iter.directives lines) (specs.map (fun s => provFeature s d false)) = .ok db ∧
      openDb db true false = .ok sess ∧
      sess.directives = Iter.directives lines ∧
      (runQuery sess {}).length = specs.length ∧
      ((runQuery sess {}).map sess.returner).mapM (fun f => f.print) = .ok (Iter.featureLines lines) := by
  have hiter := iterate_specs lines specs d hfl
    (fun s hs => ⟨(pfacts s (hwf s hs)).1, (pfacts s (hwf s hs)).2, hasDims_eq d s (hdims s hs)⟩)
  have hG := graphOk_of_idsOk specs hids d false
  obtain ⟨db, sess, hdb, hopen, hrows, hret, _, hdl, hdir, _, _, _⟩ :=
    import_all_once_in_order strategy d (Iter.directives lines) _ hG true false
  refine ⟨db, sess, ?_, hdb, hopen, hdir, ?_, ?_⟩
  · unfold Iter.runFile
    simp only [hvote, hiter, bind, Except.bind, pure, Except.pure]
  · rw [hrows]; simp
  · rw [hret, hfl, List.map_map]
    apply C08bAux.mapM_map_ok
    intro s hs
    have hc := (provided_parse_render_line s (hwf s hs) d (hdims s hs) false).2.1
    exact print_of_fields _ s hc rfl rfl rfl rfl
      (reconstruct_keep_order s (hwf s hs) d (hdims s hs) (hord s hs))

/-- **D with hypothesis (i) discharged by W**: the window lines are fully well-formed and every line is
written with the dimensions of `s0`; the voted dialect is then `dOf s0 order` with `order` the first-seen
key order of the window, and only order consistency with it (ii) and the `ID` condition remain. -/
theorem printed_identical_of_window (lines : List Str) (specs : List LineSpec) (checklines : Nat)
    (s0 : LineSpec) (strategy : Strategy)
    (hfl : Iter.featureLines lines = specs.map renderLine)
    (hwin : ∀ s ∈ specs.take (checklines + 1), s.WF = true)
    (hall : ∀ s ∈ specs, s.WFprov = true ∧ SameDims s s0)
    (hord : ∀ s ∈ specs, OrderConsistent
      (Helpers.firstSeenOrder ((specs.take (checklines + 1)).map (fun s => s.attrs.map (·.key)))) s)
    (hids : IdsOk specs) :
    ∃ d db sess,
      d = dOf s0 (Helpers.firstSeenOrder ((specs.take (checklines + 1)).map (fun s => s.attrs.map (·.key)))) ∧
      Iter.runFile lines checklines none none =
        .ok (d, specs.map (fun s => provFeature s d false), Iter.directives lines) ∧
      createDb .gff (gffCfg strategy d) (Iter.directives lines) (specs.map (fun s => provFeature s d false)) = .ok db ∧
      openDb db true false = .ok sess ∧
      sess.directives = Iter.directives lines ∧
      (runQuery sess {}).length = specs.length ∧
      ((runQuery sess {}).map sess.returner).mapM (fun f => f.print) = .ok (Iter.featureLines lines) := by
  have hvote := window_votes_dialect lines specs checklines s0 hfl hids.nonempty
    (fun s hs => ⟨hwin s hs, (hall s (List.mem_of_mem_take hs)).2⟩)
  obtain ⟨db, sess, h⟩ := printed_identical lines specs checklines _ strategy hfl
    (fun s hs => (hall s hs).1) hvote (fun s hs => hasDims_of_sameDims s s0 (hall s hs).2 _) hord hids
  exact ⟨_, db, sess, rfl, h⟩

/-- **Re-importing the printed features gives an equivalent database.**  Under the hypotheses of
`printed_identical`, the text made of the printed features (one per line; printing features does not
print directives) is read with the same voted dialect into the same features, and `create_db` on it
succeeds with the same `features`, `relations`, `meta`, `autoincrements` and `duplicates` tables; only
the `directives` table differs (it is empty). -/
theorem reimport_equivalent (lines : List Str) (specs : List LineSpec) (checklines : Nat) (d : Dialect)
    (strategy : Strategy)
    (hfl : Iter.featureLines lines = specs.map renderLine)
    (hwf : ∀ s ∈ specs, s.WFprov = true)
    (hvote : Iter.fileDialect lines checklines = .ok d)
    (hdims : ∀ s ∈ specs, HasDims d s)
    (hord : ∀ s ∈ specs, OrderConsistent d.order s)
    (hids : IdsOk specs) :
    ∃ db sess printed db',
      createDb .gff (gffCfg strategy d) (Iter.directives lines) (specs.map (fun s => provFeature s d false)) = .ok db ∧
      openDb db true false = .ok sess ∧
      ((runQuery sess {}).map sess.returner).mapM (fun f => f.print) = .ok printed ∧
      Iter.runFile printed checklines none none = .ok (d, specs.map (fun s => provFeature s d false), []) ∧
      createDb .gff (gffCfg strategy d) [] (specs.map (fun s => provFeature s d false)) = .ok db' ∧
      db'.features = db.features ∧ db'.relations = db.relations ∧ db'.metaRows = db.metaRows ∧
      db'.autoinc = db.autoinc ∧ db'.duplicates = db.duplicates ∧ db'.directives = [] := by
  obtain ⟨db, sess, _, hdb, hopen, _, _, hprint⟩ :=
    printed_identical lines specs checklines d strategy hfl hwf hvote hdims hord hids
  obtain ⟨db2, _, hrun2, hdb2, _, _, _, _⟩ :=
    printed_identical (Iter.featureLines lines) specs checklines d strategy
      (by rw [featureLines_idem]; exact hfl) hwf (by rw [fileDialect_featureLines]; exact hvote) hdims hord hids
  rw [featureLines_directives] at hrun2 hdb2
  obtain ⟨db', hdb', e1, e2, e3, e4, e5⟩ := createDb_gff_dirs _ _ [] _ db hdb
  have hd' : db'.directives = [] := by
    obtain ⟨db3, h3, _, _, hdir3, _⟩ := createDb_rows strategy d [] _ (graphOk_of_idsOk specs hids d false)
    rw [hdb'] at h3; cases h3; exact hdir3
  exact ⟨db, sess, _, db', hdb, hopen, hprint, hrun2, hdb', e1, e2, e3, e4, e5, hd'⟩

/-! ## Non-vacuity -/

section Examples

/-- a line in the `"; "` / trailing semicolon / quoted `key "value"` GTF dialect -/
def gtfSpec (cols : List String) (attrs : List (String × List String)) (extra : List String := []) : LineSpec :=
  { cols := cols.map String.toList, sep := "; ".toList, trailing := true, style := .space, quoted := true,
    repeated := false, attrs := attrs.map (fun kv => ⟨kv.1.toList, kv.2.map String.toList⟩),
    extra := extra.map String.toList }

/-- a GFF3 line: `key=value`, `;`, no trailing semicolon, comma lists -/
def gffSpec (cols : List String) (attrs : List (String × List String)) (extra : List String := []) : LineSpec :=
  { cols := cols.map String.toList, sep := ";".toList, trailing := false, style := .eq, quoted := false,
    repeated := false, attrs := attrs.map (fun kv => ⟨kv.1.toList, kv.2.map String.toList⟩),
    extra := extra.map String.toList }

/-- three GTF lines; the third (beyond the window when `checklines = 1`) has a single attribute, so alone
it would not exhibit the `"; "` separator: it is `WFprov` but not `WF` -/
def gtfSpecs : List LineSpec :=
  [gtfSpec ["chr1", "src", "gene", "100", "200", ".", "+", "."] [("ID", ["g1"]), ("gene_id", ["g1"])],
   gtfSpec ["chr1", "src", "exon", "100", "150", ".", "+", "0"]
     [("ID", ["e1"]), ("gene_id", ["g1"]), ("transcript_id", ["t 1"]), ("tag", [])],
   gtfSpec ["chr1", "src", "exon", ".", ".", ".", "+", "."] [("ID", ["e2"])]]

def gtfLines : List Str :=
  ["#!genome-build x",
   "chr1\tsrc\tgene\t100\t200\t.\t+\t.\tID \"g1\"; gene_id \"g1\";",
   "chr1\tsrc\texon\t100\t150\t.\t+\t0\tID \"e1\"; gene_id \"g1\"; transcript_id \"t 1\"; tag \"\";",
   "",
   "chr1\tsrc\texon\t.\t.\t.\t+\t.\tID \"e2\";"].map String.toList

/-- a GFF3 file with a directive, a comment, a percent-escape, a valueless flag, two extra columns (the
second empty), `.` coordinates and a FASTA section -/
def gffSpecs : List LineSpec :=
  [gffSpec ["chr1", ".", "gene", "1", "1000", ".", "+", "."] [("ID", ["g1"]), ("Name", ["G;1"])],
   gffSpec ["chr1", ".", "mRNA", "1", "1000", ".", "+", "."] [("ID", ["m1"]), ("Parent", ["g1"]), ("flag", [])]
     ["extra1", ""],
   gffSpec ["chr1", ".", "exon", ".", ".", ".", "+", "."] [("ID", ["e1"]), ("Parent", ["m1", "m2"])]]

def gffLines : List Str :=
  ["##gff-version 3",
   "chr1\t.\tgene\t1\t1000\t.\t+\t.\tID=g1;Name=G%3B1",
   "# a comment",
   "chr1\t.\tmRNA\t1\t1000\t.\t+\t.\tID=m1;Parent=g1;flag\textra1\t",
   "chr1\t.\texon\t.\t.\t.\t+\t.\tID=e1;Parent=m1,m2",
   "##FASTA", ">chr1", "ACGT"].map String.toList

theorem gtf_fl : Iter.featureLines gtfLines = gtfSpecs.map renderLine := by decide +kernel
theorem gff_fl : Iter.featureLines gffLines = gffSpecs.map renderLine := by decide +kernel

example : gtfSpecs.map (fun s => (s.WFprov, s.WF)) = [(true, true), (true, true), (true, false)] := by
  decide +kernel
example : Iter.directives gffLines = ["gff-version 3".toList] := by decide +kernel

theorem idsOk_of_list (specs : List LineSpec) (ids : List Str) (hne : specs ≠ [])
    (h : specs.map specId = ids.map some) (hn : ids.Nodup) : IdsOk specs where
  nonempty := hne
  ids := by
    intro s hs
    have : specId s ∈ ids.map some := h ▸ List.mem_map.mpr ⟨s, hs, rfl⟩
    obtain ⟨id, _, hid⟩ := List.mem_map.mp this
    exact ⟨id, hid.symm⟩
  nodup := by
    have : specs.filterMap specId = ids := by
      have h2 : specs.filterMap specId = (specs.map specId).filterMap id := by
        rw [List.filterMap_map]; rfl
      rw [h2, h, List.filterMap_map]
      simp
    rw [this]; exact hn

theorem gtf_ids : IdsOk gtfSpecs :=
  idsOk_of_list gtfSpecs ["g1".toList, "e1".toList, "e2".toList] (by decide) (by decide +kernel) (by decide)
theorem gff_ids : IdsOk gffSpecs :=
  idsOk_of_list gffSpecs ["g1".toList, "m1".toList, "e1".toList] (by decide) (by decide +kernel) (by decide)

/-- A: a line alone not exhibiting its dialect, read and printed under a dialect with a foreign order -/
example : splitKeyvals "ID \"e2\";".toList (some (dOf (gtfSpec [] []) ["gene_id".toList, "ID".toList]))
    = .ok ([("ID".toList, ["e2".toList])], dOf (gtfSpec [] []) ["gene_id".toList, "ID".toList]) :=
  provided_render (gtfSpec ["chr1", "src", "exon", ".", ".", ".", "+", "."] [("ID", ["e2"])])
    (by decide +kernel) _ (by decide)

/-- A: the GFF3 line with a flag and two extra columns, under the voted order `[ID, Name, Parent, flag]` -/
example : ∃ f, featureFromLine "chr1\t.\tmRNA\t1\t1000\t.\t+\t.\tID=m1;Parent=g1;flag\textra1\t".toList
      (some (dOf (gffSpec [] []) ["ID".toList, "Name".toList, "Parent".toList, "flag".toList])) true true = .ok f ∧
    f.print = .ok "chr1\t.\tmRNA\t1\t1000\t.\t+\t.\tID=m1;Parent=g1;flag\textra1\t".toList := by
  have := provided_print_parse_render_ko
    (gffSpec ["chr1", ".", "mRNA", "1", "1000", ".", "+", "."] [("ID", ["m1"]), ("Parent", ["g1"]), ("flag", [])]
      ["extra1", ""])
    (by decide +kernel) (dOf (gffSpec [] []) ["ID".toList, "Name".toList, "Parent".toList, "flag".toList])
    (by decide) (by rw [orderConsistent_iff]; decide +kernel)
  rwa [show renderLine _ = "chr1\t.\tmRNA\t1\t1000\t.\t+\t.\tID=m1;Parent=g1;flag\textra1\t".toList by
    decide +kernel] at this

/-- B: a feature with an id, a bin, and extra columns (the first one empty) -/
def exFeat : Feature := { C02.mkF "exon" "e1" 5 9 ["m1"] with id := some "e1".toList, extra := [[], ['x']] }

example : ∃ r, Row.ofFeature exFeat = .ok r ∧
    (r.toFeature Dialect.default true false).print =
      ({ exFeat with dialect := Dialect.default, keepOrder := true, sortVals := false } : Feature).print :=
  row_roundtrip_print _ "e1".toList rfl _ _ _

/-- C: C02's example annotation (children first, a dangling parent) -/
example : ∃ db s, createDb .gff (gffCfg .error Dialect.default) [] C02.ex = .ok db ∧ openDb db true false = .ok s ∧
    runQuery s {} = C02.ex.map storedRow := by
  obtain ⟨db, s, h1, h2, h3, _⟩ := import_all_once_in_order .error Dialect.default [] C02.ex C02.ex_ok true false
  exact ⟨db, s, h1, h2, h3⟩

/-- W + D on the GTF file, `checklines = 1` (the window is the first two feature lines): all hypotheses
hold, so the three printed features are the three feature lines -/
example : ∃ d db sess,
    d = dOf (gtfSpec [] []) ["ID".toList, "gene_id".toList, "transcript_id".toList, "tag".toList] ∧
    Iter.runFile gtfLines 1 none none = .ok (d, gtfSpecs.map (fun s => provFeature s d false), []) ∧
    createDb .gff (gffCfg .error d) [] (gtfSpecs.map (fun s => provFeature s d false)) = .ok db ∧
    openDb db true false = .ok sess ∧
    ((runQuery sess {}).map sess.returner).mapM (fun f => f.print) =
      .ok ["chr1\tsrc\tgene\t100\t200\t.\t+\t.\tID \"g1\"; gene_id \"g1\";".toList,
           "chr1\tsrc\texon\t100\t150\t.\t+\t0\tID \"e1\"; gene_id \"g1\"; transcript_id \"t 1\"; tag \"\";".toList,
           "chr1\tsrc\texon\t.\t.\t.\t+\t.\tID \"e2\";".toList] := by
  obtain ⟨d, db, sess, hd, h1, h2, h3, _, _, h6⟩ :=
    printed_identical_of_window gtfLines gtfSpecs 1 (gtfSpec [] []) .error gtf_fl
      (by decide +kernel) (by decide +kernel)
      (by intro s hs; rw [orderConsistent_iff]; revert s; decide +kernel) gtf_ids
  have ho : Helpers.firstSeenOrder ((gtfSpecs.take (1 + 1)).map (fun s => s.attrs.map (·.key))) =
      ["ID".toList, "gene_id".toList, "transcript_id".toList, "tag".toList] := by decide +kernel
  have hdir : Iter.directives gtfLines = [] := by decide +kernel
  have hfl' : Iter.featureLines gtfLines = _ := (by decide +kernel :
    Iter.featureLines gtfLines =
      ["chr1\tsrc\tgene\t100\t200\t.\t+\t.\tID \"g1\"; gene_id \"g1\";".toList,
       "chr1\tsrc\texon\t100\t150\t.\t+\t0\tID \"e1\"; gene_id \"g1\"; transcript_id \"t 1\"; tag \"\";".toList,
       "chr1\tsrc\texon\t.\t.\t.\t+\t.\tID \"e2\";".toList])
  rw [ho] at hd
  rw [hdir] at h1 h2
  rw [hfl'] at h6
  exact ⟨d, db, sess, hd, h1, h2, h3, h6⟩

/-- W + D on the GFF3 file (window = whole file): directive kept, comment and FASTA ignored, the flag and
the extra columns (also the empty last one) come back -/
example : ∃ d db sess,
    Iter.runFile gffLines 10 none none =
      .ok (d, gffSpecs.map (fun s => provFeature s d false), ["gff-version 3".toList]) ∧
    createDb .gff (gffCfg .merge d) ["gff-version 3".toList] (gffSpecs.map (fun s => provFeature s d false)) = .ok db ∧
    openDb db true false = .ok sess ∧ sess.directives = ["gff-version 3".toList] ∧
    ((runQuery sess {}).map sess.returner).mapM (fun f => f.print) = .ok (Iter.featureLines gffLines) := by
  obtain ⟨d, db, sess, _, h1, h2, h3, h4, _, h6⟩ :=
    printed_identical_of_window gffLines gffSpecs 10 (gffSpec [] []) .merge gff_fl
      (by decide +kernel) (by decide +kernel)
      (by intro s hs; rw [orderConsistent_iff]; revert s; decide +kernel) gff_ids
  have hdir : Iter.directives gffLines = ["gff-version 3".toList] := by decide +kernel
  rw [hdir] at h1 h2 h4
  exact ⟨d, db, sess, h1, h2, h3, h4, h6⟩

end Examples

end GffProofs.C01
