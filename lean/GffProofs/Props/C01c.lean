/-
  C01 (continued) — import fidelity WITHOUT the restriction "every line carries a unique single `ID` and the
  `id_spec` is the default one".

  C01 quantifies over "every merge_strategy that keeps all lines" and all configurations.  Here:

  1. GFF importer, `merge_strategy = create_unique`, ARBITRARY `id_spec` (string, list, `:field:` forms,
     callables incl. `'autoincrement:X'`, dict per featuretype), lines that have, lack or SHARE the id
     attributes.  Under (a) `Accepted` — `_id_handler` does not reject the line — and (b) `NoClash` — no
     explicit key looks like a generated one — `create_db` succeeds and stores exactly one row per input
     line, in input order, with the line's content under the key `keyAt` (closed form); keys pairwise
     distinct; a reader gets the lines back and, for lines written in one dialect with consistent key order,
     prints them byte for byte (`printed_identical_any_ids`, `…_file`); same after reopen; re-import gives
     the same tables.  `clash_integrity_error`: without (b) the real importer can die with `IntegrityError`.
  2. every strategy (`error`/`warning`/`replace`/`merge`/`create_unique`), arbitrary `id_spec`, when the keys
     `id_spec` computes are pairwise distinct: all lines kept (`no_collision_all_lines`, …).
  3. GTF importer: `populate_gtf_any_ids`, `createDb_gtf_lines_kept`, `import_all_once_in_order_gtf_any_ids`
     (see the section header for what is and is not covered).

  Specification definitions: `GffProofs/Props/C01cSpec.lean`; helper lemmas: `GffProofs/Lemmas/C01cAux.lean`.
-/
import GffProofs.Lemmas.C01cAux
import GffProofs.Lemmas.C10Frame
import GffProofs.Lemmas.C10cEval

namespace GffProofs.C01c
open GffModel GffModel.Parser GffModel.Grammar GffModel.Create GffModel.Interface
open GffProofs.C04 (autoId IdsNodup)
open GffProofs.C01 (rowOf returnedAs provFeature HasDims OrderConsistent)

/-! ## the domain conditions: decidable sufficient forms, and necessity -/

/-- (a) holds when the id keys that apply to the line are attribute names or callables and none of the
listed attributes carries several values -/
theorem accepted_of_single_valued (spec : IdSpec) (f : Feature)
    (h : ∀ ks, keysFor spec f = some ks → ∀ ke ∈ ks,
      match ke with
      | .attr k => isFieldSpec k = false ∧ ((f.attrs.get? k).getD []).length ≤ 1
      | .call _ => True) :
    Accepted spec f := by
  have hk : ∀ ks : List KeySpec, (∀ ke ∈ ks,
      match ke with
      | .attr k => isFieldSpec k = false ∧ ((f.attrs.get? k).getD []).length ≤ 1
      | .call _ => True) → ∀ e, kindOfKeys f ks ≠ .rejected e := by
    intro ks
    induction ks with
    | nil => intro _ e; simp [kindOfKeys]
    | cons ke rest ih =>
      intro hks e
      have ih' := ih (fun x hx => hks x (List.mem_cons_of_mem _ hx)) e
      have h0 := hks ke (by simp)
      cases ke with
      | call g =>
        simp only [kindOfKeys]
        cases g f with
        | none => exact ih'
        | some id =>
          simp only
          split
          · exact ih'
          · split <;> simp
      | attr k =>
        simp only at h0
        simp only [kindOfKeys, h0.1, Bool.false_eq_true, if_false]
        cases hg : f.attrs.get? k with
        | none => exact ih'
        | some vs =>
          cases vs with
          | nil => exact ih'
          | cons v vs =>
            cases vs with
            | nil => simp
            | cons w vs => rw [hg] at h0; simp at h0
  intro e
  unfold kindOf
  cases hks : keysFor spec f with
  | none => simp
  | some ks => exact hk ks (h ks hks) e

/-- the explicit keys of a file -/
def fixedKeys (spec : IdSpec) (fs : List Feature) : List Str :=
  fs.filterMap (fun g => match kindOf spec g with | .fixed k => some k | _ => none)

/-- the counter names of a file: explicit keys and auto-increment bases -/
def baseNames (spec : IdSpec) (fs : List Feature) : List Str :=
  fs.filterMap (fun g => match kindOf spec g with | .fixed k => some k | .auto x => some x | .rejected _ => none)

theorem mem_fixedKeys {spec : IdSpec} {fs : List Feature} {g : Feature} {k : Str} (hg : g ∈ fs)
    (hk : kindOf spec g = .fixed k) : k ∈ fixedKeys spec fs :=
  List.mem_filterMap.mpr ⟨g, hg, by rw [hk]⟩

theorem mem_baseNames {spec : IdSpec} {fs : List Feature} {y : Str} (h : IsBase spec fs y) :
    y ∈ baseNames spec fs := by
  obtain ⟨g, hg, hk | hk⟩ := h <;> exact List.mem_filterMap.mpr ⟨g, hg, by rw [hk]⟩

/-- (b), decidable form: no explicit key starts with `<counter name>_` -/
theorem noClash_of_prefix (spec : IdSpec) (fs : List Feature)
    (h : ∀ k ∈ fixedKeys spec fs, ∀ y ∈ baseNames spec fs, (y ++ ['_']).isPrefixOf k = false) :
    NoClash spec fs := by
  intro g hg k hk y hy n e
  have := h k (mem_fixedKeys hg hk) y (mem_baseNames hy)
  rw [e] at this
  have hp : (y ++ ['_']).isPrefixOf (autoId y n) = true := by
    rw [List.isPrefixOf_iff_prefix]; unfold autoId; exact List.prefix_append _ _
  rw [hp] at this; cases this

/-- (b), simplest form: no explicit key contains an underscore -/
theorem noClash_of_no_underscore (spec : IdSpec) (fs : List Feature)
    (h : ∀ k ∈ fixedKeys spec fs, '_' ∉ k) : NoClash spec fs := by
  intro g hg k hk y _ n e
  exact h k (mem_fixedKeys hg hk) (by rw [e]; exact C05.underscore_mem_autoId _ _)

/-! ## 1. `create_unique`, arbitrary `id_spec` -/

/-- the closed form agrees with position: the `i`-th placement is the `i`-th line with the key computed
from the lines before it -/
theorem placements_getElem? (spec : IdSpec) (fs : List Feature) (i : Nat) (hi : i < fs.length) :
    (placements spec fs)[i]? = some (fs[i], keyAt spec (fs.take i) fs[i]) := by
  unfold placements
  rw [placementsFrom_getElem?, List.getElem?_eq_getElem hi]; simp

theorem placements_fst (spec : IdSpec) (fs : List Feature) : (placements spec fs).map (·.1) = fs :=
  placementsFrom_fst spec [] fs

theorem placements_length (spec : IdSpec) (fs : List Feature) : (placements spec fs).length = fs.length := by
  have := congrArg List.length (placements_fst spec fs); simpa using this

theorem isEmpty_false {fs : List Feature} (hne : fs ≠ []) : fs.isEmpty = false := by
  cases fs with
  | nil => exact absurd rfl hne
  | cons a l => rfl

theorem idsNodup_empty : IdsNodup ({} : Db) := by simp [IdsNodup]

/-- **`_populate_from_lines` (GFF), `create_unique`, any `id_spec`**: succeeds; one row per line, in order,
under `keyAt`; the counters are `counterAfter`; no other table is touched -/
theorem populate_gff_any_ids (cfg : Cfg) (hst : cfg.strategy = .createUnique) (fs : List Feature) (hne : fs ≠ [])
    (hacc : ∀ f ∈ fs, Accepted cfg.idSpec f) (hnc : NoClash cfg.idSpec fs) :
    ∃ db auto, populateGff cfg {} [] fs = .ok (db, auto) ∧
      db.features = (placements cfg.idSpec fs).map (fun p => rowOf p.1 p.2) ∧
      (db.features.map (·.id)).Nodup ∧
      (∀ y, (auto.get? y).getD 0 = counterAfter cfg.idSpec fs y) ∧ (Dict.keys auto).Nodup ∧
      db.metaRows = [] ∧ db.directives = [] ∧ db.autoinc = [] ∧ db.duplicates = [] := by
  obtain ⟨db, auto, hrun, inv⟩ :=
    fold_inv (stepLike_gff cfg) hst fs hacc hnc fs [] {} [] rfl (inv_empty cfg.idSpec fs)
  have hp : populateGff cfg {} [] fs = .ok (db, auto) := by
    rw [C05.populateGff_ne _ _ _ _ hne]; exact hrun
  exact ⟨db, auto, hp, inv.feats, C04.populateGff_nodup cfg {} db [] auto fs idsNodup_empty hp, inv.cnt,
    inv.autoNodup, inv.side⟩

/-- **the database `create_db` returns** (GFF importer, `create_unique`, any `id_spec`, lines that have, lack
or share the id attributes): the feature table is the input, row by row, in order, every line under the key
`keyAt` gives it; keys pairwise distinct; one meta row; the directives; the stored counters are
`counterAfter`; no `duplicates` record -/
theorem createDb_rows_any_ids (cfg : Cfg) (hst : cfg.strategy = .createUnique) (dirs : List Str)
    (fs : List Feature) (hne : fs ≠ [])
    (hacc : ∀ f ∈ fs, Accepted cfg.idSpec f) (hnc : NoClash cfg.idSpec fs) :
    ∃ db, createDb .gff cfg dirs fs = .ok db ∧
      db.features = (placements cfg.idSpec fs).map (fun p => rowOf p.1 p.2) ∧
      (db.features.map (·.id)).Nodup ∧
      db.metaRows = [cfg.dialect] ∧ db.directives = dirs ∧ db.duplicates = [] ∧
      (∀ y, (db.autoinc.get? y).getD 0 = counterAfter cfg.idSpec fs y) := by
  obtain ⟨db0, auto0, hp, hf, hnd, hcnt, hand, hm, hd, ha, hdu⟩ := populate_gff_any_ids cfg hst fs hne hacc hnc
  have hside := C01.updateRelationsGff_side db0
  simp only [C01.side, Prod.mk.injEq] at hside
  obtain ⟨hm', hd', ha', hdu'⟩ := hside
  have hfeat : (finalize (updateRelationsGff db0) cfg.dialect dirs auto0).features = db0.features := by
    rw [C02.finalize_features, C02.updateRelationsGff_features]
  refine ⟨finalize (updateRelationsGff db0) cfg.dialect dirs auto0, ?_, ?_, ?_, ?_, ?_, ?_, ?_⟩
  · simp only [createDb, hp, bind, Except.bind, pure, Except.pure]
  · rw [hfeat, hf]
  · rw [hfeat]; exact hnd
  · show (updateRelationsGff db0).metaRows ++ [cfg.dialect] = _
    rw [hm', hm]; rfl
  · show (updateRelationsGff db0).directives ++ dirs = _
    rw [hd', hd]; rfl
  · show (updateRelationsGff db0).duplicates = _
    rw [hdu', hdu]
  · intro y
    rw [C10.finalize_autoinc, ha', ha, get?_setAll_nil auto0 hand y]; exact hcnt y

/-- what a reader of a database with the rows `P ++ D` sees -/
theorem session_of_rows (db : Db) (P : List (Feature × Str)) (D : List Row) (d : Dialect) (dirs : List Str)
    (hf : db.features = P.map (fun p => rowOf p.1 p.2) ++ D) (hm : db.metaRows = [d]) (hd : db.directives = dirs)
    (ko sv : Bool) :
    ∃ s, openDb db ko sv = .ok s ∧ runQuery s {} = P.map (fun p => rowOf p.1 p.2) ++ D ∧
      (runQuery s {}).take P.length = P.map (fun p => rowOf p.1 p.2) ∧ (runQuery s {}).drop P.length = D ∧
      ((runQuery s {}).take P.length).map s.returner = P.map (fun p => returnedAs d ko sv p.1 p.2) ∧
      s.db = db ∧ s.dialect = d ∧ s.directives = dirs ∧ s.auto = db.autoinc ∧ s.keepOrder = ko ∧ s.sortVals = sv := by
  have hopen : openDb db ko sv = .ok ⟨db, db.autoinc, d, db.directives, ko, sv⟩ := by
    unfold openDb; rw [hm]
  have hq : runQuery ⟨db, db.autoinc, d, db.directives, ko, sv⟩ {} = P.map (fun p => rowOf p.1 p.2) ++ D := by
    rw [C11.full_iteration_in_input_order]; exact hf
  have hlen : (P.map (fun p => rowOf p.1 p.2)).length = P.length := List.length_map _
  have htake : (runQuery ⟨db, db.autoinc, d, db.directives, ko, sv⟩ {}).take P.length =
      P.map (fun p => rowOf p.1 p.2) := by rw [hq, ← hlen, List.take_left]
  refine ⟨_, hopen, hq, htake, ?_, ?_, rfl, rfl, hd, rfl, rfl, rfl⟩
  · rw [hq, ← hlen, List.drop_left]
  · rw [htake, List.map_map]
    apply List.map_congr_left
    intro p _
    exact C01.toFeature_lineRow p.1 p.2 d ko sv

/-- the Features handed back for lines written in one dialect print to those lines -/
theorem print_rows (d : Dialect) (specs : List LineSpec)
    (hwf : ∀ s ∈ specs, s.WFprov = true) (hdims : ∀ s ∈ specs, HasDims d s)
    (hord : ∀ s ∈ specs, OrderConsistent d.order s) :
    ∀ (P : List (Feature × Str)) (ss : List LineSpec),
      P.map (·.1) = ss.map (fun s => provFeature s d false) → (∀ s ∈ ss, s ∈ specs) →
      (P.map (fun p => returnedAs d true false p.1 p.2)).mapM (fun f => f.print) = .ok (ss.map renderLine) := by
  intro P
  induction P with
  | nil =>
    intro ss hl _
    cases ss with
    | nil => rfl
    | cons a b => simp at hl
  | cons p P ih =>
    intro ss hl hss
    cases ss with
    | nil => simp at hl
    | cons s ss =>
      simp only [List.map_cons, List.cons.injEq] at hl
      have hs := hss s (by simp)
      have hc' := (C01.provided_parse_render_line s (hwf s hs) d (hdims s hs) false).2.1
      have hp : (returnedAs d true false p.1 p.2).print = .ok (renderLine s) := by
        rw [hl.1]
        exact C01.print_of_fields _ s hc' rfl rfl rfl rfl
          (C01.reconstruct_keep_order s (hwf s hs) d (hdims s hs) (hord s hs))
      have := ih ss hl.2 (fun t ht => hss t (by simp [ht]))
      simp only [List.map_cons, List.mapM_cons, hp, this, bind, Except.bind, pure, Except.pure]

/-- **Every input line is stored exactly once, in input order, and comes back with its content — whatever
the `id_spec`, whether or not the lines carry / share the id attributes** (`create_unique`).
`create_db` succeeds; opening succeeds; a full iteration yields exactly `fs.length` rows, the `i`-th being
the `i`-th line (`rowOf`: eight columns, attributes, extra columns; bin recomputed) under the key
`keyAt cfg.idSpec (fs.take i) fs[i]`; the keys are pairwise distinct; the Features handed back are
`returnedAs`: the line's content with `id` = its key, the database dialect and the reader's flags. -/
theorem import_all_once_in_order_any_ids (cfg : Cfg) (hst : cfg.strategy = .createUnique) (dirs : List Str)
    (fs : List Feature) (hne : fs ≠ [])
    (hacc : ∀ f ∈ fs, Accepted cfg.idSpec f) (hnc : NoClash cfg.idSpec fs) (ko sv : Bool) :
    ∃ db s, createDb .gff cfg dirs fs = .ok db ∧ openDb db ko sv = .ok s ∧
      runQuery s {} = (placements cfg.idSpec fs).map (fun p => rowOf p.1 p.2) ∧
      (placements cfg.idSpec fs).map (·.1) = fs ∧
      (runQuery s {}).length = fs.length ∧
      (∀ i (hi : i < fs.length),
        (runQuery s {})[i]? = some (rowOf fs[i] (keyAt cfg.idSpec (fs.take i) fs[i]))) ∧
      ((runQuery s {}).map (·.id)).Nodup ∧
      (runQuery s {}).map s.returner = (placements cfg.idSpec fs).map (fun p => returnedAs cfg.dialect ko sv p.1 p.2) ∧
      (∀ f k, (returnedAs cfg.dialect ko sv f k).seqid = f.seqid ∧ (returnedAs cfg.dialect ko sv f k).source = f.source ∧
        (returnedAs cfg.dialect ko sv f k).ftype = f.ftype ∧ (returnedAs cfg.dialect ko sv f k).start = f.start ∧
        (returnedAs cfg.dialect ko sv f k).stop = f.stop ∧ (returnedAs cfg.dialect ko sv f k).score = f.score ∧
        (returnedAs cfg.dialect ko sv f k).strand = f.strand ∧ (returnedAs cfg.dialect ko sv f k).frame = f.frame ∧
        (returnedAs cfg.dialect ko sv f k).attrs = f.attrs ∧ (returnedAs cfg.dialect ko sv f k).extra = f.extra ∧
        (returnedAs cfg.dialect ko sv f k).id = some k) ∧
      s.db = db ∧ s.dialect = cfg.dialect ∧ s.directives = dirs ∧ s.keepOrder = ko ∧ s.sortVals = sv ∧
      (∀ y, (s.auto.get? y).getD 0 = counterAfter cfg.idSpec fs y) := by
  obtain ⟨db, hdb, hf, hnd, hm, hd, _, hau⟩ := createDb_rows_any_ids cfg hst dirs fs hne hacc hnc
  obtain ⟨s, hopen, hq, htake, _, hret, hsdb, hsd, hsdir, hsau, hko, hsv⟩ :=
    session_of_rows db (placements cfg.idSpec fs) [] cfg.dialect dirs (by rw [hf]; simp) hm hd ko sv
  rw [List.append_nil] at hq
  have hlen : (runQuery s {}).length = (placements cfg.idSpec fs).length := by rw [hq, List.length_map]
  rw [← hlen, List.take_length] at hret
  refine ⟨db, s, hdb, hopen, hq, placements_fst _ _, by rw [hlen, placements_length], ?_, ?_, hret, ?_,
    hsdb, hsd, hsdir, hko, hsv, ?_⟩
  · intro i hi
    rw [hq, List.getElem?_map, placements_getElem? _ _ i hi]; rfl
  · rw [hq, ← hf]; exact hnd
  · intro f k; exact ⟨rfl, rfl, rfl, rfl, rfl, rfl, rfl, rfl, rfl, rfl, rfl⟩
  · intro y; rw [hsau]; exact hau y

/-- each stored line is found under its key by `db[key]` -/
theorem lookup_each_any_ids (cfg : Cfg) (hst : cfg.strategy = .createUnique) (dirs : List Str)
    (fs : List Feature) (hne : fs ≠ [])
    (hacc : ∀ f ∈ fs, Accepted cfg.idSpec f) (hnc : NoClash cfg.idSpec fs) (ko sv : Bool) :
    ∃ db s, createDb .gff cfg dirs fs = .ok db ∧ openDb db ko sv = .ok s ∧
      ∀ p ∈ placements cfg.idSpec fs, getItem s p.2 = .ok (returnedAs cfg.dialect ko sv p.1 p.2) := by
  obtain ⟨db, hdb, hf, hnd, hm, hd, _, _⟩ := createDb_rows_any_ids cfg hst dirs fs hne hacc hnc
  have hopen : openDb db ko sv = .ok ⟨db, db.autoinc, cfg.dialect, db.directives, ko, sv⟩ := by
    unfold openDb; rw [hm]
  refine ⟨db, _, hdb, hopen, ?_⟩
  intro p hp
  have hmem : rowOf p.1 p.2 ∈ db.features := by rw [hf]; exact List.mem_map.mpr ⟨p, hp, rfl⟩
  have := C04.getitem_exact ⟨db, db.autoinc, cfg.dialect, db.directives, ko, sv⟩ hnd _ hmem
  rw [show (rowOf p.1 p.2).id = p.2 from rfl] at this
  rw [this]
  exact congrArg _ (C01.toFeature_lineRow p.1 p.2 cfg.dialect ko sv)

/-- **Closing and reopening observes the same content** (any `id_spec`, `create_unique`) -/
theorem reopen_same_any_ids (cfg : Cfg) (hst : cfg.strategy = .createUnique) (dirs : List Str)
    (fs : List Feature) (hne : fs ≠ [])
    (hacc : ∀ f ∈ fs, Accepted cfg.idSpec f) (hnc : NoClash cfg.idSpec fs) (ko sv ko' sv' : Bool) :
    ∃ db s s', createDb .gff cfg dirs fs = .ok db ∧
      openDb db ko sv = .ok s ∧ openDb db ko' sv' = .ok s' ∧
      s'.dialect = s.dialect ∧ s.dialect = cfg.dialect ∧ s'.directives = s.directives ∧ s.directives = dirs ∧
      s'.auto = s.auto ∧ (∀ y, (s.auto.get? y).getD 0 = counterAfter cfg.idSpec fs y) ∧
      s'.db.features = s.db.features ∧
      s.db.features = (placements cfg.idSpec fs).map (fun p => rowOf p.1 p.2) ∧
      (∀ q, runQuery s' q = runQuery s q) ∧
      (∀ isChildren x level q, runRelation s' isChildren x level q = runRelation s isChildren x level q) ∧
      (ko' = ko → sv' = sv → ∀ r, s'.returner r = s.returner r) := by
  obtain ⟨db, hdb, hf, _, hm, hd, _, hau⟩ := createDb_rows_any_ids cfg hst dirs fs hne hacc hnc
  have hopen : ∀ a b, openDb db a b = .ok ⟨db, db.autoinc, cfg.dialect, db.directives, a, b⟩ := by
    intro a b; unfold openDb; rw [hm]
  refine ⟨db, _, _, hdb, hopen ko sv, hopen ko' sv', rfl, rfl, rfl, hd, rfl, hau, rfl, hf,
    fun q => rfl, fun _ _ _ _ => rfl, ?_⟩
  intro h1 h2 r; subst h1 h2; rfl

/-- **Printed form is byte-identical, any `id_spec`, ids present / missing / shared** (`create_unique`).
`specs` are renderable lines (`WFprov`) written in the dimensions of the database dialect `cfg.dialect` with
key order consistent with its `order`; the features are what the iterator parses from them,
`provFeature s cfg.dialect false`.  NO condition on `ID`s beyond (a) and (b).  Then `create_db` succeeds,
opening with `keep_order=True` succeeds, the iteration has exactly one feature per line and their printed
forms are the lines, byte for byte, in input order. -/
theorem printed_identical_any_ids (cfg : Cfg) (hst : cfg.strategy = .createUnique) (dirs : List Str)
    (specs : List LineSpec) (hne : specs ≠ [])
    (hwf : ∀ s ∈ specs, s.WFprov = true)
    (hdims : ∀ s ∈ specs, HasDims cfg.dialect s)
    (hord : ∀ s ∈ specs, OrderConsistent cfg.dialect.order s)
    (hacc : ∀ s ∈ specs, Accepted cfg.idSpec (provFeature s cfg.dialect false))
    (hnc : NoClash cfg.idSpec (specs.map (fun s => provFeature s cfg.dialect false))) :
    ∃ db sess, createDb .gff cfg dirs (specs.map (fun s => provFeature s cfg.dialect false)) = .ok db ∧
      openDb db true false = .ok sess ∧ sess.directives = dirs ∧
      (runQuery sess {}).length = specs.length ∧
      (runQuery sess {}).map (·.id) =
        (placements cfg.idSpec (specs.map (fun s => provFeature s cfg.dialect false))).map (·.2) ∧
      ((runQuery sess {}).map (·.id)).Nodup ∧
      ((runQuery sess {}).map sess.returner).mapM (fun f => f.print) = .ok (specs.map renderLine) := by
  obtain ⟨db, sess, hdb, hopen, hq, hfst, hlen, _, hnd, hret, _, _, _, hdir, _, _, _⟩ :=
    import_all_once_in_order_any_ids cfg hst dirs (specs.map (fun s => provFeature s cfg.dialect false))
      (by simpa using hne)
      (by intro f hf; obtain ⟨s, hs, rfl⟩ := List.mem_map.mp hf; exact hacc s hs) hnc true false
  refine ⟨db, sess, hdb, hopen, hdir, by simpa using hlen, ?_, hnd, ?_⟩
  · rw [hq, List.map_map]; rfl
  · rw [hret]
    exact print_rows cfg.dialect specs hwf hdims hord _ specs hfst (fun s hs => hs)

/-- **the same from the text of the file**: `lines` is any text (directives, comments, blank lines, FASTA
allowed) whose feature lines are the renderings of `specs`; `DataIterator(text, checklines)` votes the
dialect the database is created with -/
theorem printed_identical_any_ids_file (cfg : Cfg) (hst : cfg.strategy = .createUnique) (lines : List Str)
    (specs : List LineSpec) (checklines : Nat) (hne : specs ≠ [])
    (hfl : Iter.featureLines lines = specs.map renderLine)
    (hwf : ∀ s ∈ specs, s.WFprov = true)
    (hvote : Iter.fileDialect lines checklines = .ok cfg.dialect)
    (hdims : ∀ s ∈ specs, HasDims cfg.dialect s)
    (hord : ∀ s ∈ specs, OrderConsistent cfg.dialect.order s)
    (hacc : ∀ s ∈ specs, Accepted cfg.idSpec (provFeature s cfg.dialect false))
    (hnc : NoClash cfg.idSpec (specs.map (fun s => provFeature s cfg.dialect false))) :
    ∃ db sess,
      Iter.runFile lines checklines none none =
        .ok (cfg.dialect, specs.map (fun s => provFeature s cfg.dialect false), Iter.directives lines) ∧
      createDb .gff cfg (Iter.directives lines) (specs.map (fun s => provFeature s cfg.dialect false)) = .ok db ∧
      openDb db true false = .ok sess ∧ sess.directives = Iter.directives lines ∧
      (runQuery sess {}).length = specs.length ∧
      ((runQuery sess {}).map (·.id)).Nodup ∧
      ((runQuery sess {}).map sess.returner).mapM (fun f => f.print) = .ok (Iter.featureLines lines) := by
  have hiter := C01.iterate_specs lines specs cfg.dialect hfl
    (fun s hs => ⟨(C01.pfacts s (hwf s hs)).1, (C01.pfacts s (hwf s hs)).2, C01.hasDims_eq cfg.dialect s (hdims s hs)⟩)
  obtain ⟨db, sess, hdb, hopen, hdir, hlen, _, hnd, hp⟩ :=
    printed_identical_any_ids cfg hst (Iter.directives lines) specs hne hwf hdims hord hacc hnc
  refine ⟨db, sess, ?_, hdb, hopen, hdir, hlen, hnd, by rw [hfl]; exact hp⟩
  unfold Iter.runFile
  simp only [hvote, hiter, bind, Except.bind, pure, Except.pure]

/-- **Re-importing the printed features gives an equivalent database** (any `id_spec`, `create_unique`).
The text made of the printed features is read, with the same voted dialect, into the same feature sequence;
the keys are RECOMPUTED by the second import and come out the same because they are a function of the
feature sequence (`placements`); `features`, `relations`, `meta`, `autoincrements` and `duplicates` agree,
only the `directives` table differs (printing features prints no directives). -/
theorem reimport_equivalent_any_ids (cfg : Cfg) (hst : cfg.strategy = .createUnique) (lines : List Str)
    (specs : List LineSpec) (checklines : Nat) (hne : specs ≠ [])
    (hfl : Iter.featureLines lines = specs.map renderLine)
    (hwf : ∀ s ∈ specs, s.WFprov = true)
    (hvote : Iter.fileDialect lines checklines = .ok cfg.dialect)
    (hdims : ∀ s ∈ specs, HasDims cfg.dialect s)
    (hord : ∀ s ∈ specs, OrderConsistent cfg.dialect.order s)
    (hacc : ∀ s ∈ specs, Accepted cfg.idSpec (provFeature s cfg.dialect false))
    (hnc : NoClash cfg.idSpec (specs.map (fun s => provFeature s cfg.dialect false))) :
    ∃ db sess printed fs' db',
      createDb .gff cfg (Iter.directives lines) (specs.map (fun s => provFeature s cfg.dialect false)) = .ok db ∧
      openDb db true false = .ok sess ∧
      ((runQuery sess {}).map sess.returner).mapM (fun f => f.print) = .ok printed ∧
      Iter.runFile printed checklines none none = .ok (cfg.dialect, fs', []) ∧
      fs' = specs.map (fun s => provFeature s cfg.dialect false) ∧
      createDb .gff cfg [] fs' = .ok db' ∧
      db'.features = db.features ∧
      db'.features.map (·.id) = (placements cfg.idSpec fs').map (·.2) ∧
      db'.relations = db.relations ∧ db'.metaRows = db.metaRows ∧
      db'.autoinc = db.autoinc ∧ db'.duplicates = db.duplicates ∧ db'.directives = [] := by
  obtain ⟨db, sess, _, hdb, hopen, _, _, _, hprint⟩ :=
    printed_identical_any_ids_file cfg hst lines specs checklines hne hfl hwf hvote hdims hord hacc hnc
  obtain ⟨db2, _, hrun2, hdb2, _, _, _, _, _⟩ :=
    printed_identical_any_ids_file cfg hst (Iter.featureLines lines) specs checklines hne
      (by rw [C01.featureLines_idem]; exact hfl) hwf (by rw [C01.fileDialect_featureLines]; exact hvote)
      hdims hord hacc hnc
  rw [C01.featureLines_directives] at hrun2 hdb2
  obtain ⟨db', hdb', e1, e2, e3, e4, e5⟩ := C01.createDb_gff_dirs _ _ [] _ db hdb
  obtain ⟨db3, h3, hf3, _, _, hdir3, _, _⟩ := createDb_rows_any_ids cfg hst []
    (specs.map (fun s => provFeature s cfg.dialect false)) (by simpa using hne)
    (by intro f hf; obtain ⟨s, hs, rfl⟩ := List.mem_map.mp hf; exact hacc s hs) hnc
  rw [hdb'] at h3; cases h3
  refine ⟨db, sess, _, _, db', hdb, hopen, hprint, hrun2, rfl, hdb', e1, ?_, e2, e3, e4, e5, hdir3⟩
  rw [hf3, List.map_map]; rfl

/-! ### the closed form generalises C05's `uniqueId` / `placements` (default `id_spec`, every line with one `ID`) -/

theorem kindOfKeys_attr_single (f : Feature) (k : Str) (rest : List KeySpec) (v : Str)
    (hk : isFieldSpec k = false) (hv : f.attrs.get? k = some [v]) :
    kindOfKeys f (.attr k :: rest) = .fixed v := by
  simp only [kindOfKeys, hk, Bool.false_eq_true, if_false, hv]

theorem kindOf_default_keyed (g : Feature) (k : Str) (h : C02.idOf g = some k) :
    kindOf defaultGffSpec g = .fixed k := by
  unfold kindOf
  exact kindOfKeys_attr_single g _ _ k (by decide) (C02.get_of_idOf h)

theorem keyAt_default_keyed (pre : List Feature) (f : Feature) (hpre : C05.Keyed pre) (k : Str)
    (hf : C02.idOf f = some k) :
    keyAt defaultGffSpec pre f = C05.uniqueId [] [] pre (C05.keyOf f) := by
  have hk : C05.keyOf f = k := C05.keyOf_eq hf
  have hkind : ∀ g ∈ pre, ∀ y, (kindOf defaultGffSpec g = .fixed y ↔ C05.keyOf g = y) ∧
      kindOf defaultGffSpec g ≠ .auto y := by
    intro g hg y
    obtain ⟨kg, hkg⟩ := hpre g hg
    rw [kindOf_default_keyed g kg hkg, C05.keyOf_eq hkg]
    exact ⟨⟨fun e => by cases e; rfl, fun e => by rw [e]⟩, KeyKind.noConfusion⟩
  have hfc : fixedCount defaultGffSpec pre k = (pre.filter (fun g => C05.keyOf g = k)).length := by
    unfold fixedCount
    congr 1
    apply List.filter_congr
    intro g hg
    simp only [decide_eq_decide]
    exact (hkind g hg k).1
  have hac : autoCount defaultGffSpec pre k = 0 := by
    unfold autoCount
    rw [List.length_eq_zero_iff, List.filter_eq_nil_iff]
    intro g hg
    simpa using (hkind g hg k).2
  unfold keyAt C05.uniqueId C05.priorCount counterAfter
  rw [kindOf_default_keyed f k hf, hk]
  simp only [hfc, hac, List.not_mem_nil, if_false, Nat.add_zero, Nat.zero_add, Dict.get?, Option.getD_none]
  split
  · rfl
  · rename_i h0; congr 1; omega

/-- on C05's domain the keys of `placements` are C05's `placements` -/
theorem placements_default_keyed (fs : List Feature) (hK : C05.Keyed fs) :
    placements defaultGffSpec fs = C05.placements [] [] [] fs := by
  have hgen : ∀ (rest pre : List Feature), C05.Keyed pre → C05.Keyed rest →
      placementsFrom defaultGffSpec pre rest = C05.placements [] [] pre rest := by
    intro rest
    induction rest with
    | nil => intro pre _ _; rfl
    | cons f rest ih =>
      intro pre hpre hrest
      obtain ⟨k, hk⟩ := hrest f (by simp)
      simp only [placementsFrom, C05.placements]
      rw [keyAt_default_keyed pre f hpre k hk, ih (pre ++ [f])]
      · intro g hg
        rcases List.mem_append.mp hg with hg | hg
        · exact hpre g hg
        · simp only [List.mem_singleton] at hg; subst hg; exact ⟨k, hk⟩
      · exact fun g hg => hrest g (List.mem_cons_of_mem _ hg)
  exact hgen fs [] (by intro g hg; simp at hg) hK

/-! ## 2. every strategy, arbitrary `id_spec`, no two lines asking for the same key -/

theorem plainPlacements_fst (spec : IdSpec) (fs : List Feature) : (plainPlacements spec fs).map (·.1) = fs :=
  plainPlacementsFrom_fst spec [] fs

theorem plainPlacements_length (spec : IdSpec) (fs : List Feature) :
    (plainPlacements spec fs).length = fs.length := by
  have := congrArg List.length (plainPlacements_fst spec fs); simpa using this

theorem plainPlacements_getElem? (spec : IdSpec) (fs : List Feature) (i : Nat) (hi : i < fs.length) :
    (plainPlacements spec fs)[i]? = some (fs[i], plainKeyAt spec (fs.take i) fs[i]) := by
  unfold plainPlacements
  rw [plainPlacementsFrom_getElem?, List.getElem?_eq_getElem hi]; simp

/-- **the database `create_db` returns when the keys `id_spec` computes are pairwise distinct — the same for
ALL FIVE strategies** (`cfg.strategy` is arbitrary, as are `force_merge_fields` etc.) -/
theorem createDb_rows_no_collision (cfg : Cfg) (dirs : List Str) (fs : List Feature) (hne : fs ≠ [])
    (hacc : ∀ f ∈ fs, Accepted cfg.idSpec f)
    (hnd : ((plainPlacements cfg.idSpec fs).map (·.2)).Nodup) :
    ∃ db, createDb .gff cfg dirs fs = .ok db ∧
      db.features = (plainPlacements cfg.idSpec fs).map (fun p => rowOf p.1 p.2) ∧
      db.metaRows = [cfg.dialect] ∧ db.directives = dirs ∧ db.duplicates = [] ∧
      (∀ y, (db.autoinc.get? y).getD 0 = autoCount cfg.idSpec fs y) := by
  obtain ⟨db0, auto0, hrun, inv⟩ :=
    plain_fold_inv (stepLike_gff cfg) fs hacc hnd fs [] {} [] rfl (plainInv_empty cfg.idSpec)
  have hp : populateGff cfg {} [] fs = .ok (db0, auto0) := by
    rw [C05.populateGff_ne _ _ _ _ hne]; exact hrun
  obtain ⟨hm, hd, ha, hdu⟩ := inv.side
  have hside := C01.updateRelationsGff_side db0
  simp only [C01.side, Prod.mk.injEq] at hside
  obtain ⟨hm', hd', ha', hdu'⟩ := hside
  refine ⟨finalize (updateRelationsGff db0) cfg.dialect dirs auto0, ?_, ?_, ?_, ?_, ?_, ?_⟩
  · simp only [createDb, hp, bind, Except.bind, pure, Except.pure]
  · rw [C02.finalize_features, C02.updateRelationsGff_features, inv.feats]; rfl
  · show (updateRelationsGff db0).metaRows ++ [cfg.dialect] = _
    rw [hm', hm]; rfl
  · show (updateRelationsGff db0).directives ++ dirs = _
    rw [hd', hd]; rfl
  · show (updateRelationsGff db0).duplicates = _
    rw [hdu', hdu]
  · intro y
    rw [C10.finalize_autoinc, ha', ha, get?_setAll_nil auto0 inv.autoNodup y]; exact inv.cnt y

/-- **No collision ⇒ every strategy keeps every line** (arbitrary `id_spec`): the conclusions of
`import_all_once_in_order_any_ids` with the keys `plainKeyAt` (explicit keys as they are, `<base>_<n>` with
`n` counting the lines of that base) -/
theorem no_collision_all_lines (cfg : Cfg) (dirs : List Str) (fs : List Feature) (hne : fs ≠ [])
    (hacc : ∀ f ∈ fs, Accepted cfg.idSpec f)
    (hnd : ((plainPlacements cfg.idSpec fs).map (·.2)).Nodup) (ko sv : Bool) :
    ∃ db s, createDb .gff cfg dirs fs = .ok db ∧ openDb db ko sv = .ok s ∧
      runQuery s {} = (plainPlacements cfg.idSpec fs).map (fun p => rowOf p.1 p.2) ∧
      (plainPlacements cfg.idSpec fs).map (·.1) = fs ∧
      (runQuery s {}).length = fs.length ∧
      (∀ i (hi : i < fs.length),
        (runQuery s {})[i]? = some (rowOf fs[i] (plainKeyAt cfg.idSpec (fs.take i) fs[i]))) ∧
      ((runQuery s {}).map (·.id)).Nodup ∧
      (runQuery s {}).map s.returner =
        (plainPlacements cfg.idSpec fs).map (fun p => returnedAs cfg.dialect ko sv p.1 p.2) ∧
      s.db = db ∧ s.dialect = cfg.dialect ∧ s.directives = dirs ∧ s.keepOrder = ko ∧ s.sortVals = sv ∧
      (∀ y, (s.auto.get? y).getD 0 = autoCount cfg.idSpec fs y) := by
  obtain ⟨db, hdb, hf, hm, hd, _, hau⟩ := createDb_rows_no_collision cfg dirs fs hne hacc hnd
  obtain ⟨s, hopen, hq, htake, _, hret, hsdb, hsd, hsdir, hsau, hko, hsv⟩ :=
    session_of_rows db (plainPlacements cfg.idSpec fs) [] cfg.dialect dirs (by rw [hf]; simp) hm hd ko sv
  rw [List.append_nil] at hq
  have hlen : (runQuery s {}).length = (plainPlacements cfg.idSpec fs).length := by rw [hq, List.length_map]
  rw [← hlen, List.take_length] at hret
  refine ⟨db, s, hdb, hopen, hq, plainPlacements_fst _ _, by rw [hlen, plainPlacements_length], ?_, ?_, hret,
    hsdb, hsd, hsdir, hko, hsv, ?_⟩
  · intro i hi
    rw [hq, List.getElem?_map, plainPlacements_getElem? _ _ i hi]; rfl
  · rw [hq, List.map_map]; exact hnd
  · intro y; rw [hsau]; exact hau y

/-- printed form, every strategy, no collision, arbitrary `id_spec` -/
theorem printed_identical_no_collision (cfg : Cfg) (lines : List Str) (specs : List LineSpec) (checklines : Nat)
    (hne : specs ≠ [])
    (hfl : Iter.featureLines lines = specs.map renderLine)
    (hwf : ∀ s ∈ specs, s.WFprov = true)
    (hvote : Iter.fileDialect lines checklines = .ok cfg.dialect)
    (hdims : ∀ s ∈ specs, HasDims cfg.dialect s)
    (hord : ∀ s ∈ specs, OrderConsistent cfg.dialect.order s)
    (hacc : ∀ s ∈ specs, Accepted cfg.idSpec (provFeature s cfg.dialect false))
    (hnd : ((plainPlacements cfg.idSpec (specs.map (fun s => provFeature s cfg.dialect false))).map (·.2)).Nodup) :
    ∃ db sess,
      Iter.runFile lines checklines none none =
        .ok (cfg.dialect, specs.map (fun s => provFeature s cfg.dialect false), Iter.directives lines) ∧
      createDb .gff cfg (Iter.directives lines) (specs.map (fun s => provFeature s cfg.dialect false)) = .ok db ∧
      openDb db true false = .ok sess ∧ sess.directives = Iter.directives lines ∧
      (runQuery sess {}).length = specs.length ∧
      ((runQuery sess {}).map sess.returner).mapM (fun f => f.print) = .ok (Iter.featureLines lines) := by
  have hiter := C01.iterate_specs lines specs cfg.dialect hfl
    (fun s hs => ⟨(C01.pfacts s (hwf s hs)).1, (C01.pfacts s (hwf s hs)).2, C01.hasDims_eq cfg.dialect s (hdims s hs)⟩)
  obtain ⟨db, sess, hdb, hopen, _, hfst, hlen, _, _, hret, _, _, hdir, _, _, _⟩ :=
    no_collision_all_lines cfg (Iter.directives lines) (specs.map (fun s => provFeature s cfg.dialect false))
      (by simpa using hne)
      (by intro f hf; obtain ⟨s, hs, rfl⟩ := List.mem_map.mp hf; exact hacc s hs) hnd true false
  refine ⟨db, sess, ?_, hdb, hopen, hdir, by simpa using hlen, ?_⟩
  · unfold Iter.runFile
    simp only [hvote, hiter, bind, Except.bind, pure, Except.pure]
  · rw [hret, hfl]
    exact print_rows cfg.dialect specs hwf hdims hord _ specs hfst (fun s hs => hs)

/-! ## 3. the GTF importer

`_GTFDBCreator._populate_from_lines` files every line exactly like the GFF importer (only the relation rows
differ), so `populate_gtf_any_ids` is the GTF form of `populate_gff_any_ids` — for ANY `id_spec`, in
particular the default `{gene: gene_id, transcript: transcript_id}` (`accepted_defaultGtf`,
`kindOf_defaultGtf_*`), with colliding gene / transcript ids.  The inference stage `_update_relations` then
APPENDS derived rows and may rewrite the attributes of a row it merges into; `createDb_gtf_lines_kept`
shows that whatever the two `disable_infer_*` flags, whenever `create_db` returns a database the line rows
are its first `#lines` rows, unchanged and in input order, followed by rows whose source is
`gffutils_derived` — provided no input line itself claims that source (else a derived feature may be MERGED
into the line: `merge` is hard-wired for derived features) and `source` is not a `force_merge_fields`
column.  With both flags set nothing is inferred and the import succeeds (`createDb_gtf_no_inference`).
NOT proved here: a file-level condition under which the inference stage SUCCEEDS for colliding ids (its
`TypeError`s when a transcript / gene has no sub-feature with coordinates are C03's subject, proved there
for pairwise distinct ids only); the evaluated example `gtf_collide_eval` shows a run with inference on. -/

open GffProofs.C03 (derivedSrc)

theorem populateGtf_ne (cfg : Cfg) (db : Db) (auto : Dict Nat) (fs : List Feature) (hne : fs ≠ []) :
    populateGtf cfg db auto fs = fs.foldlM (gtfStep cfg) (db, auto) := by
  unfold populateGtf
  cases fs with
  | nil => exact absurd rfl hne
  | cons f fs => rfl

theorem keysFor_defaultGtf (f : Feature) :
    keysFor defaultGtfSpec f =
      if "gene".toList = f.ftype then some [.attr "gene_id".toList]
      else if "transcript".toList = f.ftype then some [.attr "transcript_id".toList] else none := rfl

/-- the verdict of the default GTF `id_spec`: a `gene` line is keyed by its `gene_id`, a `transcript` line by
its `transcript_id` (several values: rejected; none: numbered), every other line is numbered per featuretype -/
theorem kindOf_defaultGtf_other (f : Feature) (h1 : f.ftype ≠ "gene".toList) (h2 : f.ftype ≠ "transcript".toList) :
    kindOf defaultGtfSpec f = .auto f.ftype := by
  unfold kindOf
  rw [keysFor_defaultGtf, if_neg (fun e => h1 e.symm), if_neg (fun e => h2 e.symm)]

theorem kindOf_defaultGtf_gene (f : Feature) (h : f.ftype = "gene".toList) (v : Str)
    (hv : f.attrs.get? "gene_id".toList = some [v]) : kindOf defaultGtfSpec f = .fixed v := by
  unfold kindOf
  rw [keysFor_defaultGtf, if_pos h.symm]
  exact kindOfKeys_attr_single f _ _ v (by decide) hv

theorem kindOf_defaultGtf_transcript (f : Feature) (h : f.ftype = "transcript".toList) (v : Str)
    (hv : f.attrs.get? "transcript_id".toList = some [v]) : kindOf defaultGtfSpec f = .fixed v := by
  unfold kindOf
  rw [keysFor_defaultGtf, if_neg (by rw [h]; decide), if_pos h.symm]
  exact kindOfKeys_attr_single f _ _ v (by decide) hv

/-- (a) for the default GTF `id_spec`: no `gene` line with several `gene_id`s, no `transcript` line with
several `transcript_id`s -/
theorem accepted_defaultGtf (f : Feature)
    (hg : f.ftype = "gene".toList → ((f.attrs.get? "gene_id".toList).getD []).length ≤ 1)
    (ht : f.ftype = "transcript".toList → ((f.attrs.get? "transcript_id".toList).getD []).length ≤ 1) :
    Accepted defaultGtfSpec f := by
  apply accepted_of_single_valued
  intro ks hks ke hke
  rw [keysFor_defaultGtf] at hks
  split at hks
  · rename_i h
    cases hks
    simp only [List.mem_singleton] at hke; subst hke
    exact ⟨by decide, hg h.symm⟩
  · split at hks
    · rename_i h
      cases hks
      simp only [List.mem_singleton] at hke; subst hke
      exact ⟨by decide, ht h.symm⟩
    · cases hks

/-- **`_populate_from_lines` (GTF), `create_unique`, any `id_spec`, colliding ids allowed**: succeeds; one
row per line, in order, under `keyAt`; keys distinct; counters `counterAfter`; no other table but
`relations` is touched -/
theorem populate_gtf_any_ids (cfg : Cfg) (hst : cfg.strategy = .createUnique) (fs : List Feature) (hne : fs ≠ [])
    (hacc : ∀ f ∈ fs, Accepted cfg.idSpec f) (hnc : NoClash cfg.idSpec fs) :
    ∃ db auto, populateGtf cfg {} [] fs = .ok (db, auto) ∧
      db.features = (placements cfg.idSpec fs).map (fun p => rowOf p.1 p.2) ∧
      (db.features.map (·.id)).Nodup ∧
      (∀ y, (auto.get? y).getD 0 = counterAfter cfg.idSpec fs y) ∧ (Dict.keys auto).Nodup ∧
      db.metaRows = [] ∧ db.directives = [] ∧ db.autoinc = [] ∧ db.duplicates = [] := by
  obtain ⟨db, auto, hrun, inv⟩ :=
    fold_inv (stepLike_gtf cfg) hst fs hacc hnc fs [] {} [] rfl (inv_empty cfg.idSpec fs)
  have hp : populateGtf cfg {} [] fs = .ok (db, auto) := by
    rw [populateGtf_ne _ _ _ _ hne]; exact hrun
  exact ⟨db, auto, hp, inv.feats, C04.populateGtf_nodup cfg {} db [] auto fs idsNodup_empty hp, inv.cnt,
    inv.autoNodup, inv.side⟩

/-- no input line claims to be a derived feature -/
def NoDerivedSource (fs : List Feature) : Prop := ∀ f ∈ fs, f.source ≠ derivedSrc

instance (fs : List Feature) : Decidable (NoDerivedSource fs) := by unfold NoDerivedSource; infer_instance

/-- **GTF importer, whatever the inference flags: every line is kept.**  If `create_db` returns a database,
its feature table is the line rows — one per input line, in input order, content unchanged, under `keyAt` —
followed by rows `D` all of which have source `gffutils_derived`; all ids pairwise distinct; one meta row;
the directives. -/
theorem createDb_gtf_lines_kept (cfg : Cfg) (hst : cfg.strategy = .createUnique) (dirs : List Str)
    (fs : List Feature) (hne : fs ≠ [])
    (hacc : ∀ f ∈ fs, Accepted cfg.idSpec f) (hnc : NoClash cfg.idSpec fs)
    (hsrc : "source".toList ∉ cfg.forceMergeFields) (hnd : NoDerivedSource fs)
    (db : Db) (hdb : createDb .gtf cfg dirs fs = .ok db) :
    ∃ D, db.features = (placements cfg.idSpec fs).map (fun p => rowOf p.1 p.2) ++ D ∧
      (∀ r ∈ D, r.source = derivedSrc) ∧
      (db.features.map (·.id)).Nodup ∧ db.metaRows = [cfg.dialect] ∧ db.directives = dirs := by
  obtain ⟨db0, auto0, hp, hf, hnd0, _, _, hm, hd, _, _⟩ := populate_gtf_any_ids cfg hst fs hne hacc hnc
  simp only [createDb, hp, bind, Except.bind, pure, Except.pure] at hdb
  cases hu : updateRelationsGtf cfg db0 auto0 with
  | error e => rw [hu] at hdb; cases hdb
  | ok r =>
    obtain ⟨db1, auto1⟩ := r
    rw [hu] at hdb
    simp only [Except.ok.injEq] at hdb
    subst hdb
    have hL : ∀ r ∈ (placements cfg.idSpec fs).map (fun p => rowOf p.1 p.2), r.source ≠ derivedSrc := by
      intro r hr
      obtain ⟨p, hp', rfl⟩ := List.mem_map.mp hr
      have : p.1 ∈ fs := by
        rw [← placements_fst cfg.idSpec fs]; exact List.mem_map.mpr ⟨p, hp', rfl⟩
      exact hnd p.1 this
    have hk : Kept ((placements cfg.idSpec fs).map (fun p => rowOf p.1 p.2)) db0 :=
      ⟨⟨[], by rw [hf]; simp, by simp⟩, hnd0⟩
    obtain ⟨⟨D, hD, hDs⟩, hnd1⟩ := updateRelationsGtf_keeps cfg hsrc _ hL db0 db1 auto0 auto1 hk hu
    have hfr := C10.updateRelationsGtf_frame cfg db0 db1 auto0 auto1 hu
    refine ⟨D, hD, hDs, hnd1, ?_, ?_⟩
    · show db1.metaRows ++ [cfg.dialect] = _
      rw [hfr.metaRows, hm]; rfl
    · show db1.directives ++ dirs = _
      rw [hfr.directives, hd]; rfl

/-- with both `disable_infer_*` flags the GTF import succeeds and stores exactly the lines -/
theorem createDb_gtf_no_inference (cfg : Cfg) (hst : cfg.strategy = .createUnique) (dirs : List Str)
    (fs : List Feature) (hne : fs ≠ [])
    (hacc : ∀ f ∈ fs, Accepted cfg.idSpec f) (hnc : NoClash cfg.idSpec fs)
    (hG : cfg.disableGenes = true) (hT : cfg.disableTranscripts = true) :
    ∃ db, createDb .gtf cfg dirs fs = .ok db ∧
      db.features = (placements cfg.idSpec fs).map (fun p => rowOf p.1 p.2) ∧
      (db.features.map (·.id)).Nodup ∧ db.metaRows = [cfg.dialect] ∧ db.directives = dirs := by
  obtain ⟨db0, auto0, hp, hf, hnd0, _, _, hm, hd, _, _⟩ := populate_gtf_any_ids cfg hst fs hne hacc hnc
  have hu : updateRelationsGtf cfg db0 auto0 = .ok (db0, auto0) := by
    rw [C03.updateRelationsGtf_eq, hG, hT]; rfl
  refine ⟨finalize db0 cfg.dialect dirs auto0, ?_, hf, hnd0, ?_, ?_⟩
  · simp only [createDb, hp, hu, bind, Except.bind, pure, Except.pure]
  · show db0.metaRows ++ [cfg.dialect] = _
    rw [hm]; rfl
  · show db0.directives ++ dirs = _
    rw [hd]; rfl

/-- **GTF importer: every input line is stored exactly once, in input order, and comes back with its content;
the derived rows come after** — colliding gene / transcript ids included (`create_unique`).  `hok` is either
"both inference flags are set" or "`create_db` returned" (see the section header). -/
theorem import_all_once_in_order_gtf_any_ids (cfg : Cfg) (hst : cfg.strategy = .createUnique) (dirs : List Str)
    (fs : List Feature) (hne : fs ≠ [])
    (hacc : ∀ f ∈ fs, Accepted cfg.idSpec f) (hnc : NoClash cfg.idSpec fs)
    (hsrc : "source".toList ∉ cfg.forceMergeFields) (hnd : NoDerivedSource fs)
    (hok : (cfg.disableGenes = true ∧ cfg.disableTranscripts = true) ∨ ∃ db, createDb .gtf cfg dirs fs = .ok db)
    (ko sv : Bool) :
    ∃ db s D, createDb .gtf cfg dirs fs = .ok db ∧ openDb db ko sv = .ok s ∧
      runQuery s {} = (placements cfg.idSpec fs).map (fun p => rowOf p.1 p.2) ++ D ∧
      (placements cfg.idSpec fs).map (·.1) = fs ∧
      (runQuery s {}).take fs.length = (placements cfg.idSpec fs).map (fun p => rowOf p.1 p.2) ∧
      (runQuery s {}).drop fs.length = D ∧ (∀ r ∈ D, r.source = derivedSrc) ∧
      (cfg.disableGenes = true → cfg.disableTranscripts = true → D = []) ∧
      ((runQuery s {}).map (·.id)).Nodup ∧
      ((runQuery s {}).take fs.length).map s.returner =
        (placements cfg.idSpec fs).map (fun p => returnedAs cfg.dialect ko sv p.1 p.2) ∧
      s.db = db ∧ s.dialect = cfg.dialect ∧ s.directives = dirs ∧ s.keepOrder = ko ∧ s.sortVals = sv := by
  have hex : ∃ db, createDb .gtf cfg dirs fs = .ok db := by
    rcases hok with ⟨hG, hT⟩ | h
    · obtain ⟨db, h, _⟩ := createDb_gtf_no_inference cfg hst dirs fs hne hacc hnc hG hT
      exact ⟨db, h⟩
    · exact h
  obtain ⟨db, hdb⟩ := hex
  obtain ⟨D, hf, hDs, hnd', hm, hd⟩ := createDb_gtf_lines_kept cfg hst dirs fs hne hacc hnc hsrc hnd db hdb
  obtain ⟨s, hopen, hq, htake, hdrop, hret, hsdb, hsd, hsdir, _, hko, hsv⟩ :=
    session_of_rows db (placements cfg.idSpec fs) D cfg.dialect dirs hf hm hd ko sv
  rw [placements_length] at htake hdrop hret
  refine ⟨db, s, D, hdb, hopen, hq, placements_fst _ _, htake, hdrop, hDs, ?_, ?_, hret, hsdb, hsd, hsdir, hko, hsv⟩
  · intro hG hT
    obtain ⟨db2, h2, hf2, _⟩ := createDb_gtf_no_inference cfg hst dirs fs hne hacc hnc hG hT
    rw [hdb] at h2; cases h2
    have := hf.symm.trans hf2
    simpa using this
  · rw [hq, ← hf]; exact hnd'

/-- **GTF importer: the input lines print back byte for byte, colliding ids included** -/
theorem printed_identical_gtf_any_ids (cfg : Cfg) (hst : cfg.strategy = .createUnique) (lines : List Str)
    (specs : List LineSpec) (checklines : Nat) (hne : specs ≠ [])
    (hfl : Iter.featureLines lines = specs.map renderLine)
    (hwf : ∀ s ∈ specs, s.WFprov = true)
    (hvote : Iter.fileDialect lines checklines = .ok cfg.dialect)
    (hdims : ∀ s ∈ specs, HasDims cfg.dialect s)
    (hord : ∀ s ∈ specs, OrderConsistent cfg.dialect.order s)
    (hacc : ∀ s ∈ specs, Accepted cfg.idSpec (provFeature s cfg.dialect false))
    (hnc : NoClash cfg.idSpec (specs.map (fun s => provFeature s cfg.dialect false)))
    (hsrc : "source".toList ∉ cfg.forceMergeFields)
    (hnd : NoDerivedSource (specs.map (fun s => provFeature s cfg.dialect false)))
    (hok : (cfg.disableGenes = true ∧ cfg.disableTranscripts = true) ∨
      ∃ db, createDb .gtf cfg (Iter.directives lines) (specs.map (fun s => provFeature s cfg.dialect false)) = .ok db) :
    ∃ db sess,
      Iter.runFile lines checklines none none =
        .ok (cfg.dialect, specs.map (fun s => provFeature s cfg.dialect false), Iter.directives lines) ∧
      createDb .gtf cfg (Iter.directives lines) (specs.map (fun s => provFeature s cfg.dialect false)) = .ok db ∧
      openDb db true false = .ok sess ∧ sess.directives = Iter.directives lines ∧
      (runQuery sess {}).length ≥ specs.length ∧
      (((runQuery sess {}).take specs.length).map sess.returner).mapM (fun f => f.print) =
        .ok (Iter.featureLines lines) := by
  have hiter := C01.iterate_specs lines specs cfg.dialect hfl
    (fun s hs => ⟨(C01.pfacts s (hwf s hs)).1, (C01.pfacts s (hwf s hs)).2, C01.hasDims_eq cfg.dialect s (hdims s hs)⟩)
  obtain ⟨db, sess, D, hdb, hopen, hq, hfst, _, _, _, _, _, hret, _, _, hdir, _, _⟩ :=
    import_all_once_in_order_gtf_any_ids cfg hst (Iter.directives lines)
      (specs.map (fun s => provFeature s cfg.dialect false)) (by simpa using hne)
      (by intro f hf; obtain ⟨s, hs, rfl⟩ := List.mem_map.mp hf; exact hacc s hs) hnc hsrc hnd hok true false
  rw [List.length_map] at hret
  refine ⟨db, sess, ?_, hdb, hopen, hdir, ?_, ?_⟩
  · unfold Iter.runFile
    simp only [hvote, hiter, bind, Except.bind, pure, Except.pure]
  · rw [hq, List.length_append, List.length_map, placements_length, List.length_map]; omega
  · rw [hret, hfl]
    exact print_rows cfg.dialect specs hwf hdims hord _ specs hfst (fun s hs => hs)

/-! ## Necessity of (b) and non-vacuity -/

section Examples
open GffProofs.C01 (gffSpec gtfSpec dOf)

/-- **(b) is needed by the real importer**: `ID=a_1`, `ID=a`, `ID=a` under `create_unique` — the third line
collides on `a`, is renamed `a_1`, and that key is taken: `IntegrityError` (the model's `.integrity`) -/
def clashFile : List Feature := [C02.mkF "gene" "a_1" 1 9 [], C02.mkF "gene" "a" 1 9 [], C02.mkF "gene" "a" 1 9 []]

theorem clash_integrity_error :
    (match createDb .gff (C02.gffCfg .createUnique Dialect.default) [] clashFile with
      | .error e => some e
      | .ok _ => none) = some PyErr.integrity ∧
    (∀ f ∈ clashFile, Accepted defaultGffSpec f) ∧ ¬ NoClash defaultGffSpec clashFile := by
  refine ⟨by decide +kernel, by decide +kernel, ?_⟩
  intro h
  exact h (C02.mkF "gene" "a_1" 1 9 []) (by simp [clashFile]) "a_1".toList (by decide +kernel) "a".toList
    ⟨C02.mkF "gene" "a" 1 9 [], by simp [clashFile], Or.inl (by decide +kernel)⟩ 1 (by decide +kernel)

/-- a GFF3 file: three lines SHARING the `ID` `x`, and a line WITHOUT `ID` -/
def dupSpecs : List LineSpec :=
  [gffSpec ["chr1", ".", "gene", "1", "1000", ".", "+", "."] [("ID", ["x"]), ("Name", ["G1"])],
   gffSpec ["chr1", ".", "mRNA", "1", "1000", ".", "+", "."] [("ID", ["x"]), ("Parent", ["x"])],
   gffSpec ["chr1", ".", "exon", "1", "100", ".", "+", "."] [("ID", ["x"]), ("Parent", ["x"])],
   gffSpec ["chr1", ".", "exon", "200", "300", ".", "+", "."] [("Name", ["e"]), ("Parent", ["x"])]]

def dupLines : List Str :=
  ["##gff-version 3",
   "chr1\t.\tgene\t1\t1000\t.\t+\t.\tID=x;Name=G1",
   "chr1\t.\tmRNA\t1\t1000\t.\t+\t.\tID=x;Parent=x",
   "# comment",
   "chr1\t.\texon\t1\t100\t.\t+\t.\tID=x;Parent=x",
   "chr1\t.\texon\t200\t300\t.\t+\t.\tName=e;Parent=x"].map String.toList

def dupDialect : Dialect := dOf (gffSpec [] []) ["ID".toList, "Name".toList, "Parent".toList]

def dupCfg (spec : IdSpec) : Cfg := { idSpec := spec, strategy := .createUnique, dialect := dupDialect }

def dupFeats : List Feature := dupSpecs.map (fun s => provFeature s dupDialect false)

theorem dup_fl : Iter.featureLines dupLines = dupSpecs.map renderLine := by decide +kernel

theorem dup_vote : Iter.fileDialect dupLines 10 = .ok dupDialect := by
  rw [C01.window_votes_dialect dupLines dupSpecs 10 (gffSpec [] []) dup_fl (by decide) (by decide +kernel)]
  decide +kernel

/-- the keys the specification assigns: default `id_spec` — `x`, `x_1`, `x_2` for the three sharers, `exon_1`
for the line without `ID` -/
example : (placements defaultGffSpec dupFeats).map (·.2) =
    ["x".toList, "x_1".toList, "x_2".toList, "exon_1".toList] := by decide +kernel

/-- … and with `id_spec=':seqid:'` all four lines ask for `chr1` -/
example : (placements (.keys [.attr ":seqid:".toList]) dupFeats).map (·.2) =
    ["chr1".toList, "chr1_1".toList, "chr1_2".toList, "chr1_3".toList] := by decide +kernel

/-- the executable model computes exactly these keys (independent evaluation of `createDb`) -/
example : (createDb .gff (dupCfg defaultGffSpec) [] dupFeats).toOption.map (fun db => db.features.map (·.id)) =
    some ["x".toList, "x_1".toList, "x_2".toList, "exon_1".toList] := by decide +kernel

example : (createDb .gff (dupCfg (.keys [.attr ":seqid:".toList])) [] dupFeats).toOption.map
      (fun db => db.features.map (·.id)) =
    some ["chr1".toList, "chr1_1".toList, "chr1_2".toList, "chr1_3".toList] := by decide +kernel

theorem dup_acc (spec : IdSpec) (h : ∀ f ∈ dupFeats, Accepted spec f) :
    ∀ s ∈ dupSpecs, Accepted spec (provFeature s dupDialect false) :=
  fun s hs => h _ (List.mem_map.mpr ⟨s, hs, rfl⟩)

/-- 1, end to end, default `id_spec`: all hypotheses hold for the file with the shared `ID`; the four printed
features are the four feature lines -/
example : ∃ db sess,
    Iter.runFile dupLines 10 none none = .ok (dupDialect, dupFeats, ["gff-version 3".toList]) ∧
    createDb .gff (dupCfg defaultGffSpec) ["gff-version 3".toList] dupFeats = .ok db ∧
    openDb db true false = .ok sess ∧ (runQuery sess {}).length = 4 ∧
    ((runQuery sess {}).map sess.returner).mapM (fun f => f.print) =
      .ok ["chr1\t.\tgene\t1\t1000\t.\t+\t.\tID=x;Name=G1".toList,
           "chr1\t.\tmRNA\t1\t1000\t.\t+\t.\tID=x;Parent=x".toList,
           "chr1\t.\texon\t1\t100\t.\t+\t.\tID=x;Parent=x".toList,
           "chr1\t.\texon\t200\t300\t.\t+\t.\tName=e;Parent=x".toList] := by
  obtain ⟨db, sess, h1, h2, h3, _, h5, _, h7⟩ :=
    printed_identical_any_ids_file (dupCfg defaultGffSpec) rfl dupLines dupSpecs 10 (by decide) dup_fl
      (by decide +kernel) dup_vote (by decide +kernel)
      (by intro s hs; rw [C01.orderConsistent_iff]; revert s; decide +kernel)
      (dup_acc _ (by decide +kernel))
      (noClash_of_prefix _ _ (by decide +kernel))
  have hdir : Iter.directives dupLines = ["gff-version 3".toList] := by decide +kernel
  have hfl : Iter.featureLines dupLines = _ := (by decide +kernel :
    Iter.featureLines dupLines =
      ["chr1\t.\tgene\t1\t1000\t.\t+\t.\tID=x;Name=G1".toList,
       "chr1\t.\tmRNA\t1\t1000\t.\t+\t.\tID=x;Parent=x".toList,
       "chr1\t.\texon\t1\t100\t.\t+\t.\tID=x;Parent=x".toList,
       "chr1\t.\texon\t200\t300\t.\t+\t.\tName=e;Parent=x".toList])
  rw [hdir] at h1 h2
  rw [hfl] at h7
  exact ⟨db, sess, h1, h2, h3, h5, h7⟩

/-- 1, `id_spec=':seqid:'`: every line collides with the first; all four are kept and print back -/
example : ∃ db sess,
    createDb .gff (dupCfg (.keys [.attr ":seqid:".toList])) (Iter.directives dupLines) dupFeats = .ok db ∧
    openDb db true false = .ok sess ∧ (runQuery sess {}).length = 4 ∧
    ((runQuery sess {}).map sess.returner).mapM (fun f => f.print) = .ok (Iter.featureLines dupLines) := by
  obtain ⟨db, sess, _, h2, h3, _, h5, _, h7⟩ :=
    printed_identical_any_ids_file (dupCfg (.keys [.attr ":seqid:".toList])) rfl dupLines dupSpecs 10 (by decide)
      dup_fl (by decide +kernel) dup_vote (by decide +kernel)
      (by intro s hs; rw [C01.orderConsistent_iff]; revert s; decide +kernel)
      (dup_acc _ (by decide +kernel))
      (noClash_of_prefix _ _ (by decide +kernel))
  exact ⟨db, sess, h2, h3, h5, h7⟩

/-- 1, a callable `id_spec` (`lambda f: 'autoincrement:' + f.featuretype if f.featuretype == 'exon' else None`,
then `Name`): keys `G1`, `mRNA_1`, `exon_1`, `exon_2` — evaluated on the specification and on the model -/
def callSpec : IdSpec :=
  .keys [.call (fun f => if f.ftype = "exon".toList then some (autoPrefix ++ f.ftype) else none), .attr "Name".toList]

example : (placements callSpec dupFeats).map (·.2) =
      ["G1".toList, "mRNA_1".toList, "exon_1".toList, "exon_2".toList] ∧
    (createDb .gff (dupCfg callSpec) [] dupFeats).toOption.map (fun db => db.features.map (·.id)) =
      some ["G1".toList, "mRNA_1".toList, "exon_1".toList, "exon_2".toList] ∧
    (∀ f ∈ dupFeats, Accepted callSpec f) := by
  refine ⟨by decide +kernel, by decide +kernel, by decide +kernel⟩

/-- 2: a file whose keys are pairwise distinct under the default `id_spec` (one `ID`, two lines without),
imported with `merge_strategy='merge'` -/
def plainSpecs : List LineSpec :=
  [gffSpec ["chr1", ".", "gene", "1", "1000", ".", "+", "."] [("ID", ["x"]), ("Name", ["G1"])],
   gffSpec ["chr1", ".", "exon", "1", "100", ".", "+", "."] [("Name", ["e1"]), ("Parent", ["x"])],
   gffSpec ["chr1", ".", "exon", "200", "300", ".", "+", "."] [("Name", ["e2"]), ("Parent", ["x"])]]

def plainLines : List Str :=
  ["chr1\t.\tgene\t1\t1000\t.\t+\t.\tID=x;Name=G1",
   "chr1\t.\texon\t1\t100\t.\t+\t.\tName=e1;Parent=x",
   "chr1\t.\texon\t200\t300\t.\t+\t.\tName=e2;Parent=x"].map String.toList

example : ∃ db sess,
    createDb .gff { idSpec := defaultGffSpec, strategy := .merge, dialect := dupDialect } [] 
      (plainSpecs.map (fun s => provFeature s dupDialect false)) = .ok db ∧
    openDb db true false = .ok sess ∧
    (runQuery sess {}).map (·.id) = ["x".toList, "exon_1".toList, "exon_2".toList] ∧
    ((runQuery sess {}).map sess.returner).mapM (fun f => f.print) = .ok plainLines := by
  have hfl : Iter.featureLines plainLines = plainSpecs.map renderLine := by decide +kernel
  have hvote : Iter.fileDialect plainLines 10 = .ok dupDialect := by
    rw [C01.window_votes_dialect plainLines plainSpecs 10 (gffSpec [] []) hfl (by decide) (by decide +kernel)]
    decide +kernel
  obtain ⟨db, sess, _, h2, h3, _, _, h6⟩ :=
    printed_identical_no_collision { idSpec := defaultGffSpec, strategy := .merge, dialect := dupDialect }
      plainLines plainSpecs 10 (by decide) hfl (by decide +kernel) hvote (by decide +kernel)
      (by intro s hs; rw [C01.orderConsistent_iff]; revert s; decide +kernel)
      (by decide +kernel) (by decide +kernel)
  have hdir : Iter.directives plainLines = [] := by decide +kernel
  have hfl' : Iter.featureLines plainLines = plainLines := by decide +kernel
  rw [hdir] at h2
  rw [hfl'] at h6
  obtain ⟨db', s', e1, e2, e3, _⟩ :=
    no_collision_all_lines { idSpec := defaultGffSpec, strategy := .merge, dialect := dupDialect } []
      (plainSpecs.map (fun s => provFeature s dupDialect false)) (by decide) (by decide +kernel)
      (by decide +kernel) true false
  rw [h2] at e1; cases e1
  rw [h3] at e2; cases e2
  refine ⟨db, sess, h2, h3, ?_, h6⟩
  rw [e3, List.map_map]
  decide +kernel

/-- 3: a GTF file in which two `gene` lines share `gene_id "g1"` and two `transcript` lines share
`transcript_id "t1"` -/
def gtfDupSpecs : List LineSpec :=
  [gtfSpec ["chr1", "src", "gene", "100", "900", ".", "+", "."] [("gene_id", ["g1"]), ("gene_name", ["A"])],
   gtfSpec ["chr1", "src", "gene", "100", "900", ".", "+", "."] [("gene_id", ["g1"]), ("gene_name", ["B"])],
   gtfSpec ["chr1", "src", "transcript", "100", "900", ".", "+", "."] [("gene_id", ["g1"]), ("transcript_id", ["t1"])],
   gtfSpec ["chr1", "src", "transcript", "100", "900", ".", "+", "."] [("gene_id", ["g1"]), ("transcript_id", ["t1"])],
   gtfSpec ["chr1", "src", "exon", "100", "200", ".", "+", "."] [("gene_id", ["g1"]), ("transcript_id", ["t1"])],
   gtfSpec ["chr1", "src", "exon", "300", "400", ".", "+", "."] [("gene_id", ["g1"]), ("transcript_id", ["t1"])]]

def gtfDupDialect : Dialect :=
  dOf (gtfSpec [] []) ["gene_id".toList, "gene_name".toList, "transcript_id".toList]

def gtfDupCfg (noInfer : Bool) : Cfg :=
  { idSpec := defaultGtfSpec, strategy := .createUnique, dialect := gtfDupDialect,
    disableGenes := noInfer, disableTranscripts := noInfer }

def gtfDupFeats : List Feature := gtfDupSpecs.map (fun s => provFeature s gtfDupDialect false)

/-- keys: `g1`, `g1_1`, `t1`, `t1_1`, `exon_1`, `exon_2` -/
example : (placements defaultGtfSpec gtfDupFeats).map (·.2) =
    ["g1".toList, "g1_1".toList, "t1".toList, "t1_1".toList, "exon_1".toList, "exon_2".toList] := by
  decide +kernel

/-- the model, inference ON: the import succeeds, all six lines are kept under these keys, and the inferred
transcript / gene — colliding with a line of another source — are not stored -/
theorem gtf_collide_eval :
    ∃ db, createDb .gtf (gtfDupCfg false) [] gtfDupFeats = .ok db ∧
      db.features.map (·.id) =
        ["g1".toList, "g1_1".toList, "t1".toList, "t1_1".toList, "exon_1".toList, "exon_2".toList] :=
  C10c.createE_view (fun db => db.features.map (·.id)) (by decide +kernel)

/-- 3, inference ON: hypotheses hold (success by evaluation), so the first six features print the six lines -/
example : ∃ db s D, createDb .gtf (gtfDupCfg false) [] gtfDupFeats = .ok db ∧ openDb db true false = .ok s ∧
    runQuery s {} = (placements defaultGtfSpec gtfDupFeats).map (fun p => rowOf p.1 p.2) ++ D ∧
    (((runQuery s {}).take 6).map s.returner).mapM (fun f => f.print) = .ok (gtfDupSpecs.map renderLine) := by
  obtain ⟨db, s, D, h1, h2, h3, hfst, _, _, _, _, _, hret, _⟩ :=
    import_all_once_in_order_gtf_any_ids (gtfDupCfg false) rfl [] gtfDupFeats (by decide)
      (by decide +kernel) (noClash_of_prefix _ _ (by decide +kernel)) (by decide) (by decide +kernel)
      (Or.inr ⟨_, gtf_collide_eval.choose_spec.1⟩)
      true false
  refine ⟨db, s, D, h1, h2, h3, ?_⟩
  rw [show (6 : Nat) = gtfDupFeats.length from rfl, hret]
  exact print_rows gtfDupDialect gtfDupSpecs (by decide +kernel) (by decide +kernel)
    (by intro s hs; rw [C01.orderConsistent_iff]; revert s; decide +kernel) _ gtfDupSpecs hfst (fun s hs => hs)

/-- 3, inference OFF: unconditional -/
example : ∃ db s, createDb .gtf (gtfDupCfg true) [] gtfDupFeats = .ok db ∧ openDb db true false = .ok s ∧
    runQuery s {} = (placements defaultGtfSpec gtfDupFeats).map (fun p => rowOf p.1 p.2) := by
  obtain ⟨db, s, D, h1, h2, h3, _, _, _, _, hD, _⟩ :=
    import_all_once_in_order_gtf_any_ids (gtfDupCfg true) rfl [] gtfDupFeats (by decide)
      (by decide +kernel) (noClash_of_prefix _ _ (by decide +kernel)) (by decide) (by decide +kernel)
      (Or.inl ⟨rfl, rfl⟩) true false
  rw [hD rfl rfl, List.append_nil] at h3
  exact ⟨db, s, h1, h2, h3⟩

end Examples

end GffProofs.C01c
