/-
  C13 (continued) — `forms_equivalent` with its hypothesis `SameMapping` DISCHARGED for the grammar.

  `GffProofs/Props/C13.lean` proves `forms_equivalent` under the explicit hypothesis `SameMapping` ("each
  line's attribute column parses to the same mapping with the inferring parser and with the voted or
  supplied dialect").  Here the lines are renderings (`renderLine`) of line specifications that are all
  fully well-formed (`LineSpec.WF`) and written with the same dimensions (`SameDims · s0`); then

  * `sameMapping_wf`          — `SameMapping d (renderLine s)` for every `d` carrying the dimensions of `s`
                                (C07's `infer_render` for the inferring path, C01's `provided_render` for the
                                provided path);
  * `infer_parse_render_line` — the feature the inferring `feature_from_line` builds (`inferFeature s`);
  * `chosen_eq`               — the dialect every form ends up with, in closed form (`chosenDialect`:
                                the supplied one, else the dimensions of `s0` with the first-seen key order
                                of the window — C01's `window_votes_dialect`);
  * `forms_equivalent_dims`   — the general form: per-line `WF` + the chosen dialect carries every line's
                                dimensions;
  * `forms_equivalent_wf`     — the requested statement (`WF` + `SameDims` for every line; a supplied dialect
                                must carry those dimensions);
  * `forms_equivalent_wf_plain` — without transform: both yield `specs.map (provFeature · chosen false)`.

  `SameMapping` needs per-line `WF`, not only `WFprov`: its premise is about the *inferring* parser on the
  line itself (that is how the elements of the feature forms were made), so every line — also those beyond
  the inspection window — must exhibit its dialect.  `wfprov_not_enough` is a concrete two-line file whose
  second line is `WFprov` but not `WF`, on which the text form and the list form differ.
  `supplied_dims_needed` shows that a supplied dialect with other dimensions separates the forms as well.
-/
import GffProofs.Props.C13
import GffProofs.Props.C01

namespace GffProofs.C13
open GffModel GffModel.Iter GffModel.Parser GffModel.Grammar GffProofs.IterAux
open GffProofs.C01 (HasDims SameDims dOf provFeature)

/-! ### specification -/

/-- the Feature `feature_from_line(line)` — no dialect given, so inferred from the line itself — builds
from a rendered specification: the line's columns, mapping and extra columns, and the dialect the line
exhibits (this is how the elements of a feature list / generator / FeatureDB stream were made) -/
def inferFeature (s : LineSpec) : Feature := provFeature s s.dialect false

/-- the key lists of the inspection window (the first `checklines+1` feature lines) -/
def windowKeys (specs : List LineSpec) (checklines : Nat) : List (List Str) :=
  (specs.take (checklines + 1)).map (fun s => s.attrs.map (·.key))

/-- the dialect every iterator over the annotation ends up with: the supplied one; otherwise (no feature
line at all) gffutils' default dialect; otherwise the dimensions the file is written in together with the
first-seen, duplicate-free key order of the inspection window -/
def chosenDialect (specs : List LineSpec) (s0 : LineSpec) (cfg : Config) : Dialect :=
  match cfg.supplied with
  | some d => d
  | none => if specs.isEmpty then Dialect.default
            else dOf s0 (Helpers.firstSeenOrder (windowKeys specs cfg.checklines))

/-! ### one line -/

/-- the attribute column `feature_from_line(strict=True)` cuts out of a rendered line is the rendered
attribute text -/
theorem attrField_render (s : LineSpec) (h : s.WF = true) : attrField (renderLine s) = renderAttrs s := by
  unfold attrField
  rw [C07.strict_fields s h]
  have hlen := (C07.colFacts s h).len
  rw [List.append_assoc, List.getElem?_append_right (by omega), hlen]
  rfl

/-- **`SameMapping` holds on the grammar.**  For a fully well-formed line and ANY dialect carrying the
dimensions the line is written in (whatever its key order), the inferring parser and the provided-dialect
parser return the same mapping (`s.mapping`). -/
theorem sameMapping_wf (s : LineSpec) (h : s.WF = true) (d : Dialect) (hd : HasDims d s) :
    SameMapping d (renderLine s) := by
  intro a dl h0
  rw [attrField_render s h] at h0 ⊢
  rw [C07.infer_render s h] at h0
  simp only [Except.ok.injEq, Prod.mk.injEq] at h0
  exact ⟨d, by rw [← h0.1]; exact C01.provided_render s (C01.wfprov_of_wf s h) d hd⟩

/-- **`feature_from_line(line)` with dialect inference on a rendered line** is `inferFeature s` -/
theorem infer_parse_render_line (s : LineSpec) (h : s.WF = true) :
    featureFromLine (renderLine s) none true false = .ok (inferFeature s) := by
  have C := C07.colFacts s h
  have hlen := C.len
  have hc3 := C.c3
  have hc4 := C.c4
  rw [C07.featureFromLine_strict, C07.strict_fields s h]
  have hi := C07.infer_render s h
  unfold inferFeature provFeature
  generalize s.dialect = D at hi ⊢
  generalize renderAttrs s = ra at hi ⊢
  generalize s.mapping = mp at hi ⊢
  obtain ⟨cols, sep, trailing, style, quoted, repeated, attrs, extra⟩ := s
  simp only at hlen hc3 hc4 ⊢
  match cols, hlen with
  | [c0, c1, c2, c3, c4, c5, c6, c7], _ =>
    simp only [List.getElem?_cons_succ, List.getElem?_cons_zero, Option.getD_some] at hc3 hc4 ⊢
    obtain ⟨hp3, _⟩ := C01.coordOf_ok c3 hc3
    obtain ⟨hp4, _⟩ := C01.coordOf_ok c4 hc4
    simp only [C07.fromFields, List.cons_append, List.nil_append, List.getElem?_cons_succ,
      List.getElem?_cons_zero, Option.getD_some, hi, bind, Except.bind]
    simp [Feature.mk', hp3, hp4, bind, Except.bind, pure, Except.pure]

/-- setting the iterator's dialect on the inferred feature gives the provided-dialect feature -/
theorem withDialect_inferFeature (d : Dialect) (s : LineSpec) :
    withDialect d (inferFeature s) = provFeature s d false := rfl

/-! ### the whole annotation -/

/-- the features the inferring parser makes of the feature lines -/
theorem parsed_specs (lines : List Str) (specs : List LineSpec)
    (hfl : featureLines lines = specs.map renderLine) (hwf : ∀ s ∈ specs, s.WF = true) :
    (featureLines lines).mapM (fun l => featureFromLine l none true false) = .ok (specs.map inferFeature) := by
  rw [hfl]
  exact C08bAux.mapM_map_ok _ renderLine inferFeature specs (fun s hs => infer_parse_render_line s (hwf s hs))

theorem hasDims_trans (d : Dialect) (s s0 : LineSpec) (hd : HasDims d s0) (h : SameDims s s0) : HasDims d s := by
  rw [C01.hasDims_eq d s0 hd]
  exact C01.hasDims_of_sameDims s s0 h _

/-- **the dialect every form chooses, in closed form** -/
theorem chosen_eq (lines : List Str) (specs : List LineSpec) (s0 : LineSpec) (cfg : Config)
    (hfl : featureLines lines = specs.map renderLine)
    (hall : ∀ s ∈ specs, s.WF = true ∧ SameDims s s0) :
    featChosen (specs.map inferFeature) cfg = chosenDialect specs s0 cfg := by
  have hsrc := parsed_specs lines specs hfl (fun s hs => (hall s hs).1)
  have hfc := fileChosen_eq lines cfg _ hsrc
  unfold chosenDialect
  cases hsup : cfg.supplied with
  | some d => unfold featChosen; rw [hsup]
  | none =>
    simp only
    by_cases hne : specs = []
    · subst hne
      unfold featChosen; rw [hsup]
      rfl
    · have he : specs.isEmpty = false := by cases specs with
        | nil => exact absurd rfl hne
        | cons a l => rfl
      rw [he]
      simp only [Bool.false_eq_true, if_false]
      unfold fileChosen at hfc
      rw [hsup] at hfc
      simp only at hfc
      rw [C01.window_votes_dialect lines specs cfg.checklines s0 hfl hne
        (fun s hs => hall s (List.mem_of_mem_take hs))] at hfc
      simp only [Except.ok.injEq] at hfc
      rw [← hfc]; rfl

/-- the chosen dialect carries the dimensions of every line -/
theorem chosen_hasDims (specs : List LineSpec) (s0 : LineSpec) (cfg : Config)
    (hdims : ∀ s ∈ specs, SameDims s s0) (hsup : ∀ d, cfg.supplied = some d → HasDims d s0) :
    ∀ s ∈ specs, HasDims (chosenDialect specs s0 cfg) s := by
  intro s hs
  unfold chosenDialect
  cases h : cfg.supplied with
  | some d => exact hasDims_trans d s s0 (hsup d h) (hdims s hs)
  | none =>
    have he : specs.isEmpty = false := by cases specs with
      | nil => cases hs
      | cons a l => rfl
    simp only [he, Bool.false_eq_true, if_false]
    exact C01.hasDims_of_sameDims s s0 (hdims s hs) _

/-- **forms_equivalent, general form.**  The feature lines are renderings of fully well-formed line
specifications (each may exhibit its own dialect), and the dialect the iterators choose carries the
dimensions of every line.  Then every text form and every feature form give the same
`(dialect, features)`. -/
theorem forms_equivalent_dims (lines : List Str) (specs : List LineSpec) (cfg : Config)
    (hfl : featureLines lines = specs.map renderLine)
    (hwf : ∀ s ∈ specs, s.WF = true)
    (hdims : ∀ s ∈ specs, HasDims (featChosen (specs.map inferFeature) cfg) s)
    (textForm featForm : Input) (ht : IsTextOf lines textForm) (hf : IsFeatOf (specs.map inferFeature) featForm) :
    textForm.run cfg = featForm.run cfg ∧
    featForm.run cfg = .ok (featChosen (specs.map inferFeature) cfg,
      specIterate (featChosen (specs.map inferFeature) cfg) cfg.transform (specs.map inferFeature)) := by
  apply forms_equivalent lines cfg (specs.map inferFeature) (parsed_specs lines specs hfl hwf) ?_ textForm featForm ht hf
  intro l hl
  rw [hfl] at hl
  obtain ⟨s, hs, rfl⟩ := List.mem_map.mp hl
  exact sameMapping_wf s (hwf s hs) _ (hdims s hs)

/-- **forms_equivalent_wf**: `lines` is any text (directives, comments, blank lines, a FASTA section
allowed) whose feature lines are the renderings of `specs`; every specification is fully well-formed
(`LineSpec.WF`) and all are written with the dimensions of `s0` (`SameDims`); a supplied dialect, if any,
carries those dimensions (its key order is arbitrary).  Then for EVERY configuration — any `checklines`
(0, inside, beyond the input), dialect supplied or not, any transform — EVERY text form of `lines` (path,
gzip path, string, a DataIterator over one of them) and EVERY feature form of the features parsed from
those lines (`specs.map inferFeature`: list, one-shot generator, FeatureDB stream, a DataIterator over one
of them) yield the identical result
`(chosenDialect specs s0 cfg, specIterate (chosenDialect …) cfg.transform (specs.map inferFeature))`:
the same dialect, and the same features in the same order with that dialect set (transform results,
falsy ones dropped, when a transform is given).  No `SameMapping` hypothesis is left. -/
theorem forms_equivalent_wf (lines : List Str) (specs : List LineSpec) (s0 : LineSpec) (cfg : Config)
    (hfl : featureLines lines = specs.map renderLine)
    (hall : ∀ s ∈ specs, s.WF = true ∧ SameDims s s0)
    (hsup : ∀ d, cfg.supplied = some d → HasDims d s0)
    (textForm featForm : Input) (ht : IsTextOf lines textForm) (hf : IsFeatOf (specs.map inferFeature) featForm) :
    (featureLines lines).mapM (fun l => featureFromLine l none true false) = .ok (specs.map inferFeature) ∧
    textForm.run cfg = featForm.run cfg ∧
    featForm.run cfg = .ok (chosenDialect specs s0 cfg,
      specIterate (chosenDialect specs s0 cfg) cfg.transform (specs.map inferFeature)) := by
  have hch := chosen_eq lines specs s0 cfg hfl hall
  have := forms_equivalent_dims lines specs cfg hfl (fun s hs => (hall s hs).1)
    (by rw [hch]; exact chosen_hasDims specs s0 cfg (fun s hs => (hall s hs).2) hsup)
    textForm featForm ht hf
  rw [hch] at this
  exact ⟨parsed_specs lines specs hfl (fun s hs => (hall s hs).1), this⟩

/-- without a transform, explicitly: all forms yield the chosen dialect and, line by line, the feature
`feature_from_line(line, dialect=chosen)` builds (`C01.provFeature`: the line's eight columns, mapping,
extra columns; dialect = the chosen one) -/
theorem forms_equivalent_wf_plain (lines : List Str) (specs : List LineSpec) (s0 : LineSpec) (cfg : Config)
    (hfl : featureLines lines = specs.map renderLine)
    (hall : ∀ s ∈ specs, s.WF = true ∧ SameDims s s0)
    (hsup : ∀ d, cfg.supplied = some d → HasDims d s0) (htr : cfg.transform = none)
    (form : Input) (hform : IsTextOf lines form ∨ IsFeatOf (specs.map inferFeature) form) :
    form.run cfg = .ok (chosenDialect specs s0 cfg,
      specs.map (fun s => provFeature s (chosenDialect specs s0 cfg) false)) := by
  have key : ∀ tf ff, IsTextOf lines tf → IsFeatOf (specs.map inferFeature) ff →
      tf.run cfg = .ok (chosenDialect specs s0 cfg,
        specs.map (fun s => provFeature s (chosenDialect specs s0 cfg) false)) ∧
      ff.run cfg = .ok (chosenDialect specs s0 cfg,
        specs.map (fun s => provFeature s (chosenDialect specs s0 cfg) false)) := by
    intro tf ff ht hf
    obtain ⟨_, h1, h2⟩ := forms_equivalent_wf lines specs s0 cfg hfl hall hsup tf ff ht hf
    have h3 : specIterate (chosenDialect specs s0 cfg) cfg.transform (specs.map inferFeature) =
        specs.map (fun s => provFeature s (chosenDialect specs s0 cfg) false) := by
      rw [htr]
      simp only [specIterate, List.map_map]
      rfl
    rw [h3] at h2
    exact ⟨h1.trans h2, h2⟩
  rcases hform with h | h
  · exact (key form (.list _) h .list).1
  · exact (key (.path lines) form .path h).2

/-! ### Non-vacuity and necessity of the hypotheses -/

section Examples
open GffProofs.C01 (gffSpec gtfSpec)

/-- a GFF3 text: directive, comment, three feature lines (percent-escape, flag, multi-value, extra
columns), FASTA section -/
def wfSpecs : List LineSpec :=
  [gffSpec ["chr1", ".", "gene", "1", "1000", ".", "+", "."] [("ID", ["g1"]), ("Name", ["G;1"])],
   gffSpec ["chr1", ".", "mRNA", "1", "1000", ".", "+", "."] [("ID", ["m1"]), ("Parent", ["g1"]), ("flag", [])]
     ["extra1", ""],
   gffSpec ["chr1", ".", "exon", ".", ".", ".", "+", "."] [("ID", ["e1"]), ("Parent", ["m1", "m2"])]]

theorem wf_fl : featureLines C01.gffLines = wfSpecs.map renderLine := C01.gff_fl

theorem wf_all : ∀ s ∈ wfSpecs, s.WF = true ∧ SameDims s (gffSpec [] []) := by decide +kernel

/-- all hypotheses of `forms_equivalent_wf` hold for the file, `checklines = 1` (window inside the file),
no dialect supplied: path and one-shot generator agree -/
example : (Input.path C01.gffLines).run { checklines := 1 } =
    (Input.generator (wfSpecs.map inferFeature)).run { checklines := 1 } :=
  (forms_equivalent_wf C01.gffLines wfSpecs (gffSpec [] []) { checklines := 1 } wf_fl wf_all
    (fun d h => by cases h) _ _ .path .generator).2.1

/-- … and a gzip path inside a DataIterator agrees with a FeatureDB, `checklines = 0`, dialect supplied
(with a foreign key order), explicit result -/
example :
    let d := dOf (gffSpec [] []) ["Parent".toList, "ID".toList]
    (Input.dataIterator (.gzPath C01.gffLines)).run { checklines := 0, supplied := some d } =
        .ok (d, wfSpecs.map (fun s => provFeature s d false)) ∧
    (Input.featureDB (wfSpecs.map inferFeature)).run { checklines := 0, supplied := some d } =
        .ok (d, wfSpecs.map (fun s => provFeature s d false)) := by
  intro d
  have hs : ∀ d', (some d = some d') → HasDims d' (gffSpec [] []) := by
    intro d' h; cases h; exact C01.hasDims_dOf _ _
  exact ⟨forms_equivalent_wf_plain C01.gffLines wfSpecs (gffSpec [] []) { checklines := 0, supplied := some d }
      wf_fl wf_all hs rfl _ (Or.inl (.dataIterator .gzPath)),
    forms_equivalent_wf_plain C01.gffLines wfSpecs (gffSpec [] []) { checklines := 0, supplied := some d }
      wf_fl wf_all hs rfl _ (Or.inr .featureDB)⟩

/-- the voted dialect of the example, `checklines = 1`: GFF3 dimensions, keys of the first two lines -/
example : chosenDialect wfSpecs (gffSpec [] []) { checklines := 1 } =
    dOf (gffSpec [] []) ["ID".toList, "Name".toList, "Parent".toList, "flag".toList] := by decide +kernel

/-- a GTF text (`; `, trailing semicolon, quoted `key "value"`), every line with two or more attributes -/
def wfGtf : List LineSpec :=
  [gtfSpec ["chr1", "src", "gene", "100", "200", ".", "+", "."] [("gene_id", ["g1"]), ("gene_name", ["G 1"])],
   gtfSpec ["chr1", "src", "exon", "100", "150", ".", "+", "0"]
     [("gene_id", ["g1"]), ("transcript_id", ["t 1"]), ("tag", [])]]

example : ∀ s ∈ wfGtf, s.WF = true ∧ SameDims s (gtfSpec [] []) := by decide +kernel

/-- **per-line `WF` is needed, `WFprov` is not enough.**  Second line `ID=b;note="x"` (beyond the window
for `checklines = 0`) is `WFprov` but not `WF` (its value text looks quoted); the text form reads it with
the voted unquoted dialect (`note` = `"x"` with the quotes), the inferring parser that made the feature
list strips them: the two forms differ. -/
def pvSpecs : List LineSpec :=
  [gffSpec ["c", ".", "gene", "1", "9", ".", "+", "."] [("ID", ["a"]), ("Name", ["n"])],
   gffSpec ["c", ".", "gene", "1", "9", ".", "+", "."] [("ID", ["b"]), ("note", ["\"x\""])]]

theorem wfprov_not_enough :
    pvSpecs.map (fun s => (s.WFprov, s.WF, decide (SameDims s (gffSpec [] [])))) =
      [(true, true, true), (true, false, true)] ∧
    ∃ src, (pvSpecs.map renderLine).mapM (fun l => featureFromLine l none true false) = .ok src ∧
      ((Input.string (pvSpecs.map renderLine)).run { checklines := 0 }).toOption.map (fun r => r.2.map (·.attrs)) ≠
      ((Input.list src).run { checklines := 0 }).toOption.map (fun r => r.2.map (·.attrs)) := by
  refine ⟨by decide +kernel, ?_⟩
  cases h : (pvSpecs.map renderLine).mapM (fun l => featureFromLine l none true false) with
  | error e =>
    have hs : ((pvSpecs.map renderLine).mapM (fun l => featureFromLine l none true false)).toOption.isSome = true := by
      decide +kernel
    rw [h] at hs; cases hs
  | ok src =>
    refine ⟨src, rfl, ?_⟩
    have : src = ((pvSpecs.map renderLine).mapM (fun l => featureFromLine l none true false)).toOption.getD [] := by
      rw [h]; rfl
    subst this
    decide +kernel

/-- **a supplied dialect must carry the dimensions.**  The one-line GFF3 file of a fully well-formed line,
read with a supplied GTF dialect: the text form re-parses the line with it, the feature form keeps the
mapping it was given. -/
theorem supplied_dims_needed :
    let specs := [gffSpec ["c", ".", "gene", "1", "9", ".", "+", "."] [("ID", ["a"]), ("Name", ["n"])]]
    let d := dOf (gtfSpec [] []) []
    (∀ s ∈ specs, s.WF = true ∧ SameDims s (gffSpec [] [])) ∧
    ((Input.string (specs.map renderLine)).run { checklines := 0, supplied := some d }).toOption.map
        (fun r => r.2.map (·.attrs)) ≠
    ((Input.list (specs.map inferFeature)).run { checklines := 0, supplied := some d }).toOption.map
        (fun r => r.2.map (·.attrs)) := by
  intro specs d
  exact ⟨by decide +kernel, by decide +kernel⟩

end Examples

end GffProofs.C13
