/-
  C01c — SPECIFICATION definitions (no proofs) for import fidelity under an ARBITRARY `id_spec`.

  Written from the property texts of C04 ("the value of the first listed attribute that is present, the
  named column for ':seqid:'-style specs, the callable's return value ('autoincrement:X' giving X_1, X_2,
  ...), the per-featuretype entry of a dict, and otherwise '<featuretype>_<n>'") and C05 ("'create_unique'
  keeps all, later ones under '<key>_1', '<key>_2', ..."), not from the control flow of the importer:

  * `KeyKind`, `kindOf`     — what `id_spec` says about ONE feature, independent of any counter;
  * `counterAfter`, `keyAt` — the key of a line as a closed-form function of the lines before it;
  * `placements`            — every line paired with its key (merge strategy `create_unique`);
  * `plainKeyAt`, `plainPlacements` — the keys when no strategy ever has to act (collision-free case);
  * `Accepted`, `NoClash`   — the two domain conditions.
-/
import GffModel.Interface
import GffProofs.Props.C04

namespace GffProofs.C01c
open GffModel GffModel.Create GffModel.Interface
open GffProofs.C04 (autoId)

/-! ### what `id_spec` says about one feature -/

/-- the verdict of `id_spec` on one feature: an explicit key, the next number of an auto-increment base
(`<base>_<n>`), or a rejection -/
inductive KeyKind
  | fixed (k : Str)
  | auto (base : Str)
  | rejected (e : PyErr)
  deriving DecidableEq, Repr

/-- a list of id keys, tried in order on feature `f`:
* a `:field:` entry answers with that column (an unknown column name / a missing coordinate is an error);
* an attribute name answers with its value when the attribute is present and non-empty — SEVERAL values
  are rejected (`ValueError`), never truncated;
* a callable answers with its return value unless that is `None` / `''`; `'autoincrement:X'` asks for the
  next `X_<n>`;
* when nothing answers: the next `<featuretype>_<n>`. -/
def kindOfKeys (f : Feature) : List KeySpec → KeyKind
  | [] => .auto f.ftype
  | .call g :: rest =>
    match g f with
    | none => kindOfKeys f rest
    | some id =>
      if id = [] then kindOfKeys f rest
      else if autoPrefix <+: id then .auto (id.drop autoPrefix.length)
      else .fixed id
  | .attr k :: rest =>
    if isFieldSpec k then
      match fieldOf f ((k.drop 1).dropLast) with
      | .ok v => .fixed v
      | .error e => .rejected e
    else
      match f.attrs.get? k with
      | none => kindOfKeys f rest
      | some [] => kindOfKeys f rest
      | some [v] => .fixed v
      | some (_ :: _ :: _) => .rejected .value

/-- the id keys that apply to `f`: the list itself, or the dict entry of `f`'s featuretype -/
def keysFor (spec : IdSpec) (f : Feature) : Option (List KeySpec) :=
  match spec with
  | .keys ks => some ks
  | .perType m => m.get? f.ftype

/-- the verdict of `id_spec` on `f`; a featuretype without dict entry gets `<featuretype>_<n>` -/
def kindOf (spec : IdSpec) (f : Feature) : KeyKind :=
  match keysFor spec f with
  | some ks => kindOfKeys f ks
  | none => .auto f.ftype

/-- **domain condition (a)**: `id_spec` does not reject the feature (decidable: `kindOf` computes) -/
def Accepted (spec : IdSpec) (f : Feature) : Prop := ∀ e, kindOf spec f ≠ .rejected e

instance (spec : IdSpec) (f : Feature) : Decidable (Accepted spec f) :=
  match h : kindOf spec f with
  | .fixed k => isTrue (by intro e; rw [h]; exact KeyKind.noConfusion)
  | .auto x => isTrue (by intro e; rw [h]; exact KeyKind.noConfusion)
  | .rejected e => isFalse (fun hn => hn e h)

/-! ### the keys of a whole file, merge strategy `create_unique` -/

/-- how many of the lines `pre` carry the explicit key `k` -/
def fixedCount (spec : IdSpec) (pre : List Feature) (k : Str) : Nat :=
  (pre.filter (fun g => kindOf spec g = .fixed k)).length

/-- how many of the lines `pre` asked for the next number of base `x` -/
def autoCount (spec : IdSpec) (pre : List Feature) (x : Str) : Nat :=
  (pre.filter (fun g => kindOf spec g = .auto x)).length

/-- **the counter of `y` after the lines `pre`**: one tick per line that asked for the next `y_<n>`, and one
tick per line carrying the explicit key `y` beyond the first such line (those were renamed `y_<n>`).  Both
draw from the SAME counter. -/
def counterAfter (spec : IdSpec) (pre : List Feature) (y : Str) : Nat :=
  autoCount spec pre y + (fixedCount spec pre y - 1)

/-- **the key of line `f` when the lines `pre` precede it** (`create_unique`): an explicit key `k` is used as
is by the FIRST line carrying it, later carriers get `k_<n>`; an auto-increment line gets `<base>_<n>`; in
both cases `n` is the counter of that name plus one. -/
def keyAt (spec : IdSpec) (pre : List Feature) (f : Feature) : Str :=
  match kindOf spec f with
  | .fixed k => if fixedCount spec pre k = 0 then k else autoId k (counterAfter spec pre k + 1)
  | .auto x => autoId x (counterAfter spec pre x + 1)
  | .rejected _ => []

/-- every line with its key; `pre` = the lines before `rest` -/
def placementsFrom (spec : IdSpec) : List Feature → List Feature → List (Feature × Str)
  | _, [] => []
  | pre, f :: rest => (f, keyAt spec pre f) :: placementsFrom spec (pre ++ [f]) rest

/-- **every line of the file paired with the key it is stored under** -/
def placements (spec : IdSpec) (fs : List Feature) : List (Feature × Str) := placementsFrom spec [] fs

/-- `y` names a counter of this file: it is the explicit key or the auto-increment base of some line -/
def IsBase (spec : IdSpec) (fs : List Feature) (y : Str) : Prop :=
  ∃ g ∈ fs, kindOf spec g = .fixed y ∨ kindOf spec g = .auto y

/-- **domain condition (b)**: no explicit key of the file has the shape `<name>_<n>` for a name that is
itself an explicit key or an auto-increment base of the file — so a generated key is never one that a line
asks for by name.  (`noClash_of_no_underscore`, `noClash_of_prefix`: decidable sufficient conditions;
`clash_integrity_error`: without it `create_unique` can raise `IntegrityError`.) -/
def NoClash (spec : IdSpec) (fs : List Feature) : Prop :=
  ∀ g ∈ fs, ∀ k, kindOf spec g = .fixed k → ∀ y, IsBase spec fs y → ∀ n, k ≠ autoId y n

/-! ### the keys when no two lines ask for the same key (every strategy) -/

/-- the key `id_spec` alone gives line `f` after the lines `pre`: explicit keys as they are, auto-increment
lines `<base>_<n>` with `n` counting the lines of that base so far (C04's numbering) -/
def plainKeyAt (spec : IdSpec) (pre : List Feature) (f : Feature) : Str :=
  match kindOf spec f with
  | .fixed k => k
  | .auto x => autoId x (autoCount spec pre x + 1)
  | .rejected _ => []

def plainPlacementsFrom (spec : IdSpec) : List Feature → List Feature → List (Feature × Str)
  | _, [] => []
  | pre, f :: rest => (f, plainKeyAt spec pre f) :: plainPlacementsFrom spec (pre ++ [f]) rest

/-- every line paired with the key `id_spec` alone gives it -/
def plainPlacements (spec : IdSpec) (fs : List Feature) : List (Feature × Str) := plainPlacementsFrom spec [] fs

end GffProofs.C01c
