/-
  C07 / C09 — the inferring parser on text written in one consistent dialect.

  The proofs are assembled from the stage lemmas in `GffProofs/Lemmas/C07*.lean`:
  * `C07Rec*`   — `_reconstruct` (dict with distinct keys, the `sort_key` order, per-item text);
  * `C07WF`     — the conjuncts of `LineSpec.WF` in usable form;
  * `C07Str`, `C07Chars`, `C07Parts*` — string / character facts about the rendered parts;
  * `C07Stages` — `splitInfer` cut into stages (definitionally equal to the model);
  * `C07Front`, `C07Fold`, `C07Item`, `C07Tail`, `C07Infer` — the stages on a rendered line.
-/
import GffModel.Grammar
import GffProofs.Lemmas.SplitJoin
import GffProofs.Lemmas.C07Infer
import GffProofs.Props.C08a

namespace GffProofs.C07
open GffModel GffModel.Parser GffModel.Grammar

/-- **Parse ∘ render**: on a well-formed line specification the inferring parser returns exactly the
specified mapping (decoded values, in order) and exactly the dialect the text was written in
(this second component is C09's per-line recovery).  Percent-decoding inverts
percent-encoding by `C08.unquote_quote`. -/
theorem infer_render (s : LineSpec) (h : s.WF = true) :
    splitKeyvals (renderAttrs s) none = .ok (s.mapping, s.dialect) :=
  infer_render_aux s (wfacts s h) C08.unquote_quote

/-- **Print ∘ parse ∘ render (attribute column)**: printing the parsed mapping with the inferred
dialect and `keep_order=True` reproduces the attribute text byte for byte. -/
theorem reconstruct_render (s : LineSpec) (h : s.WF = true) :
    reconstruct s.mapping (some s.dialect) true false = .ok (renderAttrs s) :=
  reconstruct_render_aux s (wfacts s h)

/-- **Print ∘ parse ∘ render, attribute column, in one statement**: parsing the rendered attribute text
with dialect inference and printing the result with the inferred dialect (`keep_order=True`) gives
the text back, byte for byte. -/
theorem print_parse_render_attrs (s : LineSpec) (h : s.WF = true) :
    ∃ m d, splitKeyvals (renderAttrs s) none = .ok (m, d) ∧ m = s.mapping ∧ d = s.dialect ∧
      reconstruct m (some d) true false = .ok (renderAttrs s) :=
  ⟨s.mapping, s.dialect, infer_render s h, rfl, rfl, reconstruct_render s h⟩

/-! ### non-vacuity -/

/-- `ID=a%3Bb; Parent=p1; Parent=p2; flag;` — `key=value`, repeated keys, trailing semicolon -/
def ex1 : LineSpec :=
  { cols := ["chr1", "src", "gene", ".", ".", ".", "+", "."].map String.toList,
    sep := "; ".toList, trailing := true, style := .eq, quoted := false, repeated := true,
    attrs := [⟨"ID".toList, ["a;b".toList]⟩, ⟨"Parent".toList, ["p1".toList, "p2".toList]⟩,
              ⟨"flag".toList, []⟩],
    extra := [] }

/-- `gene_id "g 1" ; tag "" ; note "x,y"`-like GTF line (`key "value"`, quoted) -/
def ex2 : LineSpec :=
  { cols := ["chr1", "src", "exon", ".", ".", ".", "-", "0"].map String.toList,
    sep := " ; ".toList, trailing := false, style := .space, quoted := true, repeated := false,
    attrs := [⟨"gene_id".toList, ["g 1".toList]⟩, ⟨"tag".toList, []⟩,
              ⟨"note".toList, ["x=1".toList, "y".toList]⟩],
    extra := [] }

example : ex1.WF = true := by decide +kernel
example : ex2.WF = true := by decide +kernel

example : renderAttrs ex1 = "ID=a%3Bb; Parent=p1; Parent=p2; flag;".toList := by decide +kernel
example : renderAttrs ex2 = "gene_id \"g 1\" ; tag \"\" ; note \"x=1,y\"".toList := by decide +kernel

example : reconstruct ex1.mapping (some ex1.dialect) true false
    = .ok "ID=a%3Bb; Parent=p1; Parent=p2; flag;".toList := by
  rw [reconstruct_render ex1 (by decide +kernel)]; congr 1

example :
    splitKeyvals "gene_id \"g 1\" ; tag \"\" ; note \"x=1,y\"".toList none = .ok (ex2.mapping, ex2.dialect) := by
  have := infer_render ex2 (by decide +kernel)
  rwa [show renderAttrs ex2 = "gene_id \"g 1\" ; tag \"\" ; note \"x=1,y\"".toList by decide +kernel] at this

end GffProofs.C07

