/-
  C01 (continued) — import fidelity for the GTF importer, and the `sort_attribute_values` variant.

  S. `sort_attribute_values=True`
     * `reconstruct_sort_irrelevant` — `_reconstruct(…, sort_attribute_values=True)` equals
       `_reconstruct(…, sort_attribute_values=False)` on a mapping whose value lists, AS WRITTEN (percent-encoded
       when the format is gff3), are already in `sorted()` order;
     * `printed_identical_sorted` — `C01.printed_identical` for a database opened with `keep_order=True,
       sort_attribute_values=True` (GFF importer);
     * `raw_sorted_not_enough` — sortedness of the DECODED values is not the right hypothesis: `Name=a+,a%3B`
       has decoded values `a+ < a;` but written values `a+ > a%3B`, and is printed as `Name=a%3B,a+`.

  G. the GTF importer (from C03's invariants)
     * `import_all_once_in_order_gtf` — the analogue of `C01.import_all_once_in_order`;
     * `reopen_same_gtf`              — the analogue of `C01.reopen_same`;
     * `printed_identical_gtf`        — the first `#lines` features of the opened database print to the
                                        original lines, byte for byte.
-/
import GffProofs.Props.C01
import GffProofs.Props.C03

namespace GffProofs.C01
open GffModel GffModel.Parser GffModel.Grammar GffModel.Create GffModel.Interface
open GffProofs.C02 (idOf idKey GraphOk gffCfg)
open GffProofs.C07 (featureCols ColFacts)

/-! ## S. `sort_attribute_values` -/

/-- the value texts `_reconstruct` writes for one attribute under dialect `d`: percent-encoded exactly
when the format is gff3 -/
def writtenVals (d : Dialect) (vals : List Str) : List Str :=
  if d.fmt = gff3 then vals.map Quote.quoteStr else vals

/-- every value list of the mapping, as written under `d`, is already in `sorted()` order -/
def ValsSorted (d : Dialect) (m : Attrs) : Prop :=
  ∀ kv ∈ m, sortStrs (writtenVals d kv.2) = writtenVals d kv.2

/-- the same at the level of a line specification: every value list, as it stands in the file (`encVal`:
percent-encoded for gff3), is sorted -/
def SpecValsSorted (s : LineSpec) : Prop :=
  ∀ it ∈ s.attrs, sortStrs (it.vals.map s.encVal) = it.vals.map s.encVal

/-! the stages of `_reconstruct` (`reconstruct_unfold`: definitionally the model) -/

def attrsOf (m : Attrs) (d : Dialect) : Attrs :=
  if d.fmt ≠ gff3 then m else Dict.ofList (m.map (fun (k, v) => (k, v.map Quote.quoteStr)))

def splitItems (d : Dialect) (A : Attrs) : List (Str × List Str) :=
  if d.repeatedKeys then
    A.flatMap (fun (k, v) => if v.length > 1 then v.map (fun x => (k, [x])) else [(k, v)])
  else A

def itemsOf (m : Attrs) (d : Dialect) (ko : Bool) : List (Str × List Str) :=
  if ko then (splitItems d (attrsOf m d)).mergeSort (sortKeyLe d.order) else splitItems d (attrsOf m d)

def partText (d : Dialect) (sv : Bool) : Str × List Str → Str := fun (key, val) =>
  if !val.isEmpty then
    let val := if sv then sortStrs val else val
    let valStr := Str.join d.multiSep val
    if !valStr.isEmpty then
      let valStr := if d.quoted then '"' :: valStr ++ ['"'] else valStr
      Str.join d.kvSep [key, valStr]
    else key
  else
    if d.fmt = gtf then Str.join d.kvSep [key, ['"', '"']] else key

theorem reconstruct_unfold (m : Attrs) (d : Dialect) (ko sv : Bool) :
    reconstruct m (some d) ko sv =
      if m.isEmpty then .ok [] else
        .ok (if d.trailingSemicolon then Str.join d.fieldSep ((itemsOf m d ko).map (partText d sv)) ++ [';']
             else Str.join d.fieldSep ((itemsOf m d ko).map (partText d sv))) := by
  unfold reconstruct itemsOf splitItems attrsOf partText
  simp only [Bool.false_or, decide_eq_true_eq]

theorem attrsOf_sorted (m : Attrs) (d : Dialect) (h : ValsSorted d m) :
    ∀ kv ∈ attrsOf m d, sortStrs kv.2 = kv.2 := by
  intro kv hkv
  unfold attrsOf at hkv
  by_cases hf : d.fmt = gff3
  · simp only [hf, ne_eq, not_true_eq_false, if_false] at hkv
    obtain ⟨p, hp, rfl⟩ := List.mem_map.mp (C08bAux.mem_ofList _ _ hkv)
    have := h p hp
    unfold writtenVals at this
    rw [if_pos hf] at this
    exact this
  · simp only [hf, ne_eq, not_false_eq_true, if_true] at hkv
    have := h kv hkv
    unfold writtenVals at this
    rw [if_neg hf] at this
    exact this

theorem splitItems_sorted (d : Dialect) (A : Attrs) (hA : ∀ kv ∈ A, sortStrs kv.2 = kv.2) :
    ∀ kv ∈ splitItems d A, sortStrs kv.2 = kv.2 := by
  intro kv hkv
  unfold splitItems at hkv
  split at hkv
  · obtain ⟨p, hp, hm⟩ := List.mem_flatMap.mp hkv
    obtain ⟨k, v⟩ := p
    simp only at hm
    split at hm
    · obtain ⟨x, _, rfl⟩ := List.mem_map.mp hm
      simp [sortStrs]
    · simp only [List.mem_singleton] at hm
      subst hm; exact hA _ hp
  · exact hA kv hkv

theorem items_sorted (m : Attrs) (d : Dialect) (ko : Bool) (h : ValsSorted d m) :
    ∀ kv ∈ itemsOf m d ko, sortStrs kv.2 = kv.2 := by
  intro kv hkv
  unfold itemsOf at hkv
  split at hkv
  · exact splitItems_sorted d _ (attrsOf_sorted m d h) kv (List.mem_mergeSort.mp hkv)
  · exact splitItems_sorted d _ (attrsOf_sorted m d h) kv hkv

/-- **`sort_attribute_values` is invisible on sorted value lists.**  For EVERY mapping (duplicate keys,
flags, empty included), every dialect and both `keep_order`s: if each value list as written under the
dialect is already sorted, `_reconstruct` returns the same text with and without
`sort_attribute_values`. -/
theorem reconstruct_sort_irrelevant (m : Attrs) (d : Dialect) (ko : Bool) (h : ValsSorted d m) :
    reconstruct m (some d) ko true = reconstruct m (some d) ko false := by
  rw [reconstruct_unfold, reconstruct_unfold]
  have : (itemsOf m d ko).map (partText d true) = (itemsOf m d ko).map (partText d false) := by
    apply List.map_congr_left
    intro kv hkv
    obtain ⟨k, v⟩ := kv
    have hs := items_sorted m d ko h _ hkv
    simp only at hs
    simp only [partText, hs, if_true, Bool.false_eq_true, if_false]
  rw [this]

/-- hence `str(feature)` is the same with `sort_attribute_values=True` -/
theorem print_sort_irrelevant (f : Feature) (h : ValsSorted f.dialect f.attrs) :
    ({ f with sortVals := true } : Feature).print = ({ f with sortVals := false } : Feature).print := by
  unfold Feature.print
  have := reconstruct_sort_irrelevant f.attrs f.dialect f.keepOrder h
  simp only [bind, Except.bind]
  rw [this]

/-- `sorted(l) == l` iff `l` is non-decreasing -/
theorem sortStrs_eq_iff (l : List Str) : sortStrs l = l ↔ l.Pairwise (fun a b => strLe a b = true) := by
  unfold sortStrs
  constructor
  · intro h
    have := List.pairwise_mergeSort (le := strLe)
      (fun a b c hab hbc => by simp only [strLe, decide_eq_true_eq] at *; exact List.le_trans hab hbc)
      (fun a b => by simp only [strLe, Bool.or_eq_true, decide_eq_true_eq]; exact List.le_total a b) l
    rw [h] at this
    exact this
  · intro h
    exact List.mergeSort_of_pairwise h

theorem sortStrs_pair (a b : Str) : sortStrs [a, b] = if strLe a b then [a, b] else [b, a] := by
  unfold sortStrs
  simp [List.mergeSort, List.MergeSort.Internal.splitInTwo, List.merge]

theorem specValsSorted_iff (s : LineSpec) :
    SpecValsSorted s ↔ ∀ it ∈ s.attrs, (it.vals.map s.encVal).Pairwise (fun a b => strLe a b = true) := by
  unfold SpecValsSorted
  simp only [sortStrs_eq_iff]

instance (s : LineSpec) : Decidable (SpecValsSorted s) := decidable_of_iff _ (specValsSorted_iff s).symm

theorem map_encVal (s : LineSpec) (vals : List Str) :
    vals.map s.encVal = if s.fmt = gff3 then vals.map Quote.quoteStr else vals := by
  unfold LineSpec.encVal
  by_cases h : s.fmt = gff3 <;> simp [h]

/-- the specification-level predicate gives the mapping-level one under any dialect with the line's
dimensions -/
theorem valsSorted_of_spec (s : LineSpec) (d : Dialect) (hd : HasDims d s) (h : SpecValsSorted s) :
    ValsSorted d s.mapping := by
  intro kv hkv
  unfold LineSpec.mapping at hkv
  obtain ⟨it, hit, rfl⟩ := List.mem_map.mp hkv
  have := h it hit
  rw [map_encVal] at this
  unfold writtenVals
  rw [hd.fmt]
  exact this

/-- when nothing needs percent-encoding (or the format is not gff3) the decoded values may be compared -/
theorem specValsSorted_of_raw (s : LineSpec)
    (hraw : ∀ it ∈ s.attrs, sortStrs it.vals = it.vals)
    (henc : ∀ it ∈ s.attrs, ∀ v ∈ it.vals, s.encVal v = v) : SpecValsSorted s := by
  intro it hit
  have : it.vals.map s.encVal = it.vals := by
    rw [List.map_congr_left (henc it hit)]; simp
  rw [this]; exact hraw it hit

/-- **Printed form is byte-identical also with `sort_attribute_values=True`** (GFF importer).  The
hypotheses of `C01.printed_identical`, and every value list of every line is already sorted as it stands
in the file.  Then opening the imported database with `keep_order=True, sort_attribute_values=True` and
iterating it yields features that print exactly the feature lines of the input. -/
theorem printed_identical_sorted (lines : List Str) (specs : List LineSpec) (checklines : Nat) (d : Dialect)
    (strategy : Strategy)
    (hfl : Iter.featureLines lines = specs.map renderLine)
    (hwf : ∀ s ∈ specs, s.WFprov = true)
    (hvote : Iter.fileDialect lines checklines = .ok d)
    (hdims : ∀ s ∈ specs, HasDims d s)
    (hord : ∀ s ∈ specs, OrderConsistent d.order s)
    (hids : IdsOk specs)
    (hsorted : ∀ s ∈ specs, SpecValsSorted s) :
    ∃ db sess,
      Iter.runFile lines checklines none none =
        .ok (d, specs.map (fun s => provFeature s d false), Iter.directives lines) ∧
      createDb .gff (gffCfg strategy d) (Iter.directives lines) (specs.map (fun s => provFeature s d false)) = .ok db ∧
      openDb db true true = .ok sess ∧
      sess.sortVals = true ∧ sess.keepOrder = true ∧
      (runQuery sess {}).length = specs.length ∧
      ((runQuery sess {}).map sess.returner).mapM (fun f => f.print) = .ok (Iter.featureLines lines) := by
  obtain ⟨db0, sess0, hrun, hdb0, _⟩ := printed_identical lines specs checklines d strategy hfl hwf hvote hdims hord hids
  have hG := graphOk_of_idsOk specs hids d false
  obtain ⟨db, sess, hdb, hopen, hrows, hret, _, _, _, _, hko, hsv⟩ :=
    import_all_once_in_order strategy d (Iter.directives lines) _ hG true true
  refine ⟨db, sess, hrun, hdb, hopen, hsv, hko, ?_, ?_⟩
  · rw [hrows]; simp
  · rw [hret, hfl, List.map_map]
    apply C08bAux.mapM_map_ok
    intro s hs
    have hc := (provided_parse_render_line s (hwf s hs) d (hdims s hs) false).2.1
    have h1 : (returned d true true (provFeature s d false)).print =
        (returned d true false (provFeature s d false)).print :=
      print_sort_irrelevant (returned d true false (provFeature s d false))
        (valsSorted_of_spec s d (hdims s hs) (hsorted s hs))
    show (returned d true true (provFeature s d false)).print = _
    rw [h1]
    exact print_of_fields _ s hc rfl rfl rfl rfl
      (reconstruct_keep_order s (hwf s hs) d (hdims s hs) (hord s hs))

/-! ## G. the GTF importer -/

section Gtf
open GffProofs.C03

/-- the Feature an open database hands back for the input line `f` filed under key `k`: the eight
columns, attributes and extra columns of `f`; `id = k`; bin recomputed; the DATABASE's dialect and the
session's `keep_order` / `sort_attribute_values`; no file order -/
def returnedAs (d : Dialect) (ko sv : Bool) (f : Feature) (k : Str) : Feature :=
  { f with id := some k, bin := Feature.calcBin f.start f.stop, dialect := d, fileOrder := none,
           keepOrder := ko, sortVals := sv }

theorem lineRow_eq_rowOf (f : Feature) (k : Str) : lineRow f k = rowOf f k := rfl

theorem toFeature_lineRow (f : Feature) (k : Str) (d : Dialect) (ko sv : Bool) :
    (lineRow f k).toFeature d ko sv = returnedAs d ko sv f k := by
  rw [lineRow_eq_rowOf, toFeature_rowOf]; rfl

/-- the tables `_populate_from_lines` does not write -/
theorem addRels_meta (cfg : Cfg) (f : Feature) (k : Str) (db : Db) :
    (addRels cfg f k db).metaRows = db.metaRows ∧ (addRels cfg f k db).directives = db.directives := by
  have h : ∀ (d : Db) (r : Rel), (d.insertRelIgnore r).metaRows = d.metaRows ∧
      (d.insertRelIgnore r).directives = d.directives := by
    intro d r; unfold Db.insertRelIgnore; split <;> exact ⟨rfl, rfl⟩
  unfold addRels
  simp only
  repeat' split
  all_goals simp only [(h _ _).1, (h _ _).2, and_self]

theorem gtfStep_meta (cfg : Cfg) (hc : CfgOk cfg) (fs : List Feature) (h : GtfOk cfg fs)
    (pre : List Feature) (f : Feature) (post : List Feature) (hfs : fs = pre ++ f :: post)
    (db : Db) (auto : Dict Nat) (inv : PopInv cfg pre db auto) :
    ∃ db' auto', gtfStep cfg (db, auto) f = .ok (db', auto') ∧ PopInv cfg (pre ++ [f]) db' auto' ∧
      db'.metaRows = db.metaRows ∧ db'.directives = db.directives := by
  obtain ⟨db', auto', hstep, inv'⟩ := gtfStep_inv cfg hc fs h pre f post hfs db auto inv
  refine ⟨db', auto', hstep, inv', ?_⟩
  have hf : f ∈ fs := by rw [hfs]; simp
  obtain ⟨auto'', hid, _, _, _⟩ := lineKey_spec cfg hc fs h pre f hf auto inv.cnt
  have hfresh : lineKey cfg pre f ∉ db.features.map (·.id) := by
    have hn := h.keysNodup
    rw [hfs, keyed_append_cons, List.map_append, List.map_cons, List.nodup_append] at hn
    intro hin
    rw [inv.feats, List.map_map] at hin
    obtain ⟨fk, hfk, hfke⟩ := List.mem_map.mp hin
    exact hn.2.2 fk.2 (List.mem_map.mpr ⟨fk, hfk, rfl⟩) (lineKey cfg pre f) (by simp) hfke
  have := gtfStep_fresh cfg db auto auto'' f _ hid hfresh
  rw [hstep] at this
  simp only [Except.ok.injEq, Prod.mk.injEq] at this
  rw [this.1]
  exact addRels_meta cfg f _ _

theorem foldlM_gtfStep_meta (cfg : Cfg) (hc : CfgOk cfg) (fs : List Feature) (h : GtfOk cfg fs)
    (post : List Feature) : ∀ (pre : List Feature) (db : Db) (auto : Dict Nat), fs = pre ++ post →
      PopInv cfg pre db auto →
      ∃ db' auto', post.foldlM (gtfStep cfg) (db, auto) = .ok (db', auto') ∧ PopInv cfg fs db' auto' ∧
        db'.metaRows = db.metaRows ∧ db'.directives = db.directives := by
  induction post with
  | nil =>
    intro pre db auto hfs inv
    rw [List.append_nil] at hfs; subst hfs
    exact ⟨db, auto, rfl, inv, rfl, rfl⟩
  | cons f post ih =>
    intro pre db auto hfs inv
    obtain ⟨db1, auto1, h1, inv1, m1, d1⟩ := gtfStep_meta cfg hc fs h pre f post hfs db auto inv
    obtain ⟨db2, auto2, h2, inv2, m2, d2⟩ := ih (pre ++ [f]) db1 auto1 (by simpa using hfs) inv1
    refine ⟨db2, auto2, ?_, inv2, m2.trans m1, d2.trans d1⟩
    simp only [List.foldlM_cons, h1, bind, Except.bind]
    exact h2

/-- C03's `gtf_import_exact` together with the `meta` and `directives` tables: the database `create_db`
returns for a GTF file has the lines of the file in order under their keys, followed by the derived rows;
ONE meta row (the dialect) and the directives handed in -/
theorem createDb_gtf_rows (cfg : Cfg) (dirs : List Str) (fs : List Feature)
    (hc : CfgOk cfg) (h : GtfOk cfg fs) (he : ExtOk cfg fs) (hm : MergeOk cfg fs) :
    ∃ db D, createDb .gtf cfg dirs fs = .ok db ∧
      db.features = (keyed cfg fs).map (fun fk => lineRow fk.1 fk.2) ++ D ∧
      (∀ row, row ∈ D ↔ DerivedSpec cfg fs row) ∧
      (db.features.map (·.id)).Nodup ∧
      db.metaRows = [cfg.dialect] ∧ db.directives = dirs := by
  have hne : fs.isEmpty = false := by
    cases fs with
    | nil => exact absurd rfl h.nonempty
    | cons a l => rfl
  obtain ⟨db0, auto0, hfold, inv, hm0, hd0⟩ :=
    foldlM_gtfStep_meta cfg hc fs h fs [] {} [] rfl (popInv_empty cfg)
  have hp : populateGtf cfg {} [] fs = .ok (db0, auto0) := by
    unfold populateGtf; rw [hne]; exact hfold
  obtain ⟨dups, auto', hu⟩ := updateRelationsGtf_master hc h he inv (auto := auto0) hm
  refine ⟨finalize (st2 db0 (derivedRows cfg db0) dups) cfg.dialect dirs auto', derivedRows cfg db0, ?_, ?_, ?_, ?_,
    ?_, ?_⟩
  · simp only [createDb, hp, hu, bind, Except.bind, pure, Except.pure]
  · show db0.features ++ derivedRows cfg db0 = _
    rw [inv.feats]
  · exact derivedRows_spec hc h he inv
  · exact final_ids_nodup hc h he inv
  · show db0.metaRows ++ [cfg.dialect] = _
    rw [hm0]; rfl
  · show db0.directives ++ dirs = _
    rw [hd0]; rfl

/-- **GTF importer: every input line is stored exactly once, in input order, and comes back with its
content; then come exactly the derived rows.**  For a GTF feature list in C03's domain (`CfgOk`, `GtfOk`,
`ExtOk`, `MergeOk`), any directives and reader flags: `create_db` succeeds; opening the result succeeds;
a full iteration yields `fs.length + D.length` rows; the FIRST `fs.length` of them are the input lines in
input order, line `f` stored as `lineRow f key` under its key (`keyed`: the gene / transcript id of an
explicit line, `<featuretype>_<n>` otherwise); the Features handed back for them are
`returnedAs cfg.dialect ko sv f key` — the line's eight columns, attributes and extra columns, `id` = the
key, the bin of the coordinates, the database dialect, the reader's flags; the REST is exactly the derived
rows `D` (`DerivedSpec`: one `transcript` / `gene` row per inferred transcript / gene); all ids are
pairwise distinct.  The session carries the dialect and the directives. -/
theorem import_all_once_in_order_gtf (cfg : Cfg) (dirs : List Str) (fs : List Feature)
    (hc : CfgOk cfg) (h : GtfOk cfg fs) (he : ExtOk cfg fs) (hm : MergeOk cfg fs) (ko sv : Bool) :
    ∃ db s D, createDb .gtf cfg dirs fs = .ok db ∧ openDb db ko sv = .ok s ∧
      runQuery s {} = (keyed cfg fs).map (fun fk => lineRow fk.1 fk.2) ++ D ∧
      (keyed cfg fs).map (·.1) = fs ∧
      (runQuery s {}).take fs.length = (keyed cfg fs).map (fun fk => lineRow fk.1 fk.2) ∧
      (runQuery s {}).drop fs.length = D ∧
      (∀ row, row ∈ D ↔ DerivedSpec cfg fs row) ∧
      ((runQuery s {}).map (·.id)).Nodup ∧
      ((runQuery s {}).take fs.length).map s.returner =
        (keyed cfg fs).map (fun fk => returnedAs cfg.dialect ko sv fk.1 fk.2) ∧
      (∀ f k, (returnedAs cfg.dialect ko sv f k).seqid = f.seqid ∧ (returnedAs cfg.dialect ko sv f k).source = f.source ∧
        (returnedAs cfg.dialect ko sv f k).ftype = f.ftype ∧ (returnedAs cfg.dialect ko sv f k).start = f.start ∧
        (returnedAs cfg.dialect ko sv f k).stop = f.stop ∧ (returnedAs cfg.dialect ko sv f k).score = f.score ∧
        (returnedAs cfg.dialect ko sv f k).strand = f.strand ∧ (returnedAs cfg.dialect ko sv f k).frame = f.frame ∧
        (returnedAs cfg.dialect ko sv f k).attrs = f.attrs ∧ (returnedAs cfg.dialect ko sv f k).extra = f.extra ∧
        (returnedAs cfg.dialect ko sv f k).id = some k) ∧
      s.db = db ∧ s.dialect = cfg.dialect ∧ s.directives = dirs ∧ s.keepOrder = ko ∧ s.sortVals = sv := by
  obtain ⟨db, D, hdb, hf, hD, hnd, hmeta, hdir⟩ := createDb_gtf_rows cfg dirs fs hc h he hm
  have hopen : openDb db ko sv = .ok ⟨db, db.autoinc, cfg.dialect, db.directives, ko, sv⟩ := by
    unfold openDb; rw [hmeta]
  have hlen : ((keyed cfg fs).map (fun fk => lineRow fk.1 fk.2)).length = fs.length := by
    rw [List.length_map, keyed_length]
  have hq : runQuery ⟨db, db.autoinc, cfg.dialect, db.directives, ko, sv⟩ {} =
      (keyed cfg fs).map (fun fk => lineRow fk.1 fk.2) ++ D := by
    rw [C11.full_iteration_in_input_order]; exact hf
  have htake : (runQuery ⟨db, db.autoinc, cfg.dialect, db.directives, ko, sv⟩ {}).take fs.length =
      (keyed cfg fs).map (fun fk => lineRow fk.1 fk.2) := by
    rw [hq, ← hlen, List.take_left]
  refine ⟨db, _, D, hdb, hopen, hq, keyed_map_fst cfg fs, htake, ?_, hD, ?_, ?_, ?_, rfl, rfl, hdir, rfl, rfl⟩
  · rw [hq, ← hlen, List.drop_left]
  · rw [hq, ← hf]; exact hnd
  · rw [htake, List.map_map]
    apply List.map_congr_left
    intro fk _
    exact toFeature_lineRow fk.1 fk.2 cfg.dialect ko sv
  · intro f k; exact ⟨rfl, rfl, rfl, rfl, rfl, rfl, rfl, rfl, rfl, rfl, rfl⟩

/-- **Closing and reopening a GTF-imported database observes the same content**: two sessions opened on
the database `create_db` returned — with any reader flags — agree on dialect (`= cfg.dialect`), directives
(`= dirs`), counters, the stored rows and every query; with equal flags they hand back the same
Features. -/
theorem reopen_same_gtf (cfg : Cfg) (dirs : List Str) (fs : List Feature)
    (hc : CfgOk cfg) (h : GtfOk cfg fs) (he : ExtOk cfg fs) (hm : MergeOk cfg fs) (ko sv ko' sv' : Bool) :
    ∃ db s s' D, createDb .gtf cfg dirs fs = .ok db ∧
      openDb db ko sv = .ok s ∧ openDb db ko' sv' = .ok s' ∧
      s'.dialect = s.dialect ∧ s.dialect = cfg.dialect ∧ s'.directives = s.directives ∧ s.directives = dirs ∧
      s'.auto = s.auto ∧ s'.db.features = s.db.features ∧
      s.db.features = (keyed cfg fs).map (fun fk => lineRow fk.1 fk.2) ++ D ∧
      (∀ row, row ∈ D ↔ DerivedSpec cfg fs row) ∧
      (∀ q, runQuery s' q = runQuery s q) ∧
      (∀ isChildren x level q, runRelation s' isChildren x level q = runRelation s isChildren x level q) ∧
      (ko' = ko → sv' = sv → ∀ r, s'.returner r = s.returner r) := by
  obtain ⟨db, D, hdb, hf, hD, _, hmeta, hdir⟩ := createDb_gtf_rows cfg dirs fs hc h he hm
  have hopen : ∀ a b, openDb db a b = .ok ⟨db, db.autoinc, cfg.dialect, db.directives, a, b⟩ := by
    intro a b; unfold openDb; rw [hmeta]
  refine ⟨db, _, _, D, hdb, hopen ko sv, hopen ko' sv', rfl, rfl, rfl, hdir, rfl, rfl, hf, hD,
    fun q => rfl, fun _ _ _ _ => rfl, ?_⟩
  intro h1 h2 r; subst h1 h2; rfl

/-- **GTF importer: the input lines print back byte for byte.**  `specs` are renderable line
specifications (`WFprov`); the database dialect `cfg.dialect` carries the dimensions every line is written
in, and every line's key order is consistent with its `order` (the per-line hypotheses of
`C01.provided_print_parse_render`); the features parsed from the lines with that dialect,
`provFeature s cfg.dialect false`, are in C03's domain.  Then `create_db` (GTF importer) succeeds, opening
with `keep_order=True` succeeds, and the FIRST `specs.length` features of a full iteration print exactly
the rendered lines, in input order. -/
theorem printed_identical_gtf (cfg : Cfg) (dirs : List Str) (specs : List LineSpec)
    (hwf : ∀ s ∈ specs, s.WFprov = true)
    (hdims : ∀ s ∈ specs, HasDims cfg.dialect s)
    (hord : ∀ s ∈ specs, OrderConsistent cfg.dialect.order s)
    (hc : CfgOk cfg)
    (h : GtfOk cfg (specs.map (fun s => provFeature s cfg.dialect false)))
    (he : ExtOk cfg (specs.map (fun s => provFeature s cfg.dialect false)))
    (hm : MergeOk cfg (specs.map (fun s => provFeature s cfg.dialect false))) :
    ∃ db sess, createDb .gtf cfg dirs (specs.map (fun s => provFeature s cfg.dialect false)) = .ok db ∧
      openDb db true false = .ok sess ∧ sess.directives = dirs ∧
      (runQuery sess {}).length ≥ specs.length ∧
      (((runQuery sess {}).take specs.length).map sess.returner).mapM (fun f => f.print) =
        .ok (specs.map renderLine) := by
  obtain ⟨db, sess, D, hdb, hopen, hq, hfst, _, _, _, _, hret, _, _, _, hdir, _, _⟩ :=
    import_all_once_in_order_gtf cfg dirs _ hc h he hm true false
  rw [List.length_map] at hret
  refine ⟨db, sess, hdb, hopen, hdir, ?_, ?_⟩
  · rw [hq, List.length_append, List.length_map, keyed_length, List.length_map]; omega
  · rw [hret]
    -- the keyed list is the spec list zipped with keys: print ignores the key
    have hpr : ∀ fk ∈ keyed cfg (specs.map (fun s => provFeature s cfg.dialect false)),
        ∃ s ∈ specs, fk.1 = provFeature s cfg.dialect false := by
      intro fk hfk
      have := mem_of_mem_keyed hfk
      obtain ⟨s, hs, e⟩ := List.mem_map.mp this
      exact ⟨s, hs, e.symm⟩
    have hmap : ∀ (l : List (Feature × Str)) (ss : List LineSpec),
        l.map (·.1) = ss.map (fun s => provFeature s cfg.dialect false) → (∀ s ∈ ss, s ∈ specs) →
        (l.map (fun fk => returnedAs cfg.dialect true false fk.1 fk.2)).mapM (fun f => f.print) =
          .ok (ss.map renderLine) := by
      intro l
      induction l with
      | nil =>
        intro ss hl _
        cases ss with
        | nil => rfl
        | cons a b => simp at hl
      | cons fk l ih =>
        intro ss hl hss
        cases ss with
        | nil => simp at hl
        | cons s ss =>
          simp only [List.map_cons, List.cons.injEq] at hl
          have hs := hss s (by simp)
          have hc' := (provided_parse_render_line s (hwf s hs) cfg.dialect (hdims s hs) false).2.1
          have hp : (returnedAs cfg.dialect true false fk.1 fk.2).print = .ok (renderLine s) := by
            rw [hl.1]
            exact print_of_fields _ s hc' rfl rfl rfl rfl
              (reconstruct_keep_order s (hwf s hs) cfg.dialect (hdims s hs) (hord s hs))
          have := ih ss hl.2 (fun t ht => hss t (by simp [ht]))
          simp only [List.map_cons, List.mapM_cons, hp, this, bind, Except.bind, pure, Except.pure]
    exact hmap _ specs hfst (fun s hs => hs)

/-- the same from the text of the file: `lines` is any text whose feature lines are the renderings of
`specs`, read by `DataIterator(text, checklines)` — which votes the dialect `cfg.dialect` the database is
created with — and handed to the GTF importer together with its directives -/
theorem printed_identical_gtf_file (cfg : Cfg) (lines : List Str) (specs : List LineSpec) (checklines : Nat)
    (hfl : Iter.featureLines lines = specs.map renderLine)
    (hwf : ∀ s ∈ specs, s.WFprov = true)
    (hvote : Iter.fileDialect lines checklines = .ok cfg.dialect)
    (hdims : ∀ s ∈ specs, HasDims cfg.dialect s)
    (hord : ∀ s ∈ specs, OrderConsistent cfg.dialect.order s)
    (hc : CfgOk cfg)
    (h : GtfOk cfg (specs.map (fun s => provFeature s cfg.dialect false)))
    (he : ExtOk cfg (specs.map (fun s => provFeature s cfg.dialect false)))
    (hm : MergeOk cfg (specs.map (fun s => provFeature s cfg.dialect false))) :
    ∃ db sess,
      Iter.runFile lines checklines none none =
        .ok (cfg.dialect, specs.map (fun s => provFeature s cfg.dialect false), Iter.directives lines) ∧
      createDb .gtf cfg (Iter.directives lines) (specs.map (fun s => provFeature s cfg.dialect false)) = .ok db ∧
      openDb db true false = .ok sess ∧ sess.directives = Iter.directives lines ∧
      (((runQuery sess {}).take specs.length).map sess.returner).mapM (fun f => f.print) =
        .ok (Iter.featureLines lines) := by
  have hiter := iterate_specs lines specs cfg.dialect hfl
    (fun s hs => ⟨(pfacts s (hwf s hs)).1, (pfacts s (hwf s hs)).2, hasDims_eq cfg.dialect s (hdims s hs)⟩)
  obtain ⟨db, sess, hdb, hopen, hdir, _, hp⟩ :=
    printed_identical_gtf cfg (Iter.directives lines) specs hwf hdims hord hc h he hm
  refine ⟨db, sess, ?_, hdb, hopen, hdir, by rw [hfl]; exact hp⟩
  unfold Iter.runFile
  simp only [hvote, hiter, bind, Except.bind, pure, Except.pure]

end Gtf

/-! ## Non-vacuity -/

section Examples

/-! #### S -/

/-- a GFF3 file whose multi-valued attributes are sorted as written -/
def sortedSpecs : List LineSpec :=
  [gffSpec ["chr1", ".", "gene", "1", "1000", ".", "+", "."] [("ID", ["g1"]), ("Alias", ["a1", "a2", "b"])],
   gffSpec ["chr1", ".", "exon", ".", ".", ".", "+", "."] [("ID", ["e1"]), ("Parent", ["m1", "m2"]), ("flag", [])]]

def sortedLines : List Str :=
  ["##gff-version 3",
   "chr1\t.\tgene\t1\t1000\t.\t+\t.\tID=g1;Alias=a1,a2,b",
   "chr1\t.\texon\t.\t.\t.\t+\t.\tID=e1;Parent=m1,m2;flag"].map String.toList

theorem sorted_fl : Iter.featureLines sortedLines = sortedSpecs.map renderLine := by decide +kernel

example : ∀ s ∈ sortedSpecs, SpecValsSorted s := by decide +kernel

/-- all hypotheses of `printed_identical_sorted` hold: the database opened with
`sort_attribute_values=True` prints the two feature lines -/
example : ∃ db sess,
    createDb .gff (gffCfg .error (dOf (gffSpec [] []) ["ID".toList, "Alias".toList, "Parent".toList, "flag".toList]))
      ["gff-version 3".toList]
      (sortedSpecs.map (fun s => provFeature s
        (dOf (gffSpec [] []) ["ID".toList, "Alias".toList, "Parent".toList, "flag".toList]) false)) = .ok db ∧
    openDb db true true = .ok sess ∧ sess.sortVals = true ∧
    ((runQuery sess {}).map sess.returner).mapM (fun f => f.print) =
      .ok ["chr1\t.\tgene\t1\t1000\t.\t+\t.\tID=g1;Alias=a1,a2,b".toList,
           "chr1\t.\texon\t.\t.\t.\t+\t.\tID=e1;Parent=m1,m2;flag".toList] := by
  have hv : Iter.fileDialect sortedLines 10 =
      .ok (dOf (gffSpec [] []) ["ID".toList, "Alias".toList, "Parent".toList, "flag".toList]) := by
    rw [window_votes_dialect sortedLines sortedSpecs 10 (gffSpec [] []) sorted_fl (by decide) (by decide +kernel)]
    congr 2
  obtain ⟨db, sess, _, h2, h3, h4, _, _, h7⟩ :=
    printed_identical_sorted sortedLines sortedSpecs 10 _ .error sorted_fl (by decide +kernel) hv
      (by decide +kernel) (by intro s hs; rw [orderConsistent_iff]; revert s; decide +kernel)
      (idsOk_of_list sortedSpecs ["g1".toList, "e1".toList] (by decide) (by decide +kernel) (by decide))
      (by decide +kernel)
  have hdir : Iter.directives sortedLines = ["gff-version 3".toList] := by decide +kernel
  have hfl' : Iter.featureLines sortedLines =
      ["chr1\t.\tgene\t1\t1000\t.\t+\t.\tID=g1;Alias=a1,a2,b".toList,
       "chr1\t.\texon\t.\t.\t.\t+\t.\tID=e1;Parent=m1,m2;flag".toList] := by decide +kernel
  rw [hdir] at h2
  rw [hfl'] at h7
  exact ⟨db, sess, h2, h3, h4, h7⟩

/-- **sortedness of the DECODED value lists is not the right hypothesis.**  `Name` has the decoded values
`a+`, `a;` — sorted (`+` < `;`) — but they are written `a+`, `a%3B`, and `%` < `+`: with
`sort_attribute_values=True` the line `…Name=a+,a%3B` is printed `…Name=a%3B,a+`. -/
theorem raw_sorted_not_enough :
    let s := gffSpec ["c", ".", "gene", "1", "9", ".", "+", "."] [("ID", ["x"]), ("Name", ["a+", "a;"])]
    let d := dOf (gffSpec [] []) ["ID".toList, "Name".toList]
    s.WF = true ∧ HasDims d s ∧ OrderConsistent d.order s ∧
    (∀ it ∈ s.attrs, sortStrs it.vals = it.vals) ∧ ¬ SpecValsSorted s ∧
    renderAttrs s = "ID=x;Name=a+,a%3B".toList ∧
    reconstruct s.mapping (some d) true false = .ok "ID=x;Name=a+,a%3B".toList ∧
    reconstruct s.mapping (some d) true true = .ok "ID=x;Name=a%3B,a+".toList := by
  intro s d
  have hwf : s.WF = true := by decide +kernel
  have hd : HasDims d s := by decide
  have ho : OrderConsistent d.order s := by rw [orderConsistent_iff]; decide +kernel
  have hr : renderAttrs s = "ID=x;Name=a+,a%3B".toList := by decide +kernel
  refine ⟨hwf, hd, ho, ?_, by decide +kernel, hr, ?_, ?_⟩
  · simp only [sortStrs_eq_iff]; decide +kernel
  · rw [← hr]; exact reconstruct_keep_order s (wfprov_of_wf s hwf) d hd ho
  · have h0 : splitItems d (attrsOf s.mapping d) =
        [("ID".toList, ["x".toList]), ("Name".toList, ["a+".toList, "a%3B".toList])] := by decide +kernel
    have hi : itemsOf s.mapping d true =
        [("ID".toList, ["x".toList]), ("Name".toList, ["a+".toList, "a%3B".toList])] := by
      unfold itemsOf
      rw [if_pos rfl, h0]
      exact List.mergeSort_of_pairwise (by decide +kernel)
    have h1 : sortStrs ["x".toList] = ["x".toList] := by simp [sortStrs]
    have h2 : sortStrs ["a+".toList, "a%3B".toList] = ["a%3B".toList, "a+".toList] := by
      rw [sortStrs_pair]; decide +kernel
    rw [reconstruct_unfold, hi]
    simp only [List.map_cons, List.map_nil, partText, if_true, h1, h2]
    decide +kernel

/-! #### G -/

open GffProofs.C03 in
/-- a GTF file (`; `, trailing semicolon, quoted `key "value"`): exons of transcript `T1`, an explicit
`transcript` line for `T2` and an exon of it (with a valueless flag and an extra column) -/
def gtfFile : List LineSpec :=
  [gtfSpec ["chr1", "havana", "exon", "100", "200", ".", "+", "."] [("gene_id", ["G1"]), ("transcript_id", ["T1"])],
   gtfSpec ["chr1", "havana", "CDS", "120", "180", ".", "+", "0"] [("gene_id", ["G1"]), ("transcript_id", ["T1"])],
   gtfSpec ["chr1", "havana", "transcript", "50", "900", ".", "+", "."]
     [("gene_id", ["G1"]), ("transcript_id", ["T2"])],
   gtfSpec ["chr1", "havana", "exon", "300", "400", ".", "+", "."]
     [("gene_id", ["G1"]), ("transcript_id", ["T2"]), ("tag", [])] ["x"]]

def gtfDialect : Dialect := dOf (gtfSpec [] []) ["gene_id".toList, "transcript_id".toList, "tag".toList]

def gtfCfg : Cfg := { idSpec := defaultGtfSpec, dialect := gtfDialect }

def gtfFeats : List Feature := gtfFile.map (fun s => provFeature s gtfCfg.dialect false)

section
open GffProofs.C03

theorem gtfCfg_ok : CfgOk gtfCfg := ⟨rfl, by decide, by decide, by decide, by decide, by decide⟩

instance decSingle' (o : Option (List Str)) : Decidable (∃ g, o = some [g]) :=
  match o with
  | some [g] => isTrue ⟨g, rfl⟩
  | none => isFalse (by rintro ⟨g, hg⟩; cases hg)
  | some [] => isFalse (by rintro ⟨g, hg⟩; cases hg)
  | some (_ :: _ :: _) => isFalse (by rintro ⟨g, hg⟩; cases hg)

theorem gtfFeats_ok : GtfOk gtfCfg gtfFeats where
  nonempty := by decide
  geneLines := by decide +kernel
  trLines := by decide +kernel
  explicitDistinct := by decide +kernel
  idsNotAuto := by decide +kernel
  tgDisjoint := by decide +kernel

theorem gtfFeats_ext : ExtOk gtfCfg gtfFeats :=
  extOk_of_dec (by decide +kernel) (by decide +kernel) (by decide +kernel) (by decide +kernel) (by decide +kernel)

theorem gtfFeats_merge : MergeOk gtfCfg gtfFeats where
  srcCompared := fun _ => by decide
  srcNotDerived := by decide +kernel
  noSuffixed := by
    intro fk hfk hex n
    have hall : ∀ fk ∈ keyed gtfCfg gtfFeats, explicit fk.1 = true →
        ∀ c ∈ (keyed gtfCfg gtfFeats).map (·.2) ++ tids gtfCfg gtfFeats ++ gids gtfCfg gtfFeats,
          (fk.2 ++ ['_']).isPrefixOf c = false := by decide +kernel
    have := autoId_notin_of_prefix fk.2 _ (hall fk hfk hex) n
    simp only [List.mem_append, not_or] at this
    exact ⟨this.1.1, this.1.2, this.2⟩

/-- the keys the four lines are filed under -/
example : (keyed gtfCfg gtfFeats).map (·.2) =
    ["exon_1".toList, "CDS_1".toList, "T2".toList, "exon_2".toList] := by decide +kernel

/-- `import_all_once_in_order_gtf` applies: four line rows, then the derived rows -/
example : ∃ db s D, createDb .gtf gtfCfg ["gtf-version 2".toList] gtfFeats = .ok db ∧
    openDb db true false = .ok s ∧
    (runQuery s {}).take 4 = (keyed gtfCfg gtfFeats).map (fun fk => lineRow fk.1 fk.2) ∧
    (runQuery s {}).drop 4 = D ∧ (∀ row, row ∈ D ↔ DerivedSpec gtfCfg gtfFeats row) ∧
    s.dialect = gtfDialect ∧ s.directives = ["gtf-version 2".toList] := by
  obtain ⟨db, s, D, h1, h2, _, _, h5, h6, h7, _, _, _, _, h12, h13, _, _⟩ :=
    import_all_once_in_order_gtf gtfCfg ["gtf-version 2".toList] gtfFeats gtfCfg_ok gtfFeats_ok gtfFeats_ext
      gtfFeats_merge true false
  exact ⟨db, s, D, h1, h2, h5, h6, h7, h12, h13⟩

/-- … and the derived part is not empty here: `T1` has no explicit line, so a derived `transcript` row is
stored under `T1` (`#eval` of the model: ids `exon_1 CDS_1 T2 exon_2 | T1 G1`) -/
example : ∃ db row, createDb .gtf gtfCfg [] gtfFeats = .ok db ∧
    db.features.filter (·.id = "T1".toList) = [row] ∧
    IsTranscriptRow gtfCfg gtfFeats "T1".toList "G1".toList row := by
  obtain ⟨db, row, h1, h2, h3, _⟩ :=
    transcript_extent gtfCfg [] gtfFeats gtfCfg_ok gtfFeats_ok gtfFeats_ext gtfFeats_merge rfl
      "T1".toList "G1".toList (by unfold TOwns; decide +kernel) (by decide +kernel)
  exact ⟨db, row, h1, h2, h3⟩

/-- `printed_identical_gtf` applies: the first four returned features print the four lines -/
example : ∃ db sess, createDb .gtf gtfCfg [] gtfFeats = .ok db ∧ openDb db true false = .ok sess ∧
    (((runQuery sess {}).take 4).map sess.returner).mapM (fun f => f.print) =
      .ok ["chr1\thavana\texon\t100\t200\t.\t+\t.\tgene_id \"G1\"; transcript_id \"T1\";".toList,
           "chr1\thavana\tCDS\t120\t180\t.\t+\t0\tgene_id \"G1\"; transcript_id \"T1\";".toList,
           "chr1\thavana\ttranscript\t50\t900\t.\t+\t.\tgene_id \"G1\"; transcript_id \"T2\";".toList,
           "chr1\thavana\texon\t300\t400\t.\t+\t.\tgene_id \"G1\"; transcript_id \"T2\"; tag \"\";\tx".toList] := by
  obtain ⟨db, sess, h1, h2, _, _, h5⟩ :=
    printed_identical_gtf gtfCfg [] gtfFile (by decide +kernel) (by decide +kernel)
      (by intro s hs; rw [orderConsistent_iff]; revert s; decide +kernel)
      gtfCfg_ok gtfFeats_ok gtfFeats_ext gtfFeats_merge
  have hr : gtfFile.map renderLine =
      ["chr1\thavana\texon\t100\t200\t.\t+\t.\tgene_id \"G1\"; transcript_id \"T1\";".toList,
       "chr1\thavana\tCDS\t120\t180\t.\t+\t0\tgene_id \"G1\"; transcript_id \"T1\";".toList,
       "chr1\thavana\ttranscript\t50\t900\t.\t+\t.\tgene_id \"G1\"; transcript_id \"T2\";".toList,
       "chr1\thavana\texon\t300\t400\t.\t+\t.\tgene_id \"G1\"; transcript_id \"T2\"; tag \"\";\tx".toList] := by
    decide +kernel
  rw [hr] at h5
  exact ⟨db, sess, h1, h2, h5⟩

end

end Examples

end GffProofs.C01
